/-
  L4 printer lemmas: a running summary of the pieces written so far (last piece, tokens, whether
  the last token was a newline, whether no two pieces glue), how each printer primitive changes
  it, and — for programs made of simple commands — that the printer's output is a concrete syntax
  in the sense of `lexChain` / `expect` / layout trees.
-/
import ShVerif.Proofs.L4Parse
namespace ShVerif.L4

/-! ## Summaries of piece lists, computed left to right -/

def Piece.first? (p : Piece) : Option UInt8 := p.bytes.head?

/-- tokens a piece contributes, given whether the previous token was a newline -/
def pieceToks (sk : Bool) : Piece → List ATok
  | .word parts => [.word (mergeN (parts.map WordPart.erase))]
  | .op b => match opTok b with | some t => [t] | none => []
  | .gap b => match gapKind b with
    | some .newline => if sk then [] else [.newl]
    | _ => []

def pieceSk (sk : Bool) : Piece → Bool
  | .word _ => false
  | .op _ => false
  | .gap b => match gapKind b with
    | some .newline => true
    | _ => sk

structure Sum where
  last : Option Piece := none
  sk : Bool := false
  toks : List ATok := []
  ok : Bool := true

def Sum.step (a : Sum) (q : Piece) : Sum :=
  { last := some q
    sk := pieceSk a.sk q
    toks := a.toks ++ pieceToks a.sk q
    ok := a.ok && q.shapeOK && (match a.last with
      | none => true
      | some l => followOK l q.first?) }

def summarize (a : Sum) (ps : List Piece) : Sum := ps.foldl Sum.step a

theorem summarize_append (a : Sum) (ps qs : List Piece) : summarize a (ps ++ qs) = summarize (summarize a ps) qs := by
  simp [summarize, List.foldl_append]

/-- a piece of a printer shape has at least one byte -/
theorem Piece.shapeOK_first {q : Piece} (h : q.shapeOK = true) : ∃ b t, q.bytes = b :: t := by
  cases q with
  | word parts =>
    simp only [Piece.shapeOK, Bool.and_eq_true, Bool.not_eq_true', List.isEmpty_eq_false_iff, List.all_eq_true] at h
    obtain ⟨b, t, hb, _⟩ := wordBytes_head parts h.1 h.2
    exact ⟨b, t, hb⟩
  | op b =>
    cases b with
    | nil => simp [Piece.shapeOK, opTok] at h
    | cons x t => exact ⟨x, t, rfl⟩
  | gap b =>
    cases b with
    | nil => simp [Piece.shapeOK, gapKind] at h
    | cons x t => exact ⟨x, t, rfl⟩

theorem render_cons_head {q : Piece} (h : q.shapeOK = true) (rest : List Piece) :
    (render (q :: rest)).head? = q.first? := by
  obtain ⟨b, t, hb⟩ := Piece.shapeOK_first h
  simp [render, Piece.first?, hb]

/-- `lexChain` and `expect` from the summary: generalised over the pieces already seen -/
theorem lexChain_expect_of_sum : ∀ (ps : List Piece) (a : Sum) (l : Piece),
    a.last = some l → (summarize a ps).ok = true →
    (match (summarize a ps).last with | some z => followOK z none | none => true) = true →
    a.ok = true ∧ followOK l (render ps).head? = true ∧ lexChain ps = true ∧
      (summarize a ps).toks ++ [ATok.eof] = a.toks ++ expect a.sk ps := by
  intro ps
  induction ps with
  | nil =>
    intro a l hl hok hlast
    simp only [summarize, List.foldl_nil, hl] at hok hlast
    simp [summarize, render, lexChain, expect, hok, hlast]
  | cons q rest ih =>
    intro a l hl hok hlast
    have hstep : summarize a (q :: rest) = summarize (a.step q) rest := rfl
    rw [hstep] at hok hlast
    obtain ⟨h1, h2, h3, h4⟩ := ih (a.step q) q rfl hok hlast
    simp only [Sum.step, hl, Bool.and_eq_true] at h1
    obtain ⟨⟨ha, hq⟩, hf⟩ := h1
    refine ⟨ha, ?_, ?_, ?_⟩
    · rw [render_cons_head hq]; exact hf
    · simp only [lexChain, hq, h2, h3, Bool.and_self]
    · rw [hstep, h4]
      simp only [Sum.step, List.append_assoc]
      congr 1
      cases q with
      | word parts => simp [pieceToks, pieceSk, expect]
      | op b =>
        simp only [pieceToks, pieceSk, expect]
        cases opTok b <;> rfl
      | gap b =>
        simp only [pieceToks, pieceSk, expect]
        cases hg : gapKind b with
        | none => simp
        | some k =>
          cases k <;> simp
          cases a.sk <;> simp


/-- the whole output: from the empty summary -/
theorem lexChain_expect_init (ps : List Piece) (hok : (summarize {} ps).ok = true)
    (hlast : (match (summarize {} ps).last with | some z => followOK z none | none => true) = true) :
    lexChain ps = true ∧ expect false ps = (summarize {} ps).toks ++ [ATok.eof] := by
  cases ps with
  | nil => simp [lexChain, expect, summarize]
  | cons q rest =>
    have hstep : summarize {} (q :: rest) = summarize (Sum.step {} q) rest := rfl
    rw [hstep] at hok hlast ⊢
    obtain ⟨h1, h2, h3, h4⟩ := lexChain_expect_of_sum rest (Sum.step {} q) q rfl hok hlast
    simp only [Sum.step, Bool.true_and, Bool.and_true] at h1
    refine ⟨by simp only [lexChain, h1, h2, h3, Bool.and_self], ?_⟩
    rw [h4]
    cases q with
    | word parts => simp [Sum.step, pieceToks, pieceSk, expect]
    | op b => simp only [Sum.step, pieceToks, pieceSk, expect, List.nil_append]; cases opTok b <;> rfl
    | gap b =>
      simp only [Sum.step, pieceToks, pieceSk, expect, List.nil_append]
      cases hg : gapKind b with
      | none => simp
      | some k => cases k <;> simp

/-! ## The summary of the printer state -/

def P.sum (p : P) : Sum := summarize {} p.out.reverse

theorem P.sum_push (p : P) (q : Piece) (p' : P) (h : p'.out = q :: p.out) : p'.sum = p.sum.step q := by
  simp [P.sum, h, summarize, List.foldl_append]

theorem P.sum_same (p p' : P) (h : p'.out = p.out) : p'.sum = p.sum := by
  simp [P.sum, h]

/-- pieces after which a word, `!` or an escaped newline must not follow directly -/
def needsGap : Piece → Bool
  | .word _ => true
  | .gap _ => false
  | .op b => b == [123] || b == [125] || b == [33] || b == [38]

theorem followOK_blank (l : Piece) (c : UInt8) (hc : c = 32 ∨ c = 10 ∨ c = 9) : followOK l (some c) = true := by
  rcases hc with rfl | rfl | rfl <;> cases l <;> simp only [followOK, optAll] <;> (try rfl) <;>
    (repeat' split) <;> decide

/-- after a piece that needs no gap, a word byte, `!`, or a backslash may follow directly -/
theorem followOK_free (l : Piece) (c : UInt8) (hl : needsGap l = false)
    (hc : (c == 92 || c == 33 || isSafe c || c == 39) = true) : followOK l (some c) = true := by
  cases l with
  | word _ => simp [needsGap] at hl
  | gap _ => rfl
  | op b =>
    simp only [needsGap, Bool.or_eq_false_iff, beq_eq_false_iff_ne, ne_eq] at hl
    obtain ⟨⟨⟨h1, h2⟩, h3⟩, h4⟩ := hl
    have key : ∀ x : UInt8, (x == 92 || x == 33 || isSafe x || x == 39) = true →
        (x != 59 && x != 38 && x != 124) = true ∧ (x != 124 && x != 38) = true ∧ (x != 40 && x != 41) = true := by
      apply u8_forall; decide +kernel
    obtain ⟨k1, k2, k3⟩ := key c hc
    simp only [followOK, optAll, h4, h1, h2, h3, or_self, ↓reduceIte, k1, k2, k3]
    repeat' split
    all_goals rfl


/-! ## One more piece -/

theorem gapKind_replicate (n : Nat) (c : UInt8) (hn : n ≠ 0) (hc : c = 32 ∨ c = 9) :
    gapKind (List.replicate n c) = some .blanks := by
  cases n with
  | zero => exact absurd rfl hn
  | succ m =>
    rcases hc with rfl | rfl
    · unfold gapKind
      have h1 : List.replicate (m + 1) (32 : UInt8) ≠ [10] := by simp [List.replicate_succ]
      have h2 : List.replicate (m + 1) (32 : UInt8) ≠ [92, 10] := by simp [List.replicate_succ]
      simp [List.replicate_succ]
    · unfold gapKind
      have h1 : List.replicate (m + 1) (9 : UInt8) ≠ [10] := by simp [List.replicate_succ]
      have h2 : List.replicate (m + 1) (9 : UInt8) ≠ [92, 10] := by simp [List.replicate_succ]
      simp [List.replicate_succ]

/-- a run of blanks or tabs -/
theorem step_blanks (a : Sum) (n : Nat) (c : UInt8) (hn : n ≠ 0) (hc : c = 32 ∨ c = 9) :
    a.step (.gap (List.replicate n c)) =
      { last := some (.gap (List.replicate n c)), sk := a.sk, toks := a.toks, ok := a.ok } := by
  have hk := gapKind_replicate n c hn hc
  have hfirst : (Piece.gap (List.replicate n c)).first? = some c := by
    cases n with
    | zero => exact absurd rfl hn
    | succ m => simp [Piece.first?, Piece.bytes, List.replicate_succ]
  have hf : ∀ l, followOK l (some c) = true := fun l => followOK_blank l c (by rcases hc with h | h <;> simp [h])
  simp only [Sum.step, pieceSk, pieceToks, hk, Piece.shapeOK, Option.isSome_some, Bool.and_true, hfirst,
    List.append_nil]
  cases a.last <;> simp [hf]

theorem step_space (a : Sum) : a.step (.gap [32]) = { last := some (.gap [32]), sk := a.sk, toks := a.toks, ok := a.ok } :=
  step_blanks a 1 32 (by decide) (Or.inl rfl)

theorem step_nl (a : Sum) : a.step (.gap [10]) =
    { last := some (.gap [10]), sk := true, toks := a.toks ++ (if a.sk then [] else [.newl]), ok := a.ok } := by
  have hk : gapKind [10] = some .newline := by simp [gapKind]
  have hf : ∀ l, followOK l (some 10) = true := fun l => followOK_blank l 10 (by simp)
  simp only [Sum.step, pieceSk, pieceToks, hk, Piece.shapeOK, Option.isSome_some, Bool.and_true, Piece.first?,
    Piece.bytes, List.head?_cons]
  cases a.last <;> simp [hf]

theorem step_bsnl (a : Sum) (h : ∀ l, a.last = some l → needsGap l = false) :
    a.step (.gap [92, 10]) = { last := some (.gap [92, 10]), sk := a.sk, toks := a.toks, ok := a.ok } := by
  have hk : gapKind [92, 10] = some .bsnl := by simp [gapKind]
  simp only [Sum.step, pieceSk, pieceToks, hk, Piece.shapeOK, Option.isSome_some, Bool.and_true, Piece.first?,
    Piece.bytes, List.head?_cons, List.append_nil]
  cases hl : a.last with
  | none => simp
  | some l => simp [followOK_free l 92 (h l hl) (by decide)]

theorem step_word (a : Sum) (parts : List WordPart) (hne : parts ≠ []) (hw : ∀ p ∈ parts, p.wf = true)
    (h : ∀ l, a.last = some l → needsGap l = false) :
    a.step (.word parts) =
      { last := some (.word parts), sk := false, toks := a.toks ++ [.word (mergeN (parts.map WordPart.erase))], ok := a.ok } := by
  obtain ⟨b, t, hb, hsafe⟩ := wordBytes_head parts hne hw
  have hshape : (Piece.word parts).shapeOK = true := by
    simp only [Piece.shapeOK, Bool.and_eq_true, Bool.not_eq_true', List.isEmpty_eq_false_iff, List.all_eq_true]
    exact ⟨hne, hw⟩
  have hc : (b == 92 || b == 33 || isSafe b || b == 39) = true := by
    rcases hsafe with h | h <;> simp [h]
  simp only [Sum.step, pieceSk, pieceToks, hshape, Bool.and_true, Piece.first?, Piece.bytes, hb, List.head?_cons]
  cases hl : a.last with
  | none => simp
  | some l => simp [followOK_free l b (h l hl) hc]

/-- `;` or `&` directly after a word, after a blank, or after `}` / `)` -/
theorem step_term (a : Sum) (b : Bytes) (hb : b = [59] ∨ b = [38])
    (h : ∀ l, a.last = some l → (match l with | .op x => x ≠ [59] ∧ x ≠ [38] ∧ x ≠ [124] ∧ x ≠ [40] | _ => True)) :
    a.step (.op b) =
      { last := some (.op b), sk := false, toks := a.toks ++ [if b = [59] then ATok.semi else ATok.amp], ok := a.ok } := by
  have key : ∀ l : Piece, (match l with | .op x => x ≠ [59] ∧ x ≠ [38] ∧ x ≠ [124] ∧ x ≠ [40] | _ => True) →
      followOK l (some 59) = true ∧ followOK l (some 38) = true := by
    intro l hl
    cases l with
    | word _ => exact ⟨rfl, rfl⟩
    | gap _ => exact ⟨rfl, rfl⟩
    | op x =>
      obtain ⟨h1, h2, h3, h4⟩ := hl
      simp only [followOK, h1, h2, h3, h4, ↓reduceIte, optAll]
      constructor <;> (repeat' split) <;> rfl
  rcases hb with rfl | rfl
  · simp only [Sum.step, pieceSk, pieceToks, Piece.shapeOK, Piece.first?, Piece.bytes, List.head?_cons,
      show opTok [59] = some ATok.semi from by decide, Option.isSome_some, Bool.and_true, ↓reduceIte]
    cases hl : a.last with
    | none => simp
    | some l => simp [(key l (h l hl)).1]
  · simp only [Sum.step, pieceSk, pieceToks, Piece.shapeOK, Piece.first?, Piece.bytes, List.head?_cons,
      show opTok [38] = some ATok.amp from by decide, Option.isSome_some, Bool.and_true]
    cases hl : a.last with
    | none => simp
    | some l => simp [(key l (h l hl)).2]

/-- `!` after something that needs no gap -/
theorem step_bang (a : Sum) (h : ∀ l, a.last = some l → needsGap l = false) :
    a.step (.op [33]) = { last := some (.op [33]), sk := false, toks := a.toks ++ [.bang], ok := a.ok } := by
  simp only [Sum.step, pieceSk, pieceToks, Piece.shapeOK, Piece.first?, Piece.bytes, List.head?_cons,
    show opTok [33] = some ATok.bang from by decide, Option.isSome_some, Bool.and_true]
  cases hl : a.last with
  | none => simp
  | some l => simp [followOK_free l 33 (h l hl) (by decide)]


/-! ## The printer primitives on the summary -/

/-- no two pieces glue so far, and whatever needs a gap before a word is recorded in `wantSpace` -/
structure W (p : P) : Prop where
  ok : p.sum.ok = true
  gap : ∀ l, p.sum.last = some l → needsGap l = true → p.wantSpace = .required

theorem W.free {p : P} (h : W p) (hw : p.wantSpace ≠ .required) : ∀ l, p.sum.last = some l → needsGap l = false := by
  intro l hl
  cases hn : needsGap l with
  | false => rfl
  | true => exact absurd (h.gap l hl hn) hw

/-- fields no flat-printing step changes, except where stated -/
structure Same (p p' : P) : Prop where
  o : p'.o = p.o
  must : p'.mustNewline = p.mustNewline
  first : p'.firstLine = p.firstLine
  wnl : p'.wantNewline = p.wantNewline
  wsemi : p'.wroteSemi = p.wroteSemi

theorem Same.refl (p : P) : Same p p := ⟨rfl, rfl, rfl, rfl, rfl⟩
theorem Same.trans {a b c : P} (h1 : Same a b) (h2 : Same b c) : Same a c :=
  ⟨h2.o.trans h1.o, h2.must.trans h1.must, h2.first.trans h1.first, h2.wnl.trans h1.wnl, h2.wsemi.trans h1.wsemi⟩

/-- a step that writes layout only: no token, same newline state -/
structure Quiet (p p' : P) : Prop where
  same : Same p p'
  toks : p'.sum.toks = p.sum.toks
  sk : p'.sum.sk = p.sum.sk
  w : W p'
  last : p'.sum.last = p.sum.last ∨ ∃ g, p'.sum.last = some (.gap g)

theorem Quiet.trans {a b c : P} (h1 : Quiet a b) (h2 : Quiet b c) : Quiet a c :=
  ⟨h1.same.trans h2.same, h2.toks.trans h1.toks, h2.sk.trans h1.sk, h2.w, by
    rcases h2.last with h | h
    · rcases h1.last with h' | h'
      · exact Or.inl (h.trans h')
      · exact Or.inr (by obtain ⟨g, hg⟩ := h'; exact ⟨g, h.trans hg⟩)
    · exact Or.inr h⟩

theorem Quiet.rfl' {p : P} (hw : W p) : Quiet p p := ⟨Same.refl p, rfl, rfl, hw, Or.inl rfl⟩

theorem Quiet.of_out {p p' : P} (hw : W p) (hout : p'.out = p.out) (hs : Same p p') (hws : p'.wantSpace = p.wantSpace) :
    Quiet p p' := by
  have hsum := P.sum_same p p' hout
  exact ⟨hs, by rw [hsum], by rw [hsum], ⟨by rw [hsum]; exact hw.ok, by rw [hsum, hws]; exact hw.gap⟩, Or.inl (by rw [hsum])⟩

theorem Quiet.space {p : P} (hw : W p) : Quiet p p.space ∧ p.space.wantSpace = .written := by
  have hsum : p.space.sum = p.sum.step (.gap [32]) := P.sum_push p _ _ rfl
  refine ⟨⟨⟨rfl, rfl, rfl, rfl, rfl⟩, by rw [hsum, step_space], by rw [hsum, step_space], ?_,
    Or.inr ⟨[32], by rw [hsum, step_space]⟩⟩, rfl⟩
  refine ⟨by rw [hsum, step_space]; exact hw.ok, ?_⟩
  intro l hl hn
  rw [hsum, step_space] at hl
  simp only [Option.some.injEq] at hl
  subst hl
  simp [needsGap] at hn

theorem Quiet.spacePad {p : P} (hw : W p) : Quiet p p.spacePad ∧ p.spacePad.wantSpace ≠ .required := by
  unfold P.spacePad
  split
  · exact ⟨(Quiet.space hw).1, by simp⟩
  · rename_i h
    exact ⟨Quiet.rfl' hw, h⟩

theorem Quiet.advanceLine {p : P} (hw : W p) (l : Nat) : Quiet p (p.advanceLine l) :=
  Quiet.of_out hw rfl ⟨rfl, rfl, rfl, rfl, rfl⟩ rfl

theorem Quiet.indent {p : P} (hw : W p) : Quiet p p.indent ∧ p.indent.wantSpace = p.wantSpace := by
  unfold P.indent
  split
  · exact ⟨Quiet.rfl' hw, rfl⟩
  · dsimp only
    split
    · exact ⟨Quiet.of_out hw rfl ⟨rfl, rfl, rfl, rfl, rfl⟩ rfl, rfl⟩
    · rename_i hlev
      have hmk : ∀ (n : Nat) (c : UInt8), n ≠ 0 → (c = 32 ∨ c = 9) →
          Quiet p (P.gapw { p with lastLevel := p.level } (List.replicate n c)) ∧
            (P.gapw { p with lastLevel := p.level } (List.replicate n c)).wantSpace = p.wantSpace := by
        intro n c hn hc
        have hsum : (P.gapw { p with lastLevel := p.level } (List.replicate n c)).sum =
            p.sum.step (.gap (List.replicate n c)) := P.sum_push p _ _ rfl
        refine ⟨⟨⟨rfl, rfl, rfl, rfl, rfl⟩, by rw [hsum, step_blanks _ n c hn hc], by rw [hsum, step_blanks _ n c hn hc], ?_,
          Or.inr ⟨_, by rw [hsum, step_blanks _ n c hn hc]⟩⟩, rfl⟩
        refine ⟨by rw [hsum, step_blanks _ n c hn hc]; exact hw.ok, ?_⟩
        intro l hl hnn
        rw [hsum, step_blanks _ n c hn hc] at hl
        simp only [Option.some.injEq] at hl
        subst hl
        simp [needsGap] at hnn
      split
      · exact hmk p.level 9 hlev (Or.inr rfl)
      · rename_i hind
        exact hmk (p.o.indent * p.level) 32 (Nat.mul_ne_zero hind hlev) (Or.inl rfl)

theorem Quiet.incLevel {p : P} (hw : W p) : Quiet p p.incLevel ∧ p.incLevel.wantSpace = p.wantSpace := by
  unfold P.incLevel
  split
  · exact ⟨Quiet.of_out hw rfl ⟨rfl, rfl, rfl, rfl, rfl⟩ rfl, rfl⟩
  · split
    · exact ⟨Quiet.of_out hw rfl ⟨rfl, rfl, rfl, rfl, rfl⟩ rfl, rfl⟩
    · exact ⟨Quiet.of_out hw rfl ⟨rfl, rfl, rfl, rfl, rfl⟩ rfl, rfl⟩

theorem Quiet.decLevel {p : P} (hw : W p) : Quiet p p.decLevel ∧ p.decLevel.wantSpace = p.wantSpace := by
  unfold P.decLevel
  split
  · exact ⟨Quiet.of_out hw rfl ⟨rfl, rfl, rfl, rfl, rfl⟩ rfl, rfl⟩
  · exact ⟨Quiet.of_out hw rfl ⟨rfl, rfl, rfl, rfl, rfl⟩ rfl, rfl⟩

theorem Quiet.bslashNewl {p : P} (hw : W p) : Quiet p p.bslashNewl ∧ p.bslashNewl.wantSpace ≠ .required := by
  unfold P.bslashNewl
  dsimp only
  -- after the optional blank, nothing that needs a gap is last
  have h1 : ∃ q : P, q = (if p.wantSpace = .required then p.space else p) ∧ Quiet p q ∧ q.wantSpace ≠ .required := by
    refine ⟨_, rfl, ?_⟩
    split
    · exact ⟨(Quiet.space hw).1, by simp [(Quiet.space hw).2]⟩
    · rename_i h; exact ⟨Quiet.rfl' hw, h⟩
  obtain ⟨q, hq, hqq, hqw⟩ := h1
  rw [← hq]
  have hfree := hqq.w.free hqw
  let q2 : P := { (q.gapw [92, 10]) with line := (q.gapw [92, 10]).line + 1 }
  have hsum : q2.sum = q.sum.step (.gap [92, 10]) := P.sum_push q _ _ rfl
  have hq2 : Quiet q q2 := by
    refine ⟨⟨rfl, rfl, rfl, rfl, rfl⟩, by rw [hsum, step_bsnl _ hfree], by rw [hsum, step_bsnl _ hfree], ?_,
      Or.inr ⟨_, by rw [hsum, step_bsnl _ hfree]⟩⟩
    refine ⟨by rw [hsum, step_bsnl _ hfree]; exact hqq.w.ok, ?_⟩
    intro l hl hn
    rw [hsum, step_bsnl _ hfree] at hl
    simp only [Option.some.injEq] at hl
    subst hl
    simp [needsGap] at hn
  obtain ⟨hi, hiw⟩ := Quiet.indent hq2.w
  exact ⟨hqq.trans (hq2.trans hi), by rw [hiw]; exact hqw⟩


/-! ## Words and simple commands -/

theorem P.wordPartsLoop_out (q : P) (wps : List WordPart) :
    (q.wordPartsLoop wps).out = q.out ∧ Same q (q.wordPartsLoop wps) ∧ (q.wordPartsLoop wps).wantSpace = q.wantSpace := by
  induction wps generalizing q with
  | nil => exact ⟨rfl, Same.refl q, rfl⟩
  | cons x xs ih =>
    unfold P.wordPartsLoop
    obtain ⟨h1, h2, h3⟩ := ih (q.wordPart x)
    have hx : (q.wordPart x).out = q.out ∧ Same q (q.wordPart x) ∧ (q.wordPart x).wantSpace = q.wantSpace := by
      cases x <;> exact ⟨rfl, ⟨rfl, rfl, rfl, rfl, rfl⟩, rfl⟩
    exact ⟨h1.trans hx.1, hx.2.1.trans h2, h3.trans hx.2.2⟩

/-- what a step that writes one token `a` (after layout) establishes -/
structure Emits (p p' : P) (ts : List ATok) : Prop where
  same : Same p p'
  toks : p'.sum.toks = p.sum.toks ++ ts
  w : W p'

theorem Emits.of_quiet {a b : P} (h : Quiet a b) : Emits a b [] := ⟨h.same, by simp [h.toks], h.w⟩
theorem Emits.trans {a b c : P} {t1 t2 : List ATok} (h1 : Emits a b t1) (h2 : Emits b c t2) : Emits a c (t1 ++ t2) :=
  ⟨h1.same.trans h2.same, by rw [h2.toks, h1.toks, List.append_assoc], h2.w⟩

/-- `p.word(w)` when no blank is pending -/
theorem Emits.word {p : P} (hw : W p) (hws : p.wantSpace ≠ .required) (w : Word) (hwf : w.wf = true) :
    Emits p (p.word w) [.word w.norm] ∧ (p.word w).wantSpace = .required ∧ (p.word w).sum.sk = false ∧
      (p.word w).sum.last = some (.word w.parts) := by
  have hne := Word.wf_parts_ne hwf
  have hparts := Word.wf_parts hwf
  unfold P.word P.wordParts
  cases hp : w.parts with
  | nil => exact absurd hp hne
  | cons wp rest =>
    dsimp only
    -- the optional escaped newline
    have h1 : ∃ q : P, q = (if (!p.o.singleLine && decide (wp.pos.line > p.line)) = true then p.bslashNewl else p) ∧
        Quiet p q ∧ q.wantSpace ≠ .required := by
      refine ⟨_, rfl, ?_⟩
      split
      · exact Quiet.bslashNewl hw
      · exact ⟨Quiet.rfl' hw, hws⟩
    obtain ⟨q, hq, hqq, hqw⟩ := h1
    rw [← hq]
    have hfree := hqq.w.free hqw
    let q2 : P := { q with out := .word (wp :: rest) :: q.out }
    have hsum : q2.sum = q.sum.step (.word (wp :: rest)) := P.sum_push q _ _ rfl
    have hst := step_word q.sum (wp :: rest) (by simp) (by rw [← hp]; exact hparts) hfree
    obtain ⟨l1, l2, l3⟩ := P.wordPartsLoop_out q2 (wp :: rest)
    have hsum3 : (q2.wordPartsLoop (wp :: rest)).sum = q2.sum := P.sum_same _ _ l1
    have hnorm : mergeN ((wp :: rest).map WordPart.erase) = w.norm := by
      rw [Word.norm, normParts_eq, hp]
    have hr : (P.sum { (q2.wordPartsLoop (wp :: rest)) with wantSpace := .required }) =
        q.sum.step (.word (wp :: rest)) := by
      rw [← hsum, ← hsum3]
      exact P.sum_same _ _ rfl
    refine ⟨⟨?_, ?_, ?_⟩, rfl, ?_, ?_⟩
    · exact hqq.same.trans (Same.trans (⟨rfl, rfl, rfl, rfl, rfl⟩ : Same q q2)
        (Same.trans l2 ⟨rfl, rfl, rfl, rfl, rfl⟩))
    · change (P.sum { (q2.wordPartsLoop (wp :: rest)) with wantSpace := .required }).toks = _
      rw [hr, hst, hqq.toks, hnorm]
    · refine ⟨?_, fun _ _ _ => rfl⟩
      change (P.sum { (q2.wordPartsLoop (wp :: rest)) with wantSpace := .required }).ok = true
      rw [hr, hst]
      exact hqq.w.ok
    · change (P.sum { (q2.wordPartsLoop (wp :: rest)) with wantSpace := .required }).sk = false
      rw [hr, hst]
    · change (P.sum { (q2.wordPartsLoop (wp :: rest)) with wantSpace := .required }).last = _
      rw [hr, hst]

/-- the state after a non-empty sequence of words -/
structure AfterWord (p : P) : Prop where
  ws : p.wantSpace = .required
  sk : p.sum.sk = false
  last : ∃ parts, p.sum.last = some (.word parts)

theorem Emits.wordJoinLoop (ws : List Word) : ∀ (p : P) (any : Bool), W p → (∀ w ∈ ws, w.wf = true) →
    Emits p (p.wordJoinLoop any ws).1 (ws.map fun w => ATok.word w.norm) ∧
      (ws ≠ [] → AfterWord (p.wordJoinLoop any ws).1) ∧
      (ws = [] → (p.wordJoinLoop any ws).1 = p) := by
  induction ws with
  | nil =>
    intro p any hw _
    unfold P.wordJoinLoop
    exact ⟨⟨Same.refl p, by simp, hw⟩, fun h => absurd rfl h, fun _ => rfl⟩
  | cons w rest ih =>
    intro p any hw hwf
    have hw1 := hwf w (by simp)
    have hrest : ∀ x ∈ rest, x.wf = true := fun x hx => hwf x (by simp [hx])
    obtain ⟨pos, hpos⟩ := Word.wf_pos hw1
    unfold P.wordJoinLoop
    rw [hpos]
    dsimp only
    -- the optional line break
    have h1 : ∃ (q : P) (any' : Bool), (q, any') = (if (decide (pos.line > p.line) && !p.o.singleLine) = true then
          ((if (!any) = true then p.incLevel else p).bslashNewl, true) else (p, any)) ∧ Quiet p q := by
      by_cases hbr : (decide (pos.line > p.line) && !p.o.singleLine) = true
      · rw [if_pos hbr]
        cases any with
        | false =>
          refine ⟨p.incLevel.bslashNewl, true, rfl, ?_⟩
          exact (Quiet.incLevel hw).1.trans (Quiet.bslashNewl (Quiet.incLevel hw).1.w).1
        | true =>
          refine ⟨p.bslashNewl, true, rfl, ?_⟩
          exact (Quiet.bslashNewl hw).1
      · rw [if_neg hbr]
        exact ⟨p, any, rfl, Quiet.rfl' hw⟩
    obtain ⟨q, any', hq, hqq⟩ := h1
    rw [← hq]
    dsimp only
    obtain ⟨hpad, hpadw⟩ := Quiet.spacePad hqq.w
    obtain ⟨he, hews, hesk, helast⟩ := Emits.word hpad.w hpadw w hw1
    obtain ⟨ih1, ih2, ih3⟩ := ih (q.spacePad.word w) any' he.w hrest
    refine ⟨?_, fun _ => ?_, fun h => by simp at h⟩
    · have := ((Emits.of_quiet (hqq.trans hpad)).trans he).trans ih1
      simpa using this
    · cases rest with
      | nil =>
        rw [ih3 rfl]
        exact ⟨hews, hesk, ⟨_, helast⟩⟩
      | cons x xs => exact ih2 (by simp)

theorem Emits.wordJoin (ws : List Word) (p : P) (hw : W p) (hwf : ∀ w ∈ ws, w.wf = true) :
    Emits p (p.wordJoin ws) (ws.map fun w => ATok.word w.norm) ∧ (ws ≠ [] → AfterWord (p.wordJoin ws)) ∧
      (ws = [] → (p.wordJoin ws).wantSpace = p.wantSpace ∧ (p.wordJoin ws).sum = p.sum) := by
  obtain ⟨h1, h2, h3⟩ := Emits.wordJoinLoop ws p false hw hwf
  unfold P.wordJoin
  cases hres : p.wordJoinLoop false ws with
  | mk p' any =>
    rw [hres] at h1 h2 h3
    dsimp only at h1 h2 h3 ⊢
    cases any with
    | false =>
      simp only [Bool.false_eq_true, ↓reduceIte]
      refine ⟨h1, h2, fun h => ?_⟩
      rw [h3 h]
      exact ⟨rfl, rfl⟩
    | true =>
      simp only [↓reduceIte]
      obtain ⟨hd, hdw⟩ := Quiet.decLevel h1.w
      refine ⟨by simpa using h1.trans (Emits.of_quiet hd), fun h => ?_, fun h => ?_⟩
      · obtain ⟨a1, a2, a3⟩ := h2 h
        exact ⟨by rw [hdw]; exact a1, by rw [hd.sk]; exact a2, by
          obtain ⟨parts, hl⟩ := a3
          refine ⟨parts, ?_⟩
          have : p'.decLevel.sum = p'.sum := by
            unfold P.decLevel
            split <;> exact P.sum_same _ _ rfl
          rw [this]; exact hl⟩
      · rw [h3 h] at hdw ⊢
        refine ⟨hdw, ?_⟩
        unfold P.decLevel
        split <;> exact P.sum_same _ _ rfl


/-! ## Statements made of a simple command -/

/-- fields the statement-level steps keep (they do change `wroteSemi`) -/
structure Same' (p p' : P) : Prop where
  o : p'.o = p.o
  must : p'.mustNewline = p.mustNewline
  first : p'.firstLine = p.firstLine
  wnl : p'.wantNewline = p.wantNewline

theorem Same.weak {p p' : P} (h : Same p p') : Same' p p' := ⟨h.o, h.must, h.first, h.wnl⟩
theorem Same'.trans {a b c : P} (h1 : Same' a b) (h2 : Same' b c) : Same' a c :=
  ⟨h2.o.trans h1.o, h2.must.trans h1.must, h2.first.trans h1.first, h2.wnl.trans h1.wnl⟩

theorem Emits.command_call (args : List Word) (hne : args ≠ []) (hwf : ∀ w ∈ args, w.wf = true) (p : P) (hw : W p) :
    Emits p (p.command (.call args)) (args.map fun w => ATok.word w.norm) ∧ AfterWord (p.command (.call args)) := by
  cases args with
  | nil => exact absurd rfl hne
  | cons w rest =>
    obtain ⟨pos, hpos⟩ := Word.wf_pos (hwf w (by simp))
    unfold P.command
    simp only [hpos]
    have q1 := Quiet.advanceLine hw pos.line
    have q2 := (Quiet.spacePad q1.w).1
    have q3 := (Quiet.incLevel q2.w).1
    have q4 := (Quiet.decLevel q3.w).1
    have hq : Quiet p ((p.advanceLine pos.line).spacePad.incLevel.decLevel) := q1.trans (q2.trans (q3.trans q4))
    have hw1 : ∀ x ∈ [w], x.wf = true := by
      intro x hx
      simp only [List.mem_singleton] at hx
      exact hx ▸ hwf w (by simp)
    have hr : ∀ x ∈ rest, x.wf = true := fun x hx => hwf x (by simp [hx])
    obtain ⟨j1, j2, _⟩ := Emits.wordJoin [w] _ hq.w hw1
    split
    · rename_i hrest
      have : rest = [] := by simpa using hrest
      subst this
      exact ⟨by simpa using (Emits.of_quiet hq).trans j1, j2 (by simp)⟩
    · rename_i hrest
      have hrne : rest ≠ [] := by simpa using hrest
      obtain ⟨k1, k2, _⟩ := Emits.wordJoin rest _ j1.w hr
      exact ⟨by simpa using ((Emits.of_quiet hq).trans j1).trans k1, k2 hrne⟩

theorem W.setWroteSemi {p : P} (hw : W p) (b : Bool) : W { p with wroteSemi := b } :=
  ⟨hw.ok, hw.gap⟩

/-- `!` via `spacedString` -/
theorem Emits.stmtPre (p : P) (hw : W p) (neg : Bool) :
    (P.sum (p.stmtPre neg)).toks = p.sum.toks ++ (if neg then [ATok.bang] else []) ∧ W (p.stmtPre neg) ∧
      Same' p (p.stmtPre neg) ∧ (neg = false → (p.stmtPre neg).wantSpace = p.wantSpace ∧ (p.stmtPre neg).sum = p.sum) := by
  unfold P.stmtPre
  dsimp only
  have hw0 : W { p with wroteSemi := false } := hw.setWroteSemi false
  cases neg with
  | false =>
    refine ⟨?_, hw0, ⟨rfl, rfl, rfl, rfl⟩, fun _ => ⟨rfl, rfl⟩⟩
    show p.sum.toks = p.sum.toks ++ []
    simp
  | true =>
    simp only [↓reduceIte]
    unfold P.spacedString
    obtain ⟨hq, hqw⟩ := Quiet.spacePad hw0
    have hfree := hq.w.free hqw
    have hsum : (P.sum { (P.tok (P.spacePad { p with wroteSemi := false }) [33]) with wantSpace := .required }) =
        (P.spacePad { p with wroteSemi := false }).sum.step (.op [33]) := P.sum_push _ _ _ rfl
    refine ⟨?_, ⟨?_, fun _ _ _ => rfl⟩, ⟨hq.same.o, hq.same.must, hq.same.first, hq.same.wnl⟩, fun h => by cases h⟩
    · rw [hsum, step_bang _ hfree, hq.toks]
      rfl
    · rw [hsum, step_bang _ hfree]; exact hq.w.ok


/-- the terminator `stmtEnd` writes, if any -/
theorem Emits.stmtEnd (p : P) (hw : W p) (ha : AfterWord p) (semi : Pos) (bg : Bool) :
    ∃ term : Term, (p.stmtEnd semi bg).sum.toks = p.sum.toks ++ term.toks ∧ W (p.stmtEnd semi bg) ∧
      Same' p (p.stmtEnd semi bg) ∧ (p.stmtEnd semi bg).wantSpace = .required ∧ (p.stmtEnd semi bg).sum.sk = false ∧
      (p.stmtEnd semi bg).wroteSemi = (term != .none) ∧ (bg = true → term = .amp) ∧ (bg = false → term ≠ .amp) ∧
      (p.o.singleLine = true → bg = false → term = .none) ∧
      (term = .none → ∃ parts, (p.stmtEnd semi bg).sum.last = some (.word parts)) ∧
      (semi.valid = false → bg = false → term = .none) := by
  obtain ⟨hi, hiw⟩ := Quiet.incLevel hw
  have hlast1 : ∃ parts, p.incLevel.sum.last = some (.word parts) ∨ ∃ g, p.incLevel.sum.last = some (.gap g) := by
    obtain ⟨parts, hl⟩ := ha.last
    rcases hi.last with h | h
    · exact ⟨parts, Or.inl (h.trans hl)⟩
    · exact ⟨parts, Or.inr h⟩
  unfold P.stmtEnd
  dsimp only
  by_cases hc : (semi.valid && decide (semi.line > p.incLevel.line) && !p.incLevel.o.singleLine || bg) = true
  · rw [if_pos hc]
    -- layout before the terminator
    have h2 : ∃ q : P, q = (if (semi.valid && decide (semi.line > p.incLevel.line) && !p.incLevel.o.singleLine) = true
          then p.incLevel.bslashNewl else if (!p.incLevel.o.minify) = true then p.incLevel.space else p.incLevel) ∧
        Quiet p.incLevel q := by
      refine ⟨_, rfl, ?_⟩
      split
      · exact (Quiet.bslashNewl hi.w).1
      · split
        · exact (Quiet.space hi.w).1
        · exact Quiet.rfl' hi.w
    obtain ⟨q, hq, hqq⟩ := h2
    rw [← hq]
    have hqlast : ∀ l, q.sum.last = some l →
        (match l with | .op x => x ≠ [59] ∧ x ≠ [38] ∧ x ≠ [124] ∧ x ≠ [40] | _ => True) := by
      intro l hl
      obtain ⟨parts, h1⟩ := hlast1
      rcases hqq.last with h | ⟨g, h⟩
      · rw [h] at hl
        rcases h1 with h1 | ⟨g, h1⟩
        · rw [h1] at hl; cases hl; trivial
        · rw [h1] at hl; cases hl; trivial
      · rw [h] at hl; cases hl; trivial
    let b : Bytes := if bg then [38] else [59]
    have hb : b = [59] ∨ b = [38] := by cases bg <;> simp [b]
    let q2 : P := { (q.tok b) with wroteSemi := true, wantSpace := .required }
    have hsum2 : q2.sum = q.sum.step (.op b) := P.sum_push q _ _ rfl
    have hst := step_term q.sum b hb hqlast
    have hw2 : W q2 := ⟨by rw [hsum2, hst]; exact hqq.w.ok, fun _ _ _ => rfl⟩
    obtain ⟨hd, hdw⟩ := Quiet.decLevel hw2
    have hgoal : (if bg = true then P.tok q [38] else P.tok q [59]) = q.tok b := by cases bg <;> rfl
    rw [hgoal]
    have hsame : Same' p q2.decLevel := by
      have s1 := hi.same.weak.trans hqq.same.weak
      exact s1.trans ((⟨rfl, rfl, rfl, rfl⟩ : Same' q q2).trans hd.same.weak)
    refine ⟨if bg then .amp else .semi, ?_, hd.w, hsame, by rw [hdw], ?_, ?_, ?_, ?_, ?_, ?_, ?_⟩
    · rw [hd.toks, hsum2, hst, hqq.toks, hi.toks]
      cases bg <;> simp [b, Term.toks]
    · rw [hd.sk, hsum2, hst]
    · rw [hd.same.wsemi]
      cases bg <;> rfl
    · intro h; simp [h]
    · intro h; simp [h]
    · intro hsl hbg
      subst hbg
      have ho : p.incLevel.o = p.o := hi.same.o
      simp [ho, hsl] at hc
    · intro h
      cases bg <;> simp at h
    · intro hsv hbg
      subst hbg
      simp [hsv] at hc
  · rw [if_neg hc]
    have hbg : bg = false := by
      cases bg with
      | false => rfl
      | true => simp at hc
    let q0 : P := { p.incLevel with wroteSemi := false }
    have hw0 : W q0 := ⟨hi.w.ok, hi.w.gap⟩
    have hs0 : q0.sum = p.incLevel.sum := P.sum_same _ _ rfl
    obtain ⟨hd, hdw⟩ := Quiet.decLevel hw0
    show ∃ term : Term, q0.decLevel.sum.toks = p.sum.toks ++ term.toks ∧ W q0.decLevel ∧
      Same' p q0.decLevel ∧ q0.decLevel.wantSpace = .required ∧ q0.decLevel.sum.sk = false ∧
      q0.decLevel.wroteSemi = (term != .none) ∧ (bg = true → term = .amp) ∧ (bg = false → term ≠ .amp) ∧
      (p.o.singleLine = true → bg = false → term = .none) ∧
      (term = .none → ∃ parts, q0.decLevel.sum.last = some (.word parts)) ∧
      (semi.valid = false → bg = false → term = .none)
    have hsame : Same' p q0.decLevel :=
      (hi.same.weak.trans (⟨rfl, rfl, rfl, rfl⟩ : Same' p.incLevel q0)).trans hd.same.weak
    refine ⟨.none, by rw [hd.toks, hs0, hi.toks]; simp [Term.toks], hd.w, hsame,
      by rw [hdw]; exact hiw.trans ha.ws,
      by rw [hd.sk, hs0, hi.sk]; exact ha.sk, by rw [hd.same.wsemi]; rfl, ?_, ?_, fun _ _ => rfl, fun _ => ?_,
      fun _ _ => rfl⟩
    · intro h; rw [hbg] at h; cases h
    · intro _; simp
    obtain ⟨parts, hl⟩ := ha.last
    refine ⟨parts, ?_⟩
    have e1 : q0.decLevel.sum = q0.sum := by
      unfold P.decLevel; split <;> exact P.sum_same _ _ rfl
    have e2 : p.incLevel.sum = p.sum := by
      unfold P.incLevel; split
      · exact P.sum_same _ _ rfl
      · split <;> exact P.sum_same _ _ rfl
    rw [e1, hs0, e2]; exact hl


/-! ## A statement that is a simple command -/

theorem Emits.stmt_call (p : P) (hw : W p) (pos semi : Pos) (neg bg : Bool) (args : List Word)
    (hne : args ≠ []) (hwf : ∀ w ∈ args, w.wf = true) :
    ∃ term : Term,
      (p.stmt (.mk pos semi neg bg (.call args))).sum.toks =
        p.sum.toks ++ ((if neg then [ATok.bang] else []) ++ ((args.map fun w => ATok.word w.norm) ++ term.toks)) ∧
      W (p.stmt (.mk pos semi neg bg (.call args))) ∧ Same' p (p.stmt (.mk pos semi neg bg (.call args))) ∧
      (p.stmt (.mk pos semi neg bg (.call args))).wantSpace = .required ∧
      (p.stmt (.mk pos semi neg bg (.call args))).sum.sk = false ∧
      (p.stmt (.mk pos semi neg bg (.call args))).wroteSemi = (term != .none) ∧
      (bg = true → term = .amp) ∧ (bg = false → term ≠ .amp) ∧
      (p.o.singleLine = true → bg = false → term = .none) ∧
      (term = .none → ∃ parts, (p.stmt (.mk pos semi neg bg (.call args))).sum.last = some (.word parts)) := by
  unfold P.stmt
  obtain ⟨h1, h2, h3, _⟩ := Emits.stmtPre p hw neg
  obtain ⟨c1, c2⟩ := Emits.command_call args hne hwf (p.stmtPre neg) h2
  have hws : ((p.stmtPre neg).command (.call args)).wroteSemi = false := by
    rw [c1.same.wsemi]
    unfold P.stmtPre
    dsimp only
    split
    · unfold P.spacedString P.spacePad
      split <;> rfl
    · rfl
  obtain ⟨term, e1, e2, e3, e4, e5, e6, e7, e8, e9, e10, _⟩ := Emits.stmtEnd _ c1.w c2 semi bg
  refine ⟨term, ?_, e2, (h3.trans c1.same.weak).trans e3, e4, e5, e6, e7, e8, ?_, e10⟩
  · rw [e1, c1.toks, h1]
    simp [List.append_assoc]
  · intro hsl
    apply e9
    rw [c1.same.o, h3.o]
    exact hsl

/-! ## Between two statements -/

/-- the state right after a statement of a list (and `p.wantNewline = true` set by the loop) -/
structure Post (p : P) : Prop where
  w : W p
  ws : p.wantSpace = .required
  wnl : p.wantNewline = true
  must : p.mustNewline = false
  first : p.firstLine = false
  sk : p.sum.sk = false
  last : p.wroteSemi = false → ∃ parts, p.sum.last = some (.word parts)
  notRefused : refuse p.o = false

theorem newlines_post (p : P) (hp : Post p) (hsl : p.o.singleLine = false) (l : Nat) :
    (p.newlines l).sum.toks = p.sum.toks ++ [.newl] ∧ W (p.newlines l) ∧ (p.newlines l).sum.sk = true ∧
      (p.newlines l).o = p.o ∧ (p.newlines l).mustNewline = false ∧ (p.newlines l).firstLine = false := by
  unfold P.newlines
  have hwn : p.wantsNewline l false = true := by
    simp [P.wantsNewline, hp.must, hsl, hp.wnl]
  simp only [hp.first, Bool.false_eq_true, ↓reduceIte, hwn, Bool.not_true]
  -- first newline
  let q1 : P := { (p.gapw [10]) with wantSpace := .written, wantNewline := false, mustNewline := false }
  have hs1 : q1.sum = p.sum.step (.gap [10]) := P.sum_push p _ _ rfl
  have hw1 : W q1 := ⟨by rw [hs1, step_nl]; exact hp.w.ok, by
    intro x hx hn
    rw [hs1, step_nl] at hx
    simp only [Option.some.injEq] at hx
    subst hx
    simp [needsGap] at hn⟩
  -- optional second newline
  have h2 : ∃ q2 : P, q2 = (if (decide (l > q1.line + 1) && !q1.o.minify) = true then q1.gapw [10] else q1) ∧
      q2.sum.toks = q1.sum.toks ∧ q2.sum.sk = true ∧ W q2 ∧ q2.o = p.o ∧ q2.mustNewline = false ∧ q2.firstLine = false := by
    refine ⟨_, rfl, ?_⟩
    split
    · have hs2 : (q1.gapw [10]).sum = q1.sum.step (.gap [10]) := P.sum_push q1 _ _ rfl
      have hsk1 : q1.sum.sk = true := by rw [hs1, step_nl]
      refine ⟨by rw [hs2, step_nl, hsk1]; simp, by rw [hs2, step_nl], ⟨by rw [hs2, step_nl]; exact hw1.ok, ?_⟩, rfl, rfl, hp.first⟩
      intro x hx hn
      rw [hs2, step_nl] at hx
      simp only [Option.some.injEq] at hx
      subst hx
      simp [needsGap] at hn
    · exact ⟨rfl, by rw [hs1, step_nl], hw1, rfl, rfl, hp.first⟩
  obtain ⟨q2, hq2, t2, k2, w2, o2, m2, f2⟩ := h2
  show ((if (decide (l > q1.line + 1) && !q1.o.minify) = true then q1.gapw [10] else q1).advanceLine l).indent.sum.toks = _ ∧ _
  rw [← hq2]
  have qa := Quiet.advanceLine w2 l
  obtain ⟨qi, _⟩ := Quiet.indent qa.w
  have q := qa.trans qi
  refine ⟨?_, q.w, by rw [q.sk, k2], by rw [q.same.o, o2], by rw [q.same.must, m2], by rw [q.same.first, f2]⟩
  rw [q.toks, t2, hs1, step_nl, hp.sk]
  simp


theorem stmtSep_post (p : P) (hp : Post p) (l : Nat) :
    ∃ pre, (p.stmtSep false l).sum.toks = p.sum.toks ++ pre ∧ W (p.stmtSep false l) ∧ (p.stmtSep false l).o = p.o ∧
      (p.stmtSep false l).mustNewline = false ∧ (p.stmtSep false l).firstLine = false ∧
      ((p.o.singleLine = false ∧ pre = [.newl]) ∨
       (p.o.singleLine = true ∧ pre = (if p.wroteSemi then [] else [ATok.semi]))) := by
  cases hsl : p.o.singleLine with
  | false =>
    have hsep : p.stmtSep false l = (p.newlines l).advanceLine l := by
      unfold P.stmtSep
      simp [hsl, hp.ws]
    rw [hsep]
    obtain ⟨n1, n2, n3, n4, n5, n6⟩ := newlines_post p hp hsl l
    have qa := Quiet.advanceLine n2 l
    exact ⟨[.newl], by rw [qa.toks, n1], qa.w, by rw [qa.same.o, n4], by rw [qa.same.must, n5],
      by rw [qa.same.first, n6], Or.inl ⟨rfl, rfl⟩⟩
  | true =>
    have hmin : p.o.minify = false := by
      have := hp.notRefused
      simp only [refuse, hsl, Bool.and_true] at this
      exact this
    cases hws : p.wroteSemi with
    | true =>
      have hnl : p.newlines l = p := by
        unfold P.newlines
        simp [hp.first, P.wantsNewline, hp.must, hsl]
      have hsep : p.stmtSep false l = p.advanceLine l := by
        unfold P.stmtSep
        simp [hsl, hws, hmin, hnl]
      rw [hsep]
      have qa := Quiet.advanceLine hp.w l
      exact ⟨[], by simp [qa.toks], qa.w, qa.same.o, by rw [qa.same.must, hp.must], by rw [qa.same.first, hp.first],
        Or.inr ⟨rfl, by simp⟩⟩
    | false =>
      let q1 : P := { (p.tok [59]) with wantSpace := .required }
      have hs1 : q1.sum = p.sum.step (.op [59]) := P.sum_push p _ _ rfl
      have hlast : ∀ x, p.sum.last = some x →
          (match x with | .op y => y ≠ [59] ∧ y ≠ [38] ∧ y ≠ [124] ∧ y ≠ [40] | _ => True) := by
        intro x hx
        obtain ⟨parts, hl⟩ := hp.last hws
        rw [hl] at hx
        cases hx
        trivial
      have hst := step_term p.sum [59] (Or.inl rfl) hlast
      have hw1 : W q1 := ⟨by rw [hs1, hst]; exact hp.w.ok, fun _ _ _ => rfl⟩
      have hnl : q1.newlines l = q1 := by
        unfold P.newlines
        have h1 : q1.firstLine = false := hp.first
        have h2 : q1.wantsNewline l false = false := by
          show (if p.mustNewline = true then true else if p.o.singleLine = true then false else _) = false
          simp [hp.must, hsl]
        simp [h1, h2]
      have hsep : p.stmtSep false l = q1.advanceLine l := by
        unfold P.stmtSep
        have hc : (!false && p.o.singleLine && p.wantNewline && !p.wroteSemi) = true := by
          simp [hsl, hp.wnl, hws]
        simp only [hc, ↓reduceIte]
        have hcond : (q1.mustNewline || !q1.o.minify || decide (q1.wantSpace = .required)) = true := by
          show (p.mustNewline || !p.o.minify || decide (WS.required = WS.required)) = true
          simp
        show (if (q1.mustNewline || !q1.o.minify || decide (q1.wantSpace = .required)) = true then q1.newlines l else q1).advanceLine l = _
        rw [if_pos hcond, hnl]
      rw [hsep]
      have qa := Quiet.advanceLine hw1 l
      refine ⟨[.semi], ?_, qa.w, by rw [qa.same.o]; rfl, by rw [qa.same.must]; exact hp.must,
        by rw [qa.same.first]; exact hp.first, Or.inr ⟨rfl, by simp⟩⟩
      rw [qa.toks, hs1, hst]
      simp


/-! ## Norms of well-formed words are acceptable to the parser -/

theorem normParts_nil {parts : List WordPart} (h : normParts parts = []) : parts = [] := by
  cases parts with
  | nil => rfl
  | cons p rest =>
    cases p with
    | lit a e v =>
      simp only [normParts] at h
      split at h <;> cases h
    | sgl l r v => simp [normParts] at h

theorem normParts_single_lit : ∀ (parts : List WordPart) (v : Bytes), (∀ p ∈ parts, p.wf = true) →
    normParts parts = [.lit v] → (Word.mk parts).litValue? = some v ∧ (∀ b ∈ v, isSafe b = true) ∧ v ≠ [] := by
  intro parts
  induction parts with
  | nil => intro v _ h; simp [normParts] at h
  | cons p rest ih =>
    intro v hw h
    have hrest : ∀ q ∈ rest, q.wf = true := fun q hq => hw q (by simp [hq])
    cases p with
    | sgl l r x => simp [normParts] at h
    | lit a e v1 =>
      obtain ⟨_, hne, hsafe⟩ := WordPart.wf_lit_bytes (hw (.lit a e v1) (by simp))
      simp only [normParts] at h
      split at h
      · rename_i v' r hnr
        simp only [List.cons.injEq, NPart.lit.injEq] at h
        obtain ⟨rfl, rfl⟩ := h
        obtain ⟨i1, i2, _⟩ := ih v' hrest hnr
        refine ⟨?_, ?_, by simp [hne]⟩
        · simp only [Word.litValue?, List.foldr_cons] at i1 ⊢
          rw [i1]
        · intro b hb
          simp only [List.mem_append] at hb
          rcases hb with hb | hb
          · exact hsafe b hb
          · exact i2 b hb
      · rename_i hnot
        simp only [List.cons.injEq, NPart.lit.injEq] at h
        obtain ⟨rfl, hr⟩ := h
        have := normParts_nil hr
        subst this
        exact ⟨by simp [Word.litValue?], hsafe, hne⟩

theorem Word.norm_ok (w : Word) (hw : w.wf = true) : nwordOK w.norm = true := by
  unfold nwordOK
  split
  · rename_i v hv
    obtain ⟨_, hs, _⟩ := normParts_single_lit w.parts v (Word.wf_parts hw) hv
    have key : ∀ v : Bytes, (∀ b ∈ v, isSafe b = true) → (v != [123] && v != [125] && v != [33]) = true := by
      intro v hs
      cases v with
      | nil => rfl
      | cons b t =>
        have hb := safe_facts b (hs b (by simp))
        simp only [Bool.and_eq_true, bne_iff_ne, ne_eq, List.cons.injEq, not_and]
        refine ⟨⟨fun h => ?_, fun h => ?_⟩, fun h => ?_⟩ <;> subst h <;> simp at hb
    exact key v hs
  · rfl

theorem Word.norm_name_ok (w : Word) (hw : w.wf = true) (hn : w.cmdNameOK = true) : ncmdNameOK w.norm = true := by
  unfold ncmdNameOK
  split
  · rename_i v hv
    obtain ⟨hl, _, _⟩ := normParts_single_lit w.parts v (Word.wf_parts hw) hv
    unfold Word.cmdNameOK at hn
    have : w.litValue? = some v := hl
    rw [this] at hn
    exact hn
  · rfl


/-! ## Lists of simple commands -/

/-- every statement of the list is a simple command (no subshell, block or binary command) -/
def Stmts.flat : Stmts → Bool
  | .nil => true
  | .cons (.mk _ _ _ _ (.call _)) r => r.flat
  | .cons _ _ => false

/-- the layout statement of a simple command -/
def mkL (neg : Bool) (args : List Word) (term : Term) : LStmt := .mk neg (.call (args.map Word.norm)) term

theorem mkL_valid (neg : Bool) (args : List Word) (term : Term) (hc : (Cmd.call args).wf = true) :
    (mkL neg args term).valid = true := by
  cases args with
  | nil => simp [Cmd.wf] at hc
  | cons w rest =>
    simp only [Cmd.wf, Bool.and_eq_true, List.all_eq_true] at hc
    obtain ⟨hall, hname⟩ := hc
    simp only [mkL, LStmt.valid, LCmd.valid, List.map_cons, LCmd.isAndOr, Bool.and_false, Bool.not_false, Bool.and_true,
      Bool.and_eq_true, List.all_eq_true]
    refine ⟨?_, Word.norm_name_ok w (hall w (by simp)) hname⟩
    intro n hn
    simp only [List.mem_cons, List.mem_map] at hn
    rcases hn with rfl | ⟨x, hx, rfl⟩
    · exact Word.norm_ok w (hall w (by simp))
    · exact Word.norm_ok x (hall x (by simp [hx]))

theorem mkL_toks (neg : Bool) (args : List Word) (term : Term) :
    (mkL neg args term).toks = (if neg then [ATok.bang] else []) ++ ((args.map fun w => ATok.word w.norm) ++ term.toks) := by
  simp [mkL, LStmt.toks, LCmd.toks, List.map_map, Function.comp_def]

theorem Stmts.flat_cons {s : Stmt} {r : Stmts} (h : (Stmts.cons s r).flat = true) :
    ∃ pos semi neg bg args, s = .mk pos semi neg bg (.call args) ∧ r.flat = true := by
  obtain ⟨pos, semi, neg, bg, cmd⟩ := s
  cases cmd with
  | call args => exact ⟨pos, semi, neg, bg, args, rfl, by simpa [Stmts.flat] using h⟩
  | subshell _ _ _ => simp [Stmts.flat] at h
  | block _ _ _ => simp [Stmts.flat] at h
  | binary _ _ _ _ => simp [Stmts.flat] at h

theorem call_wf_args {args : List Word} (h : (Cmd.call args).wf = true) : args ≠ [] ∧ ∀ w ∈ args, w.wf = true := by
  cases args with
  | nil => simp [Cmd.wf] at h
  | cons w rest =>
    simp only [Cmd.wf, Bool.and_eq_true, List.all_eq_true] at h
    exact ⟨by simp, h.1⟩

/-- whether a newline token follows the last statement of the layout -/
def LStmts.finalNl : LStmts → Bool
  | .one _ nl => nl
  | .cons _ _ rest => rest.finalNl

/-- the layout with a newline after its last statement -/
def LStmts.withFinalNl : LStmts → LStmts
  | .one s _ => .one s true
  | .cons s nl rest => .cons s nl rest.withFinalNl

theorem LStmts.withFinalNl_facts : ∀ (lt : LStmts), lt.finalNl = false →
    lt.withFinalNl.toks = lt.toks ++ [.newl] ∧ lt.withFinalNl.valid = lt.valid ∧ lt.withFinalNl.norm = lt.norm
  | .one s nl, h => by
    simp only [LStmts.finalNl] at h
    subst h
    simp [LStmts.withFinalNl, LStmts.toks, nlT, LStmts.valid, LStmts.norm]
  | .cons s nl rest, h => by
    obtain ⟨h1, h2, h3⟩ := LStmts.withFinalNl_facts rest (by simpa [LStmts.finalNl] using h)
    simp [LStmts.withFinalNl, LStmts.toks, LStmts.valid, LStmts.norm, h1, h2, h3, List.append_assoc]

/-- what the loop has written when it is done -/
structure Done (p0 p : P) : Prop where
  w : W p
  sk : p.sum.sk = false
  o : p.o = p0.o

/-- The statement loop on a list of simple commands, started after a previous statement: the
    tokens are a separator followed by the tokens of a valid layout of the list. -/
theorem loop_flat : ∀ (ss : Stmts), ss.flat = true → ss.wf = true → ss ≠ .nil → ∀ (p : P), Post p →
    ∃ (pre : List ATok) (lt : LStmts),
      (p.stmtListLoop false ss).sum.toks = p.sum.toks ++ (pre ++ lt.toks) ∧ lt.valid = true ∧ lt.norm = ss.norm ∧
      lt.finalNl = false ∧ Done p (p.stmtListLoop false ss) ∧
      ((p.o.singleLine = false ∧ pre = [.newl]) ∨
       (p.o.singleLine = true ∧ pre = (if p.wroteSemi then [] else [ATok.semi])))
  | .nil, _, _, hne, _, _ => absurd rfl hne
  | .cons s rest, hflat, hwf, _, p, hp => by
    obtain ⟨pos, semi, neg, bg, args, rfl, hrflat⟩ := Stmts.flat_cons hflat
    obtain ⟨hswf, hrwf⟩ := Stmts.wf_cons hwf
    have hcwf : (Cmd.call args).wf = true := by
      simp only [Stmt.wf, Bool.and_eq_true] at hswf
      exact hswf.1
    obtain ⟨hane, hawf⟩ := call_wf_args hcwf
    obtain ⟨pre, t1, w1, o1, m1, f1, hpre⟩ := stmtSep_post p hp pos.line
    obtain ⟨term, e1, e2, e3, e4, e5, e6, e7, e8, e9, e10⟩ :=
      Emits.stmt_call (p.stmtSep false pos.line) w1 pos semi neg bg args hane hawf
    unfold P.stmtListLoop
    dsimp only [Stmt.pos]
    -- the state after this statement
    let ps : P := { ((p.stmtSep false pos.line).stmt (.mk pos semi neg bg (.call args))) with wantNewline := true }
    have hsum : ps.sum = ((p.stmtSep false pos.line).stmt (.mk pos semi neg bg (.call args))).sum := rfl
    have hpost : Post ps := by
      refine ⟨⟨e2.ok, e2.gap⟩, e4, rfl, ?_, ?_, e5, ?_, ?_⟩
      · show ((p.stmtSep false pos.line).stmt _).mustNewline = false
        rw [e3.must, m1]
      · show ((p.stmtSep false pos.line).stmt _).firstLine = false
        rw [e3.first, f1]
      · intro h
        have h' : ((p.stmtSep false pos.line).stmt (.mk pos semi neg bg (.call args))).wroteSemi = false := h
        rw [e6] at h'
        have : term = .none := by
          cases term <;> simp at h' ⊢
        exact e10 this
      · show refuse ((p.stmtSep false pos.line).stmt _).o = false
        rw [e3.o, o1]
        exact hp.notRefused
    have hbg : (term == Term.amp) = bg := by
      cases bg with
      | true => rw [e7 rfl]; rfl
      | false =>
        have := e8 rfl
        cases term <;> simp at this ⊢
    have hnorm : ∀ t : Term, (t == Term.amp) = bg → (mkL neg args t).norm = (Stmt.mk pos semi neg bg (.call args)).norm := by
      intro t ht
      simp [mkL, LStmt.norm, LCmd.norm, Stmt.norm, Cmd.norm, ht]
    cases rest with
    | nil =>
      -- last statement of the list
      refine ⟨pre, .one (mkL neg args term) false, ?_, ?_, ?_, rfl, ?_, hpre⟩
      · show ps.sum.toks = _
        rw [hsum, e1, t1]
        simp [LStmts.toks, mkL_toks, nlT, List.append_assoc]
      · simpa [LStmts.valid] using mkL_valid neg args term hcwf
      · simp [LStmts.norm, Stmts.norm, hnorm term hbg]
      · exact ⟨hpost.w, hpost.sk, by show ((p.stmtSep false pos.line).stmt _).o = p.o; rw [e3.o, o1]⟩
    | cons s2 rest2 =>
      have hrne : Stmts.cons s2 rest2 ≠ .nil := by simp
      obtain ⟨pre2, lt2, r1, r2, r3, rf, r4, r5⟩ := loop_flat (.cons s2 rest2) hrflat hrwf hrne ps hpost
      have hpso : ps.o = p.o := by show ((p.stmtSep false pos.line).stmt _).o = p.o; rw [e3.o, o1]
      have hpsws : ps.wroteSemi = (term != .none) := e6
      -- attach the separator to this statement
      rcases r5 with ⟨hs, rfl⟩ | ⟨hs, rfl⟩
      · -- newline
        refine ⟨pre, .cons (mkL neg args term) true lt2, ?_, ?_, ?_, rf, ?_, hpre⟩
        · rw [r1, hsum, e1, t1]
          simp [LStmts.toks, mkL_toks, nlT, List.append_assoc]
        · simp [LStmts.valid, mkL_valid neg args term hcwf, r2]
        · simp [LStmts.norm, Stmts.norm, hnorm term hbg, r3]
        · exact ⟨r4.w, r4.sk, r4.o.trans hpso⟩
      · -- single line: `;` or nothing after a terminator
        rw [hpso] at hs
        cases hterm : term with
        | none =>
          have hws0 : ps.wroteSemi = false := by rw [hpsws, hterm]; rfl
          have hbg0 : bg = false := by
            cases bg with
            | false => rfl
            | true => have := e7 rfl; rw [hterm] at this; cases this
          refine ⟨pre, .cons (mkL neg args .semi) false lt2, ?_, ?_, ?_, rf, ?_, hpre⟩
          · rw [r1, hsum, e1, t1, hws0, hterm]
            simp [LStmts.toks, mkL_toks, nlT, Term.toks, List.append_assoc]
          · simp only [LStmts.valid, mkL_valid neg args .semi hcwf, r2]
            rfl
          · simp [LStmts.norm, Stmts.norm, hnorm .semi (by rw [hbg0]; rfl), r3]
          · exact ⟨r4.w, r4.sk, r4.o.trans hpso⟩
        | semi =>
          have hws1 : ps.wroteSemi = true := by rw [hpsws, hterm]; rfl
          refine ⟨pre, .cons (mkL neg args .semi) false lt2, ?_, ?_, ?_, rf, ?_, hpre⟩
          · rw [r1, hsum, e1, t1, hws1, hterm]
            simp [LStmts.toks, mkL_toks, nlT, Term.toks, List.append_assoc]
          · simp only [LStmts.valid, mkL_valid neg args .semi hcwf, r2]
            rfl
          · simp [LStmts.norm, Stmts.norm, hnorm .semi (by rw [← hbg, hterm]), r3]
          · exact ⟨r4.w, r4.sk, r4.o.trans hpso⟩
        | amp =>
          have hws1 : ps.wroteSemi = true := by rw [hpsws, hterm]; rfl
          refine ⟨pre, .cons (mkL neg args .amp) false lt2, ?_, ?_, ?_, rf, ?_, hpre⟩
          · rw [r1, hsum, e1, t1, hws1, hterm]
            simp [LStmts.toks, mkL_toks, nlT, Term.toks, List.append_assoc]
          · simp only [LStmts.valid, mkL_valid neg args .amp hcwf, r2]
            rfl
          · simp [LStmts.norm, Stmts.norm, hnorm .amp (by rw [← hbg, hterm]), r3]
          · exact ⟨r4.w, r4.sk, r4.o.trans hpso⟩


/-! ## The whole file -/

theorem W.init (o : Opts) : W (P.init o) := ⟨rfl, fun l hl _ => by simp [P.sum, P.init, summarize] at hl⟩

/-- before the first statement nothing is written -/
theorem stmtSep_first (o : Opts) (l : Nat) :
    ((P.init o).stmtSep true l).out = [] ∧ ((P.init o).stmtSep true l).firstLine = false ∧
    ((P.init o).stmtSep true l).mustNewline = false ∧ ((P.init o).stmtSep true l).o = o := by
  unfold P.stmtSep
  cases hm : o.minify with
  | true => simp [P.init, hm, P.advanceLine]
  | false => simp [P.init, hm, P.newlines, P.advanceLine]

theorem P.stmtListWith_out (p : P) (ss : Stmts) (loop : P → P) :
    (p.stmtListWith ss loop).out = (loop p).out ∧ (p.stmtListWith ss loop).panicked = (loop p).panicked := by
  unfold P.stmtListWith
  dsimp only
  (repeat' split) <;> exact ⟨rfl, rfl⟩

/-- The printer half of the round trip for programs made of simple commands: for every option
    set and every assignment of positions the bytes printed are a concrete syntax of the tree. -/
theorem print_in_Prints_flat (o : Opts) (f : File) (b : Bytes) (hwf : f.wf = true) (hflat : f.stmts.flat = true)
    (hne : f.stmts ≠ .nil) (hp : printFile o f = .ok b) :
    ∃ (ps : List Piece) (lt : LStmts), b = render ps ∧ lexChain ps = true ∧ lt.valid = true ∧
      expect false ps = nlT false ++ (lt.toks ++ [.eof]) ∧ lt.norm = f.norm := by
  unfold printFile at hp
  split at hp
  · cases hp
  · rename_i href
    have href' : refuse o = false := by simpa using href
    -- no panic
    have hinv := ((Inv.init o).stmtList f.stmts hwf).newline 0
    rw [hinv.finish] at hp
    simp only [Except.ok.injEq] at hp
    subst hp
    obtain ⟨ss⟩ := f
    simp only at hwf hflat hne
    cases ss with
    | nil => exact absurd rfl hne
    | cons s rest =>
      obtain ⟨pos, semi, neg, bg, args, rfl, hrflat⟩ := Stmts.flat_cons hflat
      obtain ⟨hswf, hrwf⟩ := Stmts.wf_cons hwf
      have hcwf : (Cmd.call args).wf = true := by
        simp only [Stmt.wf, Bool.and_eq_true] at hswf
        exact hswf.1
      obtain ⟨hane, hawf⟩ := call_wf_args hcwf
      obtain ⟨s1, s2, s3, s4⟩ := stmtSep_first o pos.line
      have hw0 : W ((P.init o).stmtSep true pos.line) :=
        ⟨by simp [P.sum, s1, summarize], fun l hl _ => by simp [P.sum, s1, summarize] at hl⟩
      have hsum0 : ((P.init o).stmtSep true pos.line).sum.toks = [] := by simp [P.sum, s1, summarize]
      obtain ⟨term, e1, e2, e3, e4, e5, e6, e7, e8, e9, e10⟩ :=
        Emits.stmt_call ((P.init o).stmtSep true pos.line) hw0 pos semi neg bg args hane hawf
      let ps : P := { (((P.init o).stmtSep true pos.line).stmt (.mk pos semi neg bg (.call args))) with wantNewline := true }
      have hpost : Post ps := by
        refine ⟨⟨e2.ok, e2.gap⟩, e4, rfl, ?_, ?_, e5, ?_, ?_⟩
        · show (((P.init o).stmtSep true pos.line).stmt _).mustNewline = false
          rw [e3.must, s3]
        · show (((P.init o).stmtSep true pos.line).stmt _).firstLine = false
          rw [e3.first, s2]
        · intro h
          have h' : (((P.init o).stmtSep true pos.line).stmt (.mk pos semi neg bg (.call args))).wroteSemi = false := h
          rw [e6] at h'
          have : term = .none := by cases term <;> simp at h' ⊢
          exact e10 this
        · show refuse (((P.init o).stmtSep true pos.line).stmt _).o = false
          rw [e3.o, s4]
          exact href'
      have hbg : (term == Term.amp) = bg := by
        cases bg with
        | true => rw [e7 rfl]; rfl
        | false =>
          have := e8 rfl
          cases term <;> simp at this ⊢
      have hnorm : ∀ t : Term, (t == Term.amp) = bg → (mkL neg args t).norm = (Stmt.mk pos semi neg bg (.call args)).norm := by
        intro t ht
        simp [mkL, LStmt.norm, LCmd.norm, Stmt.norm, Cmd.norm, ht]
      -- the loop, then the final newline
      have hloop : ∃ (lt : LStmts) (pf : P), pf = (P.init o).stmtListLoop true (.cons (.mk pos semi neg bg (.call args)) rest) ∧
          pf.sum.toks = lt.toks ∧ lt.valid = true ∧ lt.norm = (Stmts.cons (.mk pos semi neg bg (.call args)) rest).norm ∧
          lt.finalNl = false ∧ W pf ∧ pf.sum.sk = false := by
        have hunf : (P.init o).stmtListLoop true (.cons (.mk pos semi neg bg (.call args)) rest) =
            ps.stmtListLoop false rest := by
          rw [P.stmtListLoop]
          rfl
        rw [hunf]
        cases rest with
        | nil =>
          refine ⟨.one (mkL neg args term) false, ps, by rw [P.stmtListLoop], ?_, ?_, ?_, rfl, hpost.w, hpost.sk⟩
          · show (((P.init o).stmtSep true pos.line).stmt _).sum.toks = _
            rw [e1, hsum0]
            simp [LStmts.toks, mkL_toks, nlT]
          · simpa [LStmts.valid] using mkL_valid neg args term hcwf
          · simp [LStmts.norm, Stmts.norm, hnorm term hbg]
        | cons s2 rest2 =>
          obtain ⟨pre2, lt2, r1, r2, r3, rf, r4, r5⟩ := loop_flat (.cons s2 rest2) hrflat hrwf (by simp) ps hpost
          have hpso : ps.o = o := by
            show (((P.init o).stmtSep true pos.line).stmt _).o = o
            rw [e3.o, s4]
          have hpsws : ps.wroteSemi = (term != .none) := e6
          have hpstoks : ps.sum.toks = (mkL neg args term).toks := by
            show (((P.init o).stmtSep true pos.line).stmt _).sum.toks = _
            rw [e1, hsum0]
            simp [mkL_toks]
          rcases r5 with ⟨hs, rfl⟩ | ⟨hs, rfl⟩
          · refine ⟨.cons (mkL neg args term) true lt2, _, rfl, ?_, ?_, ?_, rf, r4.w, r4.sk⟩
            · rw [r1, hpstoks]
              simp [LStmts.toks, nlT]
            · simp [LStmts.valid, mkL_valid neg args term hcwf, r2]
            · simp [LStmts.norm, Stmts.norm, hnorm term hbg, r3]
          · cases hterm : term with
            | none =>
              have hws0 : ps.wroteSemi = false := by rw [hpsws, hterm]; rfl
              have hbg0 : bg = false := by
                cases bg with
                | false => rfl
                | true => have := e7 rfl; rw [hterm] at this; cases this
              refine ⟨.cons (mkL neg args .semi) false lt2, _, rfl, ?_, ?_, ?_, rf, r4.w, r4.sk⟩
              · rw [r1, hpstoks, hws0, hterm]
                simp [LStmts.toks, mkL_toks, nlT, Term.toks, List.append_assoc]
              · simp only [LStmts.valid, mkL_valid neg args .semi hcwf, r2]
                rfl
              · simp [LStmts.norm, Stmts.norm, hnorm .semi (by rw [hbg0]; rfl), r3]
            | semi =>
              have hws1 : ps.wroteSemi = true := by rw [hpsws, hterm]; rfl
              refine ⟨.cons (mkL neg args .semi) false lt2, _, rfl, ?_, ?_, ?_, rf, r4.w, r4.sk⟩
              · rw [r1, hpstoks, hws1, hterm]
                simp [LStmts.toks, mkL_toks, nlT, Term.toks, List.append_assoc]
              · simp only [LStmts.valid, mkL_valid neg args .semi hcwf, r2]
                rfl
              · simp [LStmts.norm, Stmts.norm, hnorm .semi (by rw [← hbg, hterm]), r3]
            | amp =>
              have hws1 : ps.wroteSemi = true := by rw [hpsws, hterm]; rfl
              refine ⟨.cons (mkL neg args .amp) false lt2, _, rfl, ?_, ?_, ?_, rf, r4.w, r4.sk⟩
              · rw [r1, hpstoks, hws1, hterm]
                simp [LStmts.toks, mkL_toks, nlT, Term.toks, List.append_assoc]
              · simp only [LStmts.valid, mkL_valid neg args .amp hcwf, r2]
                rfl
              · simp [LStmts.norm, Stmts.norm, hnorm .amp (by rw [← hbg, hterm]), r3]
      obtain ⟨lt, pf, hpf, ht, hv, hn, hfn, hwpf, hskpf⟩ := hloop
      obtain ⟨f1, f2, f3⟩ := LStmts.withFinalNl_facts lt hfn
      -- the output
      have hout : (((P.init o).stmtList (.cons (.mk pos semi neg bg (.call args)) rest)).newline 0).out =
          .gap [10] :: pf.out := by
        have := (P.stmtListWith_out (P.init o) (.cons (.mk pos semi neg bg (.call args)) rest)
          (fun q => q.stmtListLoop true (.cons (.mk pos semi neg bg (.call args)) rest))).1
        unfold P.stmtList
        show Piece.gap [10] :: _ = _
        rw [this, hpf]
      refine ⟨_, lt.withFinalNl, rfl, ?_⟩
      have hsumF : summarize {} ((((P.init o).stmtList (.cons (.mk pos semi neg bg (.call args)) rest)).newline 0).out.reverse) =
          pf.sum.step (.gap [10]) := by
        rw [hout]
        simp [P.sum, summarize, List.foldl_append]
      obtain ⟨c1, c2⟩ := lexChain_expect_init _ (by rw [hsumF, step_nl]; exact hwpf.ok) (by rw [hsumF, step_nl]; rfl)
      refine ⟨c1, by rw [f2]; exact hv, ?_, by rw [f3, hn]; rfl⟩
      rw [c2, hsumF, step_nl, hskpf, ht, f1]
      simp [nlT]


/-! ## Binary commands over simple commands (`&&`, `||`, `|`) -/

/-- a step of the printer: options and `firstLine` kept, `mustNewline` stays off, tokens added -/
structure Adv (p p' : P) (ts : List ATok) : Prop where
  o : p'.o = p.o
  must : p.mustNewline = false → p'.mustNewline = false
  first : p'.firstLine = p.firstLine
  toks : p'.sum.toks = p.sum.toks ++ ts
  w : W p'

theorem Adv.of_emits {a b : P} {ts : List ATok} (h : Emits a b ts) : Adv a b ts :=
  ⟨h.same.o, fun hm => by rw [h.same.must]; exact hm, h.same.first, h.toks, h.w⟩

theorem Adv.of_quiet {a b : P} (h : Quiet a b) : Adv a b [] := Adv.of_emits (Emits.of_quiet h)

theorem Adv.trans {a b c : P} {t1 t2 : List ATok} (h1 : Adv a b t1) (h2 : Adv b c t2) : Adv a c (t1 ++ t2) :=
  ⟨h2.o.trans h1.o, fun hm => h2.must (h1.must hm), h2.first.trans h1.first,
    by rw [h2.toks, h1.toks, List.append_assoc], h2.w⟩

/-- `&&`, `||`, `|` after a word or after layout -/
theorem step_binop (a : Sum) (op : BinOp)
    (h : ∀ l, a.last = some l → (match l with | .op _ => False | _ => True)) :
    a.step (.op op.str) = { last := some (.op op.str), sk := false, toks := a.toks ++ [opA op], ok := a.ok } := by
  have key : ∀ l : Piece, (match l with | .op _ => False | _ => True) →
      followOK l (some 38) = true ∧ followOK l (some 124) = true := by
    intro l hl
    cases l with
    | word _ => exact ⟨rfl, rfl⟩
    | gap _ => exact ⟨rfl, rfl⟩
    | op x => exact absurd hl (by simp)
  cases op with
  | andStmt =>
    simp only [Sum.step, pieceSk, pieceToks, Piece.shapeOK, Piece.first?, Piece.bytes, BinOp.str, List.head?_cons,
      show opTok [38, 38] = some ATok.andAnd from by decide, Option.isSome_some, Bool.and_true, opA]
    cases hl : a.last with
    | none => simp
    | some l => simp [(key l (h l hl)).1]
  | orStmt =>
    simp only [Sum.step, pieceSk, pieceToks, Piece.shapeOK, Piece.first?, Piece.bytes, BinOp.str, List.head?_cons,
      show opTok [124, 124] = some ATok.orOr from by decide, Option.isSome_some, Bool.and_true, opA]
    cases hl : a.last with
    | none => simp
    | some l => simp [(key l (h l hl)).2]
  | pipe =>
    simp only [Sum.step, pieceSk, pieceToks, Piece.shapeOK, Piece.first?, Piece.bytes, BinOp.str, List.head?_cons,
      show opTok [124] = some ATok.pipe from by decide, Option.isSome_some, Bool.and_true, opA]
    cases hl : a.last with
    | none => simp
    | some l => simp [(key l (h l hl)).2]

theorem needsGap_binop (op : BinOp) : needsGap (.op op.str) = false := by
  cases op <;> simp [needsGap, BinOp.str]

/-- the last piece is a word or layout -/
def LastWG (p : P) : Prop := ∀ l, p.sum.last = some l → (match l with | .op _ => False | _ => True)

theorem LastWG.of_quiet {p q : P} (h : LastWG p) (hq : Quiet p q) : LastWG q := by
  intro l hl
  rcases hq.last with e | ⟨g, e⟩
  · exact h l (e ▸ hl)
  · rw [e] at hl; cases hl; trivial

theorem AfterWord.lastWG {p : P} (h : AfterWord p) : LastWG p := by
  intro l hl
  obtain ⟨parts, e⟩ := h.last
  rw [e] at hl; cases hl; trivial

/-- `p.spacedToken(op)` -/
theorem Adv.spacedToken (p : P) (hw : W p) (hl : LastWG p) (op : BinOp) :
    Adv p (p.spacedToken op.str) [opA op] ∧ (p.spacedToken op.str).sum.sk = false := by
  unfold P.spacedToken
  split
  · let q : P := { (p.tok op.str) with wantSpace := .notRequired }
    have hs : q.sum = p.sum.step (.op op.str) := P.sum_push p _ _ rfl
    have hst := step_binop p.sum op hl
    refine ⟨⟨rfl, fun h => h, rfl, by show q.sum.toks = _; rw [hs, hst], ⟨by show q.sum.ok = true; rw [hs, hst]; exact hw.ok, ?_⟩⟩,
      by show q.sum.sk = false; rw [hs, hst]⟩
    intro l hl' hn
    have : q.sum.last = some l := hl'
    rw [hs, hst] at this
    simp only [Option.some.injEq] at this
    subst this
    rw [needsGap_binop] at hn
    cases hn
  · obtain ⟨hq, _⟩ := Quiet.spacePad hw
    have hl2 := hl.of_quiet hq
    let q : P := { (p.spacePad.tok op.str) with wantSpace := .required }
    have hs : q.sum = p.spacePad.sum.step (.op op.str) := P.sum_push _ _ _ rfl
    have hst := step_binop p.spacePad.sum op hl2
    refine ⟨⟨hq.same.o, fun h => by show p.spacePad.mustNewline = false; rw [hq.same.must]; exact h, hq.same.first,
      by show q.sum.toks = _; rw [hs, hst, hq.toks], ⟨by show q.sum.ok = true; rw [hs, hst]; exact hq.w.ok, fun _ _ _ => rfl⟩⟩,
      by show q.sum.sk = false; rw [hs, hst]⟩


/-- `p.newline(pos)` -/
theorem Adv.newline (p : P) (hw : W p) (l : Nat) :
    Adv p (p.newline l) (if p.sum.sk then [] else [.newl]) ∧ (p.newline l).sum.sk = true := by
  unfold P.newline
  let q : P := { (p.gapw [10]) with wantSpace := .written, wantNewline := false, mustNewline := false }
  have hs : q.sum = p.sum.step (.gap [10]) := P.sum_push p _ _ rfl
  have hwq : W q := ⟨by rw [hs, step_nl]; exact hw.ok, by
    intro x hx hn
    rw [hs, step_nl] at hx
    simp only [Option.some.injEq] at hx
    subst hx
    simp [needsGap] at hn⟩
  have qa := Quiet.advanceLine hwq l
  refine ⟨⟨qa.same.o, fun _ => by rw [qa.same.must], qa.same.first, ?_, qa.w⟩, by rw [qa.sk, hs, step_nl]⟩
  rw [qa.toks, hs, step_nl]

/-- the operator of a binary command with the layout around it -/
theorem Adv.binaryOp (p : P) (hw : W p) (hl : LastWG p) (_hsk : p.sum.sk = false) (opPos : Pos) (op : BinOp)
    (yl : Nat) (yb : Bool) :
    ∃ nl : Bool, Adv p (p.binaryOp opPos op yl yb).1 (opA op :: nlT nl) ∧ (p.binaryOp opPos op yl yb).1.sum.sk = nl := by
  unfold P.binaryOp
  split
  · obtain ⟨h1, h2⟩ := Adv.spacedToken p hw hl op
    have qa := Quiet.advanceLine h1.w yl
    exact ⟨false, by simpa [nlT] using h1.trans (Adv.of_quiet qa), by rw [qa.sk, h2]⟩
  · dsimp only
    -- optional indentation level
    have h0 : ∃ q : P, q = (if (!p.nestedBinary) = true then p.incLevel else p) ∧ Quiet p q := by
      refine ⟨_, rfl, ?_⟩
      split
      · exact (Quiet.incLevel hw).1
      · exact Quiet.rfl' hw
    obtain ⟨q, hq, hqq⟩ := h0
    rw [← hq]
    have hlq := hl.of_quiet hqq
    split
    · -- operator on the next line, after an escaped newline
      obtain ⟨hb, _⟩ := Quiet.bslashNewl hqq.w
      obtain ⟨h1, h2⟩ := Adv.spacedToken q.bslashNewl hb.w (hlq.of_quiet hb) op
      have qa := Quiet.advanceLine h1.w yl
      have hfin : Quiet (q.bslashNewl.spacedToken op.str |>.advanceLine yl)
          { (q.bslashNewl.spacedToken op.str |>.advanceLine yl) with nestedBinary := yb } :=
        Quiet.of_out qa.w rfl ⟨rfl, rfl, rfl, rfl, rfl⟩ rfl
      refine ⟨false, ?_, ?_⟩
      · have := ((Adv.of_quiet (hqq.trans hb)).trans h1).trans (Adv.of_quiet (qa.trans hfin))
        simpa [nlT] using this
      · show (P.sum { (q.bslashNewl.spacedToken op.str |>.advanceLine yl) with nestedBinary := yb }).sk = false
        rw [hfin.sk, qa.sk, h2]
    · -- operator at the end of the line
      obtain ⟨h1, h2⟩ := Adv.spacedToken q hqq.w hlq op
      have qa := Quiet.advanceLine h1.w opPos.line
      obtain ⟨hn, hnsk⟩ := Adv.newline _ qa.w 0
      obtain ⟨hi, _⟩ := Quiet.indent hn.w
      have qb := Quiet.advanceLine hi.w yl
      have hfin : Quiet ((((q.spacedToken op.str).advanceLine opPos.line).newline 0).indent.advanceLine yl)
          { ((((q.spacedToken op.str).advanceLine opPos.line).newline 0).indent.advanceLine yl) with nestedBinary := yb } :=
        Quiet.of_out qb.w rfl ⟨rfl, rfl, rfl, rfl, rfl⟩ rfl
      refine ⟨true, ?_, ?_⟩
      · have hskq : ((q.spacedToken op.str).advanceLine opPos.line).sum.sk = false := by rw [qa.sk, h2]
        rw [hskq] at hn
        have := (((Adv.of_quiet hqq).trans h1).trans (Adv.of_quiet qa)).trans
          (hn.trans (Adv.of_quiet (hi.trans (qb.trans hfin))))
        simpa [nlT] using this
      · show (P.sum { ((((q.spacedToken op.str).advanceLine opPos.line).newline 0).indent.advanceLine yl) with nestedBinary := yb }).sk = true
        rw [hfin.sk, qb.sk, hi.sk, hnsk]

theorem Quiet.binaryEnd (p : P) (hw : W p) (indent multi : Bool) :
    Quiet p (p.binaryEnd indent multi) ∧ (p.binaryEnd indent multi).wantSpace = p.wantSpace ∧
      (p.binaryEnd indent multi).sum = p.sum := by
  unfold P.binaryEnd
  split
  · dsimp only
    have h0 : ∃ q : P, q = (if indent = true then p.decLevel else p) ∧ Quiet p q ∧ q.wantSpace = p.wantSpace ∧ q.sum = p.sum := by
      refine ⟨_, rfl, ?_⟩
      split
      · obtain ⟨h1, h2⟩ := Quiet.decLevel hw
        refine ⟨h1, h2, ?_⟩
        unfold P.decLevel; split <;> exact P.sum_same _ _ rfl
      · exact ⟨Quiet.rfl' hw, rfl, rfl⟩
    obtain ⟨q, hq, h1, h2, h3⟩ := h0
    rw [← hq]
    have hfin : Quiet q { q with nestedBinary := false } := Quiet.of_out h1.w rfl ⟨rfl, rfl, rfl, rfl, rfl⟩ rfl
    exact ⟨h1.trans hfin, h2, h3⟩
  · exact ⟨Quiet.rfl' hw, rfl, rfl⟩


/-! ## Statements without subshells and blocks: simple commands joined by `&&`, `||`, `|` -/

mutual
def Stmt.lin : Stmt → Bool
  | .mk _ _ _ _ c => c.lin
def Cmd.lin : Cmd → Bool
  | .call _ => true
  | .binary _ _ x y => x.lin && y.lin
  | _ => false
end

def Stmts.lin : Stmts → Bool
  | .nil => true
  | .cons s r => s.lin && r.lin

/-- what printing a command establishes -/
structure CmdOut (p p' : P) (c : Cmd) (lc : LCmd) : Prop where
  adv : Adv p p' lc.toks
  valid : lc.valid = true
  norm : lc.norm = c.norm
  ao : lc.isAndOr = c.isAndOr
  bin : lc.isBinary = c.isBinary
  after : AfterWord p'
  wsemi : p.wroteSemi = false → p'.wroteSemi = false
  ew : lc.endsInWord = true

/-- what printing a statement establishes -/
structure StmtOut (p p' : P) (s : Stmt) (ls : LStmt) : Prop where
  adv : Adv p p' ls.toks
  valid : ls.valid = true
  norm : ls.norm = s.norm
  neg : ls.neg = s.negated
  ao : ls.cmd.isAndOr = s.cmd.isAndOr
  bin : ls.cmd.isBinary = s.cmd.isBinary
  ws : p'.wantSpace = .required
  sk : p'.sum.sk = false
  wsemi : p'.wroteSemi = (ls.term != .none)
  bare : s.bare = true → ls.term = .none
  single : p.o.singleLine = true → s.bg = false → ls.term = .none
  amp : (ls.term == .amp) = s.bg
  last : ls.term = .none → ∃ parts, p'.sum.last = some (.word parts)
  ew : ls.cmd.endsInWord = true

theorem stmtPre_wroteSemi (p : P) (neg : Bool) : (p.stmtPre neg).wroteSemi = false := by
  unfold P.stmtPre
  dsimp only
  split
  · unfold P.spacedString P.spacePad
    split <;> rfl
  · rfl

mutual
theorem lin_stmt : ∀ (s : Stmt), s.lin = true → s.wf = true → ∀ (p : P), W p → ∃ ls, StmtOut p (p.stmt s) s ls
  | .mk pos semi neg bg cmd, hlin, hwf, p, hw => by
    have hclin : cmd.lin = true := by simpa [Stmt.lin] using hlin
    simp only [Stmt.wf, Bool.and_eq_true, Bool.not_eq_true'] at hwf
    obtain ⟨hcwf, hnao⟩ := hwf
    obtain ⟨h1, h2, h3, _⟩ := Emits.stmtPre p hw neg
    obtain ⟨lc, hc⟩ := lin_cmd cmd hclin hcwf (p.stmtPre neg) h2 (stmtPre_wroteSemi p neg)
    have hws : ((p.stmtPre neg).command cmd).wroteSemi = false := hc.wsemi (stmtPre_wroteSemi p neg)
    obtain ⟨term, e1, e2, e3, e4, e5, e6, e7, e8, e9, e10, e11⟩ := Emits.stmtEnd _ hc.adv.w hc.after semi bg
    refine ⟨.mk neg lc term, ?_⟩
    have hamp : (term == Term.amp) = bg := by
      cases bg with
      | true => rw [e7 rfl]; rfl
      | false =>
        have := e8 rfl
        cases term <;> simp at this ⊢
    unfold P.stmt
    refine ⟨⟨?_, ?_, ?_, ?_, e2⟩, ?_, ?_, rfl, ?_, ?_, e4, e5, e6, ?_, ?_, hamp, e10, hc.ew⟩
    · rw [e3.o, hc.adv.o, h3.o]
    · intro hm
      rw [e3.must]
      exact hc.adv.must (by rw [h3.must]; exact hm)
    · rw [e3.first, hc.adv.first, h3.first]
    · rw [e1, hc.adv.toks, h1]
      simp [LStmt.toks, List.append_assoc]
    · simp only [LStmt.valid, hc.valid, Bool.true_and, Bool.not_eq_true', hc.ao]
      exact hnao
    · simp [LStmt.norm, Stmt.norm, hc.norm, hamp]
    · simpa [LStmt.cmd, Stmt.cmd] using hc.ao
    · simpa [LStmt.cmd, Stmt.cmd] using hc.bin
    · intro hb
      simp only [Stmt.bare, Stmt.bg, Stmt.semi, Bool.and_eq_true, Bool.not_eq_true'] at hb
      exact e11 hb.2 hb.1
    · intro hsl hbg
      apply e9 _ hbg
      rw [hc.adv.o, h3.o]
      exact hsl
theorem lin_cmd : ∀ (c : Cmd), c.lin = true → c.wf = true → ∀ (p : P), W p → p.wroteSemi = false →
    ∃ lc, CmdOut p (p.command c) c lc
  | .call args, _, hwf, p, hw, hws => by
    obtain ⟨hane, hawf⟩ := call_wf_args hwf
    obtain ⟨c1, c2⟩ := Emits.command_call args hane hawf p hw
    refine ⟨.call (args.map Word.norm), ⟨?_, ?_, ?_, rfl, rfl, c2, fun _ => by rw [c1.same.wsemi]; exact hws, rfl⟩⟩
    · have := Adv.of_emits c1
      simpa [LCmd.toks, List.map_map, Function.comp_def] using this
    · have := mkL_valid false args .none hwf
      simpa [mkL, LStmt.valid, LCmd.isAndOr] using this
    · simp [LCmd.norm, Cmd.norm]
  | .subshell _ _ _, hlin, _, _, _, _ => by simp [Cmd.lin] at hlin
  | .block _ _ _, hlin, _, _, _, _ => by simp [Cmd.lin] at hlin
  | .binary opPos op x y, hlin, hwf, p, hw, hws => by
    simp only [Cmd.lin, Bool.and_eq_true] at hlin
    simp only [Cmd.wf, Bool.and_eq_true] at hwf
    obtain ⟨⟨⟨⟨hxwf, hywf⟩, hxb⟩, hyb⟩, hshape⟩ := hwf
    have q1 := Quiet.advanceLine hw x.pos.line
    obtain ⟨q2, _⟩ := Quiet.spacePad q1.w
    obtain ⟨lsx, hx⟩ := lin_stmt x hlin.1 hxwf _ q2.w
    have hxt := hx.bare hxb
    have hlast : LastWG (((p.advanceLine x.pos.line).spacePad).stmt x) := by
      intro l hl
      obtain ⟨parts, e⟩ := hx.last hxt
      rw [e] at hl; cases hl; trivial
    obtain ⟨nl, hb, hbsk⟩ := Adv.binaryOp _ hx.adv.w hlast hx.sk opPos op y.pos.line
      y.isBinaryCmd
    obtain ⟨lsy, hy⟩ := lin_stmt y hlin.2 hywf _ hb.w
    have hyt := hy.bare hyb
    obtain ⟨qe, qews, qesum⟩ := Quiet.binaryEnd _ hy.adv.w
      (((p.advanceLine x.pos.line).spacePad.stmt x).binaryOp opPos op y.pos.line y.isBinaryCmd).2.1
      (((p.advanceLine x.pos.line).spacePad.stmt x).binaryOp opPos op y.pos.line y.isBinaryCmd).2.2
    refine ⟨.binary op nl lsx lsy, ?_⟩
    unfold P.command
    dsimp only
    refine ⟨?_, ?_, ?_, ?_, rfl, ?_, ?_, ?_⟩
    · have := (((Adv.of_quiet (q1.trans q2)).trans hx.adv).trans hb).trans (hy.adv.trans (Adv.of_quiet qe))
      simpa [LCmd.toks, List.append_assoc] using this
    · simp only [LCmd.valid, hx.valid, hy.valid, hxt, hyt, beq_self_eq_true, Bool.and_self, Bool.true_and]
      cases op with
      | pipe =>
        simp only [Bool.and_eq_true, Bool.not_eq_true'] at hshape ⊢
        obtain ⟨⟨⟨s1, s2⟩, s3⟩, s4⟩ := hshape
        exact ⟨⟨⟨by rw [hx.neg]; exact s1, by rw [hy.neg]; exact s2⟩, by rw [hx.ao]; exact s3⟩, by rw [hy.bin]; exact s4⟩
      | andStmt => simpa [hy.ao] using hshape
      | orStmt => simpa [hy.ao] using hshape
    · simp [LCmd.norm, Cmd.norm, hx.norm, hy.norm]
    · cases op <;> rfl
    · exact ⟨by rw [qews]; exact hy.ws, by rw [qesum]; exact hy.sk, by
        obtain ⟨parts, e⟩ := hy.last hyt
        exact ⟨parts, by rw [qesum]; exact e⟩⟩
    · intro _
      rw [qe.same.wsemi, hy.wsemi, hyt]
      rfl
    · simp only [LCmd.endsInWord]
      obtain ⟨n, c, t⟩ := lsy
      simp only [LStmt.term] at hyt
      subst hyt
      simpa [LStmt.endsInWord, LStmt.cmd] using hy.ew
end


/-! ## Lists of linear statements -/

def LStmt.withTerm : LStmt → Term → LStmt
  | .mk n c _, t => .mk n c t

theorem LStmt.withTerm_semi (ls : LStmt) (h : ls.term = .none) :
    (ls.withTerm .semi).toks = ls.toks ++ [.semi] ∧ (ls.withTerm .semi).valid = ls.valid ∧
    (ls.withTerm .semi).norm = ls.norm ∧ (ls.withTerm .semi).term = .semi := by
  obtain ⟨n, c, t⟩ := ls
  simp only [LStmt.term] at h
  subst h
  refine ⟨by simp [LStmt.withTerm, LStmt.toks, Term.toks], by simp [LStmt.withTerm, LStmt.valid], ?_, rfl⟩
  simp only [LStmt.withTerm, LStmt.norm]
  rfl

theorem Stmts.lin_cons {s : Stmt} {r : Stmts} (h : (Stmts.cons s r).lin = true) : s.lin = true ∧ r.lin = true := by
  simpa [Stmts.lin] using h

/-- the state after a linear statement, as the loop leaves it -/
theorem post_of_stmtOut {q : P} {s : Stmt} {ls : LStmt} (hs : StmtOut q (q.stmt s) s ls)
    (hm : q.mustNewline = false) (hf : q.firstLine = false) (hr : refuse q.o = false) :
    Post { (q.stmt s) with wantNewline := true } := by
  refine ⟨⟨hs.adv.w.ok, hs.adv.w.gap⟩, hs.ws, rfl, hs.adv.must hm, by show (q.stmt s).firstLine = false; rw [hs.adv.first, hf],
    hs.sk, ?_, by show refuse (q.stmt s).o = false; rw [hs.adv.o]; exact hr⟩
  intro h
  have h' : (q.stmt s).wroteSemi = false := h
  rw [hs.wsemi] at h'
  have : ls.term = .none := by
    cases ht : ls.term <;> simp [ht] at h' ⊢
  exact hs.last this

theorem loop_lin : ∀ (ss : Stmts), ss.lin = true → ss.wf = true → ss ≠ .nil → ∀ (p : P), Post p →
    ∃ (pre : List ATok) (lt : LStmts),
      (p.stmtListLoop false ss).sum.toks = p.sum.toks ++ (pre ++ lt.toks) ∧ lt.valid = true ∧ lt.norm = ss.norm ∧
      lt.finalNl = false ∧ Done p (p.stmtListLoop false ss) ∧
      ((p.o.singleLine = false ∧ pre = [.newl]) ∨
       (p.o.singleLine = true ∧ pre = (if p.wroteSemi then [] else [ATok.semi])))
  | .nil, _, _, hne, _, _ => absurd rfl hne
  | .cons s rest, hlin, hwf, _, p, hp => by
    obtain ⟨hslin, hrlin⟩ := Stmts.lin_cons hlin
    obtain ⟨hswf, hrwf⟩ := Stmts.wf_cons hwf
    obtain ⟨pre, t1, w1, o1, m1, f1, hpre⟩ := stmtSep_post p hp s.pos.line
    obtain ⟨ls, hs⟩ := lin_stmt s hslin hswf (p.stmtSep false s.pos.line) w1
    have hpost : Post { ((p.stmtSep false s.pos.line).stmt s) with wantNewline := true } :=
      post_of_stmtOut hs m1 f1 (by rw [o1]; exact hp.notRefused)
    have hpso : ((p.stmtSep false s.pos.line).stmt s).o = p.o := by rw [hs.adv.o, o1]
    have hunf : p.stmtListLoop false (.cons s rest) =
        P.stmtListLoop { ((p.stmtSep false s.pos.line).stmt s) with wantNewline := true } false rest := by
      rw [P.stmtListLoop]
    rw [hunf]
    have htoks : (P.sum { ((p.stmtSep false s.pos.line).stmt s) with wantNewline := true }).toks =
        p.sum.toks ++ (pre ++ ls.toks) := by
      show ((p.stmtSep false s.pos.line).stmt s).sum.toks = _
      rw [hs.adv.toks, t1, List.append_assoc]
    cases rest with
    | nil =>
      rw [P.stmtListLoop]
      refine ⟨pre, .one ls false, ?_, by simpa [LStmts.valid] using hs.valid, by simp [LStmts.norm, Stmts.norm, hs.norm],
        rfl, ⟨hpost.w, hpost.sk, hpso⟩, hpre⟩
      rw [htoks]
      simp [LStmts.toks, nlT]
    | cons s2 rest2 =>
      obtain ⟨pre2, lt2, r1, r2, r3, rf, r4, r5⟩ := loop_lin (.cons s2 rest2) hrlin hrwf (by simp) _ hpost
      have hdone : Done p (P.stmtListLoop { ((p.stmtSep false s.pos.line).stmt s) with wantNewline := true } false (.cons s2 rest2)) :=
        ⟨r4.w, r4.sk, r4.o.trans hpso⟩
      have hwsemi : (({ ((p.stmtSep false s.pos.line).stmt s) with wantNewline := true } : P)).wroteSemi = (ls.term != .none) := hs.wsemi
      rcases r5 with ⟨hsl, rfl⟩ | ⟨hsl, rfl⟩
      · refine ⟨pre, .cons ls true lt2, ?_, by simp [LStmts.valid, hs.valid, r2], by simp [LStmts.norm, Stmts.norm, hs.norm, r3],
          rf, hdone, hpre⟩
        rw [r1, htoks]
        simp [LStmts.toks, nlT, List.append_assoc]
      · rw [hwsemi] at r1
        cases hterm : ls.term with
        | none =>
          obtain ⟨a1, a2, a3, a4⟩ := LStmt.withTerm_semi ls hterm
          refine ⟨pre, .cons (ls.withTerm .semi) false lt2, ?_, ?_, by simp [LStmts.norm, Stmts.norm, a3, hs.norm, r3],
            rf, hdone, hpre⟩
          · rw [r1, htoks, hterm]
            simp [LStmts.toks, nlT, a1, List.append_assoc]
          · simp only [LStmts.valid, a2, hs.valid, a4, r2]
            rfl
        | semi =>
          refine ⟨pre, .cons ls false lt2, ?_, ?_, by simp [LStmts.norm, Stmts.norm, hs.norm, r3], rf, hdone, hpre⟩
          · rw [r1, htoks, hterm]
            simp [LStmts.toks, nlT, List.append_assoc]
          · simp only [LStmts.valid, hs.valid, hterm, r2]
            rfl
        | amp =>
          refine ⟨pre, .cons ls false lt2, ?_, ?_, by simp [LStmts.norm, Stmts.norm, hs.norm, r3], rf, hdone, hpre⟩
          · rw [r1, htoks, hterm]
            simp [LStmts.toks, nlT, List.append_assoc]
          · simp only [LStmts.valid, hs.valid, hterm, r2]
            rfl


/-- The printer half of the round trip for programs without subshells and blocks (simple commands
    joined by `&&`, `||`, `|`, with `!`, `&`, `;`): for every option set and every assignment of
    positions the bytes printed are a concrete syntax of the tree. -/
theorem print_in_Prints_lin (o : Opts) (f : File) (b : Bytes) (hwf : f.wf = true) (hlin : f.stmts.lin = true)
    (hne : f.stmts ≠ .nil) (hp : printFile o f = .ok b) :
    ∃ (ps : List Piece) (lt : LStmts), b = render ps ∧ lexChain ps = true ∧ lt.valid = true ∧
      expect false ps = nlT false ++ (lt.toks ++ [.eof]) ∧ lt.norm = f.norm := by
  unfold printFile at hp
  split at hp
  · cases hp
  · rename_i href
    have href' : refuse o = false := by simpa using href
    have hinv := ((Inv.init o).stmtList f.stmts hwf).newline 0
    rw [hinv.finish] at hp
    simp only [Except.ok.injEq] at hp
    subst hp
    obtain ⟨ss⟩ := f
    simp only at hwf hlin hne
    cases ss with
    | nil => exact absurd rfl hne
    | cons s rest =>
      obtain ⟨hslin, hrlin⟩ := Stmts.lin_cons hlin
      obtain ⟨hswf, hrwf⟩ := Stmts.wf_cons hwf
      obtain ⟨s1, s2, s3, s4⟩ := stmtSep_first o s.pos.line
      have hw0 : W ((P.init o).stmtSep true s.pos.line) :=
        ⟨by simp [P.sum, s1, summarize], fun l hl _ => by simp [P.sum, s1, summarize] at hl⟩
      have hsum0 : ((P.init o).stmtSep true s.pos.line).sum.toks = [] := by simp [P.sum, s1, summarize]
      obtain ⟨ls, hs⟩ := lin_stmt s hslin hswf _ hw0
      have hpost : Post { (((P.init o).stmtSep true s.pos.line).stmt s) with wantNewline := true } :=
        post_of_stmtOut hs s3 s2 (by rw [s4]; exact href')
      have hpso : (((P.init o).stmtSep true s.pos.line).stmt s).o = o := by rw [hs.adv.o, s4]
      have htoks : (P.sum { (((P.init o).stmtSep true s.pos.line).stmt s) with wantNewline := true }).toks = ls.toks := by
        show (((P.init o).stmtSep true s.pos.line).stmt s).sum.toks = _
        rw [hs.adv.toks, hsum0]
        simp
      have hwsemi : (({ (((P.init o).stmtSep true s.pos.line).stmt s) with wantNewline := true } : P)).wroteSemi =
          (ls.term != .none) := hs.wsemi
      have hloop : ∃ (lt : LStmts) (pf : P), pf = (P.init o).stmtListLoop true (.cons s rest) ∧
          pf.sum.toks = lt.toks ∧ lt.valid = true ∧ lt.norm = (Stmts.cons s rest).norm ∧
          lt.finalNl = false ∧ W pf ∧ pf.sum.sk = false := by
        have hunf : (P.init o).stmtListLoop true (.cons s rest) =
            P.stmtListLoop { (((P.init o).stmtSep true s.pos.line).stmt s) with wantNewline := true } false rest := by
          rw [P.stmtListLoop]
        rw [hunf]
        cases rest with
        | nil =>
          refine ⟨.one ls false, _, by rw [P.stmtListLoop], ?_, by simpa [LStmts.valid] using hs.valid,
            by simp [LStmts.norm, Stmts.norm, hs.norm], rfl, hpost.w, hpost.sk⟩
          rw [htoks]
          simp [LStmts.toks, nlT]
        | cons s2 rest2 =>
          obtain ⟨pre2, lt2, r1, r2, r3, rf, r4, r5⟩ := loop_lin (.cons s2 rest2) hrlin hrwf (by simp) _ hpost
          rcases r5 with ⟨hsl, rfl⟩ | ⟨hsl, rfl⟩
          · refine ⟨.cons ls true lt2, _, rfl, ?_, by simp [LStmts.valid, hs.valid, r2],
              by simp [LStmts.norm, Stmts.norm, hs.norm, r3], rf, r4.w, r4.sk⟩
            rw [r1, htoks]
            simp [LStmts.toks, nlT]
          · rw [hwsemi] at r1
            cases hterm : ls.term with
            | none =>
              obtain ⟨a1, a2, a3, a4⟩ := LStmt.withTerm_semi ls hterm
              refine ⟨.cons (ls.withTerm .semi) false lt2, _, rfl, ?_, ?_,
                by simp [LStmts.norm, Stmts.norm, a3, hs.norm, r3], rf, r4.w, r4.sk⟩
              · rw [r1, htoks, hterm]
                simp [LStmts.toks, nlT, a1, List.append_assoc]
              · simp only [LStmts.valid, a2, hs.valid, a4, r2]
                rfl
            | semi =>
              refine ⟨.cons ls false lt2, _, rfl, ?_, ?_, by simp [LStmts.norm, Stmts.norm, hs.norm, r3], rf, r4.w, r4.sk⟩
              · rw [r1, htoks, hterm]
                simp [LStmts.toks, nlT]
              · simp only [LStmts.valid, hs.valid, hterm, r2]
                rfl
            | amp =>
              refine ⟨.cons ls false lt2, _, rfl, ?_, ?_, by simp [LStmts.norm, Stmts.norm, hs.norm, r3], rf, r4.w, r4.sk⟩
              · rw [r1, htoks, hterm]
                simp [LStmts.toks, nlT]
              · simp only [LStmts.valid, hs.valid, hterm, r2]
                rfl
      obtain ⟨lt, pf, hpf, ht, hv, hn, hfn, hwpf, hskpf⟩ := hloop
      obtain ⟨f1, f2, f3⟩ := LStmts.withFinalNl_facts lt hfn
      have hout : (((P.init o).stmtList (.cons s rest)).newline 0).out = .gap [10] :: pf.out := by
        have := (P.stmtListWith_out (P.init o) (.cons s rest) (fun q => q.stmtListLoop true (.cons s rest))).1
        unfold P.stmtList
        show Piece.gap [10] :: _ = _
        rw [this, hpf]
      refine ⟨_, lt.withFinalNl, rfl, ?_⟩
      have hsumF : summarize {} ((((P.init o).stmtList (.cons s rest)).newline 0).out.reverse) =
          pf.sum.step (.gap [10]) := by
        rw [hout]
        simp [P.sum, summarize, List.foldl_append]
      obtain ⟨c1, c2⟩ := lexChain_expect_init _ (by rw [hsumF, step_nl]; exact hwpf.ok) (by rw [hsumF, step_nl]; rfl)
      refine ⟨c1, by rw [f2]; exact hv, ?_, by rw [f3, hn]; rfl⟩
      rw [c2, hsumF, step_nl, hskpf, ht, f1]
      simp [nlT]

end ShVerif.L4
