import ShVerif.Model.C16
import ShVerif.Proofs.C16
/-
  C16 — lemmas for `bash_equiv_partial`: on the text of a well-formed brace expression tree
  (`canon`), the stack machine of SplitBraces rebuilds the tree, and bash's gobbler-based
  recursion computes its denotation.
-/
set_option linter.unusedSimpArgs false
set_option linter.unusedVariables false
namespace ShVerif.C16

/-! ## Part A: SplitBraces on the text of a canonical tree -/

theorem safeByte_ne (c : UInt8) (h : safeByte c = true) :
    c ≠ cLB ∧ c ≠ cRB ∧ c ≠ cComma ∧ c ≠ cDot ∧ c ≠ cBS ∧ c ≠ cDollar := by
  have := h
  simp only [safeByte, Bool.and_eq_true, decide_eq_true_eq] at this
  obtain ⟨⟨⟨⟨⟨a, b⟩, c'⟩, d⟩, e⟩, f⟩ := this
  exact ⟨a, b, c', d, e, f⟩

/-- Safe bytes just accumulate in `pend`. -/
theorem scan_safe (v : Bytes) (hv : v.all safeByte = true) :
    ∀ (st : St) (pend rest : Bytes),
      scan st .normal pend (v ++ rest) = scan st .normal (pend ++ v) rest := by
  induction v with
  | nil => intro st pend rest; simp
  | cons c v ih =>
    intro st pend rest
    simp only [List.all_cons, Bool.and_eq_true] at hv
    obtain ⟨h1, h2, h3, h4, h5, _⟩ := safeByte_ne c hv.1
    simp only [List.cons_append, scan, h1, h2, h3, h4, h5, if_false]
    rw [ih hv.2]
    simp

/-- What scanning the text of a word does to the machine: literals go to `pend`, a brace part
    flushes `pend` and is appended. -/
def feed : St → Bytes → List Part → St × Bytes
  | st, pend, [] => (st, pend)
  | st, pend, .lit v :: u => feed st (pend ++ v) u
  | st, pend, .brace s e :: u => feed ((st.flush pend).add (.brace s e)) [] u

theorem addParts_nil (st : St) : st.addParts [] = st := by
  unfold St.addParts
  cases h : st.stack with
  | nil => cases st; simp_all
  | cons f fs => cases st; cases f; simp_all

theorem addParts_addParts (st : St) (a b : List Part) :
    (st.addParts a).addParts b = st.addParts (a ++ b) := by
  unfold St.addParts
  cases h : st.stack with
  | nil => simp
  | cons f fs => simp

theorem flush_nil (st : St) : st.flush [] = st := by simp [St.flush]

theorem flush_ne_nil (st : St) (v : Bytes) (h : v ≠ []) : st.flush v = st.add (.lit v) := by
  simp [St.flush, h]

theorem safeLit_ne_nil (v : Bytes) (h : safeLit v = true) : v ≠ [] := by
  intro hv; subst hv; simp [safeLit] at h

theorem innerLit_ne_nil (v : Bytes) (h : innerLit v = true) : v ≠ [] := by
  intro hv; subst hv; simp [innerLit] at h

theorem innerLit_ok (v : Bytes) (h : innerLit v = true) : innerOk v = true := by
  simp only [innerLit, Bool.and_eq_true] at h; exact h.2

theorem innerOk_bytes : ∀ (v : Bytes), innerOk v = true → ∀ c ∈ v, safeByte c = true ∨ c = cDot
  | [], _, c, hc => by cases hc
  | [x], h, c, hc => by
    simp only [innerOk] at h
    simp only [List.mem_singleton] at hc
    subst hc; exact Or.inl h
  | x :: d :: t, h, c, hc => by
    simp only [innerOk, Bool.and_eq_true, Bool.or_eq_true, decide_eq_true_eq] at h
    simp only [List.mem_cons] at hc
    rcases hc with rfl | hc
    · rcases h.1 with h1 | h1
      · exact Or.inl h1
      · exact Or.inr h1.1
    · exact innerOk_bytes (d :: t) h.2 c (by simpa using hc)

theorem canon_cons (p : Part) (ps : List Part) (h : canon (p :: ps) = true) :
    canonPart p = true ∧ canon ps = true ∧ (p.isLit = true → headIsLit ps = false) := by
  simp only [canon, Bool.and_eq_true, Bool.not_eq_true', Bool.and_eq_false_iff] at h
  refine ⟨h.1.1, h.1.2, ?_⟩
  intro hp
  rcases h.2 with h2 | h2
  · simp [hp] at h2
  · exact h2

/-- Flushing after feeding a canonical word appends exactly its parts. -/
theorem feed_flush (u : List Part) : canon u = true → ∀ (st : St) (pend : Bytes),
    (pend = [] ∨ headIsLit u = false) →
    (feed st pend u).1.flush (feed st pend u).2 = (st.flush pend).addParts u := by
  induction u with
  | nil => intro _ st pend _; simp [feed, addParts_nil]
  | cons p ps ih =>
    intro hc st pend hp
    obtain ⟨hcp, hcps, hadj⟩ := canon_cons p ps hc
    cases p with
    | lit v =>
      have hpend : pend = [] := by
        rcases hp with h | h
        · exact h
        · simp [headIsLit] at h
      subst hpend
      simp only [canonPart] at hcp
      simp only [feed, List.nil_append]
      rw [ih hcps st v (Or.inr (hadj rfl)), flush_ne_nil _ _ (innerLit_ne_nil v hcp), flush_nil,
        St.add, addParts_addParts]
      rfl
    | brace s e =>
      simp only [feed]
      rw [ih hcps _ [] (Or.inl rfl), flush_nil, St.add, addParts_addParts]
      rfl

/-! ### single machine steps -/

@[simp] theorem lb_ne_rb : (cLB = cRB) = False := by decide
@[simp] theorem lb_ne_comma : (cLB = cComma) = False := by decide
@[simp] theorem lb_ne_dot : (cLB = cDot) = False := by decide
@[simp] theorem lb_ne_bs : (cLB = cBS) = False := by decide
@[simp] theorem lb_ne_dollar : (cLB = cDollar) = False := by decide
@[simp] theorem rb_ne_lb : (cRB = cLB) = False := by decide
@[simp] theorem rb_ne_comma : (cRB = cComma) = False := by decide
@[simp] theorem rb_ne_dot : (cRB = cDot) = False := by decide
@[simp] theorem rb_ne_bs : (cRB = cBS) = False := by decide
@[simp] theorem rb_ne_dollar : (cRB = cDollar) = False := by decide
@[simp] theorem comma_ne_lb : (cComma = cLB) = False := by decide
@[simp] theorem comma_ne_rb : (cComma = cRB) = False := by decide
@[simp] theorem comma_ne_dot : (cComma = cDot) = False := by decide
@[simp] theorem comma_ne_bs : (cComma = cBS) = False := by decide
@[simp] theorem comma_ne_dollar : (cComma = cDollar) = False := by decide
@[simp] theorem dot_ne_lb : (cDot = cLB) = False := by decide
@[simp] theorem dot_ne_rb : (cDot = cRB) = False := by decide
@[simp] theorem dot_ne_comma : (cDot = cComma) = False := by decide
@[simp] theorem dot_ne_bs : (cDot = cBS) = False := by decide
@[simp] theorem dot_ne_dollar : (cDot = cDollar) = False := by decide
@[simp] theorem bs_ne_lb : (cBS = cLB) = False := by decide
@[simp] theorem bs_ne_rb : (cBS = cRB) = False := by decide
@[simp] theorem bs_ne_comma : (cBS = cComma) = False := by decide
@[simp] theorem bs_ne_dot : (cBS = cDot) = False := by decide
@[simp] theorem bs_ne_dollar : (cBS = cDollar) = False := by decide
@[simp] theorem dollar_ne_lb : (cDollar = cLB) = False := by decide
@[simp] theorem dollar_ne_rb : (cDollar = cRB) = False := by decide
@[simp] theorem dollar_ne_comma : (cDollar = cComma) = False := by decide
@[simp] theorem dollar_ne_dot : (cDollar = cDot) = False := by decide
@[simp] theorem dollar_ne_bs : (cDollar = cBS) = False := by decide


theorem scan_lb (st : St) (pend r : Bytes) :
    scan st .normal pend (cLB :: r) = scan (st.flush pend).openBrace .normal [] r := by
  simp [scan]

theorem scan_comma (st : St) (pend r : Bytes) (h : st.stack ≠ []) :
    scan st .normal pend (cComma :: r) = scan (st.flush pend).commaStep .normal [] r := by
  cases hs : st.stack with
  | nil => exact absurd hs h
  | cons f fs => simp [scan, hs]

theorem scan_rb (st : St) (pend r : Bytes) (h : st.stack ≠ []) :
    scan st .normal pend (cRB :: r) = scan (st.flush pend).closeStep .normal [] r := by
  cases hs : st.stack with
  | nil => exact absurd hs h
  | cons f fs => simp [scan, hs]

theorem scan_dots (st : St) (pend r : Bytes) (f : Frame) (fs : List Frame)
    (hs : st.stack = f :: fs) (hok : f.seq = true ∨ f.done = []) :
    scan st .normal pend (cDot :: cDot :: r) = scan (st.flush pend).dotsStep .normal [] r := by
  have hc : (!f.seq && decide (f.done.length > 0)) = false := by
    rcases hok with h | h <;> simp [h]
  simp [scan, hs, hc]

/-- The state in which a group has just been opened and `a` scanned. -/
theorem seq_elems_cases (elems : List Word) (hv : seqValid elems = true)
    (hs : seqShape elems = true) :
    (∃ a b, elems = [[.lit a], [.lit b]] ∧ safeLit a = true ∧ safeLit b = true) ∨
    (∃ a b c, elems = [[.lit a], [.lit b], [.lit c]] ∧ safeLit a = true ∧ safeLit b = true ∧
      safeLit c = true) := by
  have single : ∀ e : Word, (match e with | [.lit v] => safeLit v | _ => false) = true →
      ∃ v, e = [.lit v] ∧ safeLit v = true := by
    intro e he
    match e, he with
    | [.lit v], he => exact ⟨v, rfl, he⟩
  unfold seqValid at hv
  match elems, hv, hs with
  | [e0, e1], _, hs =>
    simp only [seqShape, List.all_cons, List.all_nil, Bool.and_true, Bool.and_eq_true] at hs
    obtain ⟨a, rfl, ha⟩ := single e0 hs.1
    obtain ⟨b, rfl, hb⟩ := single e1 hs.2
    exact Or.inl ⟨a, b, rfl, ha, hb⟩
  | [e0, e1, e2], _, hs =>
    simp only [seqShape, List.all_cons, List.all_nil, Bool.and_true, Bool.and_eq_true] at hs
    obtain ⟨a, rfl, ha⟩ := single e0 hs.1
    obtain ⟨b, rfl, hb⟩ := single e1 hs.2.1
    obtain ⟨c, rfl, hc⟩ := single e2 hs.2.2
    exact Or.inr ⟨a, b, c, rfl, ha, hb, hc⟩
  | e0 :: e1 :: e2 :: e3 :: more, hv, _ =>
    simp only at hv
    split at hv <;> simp at hv

theorem safeLit_all (v : Bytes) (h : safeLit v = true) : v.all safeByte = true := by
  simp only [safeLit, Bool.and_eq_true] at h; exact h.2

theorem scan_seq2 (a b : Bytes) (ha : safeLit a = true) (hb : safeLit b = true)
    (hv : seqValid [[.lit a], [.lit b]] = true) (st : St) (pend rest : Bytes) :
    scan st .normal pend (cLB :: (a ++ (dots ++ (b ++ cRB :: rest)))) =
      scan ((st.flush pend).add (.brace true [[.lit a], [.lit b]])) .normal [] rest := by
  have hane := safeLit_ne_nil a ha
  have hbne := safeLit_ne_nil b hb
  rw [scan_lb, scan_safe a (safeLit_all a ha)]
  simp only [dots, List.cons_append, List.nil_append]
  rw [scan_dots _ _ _ ⟨false, [], []⟩ (st.flush pend).stack (by simp [St.openBrace]) (Or.inr rfl),
    scan_safe b (safeLit_all b hb),
    scan_rb _ _ _ (by simp [St.dotsStep, St.flush, hane, St.add, St.addParts, St.openBrace])]
  congr 1
  simp [St.closeStep, St.dotsStep, St.flush, hane, hbne, St.add, St.addParts, St.openBrace,
    Frame.elems, hv]

theorem scan_seq3 (a b c : Bytes) (ha : safeLit a = true) (hb : safeLit b = true)
    (hc : safeLit c = true) (hv : seqValid [[.lit a], [.lit b], [.lit c]] = true)
    (st : St) (pend rest : Bytes) :
    scan st .normal pend (cLB :: (a ++ (dots ++ (b ++ (dots ++ (c ++ cRB :: rest)))))) =
      scan ((st.flush pend).add (.brace true [[.lit a], [.lit b], [.lit c]])) .normal [] rest := by
  have hane := safeLit_ne_nil a ha
  have hbne := safeLit_ne_nil b hb
  have hcne := safeLit_ne_nil c hc
  rw [scan_lb, scan_safe a (safeLit_all a ha)]
  simp only [dots, List.cons_append, List.nil_append]
  rw [scan_dots _ _ _ ⟨false, [], []⟩ (st.flush pend).stack (by simp [St.openBrace]) (Or.inr rfl),
    scan_safe b (safeLit_all b hb),
    scan_dots _ _ _ ⟨true, [[.lit a]], []⟩ (st.flush pend).stack
      (by simp [St.dotsStep, St.flush, hane, St.add, St.addParts, St.openBrace, Frame.elems])
      (Or.inl rfl),
    scan_safe c (safeLit_all c hc),
    scan_rb _ _ _ (by simp [St.dotsStep, St.flush, hane, hbne, St.add, St.addParts, St.openBrace])]
  congr 1
  simp [St.closeStep, St.dotsStep, St.flush, hane, hbne, hcne, St.add, St.addParts, St.openBrace,
    Frame.elems, hv]

theorem scan_dot_single (st : St) (pend : Bytes) (d : UInt8) (r : Bytes) (hd : d ≠ cDot) :
    scan st .normal pend (cDot :: d :: r) = scan st .normal (pend ++ [cDot]) (d :: r) := by
  simp only [scan]
  simp only [dot_ne_bs, dot_ne_lb, dot_ne_comma, if_false, if_true]
  cases hs : st.stack with
  | nil => simp
  | cons f fs => simp [hd]

theorem scan_inner : ∀ (v : Bytes), innerOk v = true → ∀ (st : St) (pend rest : Bytes),
    scan st .normal pend (v ++ rest) = scan st .normal (pend ++ v) rest
  | [], _, st, pend, rest => by simp
  | [c], h, st, pend, rest => by
    simp only [innerOk] at h
    exact scan_safe [c] (by simp [h]) st pend rest
  | c :: d :: r, h, st, pend, rest => by
    simp only [innerOk, Bool.and_eq_true, Bool.or_eq_true, decide_eq_true_eq] at h
    have ih := scan_inner (d :: r) h.2 st (pend ++ [c]) rest
    rcases h.1 with hc | ⟨rfl, hd⟩
    · have := scan_safe [c] (by simp [hc]) st pend ((d :: r) ++ rest)
      simp only [List.singleton_append] at this
      rw [List.cons_append, this, ih]; simp
    · rw [List.cons_append, List.cons_append, scan_dot_single st pend d (r ++ rest) hd]
      have := ih
      simp only [List.cons_append] at this
      rw [this]; simp

/-! ### the whole tree -/

theorem addParts_stack_ne (st : St) (ps : List Part) (h : st.stack ≠ []) :
    (st.addParts ps).stack ≠ [] := by
  unfold St.addParts
  cases hs : st.stack with
  | nil => exact absurd hs h
  | cons f fs => simp

theorem flush_stack_ne (st : St) (pend : Bytes) (h : st.stack ≠ []) :
    (st.flush pend).stack ≠ [] := by
  unfold St.flush; split
  · exact h
  · exact addParts_stack_ne _ _ h

theorem feed_stack_ne (u : List Part) : ∀ (st : St) (pend : Bytes), st.stack ≠ [] →
    (feed st pend u).1.stack ≠ [] := by
  induction u with
  | nil => intro st pend h; simpa [feed] using h
  | cons p ps ih =>
    intro st pend h
    cases p with
    | lit v => simp only [feed]; exact ih _ _ h
    | brace s e =>
      simp only [feed]
      exact ih _ _ (addParts_stack_ne _ _ (flush_stack_ne _ _ h))

/-- Scanning the text of `u` feeds `u` to the machine. -/
def ScanFeeds (u : List Part) : Prop :=
  ∀ (st : St) (pend rest : Bytes),
    scan st .normal pend (render u ++ rest) = scan (feed st pend u).1 .normal (feed st pend u).2 rest

theorem scanElems_aux (es : List (List Part)) :
    (∀ e' ∈ es, canon e' = true ∧ ScanFeeds e') →
    ∀ (e : List Part), canon e = true → ScanFeeds e →
    ∀ (top : Word) (D : List Word) (fs : List Frame) (rest : Bytes), 2 ≤ (D ++ e :: es).length →
      scan ⟨top, ⟨false, D, []⟩ :: fs⟩ .normal []
        (joinSep [cComma] (render e :: renderElems es) ++ cRB :: rest) =
      scan ((St.mk top fs).add (.brace false (D ++ e :: es))) .normal [] rest := by
  induction es with
  | nil =>
    intro _ e hce he top D fs rest hlen
    simp only [renderElems_nil, joinSep]
    rw [he, scan_rb _ _ _ (feed_stack_ne e _ _ (by simp)), feed_flush e hce _ _ (Or.inl rfl),
      flush_nil]
    congr 1
    cases D with
    | nil => simp at hlen
    | cons d ds => simp [St.closeStep, St.addParts, St.add, Frame.elems]
  | cons e' es' ih =>
    intro hall e hce he top D fs rest hlen
    have h' := hall e' (by simp)
    simp only [renderElems_cons, joinSep, List.append_assoc]
    rw [he, List.singleton_append,
      scan_comma _ _ _ (feed_stack_ne e _ _ (by simp)), feed_flush e hce _ _ (Or.inl rfl), flush_nil]
    have hstep : (St.addParts ⟨top, ⟨false, D, []⟩ :: fs⟩ e).commaStep =
        ⟨top, ⟨false, D ++ [e], []⟩ :: fs⟩ := by
      simp [St.commaStep, St.addParts, Frame.elems]
    rw [hstep]
    have := ih (fun x hx => hall x (by simp [hx])) e' h'.1 h'.2 top (D ++ [e]) fs rest
      (by simp at hlen ⊢; omega)
    simp only [List.append_assoc, List.singleton_append] at this
    exact this

theorem canonElems_mem (es : List (List Part)) (h : canonElems es = true) :
    ∀ e ∈ es, canon e = true := by
  induction es with
  | nil => intro e he; cases he
  | cons x xs ih =>
    simp only [canonElems, Bool.and_eq_true] at h
    intro e he
    simp only [List.mem_cons] at he
    rcases he with rfl | he
    · exact h.1
    · exact ih h.2 e he

mutual
theorem scanPart : ∀ (p : Part), canonPart p = true → ScanFeeds [p]
  | .lit v, h => by
    intro st pend rest
    simp only [canonPart] at h
    simp only [render_cons, renderPart_lit, render_nil, List.append_nil, feed]
    exact scan_inner v (innerLit_ok v h) st pend rest
  | .brace true elems, h => by
    intro st pend rest
    simp only [canonPart, if_true, Bool.and_eq_true] at h
    rcases seq_elems_cases elems h.1 h.2 with ⟨a, b, rfl, ha, hb⟩ | ⟨a, b, c, rfl, ha, hb, hc⟩
    · simp only [render_cons, render_nil, List.append_nil, renderPart_brace, sepOf, if_true,
        renderElems_cons, renderElems_nil, renderPart_lit, joinSep, feed, List.cons_append,
        List.append_assoc, List.singleton_append]
      exact scan_seq2 a b ha hb h.1 st pend rest
    · simp only [render_cons, render_nil, List.append_nil, renderPart_brace, sepOf, if_true,
        renderElems_cons, renderElems_nil, renderPart_lit, joinSep, feed, List.cons_append,
        List.append_assoc, List.singleton_append]
      exact scan_seq3 a b c ha hb hc h.1 st pend rest
  | .brace false [], h => by simp [canonPart] at h
  | .brace false (e :: es), h => by
    intro st pend rest
    simp only [canonPart, Bool.false_eq_true, if_false, Bool.and_eq_true, decide_eq_true_eq,
      canonElems] at h
    obtain ⟨hlen, hce, hces⟩ := h
    simp only [render_cons, render_nil, List.append_nil, renderPart_brace, sepOf,
      Bool.false_eq_true, if_false, renderElems_cons, feed, List.cons_append, List.append_assoc,
      List.singleton_append]
    rw [scan_lb]
    have hall : ∀ e' ∈ es, canon e' = true ∧ ScanFeeds e' := by
      intro e' he'
      exact ⟨canonElems_mem es hces e' he', scanWordMem es hces e' he'⟩
    have := scanElems_aux es hall e hce (scanWord e hce) (st.flush pend).top [] (st.flush pend).stack
      rest (by simpa using hlen)
    simp only [List.nil_append] at this
    exact this
theorem scanWord : ∀ (u : List Part), canon u = true → ScanFeeds u
  | [], _ => by intro st pend rest; simp [feed]
  | p :: ps, h => by
    intro st pend rest
    obtain ⟨hp, hps, _⟩ := canon_cons p ps h
    have h1 := scanPart p hp st pend (render ps ++ rest)
    have h2 := scanWord ps hps
    simp only [render_cons, render_nil, List.append_nil] at h1
    simp only [render_cons, List.append_assoc]
    rw [h1, h2]
    cases p <;> simp [feed]
theorem scanWordMem : ∀ (es : List (List Part)), canonElems es = true →
    ∀ e ∈ es, ScanFeeds e
  | [], _ => by intro e he; cases he
  | x :: xs, h => by
    simp only [canonElems, Bool.and_eq_true] at h
    intro e he
    simp only [List.mem_cons] at he
    rcases he with rfl | he
    · exact scanWord e h.1
    · exact scanWordMem xs h.2 e he
end

/-! ### `splitBraces (render t)` for canonical `t` -/

theorem addParts_stack_nil (st : St) (ps : List Part) (h : st.stack = []) :
    (st.addParts ps).stack = [] := by
  unfold St.addParts; rw [h]

theorem flush_stack_nil (st : St) (pend : Bytes) (h : st.stack = []) :
    (st.flush pend).stack = [] := by
  unfold St.flush; split
  · exact h
  · exact addParts_stack_nil _ _ h

theorem feed_stack_nil (u : List Part) : ∀ (st : St) (pend : Bytes), st.stack = [] →
    (feed st pend u).1.stack = [] := by
  induction u with
  | nil => intro st pend h; simpa [feed] using h
  | cons p ps ih =>
    intro st pend h
    cases p with
    | lit v => simp only [feed]; exact ih _ _ h
    | brace s e =>
      simp only [feed]
      exact ih _ _ (addParts_stack_nil _ _ (flush_stack_nil _ _ h))

@[simp] theorem hasBrace_nil : hasBrace [] = false := by simp [hasBrace]
@[simp] theorem hasBrace_cons_lit (v : Bytes) (ps : List Part) :
    hasBrace (.lit v :: ps) = hasBrace ps := by simp [hasBrace, Part.isLit]
@[simp] theorem hasBrace_cons_brace (s : Bool) (e : List Word) (ps : List Part) :
    hasBrace (.brace s e :: ps) = true := by simp [hasBrace, Part.isLit]
@[simp] theorem isLit_lit (v : Bytes) : (Part.lit v).isLit = true := rfl
@[simp] theorem isLit_brace (s : Bool) (e : List Word) : (Part.brace s e).isLit = false := rfl

theorem mem_render_of_hasBrace (t : List Part) (h : hasBrace t = true) : cLB ∈ render t := by
  induction t with
  | nil => simp [hasBrace] at h
  | cons p ps ih =>
    cases p with
    | lit v =>
      simp only [hasBrace_cons_lit] at h
      simp only [render_cons, renderPart_lit, List.mem_append]
      exact Or.inr (ih h)
    | brace s e => simp [renderPart_brace]

theorem not_mem_render_of_lits (t : List Part) (hc : canon t = true) (h : hasBrace t = false) :
    cLB ∉ render t := by
  induction t with
  | nil => simp
  | cons p ps ih =>
    obtain ⟨hp, hps, _⟩ := canon_cons p ps hc
    cases p with
    | lit v =>
      simp only [hasBrace_cons_lit] at h
      simp only [render_cons, renderPart_lit, List.mem_append, not_or]
      refine ⟨?_, ih hps h⟩
      intro hm
      simp only [canonPart] at hp
      rcases innerOk_bytes v (innerLit_ok v hp) cLB hm with h1 | h1
      · simp [safeByte] at h1
      · exact absurd h1 (by decide)
    | brace s e => simp at h

theorem allLit_of_not_hasBrace (t : List Part) (h : hasBrace t = false) : t.all Part.isLit = true := by
  induction t with
  | nil => simp
  | cons p ps ih =>
    cases p with
    | lit v => simp only [hasBrace_cons_lit] at h; simp [ih h]
    | brace s e => simp at h

/-- The split of the text of a canonical tree with a brace expression is the tree itself. -/
theorem split_canon (t : List Part) (hc : canon t = true) (hb : hasBrace t = true) :
    splitBraces (render t) = (t, true) := by
  unfold splitBraces
  rw [if_neg (by simpa using mem_render_of_hasBrace t hb)]
  have hscan := scanWord t hc ⟨[], []⟩ [] []
  simp only [List.append_nil] at hscan
  simp only [hscan, scan]
  have hst := feed_stack_nil t ⟨[], []⟩ [] rfl
  have hff := feed_flush t hc ⟨[], []⟩ [] (Or.inl rfl)
  rw [flush_nil] at hff
  have htop : (St.addParts ⟨[], []⟩ t) = ⟨t, []⟩ := by simp [St.addParts]
  rw [htop] at hff
  rw [hff]
  simp [unwind, hb]

/-- Denotation of the split of a canonical tree's text. -/
theorem split_canon_denot (t : List Part) (hc : canon t = true) :
    denot (splitBraces (render t)).1 = denot t := by
  cases hb : hasBrace t with
  | true => rw [split_canon t hc hb]
  | false =>
    have hnm := not_mem_render_of_lits t hc hb
    have hall := allLit_of_not_hasBrace t hb
    unfold splitBraces
    rw [if_pos hnm]
    simp only
    rw [denot_allLit t hall]; simp [cross_single_left]

end ShVerif.C16
