import ShVerif.Proofs.C26f
/-
  C26 — simulation: subshell-like commands (`( )`, `x=$( )`, pipelines) and function calls.
-/
namespace ShVerif.C26
open ShVerif.L5 ShVerif.L5.Bash

theorem foldStmts_pos {n : Nat} {p : Prog} {s s' : St} (hp : p.isNil = false)
    (h : foldStmts (fun st => run n (.stmt st)) p s = some s') : 1 ≤ n := by
  cases p with
  | nil => simp [Prog.isNil] at hp
  | cons st rest =>
    rw [foldStmts] at h
    cases hr : run n (.stmt st) s with
    | none => rw [hr] at h; cases h
    | some s1 => exact run_pos hr

theorem absEnv_subshellOf (s : St) (out : Str) :
    absEnv (subshellOf s out) = subEnv (absEnv s) out := by
  simp [absEnv, subshellOf, subEnv]

theorem Stat.sub {K : SCtx} {k : Ctx} {sub : Bool} (h : Stat K k sub)
    (hne : K.e = true → K.ign = false ∧ K.unk = false) (d : Nat) :
    Stat (subK K.e) { k with depth := d } true :=
  ⟨h.kt, fun h' => by simp [subK] at h', fun he _ _ => h.knign he (hne he).1 (hne he).2,
    fun h' => by simp [subK] at h', Nat.zero_le _, fun h' => by simp [subK] at h'⟩

theorem Dyn.sub {K : SCtx} {k : Ctx} {sub : Bool} {s : St} (hst : Stat K k sub) (h : Dyn K k sub s)
    (hne : K.e = true → K.ign = false ∧ K.unk = false) (out : Str) (d : Nat) :
    Dyn (subK K.e) { k with depth := d } true (subshellOf s out) :=
  ⟨rfl, ⟨fun _ => rfl, rfl⟩, h.fok, rfl,
    fun he => (hst.knign he (hne he).1 (hne he).2).symm, h.noe,
    fun h' => by simp [subK] at h', fun h' => by simp [subK] at h'⟩

/-- What the callers need from a list run in a subshell. -/
def SubRel : Option St → Res → Prop
  | none, none => True
  | some r2, some (fl, e1) =>
    fl = .norm ∧ e1.status = r2.exit.code ∧ e1.out = r2.out ∧ r2.exit.returning = false
  | _, _ => False

theorem sim_subrun {n : Nat} (hS : SimS n) {K : SCtx} {k : Ctx} {sub : Bool} {s : St} (p : Prog)
    (out0 : Str) (d : Nat) (hst : Stat K k sub) (hne : K.e = true → K.ign = false ∧ K.unk = false)
    (hp0 : p.isNil = false) (hsup : supProg (subK K.e) false p = true) (hd : Dyn K k sub s)
    (hl : LastOk s) (hx : s.exit = {}) :
    SubRel (foldStmts (fun st => run n (.stmt st)) p (subshellOf s out0))
      (subRun (fun st => sem n { k with depth := d } (.stmt st))
        (fun a e => sem n { k with depth := d, exitTrap := true } (.trap a) e) p (subEnv (absEnv s) out0)) := by
  have h0 := sim_list n hS p (subK K.e) false { k with depth := d } true (subshellOf s out0) hp0
    (hst.sub hne d) hsup (hd.sub hst hne out0 d) hl (by simp [NoFlags, subshellOf, hx])
    (by simp [NoPending, subshellOf])
  rw [absEnv_subshellOf] at h0
  unfold subRun
  cases hr : foldStmts (fun st => run n (.stmt st)) p (subshellOf s out0) with
  | none => rw [hr] at h0; rw [Rel_none h0]; trivial
  | some r2 =>
    rw [hr] at h0
    obtain ⟨fl, e1, he, hp⟩ := Rel_some h0
    rw [he]
    have hn1 : 1 ≤ n := foldStmts_pos hp0 hr
    cases fl with
    | norm =>
      obtain ⟨h1, h2, _, h4, _⟩ := hp
      subst h1
      have htn : (absEnvC r2).trapExit = .nil := h2.csub.1 rfl
      simp only [htn, sem_trap_nil hn1, SubRel]
      exact ⟨trivial, rfl, rfl, h4.1⟩
    | brk m =>
      obtain ⟨_, _, _, _, _, _, hlv, _⟩ := hp
      exact absurd hlv (not_levels_nil _ m rfl)
    | cont m =>
      obtain ⟨_, _, _, _, _, _, hlv, _⟩ := hp
      exact absurd hlv (not_levels_nil _ m rfl)
    | ret =>
      obtain ⟨_, _, _, _, _, hfn, _⟩ := hp
      simp [subK] at hfn
    | exit =>
      obtain ⟨_, hr', hs', ho, ht, hcs, _, _, _, _⟩ := hp
      have htn : e1.trapExit = .nil := by rw [ht]; exact hcs.1 rfl
      simp only [htn, sem_trap_nil hn1, SubRel]
      exact ⟨trivial, hs', ho, hr'⟩

theorem subNe_of {K : SCtx} (h : (K.e && (K.ign || K.unk)) = false) :
    K.e = true → K.ign = false ∧ K.unk = false := by
  intro he
  simp [he] at h
  exact h

theorem SubRel_some {a : St} {r : Res} (h : SubRel (some a) r) :
    ∃ e1, r = some (.norm, e1) ∧ e1.status = a.exit.code ∧ e1.out = a.out ∧
      a.exit.returning = false := by
  cases r with
  | none => exact absurd h (by simp [SubRel])
  | some pr =>
    obtain ⟨fl, e1⟩ := pr
    obtain ⟨h1, h2, h3, h4⟩ := h
    subst h1
    exact ⟨e1, rfl, h2, h3, h4⟩

theorem SubRel_none {r : Res} (h : SubRel none r) : r = none := by
  cases r with
  | none => rfl
  | some pr => exact absurd h (by simp [SubRel])

theorem sim_subsh {n : Nat} (hS : SimS n) {K : SCtx} {k : Ctx} {sub : Bool} {s : St} (p : Prog)
    (hst : Stat K k sub) (hs : supCmd K (.subsh p) = true) (hd : Dyn K k sub s) (hl : LastOk s)
    (hp : NoPending s) (hx : s.exit = {}) (q : Prop) (hq : ¬ q) :
    Rel (Post K k sub False q s) (run (n+1) (.cmd (.subsh p)) s)
      (sem (n+1) k (.cmd (.subsh p)) (absEnv s)) := by
  simp only [supCmd, Bool.and_eq_true, Bool.not_eq_eq_eq_not, Bool.not_true] at hs
  obtain ⟨⟨hp0, hne⟩, hsup⟩ := hs
  have hne' := subNe_of (K := K) hne
  have h0 := sim_subrun hS p s.out 0 hst hne' hp0 hsup hd hl hx
  have hrun : run (n+1) (.cmd (.subsh p)) s =
      match foldStmts (fun st => run n (.stmt st)) p (subshellOf s s.out) with
      | none => none
      | some r2 => some { s with exit := { r2.exit with exiting := false }, out := r2.out } := by
    rw [run]; simp only [stop_false_of_exit hx, Bool.false_eq_true, ↓reduceIte]; rfl
  have hsem : sem (n+1) k (.cmd (.subsh p)) (absEnv s) =
      match subRun (fun st => sem n { k with depth := 0 } (.stmt st))
          (fun a e => sem n { k with depth := 0, exitTrap := true } (.trap a) e) p (subEnv (absEnv s) s.out) with
      | none => none
      | some (_, e1) => some (.norm, { absEnv s with status := e1.status, out := e1.out }) := by
    rw [sem]; rfl
  rw [hrun, hsem]
  cases hr : foldStmts (fun st => run n (.stmt st)) p (subshellOf s s.out) with
  | none => rw [hr] at h0; rw [SubRel_none h0]; trivial
  | some r2 =>
    rw [hr] at h0
    obtain ⟨e1, he, h1, h2, h3⟩ := SubRel_some h0
    rw [he]
    simp only [Rel, Post]
    refine ⟨?_, hd.congr rfl rfl rfl rfl rfl rfl rfl rfl, ⟨rfl, rfl, rfl⟩, ⟨h3, rfl⟩, hp,
      fun h => h.elim, fun h => absurd h hq⟩
    simp [absEnv, absEnvC, h1, h2]

theorem sim_assignSub {n : Nat} (hS : SimS n) {K : SCtx} {k : Ctx} {sub : Bool} {s : St}
    (x : Str) (p : Prog)
    (hst : Stat K k sub) (hs : supCmd K (.assignSub x p) = true) (hd : Dyn K k sub s)
    (hl : LastOk s) (hp : NoPending s) (hx : s.exit = {}) (q : Prop) (hq : ¬ q) :
    Rel (Post K k sub False q s) (run (n+1) (.cmd (.assignSub x p)) s)
      (sem (n+1) k (.cmd (.assignSub x p)) (absEnv s)) := by
  simp only [supCmd, Bool.and_eq_true, Bool.not_eq_eq_eq_not, Bool.not_true] at hs
  obtain ⟨⟨hp0, hne⟩, hsup⟩ := hs
  have hne' := subNe_of (K := K) hne
  have h0 := sim_subrun hS p [] k.depth hst hne' hp0 hsup hd hl hx
  have hrun : run (n+1) (.cmd (.assignSub x p)) s =
      match foldStmts (fun st => run n (.stmt st)) p (subshellOf s []) with
      | none => none
      | some r2 =>
        some { s with lastExpandExit := { r2.exit with exiting := false },
                      exit := { r2.exit with exiting := false },
                      vars := (x, stripNl r2.out) :: s.vars } := by
    rw [run]; simp only [stop_false_of_exit hx, Bool.false_eq_true, ↓reduceIte]; rfl
  have hsem : sem (n+1) k (.cmd (.assignSub x p)) (absEnv s) =
      match subRun (fun st => sem n { k with depth := k.depth } (.stmt st))
          (fun a e => sem n { k with depth := k.depth, exitTrap := true } (.trap a) e) p (subEnv (absEnv s) []) with
      | none => none
      | some (_, e1) =>
        some (.norm, { absEnv s with status := e1.status, vars := (x, stripNl e1.out) :: (absEnv s).vars }) := by
    rw [sem]; rfl
  rw [hrun, hsem]
  cases hr : foldStmts (fun st => run n (.stmt st)) p (subshellOf s []) with
  | none => rw [hr] at h0; rw [SubRel_none h0]; trivial
  | some r2 =>
    rw [hr] at h0
    obtain ⟨e1, he, h1, h2, h3⟩ := SubRel_some h0
    rw [he]
    simp only [Rel, Post]
    refine ⟨?_, hd.congr rfl rfl rfl rfl rfl rfl rfl rfl, ⟨rfl, rfl, rfl⟩, ⟨h3, rfl⟩, hp,
      fun h => h.elim, fun h => absurd h hq⟩
    simp [absEnv, absEnvC, h1, h2]

theorem expandWord_nostatus (v : List (Str × Str)) (a b : Nat) :
    ∀ w : Word, w.all partNoStatus = true → expandWord v a w = expandWord v b w
  | [], _ => rfl
  | p :: r, h => by
    simp only [List.all_cons, Bool.and_eq_true] at h
    rw [expandWord, expandWord, expandWord_nostatus v a b r h.2]
    cases p with
    | lit s => rfl
    | var x => rfl
    | status => simp [partNoStatus] at h

theorem sim_echoSub {n : Nat} (hS : SimS n) {K : SCtx} {k : Ctx} {sub : Bool} {s : St}
    (w1 : Word) (p : Prog) (w2 : Word)
    (hst : Stat K k sub) (hs : supCmd K (.echoSub w1 p w2) = true) (hd : Dyn K k sub s)
    (hl : LastOk s) (hp : NoPending s) (hx : s.exit = {}) (q : Prop) :
    Rel (Post K k sub False q s) (run (n+1) (.cmd (.echoSub w1 p w2)) s)
      (sem (n+1) k (.cmd (.echoSub w1 p w2)) (absEnv s)) := by
  simp only [supCmd, Bool.and_eq_true, Bool.not_eq_eq_eq_not, Bool.not_true] at hs
  obtain ⟨⟨⟨hp0, hne⟩, hsup⟩, hw2⟩ := hs
  have hne' := subNe_of (K := K) hne
  have h0 := sim_subrun hS p [] k.depth hst hne' hp0 hsup hd hl hx
  have hrun : run (n+1) (.cmd (.echoSub w1 p w2)) s =
      match foldStmts (fun st => run n (.stmt st)) p (subshellOf s []) with
      | none => none
      | some r2 =>
        some { s with lastExpandExit := { r2.exit with exiting := false }, exit := {},
                      out := s.out ++ (expandWord s.vars s.lastExit.code w1 ++ (stripNl r2.out ++
                        (expandWord s.vars s.lastExit.code w2 ++ [10]))) } := by
    rw [run]; simp only [stop_false_of_exit hx, Bool.false_eq_true, ↓reduceIte]; rfl
  have hsem : sem (n+1) k (.cmd (.echoSub w1 p w2)) (absEnv s) =
      match subRun (fun st => sem n { k with depth := k.depth } (.stmt st))
          (fun a e => sem n { k with depth := k.depth, exitTrap := true } (.trap a) e) p (subEnv (absEnv s) []) with
      | none => none
      | some (_, e1) =>
        some (.norm, ({ absEnv s with
          out := (absEnv s).out ++ (expandWord (absEnv s).vars (absEnv s).status w1 ++ (stripNl e1.out ++
            (expandWord (absEnv s).vars e1.status w2 ++ [10]))), status := 0 } : Env)) := by
    rw [sem]; rfl
  rw [hrun, hsem]
  cases hr : foldStmts (fun st => run n (.stmt st)) p (subshellOf s []) with
  | none => rw [hr] at h0; rw [SubRel_none h0]; trivial
  | some r2 =>
    rw [hr] at h0
    obtain ⟨e1, he, _, h2, _⟩ := SubRel_some h0
    rw [he]
    simp only [Rel, Post]
    refine ⟨?_, hd.congr rfl rfl rfl rfl rfl rfl rfl rfl, ⟨rfl, rfl, rfl⟩, ⟨rfl, rfl⟩, hp,
      fun h => h.elim, fun _ hne => by simp at hne⟩
    have hw := expandWord_nostatus s.vars e1.status s.lastExit.code w2 hw2
    simp [absEnv, absEnvC, h2, hw]

theorem sim_call {n : Nat} (hS : SimS n) {K : SCtx} {k : Ctx} {sub : Bool} {s : St} (f : Str)
    (body : Stmt) (hf : lookupFn s.funcs f = some body)
    (hst : Stat K k sub) (hd : Dyn K k sub s) (hl : LastOk s) (hp : NoPending s) (hx : s.exit = {}) :
    Rel (PostC K k sub (.call f) s) (run (n+1) (.cmd (.call f)) s)
      (sem (n+1) k (.cmd (.call f)) (absEnv s)) := by
  have hf' : lookupFn (absEnv s).funcs f = some body := hf
  have hrun : run (n+1) (.cmd (.call f)) s =
      match run n (.stmt body) { s with lastExpandExit := {}, inFunc := true } with
      | none => none
      | some s1 => some { s1 with inFunc := s.inFunc, exit := { s1.exit with returning := false } } := by
    rw [run]; simp only [stop_false_of_exit hx, Bool.false_eq_true, ↓reduceIte, hf]; rfl
  have hsem : sem (n+1) k (.cmd (.call f)) (absEnv s) =
      match sem n { k with inFunc := true, depth := 0 } (.stmt body) (absEnv s) with
      | none => none
      | some (fl, e1) =>
        match fl with
        | .exit => some (.exit, e1)
        | _ => some (.norm, e1) := by
    rw [sem]; simp only [hf']
    have : ({ absEnv s with trapErr := Prog.nil } : Env) = absEnv s := rfl
    rw [this]
    have h2 : (absEnv s).trapErr.isNil = true := rfl
    simp only [h2, ↓reduceIte]; rfl
  rw [hrun, hsem]
  have hstf : Stat (fnK K.e) { k with inFunc := true, depth := 0 } sub :=
    ⟨hst.kt, fun h => by simp [fnK] at h, fun _ _ h => by simp [fnK] at h, fun _ => rfl, Nat.zero_le _,
      fun h => by simp [fnK] at h⟩
  have hdf : Dyn (fnK K.e) { k with inFunc := true, depth := 0 } sub
      { s with lastExpandExit := {}, inFunc := true } :=
    ⟨hd.cerr, hd.csub, hd.fok, hd.ht, hd.eign, hd.noe, fun _ => rfl, fun h => by simp [fnK] at h⟩
  have h0 := hS (fnK K.e) { k with inFunc := true, depth := 0 } sub body
    { s with lastExpandExit := {}, inFunc := true } hstf (hd.fok f body hf) hdf hl
    (noFlags_of_exit hx) hp
  have hae : absEnv { s with lastExpandExit := {}, inFunc := true } = absEnv s := rfl
  rw [hae] at h0
  cases hr : run n (.stmt body) { s with lastExpandExit := {}, inFunc := true } with
  | none => rw [hr] at h0; rw [Rel_none h0]; trivial
  | some s1 =>
    rw [hr] at h0
    obtain ⟨fl, e1, he, hpo⟩ := Rel_some h0
    rw [he]
    -- the runner state after the call, as far as `Dyn`/`Frame` are concerned
    have hdyn : ∀ (h2 : Dyn (fnK K.e) { k with inFunc := true, depth := 0 } sub s1)
        (h3 : Frame { s with lastExpandExit := {}, inFunc := true } s1),
        Dyn K k sub { s1 with inFunc := s.inFunc, exit := { s1.exit with returning := false } } ∧
        Frame s { s1 with inFunc := s.inFunc, exit := { s1.exit with returning := false } } := by
      intro h2 h3
      refine ⟨⟨h2.cerr, h2.csub, h2.fok, h2.ht, h2.eign, h2.noe, hd.sfn, ?_⟩, ⟨h3.ne, h3.il, rfl⟩⟩
      intro hne
      have := hd.inl hne
      rw [← this]; exact h3.il
    cases fl with
    | norm =>
      obtain ⟨h1, h2, h3, h4, h5, _, _⟩ := hpo
      subst h1
      obtain ⟨hd', hf''⟩ := hdyn h2 h3
      exact Or.inl ⟨rfl, hd', hf'', ⟨rfl, h4.2⟩, h5, fun h => h.elim,
        fun h => by simp [isChecked] at h⟩
    | brk m =>
      obtain ⟨_, _, _, _, _, _, hlv, _⟩ := hpo
      exact absurd hlv (not_levels_nil _ m rfl)
    | cont m =>
      obtain ⟨_, _, _, _, _, _, hlv, _⟩ := hpo
      exact absurd hlv (not_levels_nil _ m rfl)
    | ret =>
      obtain ⟨h1, h2, h3, h5, _, _, _, hex⟩ := hpo
      subst h1
      obtain ⟨hd', hf''⟩ := hdyn h2 h3
      by_cases hxx : s1.exit.exiting = true
      · obtain ⟨a, b, c⟩ := hex hxx
        exact Or.inr ⟨rfl, rfl, rfl, hd', hf'', h5, rfl, hxx, a, b, c⟩
      · exact Or.inl ⟨rfl, hd', hf'', ⟨rfl, by simpa using hxx⟩, h5, fun h => h.elim,
          fun h => by simp [isChecked] at h⟩
    | exit =>
      obtain ⟨hx', hr', hs', ho, ht, hcs, hht, hce, hnp', hv'⟩ := hpo
      exact Or.inl ⟨hx', rfl, hs', ho, ht, hcs, hht, hce, hnp', hv'⟩

end ShVerif.C26
