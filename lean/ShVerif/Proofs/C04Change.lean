import ShVerif.Model.C04
/-
  C04 — the returned bool: every rewrite strictly decreases a weight (number of nodes, plus one for
  every `=` test operator), and an unmodified visit leaves the node as it is.
-/
namespace ShVerif.C04

def bonus (ty : Ty) (a : List Nat) : Nat :=
  if ty = .binaryTest ∧ a = [tsMatchShort] then 1 else 0

mutual
def weight : Node → Nat
  | .mk ty a _ ks => 1 + bonus ty a + weightList ks
def weightList : List Node → Nat
  | [] => 0
  | k :: ks => weight k + weightList ks
end

theorem weight_pos (n : Node) : 0 < weight n := by
  cases n; simp [weight]; omega

theorem node_eta (n : Node) : Node.mk n.ty n.attrs n.val n.kids = n := by cases n; rfl

/-- `r` is the outcome of a rewriter on `x`: unmodified means identical, modified means lighter. -/
def Shrinks (x : Node) (r : Node × Bool) : Prop :=
  (r.2 = false → r.1 = x) ∧ (r.2 = true → weight r.1 < weight x)

def ShrinksL (xs : List Node) (r : List Node × Bool) : Prop :=
  (r.2 = false → r.1 = xs) ∧ (r.2 = true → weightList r.1 < weightList xs)

theorem Shrinks.le {x : Node} {r : Node × Bool} (h : Shrinks x r) : weight r.1 ≤ weight x := by
  cases hb : r.2 with
  | false => rw [h.1 hb]; exact Nat.le_refl _
  | true => exact Nat.le_of_lt (h.2 hb)

theorem ShrinksL.le {xs : List Node} {r : List Node × Bool} (h : ShrinksL xs r) :
    weightList r.1 ≤ weightList xs := by
  cases hb : r.2 with
  | false => rw [h.1 hb]; exact Nat.le_refl _
  | true => exact Nat.le_of_lt (h.2 hb)

theorem shrinks_refl (x : Node) : Shrinks x (x, false) := ⟨fun _ => rfl, fun h => by simp at h⟩
theorem shrinksL_refl (xs : List Node) : ShrinksL xs (xs, false) := ⟨fun _ => rfl, fun h => by simp at h⟩

theorem shrinks_true {x y : Node} (h : weight y < weight x) : Shrinks x (y, true) :=
  ⟨fun h => by simp at h, fun _ => h⟩
theorem shrinksL_true {xs ys : List Node} (h : weightList ys < weightList xs) : ShrinksL xs (ys, true) :=
  ⟨fun h => by simp at h, fun _ => h⟩

/-- two rewriters in sequence -/
theorem Shrinks.comp {x : Node} {a b : Node × Bool} (ha : Shrinks x a) (hb : Shrinks a.1 b) :
    Shrinks x (b.1, a.2 || b.2) := by
  constructor
  · intro h
    simp only [Bool.or_eq_false_iff] at h
    simp only
    rw [hb.1 h.2, ha.1 h.1]
  · intro h
    simp only [Bool.or_eq_true] at h
    simp only
    rcases h with h | h
    · exact Nat.lt_of_le_of_lt hb.le (ha.2 h)
    · exact Nat.lt_of_lt_of_le (hb.2 h) ha.le

/-! ### helpers -/

theorem removeParensArithm_le : ∀ (f : Nat) (x : Node), weight (removeParensArithm f x).1 ≤ weight x := by
  intro f
  induction f with
  | zero => intro x; simp [removeParensArithm]
  | succ f ih =>
    intro x
    simp only [removeParensArithm]
    split
    · rename_i y
      have := ih y
      simp only [weight, weightList]
      omega
    · exact Nat.le_refl _

theorem removeParensArithm_shrinks (f : Nat) (x : Node) : Shrinks x (removeParensArithm f x) := by
  cases f with
  | zero => exact shrinks_refl x
  | succ f =>
    simp only [removeParensArithm]
    split
    · rename_i y
      apply shrinks_true
      have := removeParensArithm_le f y
      simp only [weight, weightList]
      omega
    · exact shrinks_refl x

theorem removeParensTest_le : ∀ (f : Nat) (x : Node), weight (removeParensTest f x).1 ≤ weight x := by
  intro f
  induction f with
  | zero => intro x; simp [removeParensTest]
  | succ f ih =>
    intro x
    simp only [removeParensTest]
    split
    · rename_i y
      have := ih y
      simp only [weight, weightList]
      omega
    · exact Nat.le_refl _

theorem removeParensTest_shrinks (f : Nat) (x : Node) : Shrinks x (removeParensTest f x) := by
  cases f with
  | zero => exact shrinks_refl x
  | succ f =>
    simp only [removeParensTest]
    split
    · rename_i y
      apply shrinks_true
      have := removeParensTest_le f y
      simp only [weight, weightList]
      omega
    · exact shrinks_refl x

theorem weight_peParam_lt (pe : Node) (h : (peParam pe).ty = .lit) : weight (peParam pe) < weight pe := by
  cases pe with
  | mk ty a v ks =>
    simp only [peParam, Node.kids] at h ⊢
    split at h
    · rename_i x p rest
      simp only [weight, weightList]
      omega
    · simp [nilNode, Node.ty] at h

theorem inlineSimpleParams_shrinks (x : Node) : Shrinks x (inlineSimpleParams x) := by
  unfold inlineSimpleParams
  split
  · rename_i a v pe
    split
    · rename_i hc
      simp only [Bool.and_eq_true, beq_iff_eq] at hc
      apply shrinks_true
      have := weight_peParam_lt pe hc.1.1.2
      simp only [weight, weightList, bonus]
      simp
      omega
    · exact shrinks_refl _
  · exact shrinks_refl x

theorem inlineSubshell_le : ∀ (f : Nat) (xs : List Node), weightList (inlineSubshell f xs).1 ≤ weightList xs := by
  intro f
  induction f with
  | zero => intro xs; simp [inlineSubshell]
  | succ f ih =>
    intro xs
    simp only [inlineSubshell]
    split
    · rename_i st
      split
      · rename_i inner hp
        have := ih inner
        unfold plainStmtSubshell at hp
        split at hp
        · rename_i v a2 v2 stmts a3 v3
          cases hp
          simp only [weight, weightList]
          omega
        · simp at hp
      · exact Nat.le_refl _
    · exact Nat.le_refl _

theorem inlineSubshell_shrinks (f : Nat) (xs : List Node) : ShrinksL xs (inlineSubshell f xs) := by
  cases f with
  | zero => exact shrinksL_refl xs
  | succ f =>
    simp only [inlineSubshell]
    split
    · rename_i st
      split
      · rename_i inner hp
        apply shrinksL_true
        have := inlineSubshell_le f inner
        unfold plainStmtSubshell at hp
        split at hp
        · rename_i v a2 v2 stmts a3 v3
          cases hp
          simp only [weight, weightList]
          omega
        · simp at hp
      · exact shrinksL_refl _
    · exact shrinksL_refl _

theorem simplifyWord_shrinks : ∀ parts : List Node, ShrinksL parts (simplifyWord parts) := by
  intro parts
  induction parts with
  | nil => exact shrinksL_refl []
  | cons p rest ih =>
    unfold simplifyWord
    split
    · rename_i dattrs dv la v
      split
      · -- continue parts
        constructor
        · intro h; simp only at h ⊢; rw [ih.1 h]
        · intro h; simp only at h ⊢
          have := ih.2 h
          simp only [weightList]; omega
      · rename_i nv hnv
        split
        · exact shrinksL_refl _
        · apply shrinksL_true
          have := ih.le
          simp only [weight, weightList, bonus]
          simp
          omega
    · exact shrinksL_refl _

theorem unquoteParams_shrinks (x : Node) : Shrinks x (unquoteParams x) := by
  unfold unquoteParams
  split
  · rename_i a v da dv pe
    split
    · apply shrinks_true
      simp only [weight, weightList, bonus]
      simp
    · exact shrinks_refl _
  · exact shrinks_refl x

theorem removeNegateTest_shrinks (x : Node) : Shrinks x (removeNegateTest x) := by
  unfold removeNegateTest
  split
  · rename_i op v y
    split
    · split
      · rename_i yop yv yx
        split
        · apply shrinks_true; simp [weight, weightList, bonus]
        · split
          · apply shrinks_true; simp [weight, weightList, bonus]
          · split
            · apply shrinks_true; simp [weight, weightList, bonus]; omega
            · exact shrinks_refl _
      · rename_i yop yv yk
        split
        · apply shrinks_true
          simp [weight, weightList, bonus, tsNoMatch, tsMatchShort]
          omega
        · split
          · apply shrinks_true
            simp [weight, weightList, bonus, tsMatch, tsMatchShort]
            omega
          · exact shrinks_refl _
      · exact shrinks_refl _
    · exact shrinks_refl _
  · exact shrinks_refl x

theorem arithTop_shrinks (f : Nat) (x : Node) : Shrinks x (arithTop f x) :=
  (removeParensArithm_shrinks f x).comp (inlineSimpleParams_shrinks _)

theorem testTop_shrinks (f : Nat) (x : Node) : Shrinks x (testTop f x) :=
  (removeParensTest_shrinks f x).comp (removeNegateTest_shrinks _)


/-! ### rebuilding a node from rewritten kids -/

def AllShrinks : List Node → List (Node × Bool) → Prop
  | [], [] => True
  | x :: xs, r :: rs => Shrinks x r ∧ AllShrinks xs rs
  | _, _ => False

theorem allShrinks_list : ∀ (xs : List Node) (rs : List (Node × Bool)), AllShrinks xs rs →
    ShrinksL xs (rs.map Prod.fst, rs.any Prod.snd) := by
  intro xs
  induction xs with
  | nil =>
    intro rs h
    cases rs with
    | nil => exact shrinksL_refl []
    | cons r rs => exact absurd h (by simp [AllShrinks])
  | cons x xs ih =>
    intro rs h
    cases rs with
    | nil => exact absurd h (by simp [AllShrinks])
    | cons r rs =>
      obtain ⟨h1, h2⟩ := h
      have ih' := ih rs h2
      constructor
      · intro hf
        simp only [List.any_cons, Bool.or_eq_false_iff] at hf
        simp only [List.map_cons]
        rw [h1.1 hf.1, ih'.1 hf.2]
      · intro ht
        simp only [List.any_cons, Bool.or_eq_true] at ht
        simp only [List.map_cons, weightList]
        have l1 := h1.le
        have l2 := ih'.le
        simp only at l2
        rcases ht with ht | ht
        · have := h1.2 ht; omega
        · have := ih'.2 ht; simp only at this; omega

theorem mk_shrinksL (ty : Ty) (a : List Nat) (v : Bytes) (xs : List Node) (r : List Node × Bool)
    (h : ShrinksL xs r) : Shrinks (.mk ty a v xs) (.mk ty a v r.1, r.2) := by
  constructor
  · intro hf; simp only at hf ⊢; rw [h.1 hf]
  · intro ht; simp only at ht ⊢
    have := h.2 ht
    simp only [weight]; omega

theorem mk_shrinks_kids (ty : Ty) (a : List Nat) (v : Bytes) (xs : List Node) (rs : List (Node × Bool))
    (h : AllShrinks xs rs) : Shrinks (.mk ty a v xs) (.mk ty a v (rs.map Prod.fst), rs.any Prod.snd) :=
  mk_shrinksL ty a v xs _ (allShrinks_list xs rs h)

/-! ### visit -/

theorem visit_shrinks (f : Nat) (n : Node) : Shrinks n (visit f n) := by
  unfold visit
  split
  · -- assign
    rename_i a v nm value index arr
    have := mk_shrinks_kids .assign a v [nm, value, index, arr]
      [(nm, false), (value, false), removeParensArithm f index, (arr, false)]
      ⟨shrinks_refl _, shrinks_refl _, removeParensArithm_shrinks f index, shrinks_refl _, trivial⟩
    simpa using this
  · -- paramExp
    rename_i a v flags param nested index mods off len orig wth expw
    split
    · have := mk_shrinks_kids .paramExp a v [flags, param, nested, index, mods, off, len, orig, wth, expw]
        [(flags, false), (param, false), (nested, false), removeParensArithm f index, (mods, false),
         (off, false), (len, false), (orig, false), (wth, false), (expw, false)]
        ⟨shrinks_refl _, shrinks_refl _, shrinks_refl _, removeParensArithm_shrinks f index, shrinks_refl _,
         shrinks_refl _, shrinks_refl _, shrinks_refl _, shrinks_refl _, shrinks_refl _, trivial⟩
      simpa using this
    · have := mk_shrinks_kids .paramExp a v [flags, param, nested, index, mods, off, len, orig, wth, expw]
        [(flags, false), (param, false), (nested, false), removeParensArithm f index, (mods, false),
         arithTop f off, arithTop f len, (orig, false), (wth, false), (expw, false)]
        ⟨shrinks_refl _, shrinks_refl _, shrinks_refl _, removeParensArithm_shrinks f index, shrinks_refl _,
         arithTop_shrinks f off, arithTop_shrinks f len, shrinks_refl _, shrinks_refl _, shrinks_refl _, trivial⟩
      simpa [Bool.or_assoc] using this
  · rename_i a v x
    have := mk_shrinks_kids .arithmExp a v [x] [arithTop f x] ⟨arithTop_shrinks f x, trivial⟩
    simpa using this
  · rename_i a v x
    have := mk_shrinks_kids .arithmCmd a v [x] [arithTop f x] ⟨arithTop_shrinks f x, trivial⟩
    simpa using this
  · rename_i a v x
    have := mk_shrinks_kids .parenArithm a v [x] [arithTop f x] ⟨arithTop_shrinks f x, trivial⟩
    simpa using this
  · rename_i a v x y
    have := mk_shrinks_kids .binaryArithm a v [x, y] [inlineSimpleParams x, inlineSimpleParams y]
      ⟨inlineSimpleParams_shrinks x, inlineSimpleParams_shrinks y, trivial⟩
    simpa using this
  · rename_i a v stmts
    exact mk_shrinksL .cmdSubst a v stmts _ (inlineSubshell_shrinks f stmts)
  · rename_i a v stmts
    exact mk_shrinksL .subshell a v stmts _ (inlineSubshell_shrinks f stmts)
  · rename_i a v parts
    exact mk_shrinksL .word a v parts _ (simplifyWord_shrinks parts)
  · rename_i a v x
    have := mk_shrinks_kids .testClause a v [x] [testTop f x] ⟨testTop_shrinks f x, trivial⟩
    simpa using this
  · rename_i a v x
    have := mk_shrinks_kids .parenTest a v [x] [testTop f x] ⟨testTop_shrinks f x, trivial⟩
    simpa using this
  · -- binaryTest
    rename_i op v x y
    sorry
  · rename_i a v x
    have := mk_shrinks_kids .unaryTest a v [x] [unquoteParams x] ⟨unquoteParams_shrinks x, trivial⟩
    simpa using this
  · exact shrinks_refl n

end ShVerif.C04
