import ShVerif.Model.C04
/-
  C04 — the returned bool: every rewrite strictly decreases a weight (number of nodes, plus one for
  every `=` test operator), and an unmodified visit leaves the node as it is.
-/
namespace ShVerif.C04

def bonus (ty : Ty) (a : List Nat) : Nat :=
  if ty = .binaryTest ∧ a = [tsMatchShort] then 1 else 0

mutual
def weight : Node → Nat
  | .mk ty a _ ks => 1 + bonus ty a + weightList ks
def weightList : List Node → Nat
  | [] => 0
  | k :: ks => weight k + weightList ks
end

theorem weight_pos (n : Node) : 0 < weight n := by
  cases n; simp [weight]; omega

theorem node_eta (n : Node) : Node.mk n.ty n.attrs n.val n.kids = n := by cases n; rfl

/-- `r` is the outcome of a rewriter on `x`: unmodified means identical, modified means lighter. -/
def Shrinks (x : Node) (r : Node × Bool) : Prop :=
  (r.2 = false → r.1 = x) ∧ (r.2 = true → weight r.1 < weight x)

def ShrinksL (xs : List Node) (r : List Node × Bool) : Prop :=
  (r.2 = false → r.1 = xs) ∧ (r.2 = true → weightList r.1 < weightList xs)

theorem Shrinks.le {x : Node} {r : Node × Bool} (h : Shrinks x r) : weight r.1 ≤ weight x := by
  cases hb : r.2 with
  | false => rw [h.1 hb]; exact Nat.le_refl _
  | true => exact Nat.le_of_lt (h.2 hb)

theorem ShrinksL.le {xs : List Node} {r : List Node × Bool} (h : ShrinksL xs r) :
    weightList r.1 ≤ weightList xs := by
  cases hb : r.2 with
  | false => rw [h.1 hb]; exact Nat.le_refl _
  | true => exact Nat.le_of_lt (h.2 hb)

theorem shrinks_refl (x : Node) : Shrinks x (x, false) := ⟨fun _ => rfl, fun h => by simp at h⟩
theorem shrinksL_refl (xs : List Node) : ShrinksL xs (xs, false) := ⟨fun _ => rfl, fun h => by simp at h⟩

theorem shrinks_true {x y : Node} (h : weight y < weight x) : Shrinks x (y, true) :=
  ⟨fun h => by simp at h, fun _ => h⟩
theorem shrinksL_true {xs ys : List Node} (h : weightList ys < weightList xs) : ShrinksL xs (ys, true) :=
  ⟨fun h => by simp at h, fun _ => h⟩

/-- two rewriters in sequence -/
theorem Shrinks.comp {x : Node} {a b : Node × Bool} (ha : Shrinks x a) (hb : Shrinks a.1 b) :
    Shrinks x (b.1, a.2 || b.2) := by
  constructor
  · intro h
    simp only [Bool.or_eq_false_iff] at h
    simp only
    rw [hb.1 h.2, ha.1 h.1]
  · intro h
    simp only [Bool.or_eq_true] at h
    simp only
    rcases h with h | h
    · exact Nat.lt_of_le_of_lt hb.le (ha.2 h)
    · exact Nat.lt_of_lt_of_le (hb.2 h) ha.le

/-! ### helpers -/

theorem removeParensArithm_le : ∀ (f : Nat) (x : Node), weight (removeParensArithm f x).1 ≤ weight x := by
  intro f
  induction f with
  | zero => intro x; simp [removeParensArithm]
  | succ f ih =>
    intro x
    simp only [removeParensArithm]
    split
    · rename_i y
      have := ih y
      simp only [weight, weightList]
      omega
    · exact Nat.le_refl _

theorem removeParensArithm_shrinks (f : Nat) (x : Node) : Shrinks x (removeParensArithm f x) := by
  cases f with
  | zero => exact shrinks_refl x
  | succ f =>
    simp only [removeParensArithm]
    split
    · rename_i y
      apply shrinks_true
      have := removeParensArithm_le f y
      simp only [weight, weightList]
      omega
    · exact shrinks_refl x

theorem removeParensTest_le : ∀ (f : Nat) (x : Node), weight (removeParensTest f x).1 ≤ weight x := by
  intro f
  induction f with
  | zero => intro x; simp [removeParensTest]
  | succ f ih =>
    intro x
    simp only [removeParensTest]
    split
    · rename_i y
      have := ih y
      simp only [weight, weightList]
      omega
    · exact Nat.le_refl _

theorem removeParensTest_shrinks (f : Nat) (x : Node) : Shrinks x (removeParensTest f x) := by
  cases f with
  | zero => exact shrinks_refl x
  | succ f =>
    simp only [removeParensTest]
    split
    · rename_i y
      apply shrinks_true
      have := removeParensTest_le f y
      simp only [weight, weightList]
      omega
    · exact shrinks_refl x

theorem weight_peParam_lt (pe : Node) (h : (peParam pe).ty = .lit) : weight (peParam pe) < weight pe := by
  cases pe with
  | mk ty a v ks =>
    simp only [peParam, Node.kids] at h ⊢
    split at h
    · rename_i x p rest
      simp only [weight, weightList]
      omega
    · simp [nilNode, Node.ty] at h

theorem inlineSimpleParams_shrinks (x : Node) : Shrinks x (inlineSimpleParams x) := by
  unfold inlineSimpleParams
  split
  · rename_i a v pe
    split
    · rename_i hc
      simp only [Bool.and_eq_true, beq_iff_eq] at hc
      apply shrinks_true
      have := weight_peParam_lt pe hc.1.1.2
      simp only [weight, weightList, bonus]
      simp
      omega
    · exact shrinks_refl _
  · exact shrinks_refl x

theorem inlineSubshell_le : ∀ (f : Nat) (xs : List Node), weightList (inlineSubshell f xs).1 ≤ weightList xs := by
  intro f
  induction f with
  | zero => intro xs; simp [inlineSubshell]
  | succ f ih =>
    intro xs
    simp only [inlineSubshell]
    split
    · rename_i st
      split
      · rename_i inner hp
        have := ih inner
        unfold plainStmtSubshell at hp
        split at hp
        · rename_i v a2 v2 stmts a3 v3
          cases hp
          simp only [weight, weightList]
          omega
        · simp at hp
      · exact Nat.le_refl _
    · exact Nat.le_refl _

theorem inlineSubshell_shrinks (f : Nat) (xs : List Node) : ShrinksL xs (inlineSubshell f xs) := by
  cases f with
  | zero => exact shrinksL_refl xs
  | succ f =>
    simp only [inlineSubshell]
    split
    · rename_i st
      split
      · rename_i inner hp
        apply shrinksL_true
        have := inlineSubshell_le f inner
        unfold plainStmtSubshell at hp
        split at hp
        · rename_i v a2 v2 stmts a3 v3
          cases hp
          simp only [weight, weightList]
          omega
        · simp at hp
      · exact shrinksL_refl _
    · exact shrinksL_refl _

theorem simplifyWord_shrinks : ∀ parts : List Node, ShrinksL parts (simplifyWord parts) := by
  intro parts
  induction parts with
  | nil => exact shrinksL_refl []
  | cons p rest ih =>
    unfold simplifyWord
    split
    · rename_i dattrs dv la v
      split
      · exact shrinksL_refl _
      · split
        · -- continue parts
          constructor
          · intro h; simp only at h ⊢; rw [ih.1 h]
          · intro h; simp only at h ⊢
            have := ih.2 h
            simp only [weightList]; omega
        · rename_i nv hnv
          split
          · exact shrinksL_refl _
          · apply shrinksL_true
            have := ih.le
            simp only [weight, weightList, bonus]
            simp
            omega
    · exact shrinksL_refl _

theorem unquoteParams_shrinks (x : Node) : Shrinks x (unquoteParams x) := by
  unfold unquoteParams
  split
  · rename_i a v da dv pe
    split
    · apply shrinks_true
      simp only [weight, weightList, bonus]
      simp
    · exact shrinks_refl _
  · exact shrinks_refl x

theorem removeNegateTest_shrinks (x : Node) : Shrinks x (removeNegateTest x) := by
  unfold removeNegateTest
  split
  · rename_i op v y
    split
    · split
      · rename_i yop yv yx
        split
        · apply shrinks_true; simp [weight, weightList, bonus]
        · split
          · apply shrinks_true; simp [weight, weightList, bonus]
          · split
            · apply shrinks_true; simp [weight, weightList, bonus]; omega
            · exact shrinks_refl _
      · rename_i yop yv yk
        split
        · apply shrinks_true
          simp [weight, weightList, bonus, tsNoMatch, tsMatchShort]
          omega
        · split
          · apply shrinks_true
            simp [weight, weightList, bonus, tsMatch, tsMatchShort]
            omega
          · exact shrinks_refl _
      · exact shrinks_refl _
    · exact shrinks_refl _
  · exact shrinks_refl x

theorem arithTop_shrinks (f : Nat) (x : Node) : Shrinks x (arithTop f x) :=
  (removeParensArithm_shrinks f x).comp (inlineSimpleParams_shrinks _)

theorem testTop_shrinks (f : Nat) (x : Node) : Shrinks x (testTop f x) :=
  (removeParensTest_shrinks f x).comp (removeNegateTest_shrinks _)


/-! ### rebuilding a node from rewritten kids -/

def AllShrinks : List Node → List (Node × Bool) → Prop
  | [], [] => True
  | x :: xs, r :: rs => Shrinks x r ∧ AllShrinks xs rs
  | _, _ => False

theorem allShrinks_list : ∀ (xs : List Node) (rs : List (Node × Bool)), AllShrinks xs rs →
    ShrinksL xs (rs.map Prod.fst, rs.any Prod.snd) := by
  intro xs
  induction xs with
  | nil =>
    intro rs h
    cases rs with
    | nil => exact shrinksL_refl []
    | cons r rs => exact absurd h (by simp [AllShrinks])
  | cons x xs ih =>
    intro rs h
    cases rs with
    | nil => exact absurd h (by simp [AllShrinks])
    | cons r rs =>
      obtain ⟨h1, h2⟩ := h
      have ih' := ih rs h2
      constructor
      · intro hf
        simp only [List.any_cons, Bool.or_eq_false_iff] at hf
        simp only [List.map_cons]
        have e2 := ih'.1 hf.2
        simp only at e2
        rw [h1.1 hf.1, e2]
      · intro ht
        simp only [List.any_cons, Bool.or_eq_true] at ht
        simp only [List.map_cons, weightList]
        have l1 := h1.le
        have l2 := ih'.le
        simp only at l2
        rcases ht with ht | ht
        · have := h1.2 ht; omega
        · have := ih'.2 ht; simp only at this; omega

theorem mk_shrinksL (ty : Ty) (a : List Nat) (v : Bytes) (xs : List Node) (r : List Node × Bool)
    (h : ShrinksL xs r) : Shrinks (.mk ty a v xs) (.mk ty a v r.1, r.2) := by
  constructor
  · intro hf; simp only at hf ⊢; rw [h.1 hf]
  · intro ht; simp only at ht ⊢
    have := h.2 ht
    simp only [weight]; omega

theorem mk_shrinks_kids (ty : Ty) (a : List Nat) (v : Bytes) (xs : List Node) (rs : List (Node × Bool))
    (h : AllShrinks xs rs) : Shrinks (.mk ty a v xs) (.mk ty a v (rs.map Prod.fst), rs.any Prod.snd) :=
  mk_shrinksL ty a v xs _ (allShrinks_list xs rs h)

/-! ### visit -/

theorem visit_shrinks (f : Nat) (n : Node) : Shrinks n (visit f n) := by
  unfold visit
  split
  · -- assign
    rename_i a v nm value index arr
    have := mk_shrinks_kids .assign a v [nm, value, index, arr]
      [(nm, false), (value, false), removeParensArithm f index, (arr, false)]
      ⟨shrinks_refl _, shrinks_refl _, removeParensArithm_shrinks f index, shrinks_refl _, trivial⟩
    simpa using this
  · -- paramExp
    rename_i a v flags param nested index mods off len orig wth expw
    split
    · have := mk_shrinks_kids .paramExp a v [flags, param, nested, index, mods, off, len, orig, wth, expw]
        [(flags, false), (param, false), (nested, false), removeParensArithm f index, (mods, false),
         (off, false), (len, false), (orig, false), (wth, false), (expw, false)]
        ⟨shrinks_refl _, shrinks_refl _, shrinks_refl _, removeParensArithm_shrinks f index, shrinks_refl _,
         shrinks_refl _, shrinks_refl _, shrinks_refl _, shrinks_refl _, shrinks_refl _, trivial⟩
      simpa using this
    · have := mk_shrinks_kids .paramExp a v [flags, param, nested, index, mods, off, len, orig, wth, expw]
        [(flags, false), (param, false), (nested, false), removeParensArithm f index, (mods, false),
         arithTop f off, arithTop f len, (orig, false), (wth, false), (expw, false)]
        ⟨shrinks_refl _, shrinks_refl _, shrinks_refl _, removeParensArithm_shrinks f index, shrinks_refl _,
         arithTop_shrinks f off, arithTop_shrinks f len, shrinks_refl _, shrinks_refl _, shrinks_refl _, trivial⟩
      simpa [Bool.or_assoc] using this
  · rename_i a v x
    have := mk_shrinks_kids .arithmExp a v [x] [arithTop f x] ⟨arithTop_shrinks f x, trivial⟩
    simpa using this
  · rename_i a v x
    have := mk_shrinks_kids .arithmCmd a v [x] [arithTop f x] ⟨arithTop_shrinks f x, trivial⟩
    simpa using this
  · rename_i a v x
    have := mk_shrinks_kids .parenArithm a v [x] [arithTop f x] ⟨arithTop_shrinks f x, trivial⟩
    simpa using this
  · rename_i a v x y
    have := mk_shrinks_kids .binaryArithm a v [x, y] [inlineSimpleParams x, inlineSimpleParams y]
      ⟨inlineSimpleParams_shrinks x, inlineSimpleParams_shrinks y, trivial⟩
    simpa using this
  · rename_i a v stmts
    exact mk_shrinksL .cmdSubst a v stmts _ (inlineSubshell_shrinks f stmts)
  · rename_i a v stmts
    exact mk_shrinksL .subshell a v stmts _ (inlineSubshell_shrinks f stmts)
  · rename_i a v parts
    exact mk_shrinksL .word a v parts _ (simplifyWord_shrinks parts)
  · rename_i a v x
    have := mk_shrinks_kids .testClause a v [x] [testTop f x] ⟨testTop_shrinks f x, trivial⟩
    simpa using this
  · rename_i a v x
    have := mk_shrinks_kids .parenTest a v [x] [testTop f x] ⟨testTop_shrinks f x, trivial⟩
    simpa using this
  · -- binaryTest
    rename_i op v x y
    have hx := (unquoteParams_shrinks x).comp (removeNegateTest_shrinks (unquoteParams x).1)
    dsimp only
    generalize hop' : (if op = tsMatchShort then tsMatch else op) = op'
    generalize hy1d : (if (decide (op' = tsMatch) || decide (op' = tsNoMatch) || decide (op' = tsReMatch)) = true
      then (y, false) else unquoteParams y) = y1
    have hy1 : Shrinks y y1 := by
      rw [← hy1d]; split
      · exact shrinks_refl y
      · exact unquoteParams_shrinks y
    have hy := hy1.comp (removeNegateTest_shrinks y1.1)
    have hb : bonus .binaryTest [op'] ≤ bonus .binaryTest [op] ∧
        (op = tsMatchShort → bonus .binaryTest [op'] < bonus .binaryTest [op]) ∧
        (¬ op = tsMatchShort → op' = op) := by
      rw [← hop']
      by_cases hs : op = tsMatchShort
      · subst hs; simp [bonus, tsMatch, tsMatchShort]
      · simp [hs]
    have lx := hx.le
    have ly := hy.le
    simp only at lx ly
    constructor
    · intro hf
      simp only [Bool.or_eq_false_iff, decide_eq_false_iff_not] at hf
      obtain ⟨⟨⟨⟨f1, f2⟩, f3⟩, f4⟩, f5⟩ := hf
      have ex := hx.1 (by simp [f1, f2])
      have ey := hy.1 (by simp [f4, f5])
      simp only at ex ey
      simp only
      rw [ex, ey, hb.2.2 f3]
    · intro ht
      simp only [Bool.or_eq_true, decide_eq_true_eq] at ht
      simp only [weight, weightList]
      rcases ht with (((h | h) | h) | h) | h
      · have := hx.2 (by simp [h]); simp only at this; omega
      · have := hx.2 (by simp [h]); simp only at this; omega
      · have := hb.2.1 h; omega
      · have := hy.2 (by simp [h]); simp only at this; omega
      · have := hy.2 (by simp [h]); simp only at this; omega
  · rename_i a v x
    have := mk_shrinks_kids .unaryTest a v [x] [unquoteParams x] ⟨unquoteParams_shrinks x, trivial⟩
    simpa using this
  · exact shrinks_refl n


/-! ### simp -/

theorem allShrinks_map (g : Node → Node × Bool) (hg : ∀ x, Shrinks x (g x)) :
    ∀ xs : List Node, AllShrinks xs (xs.map g) := by
  intro xs
  induction xs with
  | nil => trivial
  | cons x xs ih => exact ⟨hg x, ih⟩

theorem simp_shrinks : ∀ (f : Nat) (n : Node), Shrinks n (simp f n) := by
  intro f
  induction f with
  | zero => intro n; exact shrinks_refl n
  | succ f ih =>
    intro n
    have hv := visit_shrinks (f+1) n
    have hk := mk_shrinks_kids (visit (f+1) n).1.ty (visit (f+1) n).1.attrs (visit (f+1) n).1.val
      (visit (f+1) n).1.kids ((visit (f+1) n).1.kids.map (simp f)) (allShrinks_map (simp f) ih _)
    rw [node_eta] at hk
    exact hv.comp hk

theorem simp_unchanged (f : Nat) (n : Node) (h : (simp f n).2 = false) : (simp f n).1 = n :=
  (simp_shrinks f n).1 h

theorem simp_weight_lt (f : Nat) (n : Node) (h : (simp f n).2 = true) : weight (simp f n).1 < weight n :=
  (simp_shrinks f n).2 h

theorem simp_weight_le (f : Nat) (n : Node) : weight (simp f n).1 ≤ weight n :=
  (simp_shrinks f n).le

/-- The returned bool is `true` exactly when the tree changed. -/
theorem reports_change_aux (n : Node) : (simplify n).2 = true ↔ (simplify n).1 ≠ n := by
  unfold simplify
  constructor
  · intro h e
    have := simp_weight_lt _ n h
    rw [e] at this
    exact Nat.lt_irrefl _ this
  · intro h
    cases hb : (simp (2 * size n + 1) n).2 with
    | true => rfl
    | false => exact absurd (simp_unchanged _ n hb) h


/-! ### the fuel never runs out -/

mutual
theorem weight_le_size : ∀ n : Node, weight n ≤ 2 * size n
  | .mk ty a v ks => by
    have := weightList_le_size ks
    simp only [weight, size, bonus]
    split <;> omega
theorem weightList_le_size : ∀ ks : List Node, weightList ks ≤ 2 * sizeList ks
  | [] => by simp [weightList, sizeList]
  | k :: ks => by
    have := weight_le_size k
    have := weightList_le_size ks
    simp only [weightList, sizeList]
    omega
end

theorem removeParensArithm_fuel : ∀ (f g : Nat) (x : Node), weight x ≤ f → weight x ≤ g →
    removeParensArithm f x = removeParensArithm g x := by
  intro f
  induction f with
  | zero => intro g x h; have := weight_pos x; omega
  | succ f ih =>
    intro g x hf hg
    cases g with
    | zero => have := weight_pos x; omega
    | succ g =>
      simp only [removeParensArithm]
      split
      · rename_i y
        simp only [weight, weightList] at hf hg
        rw [ih g y (by omega) (by omega)]
      · rfl

theorem removeParensTest_fuel : ∀ (f g : Nat) (x : Node), weight x ≤ f → weight x ≤ g →
    removeParensTest f x = removeParensTest g x := by
  intro f
  induction f with
  | zero => intro g x h; have := weight_pos x; omega
  | succ f ih =>
    intro g x hf hg
    cases g with
    | zero => have := weight_pos x; omega
    | succ g =>
      simp only [removeParensTest]
      split
      · rename_i y
        simp only [weight, weightList] at hf hg
        rw [ih g y (by omega) (by omega)]
      · rfl

theorem inlineSubshell_fuel : ∀ (f g : Nat) (xs : List Node), weightList xs < f → weightList xs < g →
    inlineSubshell f xs = inlineSubshell g xs := by
  intro f
  induction f with
  | zero => intro g xs h; omega
  | succ f ih =>
    intro g xs hf hg
    cases g with
    | zero => omega
    | succ g =>
      simp only [inlineSubshell]
      split
      · rename_i st
        split
        · rename_i inner hp
          unfold plainStmtSubshell at hp
          split at hp
          · rename_i v a2 v2 stmts a3 v3
            cases hp
            simp only [weight, weightList] at hf hg
            rw [ih g inner (by omega) (by omega)]
          · simp at hp
        · rfl
      · rfl

theorem arithTop_fuel (f g : Nat) (x : Node) (hf : weight x ≤ f) (hg : weight x ≤ g) :
    arithTop f x = arithTop g x := by
  simp only [arithTop, removeParensArithm_fuel f g x hf hg]

theorem testTop_fuel (f g : Nat) (x : Node) (hf : weight x ≤ f) (hg : weight x ≤ g) :
    testTop f x = testTop g x := by
  simp only [testTop, removeParensTest_fuel f g x hf hg]

theorem visit_fuel (f g : Nat) (n : Node) (hf : weight n ≤ f) (hg : weight n ≤ g) :
    visit f n = visit g n := by
  unfold visit
  split
  · rename_i a v nm value index arr
    simp only [weight, weightList] at hf hg
    rw [removeParensArithm_fuel f g index (by omega) (by omega)]
  · rename_i a v flags param nested index mods off len orig wth expw
    simp only [weight, weightList] at hf hg
    rw [removeParensArithm_fuel f g index (by omega) (by omega),
      arithTop_fuel f g off (by omega) (by omega), arithTop_fuel f g len (by omega) (by omega)]
  · rename_i a v x
    simp only [weight, weightList] at hf hg
    rw [arithTop_fuel f g x (by omega) (by omega)]
  · rename_i a v x
    simp only [weight, weightList] at hf hg
    rw [arithTop_fuel f g x (by omega) (by omega)]
  · rename_i a v x
    simp only [weight, weightList] at hf hg
    rw [arithTop_fuel f g x (by omega) (by omega)]
  · rfl
  · rename_i a v stmts
    simp only [weight] at hf hg
    rw [inlineSubshell_fuel f g stmts (by omega) (by omega)]
  · rename_i a v stmts
    simp only [weight] at hf hg
    rw [inlineSubshell_fuel f g stmts (by omega) (by omega)]
  · rfl
  · rename_i a v x
    simp only [weight, weightList] at hf hg
    rw [testTop_fuel f g x (by omega) (by omega)]
  · rename_i a v x
    simp only [weight, weightList] at hf hg
    rw [testTop_fuel f g x (by omega) (by omega)]
  · rfl
  · rfl
  · rfl

theorem weight_mem_lt : ∀ (ks : List Node) (k : Node), k ∈ ks → weight k ≤ weightList ks := by
  intro ks
  induction ks with
  | nil => intro k h; simp at h
  | cons x xs ih =>
    intro k h
    simp only [weightList]
    rcases List.mem_cons.mp h with rfl | h
    · omega
    · have := ih k h; omega

theorem simp_fuel : ∀ (f g : Nat) (n : Node), weight n < f → weight n < g → simp f n = simp g n := by
  intro f
  induction f with
  | zero => intro g n h; omega
  | succ f ih =>
    intro g n hf hg
    cases g with
    | zero => omega
    | succ g =>
      simp only [simp]
      rw [visit_fuel (f+1) (g+1) n (by omega) (by omega)]
      have hle := (visit_shrinks (g+1) n).le
      have hk : ∀ k ∈ (visit (g+1) n).1.kids, simp f k = simp g k := by
        intro k hk
        have h1 := weight_mem_lt _ k hk
        have h2 : weightList (visit (g+1) n).1.kids < weight (visit (g+1) n).1 := by
          cases (visit (g+1) n).1 with
          | mk ty a v ks => simp only [Node.kids, weight]; omega
        exact ih g k (by omega) (by omega)
      rw [List.map_congr_left hk]

/-- Any fuel above the weight of the tree gives the result of `simplify`. -/
theorem simp_fuel_irrelevant (f : Nat) (n : Node) (h : weight n < f) : simp f n = simplify n := by
  have := weight_le_size n
  exact simp_fuel f _ n h (by omega)

end ShVerif.C04
