import ShVerif.Proofs.C12
/-
  C12 — Part 3: completeness.  Every derivation of the grammar is followed by the model parser,
  with an explicit fuel bound (8 units per token plus a constant), by induction on the derivation.
-/
namespace ShVerif.C12
open Tok

/-- First tokens: a command never starts with an operator other than `(`; after no redirection it
    does not start with a closing reserved word either. -/
def isStart0 : Tok → Bool
  | word | qword | assign | io | bang | kElse | kIn | lbrace | lparen | kIf | kWhile | kUntil | kFor
  | kCase => true
  | _ => false

theorem firstOK_start0 {c : Cfg} {neg : Bool} {t : Tok} (h : firstOK c neg false t = true) :
    isStart0 t = true := by
  cases t <;> simp_all [firstOK, isStart0, isRsrv]

theorem fnNameOK_start0 {c : Cfg} {neg : Bool} {t : Tok} (h : fnNameOK c neg t = true) :
    isStart0 t = true := by
  cases t <;> simp_all [fnNameOK, isStart0]

theorem firstOK_not_bang {c : Cfg} {t : Tok} (h : firstOK c false false t = true) : t ≠ bang := by
  rintro rfl; simp [firstOK] at h

theorem fnNameOK_not_bang {c : Cfg} {t : Tok} (h : fnNameOK c false t = true) : t ≠ bang := by
  rintro rfl; simp [fnNameOK] at h

theorem first_of_derives {c : Cfg} {nt e ts} (h : Derives c nt e ts) :
    match nt with
    | .stmt _ | .bpipe _ => ∃ t r, ts = t :: r ∧ isStart0 t = true
    | .compound _ => ∃ t r, ts = t :: r ∧ isCompoundStart t = true
    | .pipeline _ neg | .command _ neg =>
      ∃ t r, ts = t :: r ∧ isStart0 t = true ∧ (neg = false → t ≠ bang)
    | .caseItems => ∃ t r, ts = t :: r ∧ t ≠ nl
    | _ => True := by
  induction h <;> try trivial
  case stmt ih _ => obtain ⟨t, r, rfl, ht⟩ := ih; exact ⟨t, _, rfl, ht⟩
  case b_plain ih => obtain ⟨t, r, rfl, ht, _⟩ := ih; exact ⟨t, _, rfl, ht⟩
  case b_bang => exact ⟨bang, _, rfl, rfl⟩
  case b_bangs => exact ⟨bang, _, rfl, rfl⟩
  case b_bare => exact ⟨bang, _, rfl, rfl⟩
  case pipeline ih _ => obtain ⟨t, r, rfl, ht⟩ := ih; exact ⟨t, _, rfl, ht⟩
  case c_simple pre t its hpre hf _ =>
    cases hpre with
    | nil =>
      refine ⟨t, _, rfl, firstOK_start0 (by simpa using hf), ?_⟩
      rintro rfl; exact firstOK_not_bang (by simpa using hf)
    | cons _ _ => exact ⟨io, _, rfl, rfl, fun _ => by decide⟩
  case c_redir => exact ⟨io, _, rfl, rfl, fun _ => by decide⟩
  case c_compound ih =>
    obtain ⟨t, r, rfl, ht⟩ := ih
    refine ⟨t, _, rfl, ?_, fun _ => ?_⟩
    · cases t <;> simp_all [isCompoundStart, isStart0]
    · rintro rfl; simp [isCompoundStart] at ht
  case f_andor hn _ _ =>
    exact ⟨_, _, rfl, fnNameOK_start0 hn, by rintro rfl; exact fnNameOK_not_bang hn⟩
  case f_command hn _ _ =>
    exact ⟨_, _, rfl, fnNameOK_start0 hn, by rintro rfl; exact fnNameOK_not_bang hn⟩
  case f_compound hn _ _ _ =>
    exact ⟨_, _, rfl, fnNameOK_start0 hn, by rintro rfl; exact fnNameOK_not_bang hn⟩
  case block => exact ⟨lbrace, _, rfl, rfl⟩
  case subshell => exact ⟨lparen, _, rfl, rfl⟩
  case ifc => exact ⟨kIf, _, rfl, rfl⟩
  case loop hk _ _ _ _ _ _ => rcases hk with rfl | rfl <;> exact ⟨_, _, rfl, rfl⟩
  case forc => exact ⟨kFor, _, rfl, rfl⟩
  case casec => exact ⟨kCase, _, rfl, rfl⟩
  case ci_esac => exact ⟨kEsac, _, rfl, by decide⟩
  case ci_last hlp hpat _ _ _ _ =>
    rcases hlp with rfl | rfl
    · cases hpat with
      | one hw => exact ⟨_, _, rfl, by rintro rfl; simp [wordLike, isLitWord] at hw⟩
      | more hw _ => exact ⟨_, _, rfl, by rintro rfl; simp [wordLike, isLitWord] at hw⟩
    · exact ⟨lparen, _, rfl, by decide⟩
  case ci_item hlp hpat _ _ _ _ _ _ =>
    rcases hlp with rfl | rfl
    · cases hpat with
      | one hw => exact ⟨_, _, rfl, by rintro rfl; simp [wordLike, isLitWord] at hw⟩
      | more hw _ => exact ⟨_, _, rfl, by rintro rfl; simp [wordLike, isLitWord] at hw⟩
    · exact ⟨lparen, _, rfl, by decide⟩

/-- What `getStmt` / `andOrTail` return when the and-or list is over. -/
def readEndRes (readEnd : Bool) : List Tok → Bool × List Tok
  | semi :: r => if readEnd then (true, r) else (false, semi :: r)
  | amp :: r => if readEnd then (true, r) else (false, amp :: r)
  | rest => (false, rest)

theorem andOrTail_stop {c : Cfg} {q : Q} {readEnd binCmd : Bool} {f : Nat} {rest : List Tok}
    (h : notCont rest.head? = true) :
    andOrTail c q readEnd binCmd (f+1) rest = .ok (readEndRes readEnd rest) := by
  cases rest with
  | nil => rfl
  | cons t r => cases t <;> first | rfl | (cases readEnd <;> rfl) | simp [notCont] at h

theorem andOrTail_bin {c : Cfg} {q : Q} {f : Nat} (ts : List Tok) :
    andOrTail c q false true (f+1) ts = .ok (false, ts) := by
  cases ts with
  | nil => rfl
  | cons t r => cases t <;> rfl

theorem pipeTail_bin {c : Cfg} {q : Q} {f : Nat} (ts : List Tok) :
    pipeTail c q true (f+1) ts = .ok ts := by
  cases ts with
  | nil => rfl
  | cons t r => cases t <;> rfl

theorem pipeTail_stop {c : Cfg} {q : Q} {binCmd : Bool} {f : Nat} {rest : List Tok}
    (h : rest.head? ≠ some pipe) : pipeTail c q binCmd (f+1) rest = .ok rest := by
  cases rest with
  | nil => rfl
  | cons t r => cases t <;> first | rfl | simp at h

/-- Where `stmts` leaves its loop. -/
def ListEnd (q : Q) (stops : List Tok) (rest : List Tok) : Prop :=
  rest = [] ∨ ∃ t r, rest = t :: r ∧ t ≠ nl ∧ t ≠ semi ∧ t ≠ amp ∧
    (stops.contains t = true ∨ (t = rparen ∧ q = .sub) ∨ (t = dsemi ∧ q = .case))

theorem stmts_stop {c : Cfg} {q : Q} {stops : List Tok} {f : Nat} {gotEnd any : Bool}
    {rest : List Tok} (h : ListEnd q stops rest) :
    stmts c q stops (f+1) gotEnd any rest = .ok (any, rest) := by
  rcases h with rfl | ⟨t, r, rfl, hnl, _, _, hs⟩
  · rfl
  · have hsk : skipNL (t :: r) = t :: r := skipNL_of_head (by simpa using hnl)
    simp only [stmts, hsk]
    rcases hs with hs | ⟨rfl, rfl⟩ | ⟨rfl, rfl⟩
    · have hs' : t ∈ stops := by simpa using hs
      simp [hs']
    · by_cases hc : rparen ∈ stops <;> simp [hc]
    · by_cases hc : dsemi ∈ stops <;> simp [hc]

theorem stmts_nl {c : Cfg} {q : Q} {stops : List Tok} {f : Nat} {gotEnd any : Bool} (X : List Tok) :
    stmts c q stops f gotEnd any (nl :: X) = stmts c q stops f true any X := by
  cases f with
  | zero => rfl
  | succ f =>
    cases X with
    | nil => simp [stmts, skipNL]
    | cons t0 r0 =>
      simp only [stmts, skipNL]
      cases skipNL (t0 :: r0) with
      | nil => rfl
      | cons t r => simp

/-- The closing words of a list are no and-or / pipe operators (they are reserved words). -/
def stopsOK (stops : List Tok) : Prop :=
  stops.contains pipe = false ∧ stops.contains andIf = false ∧ stops.contains orIf = false

/-- What completeness says for each non-terminal: the parser function(s) that read it succeed on
    `pre ++ rest`, leaving `rest`, provided `rest` may follow and the fuel is at least
    `8 * pre.length + constant`. -/
def Comp (c : Cfg) : NT → End → List Tok → Prop
  | .program, _, _ => True
  | .list q stops a, e, pre => ∀ f rest gotEnd any, stopsOK stops →
      allows q e rest.head? = true → ListEnd q stops rest → 8 * pre.length + 5 ≤ f →
      (gotEnd = false → pre = [] ∨ pre.head? = some nl) →
      stmts c q stops f gotEnd any (pre ++ rest) = .ok (any || a, rest)
  | .stmt q, e, pre => ∀ f rest readEnd, allows q e rest.head? = true → notCont rest.head? = true →
      8 * pre.length + 4 ≤ f →
      getStmt c q readEnd false f (pre ++ rest) = .ok (readEndRes readEnd rest)
  | .bpipe q, e, pre => ∀ f rest readEnd binCmd, allows q e rest.head? = true →
      rest.head? ≠ some pipe → 8 * pre.length + 4 ≤ f →
      getStmt c q readEnd binCmd f (pre ++ rest) = andOrTail c q readEnd binCmd (f-1) rest
  | .aoTail q e0, e, pre =>
      (∀ rest, allows q e rest.head? = true → notCont rest.head? = true →
        allows q e0 (pre ++ rest).head? = true ∧ (pre ++ rest).head? ≠ some pipe) ∧
      (∀ f rest readEnd, allows q e rest.head? = true → notCont rest.head? = true →
        8 * pre.length + 1 ≤ f →
        andOrTail c q readEnd false f (pre ++ rest) = .ok (readEndRes readEnd rest))
  | .pipeline q neg, e, pre => ∀ f rest, allows q e rest.head? = true → rest.head? ≠ some pipe →
      8 * pre.length + 3 ≤ f → pipeline c q neg false f (pre ++ rest) = .ok rest
  | .pipeTail q e0, e, pre =>
      (∀ rest, allows q e rest.head? = true → allows q e0 (pre ++ rest).head? = true) ∧
      (∀ f rest, allows q e rest.head? = true → rest.head? ≠ some pipe → 8 * pre.length + 1 ≤ f →
        pipeTail c q false f (pre ++ rest) = .ok rest)
  | .command q neg, e, pre => ∀ f rest binCmd, allows q e rest.head? = true →
      8 * pre.length + 3 ≤ f →
      pipeline c q neg binCmd f (pre ++ rest) = pipeTail c q binCmd (f-1) rest
  | .compound q, _, pre => ∀ f rest neg, 8 * pre.length + 2 ≤ f →
      command c q neg false f (pre ++ rest) = .ok rest
  | .ifTail q _, _, pre => ∀ f rest, 8 * pre.length + 1 ≤ f → ifTail c q f (pre ++ rest) = .ok rest
  | .caseItems, _, pre => ∀ f rest, 8 * pre.length + 1 ≤ f → caseItems c f (pre ++ rest) = .ok rest

theorem nls_length (k : Nat) : (nls k).length = k := by simp [nls]
theorem bangs_length (k : Nat) : (bangs k).length = k := by simp [bangs]

theorem startOK_head {stops : List Tok} {t : Tok} {r : List Tok} (h : startOK stops (t :: r)) :
    stops.contains t = false := h

/-- One loop iteration of `stmts` on a statement start. -/
theorem stmts_step {c : Cfg} {q : Q} {stops : List Tok} {f : Nat} {gotEnd any : Bool} {t : Tok}
    {r : List Tok} {sm : Bool} {r' : List Tok}
    (hs : isStart0 t = true) (hst : stops.contains t = false) (hg : gotEnd = true)
    (hget : getStmt c q true false f (t :: r) = .ok (sm, r')) :
    stmts c q stops (f+1) gotEnd any (t :: r) = stmts c q stops f sm true r' := by
  have hnl : t ≠ nl := by rintro rfl; simp [isStart0] at hs
  have hsk : skipNL (t :: r) = t :: r := skipNL_of_head (by simpa using hnl)
  have hmem : ¬ t ∈ stops := by simpa using hst
  subst hg
  simp only [stmts, hsk]
  have h1 : t ≠ rbrace := by rintro rfl; simp [isStart0] at hs
  have h2 : t ≠ rparen := by rintro rfl; simp [isStart0] at hs
  have h3 : t ≠ dsemi := by rintro rfl; simp [isStart0] at hs
  simp [hmem, h1, h2, h3, hget]

theorem readEndRes_stop {q : Q} {stops : List Tok} {rest : List Tok} (h : ListEnd q stops rest) :
    readEndRes true rest = (false, rest) := by
  rcases h with rfl | ⟨t, r, rfl, _, h2, h3, _⟩
  · rfl
  · cases t <;> first | rfl | exact absurd rfl h2 | exact absurd rfl h3

theorem notCont_stop {q : Q} {stops : List Tok} {rest : List Tok} (h : ListEnd q stops rest)
    (hs : stopsOK stops) :
    notCont rest.head? = true := by
  rcases h with rfl | ⟨t, r, rfl, _, _, _, h4⟩
  · rfl
  · rcases h4 with h4 | ⟨rfl, _⟩ | ⟨rfl, _⟩
    · obtain ⟨h1, h2, h3⟩ := hs
      cases t <;> first | rfl | simp_all
    · rfl
    · rfl

theorem comp_l_nil {c : Cfg} {q : Q} {stops : List Tok} : Comp c (.list q stops false) .closed [] := by
  intro f rest gotEnd any _ _ hend hf _
  obtain ⟨f', rfl⟩ : ∃ f', f = f' + 1 := ⟨f - 1, by omega⟩
  simpa using stmts_stop (c := c) (f := f') (gotEnd := gotEnd) (any := any) hend

theorem comp_l_nl {c : Cfg} {q : Q} {stops : List Tok} {a e ts}
    (ih : Comp c (.list q stops a) e ts) : Comp c (.list q stops a) e (nl :: ts) := by
  intro f rest gotEnd any hs3 hal hend hf _
  simp only [List.cons_append, stmts_nl]
  exact ih f rest true any hs3 hal hend (by simp at hf; omega) (by simp)

theorem comp_l_last {c : Cfg} {q : Q} {stops : List Tok} {e s}
    (hd : Derives c (.stmt q) e s) (hstart : startOK stops s)
    (ih : Comp c (.stmt q) e s) : Comp c (.list q stops true) e s := by
  intro f rest gotEnd any hs3 hal hend hf hg
  obtain ⟨t, r, rfl, ht⟩ := first_of_derives hd
  have hg' : gotEnd = true := by
    cases gotEnd with
    | true => rfl
    | false =>
      rcases hg rfl with h | h
      · cases h
      · simp at h; subst h; simp [isStart0] at ht
  obtain ⟨f', rfl⟩ : ∃ f', f = f' + 1 := ⟨f - 1, by omega⟩
  obtain ⟨f'', rfl⟩ : ∃ f'', f' = f'' + 1 := ⟨f' - 1, by omega⟩
  have hget := ih (f''+1) rest true hal (notCont_stop hend hs3) (by omega)
  rw [readEndRes_stop hend] at hget
  have hget' : getStmt c q true false (f''+1) (t :: (r ++ rest)) = .ok (false, rest) := by
    simpa using hget
  rw [List.cons_append, stmts_step ht (startOK_head hstart) hg' hget', stmts_stop hend]
  simp

theorem comp_l_sep {c : Cfg} {q : Q} {stops : List Tok} {e0 s sep a e ts}
    (hd : Derives c (.stmt q) e0 s) (hstart : startOK stops s) (hsep : sep = semi ∨ sep = amp)
    (hal0 : allows q e0 (some sep) = true)
    (ihs : Comp c (.stmt q) e0 s) (ihl : Comp c (.list q stops a) e ts) :
    Comp c (.list q stops true) e (s ++ sep :: ts) := by
  intro f rest gotEnd any hs3 hal hend hf hg
  obtain ⟨t, r, rfl, ht⟩ := first_of_derives hd
  have hg' : gotEnd = true := by
    cases gotEnd with
    | true => rfl
    | false =>
      rcases hg rfl with h | h
      · cases h
      · simp at h; subst h; simp [isStart0] at ht
  simp only [List.length_append, List.length_cons] at hf
  obtain ⟨f', rfl⟩ : ∃ f', f = f' + 1 := ⟨f - 1, by omega⟩
  have hget := ihs f' (sep :: ts ++ rest) true (by simpa using hal0)
    (by rcases hsep with rfl | rfl <;> rfl) (by simp; omega)
  have hres : readEndRes true (sep :: ts ++ rest) = (true, ts ++ rest) := by
    rcases hsep with rfl | rfl <;> rfl
  rw [hres] at hget
  have := stmts_step (c := c) (q := q) (stops := stops) (f := f') (gotEnd := gotEnd) (any := any)
    (t := t) (r := r ++ sep :: ts ++ rest) ht (startOK_head hstart) hg' (by simpa using hget)
  simp only [List.cons_append, List.append_assoc] at this ⊢
  rw [this]
  have := ihl f' rest true true hs3 hal hend (by omega) (by simp)
  simpa using this

theorem comp_l_newl {c : Cfg} {q : Q} {stops : List Tok} {e0 s a e ts}
    (hd : Derives c (.stmt q) e0 s) (hstart : startOK stops s)
    (hal0 : allows q e0 (some nl) = true)
    (ihs : Comp c (.stmt q) e0 s) (ihl : Comp c (.list q stops a) e ts) :
    Comp c (.list q stops true) e (s ++ nl :: ts) := by
  intro f rest gotEnd any hs3 hal hend hf hg
  obtain ⟨t, r, rfl, ht⟩ := first_of_derives hd
  have hg' : gotEnd = true := by
    cases gotEnd with
    | true => rfl
    | false =>
      rcases hg rfl with h | h
      · cases h
      · simp at h; subst h; simp [isStart0] at ht
  simp only [List.length_append, List.length_cons] at hf
  obtain ⟨f', rfl⟩ : ∃ f', f = f' + 1 := ⟨f - 1, by omega⟩
  have hget := ihs f' (nl :: ts ++ rest) true (by simpa using hal0) rfl (by simp; omega)
  have hres : readEndRes true (nl :: ts ++ rest) = (false, nl :: ts ++ rest) := rfl
  rw [hres] at hget
  have := stmts_step (c := c) (q := q) (stops := stops) (f := f') (gotEnd := gotEnd) (any := any)
    (t := t) (r := r ++ nl :: ts ++ rest) ht (startOK_head hstart) hg' (by simpa using hget)
  simp only [List.cons_append, List.append_assoc] at this ⊢
  rw [this, stmts_nl]
  have := ihl f' rest true true hs3 hal hend (by omega) (by simp)
  simpa using this

theorem start0_ne_nl {t : Tok} (h : isStart0 t = true) : t ≠ nl := by rintro rfl; simp [isStart0] at h
theorem start0_not_stop {t : Tok} (h : isStart0 t = true) : stopTok t = false := by
  cases t <;> simp_all [isStart0, stopTok, callStop]

theorem skipNL_nls_start {k : Nat} {t : Tok} {r : List Tok} (h : isStart0 t = true) :
    skipNL (nls k ++ t :: r) = t :: r := skipNL_nls_cons (start0_ne_nl h)

theorem comp_stmt {c : Cfg} {q e0 p e t}
    (ihp : Comp c (.bpipe q) e0 p) (iht : Comp c (.aoTail q e0) e t) : Comp c (.stmt q) e (p ++ t) := by
  intro f rest readEnd hal hnc hf
  obtain ⟨h1, h2⟩ := iht.1 rest hal hnc
  simp only [List.length_append] at hf
  rw [List.append_assoc, ihp f (t ++ rest) readEnd false h1 h2 (by omega)]
  exact iht.2 (f-1) rest readEnd hal hnc (by omega)

theorem notCont_ne_pipe {n : Option Tok} (h : notCont n = true) : n ≠ some pipe := by
  rintro rfl; simp [notCont] at h

theorem comp_t_nil {c : Cfg} {q e0} : Comp c (.aoTail q e0) e0 [] := by
  refine ⟨fun rest hal hnc => ⟨by simpa using hal, by simpa using notCont_ne_pipe hnc⟩, ?_⟩
  intro f rest readEnd _ hnc hf
  obtain ⟨f', rfl⟩ : ∃ f', f = f' + 1 := ⟨f - 1, by omega⟩
  simpa using andOrTail_stop (c := c) (q := q) (readEnd := readEnd) (binCmd := false) (f := f') hnc

theorem andOrTail_op {c : Cfg} {q : Q} {readEnd : Bool} {f : Nat} {op : Tok} {r r' : List Tok} {x : Bool}
    (hop : op = andIf ∨ op = orIf) (hg : getStmt c q false true f (skipNL r) = .ok (x, r')) :
    andOrTail c q readEnd false (f+1) (op :: r) = andOrTail c q readEnd false f r' := by
  rcases hop with rfl | rfl <;> simp [andOrTail, hg]

theorem comp_t_op {c : Cfg} {q e0 op k e1 p e t} (hop : op = andIf ∨ op = orIf)
    (hal0 : allows q e0 (some op) = true) (hdp : Derives c (.bpipe q) e1 p)
    (ihp : Comp c (.bpipe q) e1 p) (iht : Comp c (.aoTail q e1) e t) :
    Comp c (.aoTail q e0) e (op :: nls k ++ p ++ t) := by
  refine ⟨fun rest _ _ => ⟨by simpa using hal0, by rcases hop with rfl | rfl <;> simp⟩, ?_⟩
  intro f rest readEnd hal hnc hf
  obtain ⟨t0, r0, rfl, ht0⟩ := first_of_derives hdp
  obtain ⟨h1, h2⟩ := iht.1 rest hal hnc
  simp only [List.length_append, List.length_cons, nls_length] at hf
  obtain ⟨f', rfl⟩ : ∃ f', f = f' + 1 := ⟨f - 1, by omega⟩
  obtain ⟨f'', rfl⟩ : ∃ f'', f' = f'' + 1 := ⟨f' - 1, by omega⟩
  have hsk : skipNL (nls k ++ (t0 :: r0) ++ t ++ rest) = (t0 :: r0) ++ (t ++ rest) := by
    simpa using skipNL_nls_start (k := k) (r := r0 ++ (t ++ rest)) ht0
  have hg : getStmt c q false true (f''+1) (skipNL (nls k ++ (t0 :: r0) ++ t ++ rest))
      = .ok (false, t ++ rest) := by
    rw [hsk, ihp (f''+1) (t ++ rest) false true h1 h2 (by simp; omega)]
    obtain ⟨f3, rfl⟩ : ∃ f3, f'' = f3 + 1 := ⟨f'' - 1, by omega⟩
    exact andOrTail_bin _
  have := andOrTail_op (c := c) (q := q) (readEnd := readEnd) hop hg
  simp only [List.cons_append, List.append_assoc] at this ⊢
  rw [this]
  exact iht.2 (f''+1) rest readEnd hal hnc (by omega)

theorem getStmt_plain {c : Cfg} {q : Q} {re bc : Bool} {f : Nat} {t : Tok} {r : List Tok}
    (h : t ≠ bang) : getStmt c q re bc (f+1) (t :: r) =
      (pipeline c q false false f (t :: r)).bind (andOrTail c q re bc f) := by
  cases t <;> first | rfl | exact absurd rfl h

theorem comp_b_plain {c : Cfg} {q e p} (hd : Derives c (.pipeline q false) e p)
    (ih : Comp c (.pipeline q false) e p) : Comp c (.bpipe q) e p := by
  intro f rest readEnd binCmd hal hnp hf
  obtain ⟨t, r, rfl, _, hnb⟩ := first_of_derives hd
  obtain ⟨f', rfl⟩ : ∃ f', f = f' + 1 := ⟨f - 1, by omega⟩
  rw [List.cons_append, getStmt_plain (hnb rfl)]
  have := ih f' rest hal hnp (by omega)
  rw [List.cons_append] at this
  simp [this, R.bind]

theorem comp_b_bang {c : Cfg} {q e p} (hba : c.bangAlone = false)
    (hd : Derives c (.pipeline q true) e p) (hnb : p.head? ≠ some bang)
    (ih : Comp c (.pipeline q true) e p) : Comp c (.bpipe q) e (bang :: p) := by
  intro f rest readEnd binCmd hal hnp hf
  obtain ⟨t, r, rfl, ht, _⟩ := first_of_derives hd
  simp only [List.length_cons] at hf
  obtain ⟨f', rfl⟩ : ∃ f', f = f' + 1 := ⟨f - 1, by omega⟩
  have htb : t ≠ bang := by simpa using hnb
  have := ih f' rest hal hnp (by simp; omega)
  rw [List.cons_append] at this
  simp [getStmt, hba, start0_not_stop ht, htb, this, R.bind]

theorem dropWhile_bangs {k : Nat} {X : List Tok} (h : X.head? ≠ some bang) :
    (bangs k ++ X).dropWhile (· == bang) = X := by
  induction k with
  | zero =>
    cases X with
    | nil => rfl
    | cons t r =>
      have : (t == bang) = false := by simpa using h
      simp [bangs, this]
  | succ k ih => simpa [bangs, List.replicate, List.dropWhile] using ih

theorem comp_b_bangs {c : Cfg} {q e p k} (hba : c.bangAlone = true)
    (hd : Derives c (.pipeline q true) e p) (hnb : p.head? ≠ some bang)
    (ih : Comp c (.pipeline q true) e p) : Comp c (.bpipe q) e (bang :: bangs k ++ p) := by
  intro f rest readEnd binCmd hal hnp hf
  obtain ⟨t, r, rfl, ht, _⟩ := first_of_derives hd
  simp only [List.length_cons, List.length_append, bangs_length] at hf
  obtain ⟨f', rfl⟩ : ∃ f', f = f' + 1 := ⟨f - 1, by omega⟩
  have htb : t ≠ bang := by simpa using hnb
  have hdw : (bangs k ++ (t :: r) ++ rest).dropWhile (· == bang) = t :: (r ++ rest) := by
    simpa using dropWhile_bangs (k := k) (X := t :: (r ++ rest)) (by simpa using htb)
  have := ih f' rest hal hnp (by simp; omega)
  rw [List.cons_append] at this
  have hunf : getStmt c q readEnd binCmd (f'+1) (bang :: (bangs k ++ (t :: r) ++ rest)) =
      (pipeline c q true false f' (t :: (r ++ rest))).bind (andOrTail c q readEnd binCmd f') := by
    simp only [getStmt, hba, if_true, hdw]
    cases t <;> simp_all [isStart0, stopTok, callStop]
  simp only [List.cons_append, List.append_assoc] at hunf ⊢
  rw [hunf]
  simp [this, R.bind]

theorem comp_b_bare {c : Cfg} {q k} (hba : c.bangAlone = true) :
    Comp c (.bpipe q) .bare (bang :: bangs k) := by
  intro f rest readEnd binCmd hal hnp hf
  simp only [List.length_cons, bangs_length] at hf
  obtain ⟨f', rfl⟩ : ∃ f', f = f' + 1 := ⟨f - 1, by omega⟩
  obtain ⟨f'', rfl⟩ : ∃ f'', f' = f'' + 1 := ⟨f' - 1, by omega⟩
  have hrest : rest = [] ∨ (∃ r, rest = nl :: r) ∨ ∃ r, rest = semi :: r := by
    cases rest with
    | nil => exact .inl rfl
    | cons t r =>
      simp [allows] at hal
      rcases hal with rfl | rfl
      · exact .inr (.inl ⟨r, rfl⟩)
      · exact .inr (.inr ⟨r, rfl⟩)
  have hdw : (bangs k ++ rest).dropWhile (· == bang) = rest :=
    dropWhile_bangs (by rcases hrest with rfl | ⟨r, rfl⟩ | ⟨r, rfl⟩ <;> simp)
  simp only [List.cons_append, getStmt, hba, if_true, hdw, Nat.add_sub_cancel]
  rcases hrest with rfl | ⟨r, rfl⟩ | ⟨r, rfl⟩
  · rfl
  · rfl
  · cases readEnd <;> rfl

theorem comp_pipeline {c : Cfg} {q neg e0 cm e t}
    (ihc : Comp c (.command q neg) e0 cm) (iht : Comp c (.pipeTail q e0) e t) :
    Comp c (.pipeline q neg) e (cm ++ t) := by
  intro f rest hal hnp hf
  simp only [List.length_append] at hf
  rw [List.append_assoc, ihc f (t ++ rest) false (iht.1 rest hal) (by omega)]
  exact iht.2 (f-1) rest hal hnp (by omega)

theorem comp_p_nil {c : Cfg} {q e0} : Comp c (.pipeTail q e0) e0 [] := by
  refine ⟨fun rest hal => by simpa using hal, ?_⟩
  intro f rest _ hnp hf
  obtain ⟨f', rfl⟩ : ∃ f', f = f' + 1 := ⟨f - 1, by omega⟩
  simpa using pipeTail_stop (c := c) (q := q) (binCmd := false) (f := f') hnp

theorem pipeTail_pipe {c : Cfg} {q : Q} {f : Nat} {r r' : List Tok}
    (hp : pipeline c q false true f (skipNL r) = .ok r') :
    pipeTail c q false (f+1) (pipe :: r) = pipeTail c q false f r' := by
  simp [pipeTail, hp, R.bind]

theorem comp_p_pipe {c : Cfg} {q e0 k e1 cm e t} (hal0 : allows q e0 (some pipe) = true)
    (hdc : Derives c (.command q false) e1 cm)
    (ihc : Comp c (.command q false) e1 cm) (iht : Comp c (.pipeTail q e1) e t) :
    Comp c (.pipeTail q e0) e (pipe :: nls k ++ cm ++ t) := by
  refine ⟨fun rest _ => by simpa using hal0, ?_⟩
  intro f rest hal hnp hf
  obtain ⟨t0, r0, rfl, ht0, _⟩ := first_of_derives hdc
  simp only [List.length_append, List.length_cons, nls_length] at hf
  obtain ⟨f', rfl⟩ : ∃ f', f = f' + 1 := ⟨f - 1, by omega⟩
  obtain ⟨f'', rfl⟩ : ∃ f'', f' = f'' + 1 := ⟨f' - 1, by omega⟩
  obtain ⟨f3, rfl⟩ : ∃ f3, f'' = f3 + 1 := ⟨f'' - 1, by omega⟩
  have hsk : skipNL (nls k ++ (t0 :: r0) ++ t ++ rest) = (t0 :: r0) ++ (t ++ rest) := by
    simpa using skipNL_nls_start (k := k) (r := r0 ++ (t ++ rest)) ht0
  have hp : pipeline c q false true (f3+1+1) (skipNL (nls k ++ (t0 :: r0) ++ t ++ rest))
      = .ok (t ++ rest) := by
    rw [hsk, ihc (f3+1+1) (t ++ rest) true (iht.1 rest hal) (by simp; omega)]
    exact pipeTail_bin _
  have hunf : pipeTail c q false (f3+1+1+1) (pipe :: (nls k ++ (t0 :: r0) ++ t ++ rest)) =
      pipeTail c q false (f3+1+1) (t ++ rest) := pipeTail_pipe hp
  simp only [List.cons_append, List.append_assoc] at hunf ⊢
  rw [hunf]
  exact iht.2 (f3+1+1) rest hal hnp (by omega)

theorem allows_ne_io {q : Q} {e : End} {n : Option Tok} (h : allows q e n = true) : n ≠ some io := by
  rintro rfl; rw [allows_io] at h; cases h

/-- `pipeline` once the command proper has been read. -/
theorem pipeline_of_command {c : Cfg} {q : Q} {neg binCmd : Bool} {f : Nat} {pr body rest : List Tok}
    (hpr : Redirs pr) (hr : rest.head? ≠ some io)
    (hc : command c q neg (!pr.isEmpty) f (body ++ rest) = .ok rest)
    (hbr : (body ++ rest).head? ≠ some io) :
    pipeline c q neg binCmd (f+1) (pr ++ body ++ rest) = pipeTail c q binCmd f rest := by
  have h1 : redirs (pr ++ (body ++ rest)) = some (!pr.isEmpty, body ++ rest) :=
    redirs_complete hpr _ hbr
  have h2 : redirs rest = some (false, rest) := by
    simpa using redirs_complete .nil rest hr
  simp only [pipeline, List.append_assoc, h1, hc, R.bind, h2]
  simp

theorem name_call {c : Cfg} {q : Q} {pre : Bool} {f : Nat} {t : Tok} {X : List Tok}
    (h : X.head? ≠ some lparen) : name c q pre (f+1) t X = ofOpt (callExpr q X) := by
  cases X with
  | nil => rfl
  | cons x xs => cases x <;> first | rfl | simp at h

theorem callExpr_not_lparen {q : Q} {X rest : List Tok} (h : callExpr q X = some rest) :
    X.head? ≠ some lparen := by
  cases X with
  | nil => simp
  | cons x xs =>
    intro hx
    simp at hx; subst hx
    rw [callExpr_cons (by decide)] at h
    simp [callStop, wordLike, isLitWord] at h

theorem firstOK_ne_io {c : Cfg} {neg pre : Bool} {t : Tok} (h : firstOK c neg pre t = true) : t ≠ io := by
  rintro rfl; simp [firstOK, isRsrv, isLitWord] at h

theorem command_simple {c : Cfg} {q : Q} {neg pre : Bool} {f : Nat} {t : Tok} {X rest : List Tok}
    (hf : firstOK c neg pre t = true) (hc : callExpr q X = some rest) :
    command c q neg pre (f+1+1) (t :: X) = .ok rest := by
  have hl := callExpr_not_lparen hc
  have hn : ∀ pre', name c q pre' (f+1) t X = .ok rest := fun pre' => by
    rw [name_call hl, hc]; rfl
  have hX : (match X with | lparen :: _ => R.err | _ => ofOpt (callExpr q X)) = .ok rest := by
    cases X with
    | nil => rw [hc]; rfl
    | cons x xs => cases x <;> first | (rw [hc]; rfl) | simp at hl
  simp only [command]
  split
  · exact hX
  · rename_i hcond
    have hofc : ofOpt (callExpr q X) = .ok rest := by rw [hc]; rfl
    have hn' := hn pre
    cases t <;> simp [firstOK, isRsrv, isLitWord] at hf hcond <;>
      first
      | exact hn'
      | exact hX
      | exact hofc
      | (simp only [hf, if_true]; exact hn')
      | (rcases hf with ⟨h1, h2⟩ | h3
         · simp [h1, h2] at hcond
         · simp only [h3, if_true]; exact hn')
      | (simp [hf.1, hf.2] at hcond)

theorem comp_c_simple {c : Cfg} {q neg pre t its} (hpr : Redirs pre)
    (hf : firstOK c neg (!pre.isEmpty) t = true) (hi : Items its) :
    Comp c (.command q neg) .open (pre ++ t :: its) := by
  intro f rest binCmd hal hfu
  simp only [List.length_append, List.length_cons] at hfu
  obtain ⟨f', rfl⟩ : ∃ f', f = f' + 1 := ⟨f - 1, by omega⟩
  obtain ⟨f'', rfl⟩ : ∃ f'', f' = f'' + 1 := ⟨f' - 1, by omega⟩
  obtain ⟨f3, rfl⟩ : ∃ f3, f'' = f3 + 1 := ⟨f'' - 1, by omega⟩
  have hc : callExpr q (its ++ rest) = some rest := callExpr_complete hi rest (by simpa [allows] using hal)
  have := pipeline_of_command (c := c) (q := q) (neg := neg) (binCmd := binCmd) (f := f3+1+1)
    (body := t :: its) (rest := rest) hpr (allows_ne_io hal)
    (by simpa using command_simple (f := f3) hf hc) (by simpa using firstOK_ne_io hf)
  simpa using this

theorem command_redirOnly {c : Cfg} {q : Q} {neg : Bool} {f : Nat} {rest : List Tok}
    (h : openOK q rest.head? = true) : command c q neg true (f+1) rest = .ok rest := by
  cases rest with
  | nil => rfl
  | cons t r => cases t <;> simp_all [command, openOK, callStop, isLitWord]

theorem comp_c_redir {c : Cfg} {q neg w r} (hw : wordLike w = true) (hr : Redirs r) :
    Comp c (.command q neg) .open (io :: w :: r) := by
  intro f rest binCmd hal hfu
  obtain ⟨f', rfl⟩ : ∃ f', f = f' + 1 := ⟨f - 1, by omega⟩
  obtain ⟨f'', rfl⟩ : ∃ f'', f' = f'' + 1 := ⟨f' - 1, by omega⟩
  have := pipeline_of_command (c := c) (q := q) (neg := neg) (binCmd := binCmd) (f := f''+1)
    (pr := io :: w :: r) (body := []) (rest := rest) (.cons hw hr) (allows_ne_io hal)
    (by simpa using command_redirOnly (f := f'') (by simpa [allows] using hal))
    (by simpa using allows_ne_io hal)
  simpa using this

theorem followsOpen_of_openOK {q : Q} {n : Option Tok} (h : openOK q n = true) :
    followsOpen n = true := by
  cases n with
  | none => rfl
  | some t =>
    simp only [openOK, Bool.or_eq_true, Bool.and_eq_true, beq_iff_eq] at h
    rcases h with h | ⟨rfl, _⟩
    · simp [followsOpen, h]
    · rfl

theorem comp_c_compound {c : Cfg} {q neg body post} (hdb : Derives c (.compound q) .closed body)
    (ihb : Comp c (.compound q) .closed body) (hpost : Redirs post) :
    Comp c (.command q neg) (if post.isEmpty || c.closerAfterRedir then .closed else .open)
      (body ++ post) := by
  intro f rest binCmd hal hfu
  simp only [List.length_append] at hfu
  obtain ⟨f', rfl⟩ : ∃ f', f = f' + 1 := ⟨f - 1, by omega⟩
  obtain ⟨t, r, rfl, ht⟩ := first_of_derives hdb
  have h1 : redirs ((t :: r) ++ (post ++ rest)) = some (false, (t :: r) ++ (post ++ rest)) := by
    simpa using redirs_complete .nil ((t :: r) ++ (post ++ rest))
      (by rintro h; simp at h; subst h; simp [isCompoundStart] at ht)
  have h2 := ihb f' (post ++ rest) neg (by omega)
  have h3 : redirs (post ++ rest) = some (!post.isEmpty, rest) :=
    redirs_complete hpost rest (allows_ne_io hal)
  have hchk : (!post.isEmpty && !c.closerAfterRedir && !followsOpen rest.head?) = false := by
    by_cases hc : (post.isEmpty || c.closerAfterRedir) = true
    · simp only [Bool.or_eq_true] at hc
      rcases hc with hc | hc <;> simp [hc]
    · simp only [hc] at hal
      have := followsOpen_of_openOK (q := q) (by simpa [allows] using hal)
      simp [this]
  simp only [pipeline, List.append_assoc, h1, h2, R.bind, h3, Nat.add_sub_cancel, hchk]
  simp

theorem seal_inv {q : Q} {e : End} {n : Option Tok} (h : allows q e.seal n = true) :
    allows q e n = true ∧ notCont n = true := by
  cases e <;> simp_all [End.seal, allows] <;>
    (cases n with
     | none => simp [notCont]
     | some t => cases t <;> simp_all [notCont])

theorem readEndRes_false (rest : List Tok) : readEndRes false rest = (false, rest) := by
  cases rest with
  | nil => rfl
  | cons t r => cases t <;> rfl

theorem fnName_ne_io {c : Cfg} {neg : Bool} {nm : Tok} (h : fnNameOK c neg nm = true) : nm ≠ io := by
  rintro rfl; simp [fnNameOK] at h

/-- `command` on a function definition reduces to `name`. -/
theorem command_fn {c : Cfg} {q : Q} {neg : Bool} {f : Nat} {nm : Tok} {X : List Tok}
    (h : fnNameOK c neg nm = true) :
    command c q neg false (f+1) (nm :: X) = name c q false f nm X := by
  cases nm <;> simp_all [fnNameOK, command]

/-- `name` on `( )`: the function body. -/
theorem name_fn_andor {c : Cfg} {q : Q} {neg : Bool} {f : Nat} {nm : Tok} {r2 : List Tok}
    (h : fnNameOK c neg nm = true) (hfb : c.fnBody = .andOr) :
    name c q false (f+1) nm (lparen :: rparen :: r2) =
      (getStmt c q false false f (skipNL r2)).bind fun x => .ok x.2 := by
  have hpb : (c.posix && nm == bang) = false := by
    cases nm <;> simp_all [fnNameOK]
  simp only [name, hpb, hfb]
  simp

theorem name_fn_command {c : Cfg} {q : Q} {neg : Bool} {f : Nat} {nm : Tok} {r2 : List Tok}
    (h : fnNameOK c neg nm = true) (hfb : c.fnBody = .command) :
    name c q false (f+1) nm (lparen :: rparen :: r2) = pipeline c q false true f (skipNL r2) := by
  have hpb : (c.posix && nm == bang) = false := by
    cases nm <;> simp_all [fnNameOK]
  simp only [name, hpb, hfb]
  simp

theorem name_fn_compound {c : Cfg} {q : Q} {neg : Bool} {f : Nat} {nm : Tok} {r2 : List Tok}
    {t3 : Tok} {r3 : List Tok}
    (h : fnNameOK c neg nm = true) (hfb : c.fnBody = .compound) (hsk : skipNL r2 = t3 :: r3)
    (ht3 : isCompoundStart t3 = true) :
    name c q false (f+1) nm (lparen :: rparen :: r2) = pipeline c q false true f (t3 :: r3) := by
  have hpb : (c.posix && nm == bang) = false := by
    cases nm <;> simp_all [fnNameOK]
  simp only [name, hpb, hfb, hsk]
  simp [ht3]

theorem fn_via {c : Cfg} {q : Q} {neg binCmd : Bool} {f : Nat} {nm : Tok} {k : Nat}
    {body rest : List Tok} {t0 : Tok} {r0 : List Tok} (hn : fnNameOK c neg nm = true)
    (_hb : body = t0 :: r0) (_ht0 : isStart0 t0 = true) (hr : rest.head? ≠ some io)
    (hbody : name c q false (f+1) nm (lparen :: rparen :: (nls k ++ body ++ rest)) = .ok rest) :
    pipeline c q neg binCmd (f+1+1+1) (nm :: lparen :: rparen :: nls k ++ body ++ rest) =
      pipeTail c q binCmd (f+1+1) rest := by
  have hc : command c q neg (!([] : List Tok).isEmpty) (f+1+1)
      ((nm :: lparen :: rparen :: nls k ++ body) ++ rest) = .ok rest := by
    simp only [List.isEmpty_nil, Bool.not_true, List.cons_append, List.append_assoc]
    rw [command_fn hn]
    simpa using hbody
  have := pipeline_of_command (c := c) (q := q) (neg := neg) (binCmd := binCmd) (f := f+1+1)
    (pr := []) (body := nm :: lparen :: rparen :: nls k ++ body) (rest := rest) .nil hr hc
    (by simpa using fnName_ne_io hn)
  simpa using this

theorem comp_f_andor {c : Cfg} {q neg nm k e body} (hfb : c.fnBody = .andOr)
    (hn : fnNameOK c neg nm = true) (hd : Derives c (.stmt q) e body)
    (ih : Comp c (.stmt q) e body) :
    Comp c (.command q neg) e.seal (nm :: lparen :: rparen :: nls k ++ body) := by
  intro f rest binCmd hal hfu
  obtain ⟨hal', hnc⟩ := seal_inv hal
  obtain ⟨t0, r0, hb, ht0⟩ := first_of_derives hd
  simp only [List.length_append, List.length_cons, nls_length] at hfu
  obtain ⟨f', rfl⟩ : ∃ f', f = f' + 1 + 1 + 1 := ⟨f - 3, by omega⟩
  have hsk : skipNL (nls k ++ body ++ rest) = body ++ rest := by
    subst hb; simpa using skipNL_nls_start (k := k) (r := r0 ++ rest) ht0
  have hbody : name c q false (f'+1) nm (lparen :: rparen :: (nls k ++ body ++ rest)) = .ok rest := by
    rw [name_fn_andor hn hfb, hsk, ih f' rest false hal' hnc (by omega), readEndRes_false]
    rfl
  simpa using fn_via (binCmd := binCmd) hn hb ht0 (allows_ne_io hal) hbody

theorem comp_f_command {c : Cfg} {q neg nm k e body} (hfb : c.fnBody = .command)
    (hn : fnNameOK c neg nm = true) (hd : Derives c (.command q false) e body)
    (ih : Comp c (.command q false) e body) :
    Comp c (.command q neg) e (nm :: lparen :: rparen :: nls k ++ body) := by
  intro f rest binCmd hal hfu
  obtain ⟨t0, r0, hb, ht0, _⟩ := first_of_derives hd
  simp only [List.length_append, List.length_cons, nls_length] at hfu
  obtain ⟨f', rfl⟩ : ∃ f', f = f' + 1 + 1 + 1 := ⟨f - 3, by omega⟩
  obtain ⟨f'', rfl⟩ : ∃ f'', f' = f'' + 1 + 1 := ⟨f' - 2, by omega⟩
  have hsk : skipNL (nls k ++ body ++ rest) = body ++ rest := by
    subst hb; simpa using skipNL_nls_start (k := k) (r := r0 ++ rest) ht0
  have hbody : name c q false (f''+1+1+1) nm (lparen :: rparen :: (nls k ++ body ++ rest)) = .ok rest := by
    rw [name_fn_command hn hfb, hsk, ih (f''+1+1) rest true hal (by omega)]
    exact pipeTail_bin _
  simpa using fn_via (binCmd := binCmd) hn hb ht0 (allows_ne_io hal) hbody

theorem comp_f_compound {c : Cfg} {q neg nm k e body} (hfb : c.fnBody = .compound)
    (hn : fnNameOK c neg nm = true) (hd : Derives c (.command q false) e body)
    (hsc : startsCompound body = true)
    (ih : Comp c (.command q false) e body) :
    Comp c (.command q neg) e (nm :: lparen :: rparen :: nls k ++ body) := by
  intro f rest binCmd hal hfu
  obtain ⟨t0, r0, hb, ht0, _⟩ := first_of_derives hd
  simp only [List.length_append, List.length_cons, nls_length] at hfu
  obtain ⟨f', rfl⟩ : ∃ f', f = f' + 1 + 1 + 1 := ⟨f - 3, by omega⟩
  obtain ⟨f'', rfl⟩ : ∃ f'', f' = f'' + 1 + 1 := ⟨f' - 2, by omega⟩
  have hsk : skipNL (nls k ++ body ++ rest) = body ++ rest := by
    subst hb; simpa using skipNL_nls_start (k := k) (r := r0 ++ rest) ht0
  have hbody : name c q false (f''+1+1+1) nm (lparen :: rparen :: (nls k ++ body ++ rest)) = .ok rest := by
    subst hb
    simp only [startsCompound] at hsc
    rw [name_fn_compound hn hfb (by simpa using hsk) hsc]
    have := ih (f''+1+1) rest true hal (by omega)
    rw [List.cons_append] at this
    rw [this]
    exact pipeTail_bin _
  simpa using fn_via (binCmd := binCmd) hn hb ht0 (allows_ne_io hal) hbody

instance (s : List Tok) : Decidable (stopsOK s) := by unfold stopsOK; infer_instance

theorem follow_c {c : Cfg} {q : Q} {stops : List Tok} {e : End} {l : List Tok} {x : Tok}
    {rest : List Tok} {f : Nat}
    (ihl : Comp c (.list q stops true) e l) (hso : stopsOK stops)
    (hal : allows q e (some x) = true) (hend : ListEnd q stops (x :: rest))
    (hf : 8 * l.length + 5 ≤ f) :
    (followStmts c q stops (f+1) (l ++ x :: rest)).bind (expect x) = .ok rest := by
  have := ihl f (x :: rest) true false hso (by simpa using hal) hend hf (by simp)
  simp [followStmts, this, R.bind, expect]

theorem listEnd_stop {q : Q} {stops : List Tok} {x : Tok} {rest : List Tok}
    (h : stops.contains x = true) (h1 : x ≠ nl) (h2 : x ≠ semi) (h3 : x ≠ amp) :
    ListEnd q stops (x :: rest) := .inr ⟨x, rest, rfl, h1, h2, h3, .inl h⟩

theorem comp_block {c : Cfg} {q e l} (ihl : Comp c (.list q [rbrace] true) e l)
    (hal : allows q e (some rbrace) = true) : Comp c (.compound q) .closed (lbrace :: l ++ [rbrace]) := by
  intro f rest neg hf
  simp only [List.length_append, List.length_cons, List.length_nil] at hf
  obtain ⟨f', rfl⟩ : ∃ f', f = f' + 1 + 1 := ⟨f - 2, by omega⟩
  have := follow_c (rest := rest) (f := f') ihl (by decide) hal
    (listEnd_stop (by decide) (by decide) (by decide) (by decide)) (by omega)
  simpa [command] using this

theorem comp_subshell {c : Cfg} {q e l} (ihl : Comp c (.list .sub [] true) e l)
    (hal : allows .sub e (some rparen) = true) :
    Comp c (.compound q) .closed (lparen :: l ++ [rparen]) := by
  intro f rest neg hf
  simp only [List.length_append, List.length_cons, List.length_nil] at hf
  obtain ⟨f', rfl⟩ : ∃ f', f = f' + 1 + 1 := ⟨f - 2, by omega⟩
  have := follow_c (rest := rest) (f := f') ihl (by decide) hal
    (.inr ⟨rparen, rest, rfl, by decide, by decide, by decide, .inr (.inl ⟨rfl, rfl⟩)⟩) (by omega)
  simpa [command] using this

theorem ifTail_head {c : Cfg} {nt e t} (h : Derives c nt e t) :
    match nt with
    | .ifTail q e0 => ∃ x r, t = x :: r ∧ (x = kFi ∨ x = kElse ∨ x = kElif) ∧ allows q e0 (some x) = true
    | _ => True := by
  cases h <;> try trivial
  case i_fi h => exact ⟨kFi, _, rfl, .inl rfl, h⟩
  case i_else h _ _ => exact ⟨kElse, _, rfl, .inr (.inl rfl), h⟩
  case i_elif h _ _ _ _ => exact ⟨kElif, _, rfl, .inr (.inr rfl), h⟩

theorem listEnd_if {q : Q} {x : Tok} {rest : List Tok} (h : x = kFi ∨ x = kElse ∨ x = kElif) :
    ListEnd q [kFi, kElif, kElse] (x :: rest) := by
  rcases h with rfl | rfl | rfl <;>
    exact listEnd_stop (by decide) (by decide) (by decide) (by decide)

/-- The common part of `if` and `elif`: condition, `then`, then-part, and the tail. -/
theorem if_body {c : Cfg} {q e1 cond e2 thn e t} {f : Nat} {rest : List Tok}
    (ih1 : Comp c (.list q [kThen] true) e1 cond) (hal1 : allows q e1 (some kThen) = true)
    (ih2 : Comp c (.list q [kFi, kElif, kElse] true) e2 thn)
    (hdt : Derives c (.ifTail q e2) e t) (iht : Comp c (.ifTail q e2) e t)
    (hf : 8 * (cond.length + thn.length + t.length) + 7 ≤ f) :
    (((followStmts c q [kThen] (f+1) (cond ++ kThen :: thn ++ t ++ rest)).bind (expect kThen)).bind
      fun r1 => (followStmts c q [kFi, kElif, kElse] (f+1) r1).bind (ifTail c q (f+1))) = .ok rest := by
  obtain ⟨x, r, rfl, hx, halx⟩ := ifTail_head hdt
  have h1 := follow_c (rest := thn ++ (x :: r) ++ rest) (f := f) ih1 (by decide) hal1
    (listEnd_stop (by decide) (by decide) (by decide) (by decide)) (by omega)
  have h2 := ih2 f ((x :: r) ++ rest) true false (by decide) (by simpa using halx)
    (by simpa using listEnd_if (q := q) (rest := r ++ rest) hx) (by omega) (by simp)
  have h3 := iht (f+1) rest (by simp at hf ⊢; omega)
  simp only [List.append_assoc, List.cons_append] at h1 h2 h3 ⊢
  rw [h1]
  simp only [R.bind, followStmts, h2, Bool.false_or]
  exact h3

theorem comp_ifc {c : Cfg} {q e1 cond e2 thn e t}
    (ih1 : Comp c (.list q [kThen] true) e1 cond) (hal1 : allows q e1 (some kThen) = true)
    (ih2 : Comp c (.list q [kFi, kElif, kElse] true) e2 thn)
    (hdt : Derives c (.ifTail q e2) e t) (iht : Comp c (.ifTail q e2) e t) :
    Comp c (.compound q) .closed (kIf :: cond ++ kThen :: thn ++ t) := by
  intro f rest neg hf
  simp only [List.length_append, List.length_cons] at hf
  obtain ⟨f', rfl⟩ : ∃ f', f = f' + 1 + 1 := ⟨f - 2, by omega⟩
  have := if_body (rest := rest) (f := f') ih1 hal1 ih2 hdt iht (by omega)
  simpa [command] using this

theorem comp_i_fi {c : Cfg} {q e0} : Comp c (.ifTail q e0) .closed [kFi] := by
  intro f rest hf
  obtain ⟨f', rfl⟩ : ∃ f', f = f' + 1 := ⟨f - 1, by omega⟩
  simp [ifTail]

theorem comp_i_else {c : Cfg} {q e0 e l} (ihl : Comp c (.list q [kFi] true) e l)
    (hal : allows q e (some kFi) = true) : Comp c (.ifTail q e0) .closed (kElse :: l ++ [kFi]) := by
  intro f rest hf
  simp only [List.length_append, List.length_cons, List.length_nil] at hf
  obtain ⟨f', rfl⟩ : ∃ f', f = f' + 1 + 1 := ⟨f - 2, by omega⟩
  have := follow_c (rest := rest) (f := f') ihl (by decide) hal
    (listEnd_stop (by decide) (by decide) (by decide) (by decide)) (by omega)
  simpa [ifTail] using this

theorem comp_i_elif {c : Cfg} {q e0 e1 cond e2 thn e t}
    (ih1 : Comp c (.list q [kThen] true) e1 cond) (hal1 : allows q e1 (some kThen) = true)
    (ih2 : Comp c (.list q [kFi, kElif, kElse] true) e2 thn)
    (hdt : Derives c (.ifTail q e2) e t) (iht : Comp c (.ifTail q e2) e t) :
    Comp c (.ifTail q e0) .closed (kElif :: cond ++ kThen :: thn ++ t) := by
  intro f rest hf
  simp only [List.length_append, List.length_cons] at hf
  obtain ⟨f', rfl⟩ : ∃ f', f = f' + 1 + 1 := ⟨f - 2, by omega⟩
  have := if_body (rest := rest) (f := f') ih1 hal1 ih2 hdt iht (by omega)
  simpa [ifTail] using this

theorem comp_loop {c : Cfg} {q kw e1 cond e2 body} (hkw : kw = kWhile ∨ kw = kUntil)
    (ih1 : Comp c (.list q [kDo] true) e1 cond) (hal1 : allows q e1 (some kDo) = true)
    (ih2 : Comp c (.list q [kDone] true) e2 body) (hal2 : allows q e2 (some kDone) = true) :
    Comp c (.compound q) .closed (kw :: cond ++ kDo :: body ++ [kDone]) := by
  intro f rest neg hf
  simp only [List.length_append, List.length_cons, List.length_nil] at hf
  obtain ⟨f', rfl⟩ : ∃ f', f = f' + 1 + 1 := ⟨f - 2, by omega⟩
  have h1 := follow_c (rest := body ++ [kDone] ++ rest) (f := f') ih1 (by decide) hal1
    (listEnd_stop (by decide) (by decide) (by decide) (by decide)) (by omega)
  have h2 := follow_c (rest := rest) (f := f') ih2 (by decide) hal2
    (listEnd_stop (by decide) (by decide) (by decide) (by decide)) (by omega)
  simp only [List.append_assoc, List.cons_append, List.nil_append] at h1 h2 ⊢
  rcases hkw with rfl | rfl <;> (simp [command]; rw [h1]; simpa [R.bind] using h2)

theorem comp_forc {c : Cfg} {q hd close e body} (hfh : ForHead c hd close)
    (ihl : Comp c (.list q [close] true) e body) (hal : allows q e (some close) = true) :
    Comp c (.compound q) .closed (kFor :: hd ++ body ++ [close]) := by
  intro f rest neg hf
  simp only [List.length_append, List.length_cons, List.length_nil] at hf
  obtain ⟨f', rfl⟩ : ∃ f', f = f' + 1 + 1 := ⟨f - 2, by omega⟩
  have hcl := forHead_close hfh
  have h1 := forHead_complete hfh (body ++ close :: rest)
  have h2 := follow_c (rest := rest) (f := f') ihl
    (by rcases hcl with rfl | rfl <;> decide) hal
    (listEnd_stop (by simp) (by rcases hcl with rfl | rfl <;> decide)
      (by rcases hcl with rfl | rfl <;> decide) (by rcases hcl with rfl | rfl <;> decide)) (by omega)
  simp only [List.append_assoc, List.cons_append, List.nil_append] at h1 h2 ⊢
  simp [command, h1, h2]

theorem comp_casec {c : Cfg} {q w k j e items} (hw : wordLike w = true)
    (hdi : Derives c .caseItems e items) (ihi : Comp c .caseItems e items) :
    Comp c (.compound q) .closed (kCase :: w :: nls k ++ kIn :: nls j ++ items) := by
  intro f rest neg hf
  simp only [List.length_append, List.length_cons, nls_length] at hf
  obtain ⟨f', rfl⟩ : ∃ f', f = f' + 1 := ⟨f - 1, by omega⟩
  obtain ⟨t0, r0, rfl, ht0⟩ := first_of_derives hdi
  simp only [List.length_cons] at hf
  have h1 := caseHead_complete hw k j ((t0 :: r0) ++ rest) (by simpa using ht0)
  have h2 := ihi f' rest (by simp; omega)
  simp only [List.append_assoc, List.cons_append] at h1 h2 ⊢
  simp [command, h1, h2]

theorem comp_ci_esac {c : Cfg} : Comp c .caseItems .closed [kEsac] := by
  intro f rest hf
  obtain ⟨f', rfl⟩ : ∃ f', f = f' + 1 := ⟨f - 1, by omega⟩
  simp [caseItems]

/-- The pattern part of a case item as `caseItems` reads it. -/
theorem case_pats {lp pat X : List Tok} (hlp : lp = [] ∨ lp = [lparen]) (hpat : Pats pat)
    (hes : lp = [] → pat.head? ≠ some kEsac) :
    ∃ t r, lp ++ pat ++ X = t :: r ∧ t ≠ kEsac ∧
      patterns (if t = lparen then r else t :: r) = some X := by
  have hp := patterns_complete hpat X
  have hpw : ∃ w r, pat = w :: r ∧ wordLike w = true := by
    cases hpat with
    | one hw => exact ⟨_, _, rfl, hw⟩
    | more hw _ => exact ⟨_, _, rfl, hw⟩
  obtain ⟨w, r, rfl, hw⟩ := hpw
  rcases hlp with rfl | rfl
  · have hnl : w ≠ lparen := by rintro rfl; simp [wordLike, isLitWord] at hw
    exact ⟨w, r ++ X, rfl, by simpa using hes rfl, by simpa [hnl] using hp⟩
  · exact ⟨lparen, (w :: r) ++ X, rfl, by decide, by simpa using hp⟩

theorem caseItems_step {c : Cfg} {f : Nat} {t : Tok} {r r1 : List Tok} {a : Bool} {r2 : List Tok}
    (ht : t ≠ kEsac) (hp : patterns (if t = lparen then r else t :: r) = some r1)
    (hs : stmts c .case [kEsac] f true false r1 = .ok (a, r2)) :
    (∀ r3, r2 = dsemi :: r3 → caseItems c (f+1) (t :: r) = caseItems c f (skipNL r3)) ∧
    (∀ r3, r2 = kEsac :: r3 → caseItems c (f+1) (t :: r) = .ok r3) := by
  have hunf : caseItems c (f+1) (t :: r) =
      (match patterns (if t = lparen then r else t :: r) with
      | none => R.err
      | some r1 =>
        match stmts c .case [kEsac] f true false r1 with
        | .ok (_, dsemi :: r2) => caseItems c f (skipNL r2)
        | .ok (_, r2) => expect kEsac r2
        | .err => .err
        | .oof => .oof) := by
    cases t <;> first | rfl | exact absurd rfl ht
  constructor
  · intro r3 h3; subst h3; rw [hunf, hp]; simp only [hs]
  · intro r3 h3; subst h3; rw [hunf, hp]; simp only [hs]; simp [expect]

theorem comp_ci_last {c : Cfg} {lp pat a e l} (hlp : lp = [] ∨ lp = [lparen]) (hpat : Pats pat)
    (hes : lp = [] → pat.head? ≠ some kEsac)
    (ihl : Comp c (.list .case [kEsac] a) e l) (hal : allows .case e (some kEsac) = true) :
    Comp c .caseItems .closed (lp ++ pat ++ l ++ [kEsac]) := by
  intro f rest hf
  simp only [List.length_append, List.length_cons, List.length_nil] at hf
  obtain ⟨f', rfl⟩ : ∃ f', f = f' + 1 := ⟨f - 1, by omega⟩
  obtain ⟨t, r, htr, hte, hp⟩ := case_pats (X := l ++ kEsac :: rest) hlp hpat hes
  have hs := ihl f' (kEsac :: rest) true false (by decide) (by simpa using hal)
    (listEnd_stop (by decide) (by decide) (by decide) (by decide)) (by omega) (by simp)
  have := (caseItems_step hte hp hs).2 rest rfl
  have heq : lp ++ pat ++ l ++ [kEsac] ++ rest = t :: r := by rw [← htr]; simp
  rw [heq]; exact this

theorem comp_ci_item {c : Cfg} {lp pat a e l k e' rest'} (hlp : lp = [] ∨ lp = [lparen])
    (hpat : Pats pat) (hes : lp = [] → pat.head? ≠ some kEsac)
    (ihl : Comp c (.list .case [kEsac] a) e l) (hal : allows .case e (some dsemi) = true)
    (hdr : Derives c .caseItems e' rest') (ihr : Comp c .caseItems e' rest') :
    Comp c .caseItems .closed (lp ++ pat ++ l ++ dsemi :: nls k ++ rest') := by
  intro f rest hf
  simp only [List.length_append, List.length_cons, nls_length] at hf
  obtain ⟨f', rfl⟩ : ∃ f', f = f' + 1 := ⟨f - 1, by omega⟩
  obtain ⟨t0, r0, rfl, ht0⟩ := first_of_derives hdr
  simp only [List.length_cons] at hf
  obtain ⟨t, r, htr, hte, hp⟩ := case_pats (X := l ++ dsemi :: (nls k ++ (t0 :: r0) ++ rest)) hlp hpat hes
  have hs := ihl f' (dsemi :: (nls k ++ (t0 :: r0) ++ rest)) true false (by decide)
    (by simpa using hal)
    (.inr ⟨dsemi, _, rfl, by decide, by decide, by decide, .inr (.inr ⟨rfl, rfl⟩)⟩) (by omega) (by simp)
  have h1 := (caseItems_step hte hp hs).1 _ rfl
  have hsk : skipNL (nls k ++ (t0 :: r0) ++ rest) = (t0 :: r0) ++ rest := by
    simpa using skipNL_nls_cons (k := k) (r := r0 ++ rest) ht0
  have heq : lp ++ pat ++ l ++ dsemi :: nls k ++ (t0 :: r0) ++ rest = t :: r := by rw [← htr]; simp
  rw [heq, h1, hsk]
  exact ihr f' rest (by simp; omega)

theorem complete_all {c : Cfg} {nt e ts} (h : Derives c nt e ts) : Comp c nt e ts := by
  induction h with
  | program _ _ => trivial
  | l_nil => exact comp_l_nil
  | l_nl _ ih => exact comp_l_nl ih
  | l_last hd hs ih => exact comp_l_last hd hs ih
  | l_sep hd hs hsep hal _ ihs ihl => exact comp_l_sep hd hs hsep hal ihs ihl
  | l_newl hd hs hal _ ihs ihl => exact comp_l_newl hd hs hal ihs ihl
  | stmt _ _ ihp iht => exact comp_stmt ihp iht
  | t_nil => exact comp_t_nil
  | t_op hop hal hdp _ ihp iht => exact comp_t_op hop hal hdp ihp iht
  | b_plain hd ih => exact comp_b_plain hd ih
  | b_bang hba hd hnb ih => exact comp_b_bang hba hd hnb ih
  | b_bangs hba hd hnb ih => exact comp_b_bangs hba hd hnb ih
  | b_bare hba => exact comp_b_bare hba
  | pipeline _ _ ihc iht => exact comp_pipeline ihc iht
  | p_nil => exact comp_p_nil
  | p_pipe hal hdc _ ihc iht => exact comp_p_pipe hal hdc ihc iht
  | c_simple hpr hf hi => exact comp_c_simple hpr hf hi
  | c_redir hw hr => exact comp_c_redir hw hr
  | c_compound hdb hpost ihb => exact comp_c_compound hdb ihb hpost
  | f_andor hfb hn hd ih => exact comp_f_andor hfb hn hd ih
  | f_command hfb hn hd ih => exact comp_f_command hfb hn hd ih
  | f_compound hfb hn hd hsc ih => exact comp_f_compound hfb hn hd hsc ih
  | block _ hal ihl => exact comp_block ihl hal
  | subshell _ hal ihl => exact comp_subshell ihl hal
  | ifc _ hal1 _ hdt ih1 ih2 iht => exact comp_ifc ih1 hal1 ih2 hdt iht
  | i_fi _ => exact comp_i_fi
  | i_else _ _ hal ihl => exact comp_i_else ihl hal
  | i_elif _ _ hal1 _ hdt ih1 ih2 iht => exact comp_i_elif ih1 hal1 ih2 hdt iht
  | loop hkw _ hal1 _ hal2 ih1 ih2 => exact comp_loop hkw ih1 hal1 ih2 hal2
  | forc hfh _ hal ihl => exact comp_forc hfh ihl hal
  | casec hw hdi ihi => exact comp_casec hw hdi ihi
  | ci_esac => exact comp_ci_esac
  | ci_last hlp hpat hes _ hal ihl => exact comp_ci_last hlp hpat hes ihl hal
  | ci_item hlp hpat hes _ hal hdr ihl ihr => exact comp_ci_item hlp hpat hes ihl hal hdr ihr

theorem parseWith_complete {c : Cfg} {ts : List Tok} {f : Nat} (hf : 8 * ts.length + 5 ≤ f)
    (h : Derives c .program .closed ts) : parseWith c f ts = true := by
  cases h with
  | @program a e _ hl =>
    have := complete_all hl f [] true false (by simp [stopsOK])
      (by cases e <;> rfl) (.inl rfl) hf (by simp)
    simp only [List.append_nil] at this
    simp [parseWith, this]

theorem parse_complete {c : Cfg} {ts : List Tok} (h : Derives c .program .closed ts) :
    parse c ts = true := parseWith_complete (by simp [fuelFor]) h

end ShVerif.C12
