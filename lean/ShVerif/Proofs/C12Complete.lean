import ShVerif.Proofs.C12
/-
  C12 — Part 3: completeness.  Every derivation of the grammar is followed by the model parser,
  with an explicit fuel bound (8 units per token plus a constant), by induction on the derivation.
-/
namespace ShVerif.C12
open Tok

/-- First tokens: a command never starts with an operator other than `(`; after no redirection it
    does not start with a closing reserved word either. -/
def isStart0 : Tok → Bool
  | word | qword | assign | io | bang | kElse | kIn | lbrace | lparen | kIf | kWhile | kUntil | kFor
  | kCase => true
  | _ => false

theorem firstOK_start0 {c : Cfg} {neg : Bool} {t : Tok} (h : firstOK c neg false t = true) :
    isStart0 t = true := by
  cases t <;> simp_all [firstOK, isStart0, isRsrv]

theorem fnNameOK_start0 {c : Cfg} {neg : Bool} {t : Tok} (h : fnNameOK c neg t = true) :
    isStart0 t = true := by
  cases t <;> simp_all [fnNameOK, isStart0]

theorem firstOK_not_bang {c : Cfg} {t : Tok} (h : firstOK c false false t = true) : t ≠ bang := by
  rintro rfl; simp [firstOK] at h

theorem fnNameOK_not_bang {c : Cfg} {t : Tok} (h : fnNameOK c false t = true) : t ≠ bang := by
  rintro rfl; simp [fnNameOK] at h

theorem first_of_derives {c : Cfg} {nt e ts} (h : Derives c nt e ts) :
    match nt with
    | .stmt _ | .bpipe _ => ∃ t r, ts = t :: r ∧ isStart0 t = true
    | .compound _ => ∃ t r, ts = t :: r ∧ isCompoundStart t = true
    | .pipeline _ neg | .command _ neg =>
      ∃ t r, ts = t :: r ∧ isStart0 t = true ∧ (neg = false → t ≠ bang)
    | .caseItems => ∃ t r, ts = t :: r ∧ t ≠ nl
    | _ => True := by
  induction h <;> try trivial
  case stmt ih _ => obtain ⟨t, r, rfl, ht⟩ := ih; exact ⟨t, _, rfl, ht⟩
  case b_plain ih => obtain ⟨t, r, rfl, ht, _⟩ := ih; exact ⟨t, _, rfl, ht⟩
  case b_bang => exact ⟨bang, _, rfl, rfl⟩
  case b_bangs => exact ⟨bang, _, rfl, rfl⟩
  case b_bare => exact ⟨bang, _, rfl, rfl⟩
  case pipeline ih _ => obtain ⟨t, r, rfl, ht⟩ := ih; exact ⟨t, _, rfl, ht⟩
  case c_simple pre t its hpre hf _ =>
    cases hpre with
    | nil =>
      refine ⟨t, _, rfl, firstOK_start0 (by simpa using hf), ?_⟩
      rintro rfl; exact firstOK_not_bang (by simpa using hf)
    | cons _ _ => exact ⟨io, _, rfl, rfl, fun _ => by decide⟩
  case c_redir => exact ⟨io, _, rfl, rfl, fun _ => by decide⟩
  case c_compound ih =>
    obtain ⟨t, r, rfl, ht⟩ := ih
    refine ⟨t, _, rfl, ?_, fun _ => ?_⟩
    · cases t <;> simp_all [isCompoundStart, isStart0]
    · rintro rfl; simp [isCompoundStart] at ht
  case f_andor hn _ _ =>
    exact ⟨_, _, rfl, fnNameOK_start0 hn, by rintro rfl; exact fnNameOK_not_bang hn⟩
  case f_command hn _ _ =>
    exact ⟨_, _, rfl, fnNameOK_start0 hn, by rintro rfl; exact fnNameOK_not_bang hn⟩
  case f_compound hn _ _ _ =>
    exact ⟨_, _, rfl, fnNameOK_start0 hn, by rintro rfl; exact fnNameOK_not_bang hn⟩
  case block => exact ⟨lbrace, _, rfl, rfl⟩
  case subshell => exact ⟨lparen, _, rfl, rfl⟩
  case ifc => exact ⟨kIf, _, rfl, rfl⟩
  case loop hk _ _ _ _ _ _ => rcases hk with rfl | rfl <;> exact ⟨_, _, rfl, rfl⟩
  case forc => exact ⟨kFor, _, rfl, rfl⟩
  case casec => exact ⟨kCase, _, rfl, rfl⟩
  case ci_esac => exact ⟨kEsac, _, rfl, by decide⟩
  case ci_last hlp hpat _ _ _ _ =>
    rcases hlp with rfl | rfl
    · cases hpat with
      | one hw => exact ⟨_, _, rfl, by rintro rfl; simp [wordLike, isLitWord] at hw⟩
      | more hw _ => exact ⟨_, _, rfl, by rintro rfl; simp [wordLike, isLitWord] at hw⟩
    · exact ⟨lparen, _, rfl, by decide⟩
  case ci_item hlp hpat _ _ _ _ _ _ =>
    rcases hlp with rfl | rfl
    · cases hpat with
      | one hw => exact ⟨_, _, rfl, by rintro rfl; simp [wordLike, isLitWord] at hw⟩
      | more hw _ => exact ⟨_, _, rfl, by rintro rfl; simp [wordLike, isLitWord] at hw⟩
    · exact ⟨lparen, _, rfl, by decide⟩

/-- What `getStmt` / `andOrTail` return when the and-or list is over. -/
def readEndRes (readEnd : Bool) : List Tok → Bool × List Tok
  | semi :: r => if readEnd then (true, r) else (false, semi :: r)
  | amp :: r => if readEnd then (true, r) else (false, amp :: r)
  | rest => (false, rest)

theorem andOrTail_stop {c : Cfg} {q : Q} {readEnd binCmd : Bool} {f : Nat} {rest : List Tok}
    (h : notCont rest.head? = true) :
    andOrTail c q readEnd binCmd (f+1) rest = .ok (readEndRes readEnd rest) := by
  cases rest with
  | nil => rfl
  | cons t r => cases t <;> first | rfl | (cases readEnd <;> rfl) | simp [notCont] at h

theorem andOrTail_bin {c : Cfg} {q : Q} {f : Nat} (ts : List Tok) :
    andOrTail c q false true (f+1) ts = .ok (false, ts) := by
  cases ts with
  | nil => rfl
  | cons t r => cases t <;> rfl

theorem pipeTail_bin {c : Cfg} {q : Q} {f : Nat} (ts : List Tok) :
    pipeTail c q true (f+1) ts = .ok ts := by
  cases ts with
  | nil => rfl
  | cons t r => cases t <;> rfl

theorem pipeTail_stop {c : Cfg} {q : Q} {binCmd : Bool} {f : Nat} {rest : List Tok}
    (h : rest.head? ≠ some pipe) : pipeTail c q binCmd (f+1) rest = .ok rest := by
  cases rest with
  | nil => rfl
  | cons t r => cases t <;> first | rfl | simp at h

/-- Where `stmts` leaves its loop. -/
def ListEnd (q : Q) (stops : List Tok) (rest : List Tok) : Prop :=
  rest = [] ∨ ∃ t r, rest = t :: r ∧ t ≠ nl ∧ t ≠ semi ∧ t ≠ amp ∧
    (stops.contains t = true ∨ (t = rparen ∧ q = .sub) ∨ (t = dsemi ∧ q = .case))

theorem stmts_stop {c : Cfg} {q : Q} {stops : List Tok} {f : Nat} {gotEnd any : Bool}
    {rest : List Tok} (h : ListEnd q stops rest) :
    stmts c q stops (f+1) gotEnd any rest = .ok (any, rest) := by
  rcases h with rfl | ⟨t, r, rfl, hnl, _, _, hs⟩
  · rfl
  · have hsk : skipNL (t :: r) = t :: r := skipNL_of_head (by simpa using hnl)
    simp only [stmts, hsk]
    rcases hs with hs | ⟨rfl, rfl⟩ | ⟨rfl, rfl⟩
    · have hs' : t ∈ stops := by simpa using hs
      simp [hs']
    · by_cases hc : rparen ∈ stops <;> simp [hc]
    · by_cases hc : dsemi ∈ stops <;> simp [hc]

theorem stmts_nl {c : Cfg} {q : Q} {stops : List Tok} {f : Nat} {gotEnd any : Bool} (X : List Tok) :
    stmts c q stops f gotEnd any (nl :: X) = stmts c q stops f true any X := by
  cases f with
  | zero => rfl
  | succ f =>
    cases X with
    | nil => simp [stmts, skipNL]
    | cons t0 r0 =>
      simp only [stmts, skipNL]
      cases skipNL (t0 :: r0) with
      | nil => rfl
      | cons t r => simp

/-- What completeness says for each non-terminal: the parser function(s) that read it succeed on
    `pre ++ rest`, leaving `rest`, provided `rest` may follow and the fuel is at least
    `8 * pre.length + constant`. -/
def Comp (c : Cfg) : NT → End → List Tok → Prop
  | .program, _, _ => True
  | .list q stops a, e, pre => ∀ f rest gotEnd any, allows q e rest.head? = true →
      ListEnd q stops rest → 8 * pre.length + 5 ≤ f →
      (gotEnd = false → pre = [] ∨ pre.head? = some nl) →
      stmts c q stops f gotEnd any (pre ++ rest) = .ok (any || a, rest)
  | .stmt q, e, pre => ∀ f rest readEnd, allows q e rest.head? = true → notCont rest.head? = true →
      8 * pre.length + 4 ≤ f →
      getStmt c q readEnd false f (pre ++ rest) = .ok (readEndRes readEnd rest)
  | .bpipe q, e, pre => ∀ f rest readEnd binCmd, allows q e rest.head? = true →
      rest.head? ≠ some pipe → 8 * pre.length + 4 ≤ f →
      getStmt c q readEnd binCmd f (pre ++ rest) = andOrTail c q readEnd binCmd (f-1) rest
  | .aoTail q e0, e, pre =>
      (∀ rest, allows q e rest.head? = true → notCont rest.head? = true →
        allows q e0 (pre ++ rest).head? = true ∧ (pre ++ rest).head? ≠ some pipe) ∧
      (∀ f rest readEnd, allows q e rest.head? = true → notCont rest.head? = true →
        8 * pre.length + 1 ≤ f →
        andOrTail c q readEnd false f (pre ++ rest) = .ok (readEndRes readEnd rest))
  | .pipeline q neg, e, pre => ∀ f rest, allows q e rest.head? = true → rest.head? ≠ some pipe →
      8 * pre.length + 3 ≤ f → pipeline c q neg false f (pre ++ rest) = .ok rest
  | .pipeTail q e0, e, pre =>
      (∀ rest, allows q e rest.head? = true → allows q e0 (pre ++ rest).head? = true) ∧
      (∀ f rest, allows q e rest.head? = true → rest.head? ≠ some pipe → 8 * pre.length + 1 ≤ f →
        pipeTail c q false f (pre ++ rest) = .ok rest)
  | .command q neg, e, pre => ∀ f rest binCmd, allows q e rest.head? = true →
      8 * pre.length + 3 ≤ f →
      pipeline c q neg binCmd f (pre ++ rest) = pipeTail c q binCmd (f-1) rest
  | .compound q, _, pre => ∀ f rest neg, 8 * pre.length + 2 ≤ f →
      command c q neg false f (pre ++ rest) = .ok rest
  | .ifTail q _, _, pre => ∀ f rest, 8 * pre.length + 1 ≤ f → ifTail c q f (pre ++ rest) = .ok rest
  | .caseItems, _, pre => ∀ f rest, 8 * pre.length + 1 ≤ f → caseItems c f (pre ++ rest) = .ok rest

theorem nls_length (k : Nat) : (nls k).length = k := by simp [nls]
theorem bangs_length (k : Nat) : (bangs k).length = k := by simp [bangs]

theorem startOK_head {stops : List Tok} {t : Tok} {r : List Tok} (h : startOK stops (t :: r)) :
    stops.contains t = false := h

/-- One loop iteration of `stmts` on a statement start. -/
theorem stmts_step {c : Cfg} {q : Q} {stops : List Tok} {f : Nat} {gotEnd any : Bool} {t : Tok}
    {r : List Tok} {sm : Bool} {r' : List Tok}
    (hs : isStart0 t = true) (hst : stops.contains t = false) (hg : gotEnd = true)
    (hget : getStmt c q true false f (t :: r) = .ok (sm, r')) :
    stmts c q stops (f+1) gotEnd any (t :: r) = stmts c q stops f sm true r' := by
  have hnl : t ≠ nl := by rintro rfl; simp [isStart0] at hs
  have hsk : skipNL (t :: r) = t :: r := skipNL_of_head (by simpa using hnl)
  have hmem : ¬ t ∈ stops := by simpa using hst
  subst hg
  simp only [stmts, hsk]
  have h1 : t ≠ rbrace := by rintro rfl; simp [isStart0] at hs
  have h2 : t ≠ rparen := by rintro rfl; simp [isStart0] at hs
  have h3 : t ≠ dsemi := by rintro rfl; simp [isStart0] at hs
  simp [hmem, h1, h2, h3, hget]

end ShVerif.C12
