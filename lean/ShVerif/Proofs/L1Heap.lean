import ShVerif.Model.L1Heap
/-
  L1 — frame lemmas for the GoSlice heap.

  *Frame*: an operation that allocates, and writes in place only through slices that are `Owned n`
  (no storage, or storage allocated at or after `n`), leaves the first `n` arrays untouched
  (`ListFr n h h'`) and returns slices that are again `Owned n`.
-/
namespace ShVerif.L1

variable {α : Type}

theorem ListFr.refl {n : Nat} {l : List α} (h : n ≤ l.length) : ListFr n l l := ⟨h, rfl⟩

theorem ListFr.trans {n : Nat} {a b c : List α} (h1 : ListFr n a b) (h2 : ListFr n b c) : ListFr n a c :=
  ⟨h2.1, h2.2.trans h1.2⟩

theorem listFr_append {n : Nat} (l ext : List α) (h : n ≤ l.length) : ListFr n l (l ++ ext) :=
  ⟨by rw [List.length_append]; omega, List.take_append_of_le_length h⟩

theorem listFr_set {n id : Nat} (l : List α) (x : α) (h : n ≤ l.length) (hid : n ≤ id) :
    ListFr n l (l.set id x) :=
  ⟨by rw [List.length_set]; exact h, List.take_set_of_le hid⟩

/-- What a frame gives the observer: every old object is still there, unchanged. -/
theorem ListFr.getElem? {n i : Nat} {l l' : List α} (h : ListFr n l l') (hi : i < n) : l'[i]? = l[i]? := by
  have := congrArg (fun x => x[i]?) h.2
  simpa [List.getElem?_take, hi] using this

theorem updArr_fr {n id : Nat} (h : ArrHeap α) (f : List α → List α) (hn : n ≤ h.length) (hid : n ≤ id) :
    ListFr n h (updArr h id f) := listFr_set h _ hn hid

theorem updMap_fr {κ ν : Type} {n id : Nat} (h : MapHeap κ ν) (f) (hn : n ≤ h.length) (hid : n ≤ id) :
    ListFr n h (updMap h id f) := listFr_set h _ hn hid

theorem Owned.nil (n : Nat) : Owned n Slice.nil := Or.inl ⟨rfl, rfl⟩
theorem Owned.empty (n : Nat) : Owned n Slice.empty := Or.inl ⟨rfl, rfl⟩

theorem sliceSet_fr {n : Nat} {h h' : ArrHeap α} {s : Slice} {i : Nat} {v : α}
    (hn : n ≤ h.length) (ho : Owned n s) (e : sliceSet h s i v = some h') : ListFr n h h' := by
  unfold sliceSet at e
  split at e
  · next hi =>
    cases e
    rcases ho with ⟨h0, _⟩ | ho
    · omega
    · exact updArr_fr h _ hn ho
  · cases e

theorem sliceAppend_fr [Inhabited α] {n : Nat} (g : Grow) (h : ArrHeap α) (s : Slice) (v : α)
    (hn : n ≤ h.length) (ho : Owned n s) :
    ListFr n h (sliceAppend g h s v).1 ∧ Owned n (sliceAppend g h s v).2 := by
  unfold sliceAppend
  split
  · next hl =>
    rcases ho with ⟨_, h0⟩ | ho
    · omega
    · dsimp only
      exact ⟨updArr_fr h _ hn ho, Or.inr ho⟩
  · exact ⟨listFr_append h _ hn, Or.inr hn⟩

theorem sliceAppendList_fr [Inhabited α] {n : Nat} (g : Grow) (vs : List α) :
    ∀ (h : ArrHeap α) (s : Slice), n ≤ h.length → Owned n s →
    ListFr n h (sliceAppendList g h s vs).1 ∧ Owned n (sliceAppendList g h s vs).2 := by
  induction vs with
  | nil => intro h s hn ho; exact ⟨ListFr.refl hn, ho⟩
  | cons v vs ih =>
    intro h s hn ho
    have h1 := sliceAppend_fr g h s v hn ho
    have h2 := ih (sliceAppend g h s v).1 (sliceAppend g h s v).2 h1.1.1 h1.2
    exact ⟨h1.1.trans h2.1, h2.2⟩

theorem sliceAppendMany_fr [Inhabited α] {n : Nat} (g : Grow) (h : ArrHeap α) (s : Slice) (vs : List α)
    (hn : n ≤ h.length) (ho : Owned n s) :
    ListFr n h (sliceAppendMany g h s vs).1 ∧ Owned n (sliceAppendMany g h s vs).2 := by
  unfold sliceAppendMany
  split
  · exact ⟨ListFr.refl hn, ho⟩
  · next hne =>
    split
    · next hl =>
      have : vs.length ≠ 0 := by
        intro h0; apply hne; simp [List.length_eq_zero_iff.mp h0]
      rcases ho with ⟨_, h0⟩ | ho
      · omega
      · dsimp only
        exact ⟨updArr_fr h _ hn ho, Or.inr ho⟩
    · exact ⟨listFr_append h _ hn, Or.inr hn⟩

theorem sliceMake_fr [Inhabited α] {n : Nat} (h : ArrHeap α) (cs : List α) (cap : Nat) (hn : n ≤ h.length) :
    ListFr n h (sliceMake h cs cap).1 ∧ Owned n (sliceMake h cs cap).2 := by
  unfold sliceMake
  simp only
  split
  · next hc => exact ⟨ListFr.refl hn, Owned.empty n⟩
  · exact ⟨listFr_append h _ hn, Or.inr hn⟩

theorem sliceClone_fr [Inhabited α] {n : Nat} (g : Grow) (h : ArrHeap α) (s : Slice) (hn : n ≤ h.length) :
    ListFr n h (sliceClone g h s).1 ∧ Owned n (sliceClone g h s).2 := by
  unfold sliceClone
  split
  · exact ⟨ListFr.refl hn, Owned.nil n⟩
  · split
    · exact ⟨ListFr.refl hn, Owned.empty n⟩
    · exact ⟨listFr_append h _ hn, Or.inr hn⟩

theorem sliceInsert_fr [Inhabited α] {n : Nat} {g : Grow} {h h' : ArrHeap α} {s s' : Slice} {i : Nat} {v : α}
    (hn : n ≤ h.length) (ho : Owned n s) (e : sliceInsert g h s i v = some (h', s')) :
    ListFr n h h' ∧ Owned n s' := by
  unfold sliceInsert at e
  split at e
  · cases e
  · split at e
    · have r := sliceAppend_fr g h s v hn ho
      rw [Option.some.inj e] at r
      exact r
    · simp only at e
      split at e
      · cases e; exact ⟨listFr_append h _ hn, Or.inr hn⟩
      · next hc =>
        cases e
        rcases ho with ⟨_, h0⟩ | ho
        · omega
        · exact ⟨updArr_fr h _ hn ho, Or.inr ho⟩

theorem sliceDelete_fr [Inhabited α] {n : Nat} {h h' : ArrHeap α} {s s' : Slice} {i j : Nat}
    (hn : n ≤ h.length) (ho : Owned n s) (e : sliceDelete h s i j = some (h', s')) :
    ListFr n h h' ∧ Owned n s' := by
  unfold sliceDelete at e
  split at e
  · cases e
  · next hb =>
    split at e
    · cases e; exact ⟨ListFr.refl hn, ho⟩
    · next hij =>
      simp only at e
      cases e
      rcases ho with ⟨h0, _⟩ | ho
      · omega
      · exact ⟨updArr_fr h _ hn ho, Or.inr ho⟩

theorem sliceTo_owned {n : Nat} {s s' : Slice} {k : Nat} (ho : Owned n s) (e : sliceTo s k = some s') :
    Owned n s' := by
  unfold sliceTo at e
  split at e
  · next hk =>
    cases e
    rcases ho with ⟨_, h0⟩ | ho
    · left; simp only; omega
    · exact Or.inr ho
  · cases e

theorem mapClone_fr {κ ν : Type} {n : Nat} (h : MapHeap κ ν) (m : Option Nat) (hn : n ≤ h.length) :
    ListFr n h (mapClone h m).1 ∧ ∀ id, (mapClone h m).2 = some id → n ≤ id := by
  cases m with
  | none => exact ⟨ListFr.refl hn, by intro id e; cases e⟩
  | some id0 => exact ⟨listFr_append h _ hn, by intro id e; cases e; exact hn⟩

theorem mapAlloc_fr {κ ν : Type} {n : Nat} (h : MapHeap κ ν) (m : List (κ × ν)) (hn : n ≤ h.length) :
    ListFr n h (mapAlloc h m).1 ∧ n ≤ (mapAlloc h m).2 :=
  ⟨listFr_append h _ hn, hn⟩

/-- Reading through a slice that lies below the bound gives the same cells after a frame. -/
theorem cells_fr {n : Nat} {h h' : ArrHeap α} (s : Slice) (fr : ListFr n h h') (hs : s.len = 0 ∨ s.arr < n) :
    cells h' s = cells h s := by
  rcases hs with h0 | hlt
  · simp [cells, h0]
  · simp [cells, arrOf, fr.getElem? hlt]

theorem mapOf_fr {κ ν : Type} {n id : Nat} {h h' : MapHeap κ ν} (fr : ListFr n h h') (hid : id < n) :
    mapOf h' id = mapOf h id := by
  simp [mapOf, fr.getElem? hid]

end ShVerif.L1
