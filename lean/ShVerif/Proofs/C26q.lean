import ShVerif.Model.C26
/-
  C26 — fuel monotonicity of the model (`run`).  Core Lean only.
-/
namespace ShVerif.C26
open ShVerif.L5

def MonoF (f g : Stmt → St → Option St) : Prop := ∀ st s r, f st s = some r → g st s = some r

theorem foldStmts_mono {f g : Stmt → St → Option St} (hfg : MonoF f g) :
    ∀ (p : Prog) (s r : St), foldStmts f p s = some r → foldStmts g p s = some r
  | .nil, s, r, h => by simpa [foldStmts] using h
  | .cons st rest, s, r, h => by
    rw [foldStmts] at h ⊢
    cases hr : f st s with
    | none => rw [hr] at h; cases h
    | some s1 =>
      rw [hr] at h
      rw [hfg st s s1 hr]
      exact foldStmts_mono hfg rest s1 r h

theorem foldBody_mono {f g : Stmt → St → Option St} (hfg : MonoF f g) :
    ∀ (p : Prog) (s : St) (r : St × Bool), foldBody f p s = some r → foldBody g p s = some r
  | .nil, s, r, h => by simpa [foldBody] using h
  | .cons st rest, s, r, h => by
    rw [foldBody] at h ⊢
    cases hr : f st s with
    | none => rw [hr] at h; cases h
    | some s1 =>
      rw [hr] at h
      rw [hfg st s s1 hr]
      try simp only at h ⊢
      split
      · rename_i hc; rw [if_pos hc] at h; exact h
      · rename_i hc
        rw [if_neg hc] at h
        split
        · rename_i hb; rw [if_pos hb] at h; exact h
        · rename_i hb; rw [if_neg hb] at h; exact foldBody_mono hfg rest s1 r h

theorem loopStmtsBroken_mono {f g : Stmt → St → Option St} (hfg : MonoF f g) (b : Prog) (s : St)
    (r : St × Bool) (h : loopStmtsBroken f b s = some r) : loopStmtsBroken g b s = some r := by
  unfold loopStmtsBroken at h ⊢
  cases hr : foldBody f b { s with inLoop := true } with
  | none => rw [hr] at h; cases h
  | some r1 =>
    rw [hr] at h
    rw [foldBody_mono hfg b _ r1 hr]
    exact h

theorem forLoop_mono {f g : Stmt → St → Option St} (hfg : MonoF f g) (x : Str) (b : Prog) :
    ∀ (items : List Str) (s r : St), forLoop f x b items s = some r → forLoop g x b items s = some r
  | [], s, r, h => by simpa [forLoop] using h
  | it :: rest, s, r, h => by
    rw [forLoop] at h ⊢
    by_cases hst : stop s = true
    · rw [if_pos hst] at h ⊢; exact h
    rw [if_neg hst] at h ⊢
    cases hr : loopStmtsBroken f b { s with vars := (x, it) :: s.vars } with
    | none => rw [hr] at h; cases h
    | some r1 =>
      rw [hr] at h
      rw [loopStmtsBroken_mono hfg b _ r1 hr]
      obtain ⟨s1, br⟩ := r1
      try simp only at h ⊢
      cases br with
      | true => exact h
      | false => simp only [Bool.false_eq_true, ↓reduceIte] at h ⊢; exact forLoop_mono hfg x b rest s1 r h

theorem caseLoop_mono {f g : Stmt → St → Option St} (hfg : MonoF f g) (str : Str) :
    ∀ (items : Items) (rn : Bool) (s r : St),
      caseLoop f str rn items s = some r → caseLoop g str rn items s = some r
  | .nil, rn, s, r, h => by simpa [caseLoop] using h
  | .cons pats body op rest, rn, s, r, h => by
    rw [caseLoop] at h ⊢
    split
    · rename_i hc; rw [if_pos hc] at h; exact caseLoop_mono hfg str rest rn s r h
    · rename_i hc
      rw [if_neg hc] at h
      cases hr : foldStmts f body s with
      | none => rw [hr] at h; cases h
      | some s1 =>
        rw [hr] at h
        rw [foldStmts_mono hfg body s s1 hr]
        cases op with
        | brk => exact h
        | fall => exact caseLoop_mono hfg str rest true s1 r h
        | resume => exact caseLoop_mono hfg str rest false s1 r h

/-- More fuel does not change a result. -/
theorem run_mono : ∀ (n : Nat) (t : Task) (s r : St), run n t s = some r → run (n+1) t s = some r
  | 0, t, s, r, h => by simp [run] at h
  | n + 1, t, s, r, h => by
    have ih := run_mono n
    have hm : MonoF (fun st => run n (.stmt st)) (fun st => run (n+1) (.stmt st)) :=
      fun st s r h => ih _ _ _ h
    cases t with
    | stmt st =>
      obtain ⟨neg, c⟩ := st
      rw [run] at h ⊢
      split
      · rename_i hs; rw [if_pos hs] at h; exact h
      · rename_i hs
        rw [if_neg hs] at h
        cases hr : run n (.cmd c) { s with exit := {} } with
        | none => rw [hr] at h; cases h
        | some s1 =>
          rw [hr] at h
          rw [ih _ _ _ hr]
          try simp only at h ⊢
          split
          · rename_i hn; rw [if_pos hn] at h; exact h
          · rename_i hn
            rw [if_neg hn] at h
            split
            · rename_i ha; rw [if_pos ha] at h; exact h
            · rename_i ha
              rw [if_neg ha] at h
              split
              · rename_i hc
                rw [if_pos hc] at h
                cases hr2 : run n (.trap s1.callbackErr) s1 with
                | none => rw [hr2] at h; cases h
                | some s2 =>
                  rw [hr2] at h
                  rw [ih _ _ _ hr2]
                  exact h
              · rename_i hc; rw [if_neg hc] at h; exact h
    | trap body =>
      rw [run] at h ⊢
      split
      · rename_i hb; rw [if_pos hb] at h; exact h
      · rename_i hb
        rw [if_neg hb] at h
        split
        · rename_i ht; rw [if_pos ht] at h; exact h
        · rename_i ht
          rw [if_neg ht] at h
          cases hr : foldStmts (fun st => run n (.stmt st)) body
              { s with handlingTrap := true, lastExit := s.exit } with
          | none => rw [hr] at h; cases h
          | some s1 =>
            rw [hr] at h
            rw [foldStmts_mono hm body _ s1 hr]
            exact h
    | whl u c b =>
      rw [run] at h ⊢
      split
      · rename_i hs; rw [if_pos hs] at h; exact h
      · rename_i hs
        rw [if_neg hs] at h
        cases hr : foldStmts (fun st => run n (.stmt st)) c { s with noErrExit := true } with
        | none => rw [hr] at h; cases h
        | some s1 =>
          rw [hr] at h
          rw [foldStmts_mono hm c _ s1 hr]
          try simp only at h ⊢
          split
          · rename_i hc; rw [if_pos hc] at h; exact h
          · rename_i hc
            rw [if_neg hc] at h
            cases hr2 : loopStmtsBroken (fun st => run n (.stmt st)) b
                { s1 with noErrExit := s.noErrExit, exit := s1.exit.clear } with
            | none => rw [hr2] at h; cases h
            | some r2 =>
              rw [hr2] at h
              rw [loopStmtsBroken_mono hm b _ r2 hr2]
              obtain ⟨s4, br⟩ := r2
              try simp only at h ⊢
              cases br with
              | true => exact h
              | false =>
                simp only [Bool.false_eq_true, ↓reduceIte] at h ⊢
                exact ih _ _ _ h
    | cmd c =>
      cases c with
      | block p =>
        rw [run] at h ⊢
        split
        · rename_i hs; rw [if_pos hs] at h; exact h
        · rename_i hs
          rw [if_neg hs] at h
          exact foldStmts_mono hm p s r h
      | subsh p =>
        rw [run] at h ⊢
        split
        · rename_i hs; rw [if_pos hs] at h; exact h
        · rename_i hs
          rw [if_neg hs] at h
          try simp only at h ⊢
          cases hr : foldStmts (fun st => run n (.stmt st)) p (subshellOf s s.out) with
          | none => rw [hr] at h; cases h
          | some s1 => rw [hr] at h; rw [foldStmts_mono hm p _ s1 hr]; exact h
      | assignSub x p =>
        rw [run] at h ⊢
        split
        · rename_i hs; rw [if_pos hs] at h; exact h
        · rename_i hs
          rw [if_neg hs] at h
          try simp only at h ⊢
          cases hr : foldStmts (fun st => run n (.stmt st)) p (subshellOf s []) with
          | none => rw [hr] at h; cases h
          | some s1 => rw [hr] at h; rw [foldStmts_mono hm p _ s1 hr]; exact h
      | echoSub w1 p w2 =>
        rw [run] at h ⊢
        split
        · rename_i hs; rw [if_pos hs] at h; exact h
        · rename_i hs
          rw [if_neg hs] at h
          try simp only at h ⊢
          cases hr : foldStmts (fun st => run n (.stmt st)) p (subshellOf s []) with
          | none => rw [hr] at h; cases h
          | some s1 => rw [hr] at h; rw [foldStmts_mono hm p _ s1 hr]; exact h
      | call f =>
        rw [run] at h ⊢
        split
        · rename_i hs; rw [if_pos hs] at h; exact h
        · rename_i hs
          rw [if_neg hs] at h
          try simp only at h ⊢
          cases hf : lookupFn s.funcs f with
          | none => rw [hf] at h; exact h
          | some body =>
            rw [hf] at h
            try simp only at h ⊢
            cases hr : run n (.stmt body) { s with lastExpandExit := {}, inFunc := true } with
            | none => rw [hr] at h; cases h
            | some s1 => rw [hr] at h; rw [ih _ _ _ hr]; exact h
      | and x y =>
        rw [run] at h ⊢
        split
        · rename_i hs; rw [if_pos hs] at h; exact h
        · rename_i hs
          rw [if_neg hs] at h
          try simp only at h ⊢
          cases hr : run n (.stmt x) { s with noErrExit := true } with
          | none => rw [hr] at h; cases h
          | some s1 =>
            rw [hr] at h; rw [ih _ _ _ hr]
            try simp only at h ⊢
            split
            · rename_i hc; rw [if_pos hc] at h; exact ih _ _ _ h
            · rename_i hc; rw [if_neg hc] at h; exact h
      | or x y =>
        rw [run] at h ⊢
        split
        · rename_i hs; rw [if_pos hs] at h; exact h
        · rename_i hs
          rw [if_neg hs] at h
          try simp only at h ⊢
          cases hr : run n (.stmt x) { s with noErrExit := true } with
          | none => rw [hr] at h; cases h
          | some s1 =>
            rw [hr] at h; rw [ih _ _ _ hr]
            try simp only at h ⊢
            split
            · rename_i hc; rw [if_pos hc] at h; exact ih _ _ _ h
            · rename_i hc; rw [if_neg hc] at h; exact h
      | pipe x y =>
        rw [run] at h ⊢
        split
        · rename_i hs; rw [if_pos hs] at h; exact h
        · rename_i hs
          rw [if_neg hs] at h
          try simp only at h ⊢
          cases hr : run n (.stmt x) (subshellOf s []) with
          | none => rw [hr] at h; cases h
          | some r2 =>
            rw [hr] at h; rw [ih _ _ _ hr]
            try simp only at h ⊢
            cases hr2 : run n (.stmt y) s with
            | none => rw [hr2] at h; cases h
            | some s1 => rw [hr2] at h; rw [ih _ _ _ hr2]; exact h
      | ifc c t e =>
        rw [run] at h ⊢
        split
        · rename_i hs; rw [if_pos hs] at h; exact h
        · rename_i hs
          rw [if_neg hs] at h
          try simp only at h ⊢
          cases hr : foldStmts (fun st => run n (.stmt st)) c { s with noErrExit := true } with
          | none => rw [hr] at h; cases h
          | some s1 =>
            rw [hr] at h; rw [foldStmts_mono hm c _ s1 hr]
            try simp only at h ⊢
            split
            · rename_i hc; rw [if_pos hc] at h; exact foldStmts_mono hm t _ r h
            · rename_i hc
              rw [if_neg hc] at h
              cases e with
              | none => exact h
              | els p => exact ih _ _ _ h
              | elif c2 t2 e2 => exact ih _ _ _ h
      | whl u c b =>
        rw [run] at h ⊢
        split
        · rename_i hs; rw [if_pos hs] at h; exact h
        · rename_i hs
          rw [if_neg hs] at h
          exact ih _ _ _ h
      | forc x items b =>
        rw [run] at h ⊢
        split
        · rename_i hs; rw [if_pos hs] at h; exact h
        · rename_i hs
          rw [if_neg hs] at h
          exact forLoop_mono hm x b items s r h
      | case w is =>
        rw [run] at h ⊢
        split
        · rename_i hs; rw [if_pos hs] at h; exact h
        · rename_i hs
          rw [if_neg hs] at h
          exact caseLoop_mono hm _ is false s r h
      | tru =>
        rw [run] at h ⊢
        split
        · rename_i hs; rw [if_pos hs] at h; exact h
        · rename_i hs
          rw [if_neg hs] at h
          exact h
      | fls =>
        rw [run] at h ⊢
        split
        · rename_i hs; rw [if_pos hs] at h; exact h
        · rename_i hs
          rw [if_neg hs] at h
          exact h
      | exit m =>
        rw [run] at h ⊢
        split
        · rename_i hs; rw [if_pos hs] at h; exact h
        · rename_i hs
          rw [if_neg hs] at h
          exact h
      | ret m =>
        rw [run] at h ⊢
        split
        · rename_i hs; rw [if_pos hs] at h; exact h
        · rename_i hs
          rw [if_neg hs] at h
          exact h
      | brk m =>
        rw [run] at h ⊢
        split
        · rename_i hs; rw [if_pos hs] at h; exact h
        · rename_i hs
          rw [if_neg hs] at h
          exact h
      | cont m =>
        rw [run] at h ⊢
        split
        · rename_i hs; rw [if_pos hs] at h; exact h
        · rename_i hs
          rw [if_neg hs] at h
          exact h
      | setE on =>
        rw [run] at h ⊢
        split
        · rename_i hs; rw [if_pos hs] at h; exact h
        · rename_i hs
          rw [if_neg hs] at h
          exact h
      | setPF on =>
        rw [run] at h ⊢
        split
        · rename_i hs; rw [if_pos hs] at h; exact h
        · rename_i hs
          rw [if_neg hs] at h
          exact h
      | trapExit b =>
        rw [run] at h ⊢
        split
        · rename_i hs; rw [if_pos hs] at h; exact h
        · rename_i hs
          rw [if_neg hs] at h
          exact h
      | trapErr b =>
        rw [run] at h ⊢
        split
        · rename_i hs; rw [if_pos hs] at h; exact h
        · rename_i hs
          rw [if_neg hs] at h
          exact h
      | echo w =>
        rw [run] at h ⊢
        split
        · rename_i hs; rw [if_pos hs] at h; exact h
        · rename_i hs
          rw [if_neg hs] at h
          exact h
      | test x neg v =>
        rw [run] at h ⊢
        split
        · rename_i hs; rw [if_pos hs] at h; exact h
        · rename_i hs
          rw [if_neg hs] at h
          exact h
      | assign x w =>
        rw [run] at h ⊢
        split
        · rename_i hs; rw [if_pos hs] at h; exact h
        · rename_i hs
          rw [if_neg hs] at h
          exact h
      | fn f b =>
        rw [run] at h ⊢
        split
        · rename_i hs; rw [if_pos hs] at h; exact h
        · rename_i hs
          rw [if_neg hs] at h
          exact h

theorem run_mono_le {n m : Nat} (hnm : n ≤ m) {t : Task} {s r : St} (h : run n t s = some r) :
    run m t s = some r := by
  induction hnm with
  | refl => exact h
  | step _ ih => exact run_mono _ _ _ _ ih

theorem runFile_mono (n : Nat) (p : Prog) (r : Str × Nat) (h : runFile n p = some r) :
    runFile (n+1) p = some r := by
  unfold runFile at h ⊢
  have hm : MonoF (fun st => run n (.stmt st)) (fun st => run (n+1) (.stmt st)) :=
    fun st s r h => run_mono _ _ _ _ h
  cases hr : foldStmts (fun st => run n (.stmt st)) p {} with
  | none => rw [hr] at h; cases h
  | some s =>
    rw [hr] at h
    rw [foldStmts_mono hm p _ s hr]
    try simp only at h ⊢
    cases hr2 : run n (.trap ({ s with lastExit := s.exit } : St).callbackExit) { s with lastExit := s.exit } with
    | none => rw [hr2] at h; cases h
    | some s2 => rw [hr2] at h; rw [run_mono _ _ _ _ hr2]; exact h

end ShVerif.C26
