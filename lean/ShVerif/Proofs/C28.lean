import ShVerif.Model.C28
/-
  C28 — helper lemmas for the safety theorems in ShVerif/Props/C28.lean.
-/
namespace ShVerif.C28

/-! ### index helpers -/

theorem getN_ok {α : Type} (l : List α) (i : Nat) (h : i < l.length) : getN l i = .ok l[i] := by
  unfold getN
  rw [List.getElem?_eq_getElem h]

theorem getN_ne_panic {α : Type} (l : List α) (i : Nat) (h : i < l.length) : getN l i ≠ .panic := by
  rw [getN_ok l i h]; intro h'; cases h'

theorem getI_ok {α : Type} (l : List α) (i : Int) (h0 : 0 ≤ i) (h : i.toNat < l.length) :
    getI l i = .ok l[i.toNat] := by
  unfold getI
  rw [if_neg (by omega), getN_ok l _ h]

theorem sliceFromN_ok {α : Type} (l : List α) (i : Nat) (h : i ≤ l.length) :
    sliceFromN l i = .ok (l.drop i) := by
  unfold sliceFromN; rw [if_pos h]

theorem sliceToN_ok {α : Type} (l : List α) (i : Nat) (h : i ≤ l.length) :
    sliceToN l i = .ok (l.take i) := by
  unfold sliceToN; rw [if_pos h]

theorem sliceFromI_ok {α : Type} (l : List α) (i : Int) (h0 : 0 ≤ i) (h : i.toNat ≤ l.length) :
    sliceFromI l i = .ok (l.drop i.toNat) := by
  unfold sliceFromI
  rw [if_neg (by omega), sliceFromN_ok l _ h]

theorem sliceToI_ok {α : Type} (l : List α) (i : Int) (h0 : 0 ≤ i) (h : i.toNat ≤ l.length) :
    sliceToI l i = .ok (l.take i.toNat) := by
  unfold sliceToI
  rw [if_neg (by omega), sliceToN_ok l _ h]

theorem setI_ok {α : Type} (l : List α) (i : Int) (v : α) (h0 : 0 ≤ i) (h : i.toNat < l.length) :
    setI l i v = .ok (l.set i.toNat v) := by
  unfold setI
  rw [if_neg (by omega), if_pos h]

/-! ### shift -/

theorem shiftBy_no_panic (params : List Bytes) (n : Int) : shiftBy params n ≠ .panic := by
  unfold shiftBy
  by_cases h0 : n < 0
  · rw [if_pos h0]; intro h'; cases h'
  · rw [if_neg h0]
    by_cases hn : n ≥ (params.length : Int)
    · rw [if_pos hn]; intro h'; cases h'
    · rw [if_neg hn, sliceFromI_ok params n (by omega) (by omega)]
      intro h'; cases h'

theorem shift_no_panic (params args : List Bytes) : shift params args ≠ .panic := by
  unfold shift
  cases shiftCount args with
  | none => intro h'; cases h'
  | some n => exact shiftBy_no_panic params n

/-! ### wait -/

theorem waitArgs_no_panic (nprocs : Nat) (args : List Bytes) (k : Nat) (acc : List Nat) :
    waitArgs nprocs args k acc ≠ .panic := by
  induction args generalizing k acc with
  | nil => simp [waitArgs]
  | cons a rest ih =>
    unfold waitArgs
    by_cases hc : !(waitCut a).1 ∨ atoiLoose (waitCut a).2 ≤ 0 ∨ atoiLoose (waitCut a).2 > (nprocs : Int)
    · rw [if_pos hc]; intro h; cases h
    · rw [if_neg hc]
      simp only [not_or, Int.not_le, Int.not_lt] at hc
      rw [getI_ok _ _ (by omega) (by simp; omega)]
      exact ih _ _

/-! ### flagParser -/

/-- `flag()` may be called: something is pending. -/
def FP.ready (p : FP) : Prop := p.current ≠ [] ∨ p.remaining ≠ []

/-- The pending rest of a `-abc` group always has at least two bytes. -/
def FP.curOK (p : FP) : Prop := p.current = [] ∨ 2 ≤ p.current.length

theorem FP.more_spec (p : FP) :
    ∃ b p', p.more = .ok (b, p') ∧ p'.current = p.current ∧ fpSize p' ≤ fpSize p ∧
      (b = true → p' = p ∧ p.ready ∧
        (p.current = [] → ∃ a rest, p.remaining = a :: rest ∧ 1 ≤ a.length ∧ (a.head? = some 45 ∨ a.head? = some 43))) := by
  unfold FP.more
  by_cases hc : p.current ≠ []
  · rw [if_pos hc]
    exact ⟨true, p, rfl, rfl, Nat.le_refl _, fun _ => ⟨rfl, Or.inl hc, fun h => absurd h hc⟩⟩
  · rw [if_neg hc]
    cases hr : p.remaining with
    | nil =>
      simp only [List.length_nil, if_true]
      refine ⟨false, _, rfl, rfl, ?_, fun h => by cases h⟩
      simp [fpSize, argsSize, hr]
    | cons a rest =>
      simp only [List.length_cons, Nat.add_one_ne_zero, if_false]
      rw [getN_ok _ 0 (by simp)]
      simp only [List.getElem_cons_zero]
      by_cases h2 : a = [45, 45]
      · rw [if_pos h2, sliceFromN_ok _ 1 (by simp)]
        refine ⟨false, _, rfl, rfl, ?_, fun h => by cases h⟩
        simp [fpSize, argsSize, hr]
      · rw [if_neg h2]
        cases a with
        | nil =>
          simp only [List.length_nil, if_true]
          exact ⟨false, p, rfl, rfl, Nat.le_refl _, fun h => by cases h⟩
        | cons c cs =>
          simp only [List.length_cons, Nat.add_one_ne_zero, if_false]
          rw [getN_ok _ 0 (by simp)]
          simp only [List.getElem_cons_zero]
          by_cases h3 : c ≠ 45 ∧ c ≠ 43
          · rw [if_pos h3]
            exact ⟨false, p, rfl, rfl, Nat.le_refl _, fun h => by cases h⟩
          · rw [if_neg h3]
            refine ⟨true, p, rfl, rfl, Nat.le_refl _, fun _ => ⟨rfl, Or.inr (by rw [hr]; simp), fun _ => ?_⟩⟩
            refine ⟨c :: cs, rest, rfl, by simp, ?_⟩
            simp only [List.head?_cons, Option.some.injEq]
            by_cases h45 : c = 45
            · exact Or.inl h45
            · by_cases h43 : c = 43
              · exact Or.inr h43
              · exact absurd ⟨h45, h43⟩ h3

theorem FP.more_no_panic (p : FP) : p.more ≠ .panic := by
  obtain ⟨b, p', h, _⟩ := p.more_spec
  rw [h]; intro h'; cases h'

/-- The second half of `flag()`: split `-abc` into `-a` and the pending `-bc`. -/
theorem FP.flag_split (arg : Bytes) (p : FP) (ha : 1 ≤ arg.length) :
    ∃ f p', (if arg.length > 2 then
        match sliceToN arg 1, sliceFromN arg 2, sliceToN arg 2 with
        | .ok h, .ok t, .ok f => Res.ok (f, { p with current := h ++ t })
        | _, _, _ => Res.panic
      else Res.ok (arg, p)) = .ok (f, p') ∧
      p'.remaining = p.remaining ∧ p'.isNil = p.isNil ∧
      (p'.current = p.current ∧ f = arg ∧ arg.length ≤ 2 ∨
       p'.current.length + 1 = arg.length ∧ 2 ≤ p'.current.length ∧ f = arg.take 2 ∧ 2 < arg.length) := by
  by_cases h2 : arg.length > 2
  · rw [if_pos h2, sliceToN_ok _ 1 (by omega), sliceFromN_ok _ 2 (by omega), sliceToN_ok _ 2 (by omega)]
    refine ⟨_, _, rfl, rfl, rfl, Or.inr ⟨?_, ?_, rfl, h2⟩⟩
    · simp only [List.length_append, List.length_take, List.length_drop]; omega
    · simp only [List.length_append, List.length_take, List.length_drop]; omega
  · rw [if_neg h2]
    exact ⟨_, _, rfl, rfl, rfl, Or.inl ⟨rfl, rfl, by omega⟩⟩

theorem FP.flag_spec (p : FP) (hc : p.curOK)
    (hrem : p.current = [] → ∃ a rest, p.remaining = a :: rest ∧ 1 ≤ a.length) :
    ∃ f p', p.flag = .ok (f, p') ∧ p'.curOK ∧ fpSize p' < fpSize p ∧
      (f.length = 2 ∨ (f.length = 1 ∧ p.current = [] ∧ p.remaining.head? = some f)) := by
  unfold FP.flag
  by_cases hcur : p.current = []
  · obtain ⟨a, rest, hrm, ha⟩ := hrem hcur
    rw [if_pos hcur, hrm, getN_ok _ 0 (by simp), sliceFromN_ok _ 1 (by simp)]
    simp only [List.getElem_cons_zero, List.drop_one, List.tail_cons]
    obtain ⟨f, p', he, h1, _, h3⟩ := FP.flag_split a { p with remaining := rest, isNil := false } ha
    refine ⟨f, p', he, ?_, ?_, ?_⟩
    · rcases h3 with ⟨hc', _, _⟩ | ⟨_, h2, _, _⟩
      · left; rw [hc']; exact hcur
      · right; exact h2
    · simp only [fpSize, h1, hrm, argsSize, List.map_cons, List.sum_cons, hcur, List.length_nil]
      rcases h3 with ⟨hc', _, _⟩ | ⟨h2, _, _, _⟩
      · rw [hc']; simp [hcur]
      · omega
    · rcases h3 with ⟨_, hf, hl⟩ | ⟨_, _, hf, hl⟩
      · subst hf
        by_cases h2 : f.length = 2
        · exact Or.inl h2
        · exact Or.inr ⟨by omega, hcur, by simp⟩
      · left; rw [hf, List.length_take]; omega
  · rw [if_neg hcur]
    have hlen : 2 ≤ p.current.length := by
      rcases hc with h | h
      · exact absurd h hcur
      · exact h
    obtain ⟨f, p', he, h1, _, h3⟩ := FP.flag_split p.current { p with current := [] } (by omega)
    refine ⟨f, p', he, ?_, ?_, ?_⟩
    · rcases h3 with ⟨hc', _, _⟩ | ⟨_, h2, _, _⟩
      · left; exact hc'
      · right; exact h2
    · simp only [fpSize, h1]
      rcases h3 with ⟨hc', _, _⟩ | ⟨h2, _, _, _⟩
      · rw [hc']; simp only [List.length_nil]; omega
      · omega
    · rcases h3 with ⟨_, hf, hl⟩ | ⟨_, _, hf, hl⟩
      · left; rw [hf]; omega
      · left; rw [hf, List.length_take]; omega

/-- `flag()` does not panic whenever something is pending (no shape assumption). -/
theorem FP.flag_no_panic (p : FP) (hr : p.ready) : p.flag ≠ .panic := by
  unfold FP.flag
  by_cases hcur : p.current = []
  · have hrem : p.remaining ≠ [] := by
      rcases hr with h | h
      · exact absurd hcur h
      · exact h
    cases hrm : p.remaining with
    | nil => exact absurd hrm hrem
    | cons a rest =>
      rw [if_pos hcur, getN_ok _ 0 (by simp), sliceFromN_ok _ 1 (by simp)]
      simp only
      by_cases h2 : ([a] ++ rest)[0].length > 2
      · simp only [List.cons_append, List.nil_append, List.getElem_cons_zero] at h2 ⊢
        rw [if_pos h2, sliceToN_ok _ 1 (by omega), sliceFromN_ok _ 2 (by omega), sliceToN_ok _ 2 (by omega)]
        intro h; cases h
      · simp only [List.cons_append, List.nil_append, List.getElem_cons_zero] at h2 ⊢
        rw [if_neg h2]; intro h; cases h
  · rw [if_neg hcur]
    simp only
    by_cases h2 : p.current.length > 2
    · rw [if_pos h2, sliceToN_ok _ 1 (by omega), sliceFromN_ok _ 2 (by omega), sliceToN_ok _ 2 (by omega)]
      intro h; cases h
    · rw [if_neg h2]; intro h; cases h

theorem FP.value_spec (p : FP) :
    ∃ v p', p.value = .ok (v, p') ∧ p'.current = p.current ∧ fpSize p' ≤ fpSize p := by
  unfold FP.value
  cases hrm : p.remaining with
  | nil => exact ⟨[], p, by simp, rfl, Nat.le_refl _⟩
  | cons a rest =>
    simp only [List.length_cons, Nat.add_one_ne_zero, if_false]
    rw [getN_ok _ 0 (by simp), sliceFromN_ok _ 1 (by simp)]
    refine ⟨_, _, rfl, rfl, ?_⟩
    simp [fpSize, argsSize, hrm]

theorem FP.value_no_panic (p : FP) : p.value ≠ .panic := by
  obtain ⟨v, p', h, _⟩ := p.value_spec
  rw [h]; intro h'; cases h'

theorem fpRun_safe (ops : List FOp) : ∀ (p : FP) (last : Bool), (last = true → p.ready) →
    fpObeys p last ops = true → (fpRun p ops).2 = false := by
  induction ops with
  | nil => intro p last _ _; rfl
  | cons op ops ih =>
    intro p last hl ho
    cases op with
    | more =>
      obtain ⟨b, p', hm, _, _, hb⟩ := p.more_spec
      simp only [fpRun, fpObeys, hm] at ho ⊢
      exact ih p' b (fun h => by obtain ⟨he, hr, _⟩ := hb h; rw [he]; exact hr) ho
    | flag =>
      simp only [fpObeys, Bool.and_eq_true] at ho
      have hr := hl ho.1
      cases hf : p.flag with
      | panic => exact absurd hf (p.flag_no_panic hr)
      | ok fp' =>
        obtain ⟨f, p'⟩ := fp'
        simp only [fpRun, hf]
        have h2 := ho.2
        simp only [hf] at h2
        exact ih p' false (fun h => by cases h) h2
    | value =>
      obtain ⟨v, p', hv, _, _⟩ := p.value_spec
      simp only [fpRun, fpObeys, hv] at ho ⊢
      exact ih p' false (fun h => by cases h) ho
    | args =>
      simp only [fpRun, fpObeys] at ho ⊢
      exact ih p false (fun h => by cases h) ho

/-! ### Params -/

theorem paramsLoop_safe : ∀ (fuel : Nat) (fp : FP) (st : PState), fpSize fp < fuel → fp.curOK →
    paramsLoop fuel true fp st ≠ .panic ∧ paramsLoop fuel true fp st ≠ .outOfFuel := by
  intro fuel
  induction fuel with
  | zero => intro fp st h; omega
  | succ fuel ih =>
    intro fp st hsz hc
    obtain ⟨b, fp1, hm, hcur1, hs1, hb⟩ := fp.more_spec
    unfold paramsLoop
    rw [hm]
    cases b with
    | false =>
      simp only
      split <;> exact ⟨(by intro h; cases h), (by intro h; cases h)⟩
    | true =>
      simp only
      obtain ⟨he, _, hrem⟩ := hb rfl
      subst he
      obtain ⟨f, fp2, hf, hc2, hs2, hshape⟩ := fp1.flag_spec hc
        (fun h => by obtain ⟨a, rest, h1, h2, _⟩ := hrem h; exact ⟨a, rest, h1, h2⟩)
      rw [hf]
      simp only
      by_cases hdash : f = [45] ∨ f = [43]
      · rw [if_pos hdash]
        split <;> exact ⟨(by intro h; cases h), (by intro h; cases h)⟩
      · rw [if_neg hdash]
        have hlen : f.length = 2 := by
          rcases hshape with h | ⟨h1, hcur, hhead⟩
          · exact h
          · exfalso
            obtain ⟨a, rest, hrm, _, hh⟩ := hrem hcur
            rw [hrm] at hhead
            simp only [List.head?_cons, Option.some.injEq] at hhead
            subst hhead
            match a, h1, hh with
            | [c], _, hh =>
              simp only [List.head?_cons, Option.some.injEq] at hh
              rcases hh with h | h <;> subst h <;> simp at hdash
        rw [getN_ok f 0 (by omega), getN_ok f 1 (by omega)]
        simp only
        by_cases ho : f[1] ≠ 111
        · rw [if_pos ho]
          split
          · exact ⟨(by intro h; cases h), (by intro h; cases h)⟩
          · exact ih fp2 _ (by omega) hc2
        · rw [if_neg ho]
          obtain ⟨v, fp3, hv, hcur3, hs3⟩ := fp2.value_spec
          rw [hv]
          simp only
          have hc3 : fp3.curOK := by unfold FP.curOK; rw [hcur3]; exact hc2
          by_cases hve : v = []
          · rw [if_pos hve, if_pos trivial]
            exact ih fp3 _ (by omega) hc3
          · rw [if_neg hve]
            split
            · exact ⟨(by intro h; cases h), (by intro h; cases h)⟩
            · exact ih fp3 _ (by omega) hc3

theorem fpSize_init (args : List Bytes) : fpSize (FP.init args) = argsSize args := by
  simp [fpSize, FP.init]

/-! ### getopts -/

theorem gRuneIdx_lt (runeidx : Nat) (opts : List Nat) (h : 1 ≤ opts.length) :
    gRuneIdx runeidx opts < opts.length := by
  unfold gRuneIdx
  split <;> omega

/-- Once the rune cursor is inside the word, the rest of `next` cannot panic. -/
theorem gstep_ok (g : GState) (optstr : List Nat) (args : List (List Nat)) (opts : List Nat)
    (hri : g.runeidx < opts.length) :
    ∃ g' o, gstep g optstr args opts = .ok (g', o) := by
  unfold gstep
  rw [getN_ok _ g.runeidx hri]
  simp only
  by_cases hna : needsArg optstr opts[g.runeidx] = true
  · rw [if_pos hna]
    by_cases ha : g.runeidx + 1 < opts.length
    · rw [if_pos ha, sliceFromN_ok _ _ (by omega)]
      exact ⟨_, _, rfl⟩
    · rw [if_neg ha]
      by_cases hb : g.argidx + 1 < args.length
      · rw [if_pos hb, getN_ok args (g.argidx + 1) hb]
        exact ⟨_, _, rfl⟩
      · rw [if_neg hb]
        exact ⟨_, _, rfl⟩
  · rw [if_neg hna]
    split
    · exact ⟨_, _, rfl⟩
    · exact ⟨_, _, rfl⟩

/-- `getopts.next` is total: for *every* cursor (argidx, runeidx), option string and argument
    vector.  No invariant is needed any more: a stale rune cursor is repaired before it is used. -/
theorem gnext_total (g : GState) (optstr : List Nat) (args : List (List Nat)) :
    ∃ g' o, gnext g optstr args = .ok (g', o) := by
  unfold gnext
  by_cases h0 : args.length = 0 ∨ g.argidx ≥ args.length
  · rw [if_pos h0]; exact ⟨g, gDone, rfl⟩
  · rw [if_neg h0]
    have hlt : g.argidx < args.length := by omega
    rw [getN_ok args g.argidx hlt]
    simp only
    by_cases h1 : args[g.argidx].length < 2
    · rw [if_pos h1]; exact ⟨g, gDone, rfl⟩
    · rw [if_neg h1, getN_ok _ 0 (by omega)]
      simp only
      by_cases h2 : args[g.argidx][0] ≠ 45
      · rw [if_pos h2]; exact ⟨g, gDone, rfl⟩
      · rw [if_neg h2, getN_ok _ 1 (by omega)]
        simp only
        by_cases h3 : args[g.argidx][1] = 45
        · rw [if_pos h3]; exact ⟨g, gDone, rfl⟩
        · rw [if_neg h3, sliceFromN_ok _ 1 (by omega)]
          simp only
          exact gstep_ok _ optstr args _
            (gRuneIdx_lt _ _ (by rw [List.length_drop]; omega))

theorem grun_total (calls : List GCall) : ∀ (g : GState), grun g calls ≠ .panic := by
  induction calls with
  | nil => intro g h; cases h
  | cons c cs ih =>
    intro g
    obtain ⟨g', o, hg⟩ := gnext_total (gsync g c.optind) c.optstr c.args
    unfold grun gcall
    rw [hg]
    exact ih g'

/-! ### pushd / popd / dirs -/

theorem swapTop_spec (stack : List Bytes) (h : 2 ≤ stack.length) :
    ∃ st top, swapTop stack = .ok (st, top) ∧ st.length = stack.length := by
  unfold swapTop
  simp only
  rw [getI_ok _ _ (by omega) (by omega), getI_ok _ _ (by omega) (by omega)]
  simp only
  rw [setI_ok _ _ _ (by omega) (by omega)]
  simp only
  rw [setI_ok _ _ _ (by omega) (by simp only [List.length_set]; omega)]
  exact ⟨_, _, rfl, by simp⟩

theorem dstep_spec (fs : List Bytes) (s : DState) (op : DOp) (h : 1 ≤ s.stack.length) :
    ∃ s' code out, dstep fs s op = .ok (s', code, out) ∧ 1 ≤ s'.stack.length := by
  cases op with
  | dirs => exact ⟨s, 0, _, rfl, h⟩
  | cd path =>
    simp only [dstep]
    split
    · exact ⟨s, 1, [], rfl, h⟩
    · exact ⟨_, 0, [], rfl, h⟩
  | pushd n args =>
    simp only [dstep]
    match args with
    | [] =>
      simp only
      by_cases hn : (!(!n)) = true
      · rw [if_pos hn]; exact ⟨s, 0, [], rfl, h⟩
      · rw [if_neg hn]
        by_cases h2 : s.stack.length < 2
        · rw [if_pos h2]; exact ⟨s, 1, [], rfl, h⟩
        · rw [if_neg h2]
          obtain ⟨st, top, hs, hl⟩ := swapTop_spec s.stack (by omega)
          rw [hs]
          simp only
          split
          · exact ⟨_, 1, [], rfl, by simp only; omega⟩
          · exact ⟨_, 0, _, rfl, by simp only; omega⟩
    | [a] =>
      simp only
      by_cases hn : (!n) = true
      · rw [if_pos hn]
        split
        · exact ⟨s, 1, [], rfl, h⟩
        · exact ⟨_, 0, _, rfl, by simp⟩
      · rw [if_neg hn]
        obtain ⟨st, top, hs, hl⟩ := swapTop_spec (s.stack ++ [a]) (by simp; omega)
        rw [hs]
        exact ⟨_, 0, _, rfl, by simp only [hl, List.length_append, List.length_cons, List.length_nil]; omega⟩
    | _ :: _ :: _ => exact ⟨s, 2, [], rfl, h⟩
  | popd n args =>
    simp only [dstep]
    match args with
    | [] =>
      simp only
      by_cases h2 : s.stack.length < 2
      · rw [if_pos h2]; exact ⟨s, 1, [], rfl, h⟩
      · rw [if_neg h2]
        rw [getI_ok _ _ (by omega) (by omega), sliceToI_ok _ _ (by omega) (by omega)]
        simp only
        have hl : (List.take ((s.stack.length : Int) - 1).toNat s.stack).length = s.stack.length - 1 := by
          rw [List.length_take]; omega
        by_cases hn : (!n) = true
        · rw [if_pos hn, getI_ok _ _ (by omega) (by omega)]
          simp only
          split
          · exact ⟨_, 1, [], rfl, by simp only; omega⟩
          · exact ⟨_, 0, _, rfl, by simp only; omega⟩
        · rw [if_neg hn, setI_ok _ _ _ (by omega) (by omega)]
          exact ⟨_, 0, _, rfl, by simp only [List.length_set]; omega⟩
    | _ :: _ => exact ⟨s, 2, [], rfl, h⟩

theorem drun_safe (fs : List Bytes) (ops : List DOp) : ∀ (s : DState), 1 ≤ s.stack.length →
    ∃ s' tr, drun fs s ops = .ok (s', tr) ∧ 1 ≤ s'.stack.length := by
  induction ops with
  | nil => intro s h; exact ⟨s, [], rfl, h⟩
  | cons op ops ih =>
    intro s h
    obtain ⟨s1, code, out, h1, hl1⟩ := dstep_spec fs s op h
    obtain ⟨s2, tr, h2, hl2⟩ := ih s1 hl1
    unfold drun
    rw [h1]
    simp only
    rw [h2]
    exact ⟨s2, _, rfl, hl2⟩

/-! ### slicing -/

theorem slicePos_bounds (len : Nat) (n : Int) : 0 ≤ slicePos len n ∧ slicePos len n ≤ (len : Int) := by
  unfold slicePos
  simp only
  split
  · split <;> omega
  · split <;> omega

theorem sliceFrom_pos {α : Type} (l : List α) (n : Int) :
    ∃ r, sliceFromI l (slicePos l.length n) = .ok r := by
  obtain ⟨h0, h1⟩ := slicePos_bounds l.length n
  exact ⟨_, sliceFromI_ok l _ h0 (by omega)⟩

theorem sliceTo_pos {α : Type} (l : List α) (n : Int) :
    ∃ r, sliceToI l (slicePos l.length n) = .ok r := by
  obtain ⟨h0, h1⟩ := slicePos_bounds l.length n
  exact ⟨_, sliceToI_ok l _ h0 (by omega)⟩

theorem sliceOff_ok {α : Type} (l : List α) (off : Option Int) : ∃ r, sliceOff l off = .ok r := by
  cases off with
  | none => exact ⟨l, rfl⟩
  | some o => exact sliceFrom_pos l o

theorem sliceLen_ok {α : Type} (l : List α) (len : Option Int) : ∃ r, sliceLen l len = .ok r := by
  cases len with
  | none => exact ⟨l, rfl⟩
  | some o => exact sliceTo_pos l o

theorem sliceStr_safe (rs : List Nat) (off len : Option Int) : sliceStr rs off len ≠ .panic := by
  unfold sliceStr
  obtain ⟨r, hr⟩ := sliceOff_ok rs off
  rw [hr]
  simp only
  cases len with
  | none => intro h; cases h
  | some l =>
    simp only
    split
    · intro h; cases h
    · obtain ⟨r2, hr2⟩ := sliceLen_ok r (some l)
      rw [hr2]
      intro h; cases h

theorem bsearch_spec (x : List Int) (t : Int) : ∀ (fuel i j : Nat), i ≤ j → j ≤ x.length →
    ∃ r, bsearch x t fuel i j = .ok r ∧ r ≤ j := by
  intro fuel
  induction fuel with
  | zero => intro i j hij _; exact ⟨i, rfl, hij⟩
  | succ fuel ih =>
    intro i j hij hj
    unfold bsearch
    by_cases hlt : i < j
    · rw [if_pos hlt]
      simp only
      have hh : (i + j) / 2 < x.length := by omega
      rw [getN_ok x _ hh]
      simp only
      split
      · obtain ⟨r, hr, hle⟩ := ih ((i + j) / 2 + 1) j (by omega) hj
        exact ⟨r, hr, hle⟩
      · obtain ⟨r, hr, hle⟩ := ih i ((i + j) / 2) (by omega) (by omega)
        exact ⟨r, hr, by omega⟩
    · rw [if_neg hlt]; exact ⟨i, rfl, hij⟩

theorem sliceElemsOff_ok {α : Type} (elems : List α) (indexes : List Int) (off : Option Int)
    (h : indexes = [] ∨ indexes.length = elems.length) : ∃ r, sliceElemsOff elems indexes off = .ok r := by
  cases off with
  | none => exact ⟨elems, rfl⟩
  | some o =>
    simp only [sliceElemsOff]
    by_cases hi : indexes.length > 0
    · rw [if_pos hi, getI_ok _ _ (by omega) (by omega)]
      simp only
      have hlen : indexes.length = elems.length := by
        rcases h with h | h
        · rw [h] at hi; simp at hi
        · exact h
      obtain ⟨pos, hp, hle⟩ := bsearch_spec indexes
        (sparseOffset o (indexes[((indexes.length : Int) - 1).toNat]'(by omega)))
        (indexes.length + 1) 0 indexes.length (Nat.zero_le _) (Nat.le_refl _)
      rw [hp]
      simp only
      exact ⟨_, sliceFromN_ok elems pos (by omega)⟩
    · rw [if_neg hi]
      exact sliceFrom_pos elems o

theorem sliceElems_safe {α : Type} (elems : List α) (indexes : List Int) (off len : Option Int)
    (h : indexes = [] ∨ indexes.length = elems.length) : sliceElems elems indexes off len ≠ .panic := by
  unfold sliceElems
  obtain ⟨r, hr⟩ := sliceElemsOff_ok elems indexes off h
  obtain ⟨r2, hr2⟩ := sliceLen_ok r len
  rw [hr]; simp only; rw [hr2]
  intro h; cases h

/-! ### namerefs -/

theorem resolveLoop_not_nameref (env : Bytes → Var) : ∀ (fuel : Nat) (name : Bytes) (v : Var),
    (resolveLoop env fuel name v).2.kind ≠ .nameRef := by
  intro fuel
  induction fuel with
  | zero => intro name v h; cases h
  | succ fuel ih =>
    intro name v
    unfold resolveLoop
    by_cases hk : v.kind ≠ .nameRef
    · rw [if_pos hk]; exact hk
    · rw [if_neg hk]; exact ih _ _

theorem resolveLoop_kind (env : Bytes → Var) (P : VKind → Prop) (h0 : P .unknown)
    (henv : ∀ n, P (env n).kind) : ∀ (fuel : Nat) (name : Bytes) (v : Var), P v.kind →
    P (resolveLoop env fuel name v).2.kind := by
  intro fuel
  induction fuel with
  | zero => intro name v _; exact h0
  | succ fuel ih =>
    intro name v hv
    unfold resolveLoop
    by_cases hk : v.kind ≠ .nameRef
    · rw [if_pos hk]; exact hv
    · rw [if_neg hk]; exact ih _ _ (henv _)

end ShVerif.C28
