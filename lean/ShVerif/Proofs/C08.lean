import ShVerif.Model.C08
/-
  C08 — helper lemmas for Props/C08.lean (core Lean only).
-/
namespace ShVerif.C08

/-! ## the glue: wrappedReader.Read + InteractiveSeq -/

/-- nothing has stopped the iteration yet -/
def Live (g : G) : Prop := g.stopped = false ∧ g.done = false ∧ g.panic = false

theorem live_init : Live ({} : G) := ⟨rfl, rfl, rfl⟩

theorem yield_none (g : G) (cb : Cb) (h : g.stopped = false) :
    g.yield none cb = ({ g with cbs := g.cbs ++ [cb] }, true) := by
  simp [G.yield, h]

/-- normal form of one step for a consumer that never stops -/
theorem step_read_live (g : G) (hl : Live g) (nl : Bool) (line o l : Nat) (err ins : Bool) :
    step none g (.read nl line o l err ins) =
      if nl && decide (line > g.lastLine) then
        if incomplete o l then
          { g with cbs := g.cbs ++ [{ stmts := g.acc, inc := true, err := err, fromRead := true, inStmt := ins }], lastLine := line }
        else if g.acc.isEmpty then
          { g with cbs := g.cbs ++ [{ stmts := [], inc := false, err := err, fromRead := true, inStmt := ins }], lastLine := line }
        else { g with lastLine := line }
      else g := by
  obtain ⟨h1, h2, h3⟩ := hl
  simp only [step, h2, h3, Bool.or_self, Bool.false_eq_true, if_false]
  split
  · split
    · rw [yield_none g _ h1]
    · split
      · rw [yield_none g _ h1]
      · rfl
  · rfl
  done

theorem step_stmt_live (g : G) (hl : Live g) (id : Option Nat) (err tn : Bool) (line o l : Nat) :
    step none g (.stmt id err tn line o l) =
      if err then
        { g with acc := g.acc ++ [id],
                 cbs := g.cbs ++ [{ stmts := g.acc ++ [id], inc := incomplete o l, err := true, fromRead := false, inStmt := false }] }
      else if tn then
        { g with acc := [], lastLine := line + 1,
                 cbs := g.cbs ++ [{ stmts := g.acc ++ [id], inc := incomplete o l, err := false, fromRead := false, inStmt := false }] }
      else { g with acc := g.acc ++ [id] } := by
  obtain ⟨h1, h2, h3⟩ := hl
  simp only [step, h2, h3, Bool.or_self, Bool.false_eq_true, if_false]
  split
  · rw [yield_none _ _ (by simpa using h1)]
    simp [h3]
  · split
    · rw [yield_none _ _ (by simpa using h1)]
      simp [h3]
    · rfl

theorem step_live (g : G) (hl : Live g) (e : Ev) : Live (step none g e) := by
  cases e with
  | read nl line o l err ins =>
    rw [step_read_live g hl]
    obtain ⟨h1, h2, h3⟩ := hl
    repeat' split
    all_goals exact ⟨h1, h2, h3⟩
  | stmt id err tn line o l =>
    rw [step_stmt_live g hl]
    obtain ⟨h1, h2, h3⟩ := hl
    repeat' split
    all_goals exact ⟨h1, h2, h3⟩

theorem runFrom_nil (st : Option Nat) (g : G) : runFrom st g [] = g := rfl

theorem runFrom_cons (st : Option Nat) (g : G) (e : Ev) (tr : List Ev) :
    runFrom st g (e :: tr) = runFrom st (step st g e) tr := rfl

theorem runFrom_append (st : Option Nat) (g : G) (a b : List Ev) :
    runFrom st g (a ++ b) = runFrom st (runFrom st g a) b := by
  simp [runFrom, List.foldl_append]

theorem runFrom_live (g : G) (hl : Live g) (tr : List Ev) : Live (runFrom none g tr) := by
  induction tr generalizing g with
  | nil => exact hl
  | cons e tr ih => rw [runFrom_cons]; exact ih _ (step_live g hl e)

/-! ### what has been run and what is pending -/

def accIds (g : G) : List Nat := g.acc.filterMap id

theorem ranOf_append_single (cbs : List Cb) (cb : Cb) :
    ranOf (cbs ++ [cb]) = ranOf cbs ++ (if !cb.inc && !cb.err then cb.stmts.filterMap id else []) := by
  simp only [ranOf, List.filter_append, List.flatMap_append]
  congr 1
  by_cases h : (!cb.inc && !cb.err) = true
  · simp [List.filter, h]
  · simp [List.filter, h]

theorem allStmts_append (a b : List Ev) : allStmts (a ++ b) = allStmts a ++ allStmts b := by
  induction a with
  | nil => rfl
  | cons e a ih =>
    cases e with
    | read nl line o l err ins => simpa [allStmts] using ih
    | stmt id err tn line o l =>
      cases id with
      | none => simpa [allStmts] using ih
      | some n => simp [allStmts, ih]

/-- event-wise reading of the hypotheses -/
theorem noErr_cons (e : Ev) (tr : List Ev) : NoErr (e :: tr) ↔ e.noErr = true ∧ NoErr tr := by
  simp [NoErr, checkNoErr]

theorem a0_cons_read (nl : Bool) (line o l : Nat) (err ins : Bool) (tr : List Ev) :
    A0 (.read nl line o l err ins :: tr) ↔ A0 tr := by
  simp [A0, checkA0]

theorem a0_cons_stmt (id : Option Nat) (err tn : Bool) (line o l : Nat) (tr : List Ev) :
    A0 (.stmt id err tn line o l :: tr) ↔ (o = 0 ∧ l = 0) ∧ A0 tr := by
  simp [A0, checkA0]

theorem incomplete_zero : incomplete 0 0 = false := by simp [incomplete]

/-- Nothing is lost, duplicated or reordered: what was run followed by what is pending is the
    statement list so far. -/
theorem ran_pending (tr : List Ev) (g : G) (hl : Live g) (hn : NoErr tr) (h0 : A0 tr) :
    ran (runFrom none g tr) ++ accIds (runFrom none g tr) = ran g ++ accIds g ++ allStmts tr := by
  induction tr generalizing g with
  | nil => simp [runFrom_nil, allStmts]
  | cons e tr ih =>
    rw [runFrom_cons]
    obtain ⟨he, hn'⟩ := (noErr_cons e tr).1 hn
    cases e with
    | read nl line o l err ins =>
      have h0' := (a0_cons_read nl line o l err ins tr).1 h0
      rw [ih _ (step_live g hl _) hn' h0']
      have : ran (step none g (.read nl line o l err ins)) = ran g ∧
             accIds (step none g (.read nl line o l err ins)) = accIds g := by
        rw [step_read_live g hl]
        repeat' split
        all_goals simp [ran, accIds, ranOf_append_single]
      rw [this.1, this.2]
      simp [allStmts]
    | stmt id err tn line o l =>
      obtain ⟨⟨ho, hlit⟩, h0'⟩ := (a0_cons_stmt id err tn line o l tr).1 h0
      subst ho; subst hlit
      simp only [Ev.noErr, Bool.and_eq_true, Bool.not_eq_true'] at he
      obtain ⟨herr, hid⟩ := he
      subst herr
      cases id with
      | none => simp at hid
      | some n =>
        rw [ih _ (step_live g hl _) hn' h0']
        rw [step_stmt_live g hl]
        cases tn with
        | true =>
          simp [ran, accIds, ranOf_append_single, incomplete_zero, allStmts, List.filterMap_append]
        | false =>
          simp [ran, accIds, allStmts, List.filterMap_append]

/-- pending statements are exactly those after the last newline token -/
theorem acc_empty_of_last (tr : List Ev) (g : G) (hl : Live g) (hn : NoErr tr) (last : Option Bool)
    (hg : last ≠ some false → g.acc = []) :
    lastTokNewl last tr ≠ some false → (runFrom none g tr).acc = [] := by
  induction tr generalizing g last with
  | nil => simpa [runFrom_nil, lastTokNewl] using hg
  | cons e tr ih =>
    rw [runFrom_cons]
    obtain ⟨he, hn'⟩ := (noErr_cons e tr).1 hn
    cases e with
    | read nl line o l err ins =>
      simp only [lastTokNewl]
      apply ih _ (step_live g hl _) hn' last
      intro h
      rw [step_read_live g hl]
      repeat' split
      all_goals simpa using hg h
    | stmt id err tn line o l =>
      simp only [lastTokNewl]
      simp only [Ev.noErr, Bool.and_eq_true, Bool.not_eq_true'] at he
      obtain ⟨herr, _⟩ := he
      subst herr
      apply ih _ (step_live g hl _) hn' (some tn)
      intro h
      rw [step_stmt_live g hl]
      cases tn with
      | true => simp
      | false => simp at h

theorem acc_nonempty_of_last (tr : List Ev) (g : G) (hl : Live g) (hn : NoErr tr) (last : Option Bool)
    (hg : last = some false → g.acc ≠ []) :
    lastTokNewl last tr = some false → (runFrom none g tr).acc ≠ [] := by
  induction tr generalizing g last with
  | nil => simpa [runFrom_nil, lastTokNewl] using hg
  | cons e tr ih =>
    rw [runFrom_cons]
    obtain ⟨he, hn'⟩ := (noErr_cons e tr).1 hn
    cases e with
    | read nl line o l err ins =>
      simp only [lastTokNewl]
      apply ih _ (step_live g hl _) hn' last
      intro h
      rw [step_read_live g hl]
      repeat' split
      all_goals simpa using hg h
    | stmt id err tn line o l =>
      simp only [lastTokNewl]
      simp only [Ev.noErr, Bool.and_eq_true, Bool.not_eq_true'] at he
      obtain ⟨herr, _⟩ := he
      subst herr
      apply ih _ (step_live g hl _) hn' (some tn)
      intro h
      rw [step_stmt_live g hl]
      cases tn with
      | true => simp at h
      | false => simp

/-- under NoErr every accumulated entry is a real statement -/
theorem acc_all_some (tr : List Ev) (g : G) (hl : Live g) (hn : NoErr tr)
    (hg : ∀ x ∈ g.acc, x.isSome = true) : ∀ x ∈ (runFrom none g tr).acc, x.isSome = true := by
  induction tr generalizing g with
  | nil => simpa [runFrom_nil] using hg
  | cons e tr ih =>
    rw [runFrom_cons]
    obtain ⟨he, hn'⟩ := (noErr_cons e tr).1 hn
    apply ih _ (step_live g hl _) hn'
    cases e with
    | read nl line o l err ins =>
      rw [step_read_live g hl]
      repeat' split
      all_goals simpa using hg
    | stmt id err tn line o l =>
      simp only [Ev.noErr, Bool.and_eq_true, Bool.not_eq_true'] at he
      obtain ⟨herr, hid⟩ := he
      subst herr
      rw [step_stmt_live g hl]
      cases tn with
      | true => simp
      | false =>
        simp only [Bool.false_eq_true, if_false]
        intro x hx
        simp only [List.mem_append, List.mem_singleton] at hx
        rcases hx with hx | hx
        · exact hg x hx
        · subst hx; exact hid

theorem accIds_eq_nil_iff (g : G) (h : ∀ x ∈ g.acc, x.isSome = true) : accIds g = [] ↔ g.acc = [] := by
  unfold accIds
  constructor
  · intro hh
    cases hacc : g.acc with
    | nil => rfl
    | cons a r =>
      rw [hacc] at hh h
      have := h a (by simp)
      cases a with
      | none => simp at this
      | some n => simp at hh
  · intro hh; simp [hh]

/-! ### A1 -/

theorem checkA1_append (last : Option Bool) (a b : List Ev) :
    checkA1 last (a ++ b) = (checkA1 last a && checkA1 (lastTokNewl last a) b) := by
  induction a generalizing last with
  | nil => simp [checkA1, lastTokNewl]
  | cons e a ih =>
    cases e with
    | read nl line o l err ins =>
      cases nl <;> cases ins <;> simp [checkA1, lastTokNewl, ih, Bool.and_assoc]
    | stmt id err tn line o l => simp [checkA1, lastTokNewl, ih]

/-! ### Incomplete only at blocked reads inside a statement -/

theorem yield_cbs (g : G) (st : Option Nat) (cb : Cb) :
    (g.yield st cb).1.cbs = g.cbs ∨ (g.yield st cb).1.cbs = g.cbs ++ [cb] := by
  unfold G.yield
  split
  · left; rfl
  · split
    · right; rfl
    · right; rfl

/-- each step adds at most one callback, and says which -/
theorem step_cbs (st : Option Nat) (g : G) (e : Ev) :
    (step st g e).cbs = g.cbs ∨
    ∃ cb, (step st g e).cbs = g.cbs ++ [cb] ∧
      match e with
      | .read nl _ o l _ ins =>
        nl = true ∧ cb.fromRead = true ∧ cb.inStmt = ins ∧ cb.inc = incomplete o l
      | .stmt _ _ _ _ o l => cb.fromRead = false ∧ cb.inc = incomplete o l := by
  cases e with
  | read nl line o l err ins =>
    simp only [step]
    split
    · left; rfl
    · split
      · rename_i hc
        have hnl : nl = true := by simp at hc; exact hc.1
        split
        · rename_i hi
          rcases yield_cbs g st { stmts := g.acc, inc := true, err := err, fromRead := true, inStmt := ins } with h | h
          · left
            generalize hy : g.yield st _ = y at h ⊢
            obtain ⟨g', ok⟩ := y
            simp only at h ⊢
            split <;> simpa using h
          · right
            refine ⟨_, ?_, hnl, rfl, rfl, by simp [hi]⟩
            generalize hy : g.yield st _ = y at h ⊢
            obtain ⟨g', ok⟩ := y
            simp only at h ⊢
            split <;> simpa using h
        · rename_i hi
          split
          · rcases yield_cbs g st { stmts := [], inc := false, err := err, fromRead := true, inStmt := ins } with h | h
            · left
              generalize hy : g.yield st _ = y at h ⊢
              obtain ⟨g', ok⟩ := y
              simp only at h ⊢
              split <;> simpa using h
            · right
              refine ⟨_, ?_, hnl, rfl, rfl, by simp at hi; simp [hi]⟩
              generalize hy : g.yield st _ = y at h ⊢
              obtain ⟨g', ok⟩ := y
              simp only at h ⊢
              split <;> simpa using h
          · left; rfl
      · left; rfl
  | stmt id err tn line o l =>
    simp only [step]
    split
    · left; rfl
    · split
      · rcases yield_cbs { g with acc := g.acc ++ [id] } st
          { stmts := g.acc ++ [id], inc := incomplete o l, err := true, fromRead := false, inStmt := false } with h | h
        · left
          generalize hy : G.yield _ st _ = y at h ⊢
          obtain ⟨g', ok⟩ := y
          simp only at h ⊢
          repeat' split
          all_goals simpa using h
        · right
          refine ⟨_, ?_, rfl, rfl⟩
          generalize hy : G.yield _ st _ = y at h ⊢
          obtain ⟨g', ok⟩ := y
          simp only at h ⊢
          repeat' split
          all_goals simpa using h
      · split
        · rcases yield_cbs { g with acc := g.acc ++ [id] } st
            { stmts := g.acc ++ [id], inc := incomplete o l, err := false, fromRead := false, inStmt := false } with h | h
          · left
            generalize hy : G.yield _ st _ = y at h ⊢
            obtain ⟨g', ok⟩ := y
            simp only at h ⊢
            repeat' split
            all_goals simpa using h
          · right
            refine ⟨_, ?_, rfl, rfl⟩
            generalize hy : G.yield _ st _ = y at h ⊢
            obtain ⟨g', ok⟩ := y
            simp only at h ⊢
            repeat' split
            all_goals simpa using h
        · left; rfl

end ShVerif.C08
