import ShVerif.Model.C08
/-
  C08 — helper lemmas for Props/C08.lean (core Lean only).
-/
namespace ShVerif.C08

/-! ## the glue: wrappedReader.Read + InteractiveSeq -/

/-- nothing has stopped the iteration yet -/
def Live (g : G) : Prop := g.stopped = false ∧ g.done = false ∧ g.panic = false ∧ g.wstopped = false

theorem live_init : Live ({} : G) := ⟨rfl, rfl, rfl, rfl⟩

theorem yieldOk_none (g : G) (h : g.stopped = false) : g.yieldOk none = true := by
  simp [G.yieldOk, h]

theorem yielded_none (g : G) (cb : Cb) (h : g.stopped = false) :
    g.yielded none cb = { g with cbs := g.cbs ++ [cb] } := by
  simp [G.yielded, h]

/-- normal form of one step for a consumer that never stops -/
theorem step_read_live (g : G) (hl : Live g) (nl : Bool) (line o l : Nat) (err ins : Bool) :
    step none g (.read nl line o l err ins) =
      if nl && decide (line > g.lastLine) then
        if incomplete o l then
          { g with cbs := g.cbs ++ [{ stmts := g.acc, inc := true, err := err, fromRead := true, inStmt := ins }], lastLine := line }
        else if g.acc.isEmpty then
          { g with cbs := g.cbs ++ [{ stmts := [], inc := false, err := err, fromRead := true, inStmt := ins }], lastLine := line }
        else { g with lastLine := line }
      else g := by
  obtain ⟨h1, h2, h3, _⟩ := hl
  simp [step, readTail, G.yieldOk, G.yielded, h1, h2, h3]

theorem step_stmt_live (g : G) (hl : Live g) (id : Option Nat) (err tn : Bool) (line o l : Nat) :
    step none g (.stmt id err tn line o l) =
      if err then
        { g with acc := g.acc ++ [id],
                 cbs := g.cbs ++ [{ stmts := g.acc ++ [id], inc := incomplete o l, err := true, fromRead := false, inStmt := false }] }
      else if tn then
        { g with acc := [], lastLine := line + 1,
                 cbs := g.cbs ++ [{ stmts := g.acc ++ [id], inc := incomplete o l, err := false, fromRead := false, inStmt := false }] }
      else { g with acc := g.acc ++ [id] } := by
  obtain ⟨h1, h2, h3, h4⟩ := hl
  simp [step, stmtTail, G.yieldOk, G.yielded, h1, h2, h3, h4]

theorem step_live (g : G) (hl : Live g) (e : Ev) : Live (step none g e) := by
  cases e with
  | read nl line o l err ins =>
    rw [step_read_live g hl]
    obtain ⟨h1, h2, h3, h4⟩ := hl
    repeat' split
    all_goals exact ⟨h1, h2, h3, h4⟩
  | stmt id err tn line o l =>
    rw [step_stmt_live g hl]
    obtain ⟨h1, h2, h3, h4⟩ := hl
    repeat' split
    all_goals exact ⟨h1, h2, h3, h4⟩

theorem runFrom_nil (st : Option Nat) (g : G) : runFrom st g [] = g := rfl

theorem runFrom_cons (st : Option Nat) (g : G) (e : Ev) (tr : List Ev) :
    runFrom st g (e :: tr) = runFrom st (step st g e) tr := rfl

theorem runFrom_append (st : Option Nat) (g : G) (a b : List Ev) :
    runFrom st g (a ++ b) = runFrom st (runFrom st g a) b := by
  simp [runFrom, List.foldl_append]

theorem runFrom_live (g : G) (hl : Live g) (tr : List Ev) : Live (runFrom none g tr) := by
  induction tr generalizing g with
  | nil => exact hl
  | cons e tr ih => rw [runFrom_cons]; exact ih _ (step_live g hl e)

/-! ### what has been run and what is pending -/

def accIds (g : G) : List Nat := g.acc.filterMap id

theorem ranOf_append_single (cbs : List Cb) (cb : Cb) :
    ranOf (cbs ++ [cb]) = ranOf cbs ++ (if !cb.inc && !cb.err then cb.stmts.filterMap id else []) := by
  simp only [ranOf, List.filter_append, List.flatMap_append]
  congr 1
  by_cases h : (!cb.inc && !cb.err) = true
  · simp [List.filter, h]
  · simp [List.filter, h]

theorem allStmts_append (a b : List Ev) : allStmts (a ++ b) = allStmts a ++ allStmts b := by
  induction a with
  | nil => rfl
  | cons e a ih =>
    cases e with
    | read nl line o l err ins => simpa [allStmts] using ih
    | stmt id err tn line o l =>
      cases id with
      | none => simpa [allStmts] using ih
      | some n => simp [allStmts, ih]

/-- event-wise reading of the hypotheses -/
theorem noErr_cons (e : Ev) (tr : List Ev) : NoErr (e :: tr) ↔ e.noErr = true ∧ NoErr tr := by
  simp [NoErr, checkNoErr]

theorem a0_cons_read (nl : Bool) (line o l : Nat) (err ins : Bool) (tr : List Ev) :
    A0 (.read nl line o l err ins :: tr) ↔ A0 tr := by
  simp [A0, checkA0]

theorem a0_cons_stmt (id : Option Nat) (err tn : Bool) (line o l : Nat) (tr : List Ev) :
    A0 (.stmt id err tn line o l :: tr) ↔ (o = 0 ∧ l = 0) ∧ A0 tr := by
  simp [A0, checkA0]

theorem incomplete_zero : incomplete 0 0 = false := by simp [incomplete]

/-- Nothing is lost, duplicated or reordered: what was run followed by what is pending is the
    statement list so far. -/
theorem ran_pending (tr : List Ev) (g : G) (hl : Live g) (hn : NoErr tr) (h0 : A0 tr) :
    ran (runFrom none g tr) ++ accIds (runFrom none g tr) = ran g ++ accIds g ++ allStmts tr := by
  induction tr generalizing g with
  | nil => simp [runFrom_nil, allStmts]
  | cons e tr ih =>
    rw [runFrom_cons]
    obtain ⟨he, hn'⟩ := (noErr_cons e tr).1 hn
    cases e with
    | read nl line o l err ins =>
      have h0' := (a0_cons_read nl line o l err ins tr).1 h0
      rw [ih _ (step_live g hl _) hn' h0']
      have : ran (step none g (.read nl line o l err ins)) = ran g ∧
             accIds (step none g (.read nl line o l err ins)) = accIds g := by
        rw [step_read_live g hl]
        repeat' split
        all_goals simp [ran, accIds, ranOf_append_single]
      rw [this.1, this.2]
      simp [allStmts]
    | stmt id err tn line o l =>
      obtain ⟨⟨ho, hlit⟩, h0'⟩ := (a0_cons_stmt id err tn line o l tr).1 h0
      subst ho; subst hlit
      simp only [Ev.noErr, Bool.and_eq_true, Bool.not_eq_true'] at he
      obtain ⟨herr, hid⟩ := he
      subst herr
      cases id with
      | none => simp at hid
      | some n =>
        rw [ih _ (step_live g hl _) hn' h0']
        rw [step_stmt_live g hl]
        cases tn with
        | true =>
          simp [ran, accIds, ranOf_append_single, incomplete_zero, allStmts, List.filterMap_append]
        | false =>
          simp [ran, accIds, allStmts, List.filterMap_append]

/-- pending statements are exactly those after the last newline token -/
theorem acc_empty_of_last (tr : List Ev) (g : G) (hl : Live g) (hn : NoErr tr) (last : Option Bool)
    (hg : last ≠ some false → g.acc = []) :
    lastTokNewl last tr ≠ some false → (runFrom none g tr).acc = [] := by
  induction tr generalizing g last with
  | nil => simpa [runFrom_nil, lastTokNewl] using hg
  | cons e tr ih =>
    rw [runFrom_cons]
    obtain ⟨he, hn'⟩ := (noErr_cons e tr).1 hn
    cases e with
    | read nl line o l err ins =>
      simp only [lastTokNewl]
      apply ih _ (step_live g hl _) hn' last
      intro h
      rw [step_read_live g hl]
      repeat' split
      all_goals simpa using hg h
    | stmt id err tn line o l =>
      simp only [lastTokNewl]
      simp only [Ev.noErr, Bool.and_eq_true, Bool.not_eq_true'] at he
      obtain ⟨herr, _⟩ := he
      subst herr
      apply ih _ (step_live g hl _) hn' (some tn)
      intro h
      rw [step_stmt_live g hl]
      cases tn with
      | true => simp
      | false => simp at h

theorem acc_nonempty_of_last (tr : List Ev) (g : G) (hl : Live g) (hn : NoErr tr) (last : Option Bool)
    (hg : last = some false → g.acc ≠ []) :
    lastTokNewl last tr = some false → (runFrom none g tr).acc ≠ [] := by
  induction tr generalizing g last with
  | nil => simpa [runFrom_nil, lastTokNewl] using hg
  | cons e tr ih =>
    rw [runFrom_cons]
    obtain ⟨he, hn'⟩ := (noErr_cons e tr).1 hn
    cases e with
    | read nl line o l err ins =>
      simp only [lastTokNewl]
      apply ih _ (step_live g hl _) hn' last
      intro h
      rw [step_read_live g hl]
      repeat' split
      all_goals simpa using hg h
    | stmt id err tn line o l =>
      simp only [lastTokNewl]
      simp only [Ev.noErr, Bool.and_eq_true, Bool.not_eq_true'] at he
      obtain ⟨herr, _⟩ := he
      subst herr
      apply ih _ (step_live g hl _) hn' (some tn)
      intro h
      rw [step_stmt_live g hl]
      cases tn with
      | true => simp at h
      | false => simp

/-- under NoErr every accumulated entry is a real statement -/
theorem acc_all_some (tr : List Ev) (g : G) (hl : Live g) (hn : NoErr tr)
    (hg : ∀ x ∈ g.acc, x.isSome = true) : ∀ x ∈ (runFrom none g tr).acc, x.isSome = true := by
  induction tr generalizing g with
  | nil => simpa [runFrom_nil] using hg
  | cons e tr ih =>
    rw [runFrom_cons]
    obtain ⟨he, hn'⟩ := (noErr_cons e tr).1 hn
    apply ih _ (step_live g hl _) hn'
    cases e with
    | read nl line o l err ins =>
      rw [step_read_live g hl]
      repeat' split
      all_goals simpa using hg
    | stmt id err tn line o l =>
      simp only [Ev.noErr, Bool.and_eq_true, Bool.not_eq_true'] at he
      obtain ⟨herr, hid⟩ := he
      subst herr
      rw [step_stmt_live g hl]
      cases tn with
      | true => simp
      | false =>
        simp only [Bool.false_eq_true, if_false]
        intro x hx
        simp only [List.mem_append, List.mem_singleton] at hx
        rcases hx with hx | hx
        · exact hg x hx
        · subst hx; exact hid

theorem accIds_eq_nil_iff (g : G) (h : ∀ x ∈ g.acc, x.isSome = true) : accIds g = [] ↔ g.acc = [] := by
  unfold accIds
  constructor
  · intro hh
    cases hacc : g.acc with
    | nil => rfl
    | cons a r =>
      rw [hacc] at hh h
      have := h a (by simp)
      cases a with
      | none => simp at this
      | some n => simp at hh
  · intro hh; simp [hh]

/-! ### A1 -/

theorem checkA1_append (last : Option Bool) (a b : List Ev) :
    checkA1 last (a ++ b) = (checkA1 last a && checkA1 (lastTokNewl last a) b) := by
  induction a generalizing last with
  | nil => simp [checkA1, lastTokNewl]
  | cons e a ih =>
    cases e with
    | read nl line o l err ins =>
      cases nl <;> cases ins <;> simp [checkA1, lastTokNewl, ih, Bool.and_assoc]
    | stmt id err tn line o l => simp [checkA1, lastTokNewl, ih]

/-! ### Incomplete only at blocked reads inside a statement -/

theorem yielded_cbs (g : G) (st : Option Nat) (cb : Cb) :
    (g.yielded st cb).cbs = g.cbs ∨ (g.yielded st cb).cbs = g.cbs ++ [cb] := by
  unfold G.yielded
  split
  · left; rfl
  · right; rfl

/-- what a step may add to the callback list -/
def cbOfEvent (e : Ev) (cb : Cb) : Prop :=
  match e with
  | .read nl _ o l _ ins => nl = true ∧ cb.fromRead = true ∧ cb.inStmt = ins ∧ (cb.inc = true → incomplete o l = true)
  | .stmt _ _ _ _ o l => cb.fromRead = false ∧ cb.inc = incomplete o l

/-- each step adds at most one callback, and says which -/
theorem step_cbs (st : Option Nat) (g : G) (e : Ev) :
    (step st g e).cbs = g.cbs ∨ ∃ cb, (step st g e).cbs = g.cbs ++ [cb] ∧ cbOfEvent e cb := by
  cases e with
  | read nl line o l err ins =>
    simp only [step, readTail]
    split
    · left; rfl
    · split
      · rename_i hc
        have hnl : nl = true := by
          cases nl
          · simp at hc
          · rfl
        split
        · rename_i hi
          rcases yielded_cbs g st { stmts := g.acc, inc := true, err := err, fromRead := true, inStmt := ins } with h | h
          · left; split <;> simpa using h
          · right
            refine ⟨{ stmts := g.acc, inc := true, err := err, fromRead := true, inStmt := ins }, ?_, hnl, rfl, rfl, fun _ => hi⟩
            split <;> simpa using h
        · split
          · rcases yielded_cbs g st { stmts := [], inc := false, err := err, fromRead := true, inStmt := ins } with h | h
            · left; split <;> simpa using h
            · right
              refine ⟨{ stmts := [], inc := false, err := err, fromRead := true, inStmt := ins }, ?_, hnl, rfl, rfl, fun hh => by simp at hh⟩
              split <;> simpa using h
          · left; rfl
      · left; rfl
  | stmt id err tn line o l =>
    simp only [step, stmtTail]
    split
    · left; rfl
    · split
      · left; rfl
      · split
        · rcases yielded_cbs { g with acc := g.acc ++ [id] } st
            { stmts := g.acc ++ [id], inc := incomplete o l, err := true, fromRead := false, inStmt := false } with h | h
          · left; split <;> simpa using h
          · right
            refine ⟨{ stmts := g.acc ++ [id], inc := incomplete o l, err := true, fromRead := false, inStmt := false }, ?_, rfl, rfl⟩
            split <;> simpa using h
        · split
          · rcases yielded_cbs { g with acc := g.acc ++ [id] } st
              { stmts := g.acc ++ [id], inc := incomplete o l, err := false, fromRead := false, inStmt := false } with h | h
            · left; repeat' split
              all_goals simpa using h
            · right
              refine ⟨{ stmts := g.acc ++ [id], inc := incomplete o l, err := false, fromRead := false, inStmt := false }, ?_, rfl, rfl⟩
              repeat' split
              all_goals simpa using h
          · left; rfl

/-- invariant: every callback that reports Incomplete comes from a blocked read inside a statement -/
def IncOk (g : G) : Prop := ∀ cb ∈ g.cbs, cb.inc = true → cb.fromRead = true ∧ cb.inStmt = true

theorem step_incOk (st : Option Nat) (g : G) (e : Ev) (hg : IncOk g)
    (h0 : checkA0 [e] = true) (h2 : checkA2 [e] = true) : IncOk (step st g e) := by
  rcases step_cbs st g e with h | ⟨cb, h, hcb⟩
  · intro c hc; rw [h] at hc; exact hg c hc
  · intro c hc
    rw [h] at hc
    simp only [List.mem_append, List.mem_singleton] at hc
    rcases hc with hc | hc
    · exact hg c hc
    · subst hc
      intro hinc
      cases e with
      | read nl line o l err ins =>
        obtain ⟨hnl, hfr, hins, hi⟩ := hcb
        subst hnl
        refine ⟨hfr, ?_⟩
        rw [hins]
        have := hi hinc
        simp only [checkA2, List.all_cons, List.all_nil, Bool.and_true] at h2
        simp [this] at h2
        exact h2
      | stmt id err tn line o l =>
        obtain ⟨_, hi⟩ := hcb
        simp only [checkA0, List.all_cons, List.all_nil, Bool.and_true, Bool.and_eq_true, beq_iff_eq] at h0
        rw [hi, h0.1, h0.2] at hinc
        simp [incomplete] at hinc

theorem runFrom_incOk (st : Option Nat) (tr : List Ev) (g : G) (hg : IncOk g)
    (h0 : A0 tr) (h2 : A2 tr) : IncOk (runFrom st g tr) := by
  induction tr generalizing g with
  | nil => exact hg
  | cons e tr ih =>
    rw [runFrom_cons]
    have h0' : checkA0 [e] = true ∧ A0 tr := by
      simp only [A0, checkA0, List.all_cons, Bool.and_eq_true] at h0
      exact ⟨by simp [checkA0, h0.1], h0.2⟩
    have h2' : checkA2 [e] = true ∧ A2 tr := by
      simp only [A2, checkA2, List.all_cons, Bool.and_eq_true] at h2
      exact ⟨by simp [checkA2, h2.1], h2.2⟩
    exact ih _ (step_incOk st g e hg h0'.1 h2'.1) h0'.2 h2'.2

/-! ### stopping -/

/-- invariant for a consumer that stops at its k-th call -/
def StopOk (k : Nat) (g : G) : Prop :=
  (g.panic = true → g.stopped = true ∧ g.done = false) ∧
  (g.stopped = true → g.done = false → ∃ cb, g.cbs[k]? = some cb ∧ cb.fromRead = true) ∧
  (g.stopped = false → g.cbs.length ≤ k)

theorem stopOk_init (k : Nat) : StopOk k ({} : G) := by
  refine ⟨?_, ?_, ?_⟩ <;> simp

theorem getElem?_append_length {α} (l : List α) (a : α) : (l ++ [a])[l.length]? = some a := by
  simp

theorem getElem?_append_lt {α} (l : List α) (a : α) (k : Nat) (x : α) (h : l[k]? = some x) :
    (l ++ [a])[k]? = some x := by
  have hk : k < l.length := by
    rcases Nat.lt_or_ge k l.length with h' | h'
    · exact h'
    · simp [List.getElem?_eq_none h'] at h
  rw [List.getElem?_append_left hk]; exact h

/-- a callback made by wrappedReader.Read (`fr = true`) or by the loop (`fr = false`) for a consumer
    stopping at call k -/
theorem yielded_stopOk (k : Nat) (g : G) (cb : Cb) (h : StopOk k g) (hd : g.done = false) (hp : g.panic = false) :
    let g' := g.yielded (some k) cb
    g'.done = false ∧
    (g'.panic = true → g'.stopped = true) ∧
    (g'.stopped = true → g'.panic = false → g.yieldOk (some k) = false ∧ g'.cbs[k]? = some cb) ∧
    (g'.stopped = true → g'.panic = true → ∃ c, g'.cbs[k]? = some c ∧ c.fromRead = true) ∧
    (g'.stopped = false → g.yieldOk (some k) = true ∧ g'.panic = false ∧ g'.cbs.length ≤ k) := by
  obtain ⟨h1, h2, h3⟩ := h
  by_cases hs : g.stopped = true
  · have := h2 hs hd
    simp [G.yielded, G.yieldOk, hs, hd, this]
  · have hs' : g.stopped = false := by simpa using hs
    have hlen := h3 hs'
    by_cases hk : g.cbs.length = k
    · subst hk
      simp [G.yielded, G.yieldOk, hs', hd, hp]
    · have : g.cbs.length < k := by omega
      simp [G.yielded, G.yieldOk, hs', hd, hp, Ne.symm hk]
      omega

theorem readTail_stopOk (k : Nat) (g : G) (nl : Bool) (line o l : Nat) (err ins : Bool)
    (h : StopOk k g) (hd : g.done = false) (hp : g.panic = false) :
    StopOk k (readTail (some k) g nl line o l err ins) := by
  have key : ∀ cb : Cb, cb.fromRead = true →
      StopOk k (if g.yieldOk (some k) then { g.yielded (some k) cb with lastLine := line }
                else { g.yielded (some k) cb with wstopped := true }) := by
    intro cb hfr
    obtain ⟨y1, y2, y3, y4, y5⟩ := yielded_stopOk k g cb h hd hp
    have core : StopOk k (g.yielded (some k) cb) := by
      refine ⟨fun hpan => ⟨y2 hpan, y1⟩, ?_, fun hst => (y5 hst).2.2⟩
      intro hst _
      cases hpn : (g.yielded (some k) cb).panic
      · exact ⟨cb, (y3 hst hpn).2, hfr⟩
      · exact y4 hst hpn
    split
    · exact core
    · exact core
  unfold readTail
  dsimp only
  split
  · split
    · exact key _ rfl
    · split
      · exact key _ rfl
      · exact h
  · exact h

theorem stmtTail_stopOk (k : Nat) (g : G) (err tn : Bool) (line o l : Nat)
    (h : StopOk k g) (hd : g.done = false) (hp : g.panic = false) :
    StopOk k (stmtTail (some k) g err tn line o l) := by
  have key : ∀ cb : Cb,
      let g' := g.yielded (some k) cb
      (g'.panic = true → StopOk k g') ∧
      (g'.panic = false → g.yieldOk (some k) = true → g'.stopped = false ∧ g'.cbs.length ≤ k) ∧
      (g'.panic = false → g.yieldOk (some k) = false → True) := by
    intro cb
    obtain ⟨y1, y2, y3, y4, y5⟩ := yielded_stopOk k g cb h hd hp
    refine ⟨?_, ?_, fun _ _ => trivial⟩
    · intro hpan
      exact ⟨fun _ => ⟨y2 hpan, y1⟩, fun hst _ => y4 hst hpan, fun hst => (y5 hst).2.2⟩
    · intro hpan hok
      cases hst : (g.yielded (some k) cb).stopped
      · exact ⟨rfl, (y5 hst).2.2⟩
      · have := (y3 hst hpan).1; simp [this] at hok
  unfold stmtTail
  dsimp only
  split
  · obtain ⟨k1, k2, _⟩ := key { stmts := g.acc, inc := incomplete o l, err := true, fromRead := false, inStmt := false }
    split
    · rename_i hc
      cases hpn : (g.yielded (some k) { stmts := g.acc, inc := incomplete o l, err := true, fromRead := false, inStmt := false }).panic
      · have hok : g.yieldOk (some k) = true := by simpa [hpn] using hc
        obtain ⟨hs, hl⟩ := k2 hpn hok
        exact ⟨fun hh => by simp [hpn] at hh, fun hh => by simp [hs] at hh, fun _ => hl⟩
      · exact k1 hpn
    · rename_i hc
      simp only [Bool.or_eq_true, not_or, Bool.not_eq_true] at hc
      refine ⟨fun hh => by simp [hc.1] at hh, fun _ hdn => by simp at hdn, ?_⟩
      intro hst
      obtain ⟨_, _, _, _, y5⟩ := yielded_stopOk k g
        { stmts := g.acc, inc := incomplete o l, err := true, fromRead := false, inStmt := false } h hd hp
      have := (y5 hst).1; simp [this] at hc
  · split
    · obtain ⟨k1, k2, _⟩ := key { stmts := g.acc, inc := incomplete o l, err := false, fromRead := false, inStmt := false }
      split
      · rename_i hpan; exact k1 hpan
      · rename_i hpan
        have hpn : (g.yielded (some k) { stmts := g.acc, inc := incomplete o l, err := false, fromRead := false, inStmt := false }).panic = false := by
          simpa using hpan
        split
        · rename_i hok
          obtain ⟨hs, hl⟩ := k2 hpn hok
          exact ⟨fun hh => by simp [hpn] at hh, fun hh => by simp [hs] at hh, fun _ => hl⟩
        · rename_i hok
          refine ⟨fun hh => by simp [hpn] at hh, fun _ hdn => by simp at hdn, ?_⟩
          intro hst
          obtain ⟨_, _, _, _, y5⟩ := yielded_stopOk k g
            { stmts := g.acc, inc := incomplete o l, err := false, fromRead := false, inStmt := false } h hd hp
          have := (y5 hst).1; simp [this] at hok
    · exact h

theorem step_stopOk (k : Nat) (g : G) (e : Ev) (h : StopOk k g) : StopOk k (step (some k) g e) := by
  by_cases hdp : (g.done || g.panic) = true
  · cases e <;> simpa [step, hdp] using h
  · have hd : g.done = false := by
      cases hh : g.done <;> simp [hh] at hdp ⊢
    have hp : g.panic = false := by
      cases hh : g.panic <;> simp [hh] at hdp ⊢
    cases e with
    | read nl line o l err ins =>
      simp only [step, hdp]
      exact readTail_stopOk k g nl line o l err ins h hd hp
    | stmt id err tn line o l =>
      by_cases hw : g.wstopped = true
      · simp only [step]
        rw [if_neg hdp, if_pos hw]
        exact ⟨fun hh => by rw [hp] at hh; exact absurd hh (by decide), fun _ hdn => by simp at hdn, h.2.2⟩
      · simp only [step]
        rw [if_neg hdp, if_neg hw]
        exact stmtTail_stopOk k { g with acc := g.acc ++ [id] } err tn line o l h hd hp

theorem runFrom_stopOk (k : Nat) (tr : List Ev) (g : G) (h : StopOk k g) : StopOk k (runFrom (some k) g tr) := by
  induction tr generalizing g with
  | nil => exact h
  | cons e tr ih => rw [runFrom_cons]; exact ih _ (step_stopOk k g e h)

/-! ## the statement loop -/

theorem loop_true_not_stopped (steps : List Step) (k : Nat) :
    (stmtsLoop (fun _ => true) steps k).stopped = false := by
  induction steps generalizing k with
  | nil => rfl
  | cons s rest ih =>
    simp only [stmtsLoop]
    split
    · rfl
    · simp only [Bool.not_true, Bool.false_eq_true, if_false]
      split
      · rfl
      · exact ih (k + 1)

/-- a yield carries an error only if the loop ends with an error -/
theorem loop_err_of_yield (cont : Nat → Bool) (steps : List Step) (k : Nat) :
    (stmtsLoop cont steps k).yields.any (·.err) = true → (stmtsLoop cont steps k).err = true := by
  induction steps generalizing k with
  | nil => simp [stmtsLoop]
  | cons s rest ih =>
    simp only [stmtsLoop]
    split
    · simp
    · split
      · simp
      · split
        · simp
        · rename_i herr
          have herr' : s.err = false := by simpa using herr
          intro h
          simp only [List.any_cons, herr', Bool.false_or] at h
          exact ih (k + 1) h

/-- a consumer that stops at its j-th call from here sees at most j+1 yields, and fewer if the loop
    ends before -/
theorem loop_stop_bound (cont : Nat → Bool) (steps : List Step) (k j : Nat) (hc : cont (k + j) = false) :
    ((stmtsLoop cont steps k).stopped = true → (stmtsLoop cont steps k).yields.length ≤ j + 1) ∧
    ((stmtsLoop cont steps k).stopped = false → (stmtsLoop cont steps k).yields.length ≤ j) := by
  induction steps generalizing k j with
  | nil => simp [stmtsLoop]
  | cons s rest ih =>
    simp only [stmtsLoop]
    split
    · simp
    · split
      · simp
      · rename_i hck
        have hck' : cont k = true := by simpa using hck
        have hj : j ≠ 0 := by
          intro h0; subst h0; simp [hck'] at hc
        obtain ⟨j', rfl⟩ : ∃ j', j = j' + 1 := ⟨j - 1, by omega⟩
        split
        · simp
        · have := ih (k + 1) j' (by rw [← hc]; congr 1; omega)
          simp only [List.length_cons]
          exact ⟨fun h => by have := this.1 h; omega, fun h => by have := this.2 h; omega⟩

/-- the yields of a stopping consumer are a prefix of those of a consumer that never stops -/
theorem loop_prefix (cont : Nat → Bool) (steps : List Step) (k : Nat) :
    (stmtsLoop cont steps k).yields <+: (stmtsLoop (fun _ => true) steps k).yields ∧
    ((stmtsLoop cont steps k).stopped = false →
      stmtsLoop cont steps k = stmtsLoop (fun _ => true) steps k) := by
  induction steps generalizing k with
  | nil => simp [stmtsLoop]
  | cons s rest ih =>
    simp only [stmtsLoop]
    split
    · simp
    · simp only [Bool.not_true, Bool.false_eq_true, if_false]
      split
      · split
        · simp
        · refine ⟨?_, by simp⟩
          simp only [List.cons_prefix_cons, true_and]
          exact List.nil_prefix
      · split
        · simp
        · obtain ⟨h1, h2⟩ := ih (k + 1)
          refine ⟨?_, ?_⟩
          · simp only [List.cons_prefix_cons, true_and]; exact h1
          · intro hs
            have := h2 hs
            rw [this]

/-! ## reset tables: what `fieldOk` means -/

theorem rhsValue_congr (consts : List (String × String)) (s1 s2 : String → Option String) (f rhs : String)
    (h : ∀ g, negatedField rhs = some g → s1 g = s2 g) :
    rhsValue consts s1 f rhs = rhsValue consts s2 f rhs := by
  unfold rhsValue
  split
  · rfl
  · split
    · rfl
    · cases hn : negatedField rhs with
      | none => rfl
      | some g => simp only [h g hn]

/-! ### after the fix: `w.stopped` -/

/-- invariant: whenever the consumer has returned false, `w.stopped` is set -/
def StopInv (g : G) : Prop := g.panic = false ∧ (g.stopped = true → g.wstopped = true)

theorem yielded_of_not_stopped (g : G) (st : Option Nat) (cb : Cb) (h : g.stopped = false) :
    (g.yielded st cb).panic = g.panic ∧ (g.yielded st cb).done = g.done ∧
    (g.yielded st cb).wstopped = g.wstopped ∧
    ((g.yielded st cb).stopped = true → g.yieldOk st = false) := by
  simp [G.yielded, G.yieldOk, h]

theorem readTail_stopInv (st : Option Nat) (g : G) (nl : Bool) (line o l : Nat) (err ins : Bool)
    (hp : g.panic = false) (hst : g.stopped = false) : StopInv (readTail st g nl line o l err ins) := by
  have key : ∀ cb : Cb,
      StopInv (if g.yieldOk st then { g.yielded st cb with lastLine := line }
               else { g.yielded st cb with wstopped := true }) := by
    intro cb
    obtain ⟨y1, _, _, y4⟩ := yielded_of_not_stopped g st cb hst
    split
    · rename_i hok
      refine ⟨by rw [← hp, ← y1], ?_⟩
      intro hh
      have := y4 hh
      simp [this] at hok
    · exact ⟨by rw [← hp, ← y1], fun _ => rfl⟩
  unfold readTail
  dsimp only
  split
  · split
    · exact key _
    · split
      · exact key _
      · exact ⟨hp, fun hh => by simp [hst] at hh⟩
  · exact ⟨hp, fun hh => by simp [hst] at hh⟩

theorem stmtTail_stopInv (st : Option Nat) (g : G) (err tn : Bool) (line o l : Nat)
    (hp : g.panic = false) (hst : g.stopped = false) : StopInv (stmtTail st g err tn line o l) := by
  unfold stmtTail
  dsimp only
  split
  · obtain ⟨y1, _, _, y4⟩ := yielded_of_not_stopped g st
      { stmts := g.acc, inc := incomplete o l, err := true, fromRead := false, inStmt := false } hst
    have y1' := y1.trans hp
    split
    · rename_i hc
      refine ⟨y1', ?_⟩
      intro hh
      have := y4 hh
      simp [this, y1'] at hc
    · exact ⟨y1', fun _ => rfl⟩
  · split
    · obtain ⟨y1, _, _, y4⟩ := yielded_of_not_stopped g st
        { stmts := g.acc, inc := incomplete o l, err := false, fromRead := false, inStmt := false } hst
      have y1' := y1.trans hp
      split
      · rename_i hc; simp [y1'] at hc
      · split
        · rename_i hok
          refine ⟨y1', ?_⟩
          intro hh
          have := y4 hh
          simp [this] at hok
        · exact ⟨y1', fun _ => rfl⟩
    · exact ⟨hp, fun hh => by simp [hst] at hh⟩

theorem step_stopInv (st : Option Nat) (g : G) (e : Ev) (h : StopInv g)
    (hr : (g.wstopped && !g.done && e.isRead) = false) : StopInv (step st g e) := by
  obtain ⟨hp, hs⟩ := h
  by_cases hdp : (g.done || g.panic) = true
  · cases e <;> simpa [step, hdp] using ⟨hp, hs⟩
  · have hd' : g.done = false := by
      cases hh : g.done <;> simp [hh] at hdp ⊢
    have stopped_false : g.wstopped = false → g.stopped = false := by
      intro hw
      cases hh : g.stopped
      · rfl
      · have := hs hh; simp [hw] at this
    cases e with
    | read nl line o l err ins =>
      have hw : g.wstopped = false := by simpa [Ev.isRead, hd'] using hr
      simp only [step]
      rw [if_neg hdp]
      exact readTail_stopInv st g nl line o l err ins hp (stopped_false hw)
    | stmt id err tn line o l =>
      by_cases hw : g.wstopped = true
      · simp only [step]
        rw [if_neg hdp, if_pos hw]
        exact ⟨hp, fun hh => hs hh⟩
      · have hw' : g.wstopped = false := by simpa using hw
        simp only [step]
        rw [if_neg hdp, if_neg hw]
        exact stmtTail_stopInv st { g with acc := g.acc ++ [id] } err tn line o l hp (stopped_false hw')

theorem runFrom_stopInv (st : Option Nat) (tr : List Ev) (g : G) (h : StopInv g)
    (hr : noReadAfterStop st g tr = true) : StopInv (runFrom st g tr) := by
  induction tr generalizing g with
  | nil => exact h
  | cons e tr ih =>
    rw [runFrom_cons]
    simp only [noReadAfterStop, Bool.and_eq_true, Bool.not_eq_true'] at hr
    exact ih _ (step_stopInv st g e h hr.1) hr.2

/-- the final flush never calls a consumer that has stopped -/
theorem finish_stopInv (st : Option Nat) (g : G) (err : Bool) (o l : Nat) (h : StopInv g) :
    (finish st g err o l).panic = false := by
  obtain ⟨hp, hs⟩ := h
  unfold finish
  rw [if_neg (by simp [hp])]
  split
  · rename_i hc
    have hw : g.wstopped = false := by
      cases hh : g.wstopped <;> simp [hh] at hc ⊢
    have hst : g.stopped = false := by
      cases hh : g.stopped
      · rfl
      · have := hs hh; simp [hw] at this
    have := (yielded_of_not_stopped g st
      { stmts := g.acc, inc := incomplete o l, err := false, fromRead := false, inStmt := false } hst).1
    simpa [hp] using this
  · exact hp

/-- the final flush for a consumer that never stops -/
theorem finish_live (g : G) (hl : Live g) (o l : Nat) :
    ran (finish none g false o l) = ran g ++ (if incomplete o l then [] else accIds g) := by
  obtain ⟨h1, h2, h3, h4⟩ := hl
  unfold finish
  by_cases ha : g.acc.isEmpty = true
  · have : g.acc = [] := by simpa using ha
    simp [h3, h4, this, ran, accIds]
  · simp only [h3, h4, ha, Bool.false_eq_true, if_false, Bool.not_false, Bool.and_self, if_true]
    simp only [ran, G.yielded, h1, Bool.false_eq_true, if_false, ranOf_append_single, accIds]
    cases incomplete o l <;> simp

end ShVerif.C08
