import ShVerif.Proofs.C05
/-
  C05: a syntactic condition under which the printer never takes a state-dependent reordering
  branch (`lossD` stays 0): no `BinaryCmd` whose right operand carries comments both in
  `Y.Comments` and inside `Y`, and no backquoted command substitution that holds nothing but
  one comment (the "`# inline comment`" form).
-/
namespace ShVerif.C05

mutual
  /-- no reordering site below -/
  def nsItem : Item → Bool
    | .li _ => true
    | .bslw _ => true
    | .tnl _ => true
    | .sub kind _ _ _ _ stmts last =>
      !(kind == .backquote && stmts.isEmpty && last.length == 1) && nsStmts stmts
    | .arr _ elems _ => nsElems elems
  def nsItems : List Item → Bool
    | [] => true
    | i :: is => nsItem i && nsItems is
  def nsElems : List Elem → Bool
    | [] => true
    | .mk _ _ items :: es => nsItems items && nsElems es
  def nsStmt : Stmt → Bool
    | .mk _ _ _ _ _ cmd redirs => nsCmd cmd && nsRedirs redirs
  def nsRedirs : List Redir → Bool
    | [] => true
    | .mk _ _ word :: rs => nsItems word && nsRedirs rs
  def nsStmts : List Stmt → Bool
    | [] => true
    | s :: ss => nsStmt s && nsStmts ss
  def nsCmd : Cmd → Bool
    | .none => true
    | .flat items => nsItems items
    | .block _ _ stmts _ => nsStmts stmts
    | .subshell _ _ _ _ _ stmts _ => nsStmts stmts
    | .ifc _ ic => nsIf ic
    | .whilec _ _ _ cond _ _ body _ => nsStmts cond && nsStmts body
    | .forc _ _ loop _ body _ => nsItems loop && nsStmts body
    | .binary _ x y => (y.coms.isEmpty || (acStmt y).isEmpty) && nsStmt x && nsStmt y
    | .func body => nsStmt body
    | .casec _ _ word items _ => nsItems word && nsCaseItems items
    | .wrap pre none => nsItems pre
    | .wrap pre (some s) => nsItems pre && nsStmt s
  def nsIf : IfC → Bool
    | .mk _ _ _ _ cond _ _ thn _ _ none => nsStmts cond && nsStmts thn
    | .mk _ _ _ _ cond _ _ thn _ _ (some e) => nsStmts cond && nsStmts thn && nsIf e
  def nsCaseItems : List CaseItem → Bool
    | [] => true
    | .mk _ _ _ _ _ pats stmts _ :: rest => nsItems pats && nsStmts stmts && nsCaseItems rest
end

/-- The tree has no reordering site: every `BinaryCmd` has `Y.Comments` empty or no comment
    inside `Y`, and there is no backquoted substitution consisting of a single comment. -/
def NoReorderSites (f : File) : Bool := nsStmts f.stmts

/-- `τ` is reached from `σ` without touching the lossy-branch counter. -/
def LStep (σ τ : St) : Prop := τ.lossD = σ.lossD

theorem LStep.refl (σ : St) : LStep σ σ := rfl
theorem LStep.andThen {a b c : St} (h1 : LStep a b) (h2 : LStep b c) : LStep a c := h2.trans h1
local infixl:65 " ⟫ " => LStep.andThen
theorem Keeps.lstep {σ τ : St} (h : Keeps σ τ) : LStep σ τ := h.lossD
theorem Same.lstep {σ τ : St} (h : Same σ τ) : LStep σ τ := h.lossD
theorem LStep.iteId {σ a : St} (c : Prop) [Decidable c] (h : LStep σ a) : LStep σ (if c then a else σ) := by
  split
  · exact h
  · exact LStep.refl σ
theorem flushComments_lstep (o σ) : LStep σ (flushComments o σ) := (flushComments_keeps o σ).lstep
theorem newline_lstep (o p σ) : LStep σ (newline o p σ) := (newline_keeps o p σ).lstep
theorem newlines_lstep (o p σ) : LStep σ (newlines o p σ) := (newlines_keeps o p σ).lstep
theorem semiRsrv_lstep (o p σ) : LStep σ (semiRsrv o p σ) := (semiRsrv_keeps o p σ).lstep
theorem semiOrNewl_lstep (o p σ) : LStep σ (semiOrNewl o p σ) := (semiOrNewl_keeps o p σ).lstep
theorem rightParen_lstep (o p σ) : LStep σ (rightParen o p σ) := (rightParen_keeps o p σ).lstep
theorem nestedPre_lstep (n e c σ) : LStep σ (nestedPre n e c σ) := (nestedPre_keeps n e c σ).lstep
theorem nestedPost_lstep (o c σ) : LStep σ (nestedPost o c σ) := (nestedPost_keeps o c σ).lstep
theorem advLine_lstep (l σ) : LStep σ (advLine l σ) := rfl
theorem bslashNewl_lstep (σ) : LStep σ (bslashNewl σ) := rfl
theorem runL_lstep (o x σ) : LStep σ (runL o x σ) := (runL_same o x σ).lossD

theorem comments_lstep (o : Opts) (cs σ) : LStep σ (comments o cs σ) := by
  unfold comments
  split
  · induction cs generalizing σ with
    | nil => rfl
    | cons c cs ih =>
      simp only [List.foldl_cons]
      refine LStep.andThen ?_ (ih _)
      split <;> rfl
  · rfl

theorem listPost_lstep (o : Opts) (n sep last σ) : LStep σ (listPost o n sep last σ) := by
  unfold listPost
  have h1 : LStep σ (if (decide (n = 1) && !sep) = true then { σ with wantNewline := false } else σ) :=
    LStep.iteId _ rfl
  exact h1 ⟫ comments_lstep o last _

theorem nested_lstep (o : Opts) (req : Bool) (stmts : List Stmt) (last : List Com)
    (endLine : Nat) (closing : Pos) (σ : St) (h : ∀ τ, LStep τ (prStmtLoop o req stmts τ)) :
    LStep σ
      (nestedPost o closing
        (listPost o stmts.length (sepOf stmts (nestedPre stmts.length endLine closing σ)) last
          (prStmtLoop o req stmts (nestedPre stmts.length endLine closing σ)))) :=
  nestedPre_lstep _ _ _ σ ⟫ h _ ⟫ listPost_lstep o _ _ last _ ⟫ nestedPost_lstep o _ _

theorem inlineCand_none (o : Opts) (b : Bool) (l : List Com) (r : Pos) (σ : St)
    (h : (b && l.length == 1) = false) : inlineCand o b l r σ = none := by
  unfold inlineCand
  split
  · cases b <;> simp_all
  · rfl

variable (o : Opts)

mutual
  theorem lstep_item : ∀ (i : Item) (σ : St), nsItem i = true → LStep σ (prItem o i σ)
    | .li x, σ, _ => by simp only [prItem]; exact runL_lstep o x σ
    | .bslw p, σ, _ => by simp only [prItem]; exact LStep.iteId _ (bslashNewl_lstep σ)
    | .tnl p, σ, _ => by simp only [prItem]; exact LStep.iteId _ (newlines_lstep o p σ)
    | .sub kind swl endLine left right stmts last, σ, hw => by
      simp only [nsItem, Bool.and_eq_true, Bool.not_eq_true'] at hw
      cases kind with
      | tempFile =>
        simp only [prItem]
        exact nested_lstep o true stmts last endLine right σ (fun τ => lstep_loop true stmts τ hw.2) ⟫ semiRsrv_lstep o right _
      | replyVar =>
        simp only [prItem]
        exact nested_lstep o false stmts last endLine right σ (fun τ => lstep_loop false stmts τ hw.2) ⟫ semiRsrv_lstep o right _
      | proc =>
        simp only [prItem]
        exact nested_lstep o false stmts last endLine right σ (fun τ => lstep_loop false stmts τ hw.2) ⟫ rightParen_lstep o right _
      | dollar =>
        simp only [prItem]
        exact nested_lstep o swl stmts last endLine right σ (fun τ => lstep_loop swl stmts τ hw.2) ⟫ rightParen_lstep o right _
      | backquote =>
        have hc : (stmts.isEmpty && last.length == 1) = false := by simpa using hw.1
        simp only [prItem, inlineCand_none o _ _ right σ hc]
        exact nested_lstep o swl stmts last endLine right σ (fun τ => lstep_loop swl stmts τ hw.2) ⟫ rightParen_lstep o right _
    | .arr rparen elems last, σ, hw => by
      simp only [nsItem] at hw
      simp only [prItem]
      have h2 : ∀ τ : St, LStep τ (if last.isEmpty = true then τ else flushComments o (comments o last τ)) := by
        intro τ
        split
        · exact LStep.refl τ
        · exact comments_lstep o last τ ⟫ flushComments_lstep o _
      exact lstep_elems elems σ hw ⟫ h2 _ ⟫ rightParen_lstep o rparen _

  theorem lstep_items : ∀ (is : List Item) (σ : St), nsItems is = true → LStep σ (prItems o is σ)
    | [], σ, _ => by simp only [prItems]; exact LStep.refl σ
    | i :: is, σ, hw => by
      simp only [nsItems, Bool.and_eq_true] at hw
      simp only [prItems]
      exact lstep_item i σ hw.1 ⟫ lstep_items is _ hw.2

  theorem lstep_elems : ∀ (es : List Elem) (σ : St), nsElems es = true → LStep σ (prElems o es σ)
    | [], σ, _ => by simp only [prElems]; exact LStep.refl σ
    | .mk pos coms items :: es, σ, hw => by
      simp only [nsElems, Bool.and_eq_true] at hw
      simp only [prElems]
      exact comments_lstep o _ σ ⟫ LStep.iteId _ (newlines_lstep o pos _) ⟫ lstep_items items _ hw.1
        ⟫ comments_lstep o _ _ ⟫ lstep_elems es _ hw.2

  theorem lstep_stmt : ∀ (s : Stmt) (σ : St), nsStmt s = true → LStep σ (prStmt o s σ)
    | .mk pos cmdPos cmdEnd semi coms cmd redirs, σ, hw => by
      simp only [nsStmt, Bool.and_eq_true] at hw
      simp only [prStmt]
      have h1 : LStep σ (if cmd.isNone = true then σ else prCmd o cmd (advLine cmdPos.line σ)) := by
        split
        · exact LStep.refl σ
        · exact advLine_lstep _ σ ⟫ lstep_cmd cmd _ hw.1
      exact h1 ⟫ lstep_redirs redirs _ hw.2 ⟫ LStep.iteId _ (bslashNewl_lstep _)

  theorem lstep_redirs : ∀ (rs : List Redir) (σ : St), nsRedirs rs = true → LStep σ (prRedirs o rs σ)
    | [], σ, _ => by simp only [prRedirs]; exact LStep.refl σ
    | .mk opPos hd word :: rs, σ, hw => by
      simp only [nsRedirs, Bool.and_eq_true] at hw
      simp only [prRedirs]
      have h3 : ∀ τ : St, LStep τ (match hd with
          | some h => { τ with hdocs := τ.hdocs ++ [h] }
          | none => τ) := by
        intro τ
        cases hd with
        | none => exact LStep.refl τ
        | some h => rfl
      exact LStep.iteId _ (bslashNewl_lstep σ) ⟫ lstep_items word _ hw.1 ⟫ h3 _ ⟫ lstep_redirs rs _ hw.2

  theorem lstep_loop : ∀ (req : Bool) (ss : List Stmt) (σ : St), nsStmts ss = true → LStep σ (prStmtLoop o req ss σ)
    | _, [], σ, _ => by simp only [prStmtLoop]; exact LStep.refl σ
    | req, s :: ss, σ, hw => by
      simp only [nsStmts, Bool.and_eq_true] at hw
      simp only [prStmtLoop]
      have hk : ∀ τ : St, LStep τ ({ τ with wantNewline := true } : St) := fun τ => rfl
      exact comments_lstep o _ σ ⟫ LStep.iteId _ (newlines_lstep o s.pos _) ⟫ advLine_lstep _ _
        ⟫ comments_lstep o _ _ ⟫ lstep_stmt s _ hw.1 ⟫ comments_lstep o _ _ ⟫ hk _
        ⟫ lstep_loop true ss _ hw.2

  theorem lstep_cmd : ∀ (c : Cmd) (σ : St), nsCmd c = true → LStep σ (prCmd o c σ)
    | .none, σ, _ => by simp only [prCmd]; exact LStep.refl σ
    | .flat items, σ, hw => by simp only [nsCmd] at hw; simp only [prCmd]; exact lstep_items items σ hw
    | .block rbrace endLine stmts last, σ, hw => by
      simp only [nsCmd] at hw
      simp only [prCmd]
      have h0 : LStep σ ({ σ with wantNewline := σ.wantNewline || o.funcNextLine } : St) := rfl
      exact h0 ⟫ nested_lstep o true stmts last endLine rbrace _ (fun τ => lstep_loop true stmts τ hw)
        ⟫ semiRsrv_lstep o rbrace _
    | .subshell swl firstLine lparen rparen endLine stmts last, σ, hw => by
      simp only [nsCmd] at hw
      simp only [prCmd]
      have h0 : LStep σ (if (swl && (lparen.line != firstLine || decide (1 < stmts.length)) && !o.singleLine && o.minify) = true
          then ({ σ with mustNewline := true } : St) else σ) := LStep.iteId _ rfl
      exact h0 ⟫ nested_lstep o false stmts last endLine rparen _ (fun τ => lstep_loop false stmts τ hw)
        ⟫ rightParen_lstep o rparen _
    | .ifc fi ic, σ, hw => by simp only [nsCmd] at hw; simp only [prCmd]; exact lstep_if fi ic σ hw
    | .whilec doPos donePos condEnd cond condLast doEnd body doLast, σ, hw => by
      simp only [nsCmd, Bool.and_eq_true] at hw
      simp only [prCmd]
      have h1 := nested_lstep o true cond condLast condEnd Pos.none σ (fun τ => lstep_loop true cond τ hw.1)
      simp only [nestedPost, Pos.none, Bool.false_eq_true, ↓reduceIte] at h1
      exact h1 ⟫ semiOrNewl_lstep o doPos _
        ⟫ nested_lstep o true body doLast doEnd donePos _ (fun τ => lstep_loop true body τ hw.2)
        ⟫ semiRsrv_lstep o donePos _
    | .forc doPos donePos loop doEnd body doLast, σ, hw => by
      simp only [nsCmd, Bool.and_eq_true] at hw
      simp only [prCmd]
      exact lstep_items loop σ hw.1 ⟫ semiOrNewl_lstep o doPos _
        ⟫ nested_lstep o true body doLast doEnd donePos _ (fun τ => lstep_loop true body τ hw.2)
        ⟫ semiRsrv_lstep o donePos _
    | .binary opPos x y, σ, hw => by
      simp only [nsCmd, Bool.and_eq_true] at hw
      simp only [prCmd]
      have sx := lstep_stmt x σ hw.1.2
      split
      · simp only [hw.1.1, ↓reduceIte]
        exact sx ⟫ advLine_lstep _ _ ⟫ lstep_stmt y _ hw.2 ⟫ comments_lstep o _ _
      · have hmid : ∀ τ : St, LStep τ
            (if o.binNextLine = true then
              (if y.coms.isEmpty = true then (if τ.hdocs.isEmpty = true then bslashNewl τ else τ)
               else newline o Pos.none (comments o y.coms (newline o y.pos (if τ.hdocs.isEmpty = true then bslashNewl τ else τ))))
             else newline o Pos.none (comments o y.coms (advLine opPos.line τ))) := by
          intro τ
          split
          · split
            · exact LStep.iteId _ (bslashNewl_lstep τ)
            · exact LStep.iteId _ (bslashNewl_lstep τ) ⟫ newline_lstep o _ _ ⟫ comments_lstep o _ _
                ⟫ newline_lstep o _ _
          · exact advLine_lstep _ τ ⟫ comments_lstep o _ _ ⟫ newline_lstep o _ _
        exact sx ⟫ hmid _ ⟫ advLine_lstep _ _ ⟫ lstep_stmt y _ hw.2
    | .func body, σ, hw => by
      simp only [nsCmd] at hw
      simp only [prCmd]
      exact LStep.iteId _ (newline_lstep o Pos.none σ) ⟫ advLine_lstep _ _ ⟫ comments_lstep o _ _
        ⟫ lstep_stmt body _ hw
    | .casec inLine esac word items last, σ, hw => by
      simp only [nsCmd, Bool.and_eq_true] at hw
      simp only [prCmd]
      have hk : ∀ τ : St, LStep τ (if items.isEmpty = true then ({ τ with mustNewline := true } : St) else τ) :=
        fun τ => LStep.iteId _ rfl
      exact lstep_items word σ hw.1 ⟫ advLine_lstep _ _ ⟫ hk _ ⟫ lstep_caseItems items _ hw.2
        ⟫ comments_lstep o last _ ⟫ LStep.iteId _ (flushComments_lstep o _) ⟫ semiRsrv_lstep o esac _
    | .wrap pre none, σ, hw => by
      simp only [nsCmd] at hw
      simp only [prCmd]; exact lstep_items pre σ hw
    | .wrap pre (some s), σ, hw => by
      simp only [nsCmd, Bool.and_eq_true] at hw
      simp only [prCmd]; exact lstep_items pre σ hw.1 ⟫ lstep_stmt s _ hw.2 ⟫ comments_lstep o _ _

  theorem lstep_if : ∀ (fi : Pos) (ic : IfC) (σ : St), nsIf ic = true → LStep σ (prIf o fi ic σ)
    | fi, .mk position hasThen thenPos condEnd cond condLast thenEnd thn thenLast last none, σ, hw => by
      simp only [nsIf, Bool.and_eq_true] at hw
      simp only [prIf]
      have h1 := nested_lstep o true cond condLast condEnd Pos.none σ (fun τ => lstep_loop true cond τ hw.1)
      simp only [nestedPost, Pos.none, Bool.false_eq_true, ↓reduceIte] at h1
      exact h1 ⟫ semiOrNewl_lstep o thenPos _
        ⟫ nested_lstep o true thn thenLast thenEnd fi _ (fun τ => lstep_loop true thn τ hw.2)
        ⟫ comments_lstep o last _ ⟫ semiRsrv_lstep o fi _
    | fi, .mk position hasThen thenPos condEnd cond condLast thenEnd thn thenLast last (some e), σ, hw => by
      simp only [nsIf, Bool.and_eq_true] at hw
      simp only [prIf]
      have h1 := nested_lstep o true cond condLast condEnd Pos.none σ (fun τ => lstep_loop true cond τ hw.1.1)
      simp only [nestedPost, Pos.none, Bool.false_eq_true, ↓reduceIte] at h1
      have h2 := fun τ => nested_lstep o true thn thenLast thenEnd e.position τ (fun τ => lstep_loop true thn τ hw.1.2)
      split
      · exact h1 ⟫ semiOrNewl_lstep o thenPos _ ⟫ h2 _ ⟫ comments_lstep o last _
          ⟫ semiRsrv_lstep o e.position _ ⟫ lstep_if fi e _ hw.2
      · exact h1 ⟫ semiOrNewl_lstep o thenPos _ ⟫ h2 _ ⟫ comments_lstep o _ _
          ⟫ semiRsrv_lstep o e.position _ ⟫ comments_lstep o _ _ ⟫ lstep_else fi e _ hw.2
          ⟫ semiRsrv_lstep o fi _

  theorem lstep_else : ∀ (fi : Pos) (e : IfC) (σ : St), nsIf e = true → LStep σ (prElse o fi e σ)
    | fi, .mk position hasThen thenPos condEnd cond condLast thenEnd thn thenLast last none, σ, hw => by
      simp only [nsIf, Bool.and_eq_true] at hw
      simp only [prElse]
      exact nested_lstep o true thn thenLast thenEnd fi σ (fun τ => lstep_loop true thn τ hw.2)
        ⟫ comments_lstep o last _
    | fi, .mk position hasThen thenPos condEnd cond condLast thenEnd thn thenLast last (some e), σ, hw => by
      simp only [nsIf, Bool.and_eq_true] at hw
      simp only [prElse]
      exact nested_lstep o true thn thenLast thenEnd fi σ (fun τ => lstep_loop true thn τ hw.1.2)
        ⟫ comments_lstep o last _

  theorem lstep_caseItems : ∀ (cis : List CaseItem) (σ : St), nsCaseItems cis = true → LStep σ (prCaseItems o cis σ)
    | [], σ, _ => by simp only [prCaseItems]; exact LStep.refl σ
    | .mk pos opPos opBreak endLine coms pats stmts last :: rest, σ, hw => by
      simp only [nsCaseItems, Bool.and_eq_true] at hw
      simp only [prCaseItems]
      have hop : ∀ τ : St, LStep τ
          (if (!o.minify || !rest.isEmpty || !opBreak) = true then
            advLine opPos.line (if wantsNewline o τ opPos false = true then { newlines o opPos τ with wantNewline := true } else τ)
           else τ) := by
        intro τ
        refine LStep.iteId _ ?_
        have : LStep τ (if wantsNewline o τ opPos false = true then ({ newlines o opPos τ with wantNewline := true } : St) else τ) := by
          refine LStep.iteId _ ?_
          exact (newlines_lstep o opPos τ : LStep τ (newlines o opPos τ))
        exact this ⟫ advLine_lstep _ _
      exact comments_lstep o _ σ ⟫ newlines_lstep o pos _ ⟫ lstep_items pats _ hw.1.1
        ⟫ nested_lstep o false stmts last endLine opPos _ (fun τ => lstep_loop false stmts τ hw.1.2)
        ⟫ hop _ ⟫ comments_lstep o _ _ ⟫ flushComments_lstep o _ ⟫ lstep_caseItems rest _ hw.2
end

end ShVerif.C05
