import ShVerif.Model.C36
/-
  C36 — helper lemmas for the property theorems in ShVerif/Props/C36.lean.
-/
namespace ShVerif.C36

/-! ## outcome -/

theorem outcome_listed (list : Tri) (w d : Bool) (path src res dt : Bytes) (reg : Bool) :
    (outcome list w d path src res dt reg).listed = true ↔ (list ≠ .off ∧ res ≠ src) := by
  unfold outcome
  by_cases h : src = res
  · subst h; simp; split <;> simp
  · have h' : res ≠ src := fun e => h e.symm
    simp only [h, ne_eq, not_false_eq_true, ↓reduceIte, h', and_true]
    cases list <;> cases w <;> cases d <;> cases reg <;> simp

theorem outcome_fail_list (list : Tri) (d : Bool) (path src res dt : Bytes) (reg : Bool)
    (hl : list ≠ .off) :
    (outcome list false d path src res dt reg).fail = true ↔ res ≠ src := by
  unfold outcome
  by_cases h : src = res
  · subst h; simp; split <;> simp
  · have h' : res ≠ src := fun e => h e.symm
    simp only [h, ne_eq, not_false_eq_true, ↓reduceIte, h']
    cases list <;> cases d <;> simp at hl ⊢

theorem outcome_errLine_nowrite (list : Tri) (d : Bool) (path src res dt : Bytes) (reg : Bool) :
    (outcome list false d path src res dt reg).errLine = none := by
  unfold outcome
  by_cases h : src = res
  · subst h; simp; split <;> simp
  · simp only [h, ne_eq, not_false_eq_true, ↓reduceIte]
    cases list <;> cases d <;> simp

theorem outcome_same (list : Tri) (w d : Bool) (path src dt : Bytes) (reg : Bool) :
    (outcome list w d path src src dt reg).listed = false := by
  unfold outcome; simp; split <;> simp

theorem outcome_write (list : Tri) (w d : Bool) (path src res dt : Bytes) (reg : Bool) (r : Bytes)
    (h : (outcome list w d path src res dt reg).write = some r) : r = res ∧ src ≠ res ∧ w = true := by
  unfold outcome at h
  by_cases hs : src = res
  · subst hs; simp at h; split at h <;> simp at h
  · simp only [hs, ne_eq, not_false_eq_true, ↓reduceIte] at h
    cases list <;> cases w <;> cases d <;> cases reg <;> simp_all

theorem outcome_diffed (list : Tri) (w : Bool) (path src res dt : Bytes) (reg : Bool) :
    (outcome list w true path src res dt reg).diffed = true ↔ (res ≠ src ∧ ¬ (w = true ∧ reg = false)) := by
  unfold outcome
  by_cases h : src = res
  · subst h; simp
  · have h' : res ≠ src := fun e => h e.symm
    simp only [h, ne_eq, not_false_eq_true, ↓reduceIte, h', true_and]
    cases list <;> cases w <;> cases reg <;> simp

theorem outcome_diff_stdout (list : Tri) (w : Bool) (path src res dt : Bytes) (reg : Bool)
    (h : (outcome list w true path src res dt reg).diffed = true) :
    (outcome list w true path src res dt reg).stdout = listLine list path ++ dt := by
  have h2 := (outcome_diffed list w path src res dt reg).mp h
  obtain ⟨h3, h4⟩ := h2
  have hs : src ≠ res := fun e => h3 e.symm
  unfold outcome
  simp only [hs, ne_eq, not_false_eq_true, ↓reduceIte]
  cases w <;> cases reg <;> simp_all

theorem outcome_nodiff (list : Tri) (w : Bool) (path src res dt : Bytes) (reg : Bool) :
    (outcome list w false path src res dt reg).diffed = false := by
  unfold outcome
  by_cases h : src = res
  · subst h; simp; split <;> simp
  · simp only [h, ne_eq, not_false_eq_true, ↓reduceIte]
    cases list <;> cases w <;> cases reg <;> simp

/-! ## formatBytes / formatPath under `-l` without `-w` -/

theorem formatBytes_fail_iff (F : Fmt) (D : Dif) (f : Flags) (e : Entry) (path src : Bytes) (l : Lang)
    (hl : f.list ≠ .off) (hw : f.write = false) :
    (formatBytes F D f e path src l).fail = true ↔
      ((formatBytes F D f e path src l).listed = true ∨ (formatBytes F D f e path src l).errLine.isSome = true) := by
  unfold formatBytes
  cases resolveOpts f e l with
  | none => simp
  | some ob =>
    obtain ⟨o, fromEC⟩ := ob
    simp only
    cases F o path src with
    | unknown => simp
    | err m => simp
    | langErr m => simp
    | ok res =>
      simp only [hw]
      rw [outcome_fail_list _ _ _ _ _ _ _ hl, outcome_listed, outcome_errLine_nowrite]
      simp [hl]

theorem formatPath_fail_iff (F : Fmt) (D : Dif) (f : Flags) (e : Entry) (cs : Bool)
    (hl : f.list ≠ .off) (hw : f.write = false) :
    (formatPath F D f e cs).fail = true ↔
      ((formatPath F D f e cs).listed = true ∨ (formatPath F D f e cs).errLine.isSome = true) := by
  unfold formatPath
  simp only
  split
  · simp
  · split
    · simp
    · split
      · simp
      · simp
      · exact formatBytes_fail_iff F D f e _ _ _ hl hw

/-! ## the walk -/

theorem visit_fail_iff (F : Fmt) (D : Dif) (f : Flags) (e : Entry)
    (hl : f.list ≠ .off) (hw : f.write = false) :
    visitFails (visit F D f e) = true ↔
      (listedV (visit F D f e) = true ∨ errorV (visit F D f e) = true) := by
  unfold visit
  cases visitDecision f e with
  | format cs => simpa [visitFails, listedV, errorV] using formatPath_fail_iff F D f e cs hl hw
  | skip => simp [visitFails, listedV, errorV]
  | skipDir => simp [visitFails, listedV, errorV]
  | error m => simp [visitFails, listedV, errorV]
  | panic => simp [visitFails, listedV, errorV]

theorem visits_mem (F : Fmt) (D : Dif) (f : Flags) (es : List Entry) (sk : Option Bytes)
    (e : Entry) (v : Visit) (h : (e, v) ∈ visits F D f es sk) : v = visit F D f e := by
  induction es generalizing sk with
  | nil => simp [visits] at h
  | cons x rest ih =>
    unfold visits at h
    simp only at h
    split at h
    · split at h
      · exact ih _ h
      · rcases List.mem_cons.mp h with h1 | h1
        · cases h1; rfl
        · exact ih _ h1
    · rcases List.mem_cons.mp h with h1 | h1
      · cases h1; rfl
      · exact ih _ h1

/-- Status bookkeeping of `collect`: without a panic, the status is non-zero exactly when it
    was already or some visit failed. -/
theorem collect_status (vs : List (Entry × Visit)) (o : Out)
    (hp : (collect vs o).panicked = false) :
    (collect vs o).status ≠ 0 ↔ (o.status ≠ 0 ∨ ∃ ev ∈ vs, visitFails ev.2 = true) := by
  induction vs generalizing o with
  | nil => simp [collect]
  | cons ev rest ih =>
    obtain ⟨e, v⟩ := ev
    cases v with
    | panic => simp [collect] at hp
    | skip =>
      simp only [collect] at hp ⊢
      rw [ih o hp]; simp [visitFails]
    | skipDir =>
      simp only [collect] at hp ⊢
      rw [ih o hp]; simp [visitFails]
    | error m =>
      simp only [collect] at hp ⊢
      rw [ih _ hp]; simp [visitFails]
    | step s =>
      simp only [collect] at hp ⊢
      by_cases hsp : s.panicked = true
      · simp [hsp] at hp
      · simp only [hsp, Bool.false_eq_true, ↓reduceIte] at hp ⊢
        rw [ih _ hp]
        by_cases hf : s.fail = true <;> simp [visitFails, hf]

/-! ## -w then -l -/

theorem fileLang_lFlags (f : Flags) (p s : Bytes) : fileLang (lFlags f) p s = fileLang f p s := rfl

theorem resolveOpts_lFlags (f : Flags) (e : Entry) (src : Bytes) (l : Lang) :
    resolveOpts (lFlags f) { e with src := src } l = resolveOpts f e l := rfl

theorem visitDecision_lFlags (f : Flags) (e : Entry) (src : Bytes) :
    visitDecision (lFlags f) { e with src := src } = visitDecision f e := rfl

theorem formatBytes_write (F : Fmt) (D : Dif) (f : Flags) (e : Entry) (path src : Bytes) (l : Lang) (r : Bytes)
    (h : (formatBytes F D f e path src l).write = some r) :
    ∃ o b, resolveOpts f e l = some (o, b) ∧ F o path src = .ok r ∧ src ≠ r := by
  unfold formatBytes at h
  cases hro : resolveOpts f e l with
  | none => simp [hro] at h
  | some ob =>
    obtain ⟨o, b⟩ := ob
    simp only [hro] at h
    cases hF : F o path src with
    | unknown => simp [hF] at h
    | err m => simp [hF] at h
    | langErr m => simp [hF] at h
    | ok res =>
      simp only [hF] at h
      obtain ⟨h1, h2, _⟩ := outcome_write _ _ _ _ _ _ _ _ _ h
      subst h1
      exact ⟨o, b, rfl, hF, h2⟩

/-- `formatBytes` on bytes the formatter maps to themselves lists nothing. -/
theorem formatBytes_fixed (F : Fmt) (D : Dif) (f : Flags) (e : Entry) (path src : Bytes) (l : Lang)
    (o : Opts) (b : Bool) (hro : resolveOpts f e l = some (o, b)) (hF : F o path src = .ok src) :
    (formatBytes F D f e path src l).listed = false := by
  unfold formatBytes
  simp only [hro, hF]
  exact outcome_same _ _ _ _ _ _ _

/-- Nothing is listed when nothing differs or an error is reported. -/
theorem formatBytes_listed (F : Fmt) (D : Dif) (f : Flags) (e : Entry) (path src : Bytes) (l : Lang)
    (h : (formatBytes F D f e path src l).listed = true) :
    ∃ o b r, resolveOpts f e l = some (o, b) ∧ F o path src = .ok r ∧ r ≠ src := by
  unfold formatBytes at h
  cases hro : resolveOpts f e l with
  | none => simp [hro] at h
  | some ob =>
    obtain ⟨o, b⟩ := ob
    simp only [hro] at h
    cases hF : F o path src with
    | unknown => simp [hF] at h
    | err m => simp [hF] at h
    | langErr m => simp [hF] at h
    | ok res =>
      simp only [hF] at h
      exact ⟨o, b, res, rfl, hF, ((outcome_listed _ _ _ _ _ _ _ _).mp h).2⟩

theorem formatPath_w_then_l (F : Fmt) (D : Dif) (idem : Idempotent F) (f : Flags) (e : Entry) (cs : Bool)
    (hreg : e.kind = .reg) (hw : f.write = true)
    (stable : ∀ r, (formatPath F D f e cs).write = some r →
        fileLang f e.path r = fileLang f e.path e.src) :
    (formatPath F D (lFlags f)
        { e with src := contentAfter (formatPath F D f e cs) e.src } cs).listed = false := by
  -- was anything written?
  cases hwr : (formatPath F D f e cs).write with
  | some r =>
    have hst := stable r hwr
    -- the first run went through formatBytes and wrote the formatter's output
    have h1 : ∃ o b, resolveOpts f e (fileLang f e.path e.src) = some (o, b) ∧
        F o e.path e.src = .ok r := by
      unfold formatPath at hwr
      simp only at hwr
      split at hwr
      · simp at hwr
      · split at hwr
        · simp at hwr
        · split at hwr
          · simp at hwr
          · simp at hwr
          · obtain ⟨o, b, h1, h2, _⟩ := formatBytes_write _ _ _ _ _ _ _ _ hwr
            exact ⟨o, b, h1, h2⟩
    obtain ⟨o, b, hro, hF⟩ := h1
    have hFr : F o e.path r = .ok r := idem _ _ _ _ hF
    simp only [contentAfter, hwr, Option.getD_some]
    unfold formatPath
    simp only
    split
    · rfl
    · split
      · rfl
      · split
        · rfl
        · rfl
        · rw [fileLang_lFlags, hst]
          exact formatBytes_fixed F D (lFlags f) _ e.path r _ o b
            (by rw [resolveOpts_lFlags]; exact hro) hFr
  | none =>
    -- nothing written: the file is unchanged, and the second run sees what the first one saw
    simp only [contentAfter, hwr, Option.getD_none]
    apply Bool.eq_false_iff.mpr
    intro hl
    -- if the second run lists the file, the formatter's result differs, so the first run wrote it
    have h2 : ∃ o b r, resolveOpts f e (fileLang f e.path e.src) = some (o, b) ∧
        F o e.path e.src = .ok r ∧ r ≠ e.src ∧ f.find = .off ∧
        (formatPath F D f e cs) = formatBytes F D f e e.path e.src (fileLang f e.path e.src) := by
      unfold formatPath at hl
      simp only at hl
      split at hl
      · simp at hl
      · rename_i hA
        split at hl
        · simp at hl
        · rename_i hB
          have hfind : (lFlags f).find = f.find := rfl
          split at hl
          · simp at hl
          · simp at hl
          · rename_i hC
            rw [hfind] at hC
            obtain ⟨o, b, r, g1, g2, g3⟩ := formatBytes_listed _ _ _ _ _ _ _ hl
            refine ⟨o, b, r, g1, g2, g3, hC, ?_⟩
            unfold formatPath
            simp only [hA, hB, hC]
            simp
    obtain ⟨o, b, r, g1, g2, g3, g4, g5⟩ := h2
    rw [g5] at hwr
    unfold formatBytes at hwr
    simp only [g1, g2] at hwr
    unfold outcome at hwr
    have hne : e.src ≠ r := fun h => g3 h.symm
    simp [hne, hw, hreg] at hwr
    split at hwr <;> simp at hwr

/-! ## language selection -/

theorem matchName_mem (s : Bytes) (ns : List Bytes) : matchName s ns = [] ∨ matchName s ns ∈ ns := by
  induction ns with
  | nil => left; rfl
  | cons n rest ih =>
    unfold matchName
    cases stripLit s n with
    | none =>
      simp only
      rcases ih with h | h
      · left; exact h
      · right; exact List.mem_cons_of_mem _ h
    | some r =>
      simp only
      cases r with
      | nil => right; exact List.mem_cons_self
      | cons c _ =>
        simp only
        split
        · right; exact List.mem_cons_self
        · rcases ih with h | h
          · left; exact h
          · right; exact List.mem_cons_of_mem _ h

theorem shebang_mem (bs : Bytes) : shebang bs = [] ∨ shebang bs ∈ shellNames := by
  unfold shebang
  split
  · left; rfl
  · split
    · left; rfl
    · simp only
      split
      · left; rfl
      · exact matchName_mem _ _

theorem langFromShebang_ne_auto (hd : Bytes) : langFromShebang hd ≠ .auto := by
  unfold langFromShebang
  rcases shebang_mem hd with h | h
  · rw [h]; decide
  · have : ∀ n ∈ shellNames, (langOfName n).getD .bash ≠ .auto := by decide
    exact this _ h

theorem fileLang_ne_auto (f : Flags) (p s : Bytes) : fileLang f p s ≠ .auto := by
  unfold fileLang
  simp only
  split
  · rename_i h; simpa using h
  · split
    · rename_i h; simpa using h
    · exact langFromShebang_ne_auto _

theorem stdinLang_ne_auto (f : Flags) (n s : Bytes) : stdinLang f n s ≠ .auto := by
  unfold stdinLang
  simp only
  split
  · rename_i h; simpa using h
  · split
    · rename_i h; simpa using h
    · exact langFromShebang_ne_auto _

theorem headOf_short (s : Bytes) (h : s.length ≤ 32) : headOf s = s := by
  unfold headOf; exact List.take_of_length_le h

theorem stdinLang_eq_fileLang_short (f : Flags) (n s : Bytes) (h : s.length ≤ 32) :
    stdinLang f n s = fileLang f n s := by
  unfold stdinLang fileLang; rw [headOf_short s h]

theorem stdinLang_eq_fileLang_ln (f : Flags) (n p s : Bytes) (h : lnVal f ≠ .auto) :
    stdinLang f n s = lnVal f ∧ fileLang f p s = lnVal f := by
  unfold stdinLang fileLang; simp [h]

theorem stdinLang_eq_fileLang_name (f : Flags) (n s : Bytes) (h : langFromFilename n ≠ .auto) :
    stdinLang f n s = fileLang f n s := by
  unfold stdinLang fileLang; simp [h]

/-! ## options -/

theorem propsOptions_isSome (l : Lang) (p : Props) (hl : l ≠ .auto) :
    propsOptions l p ≠ none := by
  unfold propsOptions
  cases h : langOfName (pget p (asc "shell_variant")) with
  | none => simp [hl]
  | some v => cases v <;> simp [hl]

theorem resolveOpts_flags (f : Flags) (e : Entry) (l : Lang) (h : useEC f = false) :
    resolveOpts f e l = some (optsOfFlags f l, false) := by
  unfold resolveOpts; simp [h]

/-! ## the diff model -/

theorem commonPrefix_le (a b : List Bytes) : commonPrefix a b ≤ a.length := by
  induction a generalizing b with
  | nil => simp [commonPrefix]
  | cons x xs ih =>
    cases b with
    | nil => simp [commonPrefix]
    | cons y ys =>
      simp only [commonPrefix]
      split
      · simp only [List.length_cons]; exact Nat.succ_le_succ (ih ys)
      · exact Nat.zero_le _

theorem commonPrefix_take (a b : List Bytes) :
    a.take (commonPrefix a b) = b.take (commonPrefix a b) := by
  induction a generalizing b with
  | nil => simp [commonPrefix]
  | cons x xs ih =>
    cases b with
    | nil => simp [commonPrefix]
    | cons y ys =>
      simp only [commonPrefix]
      split
      · rename_i h; subst h
        simp only [List.take_succ_cons]
        rw [ih ys]
      · simp

theorem simpleDiff_law (a b : List Bytes) : applyScript (simpleDiff a b) a = some b := by
  unfold simpleDiff applyScript
  by_cases h : a = b
  · subst h; simp [applyFrom]
  · simp only [h, ↓reduceIte]
    simp only [applyFrom, Nat.not_lt_zero, ↓reduceIte, Nat.sub_zero]
    have hle := commonPrefix_le a b
    have h1 : ¬ a.length < commonPrefix a b := Nat.not_lt.mpr hle
    simp only [h1, ↓reduceIte, List.length_drop]
    have h2 : List.take (a.length - commonPrefix a b) (List.drop (commonPrefix a b) a)
        = List.drop (commonPrefix a b) a := by
      apply List.take_of_length_le; simp
    simp only [h2, ↓reduceIte]
    have h3 : List.drop (a.length - commonPrefix a b) (List.drop (commonPrefix a b) a) = [] := by
      apply List.drop_of_length_le; simp
    simp only [h3, List.append_nil]
    rw [commonPrefix_take a b, List.take_append_drop]

end ShVerif.C36
