import ShVerif.Model.C36
/-
  C36 — helper lemmas for the property theorems in ShVerif/Props/C36.lean.
-/
namespace ShVerif.C36

/-! ## outcome -/

theorem outcome_listed (list : Tri) (w d : Bool) (path src res dt : Bytes) (reg : Bool) :
    (outcome list w d path src res dt reg).listed = true ↔ (list ≠ .off ∧ res ≠ src) := by
  unfold outcome
  by_cases h : src = res
  · subst h; simp; split <;> simp
  · have h' : res ≠ src := fun e => h e.symm
    simp only [h, ne_eq, not_false_eq_true, ↓reduceIte, h', and_true]
    cases list <;> cases w <;> cases d <;> cases reg <;> simp

theorem outcome_fail_list (list : Tri) (d : Bool) (path src res dt : Bytes) (reg : Bool)
    (hl : list ≠ .off) :
    (outcome list false d path src res dt reg).fail = true ↔ res ≠ src := by
  unfold outcome
  by_cases h : src = res
  · subst h; simp; split <;> simp
  · have h' : res ≠ src := fun e => h e.symm
    simp only [h, ne_eq, not_false_eq_true, ↓reduceIte, h']
    cases list <;> cases d <;> simp at hl ⊢

end ShVerif.C36
