import ShVerif.Model.C14
namespace ShVerif.C14
end ShVerif.C14
