import ShVerif.Model.C14
/-
  C14 — helper lemmas for Props/C14.lean (core Lean only).
-/
namespace ShVerif.C14

/-! ### Generic list lemmas -/

theorem perm_flatMap_congr {α β} {l : List α} {f g : α → List β}
    (h : ∀ x ∈ l, (f x).Perm (g x)) : (l.flatMap f).Perm (l.flatMap g) := by
  induction l with
  | nil => exact .refl _
  | cons a l ih =>
    simp only [List.flatMap_cons]
    exact (h a (by simp)).append (ih fun x hx => h x (by simp [hx]))

theorem flatMap_append_perm {α β} (l : List α) (f g : α → List β) :
    (l.flatMap f ++ l.flatMap g).Perm (l.flatMap fun x => f x ++ g x) := by
  induction l with
  | nil => exact .refl _
  | cons a l ih =>
    simp only [List.flatMap_cons]
    -- (f a ++ F) ++ (g a ++ G) ~ (f a ++ g a) ++ FG
    have h1 : (f a ++ l.flatMap f ++ (g a ++ l.flatMap g)).Perm
        (f a ++ g a ++ (l.flatMap f ++ l.flatMap g)) := by
      simp only [List.append_assoc]
      refine List.Perm.append_left _ ?_
      simp only [← List.append_assoc]
      exact List.Perm.append_right _ List.perm_append_comm
    exact h1.trans (List.Perm.append_left _ ih)

theorem flatMap_range_ite {β} (a : Nat) (v : List β) (n : Nat) :
    (List.range n).flatMap (fun s => if a = s then v else []) = if a < n then v else [] := by
  induction n with
  | zero => simp
  | succ n ih =>
    rw [List.range_succ, List.flatMap_append, ih]
    by_cases h1 : a < n
    · have h2 : a ≠ n := by omega
      have h3 : a < n + 1 := by omega
      simp [h1, h2, h3]
    · by_cases h2 : a = n
      · have h3 : a < n + 1 := by omega
        simp [h2]
      · have h3 : ¬ a < n + 1 := by omega
        simp [h1, h2, h3]

/-- Regrouping a flatMap over a list by a bounded key. -/
theorem flatMap_range_filter {α β} (key : α → Nat) (g : α → List β) (n : Nat) (l : List α)
    (hb : ∀ x ∈ l, key x < n) :
    ((List.range n).flatMap fun s => (l.filter fun x => key x = s).flatMap g).Perm (l.flatMap g) := by
  induction l with
  | nil => simp
  | cons a l ih =>
    have ha : key a < n := hb a (by simp)
    have hl : ∀ x ∈ l, key x < n := fun x hx => hb x (by simp [hx])
    have e : (fun s => ((a :: l).filter fun x => key x = s).flatMap g)
        = fun s => (if key a = s then g a else []) ++ (l.filter fun x => key x = s).flatMap g := by
      funext s
      by_cases h : key a = s <;> simp [h]
    rw [e]
    refine (flatMap_append_perm _ _ _).symm.trans ?_
    rw [flatMap_range_ite, if_pos ha, List.flatMap_cons]
    exact List.Perm.append_left _ (ih hl)

/-! ### enters -/

theorem enters_append (a b : List Ev) : enters (a ++ b) = enters a ++ enters b := by
  induction a with
  | nil => rfl
  | cons e a ih => cases e <;> simp [enters, ih]

theorem enters_flatMap {α} (l : List α) (f : α → List Ev) :
    enters (l.flatMap f) = l.flatMap fun x => enters (f x) := by
  induction l with
  | nil => rfl
  | cons a l ih => simp [List.flatMap_cons, enters_append, ih]

theorem visibleList_eq (keep : Nat → Bool) (ks : List Tree) :
    visibleList keep ks = ks.flatMap (visible keep) := by
  induction ks with
  | nil => simp [visibleList]
  | cons k ks ih => simp [visibleList, ih]

mutual
  theorem visible_true : ∀ t : Tree, visible (fun _ => true) t = allIds t
    | .node _ id _ _ kids => by
      simp only [visible, allIds, if_true]
      rw [visibleList_true kids]
  theorem visibleList_true : ∀ ks : List Tree, visibleList (fun _ => true) ks = allIdsList ks
    | [] => by simp [visibleList, allIdsList]
    | k :: ks => by
      simp only [visibleList, allIdsList]
      rw [visible_true k, visibleList_true ks]
end

/-! ### Per-slot visits as permutations of the slot's children -/

section perm
variable (tbl : Table) (keep : Nat → Bool)

theorem sel_perm (s : Nat) (kids : List Tree)
    (H : ∀ k ∈ kids, (enters (walk tbl keep k)).Perm (visible keep k)) :
    (enters (walkSel tbl keep s kids)).Perm ((kids.filter fun k => k.slot = s).flatMap (visible keep)) := by
  induction kids with
  | nil => simp [walkSel, enters]
  | cons k ks ih =>
    have hk := H k (by simp)
    have ih := ih fun x hx => H x (by simp [hx])
    simp only [walkSel, enters_append]
    by_cases h : k.slot = s
    · simp only [h, if_true, List.filter_cons, decide_true, List.flatMap_cons]
      exact hk.append ih
    · simpa [h, enters] using ih

theorem req_perm (s : Nat) (kids : List Tree) (hc : slotCount s kids = 1)
    (H : ∀ k ∈ kids, (enters (walk tbl keep k)).Perm (visible keep k)) :
    (enters (walkReq tbl keep s kids)).Perm ((kids.filter fun k => k.slot = s).flatMap (visible keep)) := by
  induction kids with
  | nil => simp [slotCount] at hc
  | cons k ks ih =>
    have hk := H k (by simp)
    have ih := fun hc => ih hc fun x hx => H x (by simp [hx])
    simp only [walkReq]
    by_cases h : k.slot = s
    · have h0 : ks.filter (fun k => k.slot = s) = [] := by
        simpa [slotCount, h] using hc
      simp only [h, if_true, List.filter_cons, decide_true, List.flatMap_cons, h0,
        List.flatMap_nil, List.append_nil]
      exact hk
    · have hc' : slotCount s ks = 1 := by simpa [slotCount, h] using hc
      simpa [h] using ih hc'

theorem split_perm (s : Nat) (kids : List Tree)
    (H : ∀ k ∈ kids, (enters (walk tbl keep k)).Perm (visible keep k)) :
    (enters (walkLead tbl keep s kids) ++ enters (walkTrail tbl keep s kids)).Perm
      ((kids.filter fun k => k.slot = s).flatMap (visible keep)) := by
  induction kids with
  | nil => simp [walkLead, walkTrail, enters]
  | cons k ks ih =>
    have hk := H k (by simp)
    have hks : ∀ x ∈ ks, (enters (walk tbl keep x)).Perm (visible keep x) :=
      fun x hx => H x (by simp [hx])
    have ih := ih hks
    simp only [walkLead, walkTrail]
    by_cases h : k.slot = s
    · by_cases hf : k.flag = true
      · simp only [h, hf, if_true, List.filter_cons, decide_true, List.flatMap_cons,
          enters, List.nil_append, enters_append]
        exact hk.append (sel_perm tbl keep s ks hks)
      · simp only [h, hf, if_true, List.filter_cons, decide_true, List.flatMap_cons,
          Bool.false_eq_true, if_false, enters_append, List.append_assoc]
        exact hk.append ih
    · simpa [h] using ih

end perm

/-! ### The body of `walk` split into named pieces -/

/-- events of instruction `i` in the main sequence -/
def bodyA (tbl : Table) (keep : Nat → Bool) (kids : List Tree) (i : Instr) : List Ev :=
  match i.op with
  | .walk => walkReq tbl keep i.slot kids
  | .nilable => walkSel tbl keep i.slot kids
  | .list => walkSel tbl keep i.slot kids
  | .comments => walkSel tbl keep i.slot kids
  | .split _ => walkLead tbl keep i.slot kids

/-- trailing comment before `f(nil)` -/
def bodyB (tbl : Table) (keep : Nat → Bool) (kids : List Tree) (i : Instr) : List Ev :=
  match i.op with
  | .split false => walkTrail tbl keep i.slot kids
  | _ => []

/-- trailing comment after `f(nil)` (deferred) -/
def bodyC (tbl : Table) (keep : Nat → Bool) (kids : List Tree) (i : Instr) : List Ev :=
  match i.op with
  | .split true => walkTrail tbl keep i.slot kids
  | _ => []

/-- the side condition `wf` imposes on the children for one instruction -/
def instrOk (kids : List Tree) (i : Instr) : Bool :=
  match i.op with
  | .walk => slotCount i.slot kids == 1
  | .nilable => slotCount i.slot kids ≤ 1
  | .split _ => splitOk i.slot kids
  | _ => true

theorem walk_node (tbl : Table) (keep : Nat → Bool) (ty id sl : Nat) (fl : Bool) (kids : List Tree) :
    walk tbl keep (.node ty id sl fl kids) =
      if !keep id then [.enter id] else
      match tbl ty with
      | none => [.enter id, .panic]
      | some instrs =>
        .enter id :: instrs.flatMap (bodyA tbl keep kids) ++ instrs.flatMap (bodyB tbl keep kids)
          ++ [.leave id] ++ instrs.flatMap (bodyC tbl keep kids) := by
  rw [walk]; rfl

theorem wf_node (tbl : Table) (ty id sl : Nat) (fl : Bool) (kids : List Tree) :
    wf tbl (.node ty id sl fl kids) =
      ((match tbl ty with
        | none => false
        | some instrs => instrs.all (instrOk kids)) && wfList tbl kids) := by
  rw [wf]; rfl

theorem wf_node_iff (tbl : Table) (ty id sl : Nat) (fl : Bool) (kids : List Tree) :
    wf tbl (.node ty id sl fl kids) = true ↔
      (∃ instrs, tbl ty = some instrs ∧ ∀ i ∈ instrs, instrOk kids i = true) ∧ wfList tbl kids = true := by
  rw [wf_node]
  cases h : tbl ty with
  | none => simp
  | some instrs => simp [List.all_eq_true]

/-! ### Visit-once / pruning -/

theorem instr_perm (tbl : Table) (keep : Nat → Bool) (kids : List Tree) (i : Instr)
    (hok : instrOk kids i = true)
    (H : ∀ k ∈ kids, (enters (walk tbl keep k)).Perm (visible keep k)) :
    (enters (bodyA tbl keep kids i) ++ enters (bodyB tbl keep kids i) ++ enters (bodyC tbl keep kids i)).Perm
      ((kids.filter fun k => k.slot = i.slot).flatMap (visible keep)) := by
  unfold instrOk at hok
  unfold bodyA bodyB bodyC
  cases hop : i.op with
  | walk =>
    simp only [hop, beq_iff_eq] at hok
    simpa [enters] using req_perm tbl keep i.slot kids hok H
  | nilable => simpa [enters] using sel_perm tbl keep i.slot kids H
  | list => simpa [enters] using sel_perm tbl keep i.slot kids H
  | comments => simpa [enters] using sel_perm tbl keep i.slot kids H
  | split b =>
    cases b <;> simpa [enters] using split_perm tbl keep i.slot kids H

theorem node_perm (tbl : Table) (keep : Nat → Bool) (n : Nat) (instrs : List Instr) (kids : List Tree)
    (hp : (instrs.map (·.slot)).Perm (List.range n))
    (hok : ∀ i ∈ instrs, instrOk kids i = true)
    (hb : ∀ k ∈ kids, k.slot < n)
    (H : ∀ k ∈ kids, (enters (walk tbl keep k)).Perm (visible keep k)) (id : Nat) :
    (enters (instrs.flatMap (bodyA tbl keep kids) ++ instrs.flatMap (bodyB tbl keep kids)
          ++ [.leave id] ++ instrs.flatMap (bodyC tbl keep kids))).Perm
      (visibleList keep kids) := by
  simp only [enters_append, enters_flatMap, enters, List.append_nil, visibleList_eq]
  refine (List.Perm.append_right _ (flatMap_append_perm _ _ _)).trans ?_
  refine (flatMap_append_perm _ _ _).trans ?_
  refine (perm_flatMap_congr (g := fun i => (kids.filter fun k => k.slot = i.slot).flatMap (visible keep))
    fun i hi => instr_perm tbl keep kids i (hok i hi) H).trans ?_
  have e : (instrs.flatMap fun i => (kids.filter fun k => k.slot = i.slot).flatMap (visible keep))
      = (instrs.map (·.slot)).flatMap fun s => (kids.filter fun k => k.slot = s).flatMap (visible keep) := by
    rw [List.flatMap_map]
  rw [e]
  exact (List.Perm.flatMap_right _ hp).trans (flatMap_range_filter Tree.slot (visible keep) n kids hb)

theorem bounded_node_iff (nslots : Nat → Nat) (ty id sl : Nat) (fl : Bool) (kids : List Tree) :
    bounded nslots (.node ty id sl fl kids) = true ↔
      (∀ k ∈ kids, k.slot < nslots ty) ∧ boundedList nslots kids = true := by
  simp [bounded, List.all_eq_true]

mutual
  theorem prune_tree (tbl : Table) (nslots : Nat → Nat) (hc : TableComplete tbl nslots)
      (keep : Nat → Bool) : ∀ t : Tree, wf tbl t = true → bounded nslots t = true →
        (enters (walk tbl keep t)).Perm (visible keep t)
    | .node ty id sl fl kids => by
      intro hwf hb
      obtain ⟨⟨instrs, htbl, hok⟩, hwfk⟩ := (wf_node_iff ..).mp hwf
      obtain ⟨hbk, hbl⟩ := (bounded_node_iff ..).mp hb
      have H := prune_list tbl nslots hc keep kids hwfk hbl
      rw [walk_node, visible]
      cases hk : keep id with
      | false => simp [enters]
      | true =>
        simp only [Bool.not_true, Bool.false_eq_true, if_false, if_true, htbl, List.cons_append, enters]
        exact List.Perm.cons _ (node_perm tbl keep (nslots ty) instrs kids (hc ty instrs htbl) hok hbk H id)
  theorem prune_list (tbl : Table) (nslots : Nat → Nat) (hc : TableComplete tbl nslots)
      (keep : Nat → Bool) : ∀ ks : List Tree, wfList tbl ks = true → boundedList nslots ks = true →
        ∀ k ∈ ks, (enters (walk tbl keep k)).Perm (visible keep k)
    | [] => by intro _ _ k hk; cases hk
    | k :: ks => by
      intro hwf hb x hx
      simp only [wfList, boundedList, Bool.and_eq_true] at hwf hb
      rcases List.mem_cons.mp hx with h | hx
      · rw [h]; exact prune_tree tbl nslots hc keep k hwf.1 hb.1
      · exact prune_list tbl nslots hc keep ks hwf.2 hb.2 x hx
end

/-! ### Properties of event lists that are closed under concatenation
    (used for "no panic" and for "balanced brackets") -/

section good
set_option linter.unusedSectionVars false
variable (tbl : Table) (keep : Nat → Bool) (G : List Ev → Prop)
  (h0 : G []) (happ : ∀ a b, G a → G b → G (a ++ b))
include h0 happ

theorem good_flatMap {α} (l : List α) (f : α → List Ev) (h : ∀ x ∈ l, G (f x)) : G (l.flatMap f) := by
  induction l with
  | nil => exact h0
  | cons a l ih =>
    rw [List.flatMap_cons]
    exact happ _ _ (h a (by simp)) (ih fun x hx => h x (by simp [hx]))

theorem sel_good (s : Nat) (kids : List Tree) (H : ∀ k ∈ kids, G (walk tbl keep k)) :
    G (walkSel tbl keep s kids) := by
  induction kids with
  | nil => simpa [walkSel] using h0
  | cons k ks ih =>
    have ih := ih fun x hx => H x (by simp [hx])
    simp only [walkSel]
    refine happ _ _ ?_ ih
    by_cases h : k.slot = s
    · simpa [h] using H k (by simp)
    · simpa [h] using h0

theorem req_good (s : Nat) (kids : List Tree) (hc : slotCount s kids = 1)
    (H : ∀ k ∈ kids, G (walk tbl keep k)) : G (walkReq tbl keep s kids) := by
  induction kids with
  | nil => simp [slotCount] at hc
  | cons k ks ih =>
    have ih := fun hc => ih hc fun x hx => H x (by simp [hx])
    simp only [walkReq]
    by_cases h : k.slot = s
    · simpa [h] using H k (by simp)
    · have hc' : slotCount s ks = 1 := by simpa [slotCount, h] using hc
      simpa [h] using ih hc'

theorem lead_good (s : Nat) (kids : List Tree) (H : ∀ k ∈ kids, G (walk tbl keep k)) :
    G (walkLead tbl keep s kids) := by
  induction kids with
  | nil => simpa [walkLead] using h0
  | cons k ks ih =>
    have ih := ih fun x hx => H x (by simp [hx])
    simp only [walkLead]
    by_cases h : k.slot = s
    · cases hf : k.flag with
      | true => simpa [h, hf] using h0
      | false => simpa [h, hf] using happ _ _ (H k (by simp)) ih
    · simpa [h] using ih

theorem trail_good (s : Nat) (kids : List Tree) (H : ∀ k ∈ kids, G (walk tbl keep k)) :
    G (walkTrail tbl keep s kids) := by
  induction kids with
  | nil => simpa [walkTrail] using h0
  | cons k ks ih =>
    have ih := ih fun x hx => H x (by simp [hx])
    simp only [walkTrail]
    by_cases h : k.slot = s
    · cases hf : k.flag with
      | true =>
        simpa [h, hf] using happ _ _ (H k (by simp))
          (sel_good tbl keep G h0 happ s ks fun x hx => H x (by simp [hx]))
      | false => simpa [h, hf] using ih
    · simpa [h] using ih

theorem bodyA_good (kids : List Tree) (i : Instr) (hok : instrOk kids i = true)
    (H : ∀ k ∈ kids, G (walk tbl keep k)) : G (bodyA tbl keep kids i) := by
  unfold instrOk at hok
  unfold bodyA
  cases hop : i.op with
  | walk =>
    simp only [hop, beq_iff_eq] at hok
    exact req_good tbl keep G h0 happ i.slot kids hok H
  | nilable => exact sel_good tbl keep G h0 happ i.slot kids H
  | list => exact sel_good tbl keep G h0 happ i.slot kids H
  | comments => exact sel_good tbl keep G h0 happ i.slot kids H
  | split b => exact lead_good tbl keep G h0 happ i.slot kids H

theorem bodyB_good (kids : List Tree) (i : Instr)
    (H : ∀ k ∈ kids, G (walk tbl keep k)) : G (bodyB tbl keep kids i) := by
  unfold bodyB
  split
  · exact trail_good tbl keep G h0 happ i.slot kids H
  · exact h0

theorem bodyC_good (kids : List Tree) (i : Instr)
    (H : ∀ k ∈ kids, G (walk tbl keep k)) : G (bodyC tbl keep kids i) := by
  unfold bodyC
  split
  · exact trail_good tbl keep G h0 happ i.slot kids H
  · exact h0

variable (hleaf : ∀ id, keep id = false → G [.enter id])
  (hnode : ∀ ty id kids instrs, keep id = true → tbl ty = some instrs →
    G (instrs.flatMap (bodyA tbl keep kids)) → G (instrs.flatMap (bodyB tbl keep kids)) →
    G (instrs.flatMap (bodyC tbl keep kids)) →
    G (.enter id :: instrs.flatMap (bodyA tbl keep kids) ++ instrs.flatMap (bodyB tbl keep kids)
          ++ [.leave id] ++ instrs.flatMap (bodyC tbl keep kids)))
include hleaf hnode

mutual
  theorem good_tree : ∀ t : Tree, wf tbl t = true → G (walk tbl keep t)
    | .node ty id sl fl kids => by
      intro hwf
      obtain ⟨⟨instrs, htbl, hok⟩, hwfk⟩ := (wf_node_iff ..).mp hwf
      have H := good_list kids hwfk
      rw [walk_node]
      cases hk : keep id with
      | false => simpa using hleaf id hk
      | true =>
        simp only [Bool.not_true, Bool.false_eq_true, if_false, htbl]
        exact hnode ty id kids instrs hk htbl
          (good_flatMap G h0 happ _ _ fun i hi => bodyA_good tbl keep G h0 happ kids i (hok i hi) H)
          (good_flatMap G h0 happ _ _ fun i _ => bodyB_good tbl keep G h0 happ kids i H)
          (good_flatMap G h0 happ _ _ fun i _ => bodyC_good tbl keep G h0 happ kids i H)
  theorem good_list : ∀ ks : List Tree, wfList tbl ks = true → ∀ k ∈ ks, G (walk tbl keep k)
    | [] => by intro _ k hk; cases hk
    | k :: ks => by
      intro hwf x hx
      simp only [wfList, Bool.and_eq_true] at hwf
      rcases List.mem_cons.mp hx with h | hx
      · rw [h]; exact good_tree k hwf.1
      · exact good_list ks hwf.2 x hx
end

end good

/-! ### No panic -/

theorem nopanic_tree (tbl : Table) (keep : Nat → Bool) (t : Tree) (hwf : wf tbl t = true) :
    Ev.panic ∉ walk tbl keep t := by
  refine good_tree tbl keep (fun evs => Ev.panic ∉ evs) (by simp) ?_ ?_ ?_ t hwf
  · intro a b ha hb; simp [ha, hb]
  · intro id _; simp
  · intro ty id kids instrs _ _ hA hB hC
    simp [hA, hB, hC]

/-! ### Brackets -/

/-- run the bracket automaton from a given state -/
def run (keep : Nat → Bool) (st : Option (List Nat)) (evs : List Ev) : Option (List Nat) :=
  evs.foldl (fun st e => bracketStep st e (fun i => !keep i)) st

theorem run_append (keep : Nat → Bool) (st : Option (List Nat)) (a b : List Ev) :
    run keep st (a ++ b) = run keep (run keep st a) b := by
  simp [run, List.foldl_append]

/-- the events leave every stack as they found it -/
def Balanced (keep : Nat → Bool) (evs : List Ev) : Prop :=
  ∀ stack, run keep (some stack) evs = some stack

theorem balanced_tree (tbl : Table) (hnd : NoDefer tbl) (keep : Nat → Bool) (t : Tree)
    (hwf : wf tbl t = true) : Balanced keep (walk tbl keep t) := by
  refine good_tree tbl keep (Balanced keep) ?_ ?_ ?_ ?_ t hwf
  · intro st; rfl
  · intro a b ha hb st; rw [run_append, ha, hb]
  · intro id hk st; simp [run, bracketStep, hk]
  · intro ty id kids instrs hk htbl hA hB _ st
    have hC : instrs.flatMap (bodyC tbl keep kids) = [] := by
      rw [List.flatMap_eq_nil_iff]
      intro i hi
      have := hnd ty instrs htbl i hi
      unfold bodyC
      split
      · next h => exact absurd h this
      · rfl
    rw [hC, List.append_nil, ← List.singleton_append, List.append_assoc, List.append_assoc,
      run_append, run_append, run_append]
    have h1 : run keep (some st) [Ev.enter id] = some (id :: st) := by
      simp [run, bracketStep, hk]
    rw [h1, hA, hB]
    simp [run, bracketStep]

/-! ### Part C helpers: the table computed from a schema -/

theorem mapM_some_mem {α β} (f : α → Option β) (l : List α) (r : List β) (h : l.mapM f = some r) :
    ∀ i ∈ r, ∃ x ∈ l, f x = some i := by
  induction l generalizing r with
  | nil =>
    simp at h
    subst h
    intro i hi; cases hi
  | cons a l ih =>
    rw [List.mapM_cons] at h
    cases hfa : f a with
    | none => simp [hfa] at h
    | some y =>
      cases hl : l.mapM f with
      | none => simp [hfa, hl] at h
      | some ys =>
        simp [hfa, hl] at h
        subst h
        intro i hi
        rcases List.mem_cons.mp hi with h | hi
        · exact ⟨a, by simp, by rw [hfa, h]⟩
        · obtain ⟨x, hx, hfx⟩ := ih ys hl i hi
          exact ⟨x, by simp [hx], hfx⟩

theorem opOfString_defer (op : String) (h : opOfString op = some (.split true)) : op = "split-defer" := by
  unfold opOfString at h
  split at h <;> simp_all

theorem tableOf_some (sch : List TypeInfo) (ty : Nat) (instrs : List Instr)
    (h : tableOf sch ty = some instrs) :
    ∃ ti, sch[ty]? = some ti ∧ ti ∈ sch ∧ resolve ti = some instrs := by
  unfold tableOf at h
  cases hs : sch[ty]? with
  | none => simp [hs] at h
  | some ti =>
    simp only [hs] at h
    exact ⟨ti, rfl, List.mem_of_getElem? hs, h⟩

theorem resolve_some (ti : TypeInfo) (instrs : List Instr) (h : resolve ti = some instrs) :
    ∃ l, ti.instrs = some l := by
  unfold resolve at h
  cases hl : ti.instrs with
  | none => simp [hl] at h
  | some l => exact ⟨l, rfl⟩

end ShVerif.C14
