import ShVerif.Proofs.C12Complete
/-
  C12 — rule variants that provably do not matter on a syntactic class of token lists.
-/
namespace ShVerif.C12
open Tok

/-- Two rule-variant vectors that differ at most in `forAssign`. -/
structure SameButForAssign (c c' : Cfg) : Prop where
  posix : c'.posix = c.posix
  elseInCmd : c'.elseInCmd = c.elseInCmd
  rsrvAfterIO : c'.rsrvAfterIO = c.rsrvAfterIO
  bangAlone : c'.bangAlone = c.bangAlone
  fnBody : c'.fnBody = c.fnBody
  forBrace : c'.forBrace = c.forBrace
  closerAfterRedir : c'.closerAfterRedir = c.closerAfterRedir

theorem derives_forAssign {c c' : Cfg} (hc : SameButForAssign c c') (big : List Tok)
    (hbig : ¬ (kFor ∈ big ∧ assign ∈ big)) {nt e ts} (h : Derives c nt e ts) :
    (∀ x ∈ ts, x ∈ big) → Derives c' nt e ts := by
  have hfirst : ∀ neg pre t, firstOK c' neg pre t = firstOK c neg pre t := by
    intro neg pre t; simp [firstOK, hc.rsrvAfterIO, hc.elseInCmd]
  have hfn : ∀ neg t, fnNameOK c' neg t = fnNameOK c neg t := by
    intro neg t; simp [fnNameOK, hc.posix, hc.elseInCmd]
  induction h with
  | program _ ih => intro hs; exact .program (ih hs)
  | l_nil => intro _; exact .l_nil
  | l_nl _ ih => intro hs; exact .l_nl (ih fun x hx => hs x (by simp [hx]))
  | l_last _ hst ih => intro hs; exact .l_last (ih hs) hst
  | l_sep _ hst hsep hal _ ih1 ih2 =>
    intro hs
    exact .l_sep (ih1 fun x hx => hs x (by simp [hx])) hst hsep hal (ih2 fun x hx => hs x (by simp [hx]))
  | l_newl _ hst hal _ ih1 ih2 =>
    intro hs
    exact .l_newl (ih1 fun x hx => hs x (by simp [hx])) hst hal (ih2 fun x hx => hs x (by simp [hx]))
  | stmt _ _ ih1 ih2 =>
    intro hs
    exact .stmt (ih1 fun x hx => hs x (by simp [hx])) (ih2 fun x hx => hs x (by simp [hx]))
  | t_nil => intro _; exact .t_nil
  | t_op hop hal _ _ ih1 ih2 =>
    intro hs
    exact .t_op hop hal (ih1 fun x hx => hs x (by simp [hx])) (ih2 fun x hx => hs x (by simp [hx]))
  | b_plain _ ih => intro hs; exact .b_plain (ih hs)
  | b_bang hba _ hnb ih =>
    intro hs
    exact .b_bang (by rw [hc.bangAlone]; exact hba) (ih fun x hx => hs x (by simp [hx])) hnb
  | b_bangs hba _ hnb ih =>
    intro hs
    exact .b_bangs (by rw [hc.bangAlone]; exact hba) (ih fun x hx => hs x (by simp [hx])) hnb
  | b_bare hba => intro _; exact .b_bare (by rw [hc.bangAlone]; exact hba)
  | pipeline _ _ ih1 ih2 =>
    intro hs
    exact .pipeline (ih1 fun x hx => hs x (by simp [hx])) (ih2 fun x hx => hs x (by simp [hx]))
  | p_nil => intro _; exact .p_nil
  | p_pipe hal _ _ ih1 ih2 =>
    intro hs
    exact .p_pipe hal (ih1 fun x hx => hs x (by simp [hx])) (ih2 fun x hx => hs x (by simp [hx]))
  | c_simple hpr hf hi => intro _; exact .c_simple hpr (by rw [hfirst]; exact hf) hi
  | c_redir hw hr => intro _; exact .c_redir hw hr
  | @c_compound q neg body post _ hpost ih =>
    intro hs
    have := Derives.c_compound (c := c') (neg := neg) (ih fun x hx => hs x (by simp [hx])) hpost
    rw [hc.closerAfterRedir] at this
    exact this
  | f_andor hfb hn _ ih =>
    intro hs
    exact .f_andor (by rw [hc.fnBody]; exact hfb) (by rw [hfn]; exact hn)
      (ih fun x hx => hs x (by simp [hx]))
  | f_command hfb hn _ ih =>
    intro hs
    exact .f_command (by rw [hc.fnBody]; exact hfb) (by rw [hfn]; exact hn)
      (ih fun x hx => hs x (by simp [hx]))
  | f_compound hfb hn _ hsc ih =>
    intro hs
    exact .f_compound (by rw [hc.fnBody]; exact hfb) (by rw [hfn]; exact hn)
      (ih fun x hx => hs x (by simp [hx])) hsc
  | block _ hal ih => intro hs; exact .block (ih fun x hx => hs x (by simp [hx])) hal
  | subshell _ hal ih => intro hs; exact .subshell (ih fun x hx => hs x (by simp [hx])) hal
  | ifc _ hal1 _ _ ih1 ih2 ih3 =>
    intro hs
    exact .ifc (ih1 fun x hx => hs x (by simp [hx])) hal1 (ih2 fun x hx => hs x (by simp [hx]))
      (ih3 fun x hx => hs x (by simp [hx]))
  | i_fi hal => intro _; exact .i_fi hal
  | i_else hal0 _ hal ih => intro hs; exact .i_else hal0 (ih fun x hx => hs x (by simp [hx])) hal
  | i_elif hal0 _ hal1 _ _ ih1 ih2 ih3 =>
    intro hs
    exact .i_elif hal0 (ih1 fun x hx => hs x (by simp [hx])) hal1
      (ih2 fun x hx => hs x (by simp [hx])) (ih3 fun x hx => hs x (by simp [hx]))
  | loop hkw _ hal1 _ hal2 ih1 ih2 =>
    intro hs
    exact .loop hkw (ih1 fun x hx => hs x (by simp [hx])) hal1 (ih2 fun x hx => hs x (by simp [hx])) hal2
  | @forc q hd close e body hfh _ hal ih =>
    intro hs
    have hfor : kFor ∈ big := hs _ (by simp)
    have hfh' : ForHead c' hd close := by
      cases hfh with
      | doLoop hn1 hn2 hit =>
        refine .doLoop hn1 (.inl ?_) hit
        rintro rfl
        exact hbig ⟨hfor, hs _ (by simp)⟩
      | brace hfb hn1 hn2 hit =>
        refine .brace (by rw [hc.forBrace]; exact hfb) hn1 (.inl ?_) hit
        rintro rfl
        exact hbig ⟨hfor, hs _ (by simp)⟩
    exact .forc hfh' (ih fun x hx => hs x (by simp [hx])) hal
  | casec hw _ ih => intro hs; exact .casec hw (ih fun x hx => hs x (by simp [hx]))
  | ci_esac => intro _; exact .ci_esac
  | ci_last hlp hpat hes _ hal ih =>
    intro hs
    exact .ci_last hlp hpat hes (ih fun x hx => hs x (by simp [hx])) hal
  | ci_item hlp hpat hes _ hal _ ih1 ih2 =>
    intro hs
    exact .ci_item hlp hpat hes (ih1 fun x hx => hs x (by simp [hx])) hal
      (ih2 fun x hx => hs x (by simp [hx]))

theorem SameButForAssign.symm {c c' : Cfg} (h : SameButForAssign c c') : SameButForAssign c' c :=
  ⟨h.posix.symm, h.elseInCmd.symm, h.rsrvAfterIO.symm, h.bangAlone.symm, h.fnBody.symm,
   h.forBrace.symm, h.closerAfterRedir.symm⟩

/-- On token lists that do not contain both `for` and an assignment word, the `forAssign` rule
    variant does not change the parser's answer. -/
theorem parse_forAssign {c c' : Cfg} (hc : SameButForAssign c c') (ts : List Tok)
    (h : ¬ (kFor ∈ ts ∧ assign ∈ ts)) : parse c ts = parse c' ts := by
  cases h1 : parse c ts <;> cases h2 : parse c' ts <;> try rfl
  · have := parse_complete (derives_forAssign hc.symm ts h (parseWith_sound h2) fun _ hx => hx)
    rw [h1] at this; cases this
  · have := parse_complete (derives_forAssign hc ts h (parseWith_sound h1) fun _ hx => hx)
    rw [h2] at this; cases this

end ShVerif.C12
