import ShVerif.Model.C34
/-
  C34 — helper lemmas for the property theorems in ShVerif/Props/C34.lean.  Core Lean only.
-/
namespace ShVerif.C34

/-! ### `cmpBytes` is a strict total order on byte strings -/

theorem cmpBytes_eq_iff (a b : Bytes) : cmpBytes a b = .eq ↔ a = b := by
  induction a generalizing b with
  | nil => cases b <;> simp [cmpBytes]
  | cons x xs ih =>
    cases b with
    | nil => simp [cmpBytes]
    | cons y ys =>
      simp only [cmpBytes]
      split
      · constructor
        · intro h; cases h
        · intro h; injection h with h1 h2; subst h1; grind
      · split
        · constructor
          · intro h; cases h
          · intro h; injection h with h1 h2; subst h1; grind
        · rw [ih]
          constructor
          · intro h; subst h
            have : x = y := by grind
            rw [this]
          · intro h; injection h

theorem cmpBytes_self (a : Bytes) : cmpBytes a a = .eq := (cmpBytes_eq_iff a a).2 rfl

theorem cmpBytes_gt_iff (a b : Bytes) : cmpBytes a b = .gt ↔ cmpBytes b a = .lt := by
  induction a generalizing b with
  | nil => cases b <;> simp [cmpBytes]
  | cons x xs ih =>
    cases b with
    | nil => simp [cmpBytes]
    | cons y ys =>
      simp only [cmpBytes]
      by_cases h1 : x < y
      · have h2 : ¬ y < x := by grind
        simp [h1, h2]
      · by_cases h2 : y < x
        · simp [h1, h2]
        · simp [h1, h2, ih]

theorem cmpBytes_lt_trans (a b c : Bytes) :
    cmpBytes a b = .lt → cmpBytes b c = .lt → cmpBytes a c = .lt := by
  induction a generalizing b c with
  | nil =>
    cases b with
    | nil => simp [cmpBytes]
    | cons y ys => cases c <;> simp [cmpBytes]
  | cons x xs ih =>
    cases b with
    | nil => simp [cmpBytes]
    | cons y ys =>
      cases c with
      | nil => simp [cmpBytes]
      | cons z zs =>
        simp only [cmpBytes]
        by_cases hxy : x < y
        · by_cases hyz : y < z
          · have : x < z := by grind
            simp [hxy, hyz, this]
          · by_cases hzy : z < y
            · simp [hyz, hzy]
            · have : y = z := by grind
              subst this
              simp [hxy]
        · by_cases hyx : y < x
          · simp [hxy, hyx]
          · have : x = y := by grind
            subst this
            by_cases hxz : x < z
            · simp [hxz]
            · by_cases hzx : z < x
              · simp [hxz, hzx]
              · simp only [hxz, hzx, if_false]
                exact ih ys zs

end ShVerif.C34
