import ShVerif.Model.C34
/-
  C34 — helper lemmas for the property theorems in ShVerif/Props/C34.lean.  Core Lean only.
-/
namespace ShVerif.C34

/-! ### `cmpBytes` is a strict total order on byte strings -/

theorem cmpBytes_eq_iff (a b : Bytes) : cmpBytes a b = .eq ↔ a = b := by
  induction a generalizing b with
  | nil => cases b <;> simp [cmpBytes]
  | cons x xs ih =>
    cases b with
    | nil => simp [cmpBytes]
    | cons y ys =>
      simp only [cmpBytes]
      split
      · constructor
        · intro h; cases h
        · intro h; injection h with h1 h2; subst h1; grind
      · split
        · constructor
          · intro h; cases h
          · intro h; injection h with h1 h2; subst h1; grind
        · rw [ih]
          constructor
          · intro h; subst h
            have : x = y := by grind
            rw [this]
          · intro h; injection h

theorem cmpBytes_self (a : Bytes) : cmpBytes a a = .eq := (cmpBytes_eq_iff a a).2 rfl

theorem cmpBytes_gt_iff (a b : Bytes) : cmpBytes a b = .gt ↔ cmpBytes b a = .lt := by
  induction a generalizing b with
  | nil => cases b <;> simp [cmpBytes]
  | cons x xs ih =>
    cases b with
    | nil => simp [cmpBytes]
    | cons y ys =>
      simp only [cmpBytes]
      by_cases h1 : x < y
      · have h2 : ¬ y < x := by grind
        simp [h1, h2]
      · by_cases h2 : y < x
        · simp [h1, h2]
        · simp [h1, h2, ih]

theorem cmpBytes_lt_trans (a b c : Bytes) :
    cmpBytes a b = .lt → cmpBytes b c = .lt → cmpBytes a c = .lt := by
  induction a generalizing b c with
  | nil =>
    cases b with
    | nil => simp [cmpBytes]
    | cons y ys => cases c <;> simp [cmpBytes]
  | cons x xs ih =>
    cases b with
    | nil => simp [cmpBytes]
    | cons y ys =>
      cases c with
      | nil => simp [cmpBytes]
      | cons z zs =>
        simp only [cmpBytes]
        by_cases hxy : x < y
        · by_cases hyz : y < z
          · have : x < z := by grind
            simp [hxy, hyz, this]
          · by_cases hzy : z < y
            · simp [hyz, hzy]
            · have : y = z := by grind
              subst this
              simp [hxy]
        · by_cases hyx : y < x
          · simp [hxy, hyx]
          · have : x = y := by grind
            subst this
            by_cases hxz : x < z
            · simp [hxz]
            · by_cases hzx : z < x
              · simp [hxz, hzx]
              · have : x = z := by grind
                subst this
                simp only [hxy, if_false]
                exact ih ys zs

/-- "not greater" is "less or equal". -/
theorem cmpBytes_ne_gt_iff (a b : Bytes) : cmpBytes a b ≠ .gt ↔ cmpBytes a b = .lt ∨ a = b := by
  rw [← cmpBytes_eq_iff]
  cases cmpBytes a b <;> simp

theorem cmpBytes_le_trans (a b c : Bytes) :
    cmpBytes a b ≠ .gt → cmpBytes b c ≠ .gt → cmpBytes a c ≠ .gt := by
  simp only [cmpBytes_ne_gt_iff]
  rintro (h1 | h1) (h2 | h2)
  · exact .inl (cmpBytes_lt_trans a b c h1 h2)
  · subst h2; exact .inl h1
  · subst h1; exact .inl h2
  · subst h1; exact .inr h2

theorem cmpBytes_lt_of_lt_of_le (a b c : Bytes) :
    cmpBytes a b = .lt → cmpBytes b c ≠ .gt → cmpBytes a c = .lt := by
  simp only [cmpBytes_ne_gt_iff]
  rintro h1 (h2 | h2)
  · exact cmpBytes_lt_trans a b c h1 h2
  · subst h2; exact h1

theorem cmpBytes_lt_of_le_of_lt (a b c : Bytes) :
    cmpBytes a b ≠ .gt → cmpBytes b c = .lt → cmpBytes a c = .lt := by
  simp only [cmpBytes_ne_gt_iff]
  rintro (h1 | h1) h2
  · exact cmpBytes_lt_trans a b c h1 h2
  · subst h1; exact h2

theorem cmpBytes_lt_irrefl (a : Bytes) : cmpBytes a a ≠ .lt := by
  rw [cmpBytes_self]; simp

theorem cmpBytes_lt_asymm (a b : Bytes) : cmpBytes a b = .lt → cmpBytes b a ≠ .lt := by
  intro h1 h2
  exact cmpBytes_lt_irrefl a (cmpBytes_lt_trans a b a h1 h2)

/-! ### `cut`, `key`, `validPair` -/

theorem cut_some {p n v : Bytes} (h : cut p = some (n, v)) : p = n ++ eqByte :: v ∧ eqByte ∉ n := by
  induction p generalizing n with
  | nil => simp [cut] at h
  | cons b rest ih =>
    simp only [cut] at h
    split at h
    · next hb => simp at h; obtain ⟨rfl, rfl⟩ := h; simp [hb]
    · next hb =>
      split at h
      · cases h
      · next n' v' hc =>
        simp at h; obtain ⟨rfl, rfl⟩ := h
        obtain ⟨h1, h2⟩ := ih hc
        subst h1
        refine ⟨by simp, ?_⟩
        simp only [List.mem_cons, not_or]
        exact ⟨fun h => hb h.symm, h2⟩

theorem cut_append {n : Bytes} (v : Bytes) (h : eqByte ∉ n) : cut (n ++ eqByte :: v) = some (n, v) := by
  induction n with
  | nil => simp [cut]
  | cons b n ih =>
    simp only [List.mem_cons, not_or] at h
    have hb : ¬ b = eqByte := fun e => h.1 e.symm
    simp [cut, hb, ih h.2]

theorem key_of_cut {p n v : Bytes} (h : cut p = some (n, v)) : key p = n ++ [eqByte] := by
  simp [key, h]

/-- A pair that survives `listEnviron_`: it has an `=` and a non-empty name. -/
def Valid (p : Bytes) : Prop := ∃ n v, cut p = some (n, v) ∧ n ≠ []

theorem validPair_eq_some {p n v : Bytes} :
    validPair p = some (n, v) ↔ cut p = some (n, v) ∧ n ≠ [] := by
  unfold validPair
  split
  · next n' v' hc =>
    split
    · next hn => subst hn; simp [hc]; rintro rfl; simp
    · next hn => simp [hc]; rintro rfl rfl; exact hn
  · next hc => simp [hc]

theorem validPair_of_cut {p n v : Bytes} (h : cut p = some (n, v)) (hn : n ≠ []) :
    validPair p = some (n, v) := validPair_eq_some.2 ⟨h, hn⟩

theorem validPair_isSome_iff (p : Bytes) : (validPair p).isSome ↔ Valid p := by
  constructor
  · intro h
    obtain ⟨⟨n, v⟩, hv⟩ := Option.isSome_iff_exists.1 h
    exact ⟨n, v, validPair_eq_some.1 hv⟩
  · rintro ⟨n, v, h1, h2⟩
    simp [validPair_of_cut h1 h2]

/-! ### `specGet` as a fold -/

/-- One step of the left-to-right map construction, looking only at `name`. -/
def step (name : Bytes) (acc : Option Bytes) (p : Bytes) : Option Bytes :=
  match validPair p with
  | some (n, v) => if n = name then some v else acc
  | none => acc

theorem specGet_eq (l : List Bytes) (name : Bytes) : specGet l name = l.foldl (step name) none := rfl

theorem specGet_append (a b : List Bytes) (name : Bytes) :
    specGet (a ++ b) name = b.foldl (step name) (specGet a name) := by
  simp [specGet_eq, List.foldl_append]

/-- A pair whose key is not `name=` does not influence the lookup of `name`. -/
theorem step_of_key_ne {name p : Bytes} (acc : Option Bytes) (h : key p ≠ name ++ [eqByte]) :
    step name acc p = acc := by
  unfold step
  split
  · next n v hv =>
    have hc := (validPair_eq_some.1 hv).1
    rw [key_of_cut hc] at h
    have : n ≠ name := by rintro rfl; exact h rfl
    simp [this]
  · rfl

theorem step_of_not_valid {name p : Bytes} (acc : Option Bytes) (h : validPair p = none) :
    step name acc p = acc := by
  simp [step, h]

theorem step_of_cut {name p n v : Bytes} (acc : Option Bytes) (h : cut p = some (n, v)) (hn : n ≠ []) :
    step name acc p = if n = name then some v else acc := by
  simp [step, validPair_of_cut h hn]

theorem foldl_step_filter_key (l : List Bytes) (name : Bytes) (acc : Option Bytes) :
    l.foldl (step name) acc
      = (l.filter fun p => key p = name ++ [eqByte]).foldl (step name) acc := by
  induction l generalizing acc with
  | nil => rfl
  | cons p l ih =>
    by_cases h : key p = name ++ [eqByte]
    · simp [h, ih]
    · simp [h, step_of_key_ne acc h, ih]

theorem foldl_step_filter_valid (l : List Bytes) (name : Bytes) (acc : Option Bytes) :
    l.foldl (step name) acc
      = (l.filter fun p => (validPair p).isSome).foldl (step name) acc := by
  induction l generalizing acc with
  | nil => rfl
  | cons p l ih =>
    cases h : validPair p with
    | none => simp [h, step_of_not_valid acc h, ih]
    | some nv => simp [h, ih]

/-! ### The stable insertion sort -/

def KLt (a b : Bytes) : Prop := cmpBytes (key a) (key b) = .lt
def KLe (a b : Bytes) : Prop := cmpBytes (key a) (key b) ≠ .gt

theorem le_iff (a b : Bytes) : le a b = true ↔ KLe a b := by
  simp [le, KLe]

theorem KLe_of_not_le {a b : Bytes} (h : ¬ le a b = true) : KLe b a ∧ key a ≠ key b := by
  rw [le_iff] at h
  simp only [KLe, ne_eq, Decidable.not_not] at h
  have h2 := (cmpBytes_gt_iff _ _).1 h
  refine ⟨by simp [KLe, h2], ?_⟩
  intro e
  rw [e, cmpBytes_self] at h
  cases h

theorem mem_insert {x z : Bytes} {l : List Bytes} : z ∈ C34.insert x l ↔ z = x ∨ z ∈ l := by
  induction l with
  | nil => simp [C34.insert]
  | cons y ys ih =>
    simp only [C34.insert]
    split
    · simp
    · simp [ih]; grind

theorem sorted_insert (x : Bytes) (l : List Bytes) (h : l.Pairwise KLe) :
    (C34.insert x l).Pairwise KLe := by
  induction l with
  | nil => simp [C34.insert]
  | cons y ys ih =>
    simp only [C34.insert]
    rw [List.pairwise_cons] at h
    split
    · next hle =>
      rw [le_iff] at hle
      refine List.pairwise_cons.2 ⟨?_, List.pairwise_cons.2 h⟩
      intro z hz
      rcases List.mem_cons.1 hz with rfl | hz
      · exact hle
      · exact cmpBytes_le_trans _ _ _ hle (h.1 z hz)
    · next hle =>
      refine List.pairwise_cons.2 ⟨?_, ih h.2⟩
      intro z hz
      rcases mem_insert.1 hz with rfl | hz
      · exact (KLe_of_not_le hle).1
      · exact h.1 z hz

theorem sorted_sortStable (l : List Bytes) : (sortStable l).Pairwise KLe := by
  induction l with
  | nil => simp [sortStable]
  | cons x l ih => exact sorted_insert x _ ih

theorem filter_insert (k : Bytes) (x : Bytes) (l : List Bytes) :
    (C34.insert x l).filter (fun p => key p = k) = (x :: l).filter (fun p => key p = k) := by
  induction l with
  | nil => simp [C34.insert]
  | cons y ys ih =>
    simp only [C34.insert]
    split
    · rfl
    · next hle =>
      have hne := (KLe_of_not_le hle).2
      rw [List.filter_cons, ih]
      simp only [List.filter_cons]
      by_cases h1 : key x = k
      · have h2 : ¬ key y = k := by rw [← h1]; exact fun e => hne e.symm
        simp [h1, h2]
      · simp [h1]

/-- Stability: the sort does not reorder pairs that have the same key. -/
theorem filter_sortStable (k : Bytes) (l : List Bytes) :
    (sortStable l).filter (fun p => key p = k) = l.filter (fun p => key p = k) := by
  induction l with
  | nil => simp [sortStable]
  | cons x l ih =>
    show (C34.insert x (sortStable l)).filter _ = _
    rw [filter_insert, List.filter_cons, ih, List.filter_cons]

theorem specGet_sortStable (l : List Bytes) (name : Bytes) :
    specGet (sortStable l) name = specGet l name := by
  rw [specGet_eq, specGet_eq, foldl_step_filter_key, filter_sortStable, ← foldl_step_filter_key]

/-! ### The dedup loop -/

/-- `last` is the name of the most recently kept pair (`""` before the first one). -/
def HeadName : List Bytes → Bytes → Prop
  | [], last => last = []
  | q :: _, last => ∃ v, cut q = some (last, v)

theorem dedup_inv (rest : List Bytes) : ∀ (kept : List Bytes) (last : Bytes),
    (∀ p ∈ kept, Valid p) → kept.Pairwise (fun a b => KLt b a) → HeadName kept last →
    rest.Pairwise KLe → (∀ k ∈ kept, ∀ r ∈ rest, KLe k r) →
    ∃ l, dedup kept last rest = some l ∧ (∀ p ∈ l, Valid p) ∧ l.Pairwise KLt ∧
      ∀ n, specGet l n = specGet (kept.reverse ++ rest) n := by
  induction rest with
  | nil =>
    intro kept last hv hs _ _ _
    refine ⟨kept.reverse, rfl, ?_, List.pairwise_reverse.2 hs, by simp⟩
    intro p hp; exact hv p (List.mem_reverse.1 hp)
  | cons p rest ih =>
    intro kept last hv hs hh hr hkr
    rw [List.pairwise_cons] at hr
    have hkr' : ∀ k ∈ kept, ∀ r ∈ rest, KLe k r :=
      fun k hk r hr' => hkr k hk r (List.mem_cons_of_mem _ hr')
    -- skipping an invalid pair
    have skip : validPair p = none →
        ∃ l, dedup kept last rest = some l ∧ (∀ p ∈ l, Valid p) ∧ l.Pairwise KLt ∧
          ∀ n, specGet l n = specGet (kept.reverse ++ p :: rest) n := by
      intro hnv
      obtain ⟨l, h1, h2, h3, h4⟩ := ih kept last hv hs hh hr.2 hkr'
      refine ⟨l, h1, h2, h3, ?_⟩
      intro n
      rw [h4, specGet_append, specGet_append, List.foldl_cons, step_of_not_valid _ hnv]
    simp only [dedup]
    split
    · next hc => exact skip (by simp [validPair, hc])
    · next name v hc =>
      split
      · next hn => exact skip (by simp [validPair, hc, hn])
      · next hn =>
        have hvp : Valid p := ⟨name, v, hc, hn⟩
        have hkp : key p = name ++ [eqByte] := key_of_cut hc
        split
        · next heq =>
          have heq := (cmpBytes_eq_iff _ _).1 heq
          subst heq
          cases kept with
          | nil => exact absurd hh hn
          | cons q kept' =>
            simp only
            obtain ⟨v', hq⟩ := hh
            have hkq : key q = last ++ [eqByte] := key_of_cut hq
            rw [List.pairwise_cons] at hs
            obtain ⟨l, h1, h2, h3, h4⟩ := ih (p :: kept') last
              (by
                intro z hz
                rcases List.mem_cons.1 hz with rfl | hz
                · exact hvp
                · exact hv z (List.mem_cons_of_mem _ hz))
              (by
                refine List.pairwise_cons.2 ⟨?_, hs.2⟩
                intro z hz
                have := hs.1 z hz
                simp only [KLt, hkq, hkp] at this ⊢
                exact this)
              ⟨v, hc⟩ hr.2
              (by
                intro k hk r hr'
                rcases List.mem_cons.1 hk with rfl | hk
                · exact hr.1 r hr'
                · exact hkr' k (List.mem_cons_of_mem _ hk) r hr')
            refine ⟨l, h1, h2, h3, ?_⟩
            intro n
            rw [h4]
            simp only [List.reverse_cons, List.append_assoc, List.singleton_append]
            rw [specGet_append, specGet_append]
            simp only [List.foldl_cons]
            rw [step_of_cut _ hq hn, step_of_cut _ hc hn, step_of_cut _ hc hn]
            split <;> rfl
        · next hne =>
          have hne : last ≠ name := fun e => hne ((cmpBytes_eq_iff _ _).2 e)
          obtain ⟨l, h1, h2, h3, h4⟩ := ih (p :: kept) name
            (by
              intro z hz
              rcases List.mem_cons.1 hz with rfl | hz
              · exact hvp
              · exact hv z hz)
            (by
              refine List.pairwise_cons.2 ⟨?_, hs⟩
              cases kept with
              | nil => intro z hz; cases hz
              | cons q kept' =>
                obtain ⟨v', hq⟩ := hh
                have hkq : key q = last ++ [eqByte] := key_of_cut hq
                have hqp : KLt q p := by
                  have h := hkr q (List.mem_cons_self ..) p (List.mem_cons_self ..)
                  rcases (cmpBytes_ne_gt_iff _ _).1 h with h | h
                  · exact h
                  · rw [hkq, hkp] at h
                    exact absurd (List.append_cancel_right h) hne
                rw [List.pairwise_cons] at hs
                intro z hz
                rcases List.mem_cons.1 hz with rfl | hz
                · exact hqp
                · exact cmpBytes_lt_trans _ _ _ (hs.1 z hz) hqp)
            ⟨v, hc⟩ hr.2
            (by
              intro k hk r hr'
              rcases List.mem_cons.1 hk with rfl | hk
              · exact hr.1 r hr'
              · exact hkr' k hk r hr')
          refine ⟨l, h1, h2, h3, ?_⟩
          intro n
          rw [h4]
          simp

/-- Everything the property theorems need to know about the output of `listEnviron_`. -/
theorem listEnviron_inv (pairs : List Bytes) :
    ∃ l, listEnviron pairs = some l ∧ (∀ p ∈ l, Valid p) ∧ l.Pairwise KLt ∧
      ∀ n, specGet l n = specGet pairs n := by
  obtain ⟨l, h1, h2, h3, h4⟩ := dedup_inv (sortStable pairs) [] [] (by simp) (by simp) rfl
    (sorted_sortStable pairs) (by simp)
  refine ⟨l, h1, h2, h3, ?_⟩
  intro n
  rw [h4]
  simpa using specGet_sortStable pairs n

/-! ### Lookups in a list of valid pairs with strictly increasing keys -/

theorem foldl_step_iff (l : List Bytes) (n v : Bytes) (hv : ∀ p ∈ l, Valid p)
    (hs : l.Pairwise KLt) (acc : Option Bytes) :
    l.foldl (step n) acc = some v ↔
      (∃ p ∈ l, cut p = some (n, v)) ∨ (acc = some v ∧ ∀ p ∈ l, ∀ v', cut p ≠ some (n, v')) := by
  induction l generalizing acc with
  | nil => simp
  | cons p l ih =>
    rw [List.pairwise_cons] at hs
    obtain ⟨n', v', hc, hn⟩ := hv p (List.mem_cons_self ..)
    rw [List.foldl_cons, ih (fun q hq => hv q (List.mem_cons_of_mem _ hq)) hs.2,
      step_of_cut _ hc hn]
    by_cases e : n' = n
    · subst e
      have hno : ∀ q ∈ l, ∀ v'', cut q ≠ some (n', v'') := by
        intro q hq v'' hcq
        have := hs.1 q hq
        simp only [KLt, key_of_cut hc, key_of_cut hcq] at this
        exact cmpBytes_lt_irrefl _ this
      constructor
      · rintro (⟨q, hq, hcq⟩ | ⟨h1, _⟩)
        · exact absurd hcq (hno q hq v)
        · simp only [if_true, Option.some.injEq] at h1
          subst h1
          exact .inl ⟨p, List.mem_cons_self .., hc⟩
      · rintro (⟨q, hq, hcq⟩ | ⟨_, h2⟩)
        · rcases List.mem_cons.1 hq with rfl | hq
          · rw [hc] at hcq
            simp only [Option.some.injEq, Prod.mk.injEq, true_and] at hcq
            subst hcq
            exact .inr ⟨by simp, hno⟩
          · exact absurd hcq (hno q hq v)
        · exact absurd hc (h2 p (List.mem_cons_self ..) v')
    · have hp : ∀ v'', cut p ≠ some (n, v'') := by
        intro v'' h
        rw [hc] at h
        simp only [Option.some.injEq, Prod.mk.injEq] at h
        exact e h.1
      simp only [e, if_false]
      constructor
      · rintro (⟨q, hq, hcq⟩ | ⟨h1, h2⟩)
        · exact .inl ⟨q, List.mem_cons_of_mem _ hq, hcq⟩
        · refine .inr ⟨h1, ?_⟩
          intro q hq
          rcases List.mem_cons.1 hq with rfl | hq
          · exact hp
          · exact h2 q hq
      · rintro (⟨q, hq, hcq⟩ | ⟨h1, h2⟩)
        · rcases List.mem_cons.1 hq with rfl | hq
          · exact absurd hcq (hp v)
          · exact .inl ⟨q, hq, hcq⟩
        · exact .inr ⟨h1, fun q hq => h2 q (List.mem_cons_of_mem _ hq)⟩

theorem specGet_eq_some_iff (l : List Bytes) (n v : Bytes) (hv : ∀ p ∈ l, Valid p)
    (hs : l.Pairwise KLt) : specGet l n = some v ↔ ∃ p ∈ l, cut p = some (n, v) := by
  rw [specGet_eq, foldl_step_iff l n v hv hs]
  simp

theorem specGet_eq_none_iff (l : List Bytes) (n : Bytes) (hv : ∀ p ∈ l, Valid p)
    (hs : l.Pairwise KLt) : specGet l n = none ↔ ∀ p ∈ l, ∀ v, cut p ≠ some (n, v) := by
  constructor
  · intro h p hp v hc
    have := (specGet_eq_some_iff l n v hv hs).2 ⟨p, hp, hc⟩
    rw [h] at this
    cases this
  · intro h
    cases hg : specGet l n with
    | none => rfl
    | some v =>
      obtain ⟨p, hp, hc⟩ := (specGet_eq_some_iff l n v hv hs).1 hg
      exact absurd hc (h p hp v)

/-- A name containing `=` is never set. -/
theorem specGet_of_mem_eq (l : List Bytes) (name : Bytes) (h : eqByte ∈ name) :
    specGet l name = none := by
  have : ∀ acc, l.foldl (step name) acc = acc := by
    induction l with
    | nil => intro acc; rfl
    | cons p l ih =>
      intro acc
      rw [List.foldl_cons, ih]
      unfold step
      split
      · next n v hvp =>
        have := (cut_some (validPair_eq_some.1 hvp).1).2
        have : n ≠ name := by rintro rfl; exact this h
        simp [this]
      · rfl
  exact this none

/-! ### `Each` -/

theorem each_inv (l : List Bytes) (hv : ∀ p ∈ l, Valid p) (hs : l.Pairwise KLt) :
    ∃ nvs, each l = some nvs ∧
      nvs.Pairwise (fun a b => cmpBytes (a.1 ++ [eqByte]) (b.1 ++ [eqByte]) = .lt) ∧
      ∀ n v, (n, v) ∈ nvs ↔ ∃ p ∈ l, cut p = some (n, v) := by
  induction l with
  | nil => exact ⟨[], rfl, by simp, by simp⟩
  | cons p l ih =>
    rw [List.pairwise_cons] at hs
    obtain ⟨nvs, h1, h2, h3⟩ := ih (fun q hq => hv q (List.mem_cons_of_mem _ hq)) hs.2
    obtain ⟨n', v', hc, _⟩ := hv p (List.mem_cons_self ..)
    refine ⟨(n', v') :: nvs, by simp [each, hc, h1], ?_, ?_⟩
    · refine List.pairwise_cons.2 ⟨?_, h2⟩
      rintro ⟨n, v⟩ hb
      obtain ⟨q, hq, hcq⟩ := (h3 n v).1 hb
      have := hs.1 q hq
      simp only [KLt, key_of_cut hc, key_of_cut hcq] at this
      exact this
    · intro n v
      simp only [List.mem_cons, h3, Prod.mk.injEq, exists_eq_or_imp, hc, Option.some.injEq]
      constructor
      · rintro (⟨rfl, rfl⟩ | h)
        · exact .inl ⟨rfl, rfl⟩
        · exact .inr h
      · rintro (⟨rfl, rfl⟩ | h)
        · exact .inl ⟨rfl, rfl⟩
        · exact .inr h

/-! ### `Get`: the comparison closure and the binary search -/

theorem getCmp_nil_cons (b : UInt8) (p : Bytes) :
    getCmp [] (b :: p) = if b < eqByte then -1 else if b > eqByte then 1 else 0 := by
  simp [getCmp, cmpBytes, ordToInt]

theorem getCmp_cons_cons (a : UInt8) (name : Bytes) (b : UInt8) (p : Bytes) :
    getCmp (a :: name) (b :: p) = if b < a then -1 else if a < b then 1 else getCmp name p := by
  simp only [getCmp, List.length_cons, Nat.add_lt_add_iff_right, cmpBytes, List.take_succ_cons,
    List.getD_cons_succ]
  by_cases h1 : b < a
  · simp [h1, ordToInt]
  · by_cases h2 : a < b
    · simp [h1, h2, ordToInt]
    · simp [h1, h2]

theorem getCmp_key (name n v : Bytes) (h1 : eqByte ∉ name) (h2 : eqByte ∉ n) :
    getCmp name (n ++ eqByte :: v) = ordToInt (cmpBytes (n ++ [eqByte]) (name ++ [eqByte])) := by
  induction name generalizing n with
  | nil =>
    cases n with
    | nil => simp [getCmp_nil_cons, cmpBytes, ordToInt]
    | cons b n =>
      simp only [List.mem_cons, not_or] at h2
      have hb : ¬ b = eqByte := fun e => h2.1 e.symm
      simp only [List.cons_append, List.nil_append, getCmp_nil_cons, cmpBytes]
      by_cases c1 : b < eqByte
      · simp [c1, ordToInt]
      · by_cases c2 : eqByte < b
        · simp [c1, c2, ordToInt]
        · exact absurd (by grind) hb
  | cons a name ih =>
    simp only [List.mem_cons, not_or] at h1
    have ha : ¬ a = eqByte := fun e => h1.1 e.symm
    cases n with
    | nil =>
      simp only [List.cons_append, List.nil_append, getCmp_cons_cons, cmpBytes]
      by_cases c1 : eqByte < a
      · simp [c1, ordToInt]
      · by_cases c2 : a < eqByte
        · simp [c1, c2, ordToInt]
        · exact absurd (by grind) ha
    | cons b n =>
      simp only [List.mem_cons, not_or] at h2
      simp only [List.cons_append, getCmp_cons_cons, cmpBytes]
      by_cases c1 : b < a
      · simp [c1, ordToInt]
      · by_cases c2 : a < b
        · simp [c1, c2, ordToInt]
        · simp only [c1, c2, if_false]
          exact ih n h1.2 h2.2
theorem bsearch_spec (cmp : Bytes → Int) (x : Array Bytes) (n : Nat)
    (mono : ∀ a b, a < b → b < n → cmp (x.getD b []) < 0 → cmp (x.getD a []) < 0) :
    ∀ fuel i j, j - i < fuel → j ≤ n →
      (∀ k, k < i → cmp (x.getD k []) < 0) →
      (∀ k, j ≤ k → k < n → ¬ cmp (x.getD k []) < 0) →
      (∀ k, k < bsearch cmp x fuel i j → cmp (x.getD k []) < 0) ∧
      (∀ k, bsearch cmp x fuel i j ≤ k → k < n → ¬ cmp (x.getD k []) < 0) := by
  intro fuel
  induction fuel with
  | zero => intro i j h; omega
  | succ fuel ih =>
    intro i j hf hj hlo hhi
    simp only [bsearch]
    split
    · next hij =>
      have h1 : i ≤ (i + j) / 2 := by omega
      have h2 : (i + j) / 2 < j := by omega
      split
      · next hneg =>
        apply ih _ _ (by omega) hj
        · intro k hk
          by_cases e : k = (i + j) / 2
          · subst e; exact hneg
          · exact mono k ((i + j) / 2) (by omega) (by omega) hneg
        · exact hhi
      · next hneg =>
        apply ih _ _ (by omega) (by omega) hlo
        intro k hk hkn
        by_cases e : k = (i + j) / 2
        · subst e; exact hneg
        · exact fun hc => hneg (mono ((i + j) / 2) k (by omega) hkn hc)
    · next hij =>
      exact ⟨hlo, fun k hk hkn => hhi k (by omega) hkn⟩

theorem ordToInt_neg_iff (o : Ordering) : ordToInt o < 0 ↔ o = .lt := by
  cases o <;> simp [ordToInt]

theorem ordToInt_zero_iff (o : Ordering) : ordToInt o = 0 ↔ o = .eq := by
  cases o <;> simp [ordToInt]

theorem toArray_getD (l : List Bytes) (k : Nat) (hk : k < l.length) : l.toArray.getD k [] = l[k] := by
  simp [Array.getD, hk]

theorem get_unfold (l : List Bytes) (name : Bytes) (hc : eqByte ∉ name) :
    get l name =
      if bsearch (getCmp name) l.toArray (l.length + 1) 0 l.length < l.length ∧
          getCmp name (l.toArray.getD (bsearch (getCmp name) l.toArray (l.length + 1) 0 l.length) []) = 0 then
        if name.length + 1 ≤ (l.toArray.getD (bsearch (getCmp name) l.toArray (l.length + 1) 0 l.length) []).length then
          .val ((l.toArray.getD (bsearch (getCmp name) l.toArray (l.length + 1) 0 l.length) []).drop (name.length + 1))
        else .panic
      else .unset := by
  simp [get, hc]
theorem get_inv (l : List Bytes) (name : Bytes) (hv : ∀ p ∈ l, Valid p) (hs : l.Pairwise KLt) :
    (∀ v, specGet l name = some v → get l name = .val v) ∧
    (specGet l name = none → get l name = .unset) := by
  by_cases hc : eqByte ∈ name
  · have h1 : get l name = .unset := by simp [get, hc]
    rw [specGet_of_mem_eq l name hc]
    simp [h1]
  · -- the comparison closure only looks at the key
    have hcmp : ∀ k (hk : k < l.length),
        getCmp name (l.toArray.getD k []) = ordToInt (cmpBytes (key l[k]) (name ++ [eqByte])) := by
      intro k hk
      rw [toArray_getD l k hk]
      obtain ⟨n', v', hcut, _⟩ := hv l[k] (List.getElem_mem hk)
      obtain ⟨e, hn'⟩ := cut_some hcut
      rw [key_of_cut hcut]
      conv => lhs; rw [e]
      exact getCmp_key name n' v' hc hn'
    have hlt : ∀ a b (ha : a < l.length) (hb : b < l.length), a < b →
        cmpBytes (key l[a]) (key l[b]) = .lt := by
      intro a b ha hb hab
      exact (List.pairwise_iff_getElem.1 hs) a b ha hb hab
    have mono : ∀ a b, a < b → b < l.length → getCmp name (l.toArray.getD b []) < 0 →
        getCmp name (l.toArray.getD a []) < 0 := by
      intro a b hab hb
      rw [hcmp a (by omega), hcmp b hb, ordToInt_neg_iff, ordToInt_neg_iff]
      exact cmpBytes_lt_trans _ _ _ (hlt a b (by omega) hb hab)
    obtain ⟨hlo, hhi⟩ := bsearch_spec (getCmp name) l.toArray l.length mono (l.length + 1) 0 l.length
      (by omega) (Nat.le_refl _) (fun k hk => absurd hk (Nat.not_lt_zero k))
      (fun k h1 h2 => absurd h1 (by omega))
    rw [get_unfold l name hc]
    generalize bsearch (getCmp name) l.toArray (l.length + 1) 0 l.length = r at hlo hhi ⊢
    split
    · next hcond =>
      obtain ⟨hr, hz⟩ := hcond
      rw [hcmp r hr, ordToInt_zero_iff, cmpBytes_eq_iff] at hz
      rw [toArray_getD l r hr]
      obtain ⟨n', v', hcut, hn'⟩ := hv l[r] (List.getElem_mem hr)
      rw [key_of_cut hcut] at hz
      have : n' = name := List.append_cancel_right hz
      subst this
      have e := (cut_some hcut).1
      have hsome : specGet l n' = some v' :=
        (specGet_eq_some_iff l n' v' hv hs).2 ⟨l[r], List.getElem_mem hr, hcut⟩
      have hlen : n'.length + 1 ≤ l[r].length := by rw [e]; simp
      have hdrop : l[r].drop (n'.length + 1) = v' := by
        rw [e]
        simp
      rw [if_pos hlen, hdrop, hsome]
      simp
    · next hcond =>
      have hnone : specGet l name = none := by
        rw [specGet_eq_none_iff l name hv hs]
        intro p hp v hcut
        obtain ⟨k, hk, rfl⟩ := List.getElem_of_mem hp
        have hkey : cmpBytes (key l[k]) (name ++ [eqByte]) = .eq := by
          rw [key_of_cut hcut]; exact cmpBytes_self _
        have hck : getCmp name (l.toArray.getD k []) = 0 := by
          rw [hcmp k hk, hkey]; rfl
        by_cases h1 : k < r
        · have := hlo k h1
          omega
        · by_cases h2 : k = r
          · subst h2
            exact hcond ⟨hk, hck⟩
          · have hrk : r < k := by omega
            have hr : r < l.length := by omega
            refine hhi r (Nat.le_refl _) hr ?_
            rw [hcmp r hr, ordToInt_neg_iff]
            have := hlt r k hr hk hrk
            rw [(cmpBytes_eq_iff _ _).1 hkey] at this
            exact this
      rw [hnone]
      simp

end ShVerif.C34
