/-
  L2 byte source — helper lemmas (core Lean only): unicode/utf8 decoding on a prefix of the input,
  the reader loop of `fill`, `Except` bind equations.
-/
import ShVerif.Model.L2ByteSrc
namespace ShVerif.L2

@[simp] theorem bind_ok {α β : Type} (x : α) (f : α → M β) : (Except.ok x >>= f) = f x := rfl
@[simp] theorem bind_error {α β : Type} (e : Fault) (f : α → M β) :
    ((Except.error e : M α) >>= f) = Except.error e := rfl
@[simp] theorem pure_eq_ok {α : Type} (x : α) : (pure x : M α) = Except.ok x := rfl
@[simp] theorem map_ok {α β : Type} (x : α) (f : α → β) : (f <$> (Except.ok x : M α)) = Except.ok (f x) := rfl
@[simp] theorem throw_eq_error {α : Type} (e : Fault) : (throw e : M α) = Except.error e := rfl

/-! ## utf8 -/

/-- `p.r == utf8.RuneError && !utf8.FullRune(p.bs[p.bsp:])`: the bytes at hand are a proper prefix
    of an encoding -/
def needMore (p : List Byte) : Bool := (decodeRune p).1 == runeError && !fullRune p

theorem lead_sz {x sz lo hi} (h : lead x = some (sz, lo, hi)) : sz = 2 ∨ sz = 3 ∨ sz = 4 := by
  unfold lead at h
  repeat' split at h
  all_goals simp_all

theorem lead_none_of_lt {x : Nat} (h : x < 0x80) : lead x = none := by
  unfold lead
  repeat (rw [if_neg (by omega)])

/-- once the bytes at hand are not a proper prefix of an encoding, more bytes change nothing -/
theorem decode_append (p q : List Byte) (hp : p ≠ []) (h : needMore p = false) :
    decodeRune (p ++ q) = decodeRune p ∧ needMore (p ++ q) = false := by
  rcases p with _ | ⟨b0, p⟩
  · exact absurd rfl hp
  · unfold needMore at h ⊢
    simp only [List.cons_append]
    unfold decodeRune fullRune at h ⊢
    by_cases h0 : b0.toNat < 0x80
    · simp [h0, lead_none_of_lt h0]
    · cases hl : lead b0.toNat with
      | none => simp [h0, hl]
      | some t =>
        obtain ⟨sz, lo, hi⟩ := t
        have hsz := lead_sz hl
        simp only [h0, hl, if_false] at h ⊢
        rcases p with _ | ⟨b1, p⟩
        · simp [runeError] at h
        · simp only [List.cons_append]
          by_cases h1 : b1.toNat < lo ∨ hi < b1.toNat
          · simp [h1]
          · simp only [h1, if_false] at h ⊢
            rcases hsz with rfl | rfl | rfl
            · simp
            · simp at h ⊢
              rcases p with _ | ⟨b2, p⟩
              · simp [runeError] at h
              · simp
            · simp at h ⊢
              rcases p with _ | ⟨b2, p⟩
              · simp [runeError] at h
              · simp only [List.cons_append]
                by_cases h2 : isCont b2
                · simp [h2] at h ⊢
                  rcases p with _ | ⟨b3, p⟩
                  · simp [runeError] at h
                  · simp
                · simp [h2]

theorem needMore_length (p : List Byte) (h : needMore p = true) : p.length ≤ 3 := by
  rcases p with _ | ⟨b0, _ | ⟨b1, _ | ⟨b2, _ | ⟨b3, p⟩⟩⟩⟩ <;> simp at *
  -- four or more bytes: FullRune is true
  unfold needMore at h
  unfold fullRune at h
  cases hl : lead b0.toNat with
  | none => simp [hl] at h
  | some t =>
    obtain ⟨sz, lo, hi⟩ := t
    simp only [hl] at h
    revert h
    repeat' split
    all_goals simp

/-- `DecodeRune` on a non-empty slice consumes between one byte and all of it -/
theorem decode_width (p : List Byte) (hp : p ≠ []) :
    1 ≤ (decodeRune p).2 ∧ (decodeRune p).2 ≤ p.length := by
  rcases p with _ | ⟨b0, p⟩
  · exact absurd rfl hp
  · unfold decodeRune
    by_cases h0 : b0.toNat < 0x80
    · simp [h0]
    · cases hl : lead b0.toNat with
      | none => simp [h0, hl]
      | some t =>
        obtain ⟨sz, lo, hi⟩ := t
        have hsz := lead_sz hl
        simp only [h0, hl, if_false]
        rcases p with _ | ⟨b1, p⟩
        · simp
        · by_cases h1 : b1.toNat < lo ∨ hi < b1.toNat
          · simp [h1]
          · simp only [h1, if_false]
            rcases hsz with rfl | rfl | rfl
            · simp
            · rcases p with _ | ⟨b2, p⟩
              · simp
              · by_cases h2 : isCont b2 <;> simp [h2]
            · rcases p with _ | ⟨b2, p⟩
              · simp
              · by_cases h2 : isCont b2
                · rcases p with _ | ⟨b3, p⟩
                  · simp [h2]
                  · by_cases h3 : isCont b3 <;> simp [h2, h3]
                · simp [h2]

theorem lead4 {x lo hi} (h : lead x = some (4, lo, hi)) : 0xF0 ≤ x ∧ (x ≤ 0xF3 ∨ (x = 0xF4 ∧ hi = 0x8F ∧ lo = 0x80)) := by
  unfold lead at h
  repeat' split at h
  all_goals simp_all
  all_goals omega

theorem toNat_lt (b : Byte) : b.toNat < 256 := UInt8.toNat_lt b

/-- a decoded rune is never one of the sentinels -/
theorem decode_lt (p : List Byte) : (decodeRune p).1 < runeEOF := by
  rcases p with _ | ⟨b0, p⟩
  · simp [decodeRune, runeError, runeEOF]
  · unfold decodeRune
    have := toNat_lt b0
    by_cases h0 : b0.toNat < 0x80
    · simp [h0, runeEOF]; omega
    · cases hl : lead b0.toNat with
      | none => simp [h0, hl, runeError, runeEOF]
      | some t =>
        obtain ⟨sz, lo, hi⟩ := t
        have hsz := lead_sz hl
        simp only [h0, hl, if_false]
        rcases p with _ | ⟨b1, p⟩
        · simp [runeError, runeEOF]
        · have := toNat_lt b1
          by_cases h1 : b1.toNat < lo ∨ hi < b1.toNat
          · simp [h1, runeError, runeEOF]
          · simp only [h1, if_false]
            rcases hsz with rfl | rfl | rfl
            · simp [runeEOF]; omega
            · rcases p with _ | ⟨b2, p⟩
              · simp [runeError, runeEOF]
              · by_cases h2 : isCont b2 <;> simp [h2, runeError, runeEOF]
                omega
            · rcases p with _ | ⟨b2, p⟩
              · simp [runeError, runeEOF]
              · by_cases h2 : isCont b2
                · rcases p with _ | ⟨b3, p⟩
                  · simp [h2, runeError, runeEOF]
                  · by_cases h3 : isCont b3 <;> simp [h2, h3, runeError, runeEOF]
                    have := lead4 hl
                    omega
                · simp [h2, runeError, runeEOF]

/-! ## the reader -/

theorem readLoop_nil (cap : Nat) (ew : Bool) (sched : List Nat) :
    ∃ sc, readLoop cap ew [] sched = .ok ([], true, [], sc) := by
  cases sched <;> simp [readLoop]

theorem readLoop_data (cap : Nat) (hcap : 0 < cap) (ew : Bool) (pending : List Byte) (hp : pending ≠ [])
    (sched : List Nat) :
    ∃ chunk e rest sc, readLoop cap ew pending sched = .ok (chunk, e, rest, sc)
      ∧ chunk ≠ [] ∧ chunk ++ rest = pending ∧ chunk.length ≤ cap ∧ (e = true → rest = []) := by
  induction sched with
  | nil =>
    rcases pending with _ | ⟨b, t⟩
    · exact absurd rfl hp
    · refine ⟨(b :: t).take cap, ew && ((b :: t).drop cap).isEmpty, (b :: t).drop cap, [], ?_, ?_, ?_, ?_, ?_⟩
      · simp [readLoop, Nat.ne_of_gt hcap]
      · cases cap with
        | zero => omega
        | succ n => simp
      · simp
      · simp [List.length_take]; omega
      · intro h; simp at h; exact List.drop_eq_nil_of_le (by simpa using h.2)
  | cons e es ih =>
    rcases pending with _ | ⟨b, t⟩
    · exact absurd rfl hp
    · by_cases hk : min e cap = 0
      · obtain ⟨c, e', r, sc, h1, h2, h3, h4, h5⟩ := ih
        exact ⟨c, e', r, sc, by simp [readLoop, hk, h1], h2, h3, h4, h5⟩
      · refine ⟨(b :: t).take (min e cap), ew && ((b :: t).drop (min e cap)).isEmpty,
          (b :: t).drop (min e cap), es, ?_, ?_, ?_, ?_, ?_⟩
        · simp [readLoop, hk]
        · cases hm : min e cap with
          | zero => exact absurd hm hk
          | succ n => simp
        · simp
        · simp [List.length_take]; omega
        · intro h; simp at h; exact List.drop_eq_nil_of_le (by simpa using h.2)

end ShVerif.L2
