import ShVerif.Model.C31
/-
  Helper lemmas for C31 (skeleton model of stop()/stmt/cmd/loops under cancellation).
-/
namespace ShVerif.C31

/-! ### order on states; cancellation is monotone -/

def le (a b : St) : Prop := a.now ≤ b.now ∧ a.log.length ≤ b.log.length

theorem le_refl (a : St) : le a a := ⟨Nat.le_refl _, Nat.le_refl _⟩
theorem le_trans {a b c : St} (h1 : le a b) (h2 : le b c) : le a c :=
  ⟨Nat.le_trans h1.1 h2.1, Nat.le_trans h1.2 h2.2⟩

theorem cancelled_mono (e : Env) {a b : St} (h : le a b) (hc : cancelled e a = true) : cancelled e b = true := by
  simp only [cancelled, Bool.or_eq_true, decide_eq_true_eq] at hc ⊢
  cases hc with
  | inl h1 => exact Or.inl (Nat.le_trans h1 h.1)
  | inr h2 => exact Or.inr (Nat.le_trans h2 h.2)

theorem not_cancelled_mono (e : Env) {a b : St} (h : le a b) (hc : cancelled e b = false) : cancelled e a = false := by
  cases ha : cancelled e a with
  | false => rfl
  | true => rw [cancelled_mono e h ha] at hc; cases hc

@[simp] theorem tick_now (e : Env) (s : St) : (tick e s).now = s.now + 1 := rfl
@[simp] theorem tick_log (e : Env) (s : St) : (tick e s).log = s.log := rfl
@[simp] theorem tick_ok (e : Env) (s : St) : (tick e s).ok = s.ok := rfl
@[simp] theorem tick_fatal (e : Env) (s : St) : (tick e s).fatal = s.fatal := rfl

theorem le_tick (e : Env) (s : St) : le s (tick e s) := ⟨Nat.le_succ _, Nat.le_refl _⟩

theorem tick_after_le (e : Env) (s : St) : (tick e s).after ≤ s.after + 1 := by
  simp only [tick]; split <;> omega

theorem tick_after_of_not (e : Env) (s : St) (h : cancelled e s = false) : (tick e s).after = s.after := by
  simp [tick, h]

/-- states that only differ in ok/fatal/items are equally cancelled -/
theorem cancelled_congr (e : Env) {a b : St} (h1 : a.now = b.now) (h2 : a.log = b.log) : cancelled e a = cancelled e b := by
  simp [cancelled, h1, h2]

theorem le_halt (e : Env) (s : St) : le s (halt e s) := ⟨Nat.le_succ _, Nat.le_refl _⟩
theorem halt_after_le (e : Env) (s : St) : (halt e s).after ≤ s.after + 1 := by
  simp only [halt, tick]; split <;> simp <;> omega
@[simp] theorem halt_log (e : Env) (s : St) : (halt e s).log = s.log := rfl
@[simp] theorem halt_ok (e : Env) (s : St) : (halt e s).ok = false := rfl
@[simp] theorem halt_fatal (e : Env) (s : St) : (halt e s).fatal = true := rfl

theorem le_clear (s : St) : le s (clear s) := by
  unfold clear; split <;> exact le_refl _
theorem clear_le (s : St) : le (clear s) s := by
  unfold clear; split <;> exact le_refl _
@[simp] theorem clear_after (s : St) : (clear s).after = s.after := by
  unfold clear; split <;> rfl
@[simp] theorem clear_log (s : St) : (clear s).log = s.log := by
  unfold clear; split <;> rfl
@[simp] theorem clear_now (s : St) : (clear s).now = s.now := by
  unfold clear; split <;> rfl

theorem le_runAtom (e : Env) (id : Nat) (s : St) : le s (runAtom e id s) :=
  ⟨Nat.le_succ _, by simp [runAtom]⟩
theorem runAtom_after_le (e : Env) (id : Nat) (s : St) : (runAtom e id s).after ≤ s.after + 1 := by
  simp only [runAtom, tick]; split <;> simp <;> omega

/-- the state is dead: stop() has recorded the fatal error -/
def dead (s : St) : Prop := s.ok = false ∧ s.fatal = true

theorem dead_tick (e : Env) {s : St} (h : dead s) : dead (tick e s) := h
theorem dead_clear {s : St} (h : dead s) : dead (clear s) := by
  unfold clear; rw [if_pos h.2]; exact h
theorem dead_halt (e : Env) (s : St) : dead (halt e s) := ⟨rfl, rfl⟩

/-! ### execution only moves forward -/

theorem exec_le (e : Env) : ∀ (f : Nat) (sk : Sk) (st st' : St), exec e f sk st = some st' → le st st' := by
  intro f
  induction f with
  | zero => intro sk st st' h; simp [exec] at h
  | succ f ih =>
    intro sk st st' h
    cases sk with
    | atom id =>
      simp only [exec] at h
      split at h <;> (cases h; first | exact le_halt e st | exact le_runAtom e id st)
    | seq a b =>
      simp only [exec] at h
      split at h
      · cases h
      · rename_i st1 h1
        exact le_trans (ih a st st1 h1) (ih b st1 st' h)
    | ifc c t el =>
      simp only [exec] at h
      split at h
      · cases h; exact le_halt e st
      · split at h
        · cases h
        · rename_i st1 h1
          have l1 := le_trans (le_tick e st) (ih c _ st1 h1)
          split at h
          · exact le_trans l1 (ih t st1 st' h)
          · exact le_trans (le_trans l1 (le_clear st1)) (ih el _ st' h)
    | whileL u c b =>
      simp only [exec] at h
      split at h
      · cases h; exact le_halt e st
      · exact le_trans (le_tick e st) (ih _ _ st' h)
    | whileIter u c b =>
      simp only [exec] at h
      split at h
      · cases h; exact le_halt e st
      · split at h
        · cases h
        · rename_i st1 h1
          have l1 := le_trans (le_tick e st) (ih c _ st1 h1)
          split at h
          · cases h; exact le_trans l1 (le_clear st1)
          · split at h
            · cases h
            · rename_i st2 h2
              exact le_trans (le_trans (le_trans l1 (le_clear st1)) (ih b _ st2 h2)) (ih _ st2 st' h)
    | forW n b =>
      simp only [exec] at h
      split at h
      · cases h; exact le_halt e st
      · have l0 : le st (tick e { st with ok := true }) := ⟨Nat.le_succ _, Nat.le_refl _⟩
        exact le_trans l0 (ih _ _ st' h)
    | forItems k b =>
      cases k with
      | zero => simp only [exec] at h; cases h; exact le_refl _
      | succ k =>
        simp only [exec] at h
        split at h
        · cases h; exact le_halt e st
        · split at h
          · cases h
          · rename_i st1 h1
            have l0 : le st (tick e { st with items := st.items + 1 }) := ⟨Nat.le_succ _, Nat.le_refl _⟩
            exact le_trans (le_trans l0 (ih b _ st1 h1)) (ih _ st1 st' h)
    | forC n b =>
      simp only [exec] at h
      split at h
      · cases h; exact le_halt e st
      · have l0 : le st (tick e { st with ok := true }) := ⟨Nat.le_succ _, Nat.le_refl _⟩
        exact le_trans l0 (ih _ _ st' h)
    | forCIter i n b =>
      simp only [exec] at h
      split at h
      · split at h
        · cases h; exact le_tick e st
        · split at h
          · cases h
          · rename_i st2 h2
            exact le_trans (le_trans (le_trans (le_tick e st) (ih b _ st2 h2)) (le_tick e st2)) (ih _ _ st' h)
      · cases h; exact le_tick e st
    | sub b =>
      simp only [exec] at h
      split at h
      · cases h; exact le_halt e st
      · exact le_trans (le_tick e st) (ih _ _ st' h)

/-! ### once cancelled: no atom runs, and the first stop check kills the state -/

theorem exec_cancelled (e : Env) : ∀ (f : Nat) (sk : Sk) (st st' : St),
    cancelled e st = true → exec e f sk st = some st' →
    cancelled e st' = true ∧ st'.log = st.log ∧ ((lead sk = true ∨ dead st) → dead st') := by
  intro f
  induction f with
  | zero => intro sk st st' _ h; simp [exec] at h
  | succ f ih =>
    intro sk st st' hc h
    have hh : cancelled e (halt e st) = true ∧ (halt e st).log = st.log ∧ dead (halt e st) :=
      ⟨cancelled_mono e (le_halt e st) hc, rfl, dead_halt e st⟩
    cases sk with
    | atom id =>
      simp only [exec, hc, if_true] at h; cases h
      exact ⟨hh.1, hh.2.1, fun _ => hh.2.2⟩
    | seq a b =>
      simp only [exec] at h
      split at h
      · cases h
      · rename_i st1 h1
        obtain ⟨c1, l1, d1⟩ := ih a st st1 hc h1
        obtain ⟨c2, l2, d2⟩ := ih b st1 st' c1 h
        exact ⟨c2, by rw [l2, l1], fun hd => d2 (Or.inr (d1 hd))⟩
    | ifc c t el =>
      simp only [exec, hc, if_true] at h; cases h
      exact ⟨hh.1, hh.2.1, fun _ => hh.2.2⟩
    | whileL u c b =>
      simp only [exec, hc, if_true] at h; cases h
      exact ⟨hh.1, hh.2.1, fun _ => hh.2.2⟩
    | whileIter u c b =>
      simp only [exec, hc, if_true] at h; cases h
      exact ⟨hh.1, hh.2.1, fun _ => hh.2.2⟩
    | forW n b =>
      simp only [exec, hc, if_true] at h; cases h
      exact ⟨hh.1, hh.2.1, fun _ => hh.2.2⟩
    | forItems k b =>
      cases k with
      | zero =>
        simp only [exec] at h; cases h
        exact ⟨hc, rfl, fun hd => hd.elim (fun x => by simp [lead] at x) id⟩
      | succ k =>
        simp only [exec, hc, if_true] at h; cases h
        exact ⟨hh.1, hh.2.1, fun _ => hh.2.2⟩
    | forC n b =>
      simp only [exec, hc, if_true] at h; cases h
      exact ⟨hh.1, hh.2.1, fun _ => hh.2.2⟩
    | forCIter i n b =>
      have c1 : cancelled e (tick e st) = true := cancelled_mono e (le_tick e st) hc
      simp only [exec] at h
      split at h
      · split at h
        · cases h
          exact ⟨c1, rfl, fun hd => hd.elim (fun x => by simp [lead] at x) (fun d => d)⟩
        · split at h
          · cases h
          · rename_i st2 h2
            obtain ⟨c2, l2, d2⟩ := ih b _ st2 c1 h2
            have c3 : cancelled e (tick e st2) = true := cancelled_mono e (le_tick e st2) c2
            obtain ⟨c4, l4, d4⟩ := ih _ _ st' c3 h
            refine ⟨c4, by rw [l4]; simp [l2], fun hd => ?_⟩
            cases hd with
            | inl x => simp [lead] at x
            | inr hd => exact d4 (Or.inr (d2 (Or.inr hd)))
      · cases h
        exact ⟨c1, rfl, fun hd => hd.elim (fun x => by simp [lead] at x) (fun d => d)⟩
    | sub b =>
      simp only [exec, hc, if_true] at h; cases h
      exact ⟨hh.1, hh.2.1, fun _ => hh.2.2⟩

/-! ### as long as the context is not cancelled no step counts as "after cancellation" -/

theorem exec_after_of_not (e : Env) : ∀ (f : Nat) (sk : Sk) (st st' : St),
    exec e f sk st = some st' → cancelled e st' = false → st'.after = st.after := by
  intro f
  induction f with
  | zero => intro sk st st' h; simp [exec] at h
  | succ f ih =>
    intro sk st st' h hn
    have hst : cancelled e st = false := not_cancelled_mono e (exec_le e _ _ _ _ h) hn
    cases sk with
    | atom id =>
      simp only [exec, hst, Bool.false_eq_true, if_false] at h
      cases h
      simp only [runAtom] at hn ⊢
      exact tick_after_of_not e _ (not_cancelled_mono e (le_tick e _) hn)
    | seq a b =>
      simp only [exec] at h
      split at h
      · cases h
      · rename_i st1 h1
        have n1 := not_cancelled_mono e (exec_le e _ _ _ _ h) hn
        rw [ih b st1 st' h hn, ih a st st1 h1 n1]
    | ifc c t el =>
      simp only [exec, hst, Bool.false_eq_true, if_false] at h
      split at h
      · cases h
      · rename_i st1 h1
        split at h
        · have n1 := not_cancelled_mono e (exec_le e _ _ _ _ h) hn
          rw [ih t st1 st' h hn, ih c _ st1 h1 n1, tick_after_of_not e st hst]
        · have n1' := not_cancelled_mono e (exec_le e _ _ _ _ h) hn
          have n1 := not_cancelled_mono e (le_clear st1) n1'
          rw [ih el _ st' h hn, clear_after, ih c _ st1 h1 n1, tick_after_of_not e st hst]
    | whileL u c b =>
      simp only [exec, hst, Bool.false_eq_true, if_false] at h
      rw [ih _ _ st' h hn, tick_after_of_not e st hst]
    | whileIter u c b =>
      simp only [exec, hst, Bool.false_eq_true, if_false] at h
      split at h
      · cases h
      · rename_i st1 h1
        split at h
        · cases h
          have n1 := not_cancelled_mono e (le_clear st1) hn
          rw [clear_after, ih c _ st1 h1 n1, tick_after_of_not e st hst]
        · split at h
          · cases h
          · rename_i st2 h2
            have n2 := not_cancelled_mono e (exec_le e _ _ _ _ h) hn
            have n1' := not_cancelled_mono e (exec_le e _ _ _ _ h2) n2
            have n1 := not_cancelled_mono e (le_clear st1) n1'
            rw [ih _ st2 st' h hn, ih b _ st2 h2 n2, clear_after, ih c _ st1 h1 n1, tick_after_of_not e st hst]
    | forW n b =>
      simp only [exec, hst, Bool.false_eq_true, if_false] at h
      have hst' : cancelled e { st with ok := true } = false :=
        (cancelled_congr e rfl rfl).trans hst
      rw [ih _ _ st' h hn, tick_after_of_not e _ hst']
    | forItems k b =>
      cases k with
      | zero => simp only [exec] at h; cases h; rfl
      | succ k =>
        simp only [exec, hst, Bool.false_eq_true, if_false] at h
        split at h
        · cases h
        · rename_i st1 h1
          have n1 := not_cancelled_mono e (exec_le e _ _ _ _ h) hn
          have hst' : cancelled e { st with items := st.items + 1 } = false :=
            (cancelled_congr e rfl rfl).trans hst
          rw [ih _ st1 st' h hn, ih b _ st1 h1 n1, tick_after_of_not e _ hst']
    | forC n b =>
      simp only [exec, hst, Bool.false_eq_true, if_false] at h
      have hst' : cancelled e { st with ok := true } = false :=
        (cancelled_congr e rfl rfl).trans hst
      rw [ih _ _ st' h hn, tick_after_of_not e _ hst']
    | forCIter i n b =>
      simp only [exec] at h
      split at h
      · split at h
        · cases h; exact tick_after_of_not e st hst
        · split at h
          · cases h
          · rename_i st2 h2
            have n3 := not_cancelled_mono e (exec_le e _ _ _ _ h) hn
            have n2 := not_cancelled_mono e (le_tick e st2) n3
            rw [ih _ _ st' h hn, tick_after_of_not e st2 n2, ih b _ st2 h2 n2, tick_after_of_not e st hst]
      · cases h; exact tick_after_of_not e st hst
    | sub b =>
      simp only [exec, hst, Bool.false_eq_true, if_false] at h
      rw [ih _ _ st' h hn, tick_after_of_not e st hst]

/-! ### bound on the steps taken after cancellation -/

abbrev BoundAt (e : Env) (g : Nat) : Prop :=
  ∀ (sk : Sk) (st st' : St), wf sk = true → exec e g sk st = some st' → st'.after ≤ st.after + unwind sk

/-- a C-style loop entered (or resumed) with the context already cancelled leaves after at most one
    more pass over its body: the body's first stop check makes `r.exit.ok()` false -/
theorem forCIter_cancelled (e : Env) (F : Nat) (ihB : ∀ g, g < F → BoundAt e g)
    (g : Nat) (hg : g ≤ F) (i n : Nat) (b : Sk) (hw : wf b = true) (hl : lead b = true) (st st' : St)
    (hc : cancelled e st = true) (h : exec e g (.forCIter i n b) st = some st') :
    st'.after ≤ st.after + unwind b + 3 := by
  cases g with
  | zero => simp [exec] at h
  | succ g =>
    have t1 := tick_after_le e st
    have c1 : cancelled e (tick e st) = true := cancelled_mono e (le_tick e st) hc
    simp only [exec] at h
    split at h
    · split at h
      · cases h; omega
      · split at h
        · cases h
        · rename_i st2 h2
          have b2 := ihB g (by omega) b _ st2 hw h2
          obtain ⟨c2, _, d2⟩ := exec_cancelled e g b _ st2 c1 h2
          have hd2 : dead st2 := d2 (Or.inl hl)
          have t3 := tick_after_le e st2
          cases g with
          | zero => simp [exec] at h
          | succ g =>
            have t4 := tick_after_le e (tick e st2)
            have hok : (tick e (tick e st2)).ok = false := hd2.1
            simp only [exec, hok] at h
            split at h
            · simp at h; cases h; omega
            · cases h; omega
    · cases h; omega

theorem exec_after_bound (e : Env) : ∀ (f : Nat), BoundAt e f := by
  intro f
  induction f using Nat.strongRecOn with
  | _ f ih =>
    intro sk st st' hw h
    cases f with
    | zero => simp [exec] at h
    | succ f =>
      have ihf : BoundAt e f := ih f (Nat.lt_succ_self f)
      cases sk with
      | atom id =>
        simp only [exec] at h
        split at h
        · cases h; have := halt_after_le e st; simp [unwind]; omega
        · cases h; have := runAtom_after_le e id st; simp [unwind]; omega
      | seq a b =>
        simp only [wf, Bool.and_eq_true] at hw
        simp only [exec] at h
        split at h
        · cases h
        · rename_i st1 h1
          have b1 := ihf a st st1 hw.1 h1
          have b2 := ihf b st1 st' hw.2 h
          simp only [unwind]; omega
      | ifc c t el =>
        simp only [wf, Bool.and_eq_true] at hw
        simp only [exec] at h
        split at h
        · cases h; have := halt_after_le e st; simp only [unwind]; omega
        · split at h
          · cases h
          · rename_i st1 h1
            have t0 := tick_after_le e st
            have b1 := ihf c _ st1 hw.1.1 h1
            split at h
            · have b2 := ihf t st1 st' hw.1.2 h
              simp only [unwind]; omega
            · have b2 := ihf el _ st' hw.2 h
              simp only [clear_after] at b2
              simp only [unwind]; omega
      | whileL u c b =>
        simp only [exec] at h
        split at h
        · cases h; have := halt_after_le e st; simp only [unwind]; omega
        · have t0 := tick_after_le e st
          have b1 := ihf (.whileIter u c b) _ st' (by simpa [wf] using hw) h
          simp only [unwind] at b1 ⊢; omega
      | whileIter u c b =>
        simp only [wf, Bool.and_eq_true] at hw
        simp only [exec] at h
        split at h
        · cases h; have := halt_after_le e st; simp only [unwind]; omega
        · rename_i hst
          have hst' : cancelled e st = false := by simpa using hst
          have t0 : (tick e st).after = st.after := tick_after_of_not e st hst'
          split at h
          · cases h
          · rename_i st1 h1
            have b1 := ihf c _ st1 hw.1 h1
            split at h
            · cases h; simp only [clear_after, unwind]; omega
            · split at h
              · cases h
              · rename_i st2 h2
                have b2 := ihf b _ st2 hw.2 h2
                simp only [clear_after] at b2
                cases hc2 : cancelled e st2 with
                | true =>
                  cases f with
                  | zero => simp [exec] at h
                  | succ f =>
                    simp only [exec, hc2, if_true] at h
                    cases h
                    have := halt_after_le e st2
                    simp only [unwind]; omega
                | false =>
                  -- nothing counted so far; the induction hypothesis applies to the rest
                  have n1' := not_cancelled_mono e (exec_le e _ _ _ _ h2) hc2
                  have n1 := not_cancelled_mono e (le_clear st1) n1'
                  have e2 : st2.after = (clear st1).after := exec_after_of_not e _ _ _ _ h2 hc2
                  have e1 : st1.after = (tick e st).after := exec_after_of_not e _ _ _ _ h1 n1
                  have b3 := ihf (.whileIter u c b) st2 st' (by simp [wf, hw.1, hw.2]) h
                  simp only [clear_after] at e2
                  simp only [unwind] at b3 ⊢; omega
      | forW n b =>
        simp only [exec] at h
        split at h
        · cases h; have := halt_after_le e st; simp only [unwind]; omega
        · have t0 := tick_after_le e { st with ok := true }
          have b1 := ihf (.forItems n b) _ st' (by simpa [wf] using hw) h
          have e0 : ({ st with ok := true } : St).after = st.after := rfl
          simp only [unwind] at b1 ⊢; omega
      | forItems k b =>
        cases k with
        | zero => simp only [exec] at h; cases h; omega
        | succ k =>
          simp only [exec] at h
          split at h
          · cases h; have := halt_after_le e st; simp only [unwind]; omega
          · rename_i hst
            have hst' : cancelled e st = false := by simpa using hst
            have hst'' : cancelled e { st with items := st.items + 1 } = false :=
              (cancelled_congr e rfl rfl).trans hst'
            have t0 : (tick e { st with items := st.items + 1 }).after = st.after :=
              tick_after_of_not e _ hst''
            split at h
            · cases h
            · rename_i st1 h1
              have b1 := ihf b _ st1 (by simpa [wf] using hw) h1
              cases hc1 : cancelled e st1 with
              | true =>
                -- the next iteration's stop check ends the loop
                cases f with
                | zero => simp [exec] at h
                | succ f =>
                  cases k with
                  | zero => simp only [exec] at h; cases h; simp only [unwind]; omega
                  | succ k =>
                    simp only [exec, hc1, if_true] at h
                    cases h
                    have := halt_after_le e st1
                    simp only [unwind]; omega
              | false =>
                have e1 : st1.after = (tick e { st with items := st.items + 1 }).after :=
                  exec_after_of_not e _ _ _ _ h1 hc1
                have b2 := ihf (.forItems k b) st1 st' (by simpa [wf] using hw) h
                simp only [unwind] at b2 ⊢; omega
      | forC n b =>
        simp only [exec] at h
        split at h
        · cases h; have := halt_after_le e st; simp only [unwind]; omega
        · have t0 := tick_after_le e { st with ok := true }
          have b1 := ihf (.forCIter 0 n b) _ st' (by simpa [wf] using hw) h
          have e0 : ({ st with ok := true } : St).after = st.after := rfl
          simp only [unwind] at b1 ⊢; omega
      | forCIter i n b =>
        simp only [wf, Bool.and_eq_true] at hw
        have t1 := tick_after_le e st
        cases hc : cancelled e st with
        | true =>
          have := forCIter_cancelled e (f + 1) (fun g hg => ih g hg) (f + 1) (Nat.le_refl _) i n b hw.1 hw.2 st st' hc h
          simp only [unwind]; omega
        | false =>
          have t1' : (tick e st).after = st.after := tick_after_of_not e st hc
          simp only [exec] at h
          split at h
          · split at h
            · cases h; simp only [unwind]; omega
            · split at h
              · cases h
              · rename_i st2 h2
                have b2 := ihf b _ st2 hw.1 h2
                have t3 := tick_after_le e st2
                cases hc3 : cancelled e (tick e st2) with
                | true =>
                  have := forCIter_cancelled e (f + 1) (fun g hg => ih g hg) f (Nat.le_succ _) (i + 1) n b hw.1 hw.2 _ st' hc3 h
                  simp only [unwind]; omega
                | false =>
                  have n2 := not_cancelled_mono e (le_tick e st2) hc3
                  have e3 : (tick e st2).after = st2.after := tick_after_of_not e st2 n2
                  have e2 : st2.after = (tick e st).after := exec_after_of_not e _ _ _ _ h2 n2
                  have b3 := ihf (.forCIter (i + 1) n b) _ st' (by simp [wf, hw.1, hw.2]) h
                  simp only [unwind] at b3 ⊢; omega
          · cases h; simp only [unwind]; omega
      | sub b =>
        simp only [exec] at h
        split at h
        · cases h; have := halt_after_le e st; simp only [unwind]; omega
        · have t0 := tick_after_le e st
          have b1 := ihf b _ st' (by simpa [wf] using hw) h
          simp only [unwind]; omega

/-! ### once cancelled, every program ends within `depth` levels of recursion -/

theorem exec_terminates (e : Env) : ∀ (f : Nat) (sk : Sk) (st : St),
    wf sk = true → cancelled e st = true → depth sk ≤ f → ∃ st', exec e f sk st = some st' := by
  intro f
  induction f with
  | zero =>
    intro sk st _ _ hd
    cases sk <;> simp [depth] at hd <;> omega
  | succ f ih =>
    intro sk st hw hc hd
    cases sk with
    | atom id => exact ⟨halt e st, by simp only [exec, hc, if_true]⟩
    | seq a b =>
      simp only [wf, Bool.and_eq_true] at hw
      simp only [depth] at hd
      obtain ⟨st1, h1⟩ := ih a st hw.1 hc (by omega)
      obtain ⟨c1, _, _⟩ := exec_cancelled e f a st st1 hc h1
      obtain ⟨st2, h2⟩ := ih b st1 hw.2 c1 (by omega)
      exact ⟨st2, by simp only [exec, h1, h2]⟩
    | ifc c t el => exact ⟨halt e st, by simp only [exec, hc, if_true]⟩
    | whileL u c b => exact ⟨halt e st, by simp only [exec, hc, if_true]⟩
    | whileIter u c b => exact ⟨halt e st, by simp only [exec, hc, if_true]⟩
    | forW n b => exact ⟨halt e st, by simp only [exec, hc, if_true]⟩
    | forItems k b =>
      cases k with
      | zero => exact ⟨st, by simp only [exec]⟩
      | succ k => exact ⟨halt e st, by simp only [exec, hc, if_true]⟩
    | forC n b => exact ⟨halt e st, by simp only [exec, hc, if_true]⟩
    | forCIter i n b =>
      simp only [wf, Bool.and_eq_true] at hw
      simp only [depth] at hd
      have c1 : cancelled e (tick e st) = true := cancelled_mono e (le_tick e st) hc
      by_cases hin : i < n
      · cases hok : (tick e st).ok with
        | false =>
          refine ⟨tick e st, ?_⟩
          simp only [exec, hin, if_true, hok]; rfl
        | true =>
          obtain ⟨st2, h2⟩ := ih b _ hw.1 c1 (by omega)
          obtain ⟨c2, _, d2⟩ := exec_cancelled e f b _ st2 c1 h2
          have hd2 : dead st2 := d2 (Or.inl hw.2)
          cases f with
          | zero => omega
          | succ f =>
            have hok2 : (tick e (tick e st2)).ok = false := hd2.1
            refine ⟨tick e (tick e st2), ?_⟩
            simp only [exec, hin, if_true, hok, h2]
            by_cases hin2 : i + 1 < n
            · simp only [hin2, if_true, hok2]; rfl
            · simp only [hin2, if_false]
              rfl
      · refine ⟨tick e st, ?_⟩
        simp only [exec, hin, if_false]
    | sub b => exact ⟨halt e st, by simp only [exec, hc, if_true]⟩

/-- user-level programs are well formed and start with a stop check -/
theorem userLevel_wf : ∀ sk : Sk, userLevel sk = true → wf sk = true ∧ lead sk = true
  | .atom _, _ => ⟨rfl, rfl⟩
  | .seq a b, h => by
    simp only [userLevel, Bool.and_eq_true] at h
    have ha := userLevel_wf a h.1
    have hb := userLevel_wf b h.2
    simp [wf, lead, ha.1, ha.2, hb.1]
  | .ifc c t e, h => by
    simp only [userLevel, Bool.and_eq_true] at h
    simp [wf, lead, (userLevel_wf c h.1.1).1, (userLevel_wf t h.1.2).1, (userLevel_wf e h.2).1]
  | .whileL _ c b, h => by
    simp only [userLevel, Bool.and_eq_true] at h
    simp [wf, lead, (userLevel_wf c h.1).1, (userLevel_wf b h.2).1]
  | .forW _ b, h => by
    simp only [userLevel] at h
    simp [wf, lead, (userLevel_wf b h).1]
  | .forC _ b, h => by
    simp only [userLevel] at h
    simp [wf, lead, (userLevel_wf b h).1, (userLevel_wf b h).2]
  | .sub b, h => by
    simp only [userLevel] at h
    simp [wf, lead, (userLevel_wf b h).1]
  | .whileIter _ _ _, h => by simp [userLevel] at h
  | .forItems _ _, h => by simp [userLevel] at h
  | .forCIter _ _ _, h => by simp [userLevel] at h

end ShVerif.C31
