import ShVerif.Model.C27
import ShVerif.Proofs.L1Heap
/-
  C27 — helper lemmas.  The child writes only heap objects allocated after the subshell was
  created (`HeapFr n`, `n` = the heap sizes at that moment), hence nothing the parent can reach.
-/
namespace ShVerif.C27
open ShVerif ShVerif.L1

/-! ### Frames over the whole heap -/

def Sizes.le (n : Sizes) (h : Heap) : Prop :=
  n.strs ≤ h.strs.length ∧ n.ints ≤ h.ints.length ∧ n.maps ≤ h.maps.length ∧
  n.scopes ≤ h.scopes.length ∧ n.fmaps ≤ h.fmaps.length ∧ n.amaps ≤ h.amaps.length

theorem Heap.sizes_le (h : Heap) : h.sizes.le h := by
  simp [Sizes.le, Heap.sizes]

/-- Overlays allocated since the subshell forward `Set` only to overlays allocated since. -/
def ScopeInv (n : Nat) (scopes : List Scope) : Prop :=
  ∀ id o, n ≤ id → scopes[id]? = some o → o.funcScope = true → ∃ p, o.parent = .ov p ∧ n ≤ p

structure HeapFr (n : Sizes) (h h' : Heap) : Prop where
  strs : ListFr n.strs h.strs h'.strs
  ints : ListFr n.ints h.ints h'.ints
  maps : ListFr n.maps h.maps h'.maps
  scopes : ListFr n.scopes h.scopes h'.scopes
  fmaps : ListFr n.fmaps h.fmaps h'.fmaps
  amaps : ListFr n.amaps h.amaps h'.amaps
  sc : ScopeInv n.scopes h.scopes → ScopeInv n.scopes h'.scopes

theorem HeapFr.le {n : Sizes} {h h' : Heap} (fr : HeapFr n h h') : n.le h' :=
  ⟨fr.strs.1, fr.ints.1, fr.maps.1, fr.scopes.1, fr.fmaps.1, fr.amaps.1⟩

theorem HeapFr.refl {n : Sizes} {h : Heap} (hn : n.le h) : HeapFr n h h :=
  ⟨.refl hn.1, .refl hn.2.1, .refl hn.2.2.1, .refl hn.2.2.2.1, .refl hn.2.2.2.2.1, .refl hn.2.2.2.2.2, id⟩

theorem HeapFr.trans {n : Sizes} {a b c : Heap} (h1 : HeapFr n a b) (h2 : HeapFr n b c) : HeapFr n a c :=
  ⟨h1.strs.trans h2.strs, h1.ints.trans h2.ints, h1.maps.trans h2.maps, h1.scopes.trans h2.scopes,
   h1.fmaps.trans h2.fmaps, h1.amaps.trans h2.amaps, fun s => h2.sc (h1.sc s)⟩

theorem HeapFr.of_strs {n : Sizes} {h : Heap} {s : ArrHeap Bytes} (hn : n.le h) (fr : ListFr n.strs h.strs s) :
    HeapFr n h { h with strs := s } :=
  ⟨fr, .refl hn.2.1, .refl hn.2.2.1, .refl hn.2.2.2.1, .refl hn.2.2.2.2.1, .refl hn.2.2.2.2.2, id⟩

theorem HeapFr.of_ints {n : Sizes} {h : Heap} {s : ArrHeap Nat} (hn : n.le h) (fr : ListFr n.ints h.ints s) :
    HeapFr n h { h with ints := s } :=
  ⟨.refl hn.1, fr, .refl hn.2.2.1, .refl hn.2.2.2.1, .refl hn.2.2.2.2.1, .refl hn.2.2.2.2.2, id⟩

theorem HeapFr.of_strs_ints {n : Sizes} {h : Heap} {s : ArrHeap Bytes} {i : ArrHeap Nat} (hn : n.le h)
    (fs : ListFr n.strs h.strs s) (fi : ListFr n.ints h.ints i) : HeapFr n h { h with strs := s, ints := i } :=
  ⟨fs, fi, .refl hn.2.2.1, .refl hn.2.2.2.1, .refl hn.2.2.2.2.1, .refl hn.2.2.2.2.2, id⟩

theorem HeapFr.of_maps {n : Sizes} {h : Heap} {s : MapHeap Bytes Bytes} (hn : n.le h) (fr : ListFr n.maps h.maps s) :
    HeapFr n h { h with maps := s } :=
  ⟨.refl hn.1, .refl hn.2.1, fr, .refl hn.2.2.2.1, .refl hn.2.2.2.2.1, .refl hn.2.2.2.2.2, id⟩

theorem HeapFr.of_fmaps {n : Sizes} {h : Heap} {s : MapHeap Bytes Bytes} (hn : n.le h) (fr : ListFr n.fmaps h.fmaps s) :
    HeapFr n h { h with fmaps := s } :=
  ⟨.refl hn.1, .refl hn.2.1, .refl hn.2.2.1, .refl hn.2.2.2.1, fr, .refl hn.2.2.2.2.2, id⟩

theorem HeapFr.of_amaps {n : Sizes} {h : Heap} {s : MapHeap Bytes (Bytes × Bool)} (hn : n.le h)
    (fr : ListFr n.amaps h.amaps s) : HeapFr n h { h with amaps := s } :=
  ⟨.refl hn.1, .refl hn.2.1, .refl hn.2.2.1, .refl hn.2.2.2.1, .refl hn.2.2.2.2.1, fr, id⟩

/-! ### internal/sparse.go -/

theorem canonicalIndexes_owned {n : Nat} (h : Heap) (ix : Slice) (o : Owned n ix) :
    Owned n (canonicalIndexes h ix) := by
  unfold canonicalIndexes; split
  · exact Owned.nil n
  · exact o

theorem setIndexedSparse_fr {n : Sizes} {g : Grows} {h h' : Heap} {list indexes l' ix' : Slice} {k : Nat}
    {val : Bytes} (hn : n.le h) (ol : Owned n.strs list) (oi : Owned n.ints indexes)
    (e : setIndexedSparse g h list indexes k val = some (h', l', ix')) :
    HeapFr n h h' ∧ Owned n.strs l' ∧ Owned n.ints ix' := by
  unfold setIndexedSparse at e
  simp only at e
  split at e
  · split at e
    · cases e
    · next s hs =>
      cases e
      exact ⟨HeapFr.of_strs hn (sliceSet_fr hn.1 ol hs), ol, oi⟩
  · split at e
    · cases e
    · next a ha =>
      split at e
      · cases e
      · next b hb =>
        cases e
        have h1 := sliceInsert_fr (s' := a.2) (h' := a.1) hn.1 ol ha
        have h2 := sliceInsert_fr (s' := b.2) (h' := b.1) hn.2.1 oi hb
        exact ⟨HeapFr.of_strs_ints hn h1.1 h2.1, h1.2, canonicalIndexes_owned _ _ h2.2⟩

theorem setIndexedElem_fr {n : Sizes} {g : Grows} {h h' : Heap} {list indexes l' ix' : Slice} {k : Nat}
    {val : Bytes} (hn : n.le h) (ol : Owned n.strs list) (oi : Owned n.ints indexes)
    (e : setIndexedElem g h list indexes k val = some (h', l', ix')) :
    HeapFr n h h' ∧ Owned n.strs l' ∧ Owned n.ints ix' := by
  unfold setIndexedElem at e
  split at e
  · split at e
    · split at e
      · cases e
      · next s hs =>
        cases e
        exact ⟨HeapFr.of_strs hn (sliceSet_fr hn.1 ol hs), ol, Owned.nil _⟩
    · split at e
      · cases e
        have h1 := sliceAppend_fr g.strs h.strs list val hn.1 ol
        exact ⟨HeapFr.of_strs hn h1.1, h1.2, Owned.nil _⟩
      · have h1 := sliceMake_fr (n := n.ints) h.ints (List.range list.len) (list.len + 1) hn.2.1
        have f1 : HeapFr n h { h with ints := (sliceMake h.ints (List.range list.len) (list.len + 1)).1 } :=
          HeapFr.of_ints hn h1.1
        have h2 := setIndexedSparse_fr f1.le ol h1.2 e
        exact ⟨f1.trans h2.1, h2.2⟩
  · exact setIndexedSparse_fr hn ol oi e

theorem deleteIndexedSparse_fr {n : Sizes} {h h' : Heap} {list indexes l' ix' : Slice} {k : Nat}
    (hn : n.le h) (ol : Owned n.strs list) (oi : Owned n.ints indexes)
    (e : deleteIndexedSparse h list indexes k = some (h', l', ix')) :
    HeapFr n h h' ∧ Owned n.strs l' ∧ Owned n.ints ix' := by
  unfold deleteIndexedSparse at e
  simp only at e
  split at e
  · cases e; exact ⟨HeapFr.refl hn, ol, oi⟩
  · split at e
    · cases e
    · next a ha =>
      split at e
      · cases e
      · next b hb =>
        cases e
        have h1 := sliceDelete_fr (s' := a.2) (h' := a.1) hn.1 ol ha
        have h2 := sliceDelete_fr (s' := b.2) (h' := b.1) hn.2.1 oi hb
        exact ⟨HeapFr.of_strs_ints hn h1.1 h2.1, h1.2, canonicalIndexes_owned _ _ h2.2⟩

theorem deleteIndexedElem_fr {n : Sizes} {h h' : Heap} {list indexes l' ix' : Slice} {k : Nat}
    (hn : n.le h) (ol : Owned n.strs list) (oi : Owned n.ints indexes)
    (e : deleteIndexedElem h list indexes k = some (h', l', ix')) :
    HeapFr n h h' ∧ Owned n.strs l' ∧ Owned n.ints ix' := by
  unfold deleteIndexedElem at e
  split at e
  · split at e
    · cases e; exact ⟨HeapFr.refl hn, ol, Owned.nil _⟩
    · split at e
      · split at e
        · cases e
        · next l hl => cases e; exact ⟨HeapFr.refl hn, sliceTo_owned ol hl, Owned.nil _⟩
      · have h1 := sliceMake_fr (n := n.ints) h.ints (List.range list.len) list.len hn.2.1
        have f1 : HeapFr n h { h with ints := (sliceMake h.ints (List.range list.len) list.len).1 } :=
          HeapFr.of_ints hn h1.1
        have h2 := deleteIndexedSparse_fr f1.le ol h1.2 e
        exact ⟨f1.trans h2.1, h2.2⟩
  · exact deleteIndexedSparse_fr hn ol oi e

theorem cloneBoth_fr {n : Sizes} (g : Grows) (h : Heap) (list indexes : Slice) (hn : n.le h) :
    HeapFr n h (cloneBoth g h list indexes).1 ∧ Owned n.strs (cloneBoth g h list indexes).2.1 ∧
      Owned n.ints (cloneBoth g h list indexes).2.2 := by
  have h1 := sliceClone_fr (n := n.strs) g.strs h.strs list hn.1
  have h2 := sliceClone_fr (n := n.ints) g.ints h.ints indexes hn.2.1
  exact ⟨HeapFr.of_strs_ints hn h1.1 h2.1, h1.2, h2.2⟩

theorem assignElems_fr {n : Sizes} {g : Grows} (elems : List (Option Int × Bytes)) :
    ∀ {h h' : Heap} {list indexes l' ix' : Slice} {index : Int}, n.le h → Owned n.strs list →
      Owned n.ints indexes → assignElems g h list indexes index elems = some (h', l', ix') →
      HeapFr n h h' ∧ Owned n.strs l' ∧ Owned n.ints ix' := by
  induction elems with
  | nil =>
    intro h h' list indexes l' ix' index hn ol oi e
    simp only [assignElems] at e
    cases e; exact ⟨HeapFr.refl hn, ol, oi⟩
  | cons el rest ih =>
    intro h h' list indexes l' ix' index hn ol oi e
    simp only [assignElems] at e
    split at e
    · exact ih hn ol oi e
    · split at e
      · cases e
      · next r hr =>
        have h1 := setIndexedElem_fr (h' := r.1) (l' := r.2.1) (ix' := r.2.2) hn ol oi hr
        have h2 := ih h1.1.le h1.2.1 h1.2.2 e
        exact ⟨h1.1.trans h2.1, h2.2⟩

/-! ### overlayEnviron.Set -/

/-- The part of an overlay that `Set` never changes. -/
def skel (o : Scope) : PRef × Bool := (o.parent, o.funcScope)

/-- Same length, same parents and funcScope flags. -/
def SameSkel (a b : List Scope) : Prop :=
  b.length = a.length ∧ ∀ i : Nat, (b[i]?).map skel = (a[i]?).map skel

theorem SameSkel.refl (a : List Scope) : SameSkel a a := ⟨rfl, fun _ => rfl⟩

theorem SameSkel.trans {a b c : List Scope} (h1 : SameSkel a b) (h2 : SameSkel b c) : SameSkel a c :=
  ⟨h2.1.trans h1.1, fun i => (h2.2 i).trans (h1.2 i)⟩

theorem SameSkel.scopeInv {n : Nat} {a b : List Scope} (h : SameSkel a b) (inv : ScopeInv n a) : ScopeInv n b := by
  intro id o hid ho hf
  have := h.2 id
  rw [ho] at this
  cases ha : a[id]? with
  | none => rw [ha] at this; cases this
  | some oa =>
    rw [ha] at this
    simp only [Option.map_some, Option.some.injEq, skel, Prod.mk.injEq] at this
    obtain ⟨p, hp, hnp⟩ := inv id oa hid ha (by rw [← this.2]; exact hf)
    exact ⟨p, by rw [this.1]; exact hp, hnp⟩

theorem sameSkel_set {scopes : List Scope} {id : Nat} {o : Scope} (ho : scopes[id]? = some o)
    (vals : Option (List (Bytes × Var))) : SameSkel scopes (scopes.set id { o with values := vals }) := by
  refine ⟨List.length_set, fun i => ?_⟩
  rw [List.getElem?_set]
  split
  · next h =>
    subst h
    have hlt : id < scopes.length := by
      cases hl : decide (id < scopes.length) with
      | true => exact of_decide_eq_true hl
      | false =>
        have : scopes.length ≤ id := Nat.le_of_not_lt (of_decide_eq_false hl)
        rw [List.getElem?_eq_none this] at ho; cases ho
    have hget : scopes[id] = o := by
      have := List.getElem?_eq_getElem hlt
      rw [ho] at this; exact (Option.some.inj this).symm
    simp [hlt, skel, hget]
  · rfl

theorem envSet_spec {n : Nat} (base : List (Bytes × Bytes)) :
    ∀ (fuel : Nat) {scopes sc' : List Scope} {id : Nat} {name : Bytes} {vr : Var},
      n ≤ scopes.length → ScopeInv n scopes → n ≤ id →
      envSet base fuel scopes id name vr = some sc' → ListFr n scopes sc' ∧ SameSkel scopes sc' := by
  intro fuel
  induction fuel with
  | zero => intro scopes sc' id name vr _ _ _ e; simp [envSet] at e
  | succ fuel ih =>
    intro scopes sc' id name vr hn inv hid e
    simp only [envSet] at e
    split at e
    · cases e
    · next o ho =>
      split at e
      · next hf =>
        split at e
        · next p hp =>
          have hfs : o.funcScope = true := by
            simp only [Bool.and_eq_true] at hf; exact hf.1.1
          obtain ⟨p', hp', hnp⟩ := inv id o hid ho hfs
          rw [hp] at hp'; cases hp'
          exact ih hn inv hnp e
        · cases e
      · cases e
        exact ⟨listFr_set _ _ hn hid, sameSkel_set ho _⟩

/-! ### The child invariant -/

/-- What the child runner owns: its overlay, its saved frames, its function and alias maps and
    its directory stack were all allocated after the subshell was created (`n`). -/
structure Inv (n : Sizes) (r : Runner) (h : Heap) : Prop where
  le : n.le h
  env : n.scopes ≤ r.env
  sc : ScopeInv n.scopes h.scopes
  frames : ∀ f ∈ r.frames, n.scopes ≤ f.env
  funcs : ∀ id, r.funcs = some id → n.fmaps ≤ id
  alias : ∀ id, r.alias = some id → n.amaps ≤ id
  ds : Owned n.strs r.dirStack

theorem Inv.step {n : Sizes} {r : Runner} {h h' : Heap} (inv : Inv n r h) (fr : HeapFr n h h') : Inv n r h' :=
  ⟨fr.le, inv.env, fr.sc inv.sc, inv.frames, inv.funcs, inv.alias, inv.ds⟩

theorem HeapFr.of_scopes {n : Sizes} {h : Heap} {s : List Scope} (hn : n.le h) (fr : ListFr n.scopes h.scopes s)
    (sk : SameSkel h.scopes s) : HeapFr n h { h with scopes := s } :=
  ⟨.refl hn.1, .refl hn.2.1, .refl hn.2.2.1, fr, .refl hn.2.2.2.2.1, .refl hn.2.2.2.2.2, sk.scopeInv⟩

theorem setVar_fr {n : Sizes} {r : Runner} {h h' : Heap} {name : Bytes} {vr : Var} (inv : Inv n r h)
    (e : setVar r h name vr = some h') : HeapFr n h h' := by
  unfold setVar at e
  split at e
  · cases e
  · next sc hsc =>
    cases e
    have := envSet_spec r.base _ inv.le.2.2.2.1 inv.sc inv.env hsc
    exact HeapFr.of_scopes inv.le this.1 this.2

theorem delVar_fr {n : Sizes} {r : Runner} {h h' : Heap} {name : Bytes} (inv : Inv n r h)
    (e : delVar r h name = some h') : HeapFr n h h' := by
  unfold delVar at e
  split at e
  · cases e
  · next sc hsc =>
    cases e
    have := envSet_spec r.base _ inv.le.2.2.2.1 inv.sc inv.env hsc
    exact HeapFr.of_scopes inv.le this.1 this.2

theorem setVarString_fr {n : Sizes} {r : Runner} {h h' : Heap} {name val : Bytes} (inv : Inv n r h)
    (e : setVarString r h name val = some h') : HeapFr n h h' := setVar_fr inv e

/-! ### assignVal -/

theorem appendBase_fr {n : Sizes} {g : Grows} {h : Heap} {prev : Var} {append : Bool} {b : Heap × Slice × Slice}
    (hn : n.le h) (e : appendBase g h prev append = some (some b)) :
    HeapFr n h b.1 ∧ Owned n.strs b.2.1 ∧ Owned n.ints b.2.2 := by
  unfold appendBase at e
  split at e
  · split at e
    · cases e; exact ⟨HeapFr.refl hn, Owned.nil _, Owned.nil _⟩
    · cases e
      have h1 := sliceMake_fr (n := n.strs) h.strs [prev.str] 1 hn.1
      exact ⟨HeapFr.of_strs hn h1.1, h1.2, Owned.nil _⟩
    · cases e; exact cloneBoth_fr g h _ _ hn
    · cases e
    · cases e
  · cases e; exact ⟨HeapFr.refl hn, Owned.nil _, Owned.nil _⟩

theorem assignArr_fr {n : Sizes} {g : Grows} {h h' : Heap} {prev v : Var} {append : Bool}
    {elems : List (Option Int × Bytes)} (hn : n.le h) (e : assignArr g h prev append elems = some (h', v)) :
    HeapFr n h h' := by
  unfold assignArr at e
  split at e
  · cases e
  · cases e; exact HeapFr.refl hn
  · next b hb =>
    have h1 := appendBase_fr hn hb
    split at e
    · cases e
    · next r hr =>
      cases e
      have h2 := assignElems_fr elems (h' := r.1) (l' := r.2.1) (ix' := r.2.2) h1.1.le h1.2.1 h1.2.2 hr
      exact h1.1.trans h2.1

theorem assignMap_fr {n : Sizes} (h : Heap) (prev : Var) (append : Bool) (amap : List (Bytes × Bytes)) (hn : n.le h) :
    HeapFr n h (assignMap h prev append amap).1 :=
  HeapFr.of_maps hn (mapAlloc_fr h.maps amap hn.2.2.1).1

theorem assignMap_fr' {n : Sizes} {h h' : Heap} {prev v : Var} {append : Bool} {amap : List (Bytes × Bytes)}
    (hn : n.le h) (e : assignMap h prev append amap = (h', v)) : HeapFr n h h' := by
  have h1 := assignMap_fr (n := n) h prev append amap hn
  rw [e] at h1; exact h1

theorem appendIndexed_fr {n : Sizes} {g : Grows} {h h' : Heap} {prev v : Var} {s : Bytes} (hn : n.le h)
    (ol : Owned n.strs prev.list) (oi : Owned n.ints prev.indexes)
    (e : appendIndexed g h prev s = some (h', v)) : HeapFr n h h' := by
  unfold appendIndexed at e
  split at e
  · split at e
    · cases e
    · split at e
      · cases e
      · next st hst => cases e; exact HeapFr.of_strs hn (sliceSet_fr hn.1 ol hst)
  · split at e
    · cases e
    · next r hr =>
      cases e
      exact (setIndexedElem_fr (h' := r.1) (l' := r.2.1) (ix' := r.2.2) hn ol oi hr).1

/-- `assignVal` writes only fresh storage — in the current variant always, in the pinned variant
    provided a `+=word` onto an indexed array finds storage the child owns. -/
theorem assignVal_fr {n : Sizes} {fx : Bool} {g : Grows} {h h' : Heap} {prev v : Var} {append : Bool}
    {rhs : Rhs} {vt : ValType} {hasIdx : Bool} (hn : n.le h)
    (safe : fx = true ∨ (append = true → (∃ s, rhs = .str s) → prev.kind = .indexed →
      Owned n.strs prev.list ∧ Owned n.ints prev.indexes))
    (e : assignVal fx g h prev append rhs vt hasIdx = some (h', v)) : HeapFr n h h' := by
  unfold assignVal at e
  split at e
  · next s =>
    split at e
    · cases e; exact HeapFr.refl hn
    · next happ =>
      split at e
      · cases e; exact HeapFr.refl hn
      split at e
      · cases e; exact HeapFr.refl hn
      · cases e; exact HeapFr.refl hn
      · next hk =>
        split at e
        · have h1 := cloneBoth_fr g h prev.list prev.indexes hn
          exact h1.1.trans (appendIndexed_fr h1.1.le h1.2.1 h1.2.2 e)
        · next hfx =>
          rcases safe with hfx' | hs
          · exact absurd hfx' hfx
          · have := hs (by simpa using happ) ⟨s, rfl⟩ hk
            exact appendIndexed_fr (prev := { prev with set := true }) hn this.1 this.2 e
      · cases e; exact HeapFr.refl hn
  · cases e; exact HeapFr.refl hn
  · split at e
    · exact assignMap_fr' hn (Option.some.inj e)
    · split at e
      · exact assignArr_fr hn e
      · cases e
  · split at e
    · split at e
      · cases e
      · exact assignMap_fr' hn (Option.some.inj e)
    · exact assignArr_fr hn e

/-! ### setVarWithIndex, unsetElem -/

theorem setIndexedVar_fr {n : Sizes} {g : Grows} {r : Runner} {h h' : Heap} {prev : Var} {name val : Bytes}
    {k : Int} {list indexes : Slice} {ae : Bool} (inv : Inv n r h) (ol : Owned n.strs list)
    (oi : Owned n.ints indexes)
    (e : setIndexedVar g r h prev name k val list indexes ae = some h') : HeapFr n h h' := by
  unfold setIndexedVar at e
  split at e
  · cases e; exact HeapFr.refl inv.le
  · split at e
    · cases e
    · next x hx =>
      have h1 := setIndexedElem_fr (h' := x.1) (l' := x.2.1) (ix' := x.2.2) inv.le ol oi hx
      exact h1.1.trans (setVar_fr (inv.step h1.1) e)

theorem cloneOrMake_fr {n : Nat} (ms : MapHeap Bytes Bytes) (m : Option Nat) (hn : n ≤ ms.length) :
    ListFr n ms (cloneOrMake ms m).1 ∧ n ≤ (cloneOrMake ms m).2 := by
  have h1 := mapClone_fr (n := n) ms m hn
  unfold cloneOrMake
  split
  · next id hid => exact ⟨h1.1, h1.2 id hid⟩
  · have h2 := mapAlloc_fr (n := n) (mapClone ms m).1 ([] : List (Bytes × Bytes)) h1.1.1
    exact ⟨h1.1.trans h2.1, h2.2⟩

theorem setVarWithIndex_fr {n : Sizes} {g : Grows} {r : Runner} {h h' : Heap} {prev vr : Var} {name : Bytes}
    {idx : Idx} {ae : Bool} (inv : Inv n r h) (e : setVarWithIndex g r h prev name idx vr ae = some h') :
    HeapFr n h h' := by
  unfold setVarWithIndex at e
  split at e
  · exact setVar_fr inv e
  · split at e
    · have h1 := sliceAppend_fr (n := n.strs) g.strs h.strs Slice.nil prev.str inv.le.1 (Owned.nil _)
      have f1 := HeapFr.of_strs inv.le h1.1
      exact f1.trans (setIndexedVar_fr (inv.step f1) h1.2 (Owned.nil _) e)
    · have h1 := cloneBoth_fr g h prev.list prev.indexes inv.le
      exact h1.1.trans (setIndexedVar_fr (inv.step h1.1) h1.2.1 h1.2.2 e)
    · split at e
      · cases e; exact HeapFr.refl inv.le
      · have h1 := cloneOrMake_fr (n := n.maps) h.maps prev.map inv.le.2.2.1
        have key : ∀ f : List (Bytes × Bytes) → List (Bytes × Bytes), HeapFr n h
            { h with maps := updMap (cloneOrMake h.maps prev.map).1 (cloneOrMake h.maps prev.map).2 f } :=
          fun f => HeapFr.of_maps inv.le (h1.1.trans (updMap_fr _ f h1.1.1 h1.2))
        exact (key _).trans (setVar_fr (inv.step (key _)) e)
    · exact setIndexedVar_fr inv (Owned.nil _) (Owned.nil _) e

theorem unsetElem_fr {n : Sizes} {g : Grows} {r : Runner} {h h' : Heap} {name : Bytes} {sub : Sub}
    (inv : Inv n r h) (e : unsetElem g r h name sub = some h') : HeapFr n h h' := by
  unfold unsetElem at e
  split at e
  · split at e
    · exact delVar_fr inv e
    · split at e
      · cases e; exact HeapFr.refl inv.le
      · split at e
        · cases e
        · next x hx =>
          have h1 := cloneBoth_fr g h (lookupVar r h name).list (lookupVar r h name).indexes inv.le
          have h2 := deleteIndexedElem_fr (h' := x.1) (l' := x.2.1) (ix' := x.2.2) h1.1.le h1.2.1 h1.2.2 hx
          have f := h1.1.trans h2.1
          exact f.trans (setVar_fr (inv.step f) e)
  · split at e
    · exact delVar_fr inv e
    · have h1 := mapClone_fr (n := n.maps) h.maps (lookupVar r h name).map inv.le.2.2.1
      have key : ∀ k' : Int, ListFr n.maps h.maps
          (match (mapClone h.maps (lookupVar r h name).map).2 with
           | some id => updMap (mapClone h.maps (lookupVar r h name).map).1 id (fun mm => aerase mm (intText k'))
           | none => (mapClone h.maps (lookupVar r h name).map).1) := by
        intro k'
        split
        · next id hid => exact h1.1.trans (updMap_fr _ _ h1.1.1 (h1.2 id hid))
        · exact h1.1
      exact (HeapFr.of_maps inv.le (key _)).trans (setVar_fr (inv.step (HeapFr.of_maps inv.le (key _))) e)
  · split at e
    · exact delVar_fr inv e
    · cases e; exact HeapFr.refl inv.le
  · cases e; exact HeapFr.refl inv.le

theorem elemBase_fr {n : Sizes} (g : Grows) (h : Heap) (vr : Var) (hn : n.le h) :
    HeapFr n h (elemBase g h vr).1 ∧ Owned n.strs (elemBase g h vr).2.1 ∧ Owned n.ints (elemBase g h vr).2.2 := by
  have c := cloneBoth_fr g h vr.list vr.indexes hn
  unfold elemBase
  split
  · have m := sliceMake_fr (n := n.strs) (cloneBoth g h vr.list vr.indexes).1.strs [vr.str] 1 c.1.le.1
    exact ⟨c.1.trans (HeapFr.of_strs c.1.le m.1), m.2, Owned.nil _⟩
  · exact c

theorem assignElem_fr {n : Sizes} {g : Grows} {r : Runner} {h h' : Heap} {name val : Bytes} {vr : Var}
    {idx : Option Int} (inv : Inv n r h) (e : assignElem g r h name vr idx val = some h') : HeapFr n h h' := by
  unfold assignElem at e
  split at e
  · exact setVar_fr inv e
  · split at e
    · split at e
      · cases e; exact HeapFr.refl inv.le
      · have h1 := cloneOrMake_fr (n := n.maps) h.maps vr.map inv.le.2.2.1
        have key : ∀ f : List (Bytes × Bytes) → List (Bytes × Bytes), HeapFr n h
            { h with maps := updMap (cloneOrMake h.maps vr.map).1 (cloneOrMake h.maps vr.map).2 f } :=
          fun f => HeapFr.of_maps inv.le (h1.1.trans (updMap_fr _ f h1.1.1 h1.2))
        exact (key _).trans (setVar_fr (inv.step (key _)) e)
    · split at e
      · cases e; exact HeapFr.refl inv.le
      · split at e
        · cases e
        · next x hx =>
          have b := elemBase_fr g h vr inv.le
          have h2 := setIndexedElem_fr (h' := x.1) (l' := x.2.1) (ix' := x.2.2) b.1.le b.2.1 b.2.2 hx
          have f := b.1.trans h2.1
          exact f.trans (setVar_fr (inv.step f) e)

/-! ### step -/

theorem Inv.runner {n : Sizes} {r r' : Runner} {h : Heap} (inv : Inv n r h) (h1 : r'.env = r.env)
    (h2 : r'.frames = r.frames) (h3 : r'.funcs = r.funcs) (h4 : r'.alias = r.alias)
    (h5 : r'.dirStack = r.dirStack) : Inv n r' h :=
  ⟨inv.le, h1 ▸ inv.env, inv.sc, h2 ▸ inv.frames, h3 ▸ inv.funcs, h4 ▸ inv.alias, h5 ▸ inv.ds⟩

theorem changeDir_fr {n : Sizes} {r : Runner} {h : Heap} {dir : Bytes} {x : Heap × Runner} (inv : Inv n r h)
    (e : changeDir r h dir = some x) : HeapFr n h x.1 ∧ x.2 = { r with dir := dir } := by
  unfold changeDir at e
  have inv' : Inv n { r with dir := dir } h := inv.runner rfl rfl rfl rfl rfl
  split at e
  · cases e
  · next h1 e1 =>
    have f1 := setVarString_fr inv' e1
    split at e
    · cases e
    · next h2 e2 =>
      cases e
      exact ⟨f1.trans (setVarString_fr (inv'.step f1) e2), rfl⟩

theorem swapTop_fr {n : Sizes} {h h' : Heap} {ds : Slice} (hn : n.le h) (o : Owned n.strs ds)
    (e : swapTop h ds = some h') : HeapFr n h h' := by
  unfold swapTop at e
  split at e
  · split at e
    · cases e
    · next s1 e1 =>
      split at e
      · cases e
      · next s2 e2 =>
        cases e
        have f1 := sliceSet_fr hn.1 o e1
        exact HeapFr.of_strs hn (f1.trans (sliceSet_fr f1.1 o e2))
  · cases e

theorem mapOrMake_fr {ν : Type} {n : Nat} (ms : MapHeap Bytes ν) (m : Option Nat) (hn : n ≤ ms.length)
    (hm : ∀ id, m = some id → n ≤ id) : ListFr n ms (mapOrMake ms m).1 ∧ n ≤ (mapOrMake ms m).2 := by
  cases m with
  | none => exact mapAlloc_fr ms [] hn
  | some id => exact ⟨ListFr.refl hn, hm id rfl⟩

theorem HeapFr.push_scope {n : Sizes} {h : Heap} {s : ArrHeap Bytes} {o : Scope} {p : Nat} (hn : n.le h)
    (fs : ListFr n.strs h.strs s) (hp : o.parent = .ov p) (hnp : n.scopes ≤ p) :
    HeapFr n h { h with strs := s, scopes := h.scopes ++ [o] } := by
  refine ⟨fs, .refl hn.2.1, .refl hn.2.2.1, listFr_append _ _ hn.2.2.2.1, .refl hn.2.2.2.2.1,
    .refl hn.2.2.2.2.2, ?_⟩
  intro inv id o' hid ho' hf
  by_cases hlt : id < h.scopes.length
  · rw [List.getElem?_append_left hlt] at ho'
    exact inv id o' hid ho' hf
  · have hge : h.scopes.length ≤ id := Nat.le_of_not_lt hlt
    rw [List.getElem?_append_right hge] at ho'
    cases hi : id - h.scopes.length with
    | zero =>
      rw [hi] at ho'
      simp only [List.getElem?_cons_zero, Option.some.injEq] at ho'
      subst ho'
      exact ⟨p, hp, hnp⟩
    | succ k =>
      rw [hi] at ho'
      simp at ho'

theorem step_inv {n : Sizes} {fx : Bool} {g : Grows} {h : Heap} {r : Runner} {op : Op} {x : Heap × Runner}
    (inv : Inv n r h) (safe : fx = true ∨ AppendSafe n r h op) (e : step fx g h r op = some x) :
    HeapFr n h x.1 ∧ Inv n x.2 x.1 := by
  cases op with
  | assign name idx append rhs =>
    simp only [step] at e
    split at e
    · cases e
    · next a ha =>
      split at e
      · cases e
      · next h' hh =>
        cases e
        have f1 : HeapFr n h a.1 := by
          refine assignVal_fr (h' := a.1) (v := a.2) inv.le ?_ ha
          rcases safe with hfx | hs
          · exact Or.inl hfx
          · refine Or.inr ?_
            intro happ hstr hk
            obtain ⟨s, rfl⟩ := hstr
            subst happ
            exact hs (lookupVar r h name) rfl hk
        have f2 := setVarWithIndex_fr (inv.step f1) hh
        exact ⟨f1.trans f2, inv.step (f1.trans f2)⟩
  | decl v xx ro gl vt name naked append rhs =>
    simp only [step] at e
    split at e
    · cases e; exact ⟨HeapFr.refl inv.le, inv⟩
    · next hloc =>
      split at e
      · cases e
      · next a ha =>
        split at e
        · cases e
        · next h' hh =>
          cases e
          have f1 : HeapFr n h a.1 := by
            split at ha
            · cases ha; exact HeapFr.refl inv.le
            · next hnk =>
              refine assignVal_fr (h' := a.1) (v := a.2) inv.le ?_ ha
              rcases safe with hfx | hs
              · exact Or.inl hfx
              · refine Or.inr ?_
                intro happ hstr hk
                obtain ⟨s, rfl⟩ := hstr
                subst happ
                have hnk' : naked = false := by simpa using hnk
                subst hnk'
                refine hs (lookupVar r h name) ?_ hk
                simp only [appendTarget]
                rw [if_neg hloc]
          have f2 := setVar_fr (inv.step f1) hh
          exact ⟨f1.trans f2, inv.step (f1.trans f2)⟩
  | inline name append rhs =>
    simp only [step] at e
    split at e
    · cases e
    · next a ha =>
      split at e
      · cases e
      · next h1 hh1 =>
        split at e
        · cases e
        · next h2 hh2 =>
          cases e
          have f1 : HeapFr n h a.1 := by
            refine assignVal_fr (h' := a.1) (v := a.2) inv.le ?_ ha
            rcases safe with hfx | hs
            · exact Or.inl hfx
            · refine Or.inr ?_
              intro happ hstr hk
              obtain ⟨s, rfl⟩ := hstr
              subst happ
              exact hs (lookupVar r h name) rfl hk
          have f2 := setVar_fr (inv.step f1) hh1
          have f3 := setVar_fr ((inv.step f1).step f2) hh2
          exact ⟨(f1.trans f2).trans f3, inv.step ((f1.trans f2).trans f3)⟩
  | paramAssign name idx colon val =>
    simp only [step] at e
    split at e
    · cases e; exact ⟨HeapFr.refl inv.le, inv⟩
    · split at e
      · split at e
        · cases e
        · next h' hh => cases e; exact ⟨assignElem_fr inv hh, inv.step (assignElem_fr inv hh)⟩
      · cases e; exact ⟨HeapFr.refl inv.le, inv⟩
  | nop =>
    simp only [step] at e
    cases e; exact ⟨HeapFr.refl inv.le, inv⟩
  | unset mode name sub =>
    simp only [step] at e
    split at e
    · split at e
      · split at e
        · cases e
        · next h' hh => cases e; exact ⟨unsetElem_fr inv hh, inv.step (unsetElem_fr inv hh)⟩
      · cases e; exact ⟨HeapFr.refl inv.le, inv⟩
    · split at e
      · split at e
        · cases e
        · next h' hh => cases e; exact ⟨delVar_fr inv hh, inv.step (delVar_fr inv hh)⟩
      · split at e
        · next id hid =>
          split at e
          · cases e
            have f := HeapFr.of_fmaps inv.le (updMap_fr h.fmaps (fun m => aerase m name) inv.le.2.2.2.2.1 (inv.funcs id hid))
            exact ⟨f, inv.step f⟩
          · cases e; exact ⟨HeapFr.refl inv.le, inv⟩
        · cases e; exact ⟨HeapFr.refl inv.le, inv⟩
  | readArr name vals =>
    simp only [step] at e
    split at e
    · cases e
    · next h' hh =>
      cases e
      have f1 : HeapFr n h { h with strs := if vals.isEmpty then h.strs else (sliceMake h.strs vals vals.length).1 } := by
        refine HeapFr.of_strs inv.le ?_
        split
        · exact ListFr.refl inv.le.1
        · exact (sliceMake_fr h.strs vals vals.length inv.le.1).1
      have f2 := setVar_fr (inv.step f1) hh
      exact ⟨f1.trans f2, inv.step (f1.trans f2)⟩
  | setStr name val =>
    simp only [step] at e
    split at e
    · cases e
    · next h' hh => cases e; exact ⟨setVarString_fr inv hh, inv.step (setVarString_fr inv hh)⟩
  | mapfile name vals =>
    simp only [step] at e
    split at e
    · cases e
    · next h' hh =>
      cases e
      have f1 := HeapFr.of_strs inv.le (sliceAppendList_fr g.strs vals h.strs Slice.empty inv.le.1 (Owned.empty _)).1
      have f2 := setVar_fr (inv.step f1) hh
      exact ⟨f1.trans f2, inv.step (f1.trans f2)⟩
  | shift k =>
    simp only [step] at e
    split at e
    · cases e; exact ⟨HeapFr.refl inv.le, inv.runner rfl rfl rfl rfl rfl⟩
    · split at e
      · cases e
      · split at e
        · cases e
        · cases e; exact ⟨HeapFr.refl inv.le, inv.runner rfl rfl rfl rfl rfl⟩
  | setParams args =>
    simp only [step] at e
    cases e
    have f := HeapFr.of_strs inv.le (sliceMake_fr h.strs args args.length inv.le.1).1
    exact ⟨f, (inv.step f).runner rfl rfl rfl rfl rfl⟩
  | cd dir =>
    simp only [step] at e
    have := changeDir_fr inv e
    refine ⟨this.1, ?_⟩
    rw [this.2]
    exact (inv.step this.1).runner rfl rfl rfl rfl rfl
  | pushd dir =>
    simp only [step] at e
    split at e
    · cases e
    · next y hy =>
      cases e
      have c := changeDir_fr inv hy
      have inv1 : Inv n y.2 y.1 := by rw [c.2]; exact (inv.step c.1).runner rfl rfl rfl rfl rfl
      have a := sliceAppend_fr g.strs y.1.strs y.2.dirStack y.2.dir inv1.le.1 inv1.ds
      have f2 := HeapFr.of_strs inv1.le a.1
      exact ⟨c.1.trans f2, ⟨f2.le, inv1.env, f2.sc inv1.sc, inv1.frames, inv1.funcs, inv1.alias, a.2⟩⟩
  | pushdSwap =>
    simp only [step] at e
    split at e
    · cases e; exact ⟨HeapFr.refl inv.le, inv⟩
    · split at e
      · cases e
      · split at e
        · cases e
        · next h1 hs =>
          have f1 := swapTop_fr inv.le inv.ds hs
          have c := changeDir_fr (inv.step f1) e
          refine ⟨f1.trans c.1, ?_⟩
          rw [c.2]
          exact ((inv.step f1).step c.1).runner rfl rfl rfl rfl rfl
  | popd =>
    simp only [step] at e
    split at e
    · cases e; exact ⟨HeapFr.refl inv.le, inv⟩
    · split at e
      · cases e
      · next ds hds =>
        split at e
        · cases e
        · have inv1 : Inv n { r with dirStack := ds } h :=
            ⟨inv.le, inv.env, inv.sc, inv.frames, inv.funcs, inv.alias, sliceTo_owned inv.ds hds⟩
          have c := changeDir_fr inv1 e
          refine ⟨c.1, ?_⟩
          rw [c.2]
          exact (inv1.step c.1).runner rfl rfl rfl rfl rfl
  | setOpt i v =>
    simp only [step] at e
    cases e; exact ⟨HeapFr.refl inv.le, inv.runner rfl rfl rfl rfl rfl⟩
  | alias name words blank =>
    simp only [step] at e
    cases e
    have m := mapOrMake_fr (n := n.amaps) h.amaps r.alias inv.le.2.2.2.2.2 inv.alias
    have f := HeapFr.of_amaps inv.le (m.1.trans (updMap_fr _ (fun mm => aset mm name (words, blank)) m.1.1 m.2))
    refine ⟨f, ⟨f.le, inv.env, f.sc inv.sc, inv.frames, inv.funcs, ?_, inv.ds⟩⟩
    intro id hid; cases hid; exact m.2
  | unalias name =>
    simp only [step] at e
    split at e
    · next id hid =>
      cases e
      have f := HeapFr.of_amaps inv.le (updMap_fr h.amaps (fun m => aerase m name) inv.le.2.2.2.2.2 (inv.alias id hid))
      exact ⟨f, inv.step f⟩
    · cases e; exact ⟨HeapFr.refl inv.le, inv⟩
  | funcDef name body =>
    simp only [step] at e
    cases e
    have m := mapOrMake_fr (n := n.fmaps) h.fmaps r.funcs inv.le.2.2.2.2.1 inv.funcs
    have f := HeapFr.of_fmaps inv.le (m.1.trans (updMap_fr _ (fun mm => aset mm name body) m.1.1 m.2))
    refine ⟨f, ⟨f.le, inv.env, f.sc inv.sc, inv.frames, ?_, inv.alias, inv.ds⟩⟩
    intro id hid; cases hid; exact m.2
  | pushFunc params =>
    simp only [step] at e
    cases e
    have f := HeapFr.push_scope (o := { parent := .ov r.env, funcScope := true }) inv.le
      (sliceMake_fr h.strs params params.length inv.le.1).1 rfl inv.env
    refine ⟨f, ⟨f.le, inv.le.2.2.2.1, f.sc inv.sc, ?_, inv.funcs, inv.alias, inv.ds⟩⟩
    intro fr hfr
    cases hfr with
    | head => exact inv.env
    | tail _ hm => exact inv.frames fr hm
  | popFunc =>
    simp only [step] at e
    split at e
    · cases e; exact ⟨HeapFr.refl inv.le, inv⟩
    · next f rest hfr =>
      cases e
      refine ⟨HeapFr.refl inv.le, ⟨inv.le, ?_, inv.sc, ?_, inv.funcs, inv.alias, inv.ds⟩⟩
      · exact inv.frames f (by rw [hfr]; exact List.mem_cons_self)
      · intro f' hf'; exact inv.frames f' (by rw [hfr]; exact List.mem_cons_of_mem _ hf')

/-! ### run, subshell -/

theorem run_inv {n : Sizes} {fx : Bool} {g : Grows} (ops : List Op) :
    ∀ {h : Heap} {r : Runner} {x : Heap × Runner}, Inv n r h →
      (fx = true ∨ (fx = false ∧ SafeRun n g h r ops)) → run fx g h r ops = some x →
      HeapFr n h x.1 ∧ Inv n x.2 x.1 := by
  induction ops with
  | nil =>
    intro h r x inv _ e
    simp only [run] at e
    cases e; exact ⟨HeapFr.refl inv.le, inv⟩
  | cons op ops ih =>
    intro h r x inv safe e
    simp only [run] at e
    split at e
    · cases e
    · next y hy =>
      have s1 : fx = true ∨ AppendSafe n r h op := by
        rcases safe with hfx | ⟨_, hs⟩
        · exact Or.inl hfx
        · exact Or.inr hs.1
      have h1 := step_inv inv s1 hy
      have s2 : fx = true ∨ (fx = false ∧ SafeRun n g y.1 y.2 ops) := by
        rcases safe with hfx | ⟨hf, hs⟩
        · exact Or.inl hfx
        · refine Or.inr ⟨hf, ?_⟩
          have hs2 := hs.2
          subst hf
          rw [hy] at hs2
          exact hs2
      have h2 := ih h1.2 s2 e
      exact ⟨h1.1.trans h2.1, h2.2⟩

theorem scopeInv_of_length {scopes : List Scope} : ScopeInv scopes.length scopes := by
  intro id o hid ho _
  rw [List.getElem?_eq_none hid] at ho
  cases ho

theorem scopeInv_append_plain {n : Nat} {scopes : List Scope} {o : Scope} (inv : ScopeInv n scopes)
    (hf : o.funcScope = false) : ScopeInv n (scopes ++ [o]) := by
  intro id o' hid ho' hf'
  by_cases hlt : id < scopes.length
  · rw [List.getElem?_append_left hlt] at ho'
    exact inv id o' hid ho' hf'
  · have hge : scopes.length ≤ id := Nat.le_of_not_lt hlt
    rw [List.getElem?_append_right hge] at ho'
    cases hi : id - scopes.length with
    | zero =>
      rw [hi] at ho'
      simp only [List.getElem?_cons_zero, Option.some.injEq] at ho'
      subst ho'
      rw [hf] at hf'; cases hf'
    | succ k =>
      rw [hi] at ho'
      simp at ho'

theorem foldSet_spec {n : Nat} (base : List (Bytes × Bytes)) (id : Nat) (hid : n ≤ id)
    (all : List (Bytes × Var)) :
    ∀ {sc0 sc' : List Scope}, n ≤ sc0.length → ScopeInv n sc0 →
      all.foldl (fun acc nv => acc.bind fun sc => envSet base (fuelOf sc) sc id nv.1 nv.2) (some sc0) = some sc' →
      ListFr n sc0 sc' ∧ ScopeInv n sc' := by
  induction all with
  | nil =>
    intro sc0 sc' hn inv e
    simp only [List.foldl_nil, Option.some.injEq] at e
    subst e
    exact ⟨ListFr.refl hn, inv⟩
  | cons nv rest ih =>
    intro sc0 sc' hn inv e
    simp only [List.foldl_cons, Option.bind_some] at e
    cases h1 : envSet base (fuelOf sc0) sc0 id nv.1 nv.2 with
    | none =>
      rw [h1] at e
      have : ∀ l : List (Bytes × Var),
          l.foldl (fun acc nv => acc.bind fun sc => envSet base (fuelOf sc) sc id nv.1 nv.2) none = none := by
        intro l; induction l with
        | nil => rfl
        | cons a l ihl => simp only [List.foldl_cons, Option.bind_none]; exact ihl
      rw [this] at e; cases e
    | some sc1 =>
      rw [h1] at e
      have s1 := envSet_spec base _ hn inv hid h1
      have s2 := ih s1.1.1 (s1.2.scopeInv inv) e
      exact ⟨s1.1.trans s2.1, s2.2⟩

theorem newOverlay_spec {base : List (Bytes × Bytes)} {scopes : List Scope} {parent : Nat} {bg : Bool}
    {e : List Scope × Nat} (h : newOverlay base scopes parent bg = some e) :
    ListFr scopes.length scopes e.1 ∧ ScopeInv scopes.length e.1 ∧ scopes.length ≤ e.2 := by
  unfold newOverlay at h
  simp only at h
  split at h
  · cases h
    exact ⟨listFr_append _ _ (Nat.le_refl _), scopeInv_append_plain scopeInv_of_length rfl, Nat.le_refl _⟩
  · cases hf : (envEach base scopes (fuelOf scopes) (.ov parent)).foldl
        (fun acc nv => acc.bind fun sc => envSet base (fuelOf sc) sc scopes.length nv.1 nv.2)
        (some (scopes ++ [{ parent := .nil }])) with
    | none => rw [hf] at h; cases h
    | some sc' =>
      rw [hf] at h
      cases h
      have l0 : ListFr scopes.length scopes (scopes ++ [({ parent := .nil } : Scope)]) :=
        listFr_append _ _ (Nat.le_refl _)
      have s := foldSet_spec (n := scopes.length) base scopes.length (Nat.le_refl _) _ l0.1
        (scopeInv_append_plain scopeInv_of_length rfl) hf
      exact ⟨l0.trans s.1, s.2, Nat.le_refl _⟩

theorem copyDirStack_fr {n : Nat} (g : Grows) (strs : ArrHeap Bytes) (ds : Slice) (hn : n ≤ strs.length) :
    ListFr n strs (copyDirStack g strs ds).1 ∧ Owned n (copyDirStack g strs ds).2 := by
  unfold copyDirStack
  have m := sliceMake_fr (n := n) strs ([] : List Bytes) 1 hn
  have o : Owned n { (sliceMake strs ([] : List Bytes) 1).2 with len := 0 } := by
    rcases m.2 with ⟨_, hc⟩ | ha
    · exact Or.inl ⟨rfl, hc⟩
    · exact Or.inr ha
  have a := sliceAppendMany_fr g.strs (sliceMake strs ([] : List Bytes) 1).1 _ (cells strs ds) m.1.1 o
  exact ⟨m.1.trans a.1, a.2⟩

/-- Creating the subshell touches nothing that exists, and the child satisfies the invariant. -/
theorem subshell_inv {g : Grows} {h : Heap} {p : Runner} {bg : Bool} {c : Heap × Runner}
    (e : subshell g h p bg = some c) : HeapFr h.sizes h c.1 ∧ Inv h.sizes c.2 c.1 := by
  unfold subshell at e
  split at e
  · cases e
  · next ov hov =>
    cases e
    have o := newOverlay_spec hov
    have d := copyDirStack_fr (n := h.strs.length) g h.strs p.dirStack (Nat.le_refl _)
    have fm := mapClone_fr (n := h.fmaps.length) h.fmaps p.funcs (Nat.le_refl _)
    have am := mapClone_fr (n := h.amaps.length) h.amaps p.alias (Nat.le_refl _)
    have fr : HeapFr h.sizes h ⟨(copyDirStack g h.strs p.dirStack).1, h.ints, h.maps, ov.1,
        (mapClone h.fmaps p.funcs).1, (mapClone h.amaps p.alias).1⟩ :=
      ⟨d.1, ListFr.refl (Nat.le_refl _), ListFr.refl (Nat.le_refl _), o.1, fm.1, am.1, fun _ => o.2.1⟩
    exact ⟨fr, ⟨fr.le, o.2.2, o.2.1, (by intro f hf; cases hf), fm.2, am.2, d.2⟩⟩

/-! ### The observation only reads what existed -/

theorem obsVar_congr {n : Sizes} {h h' : Heap} (fr : HeapFr n h h') (hn : n = h.sizes) (nv : Bytes × Var)
    (vin : VarIn h nv.2) : obsVar h' nv = obsVar h nv := by
  subst hn
  unfold obsVar
  have e1 := cells_fr nv.2.list fr.strs vin.1
  have e2 := cells_fr nv.2.indexes fr.ints vin.2.1
  have e3 : nv.2.map.map (mapOf h'.maps) = nv.2.map.map (mapOf h.maps) := by
    cases hm : nv.2.map with
    | none => rfl
    | some id =>
      simp only [Option.map_some]
      rw [mapOf_fr fr.maps (vin.2.2 id hm)]
  rw [e1, e2, e3]

theorem obsChain_congr {h h' : Heap} (fr : HeapFr h.sizes h h') (wf : ∀ o ∈ h.scopes, ScopeIn h o) :
    ∀ (fuel : Nat) (ref : PRef), (∀ id, ref = .ov id → id < h.scopes.length) →
      obsChain h' fuel ref = obsChain h fuel ref := by
  intro fuel
  induction fuel with
  | zero => intro ref _; rfl
  | succ fuel ih =>
    intro ref href
    cases ref with
    | nil => rfl
    | base => rfl
    | ov id =>
      have hid := href id rfl
      simp only [obsChain]
      rw [fr.scopes.getElem? hid]
      cases ho : h.scopes[id]? with
      | none => rfl
      | some o =>
        have hmem : o ∈ h.scopes := List.mem_of_getElem? ho
        have sin := wf o hmem
        simp only
        rw [ih o.parent sin.2]
        have hv : (o.values.getD []).map (obsVar h') = (o.values.getD []).map (obsVar h) := by
          apply List.map_congr_left
          intro nv hnv
          exact obsVar_congr fr rfl nv (sin.1 nv hnv)
        rw [hv]

theorem observe_congr {p : Runner} {h h' : Heap} (wf : WF p h) (fr : HeapFr h.sizes h h') :
    observe p h' = observe p h := by
  obtain ⟨wsc, wenv, wpar, wds, wfn, wal⟩ := wf
  unfold observe
  rw [obsChain_congr fr wsc (p.env + 2) (.ov p.env) (by intro id hid; cases hid; exact wenv)]
  rw [cells_fr p.params fr.strs wpar, cells_fr p.dirStack fr.strs wds]
  have e1 : p.funcs.map (mapOf h'.fmaps) = p.funcs.map (mapOf h.fmaps) := by
    cases hm : p.funcs with
    | none => rfl
    | some id => simp only [Option.map_some]; rw [mapOf_fr fr.fmaps (wfn id hm)]
  have e2 : p.alias.map (mapOf h'.amaps) = p.alias.map (mapOf h.amaps) := by
    cases hm : p.alias with
    | none => rfl
    | some id => simp only [Option.map_some]; rw [mapOf_fr fr.amaps (wal id hm)]
  rw [e1, e2]

/-- The core of the isolation theorems: frame + observation congruence along subshell and run. -/
theorem childRun_observe {fx : Bool} {g : Grows} {h : Heap} {p : Runner} {bg : Bool} {ops : List Op}
    {c x : Heap × Runner} (wf : WF p h) (hs : subshell g h p bg = some c)
    (safe : fx = true ∨ (fx = false ∧ SafeRun h.sizes g c.1 c.2 ops))
    (hr : run fx g c.1 c.2 ops = some x) : observe p x.1 = observe p h := by
  have s := subshell_inv hs
  have r := run_inv ops s.2 safe hr
  exact observe_congr wf (s.1.trans r.1)

end ShVerif.C27
