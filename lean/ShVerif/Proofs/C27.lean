import ShVerif.Model.C27
import ShVerif.Proofs.L1Heap
/-
  C27 — helper lemmas.  The child writes only heap objects allocated after the subshell was
  created (`HeapFr n`, `n` = the heap sizes at that moment), hence nothing the parent can reach.
-/
namespace ShVerif.C27
open ShVerif ShVerif.L1

/-! ### Frames over the whole heap -/

def Sizes.le (n : Sizes) (h : Heap) : Prop :=
  n.strs ≤ h.strs.length ∧ n.ints ≤ h.ints.length ∧ n.maps ≤ h.maps.length ∧
  n.scopes ≤ h.scopes.length ∧ n.fmaps ≤ h.fmaps.length ∧ n.amaps ≤ h.amaps.length

theorem Heap.sizes_le (h : Heap) : h.sizes.le h := by
  simp [Sizes.le, Heap.sizes]

/-- Overlays allocated since the subshell forward `Set` only to overlays allocated since. -/
def ScopeInv (n : Nat) (scopes : List Scope) : Prop :=
  ∀ id o, n ≤ id → scopes[id]? = some o → o.funcScope = true → ∃ p, o.parent = .ov p ∧ n ≤ p

structure HeapFr (n : Sizes) (h h' : Heap) : Prop where
  strs : ListFr n.strs h.strs h'.strs
  ints : ListFr n.ints h.ints h'.ints
  maps : ListFr n.maps h.maps h'.maps
  scopes : ListFr n.scopes h.scopes h'.scopes
  fmaps : ListFr n.fmaps h.fmaps h'.fmaps
  amaps : ListFr n.amaps h.amaps h'.amaps
  sc : ScopeInv n.scopes h.scopes → ScopeInv n.scopes h'.scopes

theorem HeapFr.le {n : Sizes} {h h' : Heap} (fr : HeapFr n h h') : n.le h' :=
  ⟨fr.strs.1, fr.ints.1, fr.maps.1, fr.scopes.1, fr.fmaps.1, fr.amaps.1⟩

theorem HeapFr.refl {n : Sizes} {h : Heap} (hn : n.le h) : HeapFr n h h :=
  ⟨.refl hn.1, .refl hn.2.1, .refl hn.2.2.1, .refl hn.2.2.2.1, .refl hn.2.2.2.2.1, .refl hn.2.2.2.2.2, id⟩

theorem HeapFr.trans {n : Sizes} {a b c : Heap} (h1 : HeapFr n a b) (h2 : HeapFr n b c) : HeapFr n a c :=
  ⟨h1.strs.trans h2.strs, h1.ints.trans h2.ints, h1.maps.trans h2.maps, h1.scopes.trans h2.scopes,
   h1.fmaps.trans h2.fmaps, h1.amaps.trans h2.amaps, fun s => h2.sc (h1.sc s)⟩

theorem HeapFr.of_strs {n : Sizes} {h : Heap} {s : ArrHeap Bytes} (hn : n.le h) (fr : ListFr n.strs h.strs s) :
    HeapFr n h { h with strs := s } :=
  ⟨fr, .refl hn.2.1, .refl hn.2.2.1, .refl hn.2.2.2.1, .refl hn.2.2.2.2.1, .refl hn.2.2.2.2.2, id⟩

theorem HeapFr.of_ints {n : Sizes} {h : Heap} {s : ArrHeap Nat} (hn : n.le h) (fr : ListFr n.ints h.ints s) :
    HeapFr n h { h with ints := s } :=
  ⟨.refl hn.1, fr, .refl hn.2.2.1, .refl hn.2.2.2.1, .refl hn.2.2.2.2.1, .refl hn.2.2.2.2.2, id⟩

theorem HeapFr.of_strs_ints {n : Sizes} {h : Heap} {s : ArrHeap Bytes} {i : ArrHeap Nat} (hn : n.le h)
    (fs : ListFr n.strs h.strs s) (fi : ListFr n.ints h.ints i) : HeapFr n h { h with strs := s, ints := i } :=
  ⟨fs, fi, .refl hn.2.2.1, .refl hn.2.2.2.1, .refl hn.2.2.2.2.1, .refl hn.2.2.2.2.2, id⟩

theorem HeapFr.of_maps {n : Sizes} {h : Heap} {s : MapHeap Bytes Bytes} (hn : n.le h) (fr : ListFr n.maps h.maps s) :
    HeapFr n h { h with maps := s } :=
  ⟨.refl hn.1, .refl hn.2.1, fr, .refl hn.2.2.2.1, .refl hn.2.2.2.2.1, .refl hn.2.2.2.2.2, id⟩

theorem HeapFr.of_fmaps {n : Sizes} {h : Heap} {s : MapHeap Bytes Bytes} (hn : n.le h) (fr : ListFr n.fmaps h.fmaps s) :
    HeapFr n h { h with fmaps := s } :=
  ⟨.refl hn.1, .refl hn.2.1, .refl hn.2.2.1, .refl hn.2.2.2.1, fr, .refl hn.2.2.2.2.2, id⟩

theorem HeapFr.of_amaps {n : Sizes} {h : Heap} {s : MapHeap Bytes (Bytes × Bool)} (hn : n.le h)
    (fr : ListFr n.amaps h.amaps s) : HeapFr n h { h with amaps := s } :=
  ⟨.refl hn.1, .refl hn.2.1, .refl hn.2.2.1, .refl hn.2.2.2.1, .refl hn.2.2.2.2.1, fr, id⟩

/-! ### internal/sparse.go -/

theorem canonicalIndexes_owned {n : Nat} (h : Heap) (ix : Slice) (o : Owned n ix) :
    Owned n (canonicalIndexes h ix) := by
  unfold canonicalIndexes; split
  · exact Owned.nil n
  · exact o

theorem setIndexedSparse_fr {n : Sizes} {g : Grows} {h h' : Heap} {list indexes l' ix' : Slice} {k : Nat}
    {val : Bytes} (hn : n.le h) (ol : Owned n.strs list) (oi : Owned n.ints indexes)
    (e : setIndexedSparse g h list indexes k val = some (h', l', ix')) :
    HeapFr n h h' ∧ Owned n.strs l' ∧ Owned n.ints ix' := by
  unfold setIndexedSparse at e
  simp only at e
  split at e
  · split at e
    · cases e
    · next s hs =>
      cases e
      exact ⟨HeapFr.of_strs hn (sliceSet_fr hn.1 ol hs), ol, oi⟩
  · split at e
    · cases e
    · next a ha =>
      split at e
      · cases e
      · next b hb =>
        cases e
        have h1 := sliceInsert_fr (s' := a.2) (h' := a.1) hn.1 ol ha
        have h2 := sliceInsert_fr (s' := b.2) (h' := b.1) hn.2.1 oi hb
        exact ⟨HeapFr.of_strs_ints hn h1.1 h2.1, h1.2, canonicalIndexes_owned _ _ h2.2⟩

theorem setIndexedElem_fr {n : Sizes} {g : Grows} {h h' : Heap} {list indexes l' ix' : Slice} {k : Nat}
    {val : Bytes} (hn : n.le h) (ol : Owned n.strs list) (oi : Owned n.ints indexes)
    (e : setIndexedElem g h list indexes k val = some (h', l', ix')) :
    HeapFr n h h' ∧ Owned n.strs l' ∧ Owned n.ints ix' := by
  unfold setIndexedElem at e
  split at e
  · split at e
    · split at e
      · cases e
      · next s hs =>
        cases e
        exact ⟨HeapFr.of_strs hn (sliceSet_fr hn.1 ol hs), ol, Owned.nil _⟩
    · split at e
      · cases e
        have h1 := sliceAppend_fr g.strs h.strs list val hn.1 ol
        exact ⟨HeapFr.of_strs hn h1.1, h1.2, Owned.nil _⟩
      · have h1 := sliceMake_fr (n := n.ints) h.ints (List.range list.len) (list.len + 1) hn.2.1
        have f1 : HeapFr n h { h with ints := (sliceMake h.ints (List.range list.len) (list.len + 1)).1 } :=
          HeapFr.of_ints hn h1.1
        have h2 := setIndexedSparse_fr f1.le ol h1.2 e
        exact ⟨f1.trans h2.1, h2.2⟩
  · exact setIndexedSparse_fr hn ol oi e

theorem deleteIndexedSparse_fr {n : Sizes} {h h' : Heap} {list indexes l' ix' : Slice} {k : Nat}
    (hn : n.le h) (ol : Owned n.strs list) (oi : Owned n.ints indexes)
    (e : deleteIndexedSparse h list indexes k = some (h', l', ix')) :
    HeapFr n h h' ∧ Owned n.strs l' ∧ Owned n.ints ix' := by
  unfold deleteIndexedSparse at e
  simp only at e
  split at e
  · cases e; exact ⟨HeapFr.refl hn, ol, oi⟩
  · split at e
    · cases e
    · next a ha =>
      split at e
      · cases e
      · next b hb =>
        cases e
        have h1 := sliceDelete_fr (s' := a.2) (h' := a.1) hn.1 ol ha
        have h2 := sliceDelete_fr (s' := b.2) (h' := b.1) hn.2.1 oi hb
        exact ⟨HeapFr.of_strs_ints hn h1.1 h2.1, h1.2, canonicalIndexes_owned _ _ h2.2⟩

theorem deleteIndexedElem_fr {n : Sizes} {h h' : Heap} {list indexes l' ix' : Slice} {k : Nat}
    (hn : n.le h) (ol : Owned n.strs list) (oi : Owned n.ints indexes)
    (e : deleteIndexedElem h list indexes k = some (h', l', ix')) :
    HeapFr n h h' ∧ Owned n.strs l' ∧ Owned n.ints ix' := by
  unfold deleteIndexedElem at e
  split at e
  · split at e
    · cases e; exact ⟨HeapFr.refl hn, ol, Owned.nil _⟩
    · split at e
      · split at e
        · cases e
        · next l hl => cases e; exact ⟨HeapFr.refl hn, sliceTo_owned ol hl, Owned.nil _⟩
      · have h1 := sliceMake_fr (n := n.ints) h.ints (List.range list.len) list.len hn.2.1
        have f1 : HeapFr n h { h with ints := (sliceMake h.ints (List.range list.len) list.len).1 } :=
          HeapFr.of_ints hn h1.1
        have h2 := deleteIndexedSparse_fr f1.le ol h1.2 e
        exact ⟨f1.trans h2.1, h2.2⟩
  · exact deleteIndexedSparse_fr hn ol oi e

theorem cloneBoth_fr {n : Sizes} (g : Grows) (h : Heap) (list indexes : Slice) (hn : n.le h) :
    HeapFr n h (cloneBoth g h list indexes).1 ∧ Owned n.strs (cloneBoth g h list indexes).2.1 ∧
      Owned n.ints (cloneBoth g h list indexes).2.2 := by
  have h1 := sliceClone_fr (n := n.strs) g.strs h.strs list hn.1
  have h2 := sliceClone_fr (n := n.ints) g.ints h.ints indexes hn.2.1
  exact ⟨HeapFr.of_strs_ints hn h1.1 h2.1, h1.2, h2.2⟩

theorem assignElems_fr {n : Sizes} {g : Grows} (elems : List (Option Int × Bytes)) :
    ∀ {h h' : Heap} {list indexes l' ix' : Slice} {index : Int}, n.le h → Owned n.strs list →
      Owned n.ints indexes → assignElems g h list indexes index elems = some (h', l', ix') →
      HeapFr n h h' ∧ Owned n.strs l' ∧ Owned n.ints ix' := by
  induction elems with
  | nil =>
    intro h h' list indexes l' ix' index hn ol oi e
    simp only [assignElems] at e
    cases e; exact ⟨HeapFr.refl hn, ol, oi⟩
  | cons el rest ih =>
    intro h h' list indexes l' ix' index hn ol oi e
    simp only [assignElems] at e
    split at e
    · cases e; exact ⟨HeapFr.refl hn, ol, oi⟩
    · split at e
      · cases e
      · next r hr =>
        have h1 := setIndexedElem_fr (h' := r.1) (l' := r.2.1) (ix' := r.2.2) hn ol oi hr
        have h2 := ih h1.1.le h1.2.1 h1.2.2 e
        exact ⟨h1.1.trans h2.1, h2.2⟩

/-! ### overlayEnviron.Set -/

/-- The part of an overlay that `Set` never changes. -/
def skel (o : Scope) : PRef × Bool := (o.parent, o.funcScope)

/-- Same length, same parents and funcScope flags. -/
def SameSkel (a b : List Scope) : Prop :=
  b.length = a.length ∧ ∀ i : Nat, (b[i]?).map skel = (a[i]?).map skel

theorem SameSkel.refl (a : List Scope) : SameSkel a a := ⟨rfl, fun _ => rfl⟩

theorem SameSkel.trans {a b c : List Scope} (h1 : SameSkel a b) (h2 : SameSkel b c) : SameSkel a c :=
  ⟨h2.1.trans h1.1, fun i => (h2.2 i).trans (h1.2 i)⟩

theorem SameSkel.scopeInv {n : Nat} {a b : List Scope} (h : SameSkel a b) (inv : ScopeInv n a) : ScopeInv n b := by
  intro id o hid ho hf
  have := h.2 id
  rw [ho] at this
  cases ha : a[id]? with
  | none => rw [ha] at this; cases this
  | some oa =>
    rw [ha] at this
    simp only [Option.map_some, Option.some.injEq, skel, Prod.mk.injEq] at this
    obtain ⟨p, hp, hnp⟩ := inv id oa hid ha (by rw [← this.2]; exact hf)
    exact ⟨p, by rw [this.1]; exact hp, hnp⟩

theorem sameSkel_set {scopes : List Scope} {id : Nat} {o : Scope} (ho : scopes[id]? = some o)
    (vals : Option (List (Bytes × Var))) : SameSkel scopes (scopes.set id { o with values := vals }) := by
  refine ⟨List.length_set, fun i => ?_⟩
  rw [List.getElem?_set]
  split
  · next h =>
    subst h
    have hlt : id < scopes.length := by
      cases hl : decide (id < scopes.length) with
      | true => exact of_decide_eq_true hl
      | false =>
        have : scopes.length ≤ id := Nat.le_of_not_lt (of_decide_eq_false hl)
        rw [List.getElem?_eq_none this] at ho; cases ho
    have hget : scopes[id] = o := by
      have := List.getElem?_eq_getElem hlt
      rw [ho] at this; exact (Option.some.inj this).symm
    simp [hlt, skel, hget]
  · rfl

theorem envSet_spec {n : Nat} (base : List (Bytes × Bytes)) :
    ∀ (fuel : Nat) {scopes sc' : List Scope} {id : Nat} {name : Bytes} {vr : Var},
      n ≤ scopes.length → ScopeInv n scopes → n ≤ id →
      envSet base fuel scopes id name vr = some sc' → ListFr n scopes sc' ∧ SameSkel scopes sc' := by
  intro fuel
  induction fuel with
  | zero => intro scopes sc' id name vr _ _ _ e; simp [envSet] at e
  | succ fuel ih =>
    intro scopes sc' id name vr hn inv hid e
    simp only [envSet] at e
    split at e
    · cases e
    · next o ho =>
      split at e
      · next hf =>
        split at e
        · next p hp =>
          have hfs : o.funcScope = true := by
            simp only [Bool.and_eq_true] at hf; exact hf.1.1
          obtain ⟨p', hp', hnp⟩ := inv id o hid ho hfs
          rw [hp] at hp'; cases hp'
          exact ih hn inv hnp e
        · cases e
      · cases e
        exact ⟨listFr_set _ _ hn hid, sameSkel_set ho _⟩

/-! ### The child invariant -/

/-- What the child runner owns: its overlay, its saved frames, its function and alias maps and
    its directory stack were all allocated after the subshell was created (`n`). -/
structure Inv (n : Sizes) (r : Runner) (h : Heap) : Prop where
  le : n.le h
  env : n.scopes ≤ r.env
  sc : ScopeInv n.scopes h.scopes
  frames : ∀ f ∈ r.frames, n.scopes ≤ f.env
  funcs : ∀ id, r.funcs = some id → n.fmaps ≤ id
  alias : ∀ id, r.alias = some id → n.amaps ≤ id
  ds : Owned n.strs r.dirStack

theorem Inv.step {n : Sizes} {r : Runner} {h h' : Heap} (inv : Inv n r h) (fr : HeapFr n h h') : Inv n r h' :=
  ⟨fr.le, inv.env, fr.sc inv.sc, inv.frames, inv.funcs, inv.alias, inv.ds⟩

theorem HeapFr.of_scopes {n : Sizes} {h : Heap} {s : List Scope} (hn : n.le h) (fr : ListFr n.scopes h.scopes s)
    (sk : SameSkel h.scopes s) : HeapFr n h { h with scopes := s } :=
  ⟨.refl hn.1, .refl hn.2.1, .refl hn.2.2.1, fr, .refl hn.2.2.2.2.1, .refl hn.2.2.2.2.2, sk.scopeInv⟩

theorem setVar_fr {n : Sizes} {r : Runner} {h h' : Heap} {name : Bytes} {vr : Var} (inv : Inv n r h)
    (e : setVar r h name vr = some h') : HeapFr n h h' := by
  unfold setVar at e
  split at e
  · cases e
  · next sc hsc =>
    cases e
    have := envSet_spec r.base _ inv.le.2.2.2.1 inv.sc inv.env hsc
    exact HeapFr.of_scopes inv.le this.1 this.2

theorem delVar_fr {n : Sizes} {r : Runner} {h h' : Heap} {name : Bytes} (inv : Inv n r h)
    (e : delVar r h name = some h') : HeapFr n h h' := by
  unfold delVar at e
  split at e
  · cases e
  · next sc hsc =>
    cases e
    have := envSet_spec r.base _ inv.le.2.2.2.1 inv.sc inv.env hsc
    exact HeapFr.of_scopes inv.le this.1 this.2

theorem setVarString_fr {n : Sizes} {r : Runner} {h h' : Heap} {name val : Bytes} (inv : Inv n r h)
    (e : setVarString r h name val = some h') : HeapFr n h h' := setVar_fr inv e

/-! ### assignVal -/

theorem appendBase_fr {n : Sizes} {g : Grows} {h : Heap} {prev : Var} {append : Bool} {b : Heap × Slice × Slice}
    (hn : n.le h) (e : appendBase g h prev append = some (some b)) :
    HeapFr n h b.1 ∧ Owned n.strs b.2.1 ∧ Owned n.ints b.2.2 := by
  unfold appendBase at e
  split at e
  · split at e
    · cases e; exact ⟨HeapFr.refl hn, Owned.nil _, Owned.nil _⟩
    · cases e
      have h1 := sliceMake_fr (n := n.strs) h.strs [prev.str] 1 hn.1
      exact ⟨HeapFr.of_strs hn h1.1, h1.2, Owned.nil _⟩
    · cases e; exact cloneBoth_fr g h _ _ hn
    · cases e
    · cases e
  · cases e; exact ⟨HeapFr.refl hn, Owned.nil _, Owned.nil _⟩

theorem assignArr_fr {n : Sizes} {g : Grows} {h h' : Heap} {prev v : Var} {append : Bool}
    {elems : List (Option Int × Bytes)} (hn : n.le h) (e : assignArr g h prev append elems = some (h', v)) :
    HeapFr n h h' := by
  unfold assignArr at e
  split at e
  · cases e
  · cases e; exact HeapFr.refl hn
  · next b hb =>
    have h1 := appendBase_fr hn hb
    split at e
    · cases e
    · next r hr =>
      cases e
      have h2 := assignElems_fr elems (h' := r.1) (l' := r.2.1) (ix' := r.2.2) h1.1.le h1.2.1 h1.2.2 hr
      exact h1.1.trans h2.1

theorem assignMap_fr {n : Sizes} (h : Heap) (prev : Var) (append : Bool) (amap : List (Bytes × Bytes)) (hn : n.le h) :
    HeapFr n h (assignMap h prev append amap).1 :=
  HeapFr.of_maps hn (mapAlloc_fr h.maps amap hn.2.2.1).1

theorem assignMap_fr' {n : Sizes} {h h' : Heap} {prev v : Var} {append : Bool} {amap : List (Bytes × Bytes)}
    (hn : n.le h) (e : assignMap h prev append amap = (h', v)) : HeapFr n h h' := by
  have h1 := assignMap_fr (n := n) h prev append amap hn
  rw [e] at h1; exact h1

theorem appendIndexed_fr {n : Sizes} {g : Grows} {h h' : Heap} {prev v : Var} {s : Bytes} (hn : n.le h)
    (ol : Owned n.strs prev.list) (oi : Owned n.ints prev.indexes)
    (e : appendIndexed g h prev s = some (h', v)) : HeapFr n h h' := by
  unfold appendIndexed at e
  split at e
  · split at e
    · cases e
    · split at e
      · cases e
      · next st hst => cases e; exact HeapFr.of_strs hn (sliceSet_fr hn.1 ol hst)
  · split at e
    · cases e
    · next r hr =>
      cases e
      exact (setIndexedElem_fr (h' := r.1) (l' := r.2.1) (ix' := r.2.2) hn ol oi hr).1

/-- `assignVal` writes only fresh storage — in the repaired variant always, in today's variant
    provided a `+=word` onto an indexed array finds storage the child owns. -/
theorem assignVal_fr {n : Sizes} {fx : Bool} {g : Grows} {h h' : Heap} {prev v : Var} {append : Bool}
    {rhs : Rhs} {vt : ValType} (hn : n.le h)
    (safe : fx = true ∨ (append = true → (∃ s, rhs = .str s) → prev.kind = .indexed →
      Owned n.strs prev.list ∧ Owned n.ints prev.indexes))
    (e : assignVal fx g h prev append rhs vt = some (h', v)) : HeapFr n h h' := by
  unfold assignVal at e
  split at e
  · next s =>
    split at e
    · cases e; exact HeapFr.refl hn
    · next happ =>
      split at e
      · cases e; exact HeapFr.refl hn
      · cases e; exact HeapFr.refl hn
      · next hk =>
        split at e
        · have h1 := cloneBoth_fr g h prev.list prev.indexes hn
          exact h1.1.trans (appendIndexed_fr h1.1.le h1.2.1 h1.2.2 e)
        · next hfx =>
          rcases safe with hfx' | hs
          · exact absurd hfx' hfx
          · have := hs (by simpa using happ) ⟨s, rfl⟩ hk
            exact appendIndexed_fr (prev := { prev with set := true }) hn this.1 this.2 e
      · cases e; exact HeapFr.refl hn
  · cases e; exact HeapFr.refl hn
  · split at e
    · exact assignMap_fr' hn (Option.some.inj e)
    · split at e
      · exact assignArr_fr hn e
      · cases e
  · split at e
    · split at e
      · cases e
      · exact assignMap_fr' hn (Option.some.inj e)
    · exact assignArr_fr hn e

end ShVerif.C27
