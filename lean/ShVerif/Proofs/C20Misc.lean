import ShVerif.Proofs.C20Num
/-
  C20 helper lemmas: status rules, error characterisation, absence of panics, assignment operators.
-/
namespace ShVerif.C20

@[simp] theorem andThen_ok (v : Int) (env : Env) (f : Int → Env → Res × Env) :
    andThen (.ok v, env) f = f v env := rfl
@[simp] theorem andThen_err (er : Err) (env : Env) (f : Int → Env → Res × Env) :
    andThen (.err er, env) f = (.err er, env) := rfl
@[simp] theorem andThen_panic (env : Env) (f : Int → Env → Res × Env) :
    andThen (.panic, env) f = (.panic, env) := rfl

theorem andThen_assoc (p : Res × Env) (f g : Int → Env → Res × Env) :
    andThen (andThen p f) g = andThen p (fun v e => andThen (f v e) g) := by
  obtain ⟨r, env⟩ := p
  cases r <;> rfl

/-! ### status rules of the runner -/

theorem status_arithCmd_core (env : Env) (e : Expr) :
    (arithCmdStatus env e).1 = 0 ↔ ∃ v, (evalArith env e).1 = .ok v ∧ v ≠ 0 := by
  unfold arithCmdStatus runnerArithm
  cases h : evalArith env e with
  | mk r env' =>
    cases r with
    | ok v =>
      by_cases hv : v = 0
      · simp [hv]
      · simp [hv]
    | err er => simp
    | panic => simp

theorem status_let_single_core (env : Env) (e : Expr) :
    (letStatus env [e]).1 = 0 ↔ ∃ v, (evalArith env e).1 = .ok v ∧ v ≠ 0 := by
  unfold letStatus letLoop runnerArithm
  cases h : evalArith env e with
  | mk r env' =>
    cases r with
    | ok v =>
      by_cases hv : v = 0
      · simp [hv, letLoop]
      · simp [hv, letLoop]
    | err er => simp
    | panic => simp

/-- `let` stops at the first argument that fails, with status 1 and the environment of that
    moment. -/
theorem status_let_error_core (env : Env) (e : Expr) (rest : List Expr)
    (h : ∀ v, (evalArith env e).1 ≠ .ok v) :
    letStatus env (e :: rest) = (1, (evalArith env e).2) := by
  unfold letStatus letLoop runnerArithm
  cases hh : evalArith env e with
  | mk r env' =>
    rw [hh] at h
    cases r with
    | ok v => exact absurd rfl (h v)
    | err er => simp
    | panic => simp

/-- … and otherwise goes on with the next argument in the environment the previous one left. -/
theorem status_let_step_core (env env' : Env) (e e2 : Expr) (rest : List Expr) (v : Int)
    (h : evalArith env e = (.ok v, env')) :
    letStatus env (e :: e2 :: rest) = letStatus env' (e2 :: rest) := by
  unfold letStatus
  rw [letLoop]
  unfold runnerArithm
  rw [h]
  simp only []
  rw [letLoop, letLoop]

theorem errors_iff_binArit_core (op : BinOp) (x y : Int) (hop : plainBin op = true) :
    (∃ err, binArit op x y = .err err) ↔
      ((op = .quo ∨ op = .rem) ∧ y = 0) ∨ (op = .pow ∧ y < 0) := by
  cases op <;> simp [plainBin] at hop <;> simp [binArit]
  · by_cases h : y = 0 <;> simp [h]
  · by_cases h : y = 0 <;> simp [h]
  · by_cases h : y < 0 <;> simp [h]

theorem andThen_ne_panic {p : Res × Env} {f : Int → Env → Res × Env}
    (hp : p.1 ≠ .panic) (hf : ∀ v env, (f v env).1 ≠ .panic) : (andThen p f).1 ≠ .panic := by
  obtain ⟨r, env⟩ := p
  cases r with
  | ok v => exact hf v env
  | err er => simp
  | panic => exact absurd rfl hp

theorem setVar_ne_panic (env : Env) (n : Bytes) (v : Int) : (setVar env n v).1 ≠ .panic := by
  unfold setVar; split <;> simp

theorem isNameWord_elim {x : Expr} (h : isNameWord x = true) : ∃ n, x = .word n ∧ validName n = true := by
  cases x <;> simp [isNameWord] at h
  exact ⟨_, rfl, h⟩

theorem binArit_ne_panic (op : BinOp) (x y : Int) : binArit op x y ≠ .panic := by
  cases op <;> simp [binArit] <;> split <;> simp

theorem isAssign_iff (op : BinOp) : isAssign op = true ↔ (op = .assgn ∨ (assignOp op).isSome = true) := by
  simp [isAssign]

theorem evalWord_ne_panic {deeper : Env → Bytes → Res × Env}
    (hd : ∀ env s, (deeper env s).1 ≠ .panic) (env : Env) (w : Bytes) :
    (evalWord deeper env w).1 ≠ .panic := by
  unfold evalWord
  simp only []
  split
  · exact hd _ _
  · simp

/-- The only Go panic site left in `Arithm` (the type assertion of the conditional) is not reachable
    on trees of bash's grammar, at any nesting level whose nested evaluations do not panic. -/
theorem no_panic_both {deeper : Env → Bytes → Res × Env}
    (hd : ∀ env s, (deeper env s).1 ≠ .panic) (e : Expr) :
    (∀ env, WF e = true → (evalWith deeper env e).1 ≠ .panic) ∧
    (∀ env cond, WFColon e = true → (evalTernBranch deeper env cond e).1 ≠ .panic) := by
  induction e with
  | word w =>
    exact ⟨fun env _ => by rw [evalWith]; exact evalWord_ne_panic hd env w,
      fun env c h => by simp [WFColon] at h⟩
  | paren x ih =>
    refine ⟨fun env hwf => ?_, fun env c h => by simp [WFColon] at h⟩
    simp only [evalWith]; exact ih.1 env (by simpa [WF] using hwf)
  | unary op post x ih =>
    refine ⟨fun env hwf => ?_, fun env c h => by simp [WFColon] at h⟩
    by_cases hinc : op = .inc ∨ op = .dec
    · simp only [WF, hinc, if_true] at hwf
      obtain ⟨n, rfl, hvn⟩ := isNameWord_elim hwf
      rw [evalWith]
      simp only [hinc, if_true, wordOf_name hvn]
      refine andThen_ne_panic (evalWord_ne_panic hd _ _) (fun _ _ => ?_)
      exact andThen_ne_panic (setVar_ne_panic _ _ _) (fun _ _ => by simp)
    · simp only [WF, hinc, if_false, Bool.and_eq_true] at hwf
      rw [evalWith]
      simp only [hinc, if_false]
      refine andThen_ne_panic (ih.1 env hwf.2) (fun v env' => ?_)
      split <;> simp
  | binary op x y ihx ihy =>
    constructor
    · intro env hwf
      by_cases hass : isAssign op = true
      · have hass' := (isAssign_iff op).1 hass
        simp only [WF, hass', if_true, Bool.and_eq_true] at hwf
        obtain ⟨n, rfl, hvn⟩ := isNameWord_elim hwf.1
        rw [evalWith]
        simp only [hass, if_true, wordOf_name hvn]
        split
        · exact andThen_ne_panic (ihy.1 env hwf.2) (fun _ _ => setVar_ne_panic _ _ _)
        · refine andThen_ne_panic (evalWord_ne_panic hd _ _) (fun val env1 => ?_)
          refine andThen_ne_panic (ihy.1 env1 hwf.2) (fun arg env' => ?_)
          split
          · exact setVar_ne_panic _ _ _
          · rename_i e hne
            intro h
            exact binArit_ne_panic _ _ _ (by simpa using h)
      · have hass' : ¬ (op = .assgn ∨ (assignOp op).isSome = true) :=
          fun h => hass ((isAssign_iff op).2 h)
        simp only [WF, hass', if_false] at hwf
        rw [evalWith]
        simp only [hass, if_false]
        by_cases ht : op = .ternQuest
        · simp only [ht, if_true, Bool.and_eq_true] at hwf ⊢
          exact andThen_ne_panic (ihx.1 env hwf.1) (fun v env' => ihy.2 env' v hwf.2)
        · simp only [ht, if_false] at hwf ⊢
          by_cases hl : op = .andL ∨ op = .orL
          · simp only [hl, if_true, Bool.and_eq_true] at hwf ⊢
            refine andThen_ne_panic (ihx.1 env hwf.1) (fun v env' => ?_)
            split
            · simp
            · split
              · simp
              · exact andThen_ne_panic (ihy.1 env' hwf.2) (fun _ _ => by simp)
          · simp only [hl, if_false, Bool.and_eq_true] at hwf ⊢
            refine andThen_ne_panic (ihx.1 env hwf.1.2) (fun v env' => ?_)
            exact andThen_ne_panic (ihy.1 env' hwf.2) (fun _ _ => binArit_ne_panic _ _ _)
    · intro env c h
      simp only [WFColon, Bool.and_eq_true] at h
      rw [evalTernBranch]
      split
      · exact ihx.1 env h.1.2
      · exact ihy.1 env h.2

theorem no_panic_core {deeper : Env → Bytes → Res × Env}
    (hd : ∀ env s, (deeper env s).1 ≠ .panic) (env : Env) (e : Expr) (hwf : WF e = true) :
    (evalWith deeper env e).1 ≠ .panic :=
  (no_panic_both hd e).1 env hwf

/-! ### assignment operators -/

theorem chase_not_name (get : Bytes → Bytes) (k : Nat) (s : Bytes) (h : validName s = false) :
    chase get k s = s := by
  cases k <;> simp [chase, h]

theorem atoi_nil : atoi [] = 0 := by decide

theorem chase_succ (get : Bytes → Bytes) (k : Nat) (s : Bytes) :
    chase get (k + 1) s =
      if validName s then (if get s = [] then s else chase get k (get s)) else s := by
  rw [chase]

theorem assignOp_plain {op aop : BinOp} (h : assignOp op = some aop) :
    isAssign op = true ∧ isAssign aop = false ∧ aop ≠ .ternQuest ∧ ¬ (aop = .andL ∨ aop = .orL) := by
  cases op <;> simp [assignOp] at h <;> subst h <;> decide

/-- `x op= e` ≡ `x = x op e`, for every word `x`, environment and nesting level. -/
theorem assign_ops_with (deeper : Env → Bytes → Res × Env) (env : Env) (op aop : BinOp) (x : Bytes)
    (e : Expr) (hop : assignOp op = some aop) :
    evalWith deeper env (.binary op (.word x) e) =
      evalWith deeper env (.binary .assgn (.word x) (.binary aop (.word x) e)) := by
  obtain ⟨h1, h2, h3, h4⟩ := assignOp_plain hop
  by_cases hx : x = []
  · subst hx
    have e1 : evalWith deeper env (.binary op (.word []) e) = (.err .unsupTarget, env) := by
      rw [evalWith]; simp only [h1, if_true, wordOf]
    have e2 : evalWith deeper env (.binary .assgn (.word []) (.binary aop (.word []) e)) =
        (.err .unsupTarget, env) := by
      rw [evalWith]; simp [isAssign, wordOf]
    rw [e1, e2]
  · have hw : wordOf (.word x) = some x := by simp [wordOf, hx]
    have hL : evalWith deeper env (.binary op (.word x) e) =
        andThen (evalWord deeper env x) fun val env1 =>
          andThen (evalWith deeper env1 e) fun arg env' =>
            match binArit aop val arg with
            | .ok v => setVar env' x v
            | r => (r, env') := by
      rw [evalWith]; simp only [h1, if_true, hw, hop]; rfl
    have hInner : evalWith deeper env (.binary aop (.word x) e) =
        andThen (evalWord deeper env x) fun left env1 =>
          andThen (evalWith deeper env1 e) fun right env'' => (binArit aop left right, env'') := by
      rw [evalWith]
      simp only [h2, Bool.false_eq_true, if_false, h3, h4]
      rw [evalWith]
    have hR : evalWith deeper env (.binary .assgn (.word x) (.binary aop (.word x) e)) =
        andThen (evalWith deeper env (.binary aop (.word x) e)) fun arg env' => setVar env' x arg := by
      rw [evalWith]
      simp [isAssign, hw, assignOp]
    rw [hL, hR, hInner, andThen_assoc]
    congr 1
    funext val env1
    rw [andThen_assoc]
    congr 1
    funext arg env'
    cases hb : binArit aop val arg <;> simp

end ShVerif.C20
