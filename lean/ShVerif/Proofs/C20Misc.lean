import ShVerif.Proofs.C20Num
/-
  C20 helper lemmas: status rules, error characterisation, absence of panics, assignment operators.
-/
namespace ShVerif.C20

theorem status_arithCmd_core (env : Env) (e : Expr) :
    (arithCmdStatus env e).1 = 0 ↔ ∃ v, (evalArith env e).1 = .ok v ∧ v ≠ 0 := by
  unfold arithCmdStatus runnerArithm
  cases h : evalArith env e with
  | mk r env' =>
    cases r with
    | ok v =>
      by_cases hv : v = 0
      · simp [hv]
      · simp [hv]
    | err er => simp
    | panic => simp

theorem letLoop_append (env : Env) (val : Int) (es : List Expr) (e : Expr) :
    letLoop env val (es ++ [e]) = ((runnerArithm (letLoop env val es).2 e).1,
      (runnerArithm (letLoop env val es).2 e).2) := by
  induction es generalizing env val with
  | nil => simp [letLoop]
  | cons a rest ih => simp only [List.cons_append, letLoop]; exact ih _ _

theorem status_let_core (env : Env) (es : List Expr) (e : Expr) :
    (letStatus env (es ++ [e])).1 = 0 ↔
      ∃ v, (evalArith (letLoop env 0 es).2 e).1 = .ok v ∧ v ≠ 0 := by
  unfold letStatus
  rw [letLoop_append]
  unfold runnerArithm
  cases h : evalArith (letLoop env 0 es).2 e with
  | mk r env' =>
    cases r with
    | ok v =>
      by_cases hv : v = 0
      · simp [hv]
      · simp [hv]
    | err er => simp
    | panic => simp

theorem errors_iff_binArit_core (op : BinOp) (x y : Int) (hop : plainBin op = true) :
    (∃ err, binArit op x y = .err err) ↔
      ((op = .quo ∨ op = .rem) ∧ y = 0) ∨ (op = .pow ∧ y < 0) := by
  cases op <;> simp [plainBin] at hop <;> simp [binArit]
  · by_cases h : y = 0 <;> simp [h]
  · by_cases h : y = 0 <;> simp [h]
  · by_cases h : y < 0 <;> simp [h]

@[simp] theorem andThen_ok (v : Int) (env : Env) (f : Int → Env → Res × Env) :
    andThen (.ok v, env) f = f v env := rfl
@[simp] theorem andThen_err (er : Err) (env : Env) (f : Int → Env → Res × Env) :
    andThen (.err er, env) f = (.err er, env) := rfl
@[simp] theorem andThen_panic (env : Env) (f : Int → Env → Res × Env) :
    andThen (.panic, env) f = (.panic, env) := rfl

theorem andThen_ne_panic {p : Res × Env} {f : Int → Env → Res × Env}
    (hp : p.1 ≠ .panic) (hf : ∀ v env, (f v env).1 ≠ .panic) : (andThen p f).1 ≠ .panic := by
  obtain ⟨r, env⟩ := p
  cases r with
  | ok v => exact hf v env
  | err er => simp
  | panic => exact absurd rfl hp

theorem setVar_ne_panic (env : Env) (n : Bytes) (v : Int) : (setVar env n v).1 ≠ .panic := by
  unfold setVar; split <;> simp

theorem isNameWord_elim {x : Expr} (h : isNameWord x = true) : ∃ n, x = .word n ∧ validName n = true := by
  cases x <;> simp [isNameWord] at h
  exact ⟨_, rfl, h⟩

theorem binArit_ne_panic (op : BinOp) (x y : Int) : binArit op x y ≠ .panic := by
  cases op <;> simp [binArit] <;> split <;> simp

theorem isAssign_iff (op : BinOp) : isAssign op = true ↔ (op = .assgn ∨ (assignOp op).isSome = true) := by
  simp [isAssign]

theorem no_panic_both (e : Expr) :
    (∀ env, WF e = true → (evalArith env e).1 ≠ .panic) ∧
    (∀ env cond, WFColon e = true → (evalTernBranch env cond e).1 ≠ .panic) := by
  induction e with
  | word w => exact ⟨fun env _ => by simp [evalArith], fun env c h => by simp [WFColon] at h⟩
  | paren x ih =>
    refine ⟨fun env hwf => ?_, fun env c h => by simp [WFColon] at h⟩
    simp only [evalArith]; exact ih.1 env (by simpa [WF] using hwf)
  | unary op post x ih =>
    refine ⟨fun env hwf => ?_, fun env c h => by simp [WFColon] at h⟩
    by_cases hinc : op = .inc ∨ op = .dec
    · simp only [WF, hinc, if_true] at hwf
      obtain ⟨n, rfl, hvn⟩ := isNameWord_elim hwf
      rw [evalArith]
      simp only [hinc, if_true, wordOf_name hvn]
      exact andThen_ne_panic (setVar_ne_panic _ _ _) (fun _ _ => by simp)
    · simp only [WF, hinc, if_false, Bool.and_eq_true] at hwf
      rw [evalArith]
      simp only [hinc, if_false]
      refine andThen_ne_panic (ih.1 env hwf.2) (fun v env' => ?_)
      split <;> simp
  | binary op x y ihx ihy =>
    constructor
    · intro env hwf
      by_cases hass : isAssign op = true
      · have hass' := (isAssign_iff op).1 hass
        simp only [WF, hass', if_true, Bool.and_eq_true] at hwf
        obtain ⟨n, rfl, hvn⟩ := isNameWord_elim hwf.1
        rw [evalArith]
        simp only [hass, if_true, wordOf_name hvn]
        refine andThen_ne_panic (ihy.1 env hwf.2) (fun v env' => ?_)
        split
        · exact setVar_ne_panic _ _ _
        · split
          · exact setVar_ne_panic _ _ _
          · rename_i e hne _
            intro h
            exact binArit_ne_panic _ _ _ (by simpa using h)
      · have hass' : ¬ (op = .assgn ∨ (assignOp op).isSome = true) :=
          fun h => hass ((isAssign_iff op).2 h)
        simp only [WF, hass', if_false] at hwf
        rw [evalArith]
        simp only [hass, if_false]
        by_cases ht : op = .ternQuest
        · simp only [ht, if_true, Bool.and_eq_true] at hwf ⊢
          exact andThen_ne_panic (ihx.1 env hwf.1) (fun v env' => ihy.2 env' v hwf.2)
        · simp only [ht, if_false] at hwf ⊢
          by_cases hl : op = .andL ∨ op = .orL
          · simp only [hl, if_true, Bool.and_eq_true] at hwf ⊢
            refine andThen_ne_panic (ihx.1 env hwf.1) (fun v env' => ?_)
            split
            · simp
            · split
              · simp
              · exact andThen_ne_panic (ihy.1 env' hwf.2) (fun _ _ => by simp)
          · simp only [hl, if_false, Bool.and_eq_true] at hwf ⊢
            refine andThen_ne_panic (ihx.1 env hwf.1.2) (fun v env' => ?_)
            exact andThen_ne_panic (ihy.1 env' hwf.2) (fun _ _ => binArit_ne_panic _ _ _)
    · intro env c h
      simp only [WFColon, Bool.and_eq_true] at h
      rw [evalTernBranch]
      split
      · exact ihx.1 env h.1.2
      · exact ihy.1 env h.2

theorem no_panic_core (env : Env) (e : Expr) (hwf : WF e = true) : (evalArith env e).1 ≠ .panic :=
  (no_panic_both e).1 env hwf


/-! ### assignment operators -/

theorem chase_not_name (get : Bytes → Bytes) (k : Nat) (s : Bytes) (h : validName s = false) :
    chase get k s = s := by
  cases k <;> simp [chase, h]

theorem atoi_nil : atoi [] = 0 := by decide

theorem evalArith_word (env : Env) (w : Bytes) :
    evalArith env (.word w) = (.ok (atoi (chase env.get 99 w)), env) := by
  rw [evalArith]; rfl

theorem chase_succ (get : Bytes → Bytes) (k : Nat) (s : Bytes) :
    chase get (k + 1) s =
      if validName s then (if get s = [] then s else chase get k (get s)) else s := by
  rw [chase]

/-- A name whose value is not itself a name: the word rule reads it with `atoi`, like `op=`. -/
theorem evalArith_word_lval (env : Env) (x : Bytes) (hx : validName x = true)
    (hv : validName (env.get x) = false) :
    evalArith env (.word x) = (.ok (atoi (env.get x)), env) := by
  rw [evalArith_word, show (99 : Nat) = 98 + 1 from rfl, chase_succ, if_pos hx]
  by_cases he : env.get x = []
  · rw [if_pos he, he, atoi_name hx, atoi_nil]
  · rw [if_neg he, chase_not_name _ _ _ hv]

theorem assignOp_plain {op aop : BinOp} (h : assignOp op = some aop) :
    isAssign op = true ∧ isAssign aop = false ∧ aop ≠ .ternQuest ∧ ¬ (aop = .andL ∨ aop = .orL) := by
  cases op <;> simp [assignOp] at h <;> subst h <;> decide

theorem assign_ops_core (env : Env) (op aop : BinOp) (x : Bytes) (e : Expr)
    (hop : assignOp op = some aop) (hx : validName x = true)
    (hv : validName (env.get x) = false) :
    evalArith env (.binary op (.word x) e) =
      evalArith env (.binary .assgn (.word x) (.binary aop (.word x) e)) := by
  obtain ⟨h1, h2, h3, h4⟩ := assignOp_plain hop
  have hL : evalArith env (.binary op (.word x) e) =
      andThen (evalArith env e) fun arg env' =>
        match binArit aop (atoi (env.get x)) arg with
        | .ok v => setVar env' x v
        | r => (r, env') := by
    rw [evalArith]; simp only [h1, if_true, wordOf_name hx, hop]; rfl
  have hInner : evalArith env (.binary aop (.word x) e) =
      andThen (evalArith env e) fun right env'' => (binArit aop (atoi (env.get x)) right, env'') := by
    rw [evalArith]
    simp only [h2, Bool.false_eq_true, if_false, h3, h4, evalArith_word_lval env x hx hv, andThen_ok]
  have hR : evalArith env (.binary .assgn (.word x) (.binary aop (.word x) e)) =
      andThen (evalArith env (.binary aop (.word x) e)) fun arg env' => setVar env' x arg := by
    rw [evalArith]
    simp [isAssign, wordOf_name hx, assignOp]
  rw [hL, hR, hInner]
  cases hy : evalArith env e with
  | mk r env1 =>
    cases r with
    | ok arg =>
      simp only [andThen_ok]
      cases hb : binArit aop (atoi (env.get x)) arg with
      | ok v => simp
      | err er => simp
      | panic => simp
    | err er => simp
    | panic => simp

end ShVerif.C20
