import ShVerif.Proofs.C20Bin
/-
  C20 helper lemmas: status rules, error characterisation, absence of panics, assignment operators.
-/
namespace ShVerif.C20

theorem status_arithCmd_core (env : Env) (e : Expr) :
    (arithCmdStatus env e).1 = 0 ↔ ∃ v, (evalArith env e).1 = .ok v ∧ v ≠ 0 := by
  unfold arithCmdStatus runnerArithm
  cases h : evalArith env e with
  | mk r env' =>
    cases r with
    | ok v =>
      by_cases hv : v = 0
      · simp [hv]
      · simp [hv]
    | err er => simp
    | panic => simp

theorem letLoop_append (env : Env) (val : Int) (es : List Expr) (e : Expr) :
    letLoop env val (es ++ [e]) = ((runnerArithm (letLoop env val es).2 e).1,
      (runnerArithm (letLoop env val es).2 e).2) := by
  induction es generalizing env val with
  | nil => simp [letLoop]
  | cons a rest ih => simp only [List.cons_append, letLoop]; exact ih _ _

theorem status_let_core (env : Env) (es : List Expr) (e : Expr) :
    (letStatus env (es ++ [e])).1 = 0 ↔
      ∃ v, (evalArith (letLoop env 0 es).2 e).1 = .ok v ∧ v ≠ 0 := by
  unfold letStatus
  rw [letLoop_append]
  unfold runnerArithm
  cases h : evalArith (letLoop env 0 es).2 e with
  | mk r env' =>
    cases r with
    | ok v =>
      by_cases hv : v = 0
      · simp [hv]
      · simp [hv]
    | err er => simp
    | panic => simp

theorem errors_iff_binArit_core (op : BinOp) (x y : Int) (hop : plainBin op = true) :
    (∃ err, binArit op x y = .err err) ↔
      ((op = .quo ∨ op = .rem) ∧ y = 0) ∨ (op = .pow ∧ y < 0) := by
  cases op <;> simp [plainBin] at hop <;> simp [binArit]
  · by_cases h : y = 0 <;> simp [h]
  · by_cases h : y = 0 <;> simp [h]
  · by_cases h : y < 0 <;> simp [h]

end ShVerif.C20
