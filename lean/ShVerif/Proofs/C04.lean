import ShVerif.Model.C04
/-
  C04 — helper lemmas for Props/C04.lean.
-/
namespace ShVerif.C04

/-! ### B1. double-quoted literals -/

theorem dqValue_cons_ne (b : UInt8) (bs : Bytes) (h : b ≠ 92) :
    dqValue (b :: bs) = (dqValue bs).map (b :: ·) := by
  cases bs with
  | nil => simp [dqValue, h]
  | cons c rest => simp [dqValue, h]

theorem dqValue_bs_bs (bs : Bytes) : dqValue (92 :: 92 :: bs) = (dqValue bs).map (92 :: ·) := by
  simp [dqValue]

theorem dqValue_bs_special (c : UInt8) (bs : Bytes) (h : c = 36 ∨ c = 34 ∨ c = 96) :
    dqValue (92 :: c :: bs) = (dqValue bs).map (c :: ·) := by
  rcases h with h | h | h <;> subst h <;> simp [dqValue]

/-- The scanner agrees with the double-quote rules: with a pending backslash (`esc = true`) the
    text read so far is `\` followed by the rest. -/
theorem dqScan_value : ∀ (l : Bytes) (esc : Bool) (nv v : Bytes),
    dqScan esc l = some nv →
    dqValue (if esc then 92 :: l else l) = some v → nv = v := by
  intro l
  induction l with
  | nil =>
    intro esc nv v h1 h2
    cases esc <;> simp_all [dqScan, dqValue]
  | cons b bs ih =>
    intro esc nv v h1 h2
    by_cases hb : b = 92
    · subst hb
      cases esc with
      | false =>
        simp only [dqScan] at h1
        simp at h1
        exact ih true nv v h1 (by simpa using h2)
      | true =>
        simp only [dqScan] at h1
        simp at h1
        obtain ⟨r, hr, rfl⟩ := h1
        simp only [if_true, dqValue_bs_bs] at h2
        simp at h2
        obtain ⟨r', hr', rfl⟩ := h2
        rw [ih false r r' hr (by simpa using hr')]
    · by_cases hq : b = 39
      · subst hq; simp [dqScan] at h1
      · by_cases hs : (b = 36 ∨ b = 34 ∨ b = 96)
        · have h1' : (dqScan false bs).map (b :: ·) = some nv := by
            rcases hs with h | h | h <;> subst h <;> simpa [dqScan] using h1
          simp at h1'
          obtain ⟨r, hr, rfl⟩ := h1'
          cases esc with
          | false =>
            simp only [Bool.false_eq_true, if_false] at h2
            rw [dqValue_cons_ne b bs hb] at h2
            simp at h2
            obtain ⟨r', hr', rfl⟩ := h2
            rw [ih false r r' hr (by simpa using hr')]
          | true =>
            simp only [if_true] at h2
            rw [dqValue_bs_special b bs hs] at h2
            simp at h2
            obtain ⟨r', hr', rfl⟩ := h2
            rw [ih false r r' hr (by simpa using hr')]
        · have hs' : b ≠ 36 ∧ b ≠ 34 ∧ b ≠ 96 := by
            refine ⟨fun h => hs (Or.inl h), fun h => hs (Or.inr (Or.inl h)), fun h => hs (Or.inr (Or.inr h))⟩
          cases esc with
          | true => simp [dqScan, hb, hq, hs'.1, hs'.2.1, hs'.2.2] at h1
          | false =>
            have h1' : (dqScan false bs).map (b :: ·) = some nv := by
              simpa [dqScan, hb, hq, hs'.1, hs'.2.1, hs'.2.2] using h1
            simp at h1'
            obtain ⟨r, hr, rfl⟩ := h1'
            simp only [Bool.false_eq_true, if_false] at h2
            rw [dqValue_cons_ne b bs hb] at h2
            simp at h2
            obtain ⟨r', hr', rfl⟩ := h2
            rw [ih false r r' hr (by simpa using hr')]

section TestSem
open Test

/-! ### B3. [[ ]] -/

theorem eval_strip (S : TSem) : ∀ x : Test, S.eval (strip x) = S.eval x := by
  intro x
  induction x with
  | paren x ih => simpa [strip, TSem.eval] using ih
  | _ => rfl

theorem value_unqW (S : TSem) (w : TWord) : S.value (unqW w) = S.value w := by
  cases w <;> rfl

theorem eval_unquote (S : TSem) (x : Test) : S.eval (unquote x) = S.eval x := by
  cases x with
  | word w => simp only [unquote, TSem.eval, value_unqW S w]
  | _ => rfl

theorem bne_nil (l : Bytes) : (l != []) = !(l == []) := by cases l <;> rfl

theorem eval_removeNegate (S : TSem) (x : Test) : S.eval (removeNegate x) = S.eval x := by
  cases x with
  | not y =>
    cases y with
    | un yop w =>
      simp only [removeNegate]
      by_cases h1 : yop = tsEmpStr
      · subst h1; simp only [TSem.eval, tsEmpStr, tsNempStr, if_true]; simp [bne_nil]
      · by_cases h2 : yop = tsNempStr
        · subst h2; simp [TSem.eval, tsEmpStr, tsNempStr, bne_nil]
        · simp [h1, h2]
    | not x => simp [removeNegate, TSem.eval]
    | bin yop a b =>
      simp only [removeNegate]
      by_cases h1 : yop = tsMatch
      · subst h1; simp [TSem.eval, tsMatch, tsNoMatch, tsMatchShort]
      · by_cases h2 : yop = tsNoMatch
        · subst h2; simp [TSem.eval, tsMatch, tsNoMatch, tsMatchShort]
        · simp [h1, h2]
    | _ => rfl
  | _ => rfl

theorem eval_walk (S : TSem) : ∀ (f : Nat) (x : Test), S.eval (walk f x) = S.eval x := by
  intro f
  induction f with
  | zero => intro x; rfl
  | succ f ih =>
    intro x
    cases x with
    | word w => rfl
    | paren x => simp only [walk, TSem.eval, ih, eval_removeNegate, eval_strip]
    | not x => simp only [walk, TSem.eval, ih, eval_unquote]
    | un op w => simp only [walk, TSem.eval, value_unqW]
    | logic c x y => simp only [walk, TSem.eval, ih, eval_removeNegate, eval_unquote]
    | bin op a b =>
      simp only [walk]
      by_cases hs : op = tsMatchShort
      · subst hs
        simp [TSem.eval, noUnquoteRhs, tsMatch, tsMatchShort, value_unqW]
      · simp only [hs, if_false]
        by_cases hn : noUnquoteRhs op = true
        · simp only [hn, if_true, TSem.eval, value_unqW]
        · have hn' : noUnquoteRhs op = false := by simpa using hn
          have h4 : op ≠ tsMatch := by intro h; subst h; simp [noUnquoteRhs] at hn'
          have h5 : op ≠ tsNoMatch := by intro h; subst h; simp [noUnquoteRhs] at hn'
          have h7 : op ≠ tsReMatch := by intro h; subst h; simp [noUnquoteRhs] at hn'
          simp [hn', TSem.eval, value_unqW, h4, h5, h7, hs]

theorem eval_top (S : TSem) (x : Test) : S.eval (top x) = S.eval x := by
  rw [top, eval_walk, eval_removeNegate, eval_strip]

end TestSem

section ArithInterp
open Arith

/-! ### B2. arithmetic, interpreter -/

theorem deref_not_name (env : Env) (k : Nat) (s : Bytes) (h : validName s = false) :
    deref env k s = s := by
  cases k <;> simp [deref, h]

theorem deref_succ (env : Env) (k : Nat) (n : Bytes) (h : validName n = true) :
    deref env (k+1) n = if env n = [] then n else if k = 0 then n else deref env k (env n) := by
  simp [deref, h]

theorem deref_name (env : Env) (n : Bytes) (h : validName n = true) :
    deref env maxNameRefDepth n = if env n = [] then n else deref env 99 (env n) := by
  have e : maxNameRefDepth = 99 + 1 := rfl
  rw [e, deref_succ env 99 n h]
  simp

theorem evalI_inline (P : Prims) (hP : P.Lawful) (env : Env) (hE : env.NoNames) (e : Arith) :
    evalI P env (Arith.inline e) = evalI P env e := by
  cases e with
  | dollar b n =>
    simp only [Arith.inline]
    by_cases hv : validName n = true
    · simp only [hv, if_true, evalI]
      have h1 := deref_not_name env maxNameRefDepth (env n) (hE n)
      have h2 := deref_not_name env 99 (env n) (hE n)
      rw [deref_name env n hv, h1]
      by_cases he : env n = []
      · simp [he, hP.atoi_name n hv]
      · simp [he, h2]
    · simp [hv]
  | _ => rfl

theorem noNames_set (P : Prims) (hP : P.Lawful) (env : Env) (hE : env.NoNames) (n : Bytes) (k : Int) :
    (env.set n (P.fmt k)).NoNames := by
  intro m
  unfold Env.set
  by_cases h : m = n
  · simp [h, hP.fmt_not_name]
  · simp [h, hE m]

theorem evalI_noNames (P : Prims) (hP : P.Lawful) : ∀ (e : Arith) (env : Env) (v : Int) (env' : Env),
    env.NoNames → evalI P env e = some (v, env') → env'.NoNames := by
  intro e
  induction e with
  | lit w => intro env v env' hE h; simp [evalI] at h; rw [← h.2]; exact hE
  | dollar b n => intro env v env' hE h; simp [evalI] at h; rw [← h.2]; exact hE
  | paren x ih => intro env v env' hE h; simp only [evalI] at h; exact ih env v env' hE h
  | unary op post x ih =>
    intro env v env' hE h
    simp only [evalI] at h
    cases hd : P.incDec op with
    | some d =>
      rw [hd] at h
      cases x with
      | lit name =>
        simp at h
        rw [← h.2]
        exact noNames_set P hP env hE _ _
      | _ => simp at h
    | none =>
      rw [hd] at h
      try simp only at h
      cases hx : evalI P env x with
      | none => rw [hx] at h; simp at h
      | some r =>
        obtain ⟨v1, env1⟩ := r
        rw [hx] at h
        simp at h
        obtain ⟨_, _, _, rfl⟩ := h
        exact ih env v1 env1 hE hx
  | tern c a b ihc iha ihb =>
    intro env v env' hE h
    simp only [evalI] at h
    cases hx : evalI P env c with
    | none => rw [hx] at h; simp at h
    | some r =>
      obtain ⟨cv, env1⟩ := r
      rw [hx] at h
      try simp only at h
      have hE1 := ihc env cv env1 hE hx
      by_cases hc0 : cv ≠ 0
      · rw [if_pos hc0] at h
        exact iha env1 v env' hE1 h
      · rw [if_neg hc0] at h
        exact ihb env1 v env' hE1 h
  | binary op x y ihx ihy =>
    intro env v env' hE h
    simp only [evalI] at h
    cases ha : P.assignOp op with
    | some f =>
      rw [ha] at h
      cases x with
      | lit name =>
        try simp only at h
        cases hy : evalI P env y with
        | none => rw [hy] at h; simp at h
        | some r =>
          obtain ⟨arg, env1⟩ := r
          rw [hy] at h
          try simp only at h
          cases hf : f (P.atoi (env name)) arg with
          | none => rw [hf] at h; simp at h
          | some val =>
            rw [hf] at h
            simp at h
            rw [← h.2]
            exact noNames_set P hP env1 (ihy env arg env1 hE hy) _ _
      | _ => simp at h
    | none =>
      rw [ha] at h
      try simp only at h
      cases hx : evalI P env x with
      | none => rw [hx] at h; simp at h
      | some r =>
        obtain ⟨l, env1⟩ := r
        rw [hx] at h
        try simp only at h
        have hE1 := ihx env l env1 hE hx
        by_cases hand : P.isAnd op = true
        · simp only [hand, if_true] at h
          by_cases hl : l = 0
          · simp [hl] at h; rw [← h.2]; exact hE1
          · rw [if_neg hl] at h
            cases hy : evalI P env1 y with
            | none => rw [hy] at h; simp at h
            | some r2 =>
              obtain ⟨r, env2⟩ := r2
              rw [hy] at h
              simp at h
              rw [← h.2]
              exact ihy env1 r env2 hE1 hy
        · simp only [hand] at h
          by_cases hor : P.isOr op = true
          · simp only [hor, if_true] at h
            by_cases hl : l ≠ 0
            · simp [hl] at h; rw [← h.2]; exact hE1
            · rw [if_neg hl] at h
              cases hy : evalI P env1 y with
              | none => rw [hy] at h; simp at h
              | some r2 =>
                obtain ⟨r, env2⟩ := r2
                rw [hy] at h
                simp at h
                rw [← h.2]
                exact ihy env1 r env2 hE1 hy
          · simp only [hor] at h
            cases hy : evalI P env1 y with
            | none => rw [hy] at h; simp at h
            | some r2 =>
              obtain ⟨r, env2⟩ := r2
              rw [hy] at h
              simp at h
              obtain ⟨_, _, _, rfl⟩ := h
              exact ihy env1 r env2 hE1 hy


/-- evaluation only looks at the results of the operands: congruence for `binary`. -/
theorem evalI_binary_congr (P : Prims) (hP : P.Lawful) (op : Nat) (x x' y y' : Arith)
    (hx : ∀ env, env.NoNames → evalI P env x' = evalI P env x)
    (hy : ∀ env, env.NoNames → evalI P env y' = evalI P env y)
    (hl : ∀ n, x = .lit n → x' = .lit n)
    (hw : (P.assignOp op).isSome → ∃ n, x = .lit n)
    (env : Env) (hE : env.NoNames) :
    evalI P env (.binary op x' y') = evalI P env (.binary op x y) := by
  simp only [evalI]
  cases ha : P.assignOp op with
  | some f =>
    obtain ⟨n, rfl⟩ := hw (by simp [ha])
    rw [hl n rfl]
    simp only [hy env hE]
  | none =>
    simp only [hx env hE]
    cases hxe : evalI P env x with
    | none => rfl
    | some r =>
      obtain ⟨l, env1⟩ := r
      have hE1 := evalI_noNames P hP x env l env1 hE hxe
      simp only [hy env1 hE1]

theorem walkInl_lit (x : Arith) (n : Bytes) (h : x = .lit n) : x.walkInl = .lit n := by
  subst h; rfl

theorem evalI_simpl (P : Prims) (hP : P.Lawful) : ∀ e : Arith, e.WF P → ∀ env : Env, env.NoNames →
    (evalI P env e.top = evalI P env e ∧ evalI P env e.walk = evalI P env e ∧
     evalI P env e.walkInl = evalI P env e) := by
  intro e
  induction e with
  | lit v => intro _ env _; exact ⟨rfl, rfl, rfl⟩
  | dollar b n =>
    intro _ env hE
    exact ⟨evalI_inline P hP env hE _, rfl, evalI_inline P hP env hE _⟩
  | paren x ih =>
    intro hw env hE
    have := ih hw env hE
    refine ⟨?_, ?_, ?_⟩
    · simpa [Arith.top, evalI] using this.1
    · simpa [Arith.walk, evalI] using this.1
    · simpa [Arith.walkInl, evalI] using this.1
  | unary op post x ih =>
    intro hw env hE
    have hx : evalI P env (.unary op post x.walk) = evalI P env (.unary op post x) := by
      simp only [evalI]
      cases hd : P.incDec op with
      | some d =>
        obtain ⟨n, rfl⟩ := hw.1 (by simp [hd])
        rfl
      | none => simp only [(ih hw.2 env hE).2.1]
    exact ⟨hx, hx, hx⟩
  | tern c a b ihc iha ihb =>
    intro hw env hE
    have h : evalI P env (.tern c.walkInl a.walkInl b.walkInl) = evalI P env (.tern c a b) := by
      simp only [evalI, (ihc hw.1 env hE).2.2]
      cases hce : evalI P env c with
      | none => rfl
      | some r =>
        obtain ⟨v, env1⟩ := r
        have hE1 := evalI_noNames P hP c env v env1 hE hce
        simp only [(iha hw.2.1 env1 hE1).2.2, (ihb hw.2.2 env1 hE1).2.2]
    exact ⟨h, h, h⟩
  | binary op x y ihx ihy =>
    intro hw env hE
    have h : evalI P env (.binary op x.walkInl y.walkInl) = evalI P env (.binary op x y) := by
      apply evalI_binary_congr P hP op x x.walkInl y y.walkInl
      · intro env hE; exact (ihx hw.2.1 env hE).2.2
      · intro env hE; exact (ihy hw.2.2 env hE).2.2
      · intro n hn; exact walkInl_lit x n hn
      · exact hw.1
      · exact hE
    exact ⟨h, h, h⟩

/-! Generalisation: any invariant `Q` of environments that assignments of formatted integers keep. -/

theorem evalI_pres (P : Prims) (Q : Env → Prop)
    (hQ : ∀ (env : Env) (n : Bytes) (k : Int), Q env → Q (env.set n (P.fmt k))) : ∀ (e : Arith) (env : Env) (v : Int) (env' : Env),
    Q env → evalI P env e = some (v, env') → Q env' := by
  intro e
  induction e with
  | lit w => intro env v env' hE h; simp [evalI] at h; rw [← h.2]; exact hE
  | dollar b n => intro env v env' hE h; simp [evalI] at h; rw [← h.2]; exact hE
  | paren x ih => intro env v env' hE h; simp only [evalI] at h; exact ih env v env' hE h
  | unary op post x ih =>
    intro env v env' hE h
    simp only [evalI] at h
    cases hd : P.incDec op with
    | some d =>
      rw [hd] at h
      cases x with
      | lit name =>
        simp at h
        rw [← h.2]
        exact hQ env _ _ hE
      | _ => simp at h
    | none =>
      rw [hd] at h
      try simp only at h
      cases hx : evalI P env x with
      | none => rw [hx] at h; simp at h
      | some r =>
        obtain ⟨v1, env1⟩ := r
        rw [hx] at h
        simp at h
        obtain ⟨_, _, _, rfl⟩ := h
        exact ih env v1 env1 hE hx
  | tern c a b ihc iha ihb =>
    intro env v env' hE h
    simp only [evalI] at h
    cases hx : evalI P env c with
    | none => rw [hx] at h; simp at h
    | some r =>
      obtain ⟨cv, env1⟩ := r
      rw [hx] at h
      try simp only at h
      have hE1 := ihc env cv env1 hE hx
      by_cases hc0 : cv ≠ 0
      · rw [if_pos hc0] at h
        exact iha env1 v env' hE1 h
      · rw [if_neg hc0] at h
        exact ihb env1 v env' hE1 h
  | binary op x y ihx ihy =>
    intro env v env' hE h
    simp only [evalI] at h
    cases ha : P.assignOp op with
    | some f =>
      rw [ha] at h
      cases x with
      | lit name =>
        try simp only at h
        cases hy : evalI P env y with
        | none => rw [hy] at h; simp at h
        | some r =>
          obtain ⟨arg, env1⟩ := r
          rw [hy] at h
          try simp only at h
          cases hf : f (P.atoi (env name)) arg with
          | none => rw [hf] at h; simp at h
          | some val =>
            rw [hf] at h
            simp at h
            rw [← h.2]
            exact hQ env1 _ _ (ihy env arg env1 hE hy)
      | _ => simp at h
    | none =>
      rw [ha] at h
      try simp only at h
      cases hx : evalI P env x with
      | none => rw [hx] at h; simp at h
      | some r =>
        obtain ⟨l, env1⟩ := r
        rw [hx] at h
        try simp only at h
        have hE1 := ihx env l env1 hE hx
        by_cases hand : P.isAnd op = true
        · simp only [hand, if_true] at h
          by_cases hl : l = 0
          · simp [hl] at h; rw [← h.2]; exact hE1
          · rw [if_neg hl] at h
            cases hy : evalI P env1 y with
            | none => rw [hy] at h; simp at h
            | some r2 =>
              obtain ⟨r, env2⟩ := r2
              rw [hy] at h
              simp at h
              rw [← h.2]
              exact ihy env1 r env2 hE1 hy
        · simp only [hand] at h
          by_cases hor : P.isOr op = true
          · simp only [hor, if_true] at h
            by_cases hl : l ≠ 0
            · simp [hl] at h; rw [← h.2]; exact hE1
            · rw [if_neg hl] at h
              cases hy : evalI P env1 y with
              | none => rw [hy] at h; simp at h
              | some r2 =>
                obtain ⟨r, env2⟩ := r2
                rw [hy] at h
                simp at h
                rw [← h.2]
                exact ihy env1 r env2 hE1 hy
          · simp only [hor] at h
            cases hy : evalI P env1 y with
            | none => rw [hy] at h; simp at h
            | some r2 =>
              obtain ⟨r, env2⟩ := r2
              rw [hy] at h
              simp at h
              obtain ⟨_, _, _, rfl⟩ := h
              exact ihy env1 r env2 hE1 hy


/-- evaluation only looks at the results of the operands: congruence for `binary`. -/
theorem evalI_binary_congr_Q (P : Prims) (Q : Env → Prop)
    (hQ : ∀ (env : Env) (n : Bytes) (k : Int), Q env → Q (env.set n (P.fmt k))) (op : Nat) (x x' y y' : Arith)
    (hx : ∀ env, Q env → evalI P env x' = evalI P env x)
    (hy : ∀ env, Q env → evalI P env y' = evalI P env y)
    (hl : ∀ n, x = .lit n → x' = .lit n)
    (hw : (P.assignOp op).isSome → ∃ n, x = .lit n)
    (env : Env) (hE : Q env) :
    evalI P env (.binary op x' y') = evalI P env (.binary op x y) := by
  simp only [evalI]
  cases ha : P.assignOp op with
  | some f =>
    obtain ⟨n, rfl⟩ := hw (by simp [ha])
    rw [hl n rfl]
    simp only [hy env hE]
  | none =>
    simp only [hx env hE]
    cases hxe : evalI P env x with
    | none => rfl
    | some r =>
      obtain ⟨l, env1⟩ := r
      have hE1 := evalI_pres P Q hQ x env l env1 hE hxe
      simp only [hy env1 hE1]


/-- The names in `D` do not hold names. -/
def NoNamesOn (D : List Bytes) (env : Env) : Prop := ∀ m, m ∈ D → validName (env m) = false

theorem noNamesOn_set (P : Prims) (hP : P.Lawful) (D : List Bytes) (env : Env) (n : Bytes) (k : Int)
    (hE : NoNamesOn D env) : NoNamesOn D (env.set n (P.fmt k)) := by
  intro m hm
  unfold Env.set
  by_cases h : m = n
  · simp [h, hP.fmt_not_name]
  · simp [h, hE m hm]

theorem evalI_inline_on (P : Prims) (hP : P.Lawful) (env : Env) (e : Arith)
    (hE : ∀ n, n ∈ e.dollars → validName (env n) = false) :
    evalI P env (Arith.inline e) = evalI P env e := by
  cases e with
  | dollar b n =>
    have hn := hE n (by simp [Arith.dollars])
    simp only [Arith.inline]
    by_cases hv : validName n = true
    · simp only [hv, if_true, evalI]
      have h1 := deref_not_name env maxNameRefDepth (env n) hn
      have h2 := deref_not_name env 99 (env n) hn
      rw [deref_name env n hv, h1]
      by_cases he : env n = []
      · simp [he, hP.atoi_name n hv]
      · simp [he, h2]
    · simp [hv]
  | _ => rfl

theorem evalI_simpl_on (P : Prims) (hP : P.Lawful) (D : List Bytes) : ∀ e : Arith, e.WF P →
    (∀ n, n ∈ e.dollars → n ∈ D) → ∀ env : Env, NoNamesOn D env →
    (evalI P env e.top = evalI P env e ∧ evalI P env e.walk = evalI P env e ∧
     evalI P env e.walkInl = evalI P env e) := by
  have hQ := fun env n k h => noNamesOn_set P hP D env n k h
  intro e
  induction e with
  | lit v => intro _ _ env _; exact ⟨rfl, rfl, rfl⟩
  | dollar b n =>
    intro _ hd env hE
    have := evalI_inline_on P hP env (.dollar b n) (fun m hm => hE m (hd m hm))
    exact ⟨this, rfl, this⟩
  | paren x ih =>
    intro hw hd env hE
    have := ih hw hd env hE
    refine ⟨?_, ?_, ?_⟩
    · simpa [Arith.top, evalI] using this.1
    · simpa [Arith.walk, evalI] using this.1
    · simpa [Arith.walkInl, evalI] using this.1
  | unary op post x ih =>
    intro hw hd env hE
    have hx : evalI P env (.unary op post x.walk) = evalI P env (.unary op post x) := by
      simp only [evalI]
      cases hdd : P.incDec op with
      | some d =>
        obtain ⟨n, rfl⟩ := hw.1 (by simp [hdd])
        rfl
      | none => simp only [(ih hw.2 hd env hE).2.1]
    exact ⟨hx, hx, hx⟩
  | tern c a b ihc iha ihb =>
    intro hw hd env hE
    have hdc : ∀ n, n ∈ c.dollars → n ∈ D := fun n hn => hd n (by simp [Arith.dollars, hn])
    have hda : ∀ n, n ∈ a.dollars → n ∈ D := fun n hn => hd n (by simp [Arith.dollars, hn])
    have hdb : ∀ n, n ∈ b.dollars → n ∈ D := fun n hn => hd n (by simp [Arith.dollars, hn])
    have h : evalI P env (.tern c.walkInl a.walkInl b.walkInl) = evalI P env (.tern c a b) := by
      simp only [evalI, (ihc hw.1 hdc env hE).2.2]
      cases hce : evalI P env c with
      | none => rfl
      | some r =>
        obtain ⟨v, env1⟩ := r
        have hE1 := evalI_pres P (NoNamesOn D) hQ c env v env1 hE hce
        simp only [(iha hw.2.1 hda env1 hE1).2.2, (ihb hw.2.2 hdb env1 hE1).2.2]
    exact ⟨h, h, h⟩
  | binary op x y ihx ihy =>
    intro hw hd env hE
    have hdx : ∀ n, n ∈ x.dollars → n ∈ D := fun n hn => hd n (by simp [Arith.dollars, hn])
    have hdy : ∀ n, n ∈ y.dollars → n ∈ D := fun n hn => hd n (by simp [Arith.dollars, hn])
    have h : evalI P env (.binary op x.walkInl y.walkInl) = evalI P env (.binary op x y) := by
      apply evalI_binary_congr_Q P (NoNamesOn D) hQ op x x.walkInl y y.walkInl
      · intro env hE; exact (ihx hw.2.1 hdx env hE).2.2
      · intro env hE; exact (ihy hw.2.2 hdy env hE).2.2
      · intro n hn; exact walkInl_lit x n hn
      · exact hw.1
      · exact hE
    exact ⟨h, h, h⟩

end ArithInterp

section ArithBash
open Arith

/-! ### B2'. arithmetic, bash with integer-valued variables -/

theorem evalB_frame (P : Prims) (env0 : IEnv) : ∀ (e : Arith) (env : IEnv) (v : Int) (env' : IEnv),
    evalB P env0 env e = some (v, env') → ∀ n, n ∉ e.assigned P → env' n = env n := by
  intro e
  induction e with
  | lit w => intro env v env' h n _; simp [evalB] at h; rw [← h.2]
  | dollar b m => intro env v env' h n _; simp [evalB] at h; rw [← h.2]
  | paren x ih => intro env v env' h n hn; simp only [evalB] at h; exact ih env v env' h n (by simpa [Arith.assigned] using hn)
  | unary op post x ih =>
    intro env v env' h n hn
    simp only [evalB] at h
    cases hd : P.incDec op with
    | some d =>
      rw [hd] at h
      cases x with
      | lit name =>
        simp at h
        rw [← h.2]
        have : n ≠ name := by
          intro e; subst e
          simp [Arith.assigned, hd] at hn
        simp [IEnv.set, this]
      | _ => simp at h
    | none =>
      rw [hd] at h
      try simp only at h
      cases hx : evalB P env0 env x with
      | none => rw [hx] at h; simp at h
      | some r =>
        obtain ⟨v1, env1⟩ := r
        rw [hx] at h
        simp at h
        obtain ⟨_, _, _, rfl⟩ := h
        exact ih env v1 env1 hx n (by
          intro hm; apply hn; simp [Arith.assigned, hm])
  | tern c a b ihc iha ihb =>
    intro env v env' h n hn
    simp only [Arith.assigned, List.mem_append, not_or] at hn
    simp only [evalB] at h
    cases hx : evalB P env0 env c with
    | none => rw [hx] at h; simp at h
    | some r =>
      obtain ⟨cv, env1⟩ := r
      rw [hx] at h
      try simp only at h
      have h1 := ihc env cv env1 hx n hn.1.1
      by_cases hc0 : cv ≠ 0
      · rw [if_pos hc0] at h
        rw [iha env1 v env' h n hn.1.2, h1]
      · rw [if_neg hc0] at h
        rw [ihb env1 v env' h n hn.2, h1]
  | binary op x y ihx ihy =>
    intro env v env' h n hn
    simp only [evalB] at h
    cases ha : P.assignOp op with
    | some f =>
      rw [ha] at h
      cases x with
      | lit name =>
        try simp only at h
        simp only [Arith.assigned, ha, List.mem_append, not_or] at hn
        cases hy : evalB P env0 env y with
        | none => rw [hy] at h; simp at h
        | some r =>
          obtain ⟨arg, env1⟩ := r
          rw [hy] at h
          try simp only at h
          cases hf : f (env name) arg with
          | none => rw [hf] at h; simp at h
          | some val =>
            rw [hf] at h
            simp at h
            rw [← h.2]
            have hne : n ≠ name := by intro e; subst e; simp at hn
            simp only [IEnv.set, hne, if_false]
            exact ihy env arg env1 hy n hn.2
      | _ => simp at h
    | none =>
      rw [ha] at h
      try simp only at h
      have hnx : n ∉ x.assigned P := by intro hm; apply hn; simp [Arith.assigned, hm]
      have hny : n ∉ y.assigned P := by intro hm; apply hn; simp [Arith.assigned, hm]
      cases hx : evalB P env0 env x with
      | none => rw [hx] at h; simp at h
      | some r =>
        obtain ⟨l, env1⟩ := r
        rw [hx] at h
        try simp only at h
        have h1 := ihx env l env1 hx n hnx
        by_cases hand : P.isAnd op = true
        · simp only [hand, if_true] at h
          by_cases hl : l = 0
          · simp [hl] at h; rw [← h.2]; exact h1
          · rw [if_neg hl] at h
            cases hy : evalB P env0 env1 y with
            | none => rw [hy] at h; simp at h
            | some r2 =>
              obtain ⟨r, env2⟩ := r2
              rw [hy] at h
              simp at h
              rw [← h.2, ihy env1 r env2 hy n hny, h1]
        · simp only [hand] at h
          by_cases hor : P.isOr op = true
          · simp only [hor, if_true] at h
            by_cases hl : l ≠ 0
            · simp [hl] at h; rw [← h.2]; exact h1
            · rw [if_neg hl] at h
              cases hy : evalB P env0 env1 y with
              | none => rw [hy] at h; simp at h
              | some r2 =>
                obtain ⟨r, env2⟩ := r2
                rw [hy] at h
                simp at h
                rw [← h.2, ihy env1 r env2 hy n hny, h1]
          · simp only [hor] at h
            cases hy : evalB P env0 env1 y with
            | none => rw [hy] at h; simp at h
            | some r2 =>
              obtain ⟨r, env2⟩ := r2
              rw [hy] at h
              simp at h
              obtain ⟨_, _, _, rfl⟩ := h
              rw [ihy env1 r env2 hy n hny, h1]


theorem evalB_inline (P : Prims) (env0 env : IEnv) (e : Arith)
    (h : ∀ n, n ∈ e.dollars → validName n = true → env n = env0 n) :
    evalB P env0 env (Arith.inline e) = evalB P env0 env e := by
  cases e with
  | dollar b n =>
    simp only [Arith.inline]
    by_cases hv : validName n = true
    · simp [hv, evalB, h n (by simp [Arith.dollars]) hv]
    · simp [hv]
  | _ => rfl

theorem evalB_simpl (P : Prims) (env0 : IEnv) (D : List Bytes) : ∀ e : Arith, e.WF P →
    (∀ n, n ∈ e.dollars → validName n = true → n ∈ D) → (∀ n, n ∈ D → n ∉ e.assigned P) →
    ∀ env : IEnv, (∀ n, n ∈ D → env n = env0 n) →
    (evalB P env0 env e.top = evalB P env0 env e ∧ evalB P env0 env e.walk = evalB P env0 env e ∧
     evalB P env0 env e.walkInl = evalB P env0 env e) := by
  intro e
  induction e with
  | lit v => intro _ _ _ env _; exact ⟨rfl, rfl, rfl⟩
  | dollar b n =>
    intro _ hd _ env hE
    have := evalB_inline P env0 env (.dollar b n) (fun m hm hv => hE m (hd m hm hv))
    exact ⟨this, rfl, this⟩
  | paren x ih =>
    intro hw hd ha env hE
    have := ih hw hd ha env hE
    refine ⟨?_, ?_, ?_⟩
    · simpa [Arith.top, evalB] using this.1
    · simpa [Arith.walk, evalB] using this.1
    · simpa [Arith.walkInl, evalB] using this.1
  | unary op post x ih =>
    intro hw hd ha env hE
    have hx : evalB P env0 env (.unary op post x.walk) = evalB P env0 env (.unary op post x) := by
      simp only [evalB]
      cases hdd : P.incDec op with
      | some d =>
        obtain ⟨n, rfl⟩ := hw.1 (by simp [hdd])
        rfl
      | none =>
        have := ih hw.2 hd (fun n hn hm => ha n hn (by simp [Arith.assigned, hm])) env hE
        simp only [this.2.1]
    exact ⟨hx, hx, hx⟩
  | tern c a b ihc iha ihb =>
    intro hw hd ha env hE
    have hdc : ∀ n, n ∈ c.dollars → validName n = true → n ∈ D := fun n hn hv => hd n (by simp [Arith.dollars, hn]) hv
    have hda : ∀ n, n ∈ a.dollars → validName n = true → n ∈ D := fun n hn hv => hd n (by simp [Arith.dollars, hn]) hv
    have hdb : ∀ n, n ∈ b.dollars → validName n = true → n ∈ D := fun n hn hv => hd n (by simp [Arith.dollars, hn]) hv
    have hac : ∀ n, n ∈ D → n ∉ c.assigned P := fun n hn hm => ha n hn (by simp [Arith.assigned, hm])
    have haa : ∀ n, n ∈ D → n ∉ a.assigned P := fun n hn hm => ha n hn (by simp [Arith.assigned, hm])
    have hab : ∀ n, n ∈ D → n ∉ b.assigned P := fun n hn hm => ha n hn (by simp [Arith.assigned, hm])
    have h : evalB P env0 env (.tern c.walkInl a.walkInl b.walkInl) = evalB P env0 env (.tern c a b) := by
      simp only [evalB, (ihc hw.1 hdc hac env hE).2.2]
      cases hce : evalB P env0 env c with
      | none => rfl
      | some r =>
        obtain ⟨v, env1⟩ := r
        have hE1 : ∀ n, n ∈ D → env1 n = env0 n := fun n hn => by
          rw [evalB_frame P env0 c env v env1 hce n (hac n hn)]; exact hE n hn
        simp only [(iha hw.2.1 hda haa env1 hE1).2.2, (ihb hw.2.2 hdb hab env1 hE1).2.2]
    exact ⟨h, h, h⟩
  | binary op x y ihx ihy =>
    intro hw hd ha env hE
    have hdx : ∀ n, n ∈ x.dollars → validName n = true → n ∈ D := fun n hn hv => hd n (by simp [Arith.dollars, hn]) hv
    have hdy : ∀ n, n ∈ y.dollars → validName n = true → n ∈ D := fun n hn hv => hd n (by simp [Arith.dollars, hn]) hv
    have hax : ∀ n, n ∈ D → n ∉ x.assigned P := fun n hn hm => ha n hn (by simp [Arith.assigned, hm])
    have hay : ∀ n, n ∈ D → n ∉ y.assigned P := fun n hn hm => ha n hn (by simp [Arith.assigned, hm])
    have h : evalB P env0 env (.binary op x.walkInl y.walkInl) = evalB P env0 env (.binary op x y) := by
      simp only [evalB]
      cases hao : P.assignOp op with
      | some f =>
        obtain ⟨n, rfl⟩ := hw.1 (by simp [hao])
        simp only [Arith.walkInl, (ihy hw.2.2 hdy hay env hE).2.2]
      | none =>
        simp only [(ihx hw.2.1 hdx hax env hE).2.2]
        cases hxe : evalB P env0 env x with
        | none => rfl
        | some r =>
          obtain ⟨l, env1⟩ := r
          have hE1 : ∀ n, n ∈ D → env1 n = env0 n := fun n hn => by
            rw [evalB_frame P env0 x env l env1 hxe n (hax n hn)]; exact hE n hn
          simp only [(ihy hw.2.2 hdy hay env1 hE1).2.2]
    exact ⟨h, h, h⟩

end ArithBash

/-! ### B4. nested subshells -/

theorem runCmd_sub_sub (inner : List Stmt) (s : ShState) :
    runCmd (.sub [.mk false false (.sub inner)]) s = runCmd (.sub inner) s := by
  simp [runCmd, runStmts, runStmt]

theorem runCmd_inlineSub : ∀ (f : Nat) (stmts : List Stmt) (s : ShState),
    runCmd (.sub (inlineSub f stmts)) s = runCmd (.sub stmts) s := by
  intro f
  induction f with
  | zero => intro stmts s; rfl
  | succ f ih =>
    intro stmts s
    simp only [inlineSub]
    split
    · rename_i inner
      rw [ih inner s, runCmd_sub_sub]
    · rfl

theorem cmdSubst_sub (inner : List Stmt) (s : ShState) :
    cmdSubst [.mk false false (.sub inner)] s = cmdSubst inner s := by
  simp [cmdSubst, runCmd, runStmts, runStmt]

theorem cmdSubst_inlineSub : ∀ (f : Nat) (stmts : List Stmt) (s : ShState),
    cmdSubst (inlineSub f stmts) s = cmdSubst stmts s := by
  intro f
  induction f with
  | zero => intro stmts s; rfl
  | succ f ih =>
    intro stmts s
    simp only [inlineSub]
    split
    · rename_i inner
      rw [ih inner s, cmdSubst_sub]
    · rfl


/-! ### concrete primitives are lawful -/

theorem letter_not_digit (b : UInt8) (h : (isLetter b || b == 95) = true) : isDigit b = false := by
  simp only [isLetter, Bool.or_eq_true, Bool.and_eq_true, decide_eq_true_eq, beq_iff_eq,
    UInt8.le_iff_toNat_le] at h
  simp only [isDigit, Bool.and_eq_false_iff, decide_eq_false_iff_not, UInt8.le_iff_toNat_le]
  have e95 : b = 95 → b.toNat = 95 := by intro e; subst e; rfl
  have : (48 : UInt8).toNat = 48 := rfl
  have : (57 : UInt8).toNat = 57 := rfl
  have : (65 : UInt8).toNat = 65 := rfl
  have : (90 : UInt8).toNat = 90 := rfl
  have : (97 : UInt8).toNat = 97 := rfl
  have : (122 : UInt8).toNat = 122 := rfl
  rcases h with (h | h) | h
  · omega
  · omega
  · have := e95 h; omega

theorem atoiDec_name (n : Bytes) (h : validName n = true) : atoiDec n = atoiDec [] := by
  cases n with
  | nil => rfl
  | cons b rest =>
    simp only [validName, Bool.and_eq_true] at h
    have hd := letter_not_digit b h.1
    have h45 : b ≠ 45 := by
      have h1 := h.1
      intro e; subst e; revert h1; decide
    simp [atoiDec, h45, List.all_cons, hd]

theorem fmtNatAux_head : ∀ (f n : Nat) (acc : Bytes),
    ∃ d rest, fmtNatAux (f+1) n acc = d :: rest ∧ isDigit d = true := by
  intro f
  induction f with
  | zero =>
    intro n acc
    refine ⟨UInt8.ofNat (48 + n % 10), acc, ?_, ?_⟩
    · simp [fmtNatAux]
    · have : n % 10 < 10 := Nat.mod_lt _ (by decide)
      simp only [isDigit, Bool.and_eq_true, decide_eq_true_eq, UInt8.le_iff_toNat_le, UInt8.toNat_ofNat']
      have : (48 : UInt8).toNat = 48 := rfl
      have : (57 : UInt8).toNat = 57 := rfl
      omega
  | succ f ih =>
    intro n acc
    simp only [fmtNatAux]
    by_cases hn : n < 10
    · refine ⟨UInt8.ofNat (48 + n % 10), acc, by simp [hn], ?_⟩
      have : n % 10 < 10 := Nat.mod_lt _ (by decide)
      simp only [isDigit, Bool.and_eq_true, decide_eq_true_eq, UInt8.le_iff_toNat_le, UInt8.toNat_ofNat']
      have : (48 : UInt8).toNat = 48 := rfl
      have : (57 : UInt8).toNat = 57 := rfl
      omega
    · simp only [hn, if_false]
      exact ih (n / 10) _

theorem digit_not_nameStart (d : UInt8) (h : isDigit d = true) : (isLetter d || d == 95) = false := by
  cases hc : (isLetter d || d == 95) with
  | false => rfl
  | true => rw [letter_not_digit d hc] at h; exact absurd h (by decide)

theorem fmtInt_not_name (k : Int) : validName (fmtInt k) = false := by
  unfold fmtInt
  obtain ⟨d, rest, e, hd⟩ := fmtNatAux_head k.natAbs k.natAbs []
  split
  · simp [validName, isLetter]
  · unfold fmtNat
    rw [e]
    simp [validName, digit_not_nameStart d hd]

theorem demoPrims_lawful : demoPrims.Lawful :=
  ⟨atoiDec_name, fmtInt_not_name⟩


end ShVerif.C04
