import ShVerif.Model.C04
/-
  C04 — helper lemmas for Props/C04.lean.
-/
namespace ShVerif.C04

/-! ### B1. double-quoted literals -/

theorem dqValue_cons_ne (b : UInt8) (bs : Bytes) (h : b ≠ 92) :
    dqValue (b :: bs) = (dqValue bs).map (b :: ·) := by
  cases bs with
  | nil => simp [dqValue, h]
  | cons c rest => simp [dqValue, h]

theorem dqValue_bs_bs (bs : Bytes) : dqValue (92 :: 92 :: bs) = (dqValue bs).map (92 :: ·) := by
  simp [dqValue]

theorem dqValue_bs_special (c : UInt8) (bs : Bytes) (h : c = 36 ∨ c = 34 ∨ c = 96) :
    dqValue (92 :: c :: bs) = (dqValue bs).map (c :: ·) := by
  rcases h with h | h | h <;> subst h <;> simp [dqValue]

/-- The scanner agrees with the double-quote rules: with a pending backslash (`esc = true`) the
    text read so far is `\` followed by the rest. -/
theorem dqScan_value : ∀ (l : Bytes) (esc : Bool) (nv v : Bytes),
    dqScan esc l = some nv →
    dqValue (if esc then 92 :: l else l) = some v → nv = v := by
  intro l
  induction l with
  | nil =>
    intro esc nv v h1 h2
    cases esc <;> simp_all [dqScan, dqValue]
  | cons b bs ih =>
    intro esc nv v h1 h2
    by_cases hb : b = 92
    · subst hb
      cases esc with
      | false =>
        simp only [dqScan] at h1
        simp at h1
        exact ih true nv v h1 (by simpa using h2)
      | true =>
        simp only [dqScan] at h1
        simp at h1
        obtain ⟨r, hr, rfl⟩ := h1
        simp only [if_true, dqValue_bs_bs] at h2
        simp at h2
        obtain ⟨r', hr', rfl⟩ := h2
        rw [ih false r r' hr (by simpa using hr')]
    · by_cases hq : b = 39
      · subst hq; simp [dqScan] at h1
      · by_cases hs : (b = 36 ∨ b = 34 ∨ b = 96)
        · have h1' : (dqScan false bs).map (b :: ·) = some nv := by
            rcases hs with h | h | h <;> subst h <;> simpa [dqScan] using h1
          simp at h1'
          obtain ⟨r, hr, rfl⟩ := h1'
          cases esc with
          | false =>
            simp only [Bool.false_eq_true, if_false] at h2
            rw [dqValue_cons_ne b bs hb] at h2
            simp at h2
            obtain ⟨r', hr', rfl⟩ := h2
            rw [ih false r r' hr (by simpa using hr')]
          | true =>
            simp only [if_true] at h2
            rw [dqValue_bs_special b bs hs] at h2
            simp at h2
            obtain ⟨r', hr', rfl⟩ := h2
            rw [ih false r r' hr (by simpa using hr')]
        · have hs' : b ≠ 36 ∧ b ≠ 34 ∧ b ≠ 96 := by
            refine ⟨fun h => hs (Or.inl h), fun h => hs (Or.inr (Or.inl h)), fun h => hs (Or.inr (Or.inr h))⟩
          cases esc with
          | true => simp [dqScan, hb, hq, hs'.1, hs'.2.1, hs'.2.2] at h1
          | false =>
            have h1' : (dqScan false bs).map (b :: ·) = some nv := by
              simpa [dqScan, hb, hq, hs'.1, hs'.2.1, hs'.2.2] using h1
            simp at h1'
            obtain ⟨r, hr, rfl⟩ := h1'
            simp only [Bool.false_eq_true, if_false] at h2
            rw [dqValue_cons_ne b bs hb] at h2
            simp at h2
            obtain ⟨r', hr', rfl⟩ := h2
            rw [ih false r r' hr (by simpa using hr')]

section TestSem
open Test

/-! ### B3. [[ ]] -/

theorem eval_strip (S : TSem) : ∀ x : Test, S.eval (strip x) = S.eval x := by
  intro x
  induction x with
  | paren x ih => simpa [strip, TSem.eval] using ih
  | _ => rfl

theorem qi_strip (S : TSem) : ∀ x : Test, x.QuoteInsensitive S → (strip x).QuoteInsensitive S := by
  intro x
  induction x with
  | paren x ih => intro h; exact ih h
  | _ => intro h; exact h

theorem value_unqW (S : TSem) (w : TWord) (h : w.QuoteInsensitive S) :
    S.value (unqW w) = S.value w := by
  cases w with
  | quoted p => simp only [TWord.QuoteInsensitive] at h; simp [unqW, TSem.value, h]
  | bare p => rfl
  | other w => rfl

theorem qi_unqW (S : TSem) (w : TWord) : (unqW w).QuoteInsensitive S := by
  cases w <;> simp [unqW, TWord.QuoteInsensitive]

theorem eval_unquote (S : TSem) (x : Test) (h : x.QuoteInsensitive S) :
    S.eval (unquote x) = S.eval x := by
  cases x with
  | word w => simp only [unquote, TSem.eval, value_unqW S w h]
  | _ => rfl

theorem qi_unquote (S : TSem) (x : Test) (h : x.QuoteInsensitive S) :
    (unquote x).QuoteInsensitive S := by
  cases x with
  | word w => exact qi_unqW S w
  | _ => exact h

theorem bne_nil (l : Bytes) : (l != []) = !(l == []) := by cases l <;> rfl

theorem eval_removeNegate (S : TSem) (x : Test) : S.eval (removeNegate x) = S.eval x := by
  cases x with
  | not y =>
    cases y with
    | un yop w =>
      simp only [removeNegate]
      by_cases h1 : yop = tsEmpStr
      · subst h1; simp only [TSem.eval, tsEmpStr, tsNempStr, if_true]; simp [bne_nil]
      · by_cases h2 : yop = tsNempStr
        · subst h2; simp [TSem.eval, tsEmpStr, tsNempStr, bne_nil]
        · simp [h1, h2]
    | not x => simp [removeNegate, TSem.eval]
    | bin yop a b =>
      simp only [removeNegate]
      by_cases h1 : yop = tsMatch
      · subst h1; simp [TSem.eval, tsMatch, tsNoMatch, tsMatchShort]
      · by_cases h2 : yop = tsNoMatch
        · subst h2; simp [TSem.eval, tsMatch, tsNoMatch, tsMatchShort]
        · simp [h1, h2]
    | _ => rfl
  | _ => rfl

theorem qi_removeNegate (S : TSem) (x : Test) (h : x.QuoteInsensitive S) :
    (removeNegate x).QuoteInsensitive S := by
  cases x with
  | not y =>
    cases y with
    | un yop w =>
      simp only [removeNegate]
      repeat' split
      all_goals exact h
    | not x => exact h
    | bin yop a b =>
      simp only [removeNegate]
      repeat' split
      all_goals exact h
    | _ => exact h
  | _ => exact h

theorem eval_walk (S : TSem) : ∀ (f : Nat) (x : Test), x.QuoteInsensitive S →
    S.eval (walk f x) = S.eval x ∧ (walk f x).QuoteInsensitive S := by
  intro f
  induction f with
  | zero => intro x h; exact ⟨rfl, h⟩
  | succ f ih =>
    intro x h
    cases x with
    | word w => exact ⟨rfl, h⟩
    | paren x =>
      have h1 := qi_removeNegate S _ (qi_strip S x h)
      obtain ⟨e, q⟩ := ih _ h1
      refine ⟨?_, q⟩
      simp only [walk, TSem.eval, e, eval_removeNegate, eval_strip]
    | not x =>
      have h1 := qi_unquote S x h
      obtain ⟨e, q⟩ := ih _ h1
      refine ⟨?_, q⟩
      simp only [walk, TSem.eval, e, eval_unquote S x h]
    | un op w =>
      refine ⟨?_, qi_unqW S w⟩
      simp only [walk, TSem.eval, value_unqW S w h]
    | logic c x y =>
      obtain ⟨hx, hy⟩ := h
      have h1 := qi_removeNegate S _ (qi_unquote S x hx)
      have h2 := qi_removeNegate S _ (qi_unquote S y hy)
      obtain ⟨e1, q1⟩ := ih _ h1
      obtain ⟨e2, q2⟩ := ih _ h2
      refine ⟨?_, q1, q2⟩
      simp only [walk, TSem.eval, e1, e2, eval_removeNegate, eval_unquote S x hx, eval_unquote S y hy]
    | bin op a b =>
      obtain ⟨ha, hb⟩ := h
      constructor
      · simp only [walk]
        by_cases hs : op = tsMatchShort
        · subst hs
          simp [TSem.eval, noUnquoteRhs, tsMatch, tsMatchShort, value_unqW S a ha]
        · simp only [hs, if_false]
          by_cases hn : noUnquoteRhs op = true
          · simp only [hn, if_true, TSem.eval, value_unqW S a ha]
          · have hn' : noUnquoteRhs op = false := by simpa using hn
            have h4 : op ≠ tsMatch := by intro h; subst h; simp [noUnquoteRhs] at hn'
            have h5 : op ≠ tsNoMatch := by intro h; subst h; simp [noUnquoteRhs] at hn'
            have h7 : op ≠ tsReMatch := by intro h; subst h; simp [noUnquoteRhs] at hn'
            simp [hn', TSem.eval, value_unqW S a ha, value_unqW S b hb, h4, h5, h7, hs]
      · simp only [walk]
        refine ⟨qi_unqW S a, ?_⟩
        generalize (if op = tsMatchShort then tsMatch else op) = op'
        by_cases hn : noUnquoteRhs op' = true
        · simpa [hn] using hb
        · simpa [hn] using qi_unqW S b

theorem eval_top (S : TSem) (x : Test) (h : x.QuoteInsensitive S) : S.eval (top x) = S.eval x := by
  have h1 := qi_removeNegate S _ (qi_strip S x h)
  rw [top, (eval_walk S _ _ h1).1, eval_removeNegate, eval_strip]

end TestSem

end ShVerif.C04
