import ShVerif.Model.C10
/- C10 helper lemmas: the body scanners at EOF, and the invariant of the scheduling state. -/
namespace ShVerif.C10

theorem scanQuoted_unclosed (tabs : Bool) (stop : Bytes) (s : PState) (lines acc : List Bytes)
    (h : ∀ l ∈ lines, (if tabs then stripTabs l else l) ≠ stop) :
    scanQuoted true tabs stop s lines acc =
      .unclosedErr (decide (s.openNodes > 0) || decide (litBytes (lines.reverse.map (fun l => if tabs then stripTabs l else l) ++ acc) > 0)) := by
  induction lines generalizing acc with
  | nil => simp [scanQuoted, PState.errIncomplete, PState.incomplete]
  | cons l ls ih =>
    have hl := h l (by simp)
    have hls : ∀ x ∈ ls, (if tabs then stripTabs x else x) ≠ stop := fun x hx => h x (by simp [hx])
    simp only [scanQuoted]
    rw [if_neg hl, ih _ hls]
    simp

theorem scanUnquoted_unclosed (tabs : Bool) (stop : Bytes) (s : PState) (lines acc : List Bytes)
    (h : ∀ l ∈ lines, (if tabs then stripTabs l else l) ≠ stop) :
    scanUnquoted tabs stop s lines acc = .unclosedErr (decide (s.openNodes > 0)) := by
  induction lines generalizing acc with
  | nil => simp [scanUnquoted, PState.errIncomplete, PState.incomplete]
  | cons l ls ih =>
    have hl := h l (by simp)
    have hls : ∀ x ∈ ls, (if tabs then stripTabs x else x) ≠ stop := fun x hx => h x (by simp [hx])
    simp only [scanUnquoted]
    rw [if_neg hl]
    exact ih _ hls

/-- reachable scheduling states: nothing is buried that is not pending, and the saved values of
    the enclosing preNested calls are older (smaller) than the current one -/
def LSt.wf (s : LSt) : Prop := s.buried ≤ s.pending ∧ List.Pairwise (· ≥ ·) (s.buried :: s.saved)

theorem init_wf : LSt.init.wf := by simp [LSt.wf, LSt.init]

theorem step_wf (s : LSt) (i : Item) (h : s.wf) : (step s i).wf := by
  obtain ⟨h1, h2⟩ := h
  cases i with
  | hdoc => exact ⟨by simp [step]; omega, by simpa [step] using h2⟩
  | enter =>
    refine ⟨by simp [step], ?_⟩
    simp only [step]
    rw [List.pairwise_cons] at h2 ⊢
    refine ⟨?_, List.pairwise_cons.mpr h2⟩
    intro a ha
    rcases List.mem_cons.mp ha with rfl | ha
    · exact h1
    · exact Nat.le_trans (h2.1 a ha) h1
  | leave =>
    cases hs : s.saved with
    | nil =>
      have : step s .leave = s := by simp [step, hs]
      rw [this]; exact ⟨h1, h2⟩
    | cons b r =>
      rw [hs, List.pairwise_cons] at h2
      have hb : b ≤ s.buried := h2.1 b (by simp)
      simp only [step, hs]
      split
      · exact ⟨by simp, by simpa using h2.2⟩
      · exact ⟨by simp; omega, by simpa using h2.2⟩
  | newl =>
    simp only [step]
    split
    · exact ⟨by simp, by simpa using h2⟩
    · exact ⟨h1, h2⟩
  | tok => exact ⟨h1, h2⟩

theorem foldl_wf (items : List Item) (s : LSt) (h : s.wf) : (items.foldl step s).wf := by
  induction items generalizing s with
  | nil => exact h
  | cons i is ih => exact ih _ (step_wf s i h)

theorem runLine_wf (items : List Item) : (runLine items).wf := foldl_wf items _ init_wf

end ShVerif.C10
