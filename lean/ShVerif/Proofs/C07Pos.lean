/-
  C07 / C09 — position invariant of the unchunked byte source: before any error, `nextPos` never
  points past the end of the raw input (NUL bytes, CR LF, escaped newlines and backquote
  unescaping included, since `consumed` counts raw bytes).
-/
import ShVerif.Proofs.C07Client
namespace ShVerif.C07
open ShVerif ShVerif.L2
set_option linter.unusedSimpArgs false

/-- mid-input: every raw byte is either consumed or still to come -/
def Inv1 (n : Nat) (a : LSt) : Prop := a.err = none → a.consumed + a.rest.length = n

/-- … or the end-of-input rune has been delivered (one past the end, width 1) -/
def Inv (n : Nat) (a : LSt) : Prop :=
  a.err = none → a.consumed + a.rest.length = n ∨
    (a.consumed = n + 1 ∧ a.rest = [] ∧ a.w = 1 ∧ a.r = runeEOF)

theorem Inv1.toInv {n a} (h : Inv1 n a) : Inv n a := fun he => Or.inl (h he)

theorem inv1_consume {n a} (h : Inv1 n a) : Inv1 n a.consume := by
  unfold LSt.consume
  split
  · rename_i x t hr
    intro he; have := h he; simp [hr] at this ⊢; omega
  · exact h

theorem inv1_consumeN {n} (k : Nat) : ∀ {a}, Inv1 n a → Inv1 n (LSt.consumeN k a) := by
  induction k with
  | zero => intro a h; exact h
  | succ k ih => intro a h; exact ih (inv1_consume h)

theorem inv1_litPush {n a} (bs : List Byte) (h : Inv1 n a) : Inv1 n (a.litPush bs) := by
  unfold LSt.litPush; split
  · exact h
  · exact h

theorem inv1_peek {n a} (h : Inv1 n a) : Inv1 n a.peek.2 := by
  rw [peek_eq]; exact h
theorem inv1_peekTwo {n a} (h : Inv1 n a) : Inv1 n a.peekTwo.2.2 := by
  rw [peekTwo_eq]; exact h

theorem inv1_tail {n a} (b : Byte) (bq : Nat) (h : Inv1 n a) : Inv1 n (LSt.runeTail b bq a) := by
  unfold LSt.runeTail LSt.litPush
  by_cases h96 : b = 96 <;> cases hl : a.lit <;> simpa [Inv1, h96, hl] using h

theorem inv1_afterEsc {n a} (b : Byte) (bq : Nat) (h : Inv1 n a) :
    Inv1 n (LSt.runeAfterEsc b bq a).st := by
  unfold LSt.runeAfterEsc
  cases hr : a.rest with
  | nil => simpa [LSt.Step.st] using inv1_tail b bq h
  | cons c t =>
    simp only
    split
    · simpa [LSt.Step.st, Inv1, hr] using h
    · simpa [LSt.Step.st] using inv1_tail b bq h

theorem inv1_setWR {n a} (w r : Nat) (h : Inv1 n a) : Inv1 n { a with w := w, r := r } := h

theorem inv1_backslash {n a} (b : Byte) (bq : Nat) (h : Inv1 n a) :
    Inv1 n (LSt.runeBackslash b bq a).st := by
  unfold LSt.runeBackslash
  have h1 := inv1_peek h
  rcases hpk : a.peek with ⟨pk, a1⟩
  rw [hpk] at h1
  simp only at h1 ⊢
  split
  · exact inv1_afterEsc b bq h1
  · split
    · exact inv1_setWR 1 escNewl (inv1_consume h1)
    · have h2 := inv1_peekTwo h1
      rcases hpk2 : a1.peekTwo with ⟨p1, p2, a2⟩
      rw [hpk2] at h2
      simp only at h2 ⊢
      split
      · have := inv1_consumeN 2 h2
        simpa [LSt.Step.st, Inv1] using this
      · exact inv1_afterEsc b bq h2

theorem inv1_ascii {n a} (b : Byte) (bq : Nat) (h : Inv1 n a) : Inv1 n (LSt.runeAscii b bq a).st := by
  unfold LSt.runeAscii
  have hc := inv1_consume h
  simp only
  generalize a.consume = a' at hc ⊢
  split
  · simpa [LSt.Step.st, Inv1] using hc
  · split
    · have h1 := inv1_peek hc
      rcases hpk : a'.peek with ⟨pk, a1⟩
      rw [hpk] at h1
      simp only at h1 ⊢
      split
      · simpa [LSt.Step.st, Inv1] using h1
      · simpa [LSt.Step.st] using inv1_tail b bq h1
    · split
      · exact inv1_backslash b bq hc
      · simpa [LSt.Step.st] using inv1_tail b bq hc

theorem inv1_errPass {n} {a : LSt} (e : Err) : Inv1 n (a.errPass e) := by
  unfold LSt.errPass
  cases he : a.err with
  | some x => simp [Inv1, he]
  | none => simp [Inv1]

theorem inv1_decode {n a} (h : Inv1 n a) : Inv1 n (LSt.runeDecode a) := by
  unfold LSt.runeDecode
  rcases hd : decodeRune a.rest with ⟨r, w⟩
  simp only
  have h0 : Inv1 n { a with r := r } := h
  have h1 := inv1_consumeN w (inv1_litPush (a.rest.take w) h0)
  split
  · exact inv1_errPass _
  · simpa [Inv1] using h1

theorem inv_atEOF {n a} (h : Inv n a) (hrest : a.rest = []) : Inv n (LSt.runeAtEOF a) := by
  unfold LSt.runeAtEOF
  by_cases hr : a.r = runeEOF
  · simp only [hr, beq_self_eq_true, if_true]
    intro he
    rcases h he with h1 | h1
    · left; exact h1
    · right; exact ⟨h1.1, h1.2.1, rfl, rfl⟩
  · have e : (a.r == runeEOF) = false := by simp [hr]
    simp only [e, Bool.false_eq_true, if_false]
    intro he
    rcases h he with h1 | h1
    · right
      rw [hrest] at h1
      simp at h1
      exact ⟨by simp [h1], hrest, rfl, rfl⟩
    · exact absurd h1.2.2.2 hr

theorem Inv.toInv1 {n a} (h : Inv n a) (hne : a.rest ≠ []) : Inv1 n a := by
  intro he
  rcases h he with h1 | h1
  · exact h1
  · exact absurd h1.2.1 hne

theorem inv_forget {n a} (h : Inv n a) : Inv n a.forget := h

theorem inv_step {n a} (bq : Nat) (h : Inv n a) : Inv n (LSt.runeStep bq a).st := by
  unfold LSt.runeStep
  simp only
  have h0 := inv_forget h
  generalize a.forget = a0 at h0 ⊢
  cases hr : a0.rest with
  | nil => simpa [LSt.Step.st] using inv_atEOF h0 hr
  | cons b t =>
    simp only
    have h1 : Inv1 n { a0 with look := max a0.look 1 } := h0.toInv1 (by simp [hr])
    unfold LSt.runeBody
    simp only
    split
    · exact (inv1_ascii b bq h1).toInv
    · exact (inv1_decode h1).toInv

theorem inv_loop {n} (fuel : Nat) : ∀ (bq : Nat) {a : LSt}, Inv n a → Inv n (LSt.runeLoop fuel bq a) := by
  induction fuel with
  | zero => intro bq a h; exact h
  | succ fuel ih =>
    intro bq a h
    unfold LSt.runeLoop
    have hs := inv_step bq h
    cases hst : LSt.runeStep bq a with
    | done a' => rw [hst] at hs; exact hs
    | retry bq' a' => rw [hst] at hs; exact ih bq' hs

theorem inv_runePre {n a} (h : Inv n a) : Inv n a.runePre := by
  unfold LSt.runePre
  simp only
  split <;> exact h

theorem inv_rune {n a} (h : Inv n a) : Inv n a.rune.2 := by
  unfold LSt.rune
  exact inv_loop _ 0 (inv_runePre h)

theorem inv_stopAt {n a} (r : Nat) (h : Inv n a) : Inv n (a.stopAt r).2 := by
  unfold LSt.stopAt
  simp only
  generalize (if r ≤ 0x10FFFF then encodeRune r else []) = enc
  split
  · rename_i hc
    intro he
    rcases h he with h1 | h1
    · left; exact h1
    · exact absurd h1.2.2.2 hc.2.2.2.1
  · exact h

theorem inv_newLit {n a} (r : Nat) (h : Inv n a) : Inv n (a.newLit r) := by
  unfold LSt.newLit
  split
  · exact h
  · split <;> exact h

theorem inv_endLit {n a} (h : Inv n a) : Inv n a.endLit.2 := by
  unfold LSt.endLit
  simp only
  split <;> exact h

theorem inv_errPass {n} {a : LSt} (e : Err) : Inv n (a.errPass e) := by
  unfold LSt.errPass
  cases he : a.err with
  | some x => simp [Inv, he]
  | none => simp [Inv]

theorem inv_specRun {n} {α : Type} (p : Prog α) : ∀ {a : LSt}, a.err = none ∨ True → Inv n a →
    Inv n (specRun p a).2 := by
  induction p with
  | ret x => intro a _ h; exact h
  | rune k ih => intro a _ h; unfold specRun; exact ih _ (Or.inr trivial) (inv_rune h)
  | peek k ih =>
    intro a _ h; unfold specRun
    exact ih _ (Or.inr trivial) (show Inv n a.peek.2 by rw [peek_eq]; exact h)
  | peekTwo k ih =>
    intro a _ h; unfold specRun
    exact ih _ _ (Or.inr trivial) (show Inv n a.peekTwo.2.2 by rw [peekTwo_eq]; exact h)
  | zshNum k ih => intro a _ h; unfold specRun; exact ih _ (Or.inr trivial) h
  | stopAt r k ih => intro a _ h; unfold specRun; exact ih _ (Or.inr trivial) (inv_stopAt r h)
  | newLit r k ih => intro a _ h; unfold specRun; exact ih (Or.inr trivial) (inv_newLit r h)
  | endLit k ih => intro a _ h; unfold specRun; exact ih _ (Or.inr trivial) (inv_endLit h)
  | pos k ih => intro a _ h; unfold specRun; exact ih _ _ _ (Or.inr trivial) h
  | setBquotes o d k ih => intro a _ h; unfold specRun; exact ih (Or.inr trivial) h
  | getRW k ih => intro a _ h; unfold specRun; exact ih _ _ (Or.inr trivial) h
  | lastBq k ih => intro a _ h; unfold specRun; exact ih _ (Or.inr trivial) h
  | litGet k ih => intro a _ h; unfold specRun; exact ih _ (Or.inr trivial) h
  | litAppend bs k ih => intro a _ h; unfold specRun; exact ih (Or.inr trivial) h
  | litDrop k ih => intro a _ h; unfold specRun; exact ih (Or.inr trivial) h
  | errPass k ih => intro a _ h; unfold specRun; exact ih (Or.inr trivial) (inv_errPass _)
  | errGet k ih => intro a _ h; unfold specRun; exact ih _ (Or.inr trivial) h

theorem inv_init (input stop : List Byte) : Inv input.length (LSt.init input stop) := by
  intro _; left; simp [LSt.init]

/-- before any error, `nextPos` of the unchunked machine never points past the end of the input -/
theorem nextPos_le {α : Type} (p : Prog α) (input stop : List Byte)
    (he : (specRun p (LSt.init input stop)).2.err = none) :
    (specRun p (LSt.init input stop)).2.nextPos.1 ≤ input.length := by
  have h := inv_specRun (n := input.length) p (Or.inr trivial) (inv_init input stop)
  unfold LSt.nextPos
  rcases h he with h1 | h1
  · simp only; omega
  · simp only; rw [h1.1, h1.2.2.1]; omega

/-! ### an invalid byte never reaches `newLit` -/

theorem consumeN_err (n : Nat) : ∀ (a : LSt), (LSt.consumeN n a).err = a.err := by
  induction n with
  | zero => intro a; rfl
  | succ n ih => intro a; simp [LSt.consumeN, ih]

theorem consumeN_r (n : Nat) : ∀ (a : LSt), (LSt.consumeN n a).r = a.r := by
  induction n with
  | zero => intro a; rfl
  | succ n ih => intro a; simp [LSt.consumeN, ih]
theorem litPush_r (a : LSt) (bs : List Byte) : (a.litPush bs).r = a.r := by
  unfold LSt.litPush; split <;> rfl

theorem runeDecode_invalid (a : LSt) (ha : a.err = none) (hd : decodeRune a.rest = (runeError, 1)) :
    (LSt.runeDecode a).r = runeEOF ∧ (LSt.runeDecode a).err ≠ none := by
  unfold LSt.runeDecode
  simp only [hd]
  simp [LSt.errPass, consumeN_err, consumeN_r, litPush_r, ha]

end ShVerif.C07
