import ShVerif.Proofs.L3Glob
/-
  C18 — lemmas: a pattern made of ordinary and escaped characters only parses to a sequence of
  literals, and such a sequence matches exactly its own text.
-/
namespace ShVerif.L3

/-- The parse of a pattern that consists of literal characters only. -/
def litSeq : Str → Glob
  | [] => .eps
  | c :: r => .seq (.lit c) (litSeq r)

/-- "The same text", up to case when the mode folds case. -/
def sameText (m : Mode) (t s : Str) : Prop :=
  List.Forall₂ (fun x c => chEq m.nocase c x = true) t s

theorem chEq_false_iff (c x : Rune) : chEq false c x = true ↔ x = c := by
  simp [chEq, variants, eq_comm]

theorem sameText_eq {m : Mode} (h : m.nocase = false) (t s : Str) : sameText m t s ↔ t = s := by
  unfold sameText
  rw [h]
  constructor
  · intro hf
    induction hf with
    | nil => rfl
    | cons hx _ ih => rw [(chEq_false_iff _ _).mp hx, ih]
  · rintro rfl
    induction t with
    | nil => exact .nil
    | cons x t ih => exact .cons ((chEq_false_iff _ _).mpr rfl) ih

theorem GDen_litSeq (m : Mode) (s : Str) : ∀ (b : Bool) (t : Str),
    GDen m (litSeq s) b t ↔ sameText m t s := by
  induction s with
  | nil =>
    intro b t
    simp only [litSeq, GDen, sameText]
    constructor
    · rintro rfl; exact .nil
    · intro h; cases h; rfl
  | cons c r ih =>
    intro b t
    simp only [litSeq, GDen, sameText]
    constructor
    · rintro ⟨s1, s2, rfl, ⟨x, rfl, hx⟩, h2⟩
      exact .cons hx ((ih _ _).mp h2)
    · intro h
      cases h with
      | cons hx hr =>
        rename_i x t'
        exact ⟨[x], t', rfl, ⟨x, rfl, hx⟩, (ih _ _).mpr hr⟩

/-! ### QuoteMeta -/

theorem quoteMeta_length_ge (s : Str) : s.length ≤ (quoteMeta s).length := by
  induction s with
  | nil => simp [quoteMeta]
  | cons c r ih =>
    simp only [quoteMeta]
    split <;> simp <;> omega

theorem hasMetaAux_quoteMeta (s : Str) : hasMetaAux false (quoteMeta s) = false := by
  induction s with
  | nil => simp [quoteMeta, hasMetaAux]
  | cons c r ih =>
    simp only [quoteMeta]
    by_cases hc : isQuoteMetaSpecial c = true
    · simp only [hc, if_true, hasMetaAux]
      simpa using ih
    · simp only [hc]
      have hc' : isQuoteMetaSpecial c = false := by simpa using hc
      simp only [isQuoteMetaSpecial, Bool.or_eq_false_iff, beq_eq_false_iff_ne] at hc'
      obtain ⟨⟨⟨h1, h2⟩, h3⟩, h4⟩ := hc'
      simp only [if_false, Bool.false_eq_true, hasMetaAux, h1, h2, h3, h4, false_or]
      split
      · exact ih
      · exact ih

theorem head_quoteMeta_lp (r : Str) : ((quoteMeta r).head? == some cLP) = (r.head? == some cLP) := by
  cases r with
  | nil => simp [quoteMeta]
  | cons d r' =>
    simp only [quoteMeta]
    by_cases hd : isQuoteMetaSpecial d = true
    · simp only [hd, if_true, List.head?_cons]
      have : d ≠ cLP := by
        intro h; subst h; revert hd; decide
      have h2 : cBS ≠ cLP := by decide
      simp [this, h2]
    · simp [hd]

theorem parseSeq_quoteMeta (m : Mode) (s : Str) :
    ∀ (fuel : Nat) (prev : Rune), s.length < fuel → (m.ext = false ∨ hasExtOpener s = false) →
      parseSeq m fuel prev (quoteMeta s) = .ok (litSeq s) := by
  induction s with
  | nil =>
    intro fuel prev hf _
    cases fuel with
    | zero => simp at hf
    | succ f => simp [quoteMeta, parseSeq, litSeq]
  | cons c r ih =>
    intro fuel prev hf hext
    cases fuel with
    | zero => simp at hf
    | succ f =>
      have hf' : r.length < f := by simp at hf; omega
      have hext' : m.ext = false ∨ hasExtOpener r = false := by
        cases hext with
        | inl h => exact .inl h
        | inr h =>
          right
          cases r with
          | nil => simp [hasExtOpener]
          | cons d r' =>
            simp only [hasExtOpener, Bool.or_eq_false_iff] at h
            exact h.2
      by_cases hc : isQuoteMetaSpecial c = true
      · simp only [quoteMeta, hc, if_true, parseSeq, litSeq]
        rw [ih f c hf' hext']
      · have hc' : isQuoteMetaSpecial c = false := by simpa using hc
        have hne := hc'
        simp only [isQuoteMetaSpecial, Bool.or_eq_false_iff, beq_eq_false_iff_ne] at hne
        obtain ⟨⟨⟨h1, h2⟩, h3⟩, h4⟩ := hne
        have hgrp : (m.ext && isExtOp c && ((quoteMeta r).head? == some cLP)) = false := by
          rw [head_quoteMeta_lp]
          cases hext with
          | inl h => simp [h]
          | inr h =>
            cases r with
            | nil => simp
            | cons d r' =>
              simp only [hasExtOpener, Bool.or_eq_false_iff, hc', Bool.not_false, Bool.and_true] at h
              have := h.1
              simp only [List.head?_cons]
              cases hd : (some d == some cLP) with
              | false => simp
              | true =>
                have hd' : (d == cLP) = true := by simpa using hd
                simp only [hd', Bool.and_true] at this
                simp [this]
        simp only [quoteMeta, hc, if_false, Bool.false_eq_true, parseSeq, litSeq, h4, h2, h1, h3,
          false_and, hgrp]
        rw [ih f c hf' hext']

/-! ### Patterns without metacharacters -/

theorem cut2_spec (a b : Rune) (s name after : Str) (h : cut2 a b s = some (name, after)) :
    s = name ++ a :: b :: after := by
  induction s generalizing name with
  | nil => simp [cut2] at h
  | cons x s ih =>
    cases s with
    | nil => simp [cut2] at h
    | cons y s' =>
      simp only [cut2] at h
      split at h
      · rename_i hxy
        obtain ⟨rfl, rfl⟩ := hxy
        simp at h; obtain ⟨rfl, rfl⟩ := h
        rfl
      · cases hc : cut2 a b (y :: s') with
        | none => simp [hc] at h
        | some p =>
          obtain ⟨n, r⟩ := p
          simp [hc] at h
          obtain ⟨rfl, rfl⟩ := h
          rw [ih n hc]; rfl

/-- Once a `[` has been seen, an unescaped `]` (one not preceded by a backslash) is a metacharacter. -/
theorem hasMetaAux_close (pre post : Str) (x : Rune) (hx : x ≠ cBS) :
    hasMetaAux true (pre ++ x :: cRB :: post) = true := by
  induction pre using List.rec with
  | nil =>
    simp only [List.nil_append, hasMetaAux, hx, if_false]
    split
    · rfl
    · split
      · simp [hasMetaAux]
        intro h; exact absurd h (by decide)
      · split <;> simp [hasMetaAux] <;> (intro h; exact absurd h (by decide))
  | cons a pre ih => sorry

end ShVerif.L3
