import ShVerif.Proofs.L3Glob
/-
  C18 — lemmas: a pattern made of ordinary and escaped characters only parses to a sequence of
  literals, and such a sequence matches exactly its own text.
-/
namespace ShVerif.L3

/-- The parse of a pattern that consists of literal characters only (`prev`: the character before). -/
def litSeq (m : Mode) : Rune → Str → Glob
  | _, [] => .eps
  | prev, c :: r => .seq (litTok m prev c) (litSeq m c r)

theorem litTok_ne_dot (m : Mode) (prev : Rune) {c : Rune} (h : c ≠ cDot) : litTok m prev c = .lit c := by
  unfold litTok
  have : (c == cDot) = false := by simpa using h
  simp [this]

theorem litTok_nofn {m : Mode} (h : m.filenames = false) (prev c : Rune) : litTok m prev c = .lit c := by
  simp [litTok, h]

/-- "The same text", up to case when the mode folds case. -/
def sameText (m : Mode) : Str → Str → Prop
  | [], [] => True
  | x :: t, c :: s => chEq m.nocase c x = true ∧ sameText m t s
  | _, _ => False

theorem chEq_false_iff (c x : Rune) : chEq false c x = true ↔ x = c := by
  simp [chEq, variants, eq_comm]

theorem sameText_eq {m : Mode} (h : m.nocase = false) (t s : Str) : sameText m t s ↔ t = s := by
  induction t generalizing s with
  | nil => cases s <;> simp [sameText]
  | cons x t ih =>
    cases s with
    | nil => simp [sameText]
    | cons c s => simp [sameText, h, chEq_false_iff, ih]

theorem sameText_length {m : Mode} : ∀ {t s : Str}, sameText m t s → t.length = s.length
  | [], [], _ => rfl
  | [], _ :: _, h => by simp [sameText] at h
  | _ :: _, [], h => by simp [sameText] at h
  | _ :: t, _ :: s, h => by
    simp only [sameText] at h
    simp [sameText_length h.2]

/-- With or without case folding, only the character itself stands for a non-letter below 'A'. -/
theorem variants_small (nc : Bool) (x y : Nat) (hy : y < 65) (h : (variants nc x).contains y = true) :
    x = y := by
  unfold variants at h
  cases nc with
  | false => simpa [eq_comm] using h
  | true =>
    simp only [if_true] at h
    unfold orbit at h
    split at h
    · simp at h; rcases h with h | h | h <;> (subst h; simp at hy)
    · split at h
      · simp at h; rcases h with h | h | h <;> (subst h; simp at hy)
      · split at h
        · rename_i hu
          simp [isUpper] at hu
          simp at h
          rcases h with h | h
          · subst h; rfl
          · subst h
            have : 65 ≤ x + 32 := Nat.le_trans hu.1 (Nat.le_add_right _ _)
            exact absurd hy (Nat.not_lt.mpr this)
        · split at h
          · rename_i hl
            simp [isLower] at hl
            simp at h
            rcases h with h | h
            · subst h
              have : 65 ≤ x - 32 := Nat.le_sub_of_add_le hl.1
              exact absurd hy (Nat.not_lt.mpr this)
            · subst h; rfl
          · simpa [eq_comm] using h

theorem chEq_small {nc : Bool} {c x : Nat} (hc : c < 65) (h : chEq nc c x = true) : x = c :=
  variants_small nc x c hc h

theorem chEq_refl (nc : Bool) (c : Rune) : chEq nc c c = true := by
  unfold chEq variants
  cases nc with
  | false => simp
  | true =>
    simp only [if_true]
    unfold orbit
    split
    · rename_i h; simp at h; rcases h with (h | h) | h <;> simp [h]
    · split
      · rename_i h; simp at h; rcases h with (h | h) | h <;> simp [h]
      · split
        · simp
        · split <;> simp

theorem GDen_litTok (m : Mode) (prev c : Rune) (b : Bool) (hb : b = true → prev = 0 ∨ prev = cSlash)
    (s1 : Str) : GDen m (litTok m prev c) b s1 ↔ ∃ x, s1 = [x] ∧ chEq m.nocase c x = true := by
  unfold litTok
  split
  · rename_i h
    simp only [Bool.and_eq_true, Bool.not_eq_true', beq_iff_eq, Bool.or_eq_false_iff,
      beq_eq_false_iff_ne] at h
    obtain ⟨⟨⟨hfn, hdg⟩, rfl⟩, hp1, hp2⟩ := h
    have hbf : b = false := by
      cases b with
      | false => rfl
      | true => rcases hb rfl with h | h <;> contradiction
    subst hbf
    simp only [GDen]
    constructor
    · rintro ⟨x, rfl, _, hm⟩
      refine ⟨x, rfl, ?_⟩
      simp only [bracketMem, List.any_cons, List.any_nil, Bool.or_false, BItem.memFold, BItem.mem,
        bne_iff_ne, ne_eq, Bool.false_eq, Bool.not_eq_true'] at hm
      have : (variants m.nocase x).any (fun y => y == cDot) = true := by
        cases h : (variants m.nocase x).any (fun y => y == cDot) with
        | true => rfl
        | false => simp [h] at hm
      have hx : x = cDot := by
        apply variants_small m.nocase x cDot (by decide)
        obtain ⟨y, hy, hyd⟩ := List.any_eq_true.mp this
        have := beq_iff_eq.mp hyd
        subst this
        exact List.contains_iff_mem.mpr hy
      subst hx
      exact chEq_refl _ _
    · rintro ⟨x, rfl, hc⟩
      have hx : x = cDot := chEq_small (by decide) hc
      subst hx
      refine ⟨cDot, rfl, ?_, ?_⟩
      · have e1 : (cDot == cSlash) = false := by decide
        simp [wildOk, e1]
      · simp only [bracketMem, List.any_cons, List.any_nil, Bool.or_false, BItem.memFold, BItem.mem]
        have : (variants m.nocase cDot).any (fun y => y == cDot) = true := by
          have h0 := chEq_refl m.nocase cDot
          unfold chEq at h0
          exact List.any_eq_true.mpr ⟨cDot, List.contains_iff_mem.mp h0, by simp⟩
        simp [this]
  · simp only [GDen]

theorem GDen_litSeq (m : Mode) (s : Str) : ∀ (prev : Rune) (b : Bool) (t : Str),
    (b = true → prev = 0 ∨ prev = cSlash) →
    (GDen m (litSeq m prev s) b t ↔ sameText m t s) := by
  induction s with
  | nil =>
    intro prev b t _
    cases t <;> simp [litSeq, GDen, sameText]
  | cons c r ih =>
    intro prev b t hb
    simp only [litSeq, GDen]
    have hnext : ∀ x, chEq m.nocase c x = true → (startAfter m x = true → c = 0 ∨ c = cSlash) := by
      intro x hx hs
      right
      simp only [startAfter, Bool.and_eq_true, beq_iff_eq] at hs
      obtain ⟨_, rfl⟩ := hs
      unfold chEq at hx
      have := variants_small m.nocase cSlash c
      -- c ∈ variants of '/' : only '/' itself
      have h2 : (variants m.nocase cSlash).contains c = true := hx
      have h3 : variants m.nocase cSlash = [cSlash] := by
        cases m.nocase <;> decide
      rw [h3] at h2
      simpa using h2
    constructor
    · rintro ⟨s1, s2, rfl, h1, h2⟩
      obtain ⟨x, rfl, hx⟩ := (GDen_litTok m prev c b hb s1).mp h1
      rw [ctxAfter_singleton] at h2
      exact ⟨hx, (ih c _ _ (hnext x hx)).mp h2⟩
    · intro h
      cases t with
      | nil => simp [sameText] at h
      | cons x t' =>
        obtain ⟨hx, hr⟩ := h
        refine ⟨[x], t', rfl, (GDen_litTok m prev c b hb [x]).mpr ⟨x, rfl, hx⟩, ?_⟩
        rw [ctxAfter_singleton]
        exact (ih c _ _ (hnext x hx)).mpr hr

/-! ### unfolding lemmas -/

theorem hasMetaAux_cons (ob : Bool) (c : Rune) (rest : Str) :
    hasMetaAux ob (c :: rest) =
      if c = cBS then
        (match rest with
         | [] => false
         | _ :: rest' => hasMetaAux ob rest')
      else if c = cStar ∨ c = cQuest then true
      else if c = cLB then hasMetaAux true rest
      else if c = cRB then (if ob then true else hasMetaAux ob rest)
      else hasMetaAux ob rest := by
  conv => lhs; rw [hasMetaAux.eq_def]
  rfl

theorem parseSeq_cons (m : Mode) (fuel : Nat) (prev c : Rune) (rest : Str) :
    parseSeq m (fuel + 1) prev (c :: rest) =
    if c = cBS then
      match rest with
      | [] => .error .trailingBackslash
      | d :: rest' => andThenG (litTok m prev d) (parseSeq m fuel d rest')
    else if c = cQuest ∧ !(m.ext && rest.head? == some cLP) then andThenG .any (parseSeq m fuel c rest)
    else if c = cStar ∧ !(m.ext && rest.head? == some cLP) then
      if m.filenames && !m.noglobstar && (prev == 0 || prev == cSlash) && rest.head? == some cStar
          && (rest.tail.isEmpty || rest.tail.head? == some cSlash) then
        match rest.tail with
        | _ :: rest3 => andThenG (.globstar true) (parseSeq m fuel cSlash rest3)
        | [] => .ok (.seq (.globstar false) .eps)
      else andThenG .star (parseSeq m fuel c rest)
    else if c = cLB then
      match scanBracket m.filenames rest with
      | .notBracket => andThenG (.lit cLB) (parseSeq m fuel cLB rest)
      | .malformed e => .error e
      | .ok neg items rest' => andThenG (.bracket neg items) (parseSeq m fuel cRB rest')
    else if m.ext && isExtOp c && rest.head? == some cLP then
      match scanGroup m.filenames (rest.length + 1) 0 [] [] rest.tail with
      | .error e => .error e
      | .ok none => andThenG (.lit c) (parseSeq m fuel c rest)
      | .ok (some (alts, rest')) =>
        match alts.mapM (parseSeq m fuel cLP) with
        | .error e => .error e
        | .ok gs => andThenG (.ext c (altGlob gs)) (parseSeq m fuel cRP rest')
    else andThenG (litTok m prev c) (parseSeq m fuel c rest) := by
  conv => lhs; rw [parseSeq.eq_def]
  rfl

theorem parseSeq_nil (m : Mode) (fuel : Nat) (prev : Rune) : parseSeq m (fuel + 1) prev [] = .ok .eps := by
  conv => lhs; rw [parseSeq.eq_def]

/-! ### QuoteMeta -/

theorem quoteMeta_length_ge (s : Str) : s.length ≤ (quoteMeta s).length := by
  induction s with
  | nil => simp [quoteMeta]
  | cons c r ih =>
    simp only [quoteMeta]
    split <;> simp <;> omega

theorem special_ne {c : Rune} (h : isQuoteMetaSpecial c = false) :
    c ≠ cStar ∧ c ≠ cQuest ∧ c ≠ cLB ∧ c ≠ cBS := by
  simp only [isQuoteMetaSpecial, Bool.or_eq_false_iff, beq_eq_false_iff_ne] at h
  exact ⟨h.1.1.1, h.1.1.2, h.1.2, h.2⟩

theorem hasMetaAux_quoteMeta (s : Str) : hasMetaAux false (quoteMeta s) = false := by
  induction s with
  | nil => simp [quoteMeta, hasMetaAux]
  | cons c r ih =>
    simp only [quoteMeta]
    by_cases hc : isQuoteMetaSpecial c = true
    · simp only [hc, if_true, hasMetaAux_cons]
      simpa using ih
    · have hc' : isQuoteMetaSpecial c = false := by simpa using hc
      obtain ⟨h1, h2, h3, h4⟩ := special_ne hc'
      simp only [hc, if_false, Bool.false_eq_true, hasMetaAux_cons, h1, h2, h3, h4, false_or, ih]
      simp

theorem head_quoteMeta_lp (r : Str) : ((quoteMeta r).head? == some cLP) = (r.head? == some cLP) := by
  cases r with
  | nil => simp [quoteMeta]
  | cons d r' =>
    simp only [quoteMeta]
    by_cases hd : isQuoteMetaSpecial d = true
    · simp only [hd, if_true, List.head?_cons]
      have : d ≠ cLP := by
        intro h; subst h; revert hd; decide
      have h2 : cBS ≠ cLP := by decide
      have e1 : (cBS == cLP) = false := by simpa using h2
      have e2 : (d == cLP) = false := by simpa using this
      simp [e1, e2]
    · simp [hd]

theorem parseSeq_quoteMeta (m : Mode) (s : Str) :
    ∀ (fuel : Nat) (prev : Rune), s.length < fuel → (m.ext = false ∨ hasExtOpener s = false) →
      parseSeq m fuel prev (quoteMeta s) = .ok (litSeq m prev s) := by
  induction s with
  | nil =>
    intro fuel prev hf _
    cases fuel with
    | zero => simp at hf
    | succ f => simp [quoteMeta, parseSeq_nil, litSeq]
  | cons c r ih =>
    intro fuel prev hf hext
    cases fuel with
    | zero => simp at hf
    | succ f =>
      have hf' : r.length < f := by simp at hf; omega
      have hext' : m.ext = false ∨ hasExtOpener r = false := by
        cases hext with
        | inl h => exact .inl h
        | inr h =>
          right
          cases r with
          | nil => simp [hasExtOpener]
          | cons d r' =>
            simp only [hasExtOpener, Bool.or_eq_false_iff] at h
            exact h.2
      by_cases hc : isQuoteMetaSpecial c = true
      · simp only [quoteMeta, hc, if_true, parseSeq_cons, litSeq]
        rw [ih f c hf' hext']; rfl
      · have hc' : isQuoteMetaSpecial c = false := by simpa using hc
        obtain ⟨h1, h2, h3, h4⟩ := special_ne hc'
        have hgrp : (m.ext && isExtOp c && ((quoteMeta r).head? == some cLP)) = false := by
          rw [head_quoteMeta_lp]
          cases hext with
          | inl h => simp [h]
          | inr h =>
            cases r with
            | nil => simp
            | cons d r' =>
              simp only [hasExtOpener, Bool.or_eq_false_iff, hc', Bool.not_false, Bool.and_true] at h
              have := h.1
              simp only [List.head?_cons]
              cases hd : (some d == some cLP) with
              | false => simp
              | true =>
                have hd' : (d == cLP) = true := by simpa using hd
                simp only [hd', Bool.and_true] at this
                simp [this]
        simp only [quoteMeta, hc, if_false, Bool.false_eq_true, parseSeq_cons, litSeq, h4, h2, h1, h3,
          false_and, hgrp]
        rw [ih f c hf' hext']; rfl

/-! ### Patterns without metacharacters -/

theorem cut2_spec (a b : Rune) (s name after : Str) (h : cut2 a b s = some (name, after)) :
    s = name ++ a :: b :: after := by
  induction s generalizing name with
  | nil => simp [cut2] at h
  | cons x s ih =>
    cases s with
    | nil => simp [cut2] at h
    | cons y s' =>
      simp only [cut2] at h
      split at h
      · rename_i hxy
        obtain ⟨rfl, rfl⟩ := hxy
        simp at h; obtain ⟨rfl, rfl⟩ := h
        rfl
      · cases hc : cut2 a b (y :: s') with
        | none => simp [hc] at h
        | some p =>
          obtain ⟨n, r⟩ := p
          simp [hc] at h
          obtain ⟨rfl, rfl⟩ := h
          rw [ih n hc]; rfl

/-- Once a `[` has been seen, a `]` not directly preceded by a backslash is a metacharacter. -/
theorem hasMetaAux_close (pre post : Str) (x : Rune) (hx : x ≠ cBS) :
    hasMetaAux true (pre ++ x :: cRB :: post) = true := by
  have base : ∀ post, hasMetaAux true (cRB :: post) = true := by
    intro post
    rw [hasMetaAux_cons]
    have h1 : cRB ≠ cBS := by decide
    have h2 : ¬ (cRB = cStar ∨ cRB = cQuest) := by decide
    have h3 : cRB ≠ cLB := by decide
    simp [h1, h2, h3]
  -- strong induction on the length of `pre`: a backslash skips one character
  have main : ∀ n (pre : Str), pre.length ≤ n → hasMetaAux true (pre ++ x :: cRB :: post) = true := by
    intro n
    induction n with
    | zero =>
      intro pre hp
      have : pre = [] := List.length_eq_zero_iff.mp (Nat.le_zero.mp hp)
      subst this
      simp only [List.nil_append]
      rw [hasMetaAux_cons]
      simp only [hx, if_false]
      split
      · rfl
      · split
        · exact base post
        · split
          · rfl
          · exact base post
    | succ n ih =>
      intro pre hp
      cases pre with
      | nil => exact ih [] (Nat.zero_le _)
      | cons a pre' =>
        simp only [List.cons_append]
        rw [hasMetaAux_cons]
        have hp' : pre'.length ≤ n := by simp at hp; omega
        split
        · -- a backslash: skips the next character
          cases pre' with
          | nil => simp only [List.nil_append]; exact base post
          | cons b pre'' =>
            simp only [List.cons_append]
            exact ih pre'' (by simp at hp'; omega)
        · split
          · rfl
          · split
            · exact ih pre' hp'
            · split
              · rfl
              · exact ih pre' hp'
  exact main pre.length pre (Nat.le_refl _)

theorem scanItems_cons (fn : Bool) (fuel : Nat) (first : Bool) (st : BSt) (c : Rune) (rest : Str) :
    scanItems fn (fuel + 1) first st (c :: rest) =
    if c = cRB ∧ !first then (st, some rest)
    else
      match (if c = cLB then scanClass rest else none) with
      | some (n, .ok k) =>
        scanItems fn fuel false
          { st with items := st.items ++ [.cls k], slash := st.slash || (fn && (rest.take n).contains cSlash) }
          (rest.drop n)
      | some (n, .error e) =>
        let st1 := st.addErr (.cls e) true
        scanItems fn fuel false
          { st1 with slash := st1.slash || (fn && (rest.take n).contains cSlash) } (rest.drop n)
      | none =>
        match elemChar (c :: rest) with
        | none => (st, none)
        | some (lo, _, r1) =>
          let sl1 := fn && lo == cSlash
          match r1 with
          | d :: r2 =>
            if d = cDash ∧ r2.head? ≠ some cRB then
              match elemChar r2 with
              | none => (st, none)
              | some (hi, _, r3) =>
                let st1 := { st with items := st.items ++ [.range lo hi],
                                     slash := st.slash || sl1 || (fn && hi == cSlash) }
                scanItems fn fuel false
                  (if hi < lo then st1.addErr (.badRange lo hi) false else st1) r3
            else scanItems fn fuel false { st with items := st.items ++ [.ch lo], slash := st.slash || sl1 } r1
          | [] => (st, none) := by
  conv => lhs; rw [scanItems.eq_def]
  all_goals rfl

/-- Consequences of "no metacharacter from here on" for one leading character. -/
theorem noMeta_cons {c : Rune} {rest : Str} (h : hasMetaAux true (c :: rest) = false) (hc : c ≠ cBS) :
    c ≠ cRB ∧ c ≠ cStar ∧ c ≠ cQuest ∧ hasMetaAux true rest = false := by
  rw [hasMetaAux_cons] at h
  simp only [hc, if_false] at h
  by_cases h1 : c = cStar ∨ c = cQuest
  · simp [h1] at h
  · simp only [h1, if_false] at h
    have h1' := not_or.mp h1
    by_cases h2 : c = cLB
    · simp only [h2, if_true] at h
      subst h2
      exact ⟨by decide, h1'.1, h1'.2, h⟩
    · simp only [h2, if_false] at h
      by_cases h3 : c = cRB
      · simp [h3] at h
      · simp only [h3, if_false] at h
        exact ⟨h3, h1'.1, h1'.2, h⟩

theorem noMeta_elemChar {s : Str} {lo : Rune} {esc : Bool} {r1 : Str}
    (h : hasMetaAux true s = false) (he : elemChar s = some (lo, esc, r1)) :
    hasMetaAux true r1 = false := by
  cases s with
  | nil => simp [elemChar] at he
  | cons c rest =>
    simp only [elemChar] at he
    by_cases hc : c = cBS
    · simp only [hc, if_true] at he
      cases rest with
      | nil => simp at he
      | cons d rest' =>
        simp at he
        obtain ⟨_, _, rfl⟩ := he
        rw [hasMetaAux_cons] at h
        simpa [hc] using h
    · simp only [hc, if_false] at he
      simp at he
      obtain ⟨_, _, rfl⟩ := he
      exact (noMeta_cons h hc).2.2.2

/-- Without a later unescaped `]` a bracket expression cannot close. -/
theorem scanItems_noMeta (fn : Bool) : ∀ (fuel : Nat) (first : Bool) (st : BSt) (s : Str),
    hasMetaAux true s = false → (scanItems fn fuel first st s).2 = none := by
  intro fuel
  induction fuel with
  | zero => intro first st s _; rw [scanItems.eq_def]
  | succ f ih =>
    intro first st s h
    cases s with
    | nil => rw [scanItems.eq_def]
    | cons c rest =>
      rw [scanItems_cons]
      have hnrb : c ≠ cRB := by
        intro hc
        subst hc
        rw [hasMetaAux_cons] at h
        have h1 : cRB ≠ cBS := by decide
        have h2 : ¬ (cRB = cStar ∨ cRB = cQuest) := by decide
        have h3 : cRB ≠ cLB := by decide
        simp [h1, h2, h3] at h
      simp only [hnrb, false_and, if_false]
      -- a class-like element would contain `X]`
      have hclass : ∀ n r, (if c = cLB then scanClass rest else none) = some (n, r) →
          hasMetaAux true (rest.drop n) = false := by
        intro n r hsc
        by_cases hlb : c = cLB
        · simp only [hlb, if_true] at hsc
          subst hlb
          have hrest : hasMetaAux true rest = false := (noMeta_cons h (by decide)).2.2.2
          cases rest with
          | nil => simp [scanClass] at hsc
          | cons x s1 =>
            simp only [scanClass] at hsc
            by_cases hx : x = cColon
            · simp only [hx, if_true] at hsc
              cases hcut : cut2 cColon cRB s1 with
              | none =>
                simp [hcut] at hsc
                obtain ⟨rfl, _⟩ := hsc
                simpa using hrest
              | some p =>
                obtain ⟨name, after⟩ := p
                have := cut2_spec _ _ _ _ _ hcut
                subst this
                have := hasMetaAux_close (x :: name) after cColon (by decide)
                simp only [List.cons_append] at this
                rw [this] at hrest; cases hrest
            · simp only [hx, if_false] at hsc
              by_cases hx2 : x = cDot ∨ x = cEq
              · simp only [hx2, if_true] at hsc
                have hxbs : x ≠ cBS := by
                  rcases hx2 with rfl | rfl <;> decide
                cases hcut : cut2 x cRB s1 with
                | none =>
                  simp [hcut] at hsc
                  obtain ⟨rfl, _⟩ := hsc
                  simpa using hrest
                | some p =>
                  obtain ⟨name, after⟩ := p
                  have := cut2_spec _ _ _ _ _ hcut
                  subst this
                  have := hasMetaAux_close (x :: name) after x hxbs
                  simp only [List.cons_append] at this
                  rw [this] at hrest; cases hrest
              · simp [hx2] at hsc
        · simp [hlb] at hsc
      cases hsc : (if c = cLB then scanClass rest else none) with
      | some p =>
        obtain ⟨n, r⟩ := p
        have hd := hclass n r hsc
        cases r with
        | ok k => exact ih _ _ _ hd
        | error e => exact ih _ _ _ hd
      | none =>
        simp only []
        cases he : elemChar (c :: rest) with
        | none => rfl
        | some q =>
          obtain ⟨lo, esc, r1⟩ := q
          have h1 := noMeta_elemChar h he
          simp only []
          cases r1 with
          | nil => rfl
          | cons d r2 =>
            simp only []
            split
            · rename_i hd
              have hd1 : d = cDash := hd.1
              subst hd1
              have h2 : hasMetaAux true r2 = false := (noMeta_cons h1 (by decide)).2.2.2
              cases he2 : elemChar r2 with
              | none => rfl
              | some q2 =>
                obtain ⟨hi, esc2, r3⟩ := q2
                exact ih _ _ _ (noMeta_elemChar h2 he2)
            · exact ih _ _ _ h1

theorem scanBracket_noMeta (fn : Bool) (s : Str) (h : hasMetaAux true s = false) :
    ∀ neg items rest, scanBracket fn s ≠ .ok neg items rest := by
  intro neg items rest
  unfold scanBracket
  have hbody : hasMetaAux true (if (s.head? = some cBang ∨ s.head? = some cCaret) then s.tail else s) = false := by
    split
    · rename_i hh
      cases s with
      | nil => simpa using h
      | cons c r =>
        simp only [List.head?_cons, Option.some.injEq] at hh
        have hc : c ≠ cBS := by rcases hh with rfl | rfl <;> decide
        exact (noMeta_cons h hc).2.2.2
    · exact h
  simp only []
  have h2 := scanItems_noMeta fn
    ((if (s.head? = some cBang ∨ s.head? = some cCaret) then s.tail else s).length + 1) true
    { items := [], slash := false, rangeErr := none, classErr := none } _ hbody
  generalize scanItems fn _ true _ _ = r at h2 ⊢
  obtain ⟨st, o⟩ := r
  simp only at h2
  subst h2
  simp only []
  split <;> simp

theorem unescape_cons_ne {c : Rune} (rest : Str) (h : c ≠ cBS) :
    unescape (c :: rest) = c :: unescape rest := by
  conv => lhs; rw [unescape.eq_def]
  simp [h]

theorem unescape_bs_cons (d : Rune) (rest : Str) : unescape (cBS :: d :: rest) = d :: unescape rest := by
  conv => lhs; rw [unescape.eq_def]
  simp

theorem hasExtGroup_cons_ne {c : Rune} (rest : Str) (h : c ≠ cBS) :
    hasExtGroup (c :: rest) = ((isExtOp c && rest.head? == some cLP) || hasExtGroup rest) := by
  conv => lhs; rw [hasExtGroup.eq_def]
  simp [h]

theorem hasExtGroup_bs_cons (d : Rune) (rest : Str) : hasExtGroup (cBS :: d :: rest) = hasExtGroup rest := by
  conv => lhs; rw [hasExtGroup.eq_def]
  simp

/-- A pattern without metacharacters (and without pattern-lists) parses to its unescaped text, or
    is malformed. -/
theorem parseSeq_noMeta (m : Mode) : ∀ (fuel : Nat) (ob : Bool) (prev : Rune) (p : Str),
    p.length < fuel → hasMetaAux ob p = false → (m.ext = false ∨ hasExtGroup p = false) →
    parseSeq m fuel prev p = .ok (litSeq m prev (unescape p)) ∨ ∃ e, parseSeq m fuel prev p = .error e := by
  intro fuel
  induction fuel with
  | zero => intro ob prev p hf; simp at hf
  | succ f ih =>
    intro ob prev p hf hm hext
    cases p with
    | nil => left; simp [parseSeq_nil, unescape, litSeq]
    | cons c rest =>
      have hf' : rest.length < f := by simp at hf; omega
      rw [parseSeq_cons]
      by_cases hbs : c = cBS
      · subst hbs
        simp only [if_true]
        cases rest with
        | nil => right; exact ⟨_, rfl⟩
        | cons d rest' =>
          simp only []
          have hm' : hasMetaAux ob rest' = false := by
            rw [hasMetaAux_cons] at hm; simpa using hm
          have hext' : m.ext = false ∨ hasExtGroup rest' = false := by
            cases hext with
            | inl h => exact .inl h
            | inr h => right; rw [hasExtGroup_bs_cons] at h; exact h
          have hf'' : rest'.length < f := by simp at hf'; omega
          rcases ih ob d rest' hf'' hm' hext' with h | ⟨e, h⟩
          · left; rw [h, unescape_bs_cons]; rfl
          · right; exact ⟨e, by rw [h]; rfl⟩
      · simp only [hbs, if_false]
        rw [hasMetaAux_cons] at hm
        simp only [hbs, if_false] at hm
        have hnq : ¬ (c = cStar ∨ c = cQuest) := by
          intro h; simp [h] at hm
        simp only [hnq, if_false] at hm
        have hnq' := not_or.mp hnq
        simp only [hnq'.1, hnq'.2, false_and, if_false]
        have hgrp : (m.ext && isExtOp c && (rest.head? == some cLP)) = false := by
          cases hext with
          | inl h => simp [h]
          | inr h =>
            rw [hasExtGroup_cons_ne rest hbs] at h
            simp only [Bool.or_eq_false_iff] at h
            cases hm2 : m.ext <;> simp [h.1]
        have hext' : m.ext = false ∨ hasExtGroup rest = false := by
          cases hext with
          | inl h => exact .inl h
          | inr h =>
            right
            rw [hasExtGroup_cons_ne rest hbs] at h
            simp only [Bool.or_eq_false_iff] at h
            exact h.2
        have fin : ∀ ob', hasMetaAux ob' rest = false →
            (andThenG (litTok m prev c) (parseSeq m f c rest) = .ok (litSeq m prev (unescape (c :: rest))) ∨
              ∃ e, andThenG (litTok m prev c) (parseSeq m f c rest) = .error e) := by
          intro ob' hm'
          rcases ih ob' c rest hf' hm' hext' with h | ⟨e, h⟩
          · left; rw [h, unescape_cons_ne rest hbs]; rfl
          · right; exact ⟨e, by rw [h]; rfl⟩
        by_cases hlb : c = cLB
        · subst hlb
          simp only [if_true] at hm ⊢
          cases hsb : scanBracket m.filenames rest with
          | notBracket =>
            have := fin true hm
            rw [litTok_ne_dot m prev (by decide : cLB ≠ cDot)] at this
            exact this
          | malformed e => right; exact ⟨e, rfl⟩
          | ok neg items rest' => exact absurd hsb (scanBracket_noMeta _ _ hm _ _ _)
        · simp only [hlb, if_false, hgrp, Bool.false_eq_true] at hm ⊢
          by_cases hrb : c = cRB
          · simp only [hrb, if_true] at hm
            cases ob with
            | true => simp at hm
            | false =>
              simp only [Bool.false_eq_true, if_false] at hm
              rw [← hrb] at *
              exact fin false hm
          · simp only [hrb, if_false] at hm
            exact fin ob hm

/-! ### modes without EntireString: "contains" semantics -/

theorem tails_mem (t u : Str) : u ∈ tails t ↔ ∃ a, t = a ++ u := by
  induction t with
  | nil =>
    simp only [tails, List.mem_singleton]
    constructor
    · rintro rfl; exact ⟨[], rfl⟩
    · rintro ⟨a, h⟩
      exact (List.append_eq_nil_iff.mp h.symm).2
  | cons x t ih =>
    simp only [tails, List.mem_cons, ih]
    constructor
    · rintro (rfl | ⟨a, rfl⟩)
      · exact ⟨[], rfl⟩
      · exact ⟨x :: a, rfl⟩
    · rintro ⟨a, h⟩
      cases a with
      | nil => left; simpa using h.symm
      | cons y a' =>
        simp at h
        right; exact ⟨a', h.2⟩

/-- Substring search with a parsed pattern: some substring is in the pattern's language
    (read from the start of a path component, as `globMatch` does). -/
theorem search_iff (m : Mode) (g : Glob) (t : Str) :
    (tails t).any (fun u => gmatch m g true u (fun _ _ => true)) = true ↔
      ∃ a b c, t = a ++ b ++ c ∧ GDen m g true b := by
  rw [List.any_eq_true]
  constructor
  · rintro ⟨u, hu, hg⟩
    obtain ⟨a, rfl⟩ := (tails_mem t u).mp hu
    obtain ⟨s1, s2, rfl, hd, _⟩ := (gmatch_iff m g true u _).mp hg
    exact ⟨a, s1, s2, by simp, hd⟩
  · rintro ⟨a, b, c, rfl, hd⟩
    refine ⟨b ++ c, (tails_mem _ _).mpr ⟨a, by simp⟩, ?_⟩
    exact (gmatch_iff m g true (b ++ c) _).mpr ⟨b, c, rfl, hd, rfl⟩

end ShVerif.L3
