import ShVerif.Proofs.L3Glob
/-
  C18 — lemmas: a pattern made of ordinary and escaped characters only parses to a sequence of
  literals, and such a sequence matches exactly its own text.
-/
namespace ShVerif.L3

/-- The parse of a pattern that consists of literal characters only. -/
def litSeq : Str → Glob
  | [] => .eps
  | c :: r => .seq (.lit c) (litSeq r)

/-- "The same text", up to case when the mode folds case. -/
def sameText (m : Mode) : Str → Str → Prop
  | [], [] => True
  | x :: t, c :: s => chEq m.nocase c x = true ∧ sameText m t s
  | _, _ => False

theorem chEq_false_iff (c x : Rune) : chEq false c x = true ↔ x = c := by
  simp [chEq, variants, eq_comm]

theorem sameText_eq {m : Mode} (h : m.nocase = false) (t s : Str) : sameText m t s ↔ t = s := by
  induction t generalizing s with
  | nil => cases s <;> simp [sameText]
  | cons x t ih =>
    cases s with
    | nil => simp [sameText]
    | cons c s => simp [sameText, h, chEq_false_iff, ih]

theorem GDen_litSeq (m : Mode) (s : Str) : ∀ (b : Bool) (t : Str),
    GDen m (litSeq s) b t ↔ sameText m t s := by
  induction s with
  | nil =>
    intro b t
    cases t <;> simp [litSeq, GDen, sameText]
  | cons c r ih =>
    intro b t
    simp only [litSeq, GDen]
    constructor
    · rintro ⟨s1, s2, rfl, ⟨x, rfl, hx⟩, h2⟩
      exact ⟨hx, (ih _ _).mp h2⟩
    · intro h
      cases t with
      | nil => simp [sameText] at h
      | cons x t' =>
        obtain ⟨hx, hr⟩ := h
        exact ⟨[x], t', rfl, ⟨x, rfl, hx⟩, (ih _ _).mpr hr⟩

/-! ### unfolding lemmas -/

theorem hasMetaAux_cons (ob : Bool) (c : Rune) (rest : Str) :
    hasMetaAux ob (c :: rest) =
      if c = cBS then
        (match rest with
         | [] => false
         | _ :: rest' => hasMetaAux ob rest')
      else if c = cStar ∨ c = cQuest then true
      else if c = cLB then hasMetaAux true rest
      else if c = cRB then (if ob then true else hasMetaAux ob rest)
      else hasMetaAux ob rest := by
  conv => lhs; rw [hasMetaAux.eq_def]
  rfl

theorem parseSeq_cons (m : Mode) (fuel : Nat) (prev c : Rune) (rest : Str) :
    parseSeq m (fuel + 1) prev (c :: rest) =
    if c = cBS then
      match rest with
      | [] => .error .trailingBackslash
      | d :: rest' => andThenG (.lit d) (parseSeq m fuel d rest')
    else if c = cQuest ∧ !(m.ext && rest.head? == some cLP) then andThenG .any (parseSeq m fuel c rest)
    else if c = cStar ∧ !(m.ext && rest.head? == some cLP) then
      if m.filenames && !m.noglobstar && (prev == 0 || prev == cSlash) && rest.head? == some cStar
          && (rest.tail.isEmpty || rest.tail.head? == some cSlash) then
        match rest.tail with
        | _ :: rest3 => andThenG (.globstar true) (parseSeq m fuel cSlash rest3)
        | [] => .ok (.seq (.globstar false) .eps)
      else andThenG .star (parseSeq m fuel c rest)
    else if c = cLB then
      match scanBracket m.filenames rest with
      | .notBracket => andThenG (.lit cLB) (parseSeq m fuel cLB rest)
      | .malformed e => .error e
      | .ok neg items rest' => andThenG (.bracket neg items) (parseSeq m fuel cRB rest')
    else if m.ext && isExtOp c && rest.head? == some cLP then
      match scanGroup m.filenames (rest.length + 1) 0 [] [] rest.tail with
      | .error e => .error e
      | .ok none => andThenG (.lit c) (parseSeq m fuel c rest)
      | .ok (some (alts, rest')) =>
        match alts.mapM (parseSeq m fuel cLP) with
        | .error e => .error e
        | .ok gs => andThenG (.ext c (altGlob gs)) (parseSeq m fuel cRP rest')
    else andThenG (.lit c) (parseSeq m fuel c rest) := by
  conv => lhs; rw [parseSeq.eq_def]
  rfl

theorem parseSeq_nil (m : Mode) (fuel : Nat) (prev : Rune) : parseSeq m (fuel + 1) prev [] = .ok .eps := by
  conv => lhs; rw [parseSeq.eq_def]

/-! ### QuoteMeta -/

theorem quoteMeta_length_ge (s : Str) : s.length ≤ (quoteMeta s).length := by
  induction s with
  | nil => simp [quoteMeta]
  | cons c r ih =>
    simp only [quoteMeta]
    split <;> simp <;> omega

theorem special_ne {c : Rune} (h : isQuoteMetaSpecial c = false) :
    c ≠ cStar ∧ c ≠ cQuest ∧ c ≠ cLB ∧ c ≠ cBS := by
  simp only [isQuoteMetaSpecial, Bool.or_eq_false_iff, beq_eq_false_iff_ne] at h
  exact ⟨h.1.1.1, h.1.1.2, h.1.2, h.2⟩

theorem hasMetaAux_quoteMeta (s : Str) : hasMetaAux false (quoteMeta s) = false := by
  induction s with
  | nil => simp [quoteMeta, hasMetaAux]
  | cons c r ih =>
    simp only [quoteMeta]
    by_cases hc : isQuoteMetaSpecial c = true
    · simp only [hc, if_true, hasMetaAux_cons]
      simpa using ih
    · have hc' : isQuoteMetaSpecial c = false := by simpa using hc
      obtain ⟨h1, h2, h3, h4⟩ := special_ne hc'
      simp only [hc, if_false, Bool.false_eq_true, hasMetaAux_cons, h1, h2, h3, h4, false_or, ih]
      simp

theorem head_quoteMeta_lp (r : Str) : ((quoteMeta r).head? == some cLP) = (r.head? == some cLP) := by
  cases r with
  | nil => simp [quoteMeta]
  | cons d r' =>
    simp only [quoteMeta]
    by_cases hd : isQuoteMetaSpecial d = true
    · simp only [hd, if_true, List.head?_cons]
      have : d ≠ cLP := by
        intro h; subst h; revert hd; decide
      have h2 : cBS ≠ cLP := by decide
      have e1 : (cBS == cLP) = false := by simpa using h2
      have e2 : (d == cLP) = false := by simpa using this
      simp [e1, e2]
    · simp [hd]

theorem parseSeq_quoteMeta (m : Mode) (s : Str) :
    ∀ (fuel : Nat) (prev : Rune), s.length < fuel → (m.ext = false ∨ hasExtOpener s = false) →
      parseSeq m fuel prev (quoteMeta s) = .ok (litSeq s) := by
  induction s with
  | nil =>
    intro fuel prev hf _
    cases fuel with
    | zero => simp at hf
    | succ f => simp [quoteMeta, parseSeq_nil, litSeq]
  | cons c r ih =>
    intro fuel prev hf hext
    cases fuel with
    | zero => simp at hf
    | succ f =>
      have hf' : r.length < f := by simp at hf; omega
      have hext' : m.ext = false ∨ hasExtOpener r = false := by
        cases hext with
        | inl h => exact .inl h
        | inr h =>
          right
          cases r with
          | nil => simp [hasExtOpener]
          | cons d r' =>
            simp only [hasExtOpener, Bool.or_eq_false_iff] at h
            exact h.2
      by_cases hc : isQuoteMetaSpecial c = true
      · simp only [quoteMeta, hc, if_true, parseSeq_cons, litSeq]
        rw [ih f c hf' hext']; rfl
      · have hc' : isQuoteMetaSpecial c = false := by simpa using hc
        obtain ⟨h1, h2, h3, h4⟩ := special_ne hc'
        have hgrp : (m.ext && isExtOp c && ((quoteMeta r).head? == some cLP)) = false := by
          rw [head_quoteMeta_lp]
          cases hext with
          | inl h => simp [h]
          | inr h =>
            cases r with
            | nil => simp
            | cons d r' =>
              simp only [hasExtOpener, Bool.or_eq_false_iff, hc', Bool.not_false, Bool.and_true] at h
              have := h.1
              simp only [List.head?_cons]
              cases hd : (some d == some cLP) with
              | false => simp
              | true =>
                have hd' : (d == cLP) = true := by simpa using hd
                simp only [hd', Bool.and_true] at this
                simp [this]
        simp only [quoteMeta, hc, if_false, Bool.false_eq_true, parseSeq_cons, litSeq, h4, h2, h1, h3,
          false_and, hgrp]
        rw [ih f c hf' hext']; rfl

end ShVerif.L3
