/-
  L4: line numbers in the lexer.

  Part 1 (general): a word token that starts on line `l` ends on line `l` + the newlines in its
  bytes, and that is the largest line number of its parts (`Tok.ok3`, `lexAll_ok3`).

  Part 2 (printed text): lexing `render ps` for a piece list with `lexChain ps` puts the k-th
  token on line 1 + the newlines written before the k-th word/operator piece (`lexAll_pieces_lines`).
-/
import ShVerif.Proofs.L4Flat
import ShVerif.Model.L4Transcript
namespace ShVerif.L4

theorem nls_nil : nls [] = 0 := rfl
theorem nls_cons (b : UInt8) (bs : Bytes) : nls (b :: bs) = (if b == 10 then 1 else 0) + nls bs := by
  unfold nls
  rw [List.count_cons]
  by_cases h : b = 10
  · subst h; simp; omega
  · have : (b == 10) = false := by simpa using h
    simp [this]
theorem nls_app (a b : Bytes) : nls (a ++ b) = nls a + nls b := by simp [nls, List.count_append]

theorem adv_line_eq (p : Pos) (b : UInt8) : (p.adv b).line = p.line + (if b == 10 then 1 else 0) := by
  unfold Pos.adv
  split <;> simp

def pendB : LexMode → Bytes
  | .idle => []
  | .lit _ a => a.reverse
  | .sgl _ a => 39 :: a.reverse

/-- every part read so far ends on or before the current line; right after a closed quote the
    last part ends on the current line; the literal being read is made of safe bytes -/
structure LineInv (mode : LexMode) (acc : List WordPart) (pos : Pos) : Prop where
  le : ∀ x ∈ acc, x.endMax ≤ pos.line
  idle : mode = .idle → acc ≠ [] → ∃ x ∈ acc, x.endMax = pos.line
  safe : match mode with
    | .lit _ a => a ≠ [] ∧ ∀ b ∈ a, isSafe b = true
    | _ => True

theorem partsMax_le (l : List WordPart) (M : Nat) (h : ∀ x ∈ l, x.endMax ≤ M) : partsMax l ≤ M := by
  induction l with
  | nil => simp [partsMax]
  | cons a r ih =>
    simp only [partsMax]
    have := h a (by simp)
    have := ih (fun x hx => h x (by simp [hx]))
    omega

theorem partsMax_ge (l : List WordPart) (x : WordPart) (h : x ∈ l) : x.endMax ≤ partsMax l := by
  induction l with
  | nil => cases h
  | cons a r ih =>
    simp only [partsMax]
    rcases List.mem_cons.mp h with rfl | h
    · omega
    · have := ih h; omega

theorem partsMax_eq (l : List WordPart) (M : Nat) (h : ∀ x ∈ l, x.endMax ≤ M) (h2 : ∃ x ∈ l, x.endMax = M) :
    partsMax l = M := by
  obtain ⟨x, hx, he⟩ := h2
  have := partsMax_le l M h
  have := partsMax_ge l x hx
  omega

theorem lit_bytes_safe (st e : Pos) (a : Bytes) (hne : a ≠ []) (hs : ∀ b ∈ a, isSafe b = true) :
    (WordPart.lit st e a.reverse).bytes = a.reverse :=
  (WordPart.wf_lit_bytes (lit_wf st e a hne hs)).1

theorem wordBytes_rev_cons (p : WordPart) (acc : List WordPart) :
    wordBytes (p :: acc).reverse = wordBytes acc.reverse ++ p.bytes := by
  simp [wordBytes, List.flatMap_append]

theorem sgl_endMax (l r : Pos) (v : Bytes) : (WordPart.sgl l r v).endMax = r.line := by
  simp only [WordPart.endMax, WordPart.stop]
  split <;> simp

theorem lexWord_lines : ∀ (src : Bytes) (pos : Pos) (mode : LexMode) (acc res : List WordPart) (stop : Pos) (r : Bytes),
    lexWord src pos mode acc = .done res stop r → LineInv mode acc pos →
    wordBytes res ++ r = wordBytes acc.reverse ++ pendB mode ++ src ∧
    (∃ c, src = c ++ r ∧ stop.line = pos.line + nls c) ∧
    (res ≠ [] → partsMax res = stop.line) := by
  intro src
  induction src with
  | nil =>
    intro pos mode acc res stop r h inv
    cases mode with
    | idle =>
      rw [lexWord] at h
      simp only [WordLex.done.injEq] at h
      obtain ⟨rfl, rfl, rfl⟩ := h
      refine ⟨by simp [pendB], ⟨[], by simp, by simp [nls_nil]⟩, ?_⟩
      intro hne
      have hacc : acc ≠ [] := by intro e; subst e; simp at hne
      refine partsMax_eq _ _ (fun x hx => inv.le x (by simpa using hx)) ?_
      obtain ⟨x, hx, he⟩ := inv.idle rfl hacc
      exact ⟨x, by simpa using hx, he⟩
    | lit st a =>
      rw [lexWord] at h
      simp only [WordLex.done.injEq] at h
      obtain ⟨rfl, rfl, rfl⟩ := h
      have hs := inv.safe
      simp only at hs
      refine ⟨by rw [wordBytes_rev_cons, lit_bytes_safe st pos a hs.1 hs.2]; simp [pendB], ⟨[], by simp, by simp [nls_nil]⟩, ?_⟩
      intro _
      refine partsMax_eq _ _ ?_ ⟨WordPart.lit st pos a.reverse, by simp, rfl⟩
      intro x hx
      simp only [List.mem_reverse, List.mem_cons] at hx
      rcases hx with rfl | hx
      · exact Nat.le_refl _
      · exact inv.le x hx
    | sgl l a => rw [lexWord] at h; cases h
  | cons b rest ih =>
    intro pos mode acc res stop r h inv
    have hadv := adv_line_eq pos b
    have hmono : pos.line ≤ (pos.adv b).line := by rw [hadv]; omega
    have hle' : ∀ x ∈ acc, x.endMax ≤ (pos.adv b).line := fun x hx => Nat.le_trans (inv.le x hx) hmono
    -- the conclusion for a recursive call that consumed `b`
    have step : ∀ (mode' : LexMode) (acc' : List WordPart), lexWord rest (pos.adv b) mode' acc' = .done res stop r →
        LineInv mode' acc' (pos.adv b) →
        wordBytes acc'.reverse ++ pendB mode' = wordBytes acc.reverse ++ pendB mode ++ [b] →
        wordBytes res ++ r = wordBytes acc.reverse ++ pendB mode ++ (b :: rest) ∧
        (∃ c, b :: rest = c ++ r ∧ stop.line = pos.line + nls c) ∧ (res ≠ [] → partsMax res = stop.line) := by
      intro mode' acc' h' inv' hb
      obtain ⟨i1, ⟨c, i2, i3⟩, i4⟩ := ih _ _ _ _ _ _ h' inv'
      refine ⟨?_, ⟨b :: c, by rw [i2]; rfl, ?_⟩, i4⟩
      · rw [i1, hb]; simp
      · rw [i3, hadv, nls_cons]; omega
    cases mode with
    | sgl left a =>
      rw [lexWord] at h
      split at h
      · rename_i hq
        have hb : b = 39 := by simpa using hq
        subst hb
        refine step .idle _ h ⟨?_, ?_, trivial⟩ ?_
        · intro x hx
          rcases List.mem_cons.mp hx with rfl | hx
          · rw [sgl_endMax]; exact hmono
          · exact hle' x hx
        · intro _ _
          refine ⟨_, List.mem_cons_self, ?_⟩
          rw [sgl_endMax, hadv]; simp
        · rw [wordBytes_rev_cons]; simp [pendB, WordPart.bytes]
      · split at h
        · exact step (.sgl left (b :: a)) acc h ⟨hle', (by intro e; cases e), trivial⟩ (by simp [pendB])
        · cases h
    | lit st a =>
      have hs := inv.safe
      simp only at hs
      rw [lexWord] at h
      split at h
      · rename_i hsafe
        refine step (.lit st (b :: a)) acc h ⟨hle', (by intro e; cases e), ?_⟩ (by simp [pendB])
        exact ⟨by simp, fun x hx => by
          rcases List.mem_cons.mp hx with rfl | hx
          · exact hsafe
          · exact hs.2 x hx⟩
      · split at h
        · rename_i hq
          have hb : b = 39 := by simpa using hq
          subst hb
          refine step (.sgl pos []) _ h ⟨?_, (by intro e; cases e), trivial⟩ ?_
          · intro x hx
            rcases List.mem_cons.mp hx with rfl | hx
            · exact hmono
            · exact hle' x hx
          · rw [wordBytes_rev_cons, lit_bytes_safe st pos a hs.1 hs.2]; simp [pendB]
        · split at h
          · simp only [WordLex.done.injEq] at h
            obtain ⟨rfl, rfl, rfl⟩ := h
            refine ⟨by rw [wordBytes_rev_cons, lit_bytes_safe st pos a hs.1 hs.2]; simp [pendB],
              ⟨[], by simp, by simp [nls_nil]⟩, ?_⟩
            intro _
            refine partsMax_eq _ _ ?_ ⟨WordPart.lit st pos a.reverse, by simp, rfl⟩
            intro x hx
            simp only [List.mem_reverse, List.mem_cons] at hx
            rcases hx with rfl | hx
            · exact Nat.le_refl _
            · exact inv.le x hx
          · cases h
    | idle =>
      rw [lexWord] at h
      split at h
      · rename_i hsafe
        refine step (.lit pos [b]) acc h ⟨hle', (by intro e; cases e), ?_⟩ (by simp [pendB])
        exact ⟨by simp, fun x hx => by
          have : x = b := by simpa using hx
          subst this; exact hsafe⟩
      · split at h
        · rename_i hq
          have hb : b = 39 := by simpa using hq
          subst hb
          exact step (.sgl pos []) acc h ⟨hle', (by intro e; cases e), trivial⟩ (by simp [pendB])
        · split at h
          · simp only [WordLex.done.injEq] at h
            obtain ⟨rfl, rfl, rfl⟩ := h
            refine ⟨by simp [pendB], ⟨[], by simp, by simp [nls_nil]⟩, ?_⟩
            intro hne
            have hacc : acc ≠ [] := by intro e; subst e; simp at hne
            refine partsMax_eq _ _ (fun x hx => inv.le x (by simpa using hx)) ?_
            obtain ⟨x, hx, he⟩ := inv.idle rfl hacc
            exact ⟨x, by simpa using hx, he⟩
          · cases h

/-- a word token that starts on line `l` ends on line `l` + the newlines in its bytes, which is
    the largest line number of its parts -/
def Tok.ok3 : Tok → Pos → Prop
  | .word w _, p => partsMax w.parts = p.line + nls (wordBytes w.parts)
  | _, _ => True

theorem lexWord_start_lines (b : UInt8) (rest : Bytes) (p : Pos) (parts : List WordPart) (stop : Pos) (r : Bytes)
    (hl : lexWord (b :: rest) p .idle [] = .done parts stop r) (hne : parts ≠ []) :
    partsMax parts = p.line + nls (wordBytes parts) ∧ stop.line = p.line + nls (wordBytes parts) ∧
      b :: rest = wordBytes parts ++ r := by
  obtain ⟨h1, ⟨c, h2, h3⟩, h4⟩ := lexWord_lines _ _ _ _ _ _ _ hl
    ⟨(by intro x hx; cases hx), (by intro _ h; exact absurd rfl h), trivial⟩
  simp only [List.reverse_nil, wordBytes, List.flatMap_nil, pendB, List.nil_append] at h1
  have hc : c = parts.flatMap WordPart.bytes := by
    rw [h2] at h1
    exact (List.append_cancel_right h1).symm
  subst hc
  exact ⟨by rw [h4 hne, h3]; rfl, h3, by rw [h2]; rfl⟩

theorem nextTok_ok3 (sk : Bool) (src : Bytes) (spos : Pos) :
    Tok.ok3 (nextTok sk src spos).tok (nextTok sk src spos).pos := by
  unfold nextTok
  cases hsk : skipSpace sk src spos with
  | mk r p =>
    cases r with
    | nil => exact trivial
    | cons b rest =>
      show Tok.ok3 _ _
      simp only
      repeat' split
      all_goals first
        | trivial
        | (rename_i hb _
           have hb' : b = 123 ∨ b = 125 ∨ b = 33 := by simpa [or_assoc] using hb
           rcases hb' with rfl | rfl | rfl <;>
             simp [Tok.ok3, partsMax, WordPart.endMax, Pos.adv, wordBytes, WordPart.bytes, trailingBackslashes, nls])
        | (rename_i parts stop rr hlw
           have hb : (isSafe b || b == 39) = true := ‹(isSafe b || b == 39) = true›
           have k2 := (lexWord_start_ok b rest p _ _ _ [] hb hlw (by simp [Sorted])).2.1
           have hne : parts ≠ [] := by
             intro e
             simp [Word.wf, e] at k2
           exact (lexWord_start_lines b rest p _ _ _ hlw hne).1)

theorem lexAllF_ok3 : ∀ (fuel : Nat) (sk : Bool) (src : Bytes) (spos : Pos),
    ∀ tp ∈ lexAllF fuel sk src spos, tp.1.ok3 tp.2 := by
  intro fuel
  induction fuel with
  | zero => intro sk src spos tp h; simp [lexAllF] at h
  | succ n ih =>
    intro sk src spos tp h
    have h1 := nextTok_ok3 sk src spos
    rw [lexAllF] at h
    split at h
    · rename_i he; simp only [List.mem_singleton] at h; subst h; exact trivial
    · rename_i he; simp only [List.mem_singleton] at h; subst h; exact trivial
    · rename_i he; simp only [List.mem_singleton] at h; subst h; exact trivial
    · rcases List.mem_cons.mp h with rfl | h
      · exact h1
      · exact ih _ _ _ tp h

theorem lexAll_ok3 (src : Bytes) : ∀ tp ∈ lexAll src, tp.1.ok3 tp.2 :=
  lexAllF_ok3 _ _ _ _

/-! ## Part 2: the lines of the tokens of printed text -/

theorem skipSpace_spaces_line (sk : Bool) (n : Nat) (r : Bytes) :
    ∀ p : Pos, ∃ p', skipSpace sk (List.replicate n 32 ++ r) p = skipSpace sk r p' ∧ p'.line = p.line := by
  induction n with
  | zero => intro p; exact ⟨p, rfl, rfl⟩
  | succ n ih =>
    intro p
    obtain ⟨p', h, hl⟩ := ih (p.adv 32)
    exact ⟨p', by rw [List.replicate_succ, List.cons_append, skipSpace_space, h], by rw [hl]; simp [Pos.adv]⟩

theorem skipSpace_tabs_line (sk : Bool) (n : Nat) (r : Bytes) :
    ∀ p : Pos, ∃ p', skipSpace sk (List.replicate n 9 ++ r) p = skipSpace sk r p' ∧ p'.line = p.line := by
  induction n with
  | zero => intro p; exact ⟨p, rfl, rfl⟩
  | succ n ih =>
    intro p
    obtain ⟨p', h, hl⟩ := ih (p.adv 9)
    exact ⟨p', by rw [List.replicate_succ, List.cons_append, skipSpace_tab, h], by rw [hl]; simp [Pos.adv]⟩

/-- `nextTok_word` with the line on which the word ends -/
theorem nextTok_word_line (sk : Bool) (parts : List WordPart) (hne : parts ≠ []) (hw : ∀ p ∈ parts, p.wf = true)
    (k : Bytes) (hk : eofOrDelim k = true) (p : Pos) :
    ∃ res stop, nextTok sk (wordBytes parts ++ k) p = ⟨.word ⟨res⟩ (litWord? res), p, k, stop⟩ ∧
      stop.line = p.line + nls (wordBytes parts) := by
  obtain ⟨b, t, hbt, hb⟩ := wordBytes_head parts hne hw
  obtain ⟨res, stop, h1, _⟩ := lexWord_parts parts hw k hk p .idle [] (by simp [LexMode.notSgl])
  refine ⟨res, stop, ?_, ?_⟩
  · obtain ⟨f0, f1, f2, f3, f4, f5, f6, f7, f8, f9, f10⟩ := wordStart_facts b hb
    unfold nextTok
    rw [hbt] at h1 ⊢
    rw [List.cons_append, skipSpace_tok sk b _ p f0]
    rw [List.cons_append] at h1
    simp only [f1, f2, f3, f4, f5, f6, f7, f8, f9, f10, Bool.false_eq_true, ↓reduceIte, Bool.or_self, h1]
  · have hb' : (isSafe b || b == 39) = true := (wordStart_facts b hb).2.2.2.2.2.2.2.2.2.2
    rw [hbt, List.cons_append] at h1
    have k2 := (lexWord_start_ok b (t ++ k) p _ _ _ [] hb' h1 (by simp [Sorted])).2.1
    have hres : res ≠ [] := by
      intro e
      simp [Word.wf, e] at k2
    obtain ⟨_, l2, l3⟩ := lexWord_start_lines b (t ++ k) p res stop k h1 hres
    have : wordBytes res = wordBytes parts := by
      rw [hbt]
      have : wordBytes res ++ k = (b :: t) ++ k := by rw [← l3]; rfl
      exact List.append_cancel_right this
    rw [l2, this]

/-- the lines of the tokens the lexer gives for the pieces (newline tokens and the final `eof`
    included), when the first piece starts on line `L` -/
def expectLines (sk : Bool) (L : Nat) : List Piece → List Nat
  | [] => [L]
  | .word parts :: rest => L :: expectLines false (L + nls (wordBytes parts)) rest
  | .op b :: rest => (match opTok b with | some _ => [L] | none => []) ++ expectLines false L rest
  | .gap b :: rest =>
    match gapKind b with
    | some .newline => if sk then expectLines true (L + 1) rest else L :: expectLines true (L + 1) rest
    | some .bsnl => expectLines sk (L + 1) rest
    | _ => expectLines sk L rest

theorem lexAllF_pieces_lines (ps : List Piece) : lexChain ps = true → ∀ (sk : Bool) (pos : Pos) (fuel : Nat),
    fuel ≥ (render ps).length + 1 →
    (lexAllF fuel sk (render ps) pos).map (fun tp => tp.2.line) = expectLines sk pos.line ps := by
  induction ps with
  | nil =>
    intro _ sk pos fuel hf
    cases fuel with
    | zero => simp [render] at hf
    | succ n =>
      rw [lexAllF]
      simp [render, nextTok_eof, expectLines]
  | cons pc rest ih =>
    intro hc sk pos fuel hf
    simp only [lexChain, Bool.and_eq_true] at hc
    obtain ⟨⟨hshape, hfollow⟩, hrest⟩ := hc
    have hren : render (pc :: rest) = pc.bytes ++ render rest := by simp [render]
    rw [hren] at hf ⊢
    cases pc with
    | word parts =>
      simp only [Piece.shapeOK, Bool.and_eq_true, Bool.not_eq_true', List.isEmpty_eq_false_iff, List.all_eq_true] at hshape
      obtain ⟨hne, hwf⟩ := hshape
      have hk := eofOrDelim_of_head (by simpa [followOK] using hfollow)
      obtain ⟨res, stop, hnt, hstop⟩ := nextTok_word_line sk parts hne hwf (render rest) hk pos
      obtain ⟨b, t, hbt, _⟩ := wordBytes_head parts hne hwf
      cases fuel with
      | zero => simp at hf
      | succ n =>
        simp only [Piece.bytes]
        rw [lexAllF_step_tok n sk _ pos _ _ _ _ hnt (by simp) (by simp) (by simp)]
        have hfu : n ≥ (render rest).length + 1 := by
          simp only [Piece.bytes, hbt, List.length_append, List.length_cons] at hf
          omega
        have e := ih hrest false stop n hfu
        rw [hstop] at e
        rw [expectLines]
        have : (Tok.word ⟨res⟩ (litWord? res) == Tok.newl) = false := by simp
        rw [this]
        exact congrArg (pos.line :: ·) e
    | op b =>
      simp only [Piece.bytes]
      simp only [Piece.shapeOK] at hshape
      cases fuel with
      | zero => simp at hf
      | succ n =>
        have hfu : n ≥ (render rest).length + 1 := by
          have : b ≠ [] := by
            intro hb; subst hb; simp [opTok] at hshape
          have : b.length ≥ 1 := by
            cases b with
            | nil => exact absurd rfl this
            | cons _ _ => simp
          simp only [Piece.bytes, List.length_append] at hf
          omega
        rw [expectLines]
        by_cases h1 : b = [59]
        · subst h1
          have hfo : semiFollowOK (render rest) = true := by
            simp only [followOK, ↓reduceIte] at hfollow
            cases hr : render rest with
            | nil => rfl
            | cons c t => rw [hr] at hfollow; simp [optAll] at hfollow; simp only [semiFollowOK]; split <;> simp_all
          have e := ih hrest false (pos.adv 59) n hfu
          rw [show (pos.adv 59).line = pos.line from by simp [Pos.adv]] at e
          rw [List.singleton_append, lexAllF_step_tok n sk _ pos _ _ _ _ (nextTok_semi sk _ pos hfo) (by simp) (by simp) (by simp),
            show opTok [59] = some ATok.semi from by decide]
          exact congrArg (pos.line :: ·) e
        by_cases h2 : b = [38]
        · subst h2
          have hfo : ampFollowOK (render rest) = true := by
            simp only [followOK] at hfollow
            cases hr : render rest with
            | nil => rfl
            | cons c t => rw [hr] at hfollow; simp [optAll] at hfollow; simp only [ampFollowOK]; split <;> simp_all
          have e := ih hrest false (pos.adv 38) n hfu
          rw [show (pos.adv 38).line = pos.line from by simp [Pos.adv]] at e
          rw [List.singleton_append, lexAllF_step_tok n sk _ pos _ _ _ _ (nextTok_amp sk _ pos hfo) (by simp) (by simp) (by simp),
            show opTok [38] = some ATok.amp from by decide]
          exact congrArg (pos.line :: ·) e
        by_cases h3 : b = [38, 38]
        · subst h3
          have e := ih hrest false ((pos.adv 38).adv 38) n hfu
          rw [show ((pos.adv 38).adv 38).line = pos.line from by simp [Pos.adv]] at e
          rw [show ([38, 38] : Bytes) ++ render rest = 38 :: 38 :: render rest from rfl, lexAllF_step_tok n sk _ pos _ _ _ _ (nextTok_andAnd sk _ pos) (by simp) (by simp) (by simp),
            show opTok [38, 38] = some ATok.andAnd from by decide]
          exact congrArg (pos.line :: ·) e
        by_cases h4 : b = [124, 124]
        · subst h4
          have e := ih hrest false ((pos.adv 124).adv 124) n hfu
          rw [show ((pos.adv 124).adv 124).line = pos.line from by simp [Pos.adv]] at e
          rw [show ([124, 124] : Bytes) ++ render rest = 124 :: 124 :: render rest from rfl, lexAllF_step_tok n sk _ pos _ _ _ _ (nextTok_orOr sk _ pos) (by simp) (by simp) (by simp),
            show opTok [124, 124] = some ATok.orOr from by decide]
          exact congrArg (pos.line :: ·) e
        by_cases h5 : b = [124]
        · subst h5
          have hfo : pipeFollowOK (render rest) = true := by
            simp only [followOK] at hfollow
            cases hr : render rest with
            | nil => rfl
            | cons c t => rw [hr] at hfollow; simp [optAll] at hfollow; simp only [pipeFollowOK]; split <;> simp_all
          have e := ih hrest false (pos.adv 124) n hfu
          rw [show (pos.adv 124).line = pos.line from by simp [Pos.adv]] at e
          rw [List.singleton_append, lexAllF_step_tok n sk _ pos _ _ _ _ (nextTok_pipe sk _ pos hfo) (by simp) (by simp) (by simp),
            show opTok [124] = some ATok.pipe from by decide]
          exact congrArg (pos.line :: ·) e
        by_cases h6 : b = [40]
        · subst h6
          have hfo : lparenFollowOK (render rest) = true := by
            simp only [followOK] at hfollow
            cases hr : render rest with
            | nil => rfl
            | cons c t => rw [hr] at hfollow; simp [optAll] at hfollow; simp only [lparenFollowOK]; split <;> simp_all
          have e := ih hrest false (pos.adv 40) n hfu
          rw [show (pos.adv 40).line = pos.line from by simp [Pos.adv]] at e
          rw [List.singleton_append, lexAllF_step_tok n sk _ pos _ _ _ _ (nextTok_lparen sk _ pos hfo) (by simp) (by simp) (by simp),
            show opTok [40] = some ATok.lparen from by decide]
          exact congrArg (pos.line :: ·) e
        by_cases h7 : b = [41]
        · subst h7
          have e := ih hrest false (pos.adv 41) n hfu
          rw [show (pos.adv 41).line = pos.line from by simp [Pos.adv]] at e
          rw [List.singleton_append, lexAllF_step_tok n sk _ pos _ _ _ _ (nextTok_rparen sk _ pos) (by simp) (by simp) (by simp),
            show opTok [41] = some ATok.rparen from by decide]
          exact congrArg (pos.line :: ·) e
        have hk : b = [123] ∨ b = [125] ∨ b = [33] → eofOrDelim (render rest) = true := by
          intro hb
          apply eofOrDelim_of_head
          simp only [followOK, h1, h2, h5, h6, ↓reduceIte, hb] at hfollow
          exact hfollow
        by_cases h8 : b = [123]
        · subst h8
          have e := ih hrest false (pos.adv 123) n hfu
          rw [show (pos.adv 123).line = pos.line from by simp [Pos.adv]] at e
          rw [List.singleton_append, lexAllF_step_tok n sk _ pos _ _ _ _ (nextTok_rsrv sk 123 (Or.inl rfl) _ pos (hk (Or.inl rfl))) (by simp) (by simp) (by simp),
            show opTok [123] = some ATok.lbrace from by decide]
          exact congrArg (pos.line :: ·) e
        by_cases h9 : b = [125]
        · subst h9
          have e := ih hrest false (pos.adv 125) n hfu
          rw [show (pos.adv 125).line = pos.line from by simp [Pos.adv]] at e
          rw [List.singleton_append, lexAllF_step_tok n sk _ pos _ _ _ _ (nextTok_rsrv sk 125 (Or.inr (Or.inl rfl)) _ pos (hk (Or.inr (Or.inl rfl)))) (by simp) (by simp) (by simp),
            show opTok [125] = some ATok.rbrace from by decide]
          exact congrArg (pos.line :: ·) e
        by_cases h10 : b = [33]
        · subst h10
          have e := ih hrest false (pos.adv 33) n hfu
          rw [show (pos.adv 33).line = pos.line from by simp [Pos.adv]] at e
          rw [List.singleton_append, lexAllF_step_tok n sk _ pos _ _ _ _ (nextTok_rsrv sk 33 (Or.inr (Or.inr rfl)) _ pos (hk (Or.inr (Or.inr rfl)))) (by simp) (by simp) (by simp),
            show opTok [33] = some ATok.bang from by decide]
          exact congrArg (pos.line :: ·) e
        simp [opTok, h1, h2, h3, h4, h5, h6, h7, h8, h9, h10] at hshape
    | gap b =>
      simp only [Piece.bytes] at hf ⊢
      simp only [Piece.shapeOK] at hshape
      cases hgk : gapKind b with
      | none => simp [hgk] at hshape
      | some k =>
        cases k with
        | newline =>
          have hb := gapKind_newline hgk
          subst hb
          cases sk with
          | true =>
            rw [expectLines, hgk]
            simp only [↓reduceIte]
            rw [List.singleton_append, lexAllF_of_skip fuel (skipSpace_nl_skip _ pos)]
            have e := ih hrest true (pos.adv 10) fuel (by
              simp only [List.length_append, List.length_cons, List.length_nil] at hf
              omega)
            rw [show (pos.adv 10).line = pos.line + 1 from by simp [Pos.adv]] at e
            exact e
          | false =>
            cases fuel with
            | zero => simp at hf
            | succ n =>
              rw [expectLines, hgk]
              rw [List.singleton_append, lexAllF_step_tok n false _ pos _ _ _ _ (nextTok_newl _ pos) (by simp) (by simp) (by simp)]
              have e := ih hrest true (pos.adv 10) n (by
                simp only [List.length_append, List.length_cons, List.length_nil] at hf
                omega)
              rw [show (pos.adv 10).line = pos.line + 1 from by simp [Pos.adv]] at e
              simp only [Bool.false_eq_true, ↓reduceIte]
              exact congrArg (pos.line :: ·) e
        | bsnl =>
          have hb := gapKind_bsnl hgk
          subst hb
          rw [expectLines, hgk]
          rw [show ([92, 10] : Bytes) ++ render rest = 92 :: 10 :: render rest from rfl,
            lexAllF_of_skip fuel (skipSpace_bsnl sk _ pos)]
          exact ih hrest sk ⟨pos.offs + 2, pos.line + 1, 1⟩ fuel (by
            simp only [List.length_append, List.length_cons, List.length_nil] at hf
            omega)
        | blanks =>
          obtain ⟨_, hall⟩ := gapKind_blanks hgk
          rw [expectLines, hgk]
          have hlen : fuel ≥ (render rest).length + 1 := by
            simp only [List.length_append] at hf
            omega
          rcases hall with hall | hall
          · rw [all_eq_replicate b 32 hall]
            obtain ⟨p', hp', hl'⟩ := skipSpace_spaces_line sk b.length (render rest) pos
            rw [lexAllF_of_skip fuel hp', ← hl']
            exact ih hrest sk p' fuel hlen
          · rw [all_eq_replicate b 9 hall]
            obtain ⟨p', hp', hl'⟩ := skipSpace_tabs_line sk b.length (render rest) pos
            rw [lexAllF_of_skip fuel hp', ← hl']
            exact ih hrest sk p' fuel hlen

theorem lexAll_pieces_lines (ps : List Piece) (h : lexChain ps = true) :
    (lexAll (render ps)).map (fun tp => tp.2.line) = expectLines false 1 ps :=
  lexAllF_pieces_lines ps h false _ _ (Nat.le_refl _)

end ShVerif.L4
