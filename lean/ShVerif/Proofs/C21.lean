import ShVerif.Model.C21
/-
  C21 — helper definitions and lemmas for the property theorems (ShVerif/Props/C21.lean).
  Core Lean only.
-/
namespace ShVerif.C21
open Spec

/-! ## set-up shared by the statements -/

def xN : Str := ['x']

/-- The environment in which `x` is in one of the three POSIX states (`v` its value when set). -/
def envOf (st : St) (v : Str) : Env :=
  match st with
  | .unset => []
  | .null => [(xN, Var.ofStr [])]
  | .set => [(xN, Var.ofStr v)]

def peOf (op : ExpOp) (w : Str) : PE := { name := xN, exp := some (op, w) }

/-- What each outcome of the POSIX table means for the result and the environment. -/
def outcomeResult (o : Outcome) (st : St) (v w : Str) : Except Err (Str × Env) :=
  match o with
  | .param => .ok (v, envOf st v)
  | .word => .ok (w, envOf st v)
  | .assign => .ok (w, (envOf st v).put xN (Var.ofStr w))
  | .error => .error (.unsetMsg w)
  | .null => .ok ([], envOf st v)

theorem table_holds (x : Ext) (op : ExpOp) (st : St) (v w : Str) (hv : v ≠ []) (o : Outcome)
    (h : Spec.table op st = some o) :
    paramExp x {} (envOf st v) (peOf op w) = outcomeResult o st v w := by
  cases op <;> cases st <;> simp [Spec.table] at h <;> subst h <;>
    simp [paramExp, envOf, peOf, outcomeResult, ifsOf, Env.get, sOf, xN, Var.zero, Var.ofStr, effIdx, isAtStar,
      Idx.lit, overridingUnset, varInd, varIndNone, Var.string, assignElem, Env.put, hv, bind, Except.bind, pure,
      Except.pure] <;> rfl

/-! ## scalars -/

/-- `name` is an ordinary parameter (not `@` or `*`). -/
def Plain (name : Str) : Prop := name ≠ ['@'] ∧ name ≠ ['*']

theorem effIdx_plain {pe : PE} (h : Plain pe.name) : effIdx pe = pe.idx := by
  unfold effIdx; simp [h.1, h.2]

@[simp] theorem ofStr_set (s : Str) : (Var.ofStr s).set = true := rfl
@[simp] theorem ofStr_kind (s : Str) : (Var.ofStr s).kind = .string := rfl
@[simp] theorem ofStr_str (s : Str) : (Var.ofStr s).str = s := rfl
@[simp] theorem ofList_set (l : List Str) : (Var.ofList l).set = true := rfl
@[simp] theorem ofList_kind (l : List Str) : (Var.ofList l).kind = .indexed := rfl
@[simp] theorem ofList_list (l : List Str) : (Var.ofList l).list = some l := rfl
@[simp] theorem ofList_idx (l : List Str) : (Var.ofList l).idx = none := rfl
@[simp] theorem zero_set : Var.zero.set = false := rfl
@[simp] theorem zero_kind : Var.zero.kind = .unknown := rfl

/-- the common prefix of `paramExp` for a set scalar without subscript -/
theorem varInd_scalar (ifs s : Str) : varInd ifs (Var.ofStr s) .none = .ok (s, true) := by
  simp [varInd, varIndNone, Var.ofStr, Var.zero, Var.string, bind, Except.bind, pure, Except.pure]

theorem length_scalar_eq (x : Ext) (cfg : Cfg) (env : Env) (name s ifs : Str)
    (hifs : ifsOf env = .ok ifs) (hp : Plain name) (hv : env.get name = Var.ofStr s) :
    paramExp x cfg env { name := name, length := true } = .ok (itoa s.length, env) := by
  simp [paramExp, hifs, hv, effIdx, hp.1, hp.2, isAtStar, Idx.lit, varInd_scalar,
    bind, Except.bind, pure, Except.pure]

theorem sliceElems_none (env : Env) (pe : PE) (el : Sl) (ix : Option (List Int)) (b : Bool)
    (h : pe.slice = none) : sliceElems env pe el ix b = .ok el := by
  simp [sliceElems, h]

theorem length_list_eq (x : Ext) (cfg : Cfg) (env : Env) (name ifs : Str) (l : List Str) (star : Bool)
    (hifs : ifsOf env = .ok ifs) (hp : Plain name) (hv : env.get name = Var.ofList l) :
    paramExp x cfg env { name := name, idx := if star then .star else .at, length := true }
      = .ok (itoa l.length, env) := by
  cases star <;>
  simp [paramExp, hifs, hv, effIdx, hp.1, hp.2, isAtStar, Idx.lit, sliceElems,
    bind, Except.bind, pure, Except.pure, Sl.toList]

/-! ## substring -/

theorem slice_scalar_eq (x : Ext) (cfg : Cfg) (env : Env) (name s ifs : Str) (off len : Option Int)
    (hifs : ifsOf env = .ok ifs) (hp : Plain name) (hv : env.get name = Var.ofStr s) :
    paramExp x cfg env { name := name, slice := some (off, len) } = .ok (sliceStr s off len, env) := by
  simp [paramExp, hifs, hv, effIdx, hp.1, hp.2, isAtStar, Idx.lit, varInd_scalar,
    bind, Except.bind, pure, Except.pure]

theorem slicePos_nonneg (n : Nat) (k : Int) (h : 0 ≤ k) : slicePos n k = min k.toNat n := by
  unfold slicePos
  have h1 : ¬ k < 0 := by omega
  simp only [h1, if_false]
  split <;> omega

theorem slicePos_neg (n : Nat) (k : Int) (h : k < 0) :
    slicePos n k = if (n : Int) + k < 0 then n else ((n : Int) + k).toNat := by
  unfold slicePos; simp [h]

def offPos (n : Nat) : Option Int → Nat
  | none => 0
  | some o => slicePos n o

theorem offPos_spec (n : Nat) (off : Option Int) : offPos n off = (Spec.startOf n off).toNat := by
  cases off with
  | none => simp [offPos, Spec.startOf]
  | some o =>
    simp only [offPos, Spec.startOf]
    by_cases ho : 0 ≤ o
    · rw [slicePos_nonneg _ _ ho]; simp only [ge_iff_le, ho, if_true]; omega
    · have ho' : o < 0 := by omega
      rw [slicePos_neg _ _ ho']; simp only [ge_iff_le, ho, if_false]
      split <;> split <;> omega

theorem startOf_range (n : Nat) (off : Option Int) : 0 ≤ Spec.startOf n off ∧ Spec.startOf n off ≤ n := by
  cases off with
  | none => simp [Spec.startOf]
  | some o => simp only [Spec.startOf]; split <;> (try split) <;> omega

theorem sliceStr_eq (s : Str) (off len : Option Int) :
    sliceStr s off len =
      match len with
      | none => s.drop (offPos s.length off)
      | some l => (s.drop (offPos s.length off)).take (slicePos (s.drop (offPos s.length off)).length l) := by
  cases off <;> cases len <;> simp [sliceStr, offPos]

theorem sliceStr_spec (s : Str) (off len : Option Int) (r : Str)
    (h : Spec.substring s off len = some r) : sliceStr s off len = r := by
  rw [sliceStr_eq, offPos_spec]
  unfold Spec.substring at h
  have hr := startOf_range s.length off
  generalize Spec.startOf (s.length : Int) off = start at h hr ⊢
  cases len with
  | none => simpa using h
  | some l =>
    simp only at h ⊢
    by_cases hl : 0 ≤ l
    · simp only [ge_iff_le, hl, if_true, Option.some.injEq] at h
      rw [← h, slicePos_nonneg _ _ hl, List.take_eq_take_iff]
      simp only [List.length_drop]; omega
    · have hl' : l < 0 := by omega
      simp only [ge_iff_le, hl, if_false] at h
      split at h
      · cases h
      · simp only [Option.some.injEq] at h
        rw [← h, slicePos_neg _ _ hl']
        simp only [List.length_drop]
        have : ¬ (((s.length - start.toNat : Nat) : Int) + l < 0) := by omega
        simp only [this, if_false]
        congr 1; omega

end ShVerif.C21
