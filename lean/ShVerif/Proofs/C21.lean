import ShVerif.Model.C21
/-
  C21 — helper definitions and lemmas for the property theorems (ShVerif/Props/C21.lean).
  Core Lean only.
-/
set_option linter.unusedSimpArgs false
namespace ShVerif.C21
open Spec

/-! ## set-up shared by the statements -/

def xN : Str := ['x']

/-- The environment in which `x` is in one of the three POSIX states (`v` its value when set). -/
def envOf (st : St) (v : Str) : Env :=
  match st with
  | .unset => []
  | .null => [(xN, Var.ofStr [])]
  | .set => [(xN, Var.ofStr v)]

def peOf (op : ExpOp) (w : Str) : PE := { name := xN, exp := some (op, w) }

/-- What each outcome of the POSIX table means for the result and the environment. -/
def outcomeResult (o : Outcome) (st : St) (v w : Str) : Except Err (Str × Env) :=
  match o with
  | .param => .ok (v, envOf st v)
  | .word => .ok (w, envOf st v)
  | .assign => .ok (w, (envOf st v).put xN (Var.ofStr w))
  | .error => .error (.unsetMsg w)
  | .null => .ok ([], envOf st v)

theorem table_holds (x : Ext) (op : ExpOp) (st : St) (v w : Str) (hv : v ≠ []) (o : Outcome)
    (h : Spec.table op st = some o) :
    paramExp x {} (envOf st v) (peOf op w) = outcomeResult o st v w := by
  cases op <;> cases st <;> simp [Spec.table] at h <;> subst h <;>
    simp [paramExp, envOf, peOf, outcomeResult, ifsOf, Env.get, sOf, xN, Var.zero, Var.ofStr, effIdx, isAtStar,
      Idx.lit, overridingUnset, varInd, varIndNone, Var.string, assignElem, Env.put, hv, bind, Except.bind, pure,
      Except.pure] <;> rfl

/-! ## scalars -/

/-- `name` is an ordinary parameter (not `@` or `*`). -/
def Plain (name : Str) : Prop := name ≠ ['@'] ∧ name ≠ ['*']

instance (n : Str) : Decidable (Plain n) := by unfold Plain; exact inferInstance

instance (b : Bool) (s u r : Str) : Decidable (Spec.Removes b s u r) := by
  unfold Spec.Removes; cases b <;> exact inferInstance

theorem effIdx_plain {pe : PE} (h : Plain pe.name) : effIdx pe = pe.idx := by
  unfold effIdx; simp [h.1, h.2]

@[simp] theorem ofStr_set (s : Str) : (Var.ofStr s).set = true := rfl
@[simp] theorem ofStr_kind (s : Str) : (Var.ofStr s).kind = .string := rfl
@[simp] theorem ofStr_str (s : Str) : (Var.ofStr s).str = s := rfl
@[simp] theorem ofList_set (l : List Str) : (Var.ofList l).set = true := rfl
@[simp] theorem ofList_kind (l : List Str) : (Var.ofList l).kind = .indexed := rfl
@[simp] theorem ofList_list (l : List Str) : (Var.ofList l).list = some l := rfl
@[simp] theorem ofList_idx (l : List Str) : (Var.ofList l).idx = none := rfl
@[simp] theorem zero_set : Var.zero.set = false := rfl
@[simp] theorem zero_kind : Var.zero.kind = .unknown := rfl

/-- the common prefix of `paramExp` for a set scalar without subscript -/
theorem varInd_scalar (ifs s : Str) : varInd ifs (Var.ofStr s) .none = .ok (s, true) := by
  simp [varInd, varIndNone, Var.ofStr, Var.zero, Var.string, bind, Except.bind, pure, Except.pure]

theorem length_scalar_eq (x : Ext) (cfg : Cfg) (env : Env) (name s ifs : Str)
    (hifs : ifsOf env = .ok ifs) (hp : Plain name) (hv : env.get name = Var.ofStr s) :
    paramExp x cfg env { name := name, length := true } = .ok (itoa s.length, env) := by
  simp [paramExp, hifs, hv, effIdx, hp.1, hp.2, isAtStar, Idx.lit, varInd_scalar,
    bind, Except.bind, pure, Except.pure]

theorem sliceElems_none (env : Env) (pe : PE) (el : Sl) (ix : Option (List Int)) (b : Bool)
    (h : pe.slice = none) : sliceElems env pe el ix b = .ok el := by
  simp [sliceElems, h]

theorem length_list_eq (x : Ext) (cfg : Cfg) (env : Env) (name ifs : Str) (l : List Str) (star : Bool)
    (hifs : ifsOf env = .ok ifs) (hp : Plain name) (hv : env.get name = Var.ofList l) :
    paramExp x cfg env { name := name, idx := if star then .star else .at, length := true }
      = .ok (itoa l.length, env) := by
  cases star <;>
  simp [paramExp, hifs, hv, effIdx, hp.1, hp.2, isAtStar, Idx.lit, sliceElems,
    bind, Except.bind, pure, Except.pure, Sl.toList]

theorem insertSorted_length (x : Str) (l : List Str) : (insertSorted x l).length = l.length + 1 := by
  induction l with
  | nil => rfl
  | cons y ys ih => simp only [insertSorted]; split <;> simp [ih]

theorem sortStrs_length (l : List Str) : (sortStrs l).length = l.length := by
  induction l with
  | nil => rfl
  | cons a as ih => simp [sortStrs, List.foldr, insertSorted_length] at ih ⊢; exact ih

@[simp] theorem ofMap_set (m : List (Str × Str)) : (Var.ofMap m).set = true := rfl
@[simp] theorem ofMap_kind (m : List (Str × Str)) : (Var.ofMap m).kind = .assoc := rfl
@[simp] theorem ofMap_map (m : List (Str × Str)) : (Var.ofMap m).map = m := rfl

theorem sortedSl_length (l : List Str) : (sortedSl l).toList.length = l.length := by
  unfold sortedSl
  cases l with
  | nil => rfl
  | cons a as => simp [Sl.toList, sortStrs_length]

/-- `${#m[@]}`, `${#m[*]}` of an associative array: its number of entries. -/
theorem length_assoc_eq (x : Ext) (cfg : Cfg) (env : Env) (name ifs : Str) (m : List (Str × Str)) (star : Bool)
    (hifs : ifsOf env = .ok ifs) (hp : Plain name) (hv : env.get name = Var.ofMap m) :
    paramExp x cfg env { name := name, idx := if star then .star else .at, length := true }
      = .ok (itoa m.length, env) := by
  have hl := sortedSl_length (m.map (·.2))
  rw [List.length_map] at hl
  cases star <;>
  simp [paramExp, hifs, hv, effIdx, hp.1, hp.2, isAtStar, Idx.lit, hl,
    bind, Except.bind, pure, Except.pure]

/-! ## substring -/

theorem slice_scalar_eq (x : Ext) (cfg : Cfg) (env : Env) (name s ifs : Str) (off len : Option Int)
    (hifs : ifsOf env = .ok ifs) (hp : Plain name) (hv : env.get name = Var.ofStr s) :
    paramExp x cfg env { name := name, slice := some (off, len) } = (sliceStr s off len).map (fun r => (r, env)) := by
  simp [paramExp, hifs, hv, effIdx, hp.1, hp.2, isAtStar, Idx.lit, varInd_scalar,
    bind, Except.bind, pure, Except.pure]
  cases sliceStr s off len <;> simp [Except.map]

theorem slicePos_nonneg (n : Nat) (k : Int) (h : 0 ≤ k) : slicePos n k = min k.toNat n := by
  unfold slicePos
  have h1 : ¬ k < 0 := by omega
  simp only [h1, if_false]
  split <;> omega

theorem slicePos_neg (n : Nat) (k : Int) (h : k < 0) :
    slicePos n k = if (n : Int) + k < 0 then n else ((n : Int) + k).toNat := by
  unfold slicePos; simp [h]

def offPos (n : Nat) : Option Int → Nat
  | none => 0
  | some o => slicePos n o

theorem offPos_spec (n : Nat) (off : Option Int) : offPos n off = (Spec.startOf n off).toNat := by
  cases off with
  | none => simp [offPos, Spec.startOf]
  | some o =>
    simp only [offPos, Spec.startOf]
    by_cases ho : 0 ≤ o
    · rw [slicePos_nonneg _ _ ho]; simp only [ge_iff_le, ho, if_true]; omega
    · have ho' : o < 0 := by omega
      rw [slicePos_neg _ _ ho']; simp only [ge_iff_le, ho, if_false]
      split <;> split <;> omega

theorem startOf_range (n : Nat) (off : Option Int) : 0 ≤ Spec.startOf n off ∧ Spec.startOf n off ≤ n := by
  cases off with
  | none => simp [Spec.startOf]
  | some o => simp only [Spec.startOf]; split <;> (try split) <;> omega

theorem sliceStr_eq (s : Str) (off len : Option Int) :
    sliceStr s off len =
      match len with
      | none => .ok (s.drop (offPos s.length off))
      | some l =>
        if l < 0 && ((s.drop (offPos s.length off)).length : Int) + l < 0 then .error (.substr l)
        else .ok ((s.drop (offPos s.length off)).take (slicePos (s.drop (offPos s.length off)).length l)) := by
  cases off <;> cases len <;> simp [sliceStr, offPos]

/-- What the code returns for `${x:off:len}`, against bash's substring: its value where defined,
    the error `substring expression < 0` (with the length) where not. -/
def sliceExpect (s : Str) (off len : Option Int) : Except Err Str :=
  match Spec.substring s off len with
  | some r => .ok r
  | none => .error (.substr (len.getD 0))

theorem sliceStr_spec (s : Str) (off len : Option Int) : sliceStr s off len = sliceExpect s off len := by
  rw [sliceStr_eq, offPos_spec]
  simp only [sliceExpect, Spec.substring]
  have hr := startOf_range s.length off
  generalize Spec.startOf (s.length : Int) off = start at hr ⊢
  cases len with
  | none => simp
  | some l =>
    simp only
    by_cases hl : 0 ≤ l
    · have hl' : ¬ l < 0 := by omega
      simp only [ge_iff_le, hl, if_true, hl', decide_false, Bool.false_and, Bool.false_eq_true, if_false]
      rw [slicePos_nonneg _ _ hl]
      congr 1
      rw [List.take_eq_take_iff]
      simp only [List.length_drop]; omega
    · have hl' : l < 0 := by omega
      simp only [ge_iff_le, hl, if_false, hl', decide_true, Bool.true_and, List.length_drop, decide_eq_true_eq]
      by_cases hb : (s.length : Int) + l < start
      · have h1 : ((s.length - start.toNat : Nat) : Int) + l < 0 := by omega
        simp [hb, h1]
      · have h1 : ¬ ((s.length - start.toNat : Nat) : Int) + l < 0 := by omega
        simp only [hb, h1, if_false]
        rw [slicePos_neg _ _ hl']
        simp only [h1, if_false]
        congr 2; omega

/-! ## case conversion -/

theorem convRunes_eq (f : Char → Char) (hit : Char → Bool) (all : Bool) (s : Str) :
    convRunes f hit all s = Spec.caseConv f hit all s := by
  induction s with
  | nil => rfl
  | cons c cs ih => cases all <;> simp [convRunes, Spec.caseConv, ih]

theorem caseConv_congr (f : Char → Char) (h1 h2 : Char → Bool) (all : Bool) (s : Str)
    (h : ∀ c, h1 c = h2 c) : Spec.caseConv f h1 all s = Spec.caseConv f h2 all s := by
  have : h1 = h2 := funext h
  rw [this]

/-- `${x^pat}` … on a set scalar. -/
theorem case_scalar_eq (x : Ext) (cfg : Cfg) (env : Env) (name s ifs arg : Str) (op : ExpOp)
    (m : Str → Bool) (hifs : ifsOf env = .ok ifs) (hp : Plain name) (hv : env.get name = Var.ofStr s)
    (hop : isCase op = true) (hM : x.M arg = .ok m) :
    paramExp x cfg env { name := name, exp := some (op, arg) }
      = .ok (convRunes (if op == .upperFirst || op == .upperAll then toUpper else toLower)
              (fun c => m [] || m [c]) (op == .upperAll || op == .lowerAll) s, env) := by
  cases op <;> simp [isCase] at hop <;>
  simp [paramExp, hifs, hv, effIdx, hp.1, hp.2, isAtStar, Idx.lit, varInd_scalar, caseConvElems, hM,
    bind, Except.bind, pure, Except.pure, Sl.toList, joinWith]

/-! ## transformations -/

theorem other_scalar_eq (x : Ext) (cfg : Cfg) (env : Env) (name s ifs arg : Str)
    (hifs : ifsOf env = .ok ifs) (hp : Plain name) (hv : env.get name = Var.ofStr s) :
    paramExp x cfg env { name := name, exp := some (.other, arg) }
      = (otherOp x name (Var.ofStr s) true s arg).map (fun r => (r, env)) := by
  simp [paramExp, hifs, hv, effIdx, hp.1, hp.2, isAtStar, Idx.lit, varInd_scalar,
    bind, Except.bind, pure, Except.pure]
  cases otherOp x name (Var.ofStr s) true s arg <;> simp [Except.map]

/-! ## indirection -/

theorem indirect_eq (x : Ext) (cfg : Cfg) (env : Env) (name n v ifs : Str)
    (hifs : ifsOf env = .ok ifs) (hp : Plain name) (hv : env.get name = Var.ofStr n) (hn : n ≠ [])
    (hval : (env.get n).string = .ok v) :
    paramExp x cfg env { name := name, excl := true } = .ok (v, env) := by
  simp [paramExp, hifs, hv, effIdx, hp.1, hp.2, isAtStar, Idx.lit, varInd_scalar, hn, hval, joinWith,
    bind, Except.bind, pure, Except.pure]

theorem indirect_unset (x : Ext) (env : Env) (name ifs : Str)
    (hifs : ifsOf env = .ok ifs) (hp : Plain name) (hv : env.get name = Var.zero) :
    paramExp x {} env { name := name, excl := true } = .error .indirect := by
  simp [paramExp, hifs, hv, effIdx, hp.1, hp.2, isAtStar, Idx.lit, varInd, varIndNone, Var.string, Var.zero,
    bind, Except.bind, pure, Except.pure]
  rfl

/-! ## quoted lists -/

theorem addElemsQuoted_cur (fs : List Str) (c : Str) (l : List Str) :
    ∀ b, (addElemsQuoted ⟨fs, [c], b⟩ false l).flush.fields = fs ++ c :: l := by
  induction l generalizing fs c with
  | nil => intro b; simp [addElemsQuoted, WF.flush]
  | cons e rest ih =>
    intro b
    have step : addElemsQuoted ⟨fs, [c], b⟩ false (e :: rest) = addElemsQuoted ⟨fs ++ [c], [e], b⟩ false rest := by
      simp [addElemsQuoted, WF.flush]
    rw [step, ih]; simp

theorem addElemsQuoted_fields (l : List Str) :
    (addElemsQuoted ⟨[], [], false⟩ true l).flush.fields = l := by
  cases l with
  | nil => simp [addElemsQuoted, WF.flush]
  | cons e rest =>
    have step : addElemsQuoted ⟨[], [], false⟩ true (e :: rest) = addElemsQuoted ⟨[], [e], false⟩ false rest := by
      simp [addElemsQuoted]
    rw [step, addElemsQuoted_cur]; simp

theorem quoted_at_eq (x : Ext) (cfg : Cfg) (env : Env) (name ifs : Str) (l : List Str)
    (hifs : ifsOf env = .ok ifs) (hp : Plain name) (hv : env.get name = Var.ofList l) :
    fields x cfg env { name := name, idx := .at } true = .ok (l, env) := by
  simp [fields, quotedElemFields, listElems, hifs, hv, hp.1, hp.2, isAtStar, Idx.lit, sliceElems, perElemOps,
    addElemsQuoted_fields, bind, Except.bind, pure, Except.pure]

theorem quoted_star_eq (x : Ext) (cfg : Cfg) (env : Env) (name ifs : Str) (l : List Str)
    (hifs : ifsOf env = .ok ifs) (hp : Plain name) (hv : env.get name = Var.ofList l) :
    fields x cfg env { name := name, idx := .star } true = .ok ([ifsJoin ifs l], env) := by
  simp [fields, quotedElemFields, listElems, hifs, hv, hp.1, hp.2, isAtStar, Idx.lit, sliceElems, perElemOps,
    addElemsQuoted_fields, bind, Except.bind, pure, Except.pure, Sl.toList]

theorem quoted_at_unset (x : Ext) (cfg : Cfg) (env : Env) (name ifs : Str)
    (hifs : ifsOf env = .ok ifs) (hp : Plain name) (hv : env.get name = Var.zero) :
    fields x cfg env { name := name, idx := .at } true = .ok ([], env) := by
  simp [fields, quotedElemFields, listElems, hifs, hv, hp.1, hp.2, isAtStar, Idx.lit,
    addElemsQuoted_fields, bind, Except.bind, pure, Except.pure]

theorem quoted_positional_at (x : Ext) (cfg : Cfg) (env : Env) (ifs : Str) (l : List Str)
    (hifs : ifsOf env = .ok ifs) (hv : env.get ['@'] = Var.ofList l) :
    fields x cfg env { name := ['@'] } true = .ok (l, env) := by
  simp [fields, quotedElemFields, listElems, hifs, hv, isAtStar, Idx.lit, sliceElems, perElemOps,
    addElemsQuoted_fields, bind, Except.bind, pure, Except.pure]

theorem quoted_positional_star (x : Ext) (cfg : Cfg) (env : Env) (ifs : Str) (l : List Str)
    (hifs : ifsOf env = .ok ifs) (hv : env.get ['*'] = Var.ofList l) :
    fields x cfg env { name := ['*'] } true = .ok ([ifsJoin ifs l], env) := by
  simp [fields, quotedElemFields, listElems, hifs, hv, isAtStar, Idx.lit, sliceElems, perElemOps,
    addElemsQuoted_fields, bind, Except.bind, pure, Except.pure, Sl.toList]

/-! ## per-element operators -/

theorem mapMExcept_ok {α β : Type} (f : α → β) (l : List α) :
    mapMExcept (fun a => (.ok (f a) : Except Err β)) l = .ok (l.map f) := by
  induction l with
  | nil => rfl
  | cons a as ih => simp [mapMExcept, ih, bind, Except.bind, pure, Except.pure]

theorem mapMExcept_err {α β : Type} (e : Err) (a : α) (as : List α) :
    mapMExcept (fun _ => (.error e : Except Err β)) (a :: as) = .error e := by
  simp [mapMExcept, bind, Except.bind]

/-- `${s/pat/with}` on one string. -/
def replOne (M : Str → Pat) (r : Repl) (s : Str) : Except Err Str :=
  if r.orig.isEmpty then .ok s
  else match M r.orig with
    | .panic => .error .panic
    | .err => .ok s
    | .ok m => .ok (spliceLocs s r.with_ 0 (findAll m s r.all))

theorem replaceElems_map (M : Str → Pat) (r : Repl) (l : List Str) :
    replaceElems M r (some l) = (mapMExcept (replOne M r) l).map some := by
  unfold replaceElems replOne
  by_cases h : r.orig.isEmpty = true
  · simp only [h, if_true]
    rw [mapMExcept_ok (fun s => s)]; simp [Except.map]
  · simp only [h, if_false, Bool.false_eq_true]
    cases hM : M r.orig with
    | err => simp only [Sl.toList]; rw [mapMExcept_ok (fun s => s)]; simp [Except.map]
    | panic =>
      cases l with
      | nil => simp [Sl.toList, mapMExcept, Except.map, pure, Except.pure]
      | cons a as => simp only [Sl.toList, List.isEmpty_cons, Bool.false_eq_true, if_false]; rw [mapMExcept_err]; rfl
    | ok m => simp only [Sl.toList]; rw [mapMExcept_ok]; simp [Except.map]

/-- `${s^pat}` … on one string. -/
def caseOne (M : Str → Pat) (op : ExpOp) (arg s : Str) : Except Err Str :=
  match M arg with
  | .err => .ok s
  | .panic => .error .panic
  | .ok m => .ok (convRunes (if op == .upperFirst || op == .upperAll then toUpper else toLower)
      (fun c => m [] || m [c]) (op == .upperAll || op == .lowerAll) s)

theorem caseConvElems_map (M : Str → Pat) (op : ExpOp) (arg : Str) (l : List Str)
    (hnp : M arg = .panic → l ≠ []) :
    caseConvElems M op arg (some l) = (mapMExcept (caseOne M op arg) l).map some := by
  unfold caseConvElems caseOne
  cases hM : M arg with
  | err => simp only; rw [mapMExcept_ok (fun s => s)]; simp [Except.map]
  | panic =>
    cases l with
    | nil => exact absurd rfl (hnp hM)
    | cons a as => simp only; rw [mapMExcept_err]; rfl
  | ok m => simp only [Sl.toList]; rw [mapMExcept_ok]; simp [Except.map]

/-- The operator of `pe` applied to one string as if it were the value of a scalar variable. -/
def scalarOp (x : Ext) (pe : PE) (s : Str) : Except Err Str :=
  (paramExp x {} [(pe.name, Var.ofStr s)] { pe with idx := .none }).map (·.1)

@[simp] theorem ifsJoin_single (ifs a : Str) : ifsJoin ifs [a] = a := by simp [ifsJoin, joinWith]
@[simp] theorem joinWith_single (sep a : Str) : joinWith sep [a] = a := by simp [joinWith]

theorem get_single (n : Str) (v : Var) : Env.get [(n, v)] n = v := by
  simp [Env.get, List.find?]

theorem ifsOf_single (n s : Str) : ∃ ifs, ifsOf [(n, Var.ofStr s)] = .ok ifs := by
  unfold ifsOf
  by_cases h : n = sOf "IFS"
  · subst h; simp [get_single, Var.string]
  · have hb : (n == sOf "IFS") = false := beq_eq_false_iff_ne.mpr h
    have : Env.get [(n, Var.ofStr s)] (sOf "IFS") = Var.zero := by
      simp [Env.get, List.find?, hb]
    simp [this]

theorem scalarOp_repl (x : Ext) (pe : PE) (r : Repl) (s : Str) (hp : Plain pe.name)
    (h1 : pe.excl = false) (h2 : pe.length = false) (h3 : pe.slice = none) (h4 : pe.repl = some r) :
    scalarOp x pe s = replOne x.M r s := by
  obtain ⟨ifs, hifs⟩ := ifsOf_single pe.name s
  unfold scalarOp
  simp [paramExp, hifs, get_single, effIdx, hp.1, hp.2, isAtStar, Idx.lit, varInd_scalar, h1, h2, h3, h4,
    replaceElems_map, bind, Except.bind, pure, Except.pure]
  cases hr : replOne x.M r s <;> simp [mapMExcept, hr, Except.map, bind, Except.bind, pure, Except.pure, Sl.toList, joinWith]

theorem scalarOp_remove (x : Ext) (pe : PE) (op : ExpOp) (arg s : Str) (hp : Plain pe.name)
    (h1 : pe.excl = false) (h2 : pe.length = false) (h3 : pe.slice = none) (h4 : pe.repl = none)
    (h5 : pe.exp = some (op, arg)) (hop : isRemove op = true) :
    scalarOp x pe s = removePattern x.M s arg (op == .remSmallSuf || op == .remLargeSuf)
      (op == .remSmallPre || op == .remSmallSuf) := by
  obtain ⟨ifs, hifs⟩ := ifsOf_single pe.name s
  unfold scalarOp
  cases op <;> simp [isRemove] at hop <;>
  simp [paramExp, hifs, get_single, effIdx, hp.1, hp.2, isAtStar, Idx.lit, varInd_scalar, h1, h2, h3, h4, h5,
    removePatternElems, mapMExcept, bind, Except.bind, pure, Except.pure, Sl.toList] <;>
  (cases hr : removePattern x.M s arg _ _ <;> simp [Except.map, joinWith])

theorem scalarOp_case (x : Ext) (pe : PE) (op : ExpOp) (arg s : Str) (hp : Plain pe.name)
    (h1 : pe.excl = false) (h2 : pe.length = false) (h3 : pe.slice = none) (h4 : pe.repl = none)
    (h5 : pe.exp = some (op, arg)) (hop : isCase op = true) :
    scalarOp x pe s = caseOne x.M op arg s := by
  obtain ⟨ifs, hifs⟩ := ifsOf_single pe.name s
  unfold scalarOp
  have hc := caseConvElems_map x.M op arg [s] (fun _ => by simp)
  cases op <;> simp [isCase] at hop <;>
  simp [paramExp, hifs, get_single, effIdx, hp.1, hp.2, isAtStar, Idx.lit, varInd_scalar, h1, h2, h3, h4, h5,
    hc, mapMExcept, bind, Except.bind, pure, Except.pure, Sl.toList] <;>
  (cases hr : caseOne x.M _ arg s <;> simp [Except.map, joinWith])

theorem scalarOp_plain (x : Ext) (pe : PE) (s : Str) (hp : Plain pe.name)
    (h1 : pe.excl = false) (h2 : pe.length = false) (h3 : pe.slice = none) (h4 : pe.repl = none)
    (h5 : pe.exp = none) :
    scalarOp x pe s = .ok s := by
  obtain ⟨ifs, hifs⟩ := ifsOf_single pe.name s
  unfold scalarOp
  simp [paramExp, hifs, get_single, effIdx, hp.1, hp.2, isAtStar, Idx.lit, varInd_scalar, h1, h2, h3, h4, h5,
    bind, Except.bind, pure, Except.pure, Except.map]

/-- The operators that apply element by element. -/
def PerElem (x : Ext) (pe : PE) (l : List Str) : Prop :=
  (∃ r, pe.repl = some r) ∨
  (pe.repl = none ∧ ∃ op arg, pe.exp = some (op, arg) ∧
    (isRemove op = true ∨ (isCase op = true ∧ (x.M arg = .panic → l ≠ [])))) ∨
  (pe.repl = none ∧ pe.exp = none)

theorem per_elem_fields (x : Ext) (cfg : Cfg) (env : Env) (pe : PE) (ifs : Str) (l : List Str)
    (hifs : ifsOf env = .ok ifs) (hp : Plain pe.name) (hv : env.get pe.name = Var.ofList l)
    (hidx : pe.idx = .at) (h1 : pe.excl = false) (h2 : pe.length = false) (h3 : pe.slice = none)
    (hop : PerElem x pe l) :
    fields x cfg env pe true = (mapMExcept (scalarOp x pe) l).map (fun ys => (ys, env)) := by
  rcases hop with ⟨r, h4⟩ | ⟨h4, op, arg, h5, hop⟩ | ⟨h4, h5⟩
  · have hs : scalarOp x pe = replOne x.M r := funext (scalarOp_repl x pe r · hp h1 h2 h3 h4)
    rw [hs]
    simp [fields, quotedElemFields, listElems, hifs, hv, hp.1, hp.2, hidx, h1, h2, h3, h4, isAtStar, Idx.lit,
      sliceElems, perElemOps, replaceElems_map, bind, Except.bind, pure, Except.pure]
    cases mapMExcept (replOne x.M r) l <;> simp [Except.map, addElemsQuoted_fields]
  · rcases hop with hop | ⟨hop, hnp⟩
    · have hs : scalarOp x pe = fun s => removePattern x.M s arg (op == .remSmallSuf || op == .remLargeSuf)
          (op == .remSmallPre || op == .remSmallSuf) :=
        funext (scalarOp_remove x pe op arg · hp h1 h2 h3 h4 h5 hop)
      rw [hs]
      simp [fields, quotedElemFields, listElems, hifs, hv, hp.1, hp.2, hidx, h1, h2, h3, h4, h5, hop, isAtStar,
        Idx.lit, sliceElems, perElemOps, removePatternElems, bind, Except.bind, pure, Except.pure, Sl.toList]
      cases mapMExcept (fun s => removePattern x.M s arg (op == .remSmallSuf || op == .remLargeSuf)
          (op == .remSmallPre || op == .remSmallSuf)) l <;> simp [Except.map, addElemsQuoted_fields]
    · have hs : scalarOp x pe = caseOne x.M op arg := funext (scalarOp_case x pe op arg · hp h1 h2 h3 h4 h5 hop)
      have hnr : isRemove op = false := by cases op <;> simp [isCase] at hop <;> rfl
      rw [hs]
      simp [fields, quotedElemFields, listElems, hifs, hv, hp.1, hp.2, hidx, h1, h2, h3, h4, h5, hop, hnr, isAtStar,
        Idx.lit, sliceElems, perElemOps, caseConvElems_map x.M op arg l hnp, bind, Except.bind, pure, Except.pure]
      cases mapMExcept (caseOne x.M op arg) l <;> simp [Except.map, addElemsQuoted_fields]
  · have hs : scalarOp x pe = fun s => .ok s := funext (scalarOp_plain x pe · hp h1 h2 h3 h4 h5)
    rw [hs, mapMExcept_ok (fun s => s)]
    simp [fields, quotedElemFields, listElems, hifs, hv, hp.1, hp.2, hidx, h1, h2, h3, h4, h5, isAtStar, Idx.lit,
      sliceElems, perElemOps, addElemsQuoted_fields, bind, Except.bind, pure, Except.pure, Except.map]

/-- `"${a[*]…}"`: the per-element operators are mapped over the elements, then joined. -/
theorem per_elem_fields_star (x : Ext) (cfg : Cfg) (env : Env) (pe : PE) (ifs : Str) (l : List Str)
    (hifs : ifsOf env = .ok ifs) (hp : Plain pe.name) (hv : env.get pe.name = Var.ofList l)
    (hidx : pe.idx = .star) (h1 : pe.excl = false) (h2 : pe.length = false) (h3 : pe.slice = none)
    (hop : PerElem x pe l) :
    fields x cfg env pe true = (mapMExcept (scalarOp x pe) l).map (fun ys => ([ifsJoin ifs ys], env)) := by
  rcases hop with ⟨r, h4⟩ | ⟨h4, op, arg, h5, hop⟩ | ⟨h4, h5⟩
  · have hs : scalarOp x pe = replOne x.M r := funext (scalarOp_repl x pe r · hp h1 h2 h3 h4)
    rw [hs]
    simp [fields, quotedElemFields, listElems, hifs, hv, hp.1, hp.2, hidx, h1, h2, h3, h4, isAtStar, Idx.lit,
      sliceElems, perElemOps, replaceElems_map, bind, Except.bind, pure, Except.pure]
    cases mapMExcept (replOne x.M r) l <;> simp [Except.map, addElemsQuoted_fields, Sl.toList]
  · rcases hop with hop | ⟨hop, hnp⟩
    · have hs : scalarOp x pe = fun s => removePattern x.M s arg (op == .remSmallSuf || op == .remLargeSuf)
          (op == .remSmallPre || op == .remSmallSuf) :=
        funext (scalarOp_remove x pe op arg · hp h1 h2 h3 h4 h5 hop)
      rw [hs]
      simp [fields, quotedElemFields, listElems, hifs, hv, hp.1, hp.2, hidx, h1, h2, h3, h4, h5, hop, isAtStar,
        Idx.lit, sliceElems, perElemOps, removePatternElems, bind, Except.bind, pure, Except.pure, Sl.toList]
      cases mapMExcept (fun s => removePattern x.M s arg (op == .remSmallSuf || op == .remLargeSuf)
          (op == .remSmallPre || op == .remSmallSuf)) l <;> simp [Except.map, addElemsQuoted_fields, Sl.toList]
    · have hs : scalarOp x pe = caseOne x.M op arg := funext (scalarOp_case x pe op arg · hp h1 h2 h3 h4 h5 hop)
      have hnr : isRemove op = false := by cases op <;> simp [isCase] at hop <;> rfl
      rw [hs]
      simp [fields, quotedElemFields, listElems, hifs, hv, hp.1, hp.2, hidx, h1, h2, h3, h4, h5, hop, hnr, isAtStar,
        Idx.lit, sliceElems, perElemOps, caseConvElems_map x.M op arg l hnp, bind, Except.bind, pure, Except.pure]
      cases mapMExcept (caseOne x.M op arg) l <;> simp [Except.map, addElemsQuoted_fields, Sl.toList]
  · have hs : scalarOp x pe = fun s => .ok s := funext (scalarOp_plain x pe · hp h1 h2 h3 h4 h5)
    rw [hs, mapMExcept_ok (fun s => s)]
    simp [fields, quotedElemFields, listElems, hifs, hv, hp.1, hp.2, hidx, h1, h2, h3, h4, h5, isAtStar, Idx.lit,
      sliceElems, perElemOps, addElemsQuoted_fields, bind, Except.bind, pure, Except.pure, Except.map, Sl.toList]

/-- `"${m[@]…}"` of an associative array: the operators are mapped over the sorted values. -/
theorem per_elem_fields_assoc (x : Ext) (cfg : Cfg) (env : Env) (pe : PE) (ifs : Str) (m : List (Str × Str))
    (hifs : ifsOf env = .ok ifs) (hp : Plain pe.name) (hv : env.get pe.name = Var.ofMap m)
    (hidx : pe.idx = .at) (h1 : pe.excl = false) (h2 : pe.length = false) (h3 : pe.slice = none)
    (hop : PerElem x pe (sortStrs (m.map (·.2)))) :
    fields x cfg env pe true = (mapMExcept (scalarOp x pe) (sortStrs (m.map (·.2)))).map (fun ys => (ys, env)) := by
  rcases hop with ⟨r, h4⟩ | ⟨h4, op, arg, h5, hop⟩ | ⟨h4, h5⟩
  · have hs : scalarOp x pe = replOne x.M r := funext (scalarOp_repl x pe r · hp h1 h2 h3 h4)
    rw [hs]
    simp [fields, quotedElemFields, listElems, hifs, hv, hp.1, hp.2, hidx, h1, h2, h3, h4, isAtStar, Idx.lit,
      sliceElems, perElemOps, replaceElems_map, bind, Except.bind, pure, Except.pure]
    cases mapMExcept (replOne x.M r) (sortStrs (m.map (·.2))) <;> simp [Except.map, addElemsQuoted_fields, Sl.toList]
  · rcases hop with hop | ⟨hop, hnp⟩
    · have hs : scalarOp x pe = fun s => removePattern x.M s arg (op == .remSmallSuf || op == .remLargeSuf)
          (op == .remSmallPre || op == .remSmallSuf) :=
        funext (scalarOp_remove x pe op arg · hp h1 h2 h3 h4 h5 hop)
      rw [hs]
      simp [fields, quotedElemFields, listElems, hifs, hv, hp.1, hp.2, hidx, h1, h2, h3, h4, h5, hop, isAtStar,
        Idx.lit, sliceElems, perElemOps, removePatternElems, bind, Except.bind, pure, Except.pure, Sl.toList]
      cases mapMExcept (fun s => removePattern x.M s arg (op == .remSmallSuf || op == .remLargeSuf)
          (op == .remSmallPre || op == .remSmallSuf)) (sortStrs (m.map (·.2))) <;> simp [Except.map, addElemsQuoted_fields, Sl.toList]
    · have hs : scalarOp x pe = caseOne x.M op arg := funext (scalarOp_case x pe op arg · hp h1 h2 h3 h4 h5 hop)
      have hnr : isRemove op = false := by cases op <;> simp [isCase] at hop <;> rfl
      rw [hs]
      simp [fields, quotedElemFields, listElems, hifs, hv, hp.1, hp.2, hidx, h1, h2, h3, h4, h5, hop, hnr, isAtStar,
        Idx.lit, sliceElems, perElemOps, caseConvElems_map x.M op arg (sortStrs (m.map (·.2))) hnp, bind, Except.bind, pure, Except.pure]
      cases mapMExcept (caseOne x.M op arg) (sortStrs (m.map (·.2))) <;> simp [Except.map, addElemsQuoted_fields, Sl.toList]
  · have hs : scalarOp x pe = fun s => .ok s := funext (scalarOp_plain x pe · hp h1 h2 h3 h4 h5)
    rw [hs, mapMExcept_ok (fun s => s)]
    simp [fields, quotedElemFields, listElems, hifs, hv, hp.1, hp.2, hidx, h1, h2, h3, h4, h5, isAtStar, Idx.lit,
      sliceElems, perElemOps, addElemsQuoted_fields, bind, Except.bind, pure, Except.pure, Except.map, Sl.toList]



/-- The expansion `pe` read as one about the ordinary variable `x` (for `$@` / `$*`, whose
    elements have no name of their own). -/
def asX (pe : PE) : PE := { pe with name := xN, idx := .none }

theorem plain_xN : Plain xN := by decide

theorem perElem_asX (x : Ext) (pe : PE) (l : List Str) (h : PerElem x pe l) : PerElem x (asX pe) l := h

/-- `"$@"` with a per-element operator: mapped over the positional parameters, one field each. -/
theorem per_elem_fields_at_positional (x : Ext) (cfg : Cfg) (env : Env) (pe : PE) (ifs : Str) (l : List Str)
    (hifs : ifsOf env = .ok ifs) (hn : pe.name = ['@']) (hv : env.get ['@'] = Var.ofList l)
    (h1 : pe.excl = false) (h2 : pe.length = false) (h3 : pe.slice = none)
    (hop : PerElem x pe l) :
    fields x cfg env pe true = (mapMExcept (scalarOp x (asX pe)) l).map (fun ys => (ys, env)) := by
  have hp := plain_xN
  rcases hop with ⟨r, h4⟩ | ⟨h4, op, arg, h5, hop⟩ | ⟨h4, h5⟩
  · have hs : scalarOp x (asX pe) = replOne x.M r := funext (scalarOp_repl x (asX pe) r · hp h1 h2 h3 h4)
    rw [hs]
    simp [fields, quotedElemFields, listElems, hifs, hv, hn, h1, h2, h3, h4, isAtStar, Idx.lit,
      sliceElems, perElemOps, replaceElems_map, bind, Except.bind, pure, Except.pure]
    cases mapMExcept (replOne x.M r) l <;> simp [Except.map, addElemsQuoted_fields, Sl.toList]
  · rcases hop with hop | ⟨hop, hnp⟩
    · have hs : scalarOp x (asX pe) = fun s => removePattern x.M s arg (op == .remSmallSuf || op == .remLargeSuf)
          (op == .remSmallPre || op == .remSmallSuf) :=
        funext (scalarOp_remove x (asX pe) op arg · hp h1 h2 h3 h4 h5 hop)
      rw [hs]
      simp [fields, quotedElemFields, listElems, hifs, hv, hn, h1, h2, h3, h4, h5, hop, isAtStar,
        Idx.lit, sliceElems, perElemOps, removePatternElems, bind, Except.bind, pure, Except.pure, Sl.toList]
      cases mapMExcept (fun s => removePattern x.M s arg (op == .remSmallSuf || op == .remLargeSuf)
          (op == .remSmallPre || op == .remSmallSuf)) l <;> simp [Except.map, addElemsQuoted_fields, Sl.toList]
    · have hs : scalarOp x (asX pe) = caseOne x.M op arg := funext (scalarOp_case x (asX pe) op arg · hp h1 h2 h3 h4 h5 hop)
      have hnr : isRemove op = false := by cases op <;> simp [isCase] at hop <;> rfl
      rw [hs]
      simp [fields, quotedElemFields, listElems, hifs, hv, hn, h1, h2, h3, h4, h5, hop, hnr, isAtStar,
        Idx.lit, sliceElems, perElemOps, caseConvElems_map x.M op arg l hnp, bind, Except.bind, pure, Except.pure]
      cases mapMExcept (caseOne x.M op arg) l <;> simp [Except.map, addElemsQuoted_fields, Sl.toList]
  · have hs : scalarOp x (asX pe) = fun s => .ok s := funext (scalarOp_plain x (asX pe) · hp h1 h2 h3 h4 h5)
    rw [hs, mapMExcept_ok (fun s => s)]
    simp [fields, quotedElemFields, listElems, hifs, hv, hn, h1, h2, h3, h4, h5, isAtStar, Idx.lit,
      sliceElems, perElemOps, addElemsQuoted_fields, bind, Except.bind, pure, Except.pure, Except.map, Sl.toList]


/-! ## searching index ranges -/

theorem find_range'_some (p : Nat → Bool) (lo n k : Nat) (h : (List.range' lo n).find? p = some k) :
    lo ≤ k ∧ k < lo + n ∧ p k = true ∧ ∀ j, lo ≤ j → j < k → p j = false := by
  induction n generalizing lo with
  | zero => simp at h
  | succ n ih =>
    rw [List.range'_succ, List.find?_cons] at h
    cases hp : p lo with
    | true =>
      rw [hp] at h; cases h
      exact ⟨Nat.le_refl _, by omega, hp, fun j h1 h2 => by omega⟩
    | false =>
      rw [hp] at h
      obtain ⟨a, b, c, d⟩ := ih (lo + 1) h
      refine ⟨by omega, by omega, c, fun j h1 h2 => ?_⟩
      by_cases hj : j = lo
      · subst hj; exact hp
      · exact d j (by omega) h2

theorem find_range'_none (p : Nat → Bool) (lo n : Nat) (h : (List.range' lo n).find? p = none) :
    ∀ j, lo ≤ j → j < lo + n → p j = false := by
  intro j h1 h2
  rw [List.find?_eq_none] at h
  have := h j (by rw [List.mem_range'_1]; omega)
  simpa using this

theorem findrev_range'_some (p : Nat → Bool) (lo n k : Nat)
    (h : (List.range' lo n).reverse.find? p = some k) :
    lo ≤ k ∧ k < lo + n ∧ p k = true ∧ ∀ j, k < j → j < lo + n → p j = false := by
  induction n with
  | zero => simp at h
  | succ n ih =>
    rw [List.range'_concat, List.reverse_append] at h
    simp only [List.reverse_cons, List.reverse_nil, List.nil_append, List.singleton_append, List.find?_cons,
      Nat.one_mul] at h
    cases hp : p (lo + n) with
    | true =>
      rw [hp] at h; cases h
      exact ⟨by omega, by omega, hp, fun j h1 h2 => by omega⟩
    | false =>
      rw [hp] at h
      obtain ⟨a, b, c, d⟩ := ih h
      refine ⟨a, by omega, c, fun j h1 h2 => ?_⟩
      by_cases hj : j = lo + n
      · subst hj; exact hp
      · exact d j h1 (by omega)

theorem findrev_range'_none (p : Nat → Bool) (lo n : Nat) (h : (List.range' lo n).reverse.find? p = none) :
    ∀ j, lo ≤ j → j < lo + n → p j = false := by
  intro j h1 h2
  rw [List.find?_eq_none] at h
  have := h j (by rw [List.mem_reverse, List.mem_range'_1]; omega)
  simpa using this

theorem upTo_zero (n : Nat) : upTo 0 n = List.range' 0 (n + 1) := by simp [upTo]

/-! ## prefix / suffix removal -/

theorem prefix_eq_take {s u r : Str} (h : s = u ++ r) : u = s.take u.length ∧ r = s.drop u.length ∧ u.length ≤ s.length := by
  subst h; simp

theorem suffix_eq_drop {s u r : Str} (h : s = r ++ u) :
    u = s.drop (s.length - u.length) ∧ r = s.take (s.length - u.length) ∧ u.length ≤ s.length := by
  subst h; simp

/-- The full statement for one removal: what is removed matches, and it is the shortest / longest
    such prefix / suffix; nothing is removed only when no prefix / suffix matches. -/
def RemovalSpec (m : Str → Bool) (s : Str) (fromEnd shortest : Bool) (r : Str) : Prop :=
  (∃ u, Removes fromEnd s u r ∧ m u = true ∧
    ∀ u' r', Removes fromEnd s u' r' → m u' = true →
      (if shortest then u.length ≤ u'.length else u'.length ≤ u.length)) ∨
  (r = s ∧ ∀ u' r', Removes fromEnd s u' r' → m u' = false)

theorem removeWith_spec (m : Str → Bool) (s : Str) (fromEnd shortest : Bool) :
    RemovalSpec m s fromEnd shortest (removeWith m s fromEnd shortest) := by
  unfold removeWith RemovalSpec
  cases fromEnd <;> cases shortest <;> simp only [Bool.false_and, Bool.true_and, Bool.and_false, Bool.and_true,
    if_false, if_true, Bool.false_eq_true, Removes]
  · -- longest prefix
    rw [upTo_zero]
    cases h : (List.range' 0 (s.length + 1)).reverse.find? (fun k => m (s.take k)) with
    | some k =>
      obtain ⟨_, b, c, d⟩ := findrev_range'_some _ _ _ _ h
      left
      refine ⟨s.take k, (List.take_append_drop k s).symm, c, fun u' r' h1 h2 => ?_⟩
      obtain ⟨e1, _, e3⟩ := prefix_eq_take h1
      simp only [List.length_take]
      by_cases hlt : k < u'.length
      · have := d u'.length hlt (by omega); rw [← e1, h2] at this; cases this
      · omega
    | none =>
      right
      refine ⟨rfl, fun u' r' h1 => ?_⟩
      obtain ⟨e1, _, e3⟩ := prefix_eq_take h1
      have := findrev_range'_none _ _ _ h u'.length (Nat.zero_le _) (by omega)
      rw [e1]; exact this
  · -- shortest prefix
    rw [upTo_zero]
    cases h : (List.range' 0 (s.length + 1)).find? (fun k => m (s.take k)) with
    | some k =>
      obtain ⟨_, b, c, d⟩ := find_range'_some _ _ _ _ h
      left
      refine ⟨s.take k, (List.take_append_drop k s).symm, c, fun u' r' h1 h2 => ?_⟩
      obtain ⟨e1, _, e3⟩ := prefix_eq_take h1
      simp only [List.length_take]
      by_cases hlt : u'.length < k
      · have := d u'.length (Nat.zero_le _) hlt; rw [← e1, h2] at this; cases this
      · omega
    | none =>
      right
      refine ⟨rfl, fun u' r' h1 => ?_⟩
      obtain ⟨e1, _, e3⟩ := prefix_eq_take h1
      have := find_range'_none _ _ _ h u'.length (Nat.zero_le _) (by omega)
      rw [e1]; exact this
  · -- longest suffix: the smallest start
    rw [upTo_zero]
    cases h : (List.range' 0 (s.length + 1)).find? (fun j => m (s.drop j)) with
    | some k =>
      obtain ⟨_, b, c, d⟩ := find_range'_some _ _ _ _ h
      left
      refine ⟨s.drop k, (List.take_append_drop k s).symm, c, fun u' r' h1 h2 => ?_⟩
      obtain ⟨e1, _, e3⟩ := suffix_eq_drop h1
      simp only [List.length_drop]
      by_cases hlt : s.length - u'.length < k
      · have := d (s.length - u'.length) (Nat.zero_le _) hlt; rw [← e1, h2] at this; cases this
      · omega
    | none =>
      right
      refine ⟨rfl, fun u' r' h1 => ?_⟩
      obtain ⟨e1, _, e3⟩ := suffix_eq_drop h1
      have := find_range'_none _ _ _ h (s.length - u'.length) (Nat.zero_le _) (by omega)
      rw [e1]; exact this
  · -- shortest suffix: the largest start
    rw [upTo_zero]
    cases h : (List.range' 0 (s.length + 1)).reverse.find? (fun j => m (s.drop j)) with
    | some k =>
      obtain ⟨_, b, c, d⟩ := findrev_range'_some _ _ _ _ h
      left
      refine ⟨s.drop k, (List.take_append_drop k s).symm, c, fun u' r' h1 h2 => ?_⟩
      obtain ⟨e1, _, e3⟩ := suffix_eq_drop h1
      simp only [List.length_drop]
      by_cases hlt : k < s.length - u'.length
      · have := d (s.length - u'.length) hlt (by omega); rw [← e1, h2] at this; cases this
      · omega
    | none =>
      right
      refine ⟨rfl, fun u' r' h1 => ?_⟩
      obtain ⟨e1, _, e3⟩ := suffix_eq_drop h1
      have := findrev_range'_none _ _ _ h (s.length - u'.length) (Nat.zero_le _) (by omega)
      rw [e1]; exact this

/-! ## replacement -/

theorem findSome_range'_some {α : Type} (f : Nat → Option α) (lo n : Nat) (v : α)
    (h : (List.range' lo n).findSome? f = some v) :
    ∃ i, lo ≤ i ∧ i < lo + n ∧ f i = some v ∧ ∀ j, lo ≤ j → j < i → f j = none := by
  induction n generalizing lo with
  | zero => simp at h
  | succ n ih =>
    rw [List.range'_succ, List.findSome?_cons] at h
    cases hf : f lo with
    | some v' =>
      rw [hf] at h; cases h
      exact ⟨lo, Nat.le_refl _, by omega, hf, fun j h1 h2 => by omega⟩
    | none =>
      rw [hf] at h
      obtain ⟨i, a, b, c, d⟩ := ih (lo + 1) h
      refine ⟨i, by omega, by omega, c, fun j h1 h2 => ?_⟩
      by_cases hj : j = lo
      · subst hj; exact hf
      · exact d j (by omega) h2

theorem findSome_range'_none {α : Type} (f : Nat → Option α) (lo n : Nat)
    (h : (List.range' lo n).findSome? f = none) : ∀ j, lo ≤ j → j < lo + n → f j = none := by
  intro j h1 h2
  rw [List.findSome?_eq_none_iff] at h
  exact h j (by rw [List.mem_range'_1]; omega)

/-- No non-empty prefix of `t` matches. -/
def NoMatchAt (m : Str → Bool) (t : Str) : Prop := ∀ k, 1 ≤ k → k ≤ t.length → m (t.take k) = false

/-- The longest non-empty prefix of `t` that matches has length `k`. -/
def LongestAt (m : Str → Bool) (t : Str) (k : Nat) : Prop :=
  1 ≤ k ∧ k ≤ t.length ∧ m (t.take k) = true ∧ ∀ k', k < k' → k' ≤ t.length → m (t.take k') = false

/-- `${s//pat/w}` as a relation: scan left to right; where no non-empty prefix of the rest
    matches, copy one character; otherwise replace the longest matching prefix and go on behind it. -/
inductive ReplAll (m : Str → Bool) (w : Str) : Str → Str → Prop
  | nil : ReplAll m w [] []
  | skip (c : Char) (cs r : Str) : NoMatchAt m (c :: cs) → ReplAll m w cs r → ReplAll m w (c :: cs) (c :: r)
  | hit (t : Str) (k : Nat) (r : Str) : LongestAt m t k → ReplAll m w (t.drop k) r → ReplAll m w t (w ++ r)

/-- `${s/pat/w}` as a relation: the first position with a match, the longest match there. -/
def ReplFirst (m : Str → Bool) (w : Str) (t r : Str) : Prop :=
  ((∀ i, i ≤ t.length → NoMatchAt m (t.drop i)) ∧ r = t) ∨
  ∃ a k, (∀ i, i < a → NoMatchAt m (t.drop i)) ∧ LongestAt m (t.drop a) k ∧ r = t.take a ++ w ++ t.drop (a + k)

theorem sub_eq (s : Str) (i j : Nat) : sub s i j = (s.drop i).take (j - i) := rfl

theorem inner_none (m : Str → Bool) (s : Str) (i : Nat)
    (h : (upTo i s.length).reverse.find? (fun j => m (sub s i j)) = none) : NoMatchAt m (s.drop i) := by
  intro k h1 h2
  simp only [List.length_drop] at h2
  have := findrev_range'_none _ _ _ h (i + k) (by omega) (by omega)
  simpa [sub_eq] using this

theorem inner_some (m : Str → Bool) (s : Str) (i j : Nat) (hne : m [] = false)
    (h : (upTo i s.length).reverse.find? (fun j => m (sub s i j)) = some j) :
    i < j ∧ j ≤ s.length ∧ LongestAt m (s.drop i) (j - i) := by
  obtain ⟨a, b, c, d⟩ := findrev_range'_some _ _ _ _ h
  have hij : i ≠ j := by
    intro e; subst e
    simp [sub_eq, hne] at c
  refine ⟨by omega, by omega, by omega, by simp only [List.length_drop]; omega, by simpa [sub_eq] using c, ?_⟩
  intro k' h1 h2
  simp only [List.length_drop] at h2
  have := d (i + k') (by omega) (by omega)
  simpa [sub_eq] using this

theorem findFrom_none (m : Str → Bool) (s : Str) (pos : Nat) (h : findFrom m s pos = none) :
    ∀ i, pos ≤ i → i ≤ s.length → NoMatchAt m (s.drop i) := by
  intro i h1 h2
  unfold findFrom upTo at h
  have := findSome_range'_none _ _ _ h i h1 (by omega)
  simp only [Option.map_eq_none_iff] at this
  exact inner_none m s i this

theorem findFrom_some (m : Str → Bool) (s : Str) (pos a b : Nat) (hne : m [] = false)
    (h : findFrom m s pos = some (a, b)) :
    pos ≤ a ∧ a < b ∧ b ≤ s.length ∧ (∀ i, pos ≤ i → i < a → NoMatchAt m (s.drop i)) ∧
      LongestAt m (s.drop a) (b - a) := by
  unfold findFrom upTo at h
  obtain ⟨i, h1, h2, h3, h4⟩ := findSome_range'_some _ _ _ _ h
  simp only [Option.map_eq_some_iff, Prod.mk.injEq] at h3
  obtain ⟨j, hj, rfl, rfl⟩ := h3
  obtain ⟨e1, e2, e3⟩ := inner_some m s i j hne hj
  refine ⟨h1, e1, e2, fun i' g1 g2 => ?_, e3⟩
  have := h4 i' g1 g2
  simp only [Option.map_eq_none_iff] at this
  exact inner_none m s i' this

theorem replAll_nomatch (m : Str → Bool) (w t : Str)
    (h : ∀ i, i ≤ t.length → NoMatchAt m (t.drop i)) : ReplAll m w t t := by
  induction t with
  | nil => exact .nil
  | cons c cs ih =>
    refine .skip c cs cs (by simpa using h 0 (Nat.zero_le _)) (ih fun i hi => ?_)
    simpa using h (i + 1) (by simp; omega)

/-- copying a gap: no match starts in the first `g` positions -/
theorem replAll_gap (m : Str → Bool) (w t r : Str) (g : Nat) (hg : g ≤ t.length)
    (h : ∀ i, i < g → NoMatchAt m (t.drop i)) (hr : ReplAll m w (t.drop g) r) :
    ReplAll m w t (t.take g ++ r) := by
  induction g generalizing t with
  | zero => simpa using hr
  | succ g ih =>
    cases t with
    | nil => simp at hg
    | cons c cs =>
      simp only [List.take_succ_cons, List.cons_append]
      refine .skip c cs _ (by simpa using h 0 (by omega)) ?_
      refine ih cs (by simpa using hg) (fun i hi => ?_) (by simpa using hr)
      simpa using h (i + 1) (by omega)

theorem spliceLocs_nil (s w : Str) (last : Nat) : spliceLocs s w last [] = s.drop last := rfl

theorem drop_sub (s : Str) (pos a : Nat) (_h : pos ≤ a) : sub s pos a = (s.drop pos).take (a - pos) := rfl

/-- The loop of `allMatches` in "all" mode, from position `pos`. -/
theorem allMatches_replAll (m : Str → Bool) (s w : Str) (hne : m [] = false) :
    ∀ (fuel pos cnt : Nat) (prev : Option Nat), pos ≤ s.length → s.length - pos + 1 ≤ fuel → cnt ≤ pos →
      ReplAll m w (s.drop pos) (spliceLocs s w pos (allMatches m s (s.length + 1) fuel pos cnt prev)) := by
  intro fuel
  induction fuel with
  | zero => intro pos cnt prev h1 h2; omega
  | succ fuel ih =>
    intro pos cnt prev h1 h2 h3
    unfold allMatches
    have hc : (decide (cnt < s.length + 1) && decide (pos ≤ s.length)) = true := by
      simp; omega
    simp only [hc, if_true]
    cases hf : findFrom m s pos with
    | none =>
      simp only [spliceLocs_nil]
      apply replAll_nomatch
      intro i hi
      simp only [List.length_drop] at hi
      have := findFrom_none m s pos hf (pos + i) (by omega) (by omega)
      simpa [List.drop_drop, Nat.add_comm] using this
    | some ab =>
      obtain ⟨a, b⟩ := ab
      obtain ⟨g1, g2, g3, g4, g5⟩ := findFrom_some m s pos a b hne hf
      have hbp : (b == pos) = false := by simp; omega
      simp only [hbp, Bool.false_eq_true, if_false, spliceLocs]
      have ihb := ih b (cnt + 1) (some b) g3 (by omega) (by omega)
      rw [drop_sub s pos a g1, List.append_assoc]
      apply replAll_gap m w (s.drop pos) _ (a - pos) (by simp only [List.length_drop]; omega)
      · intro i hi
        have := g4 (pos + i) (by omega) (by omega)
        simpa [List.drop_drop, Nat.add_comm] using this
      · have e1 : (s.drop pos).drop (a - pos) = s.drop a := by
          rw [List.drop_drop]; congr 1; omega
        rw [e1]
        refine .hit (s.drop a) (b - a) _ g5 ?_
        have e2 : (s.drop a).drop (b - a) = s.drop b := by
          rw [List.drop_drop]; congr 1; omega
        rw [e2]; exact ihb

theorem findAll_replAll (m : Str → Bool) (s w : Str) (hne : m [] = false) :
    ReplAll m w s (spliceLocs s w 0 (findAll m s true)) := by
  have := allMatches_replAll m s w hne (s.length + 2) 0 0 none (Nat.zero_le _) (by omega) (Nat.le_refl _)
  simpa [findAll] using this

theorem findAll_replFirst (m : Str → Bool) (s w : Str) (hne : m [] = false) :
    ReplFirst m w s (spliceLocs s w 0 (findAll m s false)) := by
  unfold findAll
  simp only [Bool.false_eq_true, if_false]
  unfold allMatches
  simp only [Nat.lt_one_iff, decide_true, Nat.zero_le, Bool.and_self, if_true]
  cases hf : findFrom m s 0 with
  | none =>
    left
    exact ⟨fun i hi => findFrom_none m s 0 hf i (Nat.zero_le _) hi, rfl⟩
  | some ab =>
    obtain ⟨a, b⟩ := ab
    obtain ⟨g1, g2, g3, g4, g5⟩ := findFrom_some m s 0 a b hne hf
    have hbp : (b == 0) = false := by simp; omega
    right
    refine ⟨a, b - a, fun i hi => g4 i (Nat.zero_le _) hi, g5, ?_⟩
    simp only [hbp, Bool.false_eq_true, if_false, spliceLocs]
    have : allMatches m s 1 (s.length + 1) b (0 + 1) (some b) = [] := by
      unfold allMatches; simp
    rw [this, spliceLocs_nil]
    have e : a + (b - a) = b := by omega
    rw [e]
    rw [sub_eq]; simp

/-- A pattern that matches everything (such as `*`): one match, the whole string. -/
theorem findAll_everything (m : Str → Bool) (s w : Str) (all : Bool) (hall : ∀ u, m u = true) :
    spliceLocs s w 0 (findAll m s all) = w := by
  have hff : ∀ pos, pos ≤ s.length → findFrom m s pos = some (pos, s.length) := by
    intro pos hp
    unfold findFrom
    have hn : s.length + 1 - pos = (s.length - pos) + 1 := by omega
    have hup : upTo pos s.length = pos :: List.range' (pos + 1) (s.length - pos) := by
      unfold upTo; rw [hn, List.range'_succ]
    have : (upTo pos s.length).reverse.find? (fun j => m (sub s pos j)) = some s.length := by
      unfold upTo
      rw [hn, List.range'_concat, List.reverse_append]
      simp only [List.reverse_cons, List.reverse_nil, List.nil_append, List.singleton_append, Nat.one_mul,
        List.find?_cons, hall]
      congr 1; omega
    rw [hup, List.findSome?_cons, this]
    rfl
  unfold findAll
  cases hs : s.length with
  | zero =>
    have hs' : s = [] := List.eq_nil_of_length_eq_zero hs
    subst hs'
    have h0 := hff 0 (Nat.zero_le _)
    cases all <;> (unfold allMatches; simp [h0]; unfold allMatches; simp [spliceLocs, sub])
  | succ n =>
    have h0 := hff 0 (Nat.zero_le _)
    have hn := hff s.length (Nat.le_refl _)
    rw [hs] at h0 hn
    cases all
    · unfold allMatches; simp [h0]; unfold allMatches; simp [spliceLocs, sub, hs]
    · unfold allMatches; simp [h0]; unfold allMatches; simp [hs, hn]
      unfold allMatches; simp [spliceLocs, sub, hs, Nat.not_succ_le_self]

/-! ### the executable specification satisfies the relations, and the relations are functional -/

theorem longestAt_some (m : Str → Bool) (t : Str) (k : Nat) (h : Spec.longestAt m t = some k) :
    LongestAt m t k := by
  unfold Spec.longestAt upTo at h
  obtain ⟨a, b, c, d⟩ := findrev_range'_some _ _ _ _ h
  exact ⟨a, by omega, c, fun k' h1 h2 => d k' h1 (by omega)⟩

theorem longestAt_none (m : Str → Bool) (t : Str) (h : Spec.longestAt m t = none) : NoMatchAt m t := by
  unfold Spec.longestAt upTo at h
  intro k h1 h2
  exact findrev_range'_none _ _ _ h k h1 (by omega)

theorem noMatch_longest_absurd {m : Str → Bool} {t : Str} {k : Nat} (h1 : NoMatchAt m t) (h2 : LongestAt m t k) :
    False := by
  have := h1 k h2.1 h2.2.1
  rw [h2.2.2.1] at this; cases this

theorem longest_unique {m : Str → Bool} {t : Str} {k1 k2 : Nat} (h1 : LongestAt m t k1) (h2 : LongestAt m t k2) :
    k1 = k2 := by
  by_cases h : k1 < k2
  · have := h1.2.2.2 k2 h h2.2.1; rw [h2.2.2.1] at this; cases this
  · by_cases h' : k2 < k1
    · have := h2.2.2.2 k1 h' h1.2.1; rw [h1.2.2.1] at this; cases this
    · omega

theorem specReplAll_rel (m : Str → Bool) (w : Str) :
    ∀ (fuel : Nat) (t : Str), t.length ≤ fuel → ReplAll m w t (Spec.replAll m w fuel t) := by
  intro fuel
  induction fuel with
  | zero =>
    intro t h
    have : t = [] := List.eq_nil_of_length_eq_zero (by omega)
    subst this; exact .nil
  | succ fuel ih =>
    intro t h
    cases t with
    | nil => exact .nil
    | cons c cs =>
      simp only [Spec.replAll]
      cases hl : Spec.longestAt m (c :: cs) with
      | some k =>
        have hk := longestAt_some m _ k hl
        exact .hit _ k _ hk (ih _ (by
          have h1 := hk.1
          simp only [List.length_drop, List.length_cons] at h ⊢; omega))
      | none =>
        exact .skip c cs _ (longestAt_none m _ hl) (ih cs (by simpa using h))

theorem replAll_functional (m : Str → Bool) (w t r1 r2 : Str) (h1 : ReplAll m w t r1) (h2 : ReplAll m w t r2) :
    r1 = r2 := by
  induction h1 generalizing r2 with
  | nil =>
    cases h2 with
    | nil => rfl
    | hit t k r hk _ => exact absurd hk.2.1 (by have := hk.1; simp; omega)
  | skip c cs r hn _ ih =>
    cases h2 with
    | skip _ _ r' _ hr => rw [ih r' hr]
    | hit t k r' hk _ => exact (noMatch_longest_absurd hn hk).elim
  | hit t k r hk _ ih =>
    cases h2 with
    | nil => exact absurd hk.2.1 (by have := hk.1; simp; omega)
    | skip c cs r' hn _ => exact (noMatch_longest_absurd hn hk).elim
    | hit _ k' r' hk' hr =>
      have := longest_unique hk hk'
      subst this
      rw [ih r' hr]

theorem specReplFirst_rel (m : Str → Bool) (w t : Str) : ReplFirst m w t (Spec.replFirst m w t) := by
  induction t with
  | nil =>
    left
    refine ⟨fun i hi k h1 h2 => ?_, rfl⟩
    simp at h2; omega
  | cons c cs ih =>
    simp only [Spec.replFirst]
    cases hl : Spec.longestAt m (c :: cs) with
    | some k =>
      right
      exact ⟨0, k, fun i hi => by omega, by simpa using longestAt_some m _ k hl, by simp⟩
    | none =>
      have hn := longestAt_none m _ hl
      rcases ih with ⟨h1, h2⟩ | ⟨a, k, h1, h2, h3⟩
      · left
        refine ⟨fun i hi => ?_, by simp only; rw [h2]⟩
        cases i with
        | zero => simpa using hn
        | succ j => simpa using h1 j (by simpa using hi)
      · right
        refine ⟨a + 1, k, fun i hi => ?_, by simpa using h2, by simp only; rw [h3]; simp [Nat.add_right_comm]⟩
        cases i with
        | zero => simpa using hn
        | succ j => simpa using h1 j (by omega)

theorem replFirst_functional (m : Str → Bool) (w t r1 r2 : Str) (h1 : ReplFirst m w t r1) (h2 : ReplFirst m w t r2) :
    r1 = r2 := by
  have key : ∀ a k, LongestAt m (t.drop a) k → a ≤ t.length := by
    intro a k hk
    have := hk.1; have := hk.2.1
    simp only [List.length_drop] at this; omega
  rcases h1 with ⟨a1, b1⟩ | ⟨a1, k1, c1, d1, e1⟩ <;> rcases h2 with ⟨a2, b2⟩ | ⟨a2, k2, c2, d2, e2⟩
  · rw [b1, b2]
  · exact (noMatch_longest_absurd (a1 a2 (key _ _ d2)) d2).elim
  · exact (noMatch_longest_absurd (a2 a1 (key _ _ d1)) d1).elim
  · have ha : a1 = a2 := by
      by_cases h : a1 < a2
      · exact (noMatch_longest_absurd (c2 a1 h) d1).elim
      · by_cases h' : a2 < a1
        · exact (noMatch_longest_absurd (c1 a2 h') d2).elim
        · omega
    subst ha
    have := longest_unique d1 d2
    subst this
    rw [e1, e2]

/-- The matcher hypothesis about patterns that match the empty string (true of shell patterns
    without extended operators: such a pattern consists of stars only). -/
def EmptyAll (m : Str → Bool) : Prop := m [] = true → ∀ u, m u = true

/-- The model's replacement of one string equals the executable specification. -/
theorem splice_eq_spec (m : Str → Bool) (w s : Str) (all : Bool) (hE : EmptyAll m) :
    spliceLocs s w 0 (findAll m s all) = Spec.replace m .none all w s := by
  unfold Spec.replace
  cases hne : m [] with
  | true => simp only [if_true]; exact findAll_everything m s w all (hE hne)
  | false =>
    simp only [Bool.false_eq_true, if_false]
    cases all
    · simp only [Bool.false_eq_true, if_false]
      exact replFirst_functional m w s _ _ (findAll_replFirst m s w hne) (specReplFirst_rel m w s)
    · simp only [if_true]
      exact replAll_functional m w s _ _ (findAll_replAll m s w hne) (specReplAll_rel m w s.length s (Nat.le_refl _))

/-! ## removal and replacement on a set scalar -/

theorem remove_scalar_eq (x : Ext) (cfg : Cfg) (env : Env) (name s ifs arg : Str) (op : ExpOp)
    (m : Str → Bool) (hifs : ifsOf env = .ok ifs) (hp : Plain name) (hv : env.get name = Var.ofStr s)
    (hop : isRemove op = true) (hM : x.M arg = .ok m) :
    paramExp x cfg env { name := name, exp := some (op, arg) }
      = .ok (removeWith m s (op == .remSmallSuf || op == .remLargeSuf)
              (op == .remSmallPre || op == .remSmallSuf), env) := by
  cases op <;> simp [isRemove] at hop <;>
  simp [paramExp, hifs, hv, effIdx, hp.1, hp.2, isAtStar, Idx.lit, varInd_scalar, removePatternElems, mapMExcept,
    removePattern, hM, bind, Except.bind, pure, Except.pure, Sl.toList]

theorem repl_scalar_eq (x : Ext) (cfg : Cfg) (env : Env) (name s ifs : Str) (r : Repl)
    (m : Str → Bool) (hifs : ifsOf env = .ok ifs) (hp : Plain name) (hv : env.get name = Var.ofStr s)
    (hne : r.orig ≠ []) (hM : x.M r.orig = .ok m) :
    paramExp x cfg env { name := name, repl := some r }
      = .ok (spliceLocs s r.with_ 0 (findAll m s r.all), env) := by
  have : r.orig.isEmpty = false := by cases h : r.orig <;> simp_all
  simp [paramExp, hifs, hv, effIdx, hp.1, hp.2, isAtStar, Idx.lit, varInd_scalar, replaceElems, this, hM,
    bind, Except.bind, pure, Except.pure, Sl.toList]

end ShVerif.C21
