import ShVerif.Proofs.C26e
/-
  C26 — simulation: `{ }`, `&&`, `||` and the "condition" contexts (`noErrExit` against the
  "`-e` is ignored" context of `BashSem`).
-/
namespace ShVerif.C26
open ShVerif.L5 ShVerif.L5.Bash

theorem Post.weaken_le {K : SCtx} {k : Ctx} {sub : Bool} {le q : Prop} {s s' : St} {fl : Flow}
    {e' : Env} (h : Post K k sub True q s s' fl e') : Post K k sub le q s s' fl e' := by
  cases fl with
  | norm =>
    obtain ⟨h1, h2, h3, h4, h5, h6, h7⟩ := h
    exact ⟨h1, h2, h3, h4, h5, fun _ => h6 trivial, h7⟩
  | brk m =>
    obtain ⟨h1, h2, h3, h4, h5, h6, h7, h8, h9⟩ := h
    exact ⟨h1, h2, h3, h4, h5, h6, h7, h8, fun _ => h9 trivial⟩
  | cont m =>
    obtain ⟨h1, h2, h3, h4, h5, h6, h7, h8, h9⟩ := h
    exact ⟨h1, h2, h3, h4, h5, h6, h7, h8, fun _ => h9 trivial⟩
  | ret =>
    obtain ⟨h1, h2, h3, h4, h5, h6, h8, h9⟩ := h
    exact ⟨h1, h2, h3, h4, h5, h6, fun _ => h8 trivial, h9⟩
  | exit => exact h

theorem noFlags_of_exit {s : St} (hx : s.exit = {}) : NoFlags s := by
  simp [NoFlags, hx]

theorem sim_block {n : Nat} (hS : SimS n) {K : SCtx} {k : Ctx} {sub : Bool} {s : St} (p : Prog)
    (hst : Stat K k sub) (hs : supCmd K (.block p) = true) (hd : Dyn K k sub s) (hl : LastOk s)
    (hp : NoPending s) (hx : s.exit = {}) (q : Prop) :
    Rel (Post K k sub False q s) (run (n+1) (.cmd (.block p)) s)
      (sem (n+1) k (.cmd (.block p)) (absEnv s)) := by
  simp only [supCmd, Bool.and_eq_true, Bool.not_eq_eq_eq_not, Bool.not_true] at hs
  have h := sim_list n hS p K true k sub s hs.1 hst hs.2 hd hl (noFlags_of_exit hx) hp
  simp only [run, sem, stop_false_of_exit hx, Bool.false_eq_true, ↓reduceIte]
  exact Rel_mono (fun _ _ _ h => (h.mono_q (fun _ => rfl)).weaken_le) h

/-! ### Condition contexts -/

/-- The static context of a condition (`if`/`while` test, left operand of `&&`/`||`). -/
def condK (K : SCtx) : SCtx := { K with ign := true, tl := headFalse K.tl }

theorem Stat.cond {K : SCtx} {k : Ctx} {sub : Bool} (h : Stat K k sub) :
    Stat (condK K) { k with ign := true } sub :=
  ⟨h.kt, fun _ => rfl, fun _ h' => by simp [condK] at h', h.kfn,
    by simpa [condK, headFalse_length] using h.depth, h.top⟩

theorem Dyn.cond {K : SCtx} {k : Ctx} {sub : Bool} {s : St} (h : Dyn K k sub s) :
    Dyn (condK K) { k with ign := true } sub { s with noErrExit := true } :=
  ⟨h.cerr, h.csub, h.fok, h.ht, fun _ => rfl, h.noe, h.sfn,
    fun hne => h.inl ((headFalse_ne_nil K.tl).1 hne)⟩

/-- Back from a condition: `noErrExit` is restored. -/
theorem Dyn.uncond {K : SCtx} {k k' : Ctx} {sub : Bool} {s s1 : St} (h0 : Dyn K k sub s)
    (h : Dyn (condK K) k' sub s1) :
    Dyn K k sub { s1 with noErrExit := s.noErrExit } :=
  ⟨h.cerr, h.csub, h.fok, h.ht, h0.eign, h.noe, h.sfn,
    fun hne => h.inl ((headFalse_ne_nil K.tl).2 hne)⟩

theorem Frame.uncond {s s1 : St} (h : Frame { s with noErrExit := true } s1) :
    Frame s { s1 with noErrExit := s.noErrExit } :=
  ⟨rfl, h.il, h.inf⟩

/-- An abnormal completion of a condition, seen from the enclosing command. -/
theorem Post.uncond {K : SCtx} {k k' : Ctx} {sub : Bool} {le q q' : Prop} {s s1 : St} {fl : Flow}
    {e1 : Env} (h0 : Dyn K k sub s)
    (h : Post (condK K) k' sub le q { s with noErrExit := true } s1 fl e1)
    (hfl : fl ≠ .norm) :
    Post K k sub False q' s { s1 with noErrExit := s.noErrExit } fl e1 := by
  cases fl with
  | norm => exact absurd rfl hfl
  | brk m =>
    obtain ⟨_, _, _, _, _, _, hl, _⟩ := h
    exact absurd hl (not_levels_headFalse K m)
  | cont m =>
    obtain ⟨_, _, _, _, _, _, hl, _⟩ := h
    exact absurd hl (not_levels_headFalse K m)
  | ret =>
    obtain ⟨h1, h2, h3, h4, h5, h6, _, h9⟩ := h
    refine ⟨h1, h0.uncond h2, h3.uncond, h4, h5, h6, fun x => x.elim, ?_⟩
    intro hx
    have := (h9 hx).2.1
    rw [h3.ne] at this
    cases this
  | exit => exact h

theorem run_and (n : Nat) (x y : Stmt) (s : St) (hs : stop s = false) :
    run (n+1) (.cmd (.and x y)) s =
      match run n (.stmt x) { s with noErrExit := true } with
      | none => none
      | some s1 =>
        if (s1.exit.ok == true) then run n (.stmt y) { s1 with noErrExit := s.noErrExit }
        else some { s1 with noErrExit := s.noErrExit } := by
  rw [run]; simp only [hs, Bool.false_eq_true, ↓reduceIte]
  cases run n (.stmt x) { s with noErrExit := true } with
  | none => rfl
  | some s1 =>
    show (if s1.exit.ok = true then _ else _) = (if (s1.exit.ok == true) = true then _ else _)
    cases s1.exit.ok <;> rfl

theorem run_or (n : Nat) (x y : Stmt) (s : St) (hs : stop s = false) :
    run (n+1) (.cmd (.or x y)) s =
      match run n (.stmt x) { s with noErrExit := true } with
      | none => none
      | some s1 =>
        if (s1.exit.ok == false) then run n (.stmt y) { s1 with noErrExit := s.noErrExit }
        else some { s1 with noErrExit := s.noErrExit } := by
  rw [run]; simp only [hs, Bool.false_eq_true, ↓reduceIte]
  cases run n (.stmt x) { s with noErrExit := true } with
  | none => rfl
  | some s1 =>
    show (if (!s1.exit.ok) = true then _ else _) = (if (s1.exit.ok == false) = true then _ else _)
    cases s1.exit.ok <;> rfl

theorem sem_and (n : Nat) (k : Ctx) (x y : Stmt) (e : Env) :
    sem (n+1) k (.cmd (.and x y)) e =
      match sem n { k with ign := true } (.stmt x) e with
      | none => none
      | some (.norm, e1) =>
        if ((e1.status == 0) == true) then sem n k (.stmt y) e1 else some (.norm, e1)
      | some r => some r := by
  rw [sem]
  cases sem n { k with ign := true } (.stmt x) e with
  | none => rfl
  | some r =>
    obtain ⟨fl, e1⟩ := r
    cases fl <;> try rfl
    show (if e1.status = 0 then _ else _) = (if ((e1.status == 0) == true) = true then _ else _)
    by_cases h : e1.status = 0 <;> simp [h]

theorem sem_or (n : Nat) (k : Ctx) (x y : Stmt) (e : Env) :
    sem (n+1) k (.cmd (.or x y)) e =
      match sem n { k with ign := true } (.stmt x) e with
      | none => none
      | some (.norm, e1) =>
        if ((e1.status == 0) == false) then sem n k (.stmt y) e1 else some (.norm, e1)
      | some r => some r := by
  rw [sem]
  cases sem n { k with ign := true } (.stmt x) e with
  | none => rfl
  | some r =>
    obtain ⟨fl, e1⟩ := r
    cases fl <;> try rfl
    show (if e1.status ≠ 0 then _ else _) = (if ((e1.status == 0) == false) = true then _ else _)
    by_cases h : e1.status = 0 <;> simp [h]

/-- `x && y` and `x || y` (`isAnd` selects). -/
theorem sim_andor {n : Nat} (hS : SimS n) {K : SCtx} {k : Ctx} {sub : Bool} {s : St}
    (isAnd : Bool) (x y : Stmt) (hst : Stat K k sub)
    (hsx : supStmt (condK K) x = true) (hsy : supStmt K y = true)
    (hd : Dyn K k sub s) (hl : LastOk s) (hp : NoPending s) (hx : s.exit = {}) :
    Rel (Post K k sub False (isAnd = false ∧ tailOkS y = true) s)
      (match run n (.stmt x) { s with noErrExit := true } with
       | none => none
       | some s1 =>
         if (s1.exit.ok == isAnd) then run n (.stmt y) { s1 with noErrExit := s.noErrExit }
         else some { s1 with noErrExit := s.noErrExit })
      (match sem n { k with ign := true } (.stmt x) (absEnv s) with
       | none => none
       | some (.norm, e1) =>
         if ((e1.status == 0) == isAnd) then sem n k (.stmt y) e1 else some (.norm, e1)
       | some r => some r) := by
  have h0 := hS (condK K) { k with ign := true } sub x { s with noErrExit := true } hst.cond hsx
    hd.cond hl (noFlags_of_exit hx) hp
  have hae : absEnv { s with noErrExit := true } = absEnv s := rfl
  rw [hae] at h0
  cases hr : run n (.stmt x) { s with noErrExit := true } with
  | none => rw [hr] at h0; rw [Rel_none h0]; trivial
  | some s1 =>
    rw [hr] at h0
    obtain ⟨fl, e1, he, hpx⟩ := Rel_some h0
    rw [he]
    have hn1 : 1 ≤ n := run_pos hr
    cases fl with
    | norm =>
      obtain ⟨h1, h2, h3, h4, h5, h6, _⟩ := hpx
      subst h1
      have hle : s1.lastExit = s1.exit := h6 trivial
      have hd2 : Dyn K k sub { s1 with noErrExit := s.noErrExit } := hd.uncond h2
      have hst0 : (absEnvC s1).status = s1.exit.code := rfl
      have hcond : ((absEnvC s1).status == 0) = s1.exit.ok := by simp [hst0, Exit.ok]
      simp only [hcond]
      by_cases hc : (s1.exit.ok == isAnd) = true
      · simp only [hc, ↓reduceIte]
        have hae2 : absEnvC s1 = absEnv { s1 with noErrExit := s.noErrExit } := by
          simp [absEnv, absEnvC, hle]
        rw [hae2]
        have hy := hS K k sub y { s1 with noErrExit := s.noErrExit } hst hsy hd2
          (LastOk_of_le hle h4) h4 h5
        refine Rel_mono (fun _ _ _ h => ?_) hy
        exact ((h.frame_trans h3.uncond).mono_q (fun hq => hq.2)).weaken_le
      · simp only [hc, Bool.false_eq_true, ↓reduceIte, Rel, Post]
        refine ⟨by triv, hd2, h3.uncond, h4, h5, fun hf => hf.elim, ?_⟩
        intro ⟨hia, _⟩ hne
        subst hia
        -- `x || y` with `x` successful: status 0
        have : s1.exit.ok = true := by
          cases hok : s1.exit.ok with
          | true => rfl
          | false => simp [hok] at hc
        simp [Exit.ok] at this
        exact absurd this hne
    | brk m =>
      obtain ⟨_, _, _, _, _, _, hlv, _⟩ := hpx
      exact absurd hlv (not_levels_headFalse K m)
    | cont m =>
      obtain ⟨_, _, _, _, _, _, hlv, _⟩ := hpx
      exact absurd hlv (not_levels_headFalse K m)
    | ret =>
      have hs1 : stop s1 = true := hpx.stopped (Or.inl rfl)
      have hs2 : stop { s1 with noErrExit := s.noErrExit } = true := hs1
      have hpost := hpx.uncond (q' := isAnd = false ∧ tailOkS y = true) hd (by simp)
      by_cases hc : (s1.exit.ok == isAnd) = true
      · simp only [hc, ↓reduceIte]
        rw [run_stmt_stopped hn1 y _ hs2]
        exact hpost
      · simp only [hc, Bool.false_eq_true, ↓reduceIte]
        exact hpost
    | exit =>
      have hs1 : stop s1 = true := hpx.stopped (Or.inr rfl)
      have hs2 : stop { s1 with noErrExit := s.noErrExit } = true := hs1
      have hpost := hpx.uncond (q' := isAnd = false ∧ tailOkS y = true) hd (by simp)
      by_cases hc : (s1.exit.ok == isAnd) = true
      · simp only [hc, ↓reduceIte]
        rw [run_stmt_stopped hn1 y _ hs2]
        exact hpost
      · simp only [hc, Bool.false_eq_true, ↓reduceIte]
        exact hpost

end ShVerif.C26
