import ShVerif.Proofs.C26b
/-
  C26 — simulation: `Runner.stmt`/`stmtSync` (negation, the errexit test) against `BashSem`.
-/
namespace ShVerif.C26
open ShVerif.L5 ShVerif.L5.Bash

theorem run_trap_nil {n : Nat} (hn : 1 ≤ n) (s : St) : run n (.trap .nil) s = some s := by
  cases n with
  | zero => omega
  | succ m => simp [run, Prog.isNil]

theorem sem_trap_nil {n : Nat} (hn : 1 ≤ n) (k : Ctx) (e : Env) :
    sem n k (.trap .nil) e = some (.norm, e) := by
  cases n with
  | zero => omega
  | succ m => simp [sem, Prog.isNil]

theorem errAction_nil (e0 : Env) {e1 : Env} (h : e1.trapErr = .nil) : errAction e0 e1 = .nil := by
  unfold errAction; split <;> simp [h]

theorem absEnv_exit (s : St) (x : Exit) : absEnv { s with exit := x } = absEnv s := rfl

/-- `BashSem` does not look at the context for simple commands without control effect. -/
theorem sem_pure_ctx {n : Nat} (k1 k2 : Ctx) (c : Cmd) (hc : pureCmd c = true) (e : Env) :
    sem n k1 (.cmd c) e = sem n k2 (.cmd c) e := by
  cases n with
  | zero => simp [sem]
  | succ m => cases c <;> simp [pureCmd] at hc <;> simp [sem]

theorem Dyn.ctx_of_not_e {K : SCtx} {k1 k2 : Ctx} {sub : Bool} {s : St} (he : K.e = false)
    (h : Dyn K k1 sub s) : Dyn K k2 sub s :=
  ⟨h.cerr, h.csub, h.fok, h.ht, fun h' => by simp [he] at h', h.noe, h.sfn, h.inl⟩

/-- Simple commands without control effect complete normally. -/
theorem sim_pure {n : Nat} {K : SCtx} {k : Ctx} {sub : Bool} {s : St} (c : Cmd)
    (hc : pureCmd c = true) (hd : Dyn K k sub s) (hp : NoPending s) (hx : s.exit = {})
    (q : Prop) (hq : ¬ q) :
    Rel (Post K k sub False q s) (run (n+1) (.cmd c) s) (sem (n+1) k (.cmd c) (absEnv s)) := by
  cases c <;> simp [pureCmd] at hc
  case tru => exact sim_tru hd hp hx q
  case fls => exact sim_fls hd hp hx q hq
  case echo w => exact sim_echo w hd hp hx q
  case test x neg v => exact sim_test x neg v hd hp hx q hq
  case assign x w => exact sim_assign x w hd hp hx q

theorem sem_pure_norm {n : Nat} {k : Ctx} {c : Cmd} (hc : pureCmd c = true) {e : Env}
    {fl : Flow} {e' : Env} (h : sem n k (.cmd c) e = some (fl, e')) : fl = .norm := by
  cases n with
  | zero => simp [sem] at h
  | succ m =>
    cases c <;> simp [pureCmd] at hc <;> simp [sem] at h <;> exact h.1.symm

theorem sem_subsh_norm {n : Nat} {k : Ctx} {p : Prog} {e : Env}
    {fl : Flow} {e' : Env} (h : sem n k (.cmd (.subsh p)) e = some (fl, e')) : fl = .norm := by
  cases n with
  | zero => simp [sem] at h
  | succ m =>
    simp only [sem] at h
    split at h
    · simp at h
    · simp at h; exact h.1.symm

/-- The end of `stmtSync` for a negated statement, after a normal completion. -/
theorem neg_wrap {K : SCtx} {k : Ctx} {sub : Bool} {s s0 s1 : St} {e1 : Env} {q : Prop}
    (hf0 : Frame s s0)
    (h : Post K k sub False q s0 s1 .norm e1) :
    Post K k sub True False s
      (if s1.exit.ok then
        { s1 with exit := { s1.exit with code := 1 }, lastExit := { s1.exit with code := 1 } }
       else { s1 with exit := s1.exit.clear, lastExit := s1.exit.clear })
      .norm { e1 with status := if e1.status = 0 then 1 else 0 } := by
  obtain ⟨he, hd, hfr, hnf, hnp, _, _⟩ := h
  subst he
  have hcl : s1.exit.clear = { s1.exit with code := 0 } := by
    simp [Exit.clear, hnf.1, hnf.2]
  by_cases hok : s1.exit.ok = true
  · have hc0 : s1.exit.code = 0 := by simpa [Exit.ok] using hok
    simp only [hok, ↓reduceIte, Post]
    refine ⟨?_, ⟨hd.cerr, hd.csub, hd.fok, hd.ht, hd.eign, hd.noe, hd.sfn, hd.inl⟩,
      ⟨hfr.ne.trans hf0.ne, hfr.il.trans hf0.il, hfr.inf.trans hf0.inf⟩, ⟨hnf.1, hnf.2⟩, hnp,
      (by first | trivial | (intro _; rfl)), fun h => h.elim⟩
    simp [absEnvC, hc0]
  · have hc0 : s1.exit.code ≠ 0 := by simpa [Exit.ok] using hok
    simp only [hok, Bool.false_eq_true, ↓reduceIte, Post, hcl]
    refine ⟨?_, ⟨hd.cerr, hd.csub, hd.fok, hd.ht, hd.eign, hd.noe, hd.sfn, hd.inl⟩,
      ⟨hfr.ne.trans hf0.ne, hfr.il.trans hf0.il, hfr.inf.trans hf0.inf⟩, ⟨hnf.1, hnf.2⟩, hnp,
      (by first | trivial | (intro _; rfl)), fun h => h.elim⟩
    simp [absEnvC, hc0]

/-- The end of `stmtSync` for a statement without `!`. -/
def mwrap (n : Nat) (c : Cmd) (s1 : St) : Option St :=
  if c.isAndOr then some { s1 with lastExit := s1.exit }
  else if !s1.exit.ok && !s1.noErrExit then
    match run n (.trap s1.callbackErr) s1 with
    | none => none
    | some s2 =>
      if s2.errexit then
        some { s2 with exit := { s2.exit with exiting := true },
                       lastExit := { s2.exit with exiting := true } }
      else some { s2 with lastExit := s2.exit }
  else some { s1 with lastExit := s1.exit }

theorem run_stmt_nonneg (n : Nat) (c : Cmd) (s : St) (hs : stop s = false) :
    run (n+1) (.stmt (.mk false c)) s =
      match run n (.cmd c) { s with exit := {} } with
      | none => none
      | some s1 => mwrap n c s1 := by
  rw [run]
  simp only [hs, Bool.false_eq_true, ↓reduceIte]
  rfl

/-- What `BashSem` does after the command of a statement without `!`. -/
def swrap (n : Nat) (k : Ctx) (c : Cmd) (e0 : Env) : Flow × Env → Res
  | (.norm, e1) =>
    if isChecked c && e1.status != 0 && !k.ign then
      match sem n k (.trap (errAction e0 e1)) e1 with
      | none => none
      | some (.exit, e2) => some (.exit, e2)
      | some (_, e2) => if e2.errexit then some (.exit, e2) else some (.norm, e2)
    else some (.norm, e1)
  | (.brk m, e1) =>
    if isBrkCont c && e1.status != 0 && !k.ign then
      match sem n k (.trap (errAction e0 e1)) e1 with
      | none => none
      | some (.exit, e2) => some (.exit, e2)
      | some (_, e2) => if e2.errexit then some (.exit, e2) else some (.brk m, e2)
    else some (.brk m, e1)
  | (.cont m, e1) =>
    if isBrkCont c && e1.status != 0 && !k.ign then
      match sem n k (.trap (errAction e0 e1)) e1 with
      | none => none
      | some (.exit, e2) => some (.exit, e2)
      | some (_, e2) => if e2.errexit then some (.exit, e2) else some (.cont m, e2)
    else some (.cont m, e1)
  | r => some r

theorem sem_stmt_nonneg (n : Nat) (k : Ctx) (c : Cmd) (e : Env) :
    sem (n+1) k (.stmt (.mk false c)) e =
      match sem n k (.cmd c) e with
      | none => none
      | some r => swrap n k c e r := by
  rw [sem]
  simp only [Bool.false_eq_true, ↓reduceIte]
  cases sem n k (.cmd c) e with
  | none => rfl
  | some r =>
    obtain ⟨fl, e1⟩ := r
    cases fl <;> rfl

theorem isChecked_of_andOr {c : Cmd} (h : c.isAndOr = true) : isChecked c = false := by
  cases c <;> simp [Cmd.isAndOr] at h <;> rfl

theorem mwrap_andor {n : Nat} {c : Cmd} {s1 : St} (h : c.isAndOr = true) :
    mwrap n c s1 = some { s1 with lastExit := s1.exit } := by
  simp [mwrap, h]

theorem mwrap_skip {n : Nat} {c : Cmd} {s1 : St} (h : s1.exit.ok = true ∨ s1.noErrExit = true) :
    mwrap n c s1 = some { s1 with lastExit := s1.exit } := by
  unfold mwrap
  split
  · rfl
  · split
    · rename_i hc
      simp only [Bool.and_eq_true, Bool.not_eq_eq_eq_not, Bool.not_true] at hc
      rcases h with h | h
      · rw [h] at hc; cases hc.1
      · rw [h] at hc; cases hc.2
    · rfl

theorem mwrap_fire {n : Nat} {c : Cmd} {s1 : St} (hao : c.isAndOr = false)
    (hok : s1.exit.ok = false) (hne : s1.noErrExit = false)
    (hrt : run n (.trap s1.callbackErr) s1 = some s1) :
    mwrap n c s1 =
      if s1.errexit then
        some { s1 with exit := { s1.exit with exiting := true },
                       lastExit := { s1.exit with exiting := true } }
      else some { s1 with lastExit := s1.exit } := by
  simp [mwrap, hao, hok, hne, hrt]

theorem swrap_skip {n : Nat} {k : Ctx} {c : Cmd} {e0 e1 : Env}
    (h : isChecked c = false ∨ e1.status = 0 ∨ k.ign = true) :
    swrap n k c e0 (.norm, e1) = some (.norm, e1) := by
  simp only [swrap]
  split
  · rename_i hc
    simp only [Bool.and_eq_true, bne_iff_ne, ne_eq, Bool.not_eq_eq_eq_not, Bool.not_true] at hc
    rcases h with h | h | h
    · rw [h] at hc; cases hc.1.1
    · exact absurd h hc.1.2
    · rw [h] at hc; cases hc.2
  · rfl

theorem swrap_fire {n : Nat} {k : Ctx} {c : Cmd} {e0 e1 : Env} (hic : isChecked c = true)
    (hst : e1.status ≠ 0) (hi : k.ign = false)
    (htr : sem n k (.trap (errAction e0 e1)) e1 = some (.norm, e1)) :
    swrap n k c e0 (.norm, e1) = if e1.errexit then some (.exit, e1) else some (.norm, e1) := by
  simp [swrap, hic, hst, hi, htr]

theorem swrap_other {n : Nat} {k : Ctx} {c : Cmd} {fl : Flow} {e0 e1 : Env} (h : fl ≠ .norm)
    (h0 : (∀ m, fl ≠ .brk m) ∧ (∀ m, fl ≠ .cont m) ∨ e1.status = 0) :
    swrap n k c e0 (fl, e1) = some (fl, e1) := by
  cases fl with
  | norm => exact absurd rfl h
  | ret => rfl
  | exit => rfl
  | brk m =>
    rcases h0 with h0 | h0
    · exact absurd rfl (h0.1 m)
    · simp [swrap, h0]
  | cont m =>
    rcases h0 with h0 | h0
    · exact absurd rfl (h0.2 m)
    · simp [swrap, h0]

theorem Frame.trans {a b c : St} (h1 : Frame a b) (h2 : Frame b c) : Frame a c :=
  ⟨h2.ne.trans h1.ne, h2.il.trans h1.il, h2.inf.trans h1.inf⟩

theorem wrap_nonneg {n : Nat} {K : SCtx} {k : Ctx} {sub : Bool} {c : Cmd} {s s0 s1 : St}
    {fl : Flow} {e0 e1 : Env} (hn : 1 ≤ n) (hf0 : Frame s s0)
    (h : Post K k sub False (isChecked c = false ∧ tailOkC c = true) s0 s1 fl e1) :
    Rel (Post K k sub True (tailOkC c = true) s) (mwrap n c s1) (swrap n k c e0 (fl, e1)) := by
  cases fl with
  | norm =>
    obtain ⟨he, hd, hfr, hnf, hnp, _, hq⟩ := h
    subst he
    have hfr' : Frame s s1 := hf0.trans hfr
    -- the state returned when nothing happens
    have hplain : ∀ (q : Prop), (q → Quiet s1) →
        Post K k sub True q s { s1 with lastExit := s1.exit } .norm (absEnvC s1) := by
      intro q hq'
      exact ⟨rfl, ⟨hd.cerr, hd.csub, hd.fok, hd.ht, hd.eign, hd.noe, hd.sfn, hd.inl⟩,
        ⟨hfr'.ne, hfr'.il, hfr'.inf⟩, hnf, hnp, fun _ => rfl, hq'⟩
    have hrt : run n (.trap s1.callbackErr) s1 = some s1 := by
      rw [hd.cerr]; exact run_trap_nil hn s1
    have hst : sem n k (.trap (errAction e0 (absEnvC s1))) (absEnvC s1) = some (.norm, absEnvC s1) := by
      rw [errAction_nil e0 rfl]; exact sem_trap_nil hn k _
    by_cases hao : c.isAndOr = true
    · have hic := isChecked_of_andOr hao
      rw [mwrap_andor hao, swrap_skip (Or.inl hic)]
      exact hplain _ (fun ht => hq ⟨hic, ht⟩)
    · have hao' : c.isAndOr = false := by simpa using hao
      by_cases hic : isChecked c = true
      · -- both sides make the test
        by_cases hfail : s1.exit.code = 0
        · have hok : s1.exit.ok = true := by simp [Exit.ok, hfail]
          rw [mwrap_skip (Or.inl hok), swrap_skip (Or.inr (Or.inl hfail))]
          exact hplain _ (fun _ hne => absurd hfail hne)
        · have hok : s1.exit.ok = false := by simp [Exit.ok, hfail]
          by_cases he : s1.errexit = true
          · -- errexit is on: then mode e, and the flags agree
            have hKe : K.e = true := by
              cases hk : K.e with
              | true => rfl
              | false => have := hd.noe hk; rw [this] at he; cases he
            have hign : s1.noErrExit = k.ign := hd.eign hKe
            by_cases hi : k.ign = true
            · rw [mwrap_skip (Or.inr (hign.trans hi)), swrap_skip (Or.inr (Or.inr hi))]
              exact hplain _ (fun _ _ hne => by rw [hign, hi] at hne; cases hne)
            · have hi' : k.ign = false := by simpa using hi
              rw [mwrap_fire hao' hok (hign.trans hi') hrt, swrap_fire hic hfail hi' hst]
              have hee : (absEnvC s1).errexit = true := he
              rw [if_pos he, if_pos hee]
              exact ⟨rfl, hnf.1, rfl, rfl, rfl, hd.csub, hd.ht, hd.cerr, hnp, rfl⟩
          · -- errexit is off: the test changes nothing on either side
            have he' : s1.errexit = false := by simpa using he
            have hee : (absEnvC s1).errexit = false := he'
            have hq1 : Quiet s1 := fun _ _ => he'
            have hm : mwrap n c s1 = some { s1 with lastExit := s1.exit } := by
              by_cases hne : s1.noErrExit = true
              · exact mwrap_skip (Or.inr hne)
              · rw [mwrap_fire hao' hok (by simpa using hne) hrt, if_neg (by simp [he'])]
            have hsp : swrap n k c e0 (.norm, absEnvC s1) = some (.norm, absEnvC s1) := by
              by_cases hi : k.ign = true
              · exact swrap_skip (Or.inr (Or.inr hi))
              · rw [swrap_fire hic hfail (by simpa using hi) hst, if_neg (by simp [hee])]
            rw [hm, hsp]
            exact hplain _ (fun _ => hq1)
      · -- compound command: `BashSem` makes no test, and the model's test does nothing
        have hic' : isChecked c = false := by simpa using hic
        rw [swrap_skip (Or.inl hic')]
        have htc : tailOkC c = true := by
          cases c <;> simp [isChecked] at hic' <;> simp [tailOkC] <;> simp [Cmd.isAndOr] at hao
        have hq1 : Quiet s1 := hq ⟨hic', htc⟩
        have hm : mwrap n c s1 = some { s1 with lastExit := s1.exit } := by
          by_cases hok : s1.exit.ok = true
          · exact mwrap_skip (Or.inl hok)
          · by_cases hne : s1.noErrExit = true
            · exact mwrap_skip (Or.inr hne)
            · have hc0 : s1.exit.code ≠ 0 := by simpa [Exit.ok] using hok
              have he' : s1.errexit = false := hq1 hc0 (by simpa using hne)
              rw [mwrap_fire hao' (by simpa using hok) (by simpa using hne) hrt, if_neg (by simp [he'])]
        rw [hm]
        exact hplain _ (fun _ => hq1)
  | brk m =>
    obtain ⟨he, hd, hfr, hnf, hb, hc, hl, hz, _⟩ := h
    subst he
    have hok : s1.exit.ok = true := by simp [Exit.ok, hz]
    have hfr' : Frame s s1 := hf0.trans hfr
    rw [mwrap_skip (Or.inl hok), swrap_other (by simp) (Or.inr hz)]
    exact ⟨rfl, ⟨hd.cerr, hd.csub, hd.fok, hd.ht, hd.eign, hd.noe, hd.sfn, hd.inl⟩,
      ⟨hfr'.ne, hfr'.il, hfr'.inf⟩, hnf, hb, hc, hl, hz, fun _ => rfl⟩
  | cont m =>
    obtain ⟨he, hd, hfr, hnf, hb, hc, hl, hz, _⟩ := h
    subst he
    have hok : s1.exit.ok = true := by simp [Exit.ok, hz]
    have hfr' : Frame s s1 := hf0.trans hfr
    rw [mwrap_skip (Or.inl hok), swrap_other (by simp) (Or.inr hz)]
    exact ⟨rfl, ⟨hd.cerr, hd.csub, hd.fok, hd.ht, hd.eign, hd.noe, hd.sfn, hd.inl⟩,
      ⟨hfr'.ne, hfr'.il, hfr'.inf⟩, hnf, hb, hc, hl, hz, fun _ => rfl⟩
  | ret =>
    obtain ⟨he, hd, hfr, hnp, hr, hfn, _, hex⟩ := h
    subst he
    have hfr' : Frame s s1 := hf0.trans hfr
    have hrt : run n (.trap s1.callbackErr) s1 = some s1 := by
      rw [hd.cerr]; exact run_trap_nil hn s1
    rw [swrap_other (by simp) (Or.inl ⟨by simp, by simp⟩)]
    -- nothing happens, or `exiting` is added where the test fires under errexit
    have hplain : Post K k sub True (tailOkC c = true) s { s1 with lastExit := s1.exit } .ret (absEnvC s1) :=
      ⟨rfl, ⟨hd.cerr, hd.csub, hd.fok, hd.ht, hd.eign, hd.noe, hd.sfn, hd.inl⟩,
        ⟨hfr'.ne, hfr'.il, hfr'.inf⟩, hnp, hr, hfn, fun _ => rfl, hex⟩
    by_cases hao : c.isAndOr = true
    · rw [mwrap_andor hao]; exact hplain
    · by_cases hok : s1.exit.ok = true
      · rw [mwrap_skip (Or.inl hok)]; exact hplain
      · by_cases hne : s1.noErrExit = true
        · rw [mwrap_skip (Or.inr hne)]; exact hplain
        · have hc0 : s1.exit.code ≠ 0 := by simpa [Exit.ok] using hok
          have hne' : s1.noErrExit = false := by simpa using hne
          rw [mwrap_fire (by simpa using hao) (by simpa using hok) hne' hrt]
          by_cases he : s1.errexit = true
          · rw [if_pos he]
            exact ⟨rfl, ⟨hd.cerr, hd.csub, hd.fok, hd.ht, hd.eign, hd.noe, hd.sfn, hd.inl⟩,
              ⟨hfr'.ne, hfr'.il, hfr'.inf⟩, hnp, hr, hfn, fun _ => rfl, fun _ => ⟨he, hne', hc0⟩⟩
          · have he' : s1.errexit = false := by simpa using he
            rw [if_neg (by simp [he'])]; exact hplain
  | exit =>
    obtain ⟨hx, hr, hs, ho, ht, hcs, hht, hce, hnp, hv⟩ := h
    have hrt : run n (.trap s1.callbackErr) s1 = some s1 := by
      rw [hce]; exact run_trap_nil hn s1
    rw [swrap_other (by simp) (Or.inl ⟨by simp, by simp⟩)]
    have hplain : Post K k sub True (tailOkC c = true) s { s1 with lastExit := s1.exit } .exit e1 :=
      ⟨hx, hr, hs, ho, ht, hcs, hht, hce, hnp, hv⟩
    by_cases hao : c.isAndOr = true
    · rw [mwrap_andor hao]; exact hplain
    · by_cases hok : s1.exit.ok = true
      · rw [mwrap_skip (Or.inl hok)]; exact hplain
      · by_cases hne : s1.noErrExit = true
        · rw [mwrap_skip (Or.inr hne)]; exact hplain
        · rw [mwrap_fire (by simpa using hao) (by simpa using hok) (by simpa using hne) hrt]
          by_cases he : s1.errexit = true
          · rw [if_pos he]; exact ⟨rfl, hr, hs, ho, ht, hcs, hht, hce, hnp, hv⟩
          · have he' : s1.errexit = false := by simpa using he
            rw [if_neg (by simp [he'])]; exact hplain

theorem wrap_pending {n : Nat} {K : SCtx} {k : Ctx} {sub : Bool} {c : Cmd} {s s0 s1 : St}
    {fl : Flow} {e0 e1 : Env} {q : Prop} (hn : 1 ≤ n)
    (h : Pending K k sub c s0 s1 fl e1) :
    Rel (Post K k sub True q s) (mwrap n c s1) (swrap n k c e0 (fl, e1)) := by
  obtain ⟨hfl, hsoft, he, hd, _, hnp, hr, hx, hee, hne, hc0⟩ := h
  subst hfl; subst he
  have hic : isChecked c = true := by cases c <;> simp [softCmd] at hsoft <;> rfl
  have hao : c.isAndOr = false := by cases c <;> simp [softCmd] at hsoft <;> rfl
  have hKe : K.e = true := by
    cases hk : K.e with
    | true => rfl
    | false => have := hd.noe hk; rw [this] at hee; cases hee
  have hi : k.ign = false := by rw [← hd.eign hKe]; exact hne
  have hrt : run n (.trap s1.callbackErr) s1 = some s1 := by
    rw [hd.cerr]; exact run_trap_nil hn s1
  have hst : sem n k (.trap (errAction e0 (absEnvC s1))) (absEnvC s1) = some (.norm, absEnvC s1) := by
    rw [errAction_nil e0 rfl]; exact sem_trap_nil hn k _
  have hok : s1.exit.ok = false := by simp [Exit.ok, hc0]
  have hee' : (absEnvC s1).errexit = true := hee
  rw [mwrap_fire hao hok hne hrt, swrap_fire hic hc0 hi hst, if_pos hee, if_pos hee']
  exact ⟨rfl, hr, rfl, rfl, rfl, hd.csub, hd.ht, hd.cerr, hnp, rfl⟩

end ShVerif.C26
