/-
  L4: the position the parser gives a statement is the position of its first token (`!` included);
  the left operand of a negated pipeline (`! a | b`, whose `!` belongs to the whole pipeline) keeps
  the position of the `!`.  `Stmt.pk` / `parse_pk`, inside subshells and blocks as well.
-/
import ShVerif.Proofs.L4Flat
namespace ShVerif.L4

mutual
/-- `ctx = some bp`: the statement is the left operand chain of a negated pipeline with `!` at `bp` -/
def Stmt.pk : Stmt → Option Pos → Prop
  | .mk pos _ neg _ cmd, ctx =>
    (match ctx with
     | none => neg = false → ∃ tp rest, cmd.ftoks = tp :: rest ∧ tp.2 = pos
     | some bp => pos = bp ∧ neg = false) ∧
    cmd.pk (match ctx with
      | none => if neg then some pos else none
      | some bp => some bp)
def Cmd.pk : Cmd → Option Pos → Prop
  | .binary _ op x y, ctx => (if op = .pipe then x.pk ctx else x.pk none) ∧ y.pk none
  | .call _, _ => True
  | .subshell _ _ ss, _ => ss.pkAll
  | .block _ _ ss, _ => ss.pkAll
def Stmts.pkAll : Stmts → Prop
  | .nil => True
  | .cons s r => s.pk none ∧ r.pkAll
end

theorem ofList_pkAll : ∀ l : List Stmt, (∀ s ∈ l, s.pk none) → (Stmts.ofList l).pkAll
  | [], _ => by simp [Stmts.ofList, Stmts.pkAll]
  | s :: r, h => by
    simp only [Stmts.ofList, Stmts.pkAll]
    exact ⟨h s (by simp), ofList_pkAll r (fun x hx => h x (by simp [hx]))⟩

def HeadC (c : Cmd) (q : Pos) : Prop := ∃ tp rest, c.ftoks = tp :: rest ∧ tp.2 = q

theorem callArgs_pre : ∀ (fuel : Nat) (inSub : Bool) (ps : PS) (acc args : List Word) (ps' : PS),
    callArgs fuel inSub ps acc = .ok (args, ps') → ∃ more, args = acc.reverse ++ more := by
  intro fuel
  induction fuel with
  | zero => intro inSub ps acc args ps' h; simp [callArgs] at h
  | succ n ih =>
    intro inSub ps acc args ps' h
    have hstop : (.ok (acc.reverse, ps) : Except ParseErr (List Word × PS)) = .ok (args, ps') →
        ∃ more, args = acc.reverse ++ more := by
      intro e
      simp only [Except.ok.injEq, Prod.mk.injEq] at e
      exact ⟨[], by rw [← e.1]; simp⟩
    have hrec : ∀ (w : Word) (q : PS), callArgs n inSub q (w :: acc) = .ok (args, ps') →
        ∃ more, args = acc.reverse ++ more := by
      intro w q e
      obtain ⟨more, hm⟩ := ih inSub q (w :: acc) args ps' e
      exact ⟨w :: more, by rw [hm]; simp⟩
    unfold callArgs at h
    repeat' split at h
    all_goals first
      | (cases h; done)
      | exact hstop h
      | exact hrec _ _ h

theorem firstCmdF_cmd (m : Nat) (inSub : Bool) (pos : Pos) (neg : Bool) (ps : PS) (s : Stmt) (ps' : PS)
    (h : firstCmdF (m + 1) inSub pos neg ps = .ok (some s, ps')) :
    (∃ w args, s.cmd = .call (w :: args)) ∨
    (∃ a b ss q, s.cmd = .subshell a b (Stmts.ofList ss) ∧ stmtsF m true false true ps.next [] = .ok (ss, q)) ∨
    (∃ a b ss q, s.cmd = .block a b (Stmts.ofList ss) ∧ stmtsF m inSub true true ps.next [] = .ok (ss, q)) := by
  unfold firstCmdF at h
  have fin : ∀ (c : Cmd) (q : PS), (.ok (some (mkStmt pos neg c), q) : Except ParseErr (Option Stmt × PS)) = .ok (some s, ps') →
      s.cmd = c := by
    intro c q e
    simp only [Except.ok.injEq, Prod.mk.injEq, Option.some.injEq] at e
    rw [← e.1]; rfl
  have call : ∀ (w : Word) (args : List Word) (q q2 : PS), callArgs (m + 1) inSub q2 [w] = .ok (args, q) →
      (.ok (some (mkStmt pos neg (.call args)), q) : Except ParseErr (Option Stmt × PS)) = .ok (some s, ps') →
      ∃ w args, s.cmd = .call (w :: args) := by
    intro w args q q2 hca e
    obtain ⟨more, hm⟩ := callArgs_pre _ _ _ _ _ _ hca
    exact ⟨w, more, by rw [fin _ _ e, hm]; rfl⟩
  cases hsemi : (ps.next.tok == Tok.semi) with
  | true =>
    simp only [hsemi, ↓reduceIte] at h
    repeat' split at h
    all_goals first
      | (cases h; done)
      | (rename_i args q hca
         exact Or.inl (call _ _ _ _ hca h))
  | false =>
    simp only [hsemi, Bool.false_eq_true, ↓reduceIte] at h
    repeat' split at h
    all_goals first
      | (cases h; done)
      | exact Or.inr (Or.inl ⟨_, _, _, _, fin _ _ h, by assumption⟩)
      | exact Or.inr (Or.inr ⟨_, _, _, _, fin _ _ h, by assumption⟩)
      | (rename_i args q hca
         exact Or.inl (call _ _ _ _ hca h))

theorem firstCmdF_tok (n : Nat) (inSub : Bool) (pos : Pos) (neg : Bool) (ps : PS) (s : Stmt) (ps' : PS)
    (h : firstCmdF n inSub pos neg ps = .ok (some s, ps')) :
    ∃ t p rest, ps.toks = (t, p) :: rest ∧ t ≠ .newl := by
  cases n with
  | zero => simp [firstCmdF] at h
  | succ m =>
    obtain ⟨toks⟩ := ps
    cases toks with
    | nil => simp [firstCmdF, PS.tok] at h
    | cons tp rest =>
      obtain ⟨t, p⟩ := tp
      refine ⟨t, p, rest, rfl, ?_⟩
      intro e
      subst e
      simp [firstCmdF, PS.tok_cons] at h

def KStmts (n : Nat) : Prop :=
  ∀ (inSub stopBrace gotEnd : Bool) (ps : PS) (acc ss : List Stmt) (ps' : PS),
    stmtsF n inSub stopBrace gotEnd ps acc = .ok (ss, ps') → AllOK2 ps → (∀ s ∈ acc, s.pk none) →
    ∀ s ∈ ss, s.pk none
def KFirst (n : Nat) : Prop :=
  ∀ (inSub : Bool) (pos : Pos) (neg : Bool) (ps : PS) (s : Stmt) (ps' : PS),
    firstCmdF n inSub pos neg ps = .ok (some s, ps') → AllOK2 ps → HeadC s.cmd ps.pos ∧ ∀ ctx, s.cmd.pk ctx

theorem k_first (m : Nat) (hS : KStmts m) : KFirst (m + 1) := by
  intro inSub pos neg ps s ps' h hok
  obtain ⟨_, f2, _⟩ := (t_all (m + 1)).1 inSub pos neg ps s ps' h hok
  obtain ⟨t, p, rest, e1, hnl⟩ := firstCmdF_tok (m + 1) inSub pos neg ps s ps' h
  have hpos : ps.pos = p := by
    obtain ⟨toks⟩ := ps
    simp only at e1
    subst e1
    rfl
  rw [e1, dropNl_cons _ _ hnl] at f2
  have head : ∀ tp r, s.cmd.ftoks = tp :: r → HeadC s.cmd ps.pos := by
    intro tp r e
    rw [e] at f2
    simp only [List.cons_append, List.cons.injEq] at f2
    exact ⟨tp, r, e, by rw [← f2.1, hpos]⟩
  rcases firstCmdF_cmd m inSub pos neg ps s ps' h with ⟨w, args, e⟩ | ⟨a, b, ss, q, e, hst⟩ | ⟨a, b, ss, q, e, hst⟩
  · exact ⟨head _ _ (by rw [e]; simp [Cmd.ftoks]; exact ⟨rfl, rfl⟩), fun ctx => by rw [e]; simp [Cmd.pk]⟩
  · refine ⟨head _ _ (by rw [e]; simp [Cmd.ftoks]; exact ⟨rfl, rfl⟩), fun ctx => ?_⟩
    rw [e]
    simp only [Cmd.pk]
    exact ofList_pkAll ss (hS _ _ _ _ _ _ _ hst hok.next (by simp))
  · refine ⟨head _ _ (by rw [e]; simp [Cmd.ftoks]; exact ⟨rfl, rfl⟩), fun ctx => ?_⟩
    rw [e]
    simp only [Cmd.pk]
    exact ofList_pkAll ss (hS _ _ _ _ _ _ _ hst hok.next (by simp))

def ctxOf (neg : Bool) (pos : Pos) : Option Pos := if neg then some pos else none

def KGot (n : Nat) : Prop :=
  ∀ (inSub : Bool) (pos : Pos) (neg binCmd : Bool) (ps : PS) (s : Stmt) (ps' : PS),
    gotStmtPipeF n inSub pos neg binCmd ps = .ok (some s, ps') → AllOK2 ps → (neg = false → pos = ps.pos) →
    HeadC s.cmd ps.pos ∧ s.cmd.pk (ctxOf neg pos)
def KPipe (n : Nat) : Prop :=
  ∀ (inSub binCmd : Bool) (s : Stmt) (ps : PS) (s' : Stmt) (ps' : PS),
    pipeF n inSub binCmd s ps = .ok (s', ps') → AllOK2 ps → s = mkStmt s.pos s.negated s.cmd →
    ∀ q, HeadC s.cmd q → (s.negated = false → q = s.pos) → s.cmd.pk (ctxOf s.negated s.pos) →
    HeadC s'.cmd q ∧ s'.cmd.pk (ctxOf s.negated s.pos)
def KGet (n : Nat) : Prop :=
  ∀ (inSub readEnd binCmd : Bool) (ps : PS) (s : Stmt) (ps' : PS),
    getStmtF n inSub readEnd binCmd ps = .ok (some s, ps') → AllOK2 ps → s.pk none
def KAndOr (n : Nat) : Prop :=
  ∀ (inSub binCmd : Bool) (s : Stmt) (ps : PS) (s' : Stmt) (ps' : PS),
    andOrF n inSub binCmd s ps = .ok (s', ps') → AllOK2 ps → s.semi.valid = false → s.pk none → s'.pk none
theorem k_got (n : Nat) (hF : KFirst n) (hP : KPipe n) : KGot (n + 1) := by
  intro inSub pos neg binCmd ps s ps' h hok hpos
  rw [gotStmtPipeF_eq] at h
  split at h
  · cases h
  · simp at h
  · rename_i s1 ps1 hf
    unfold pipeWrap at h
    split at h
    · cases h
    · rename_i s2 ps2 hp
      simp only [Except.ok.injEq, Prod.mk.injEq, Option.some.injEq] at h
      obtain ⟨rfl, rfl⟩ := h
      obtain ⟨f1, _, f3⟩ := (t_all n).1 _ _ _ _ _ _ hf hok
      obtain ⟨k1, k2⟩ := hF _ _ _ _ _ _ hf hok
      have hs1 : s1 = mkStmt s1.pos s1.negated s1.cmd := by rw [f3]; rfl
      have hp1 : s1.pos = pos := by rw [f3]; rfl
      have hn1 : s1.negated = neg := by rw [f3]; rfl
      have := hP _ _ _ _ _ _ hp f1 hs1 ps.pos k1 (by rw [hn1, hp1]; intro e; exact (hpos e).symm) (k2 _)
      rw [hn1, hp1] at this
      exact this

/-- a statement made by `mkStmt`, with its `!` stripped -/
theorem setNeg_pk (pos : Pos) (neg : Bool) (c : Cmd) (q : Pos) (hh : HeadC c q) (hq : neg = false → q = pos)
    (hc : c.pk (ctxOf neg pos)) : ((mkStmt pos neg c).setNeg false).pk (ctxOf neg pos) := by
  obtain ⟨tp, rest, e1, e2⟩ := hh
  cases neg with
  | true =>
    simp only [mkStmt, Stmt.setNeg, Stmt.pk, ctxOf, ↓reduceIte, and_self, true_and]
    exact hc
  | false =>
    simp only [mkStmt, Stmt.setNeg, Stmt.pk, ctxOf, Bool.false_eq_true, ↓reduceIte]
    exact ⟨fun _ => ⟨tp, rest, e1, by rw [e2, hq rfl]⟩, hc⟩

theorem mk_pk_none (pos : Pos) (c : Cmd) (hh : HeadC c pos) (hc : c.pk none) : (mkStmt pos false c).pk none := by
  obtain ⟨tp, rest, e1, e2⟩ := hh
  simp only [mkStmt, Stmt.pk, Bool.false_eq_true, ↓reduceIte]
  exact ⟨fun _ => ⟨tp, rest, e1, e2⟩, hc⟩

theorem k_pipe (n : Nat) (hG : KGot n) (hP : KPipe n) : KPipe (n + 1) := by
  intro inSub binCmd s ps s' ps' h hok hst q hh hq hc
  rw [pipeF_eq] at h
  have hstop : (.ok (s, ps) : Except ParseErr (Stmt × PS)) = .ok (s', ps') →
      HeadC s'.cmd q ∧ s'.cmd.pk (ctxOf s.negated s.pos) := by
    intro e
    simp only [Except.ok.injEq, Prod.mk.injEq] at e
    obtain ⟨rfl, rfl⟩ := e
    exact ⟨hh, hc⟩
  split at h
  · rename_i hpipe
    split at h
    · exact hstop h
    · obtain ⟨qq, rest, e1, e2, e3⟩ := PS.tok_toks (by simpa using hpipe : ps.tok = .pipe) (by simp)
      simp only at h
      rw [e3, e2] at h
      obtain ⟨g1, g2⟩ := dropNl_gotNewl ⟨rest⟩
      have hrestok : AllOK2 ⟨rest⟩ := (hok.of_toks e1).2
      split at h
      · cases h
      · split at h <;> cases h
      · rename_i y ps2 hy
        obtain ⟨y1, _, y3⟩ := (t_all n).2.1 _ _ _ _ _ _ _ hy (g2 hrestok)
        obtain ⟨j1, j2⟩ := hG _ _ _ _ _ _ _ hy (g2 hrestok) (fun _ => rfl)
        have hnew : mkStmt s.pos s.negated (.binary qq .pipe (s.setNeg false) y) =
            mkStmt (mkStmt s.pos s.negated (.binary qq .pipe (s.setNeg false) y)).pos
              (mkStmt s.pos s.negated (.binary qq .pipe (s.setNeg false) y)).negated
              (mkStmt s.pos s.negated (.binary qq .pipe (s.setNeg false) y)).cmd := rfl
        have hy : y.pk none := by
          rw [y3]
          exact mk_pk_none _ _ j1 (by simpa [ctxOf] using j2)
        have hx : (s.setNeg false).pk (ctxOf s.negated s.pos) := by
          have := setNeg_pk s.pos s.negated s.cmd q hh hq hc
          rw [← hst] at this
          exact this
        have hhead : HeadC (Cmd.binary qq .pipe (s.setNeg false) y) q := by
          obtain ⟨tp, r, e1', e2'⟩ := hh
          refine ⟨tp, r ++ ((BinOp.pipe.tok, qq) :: y.ftoks), ?_, e2'⟩
          simp only [Cmd.ftoks, setNeg_ftoks s hst, e1']
          simp
        exact hP _ _ _ _ _ _ h y1 hnew q hhead hq (by
          show Cmd.pk (Cmd.binary qq .pipe (s.setNeg false) y) _
          simp only [Cmd.pk, ↓reduceIte]
          exact ⟨hx, hy⟩)
  · exact hstop h

/-- the first token of a statement with `pk none` sits at the statement's position -/
theorem pk_head {s : Stmt} (h : s.pk none) : ∃ tp rest, s.ftoks = tp :: rest ∧ tp.2 = s.pos := by
  obtain ⟨pos, semi, neg, bg, cmd⟩ := s
  simp only [Stmt.pk] at h
  cases neg with
  | true => exact ⟨_, _, by simp [Stmt.ftoks]; exact ⟨rfl, rfl⟩, rfl⟩
  | false =>
    obtain ⟨tp, r, e1, e2⟩ := h.1 rfl
    exact ⟨tp, _, by simp [Stmt.ftoks, e1]; rfl, e2⟩

theorem k_andor_core (n : Nat) (hGet : KGet n) (hA : KAndOr n) (inSub binCmd : Bool) (s : Stmt) (op : BinOp)
    (hop : op ≠ .pipe) (q : Pos) (rest : List TokPos) (s' : Stmt) (ps' : PS)
    (h : (match getStmtF n inSub false true (PS.mk rest).gotNewl.2 with
        | .error e => (.error e : Except ParseErr (Stmt × PS))
        | .ok (none, ps') =>
          match ps'.tok with
          | .outside => .error .outside
          | _ => .error (.syntax "must be followed by a statement")
        | .ok (some y, ps') => andOrF n inSub binCmd (mkStmt s.pos false (.binary q op s y)) ps') = .ok (s', ps'))
    (hrestok : AllOK2 ⟨rest⟩) (hs : s.pk none) : s'.pk none := by
  obtain ⟨g1, g2⟩ := dropNl_gotNewl ⟨rest⟩
  split at h
  · cases h
  · split at h <;> cases h
  · rename_i y ps2 hy
    obtain ⟨y1, _, _⟩ := (t_all n).2.2.2.1 _ _ _ _ _ _ hy (g2 hrestok)
    have hyk := hGet _ _ _ _ _ _ hy (g2 hrestok)
    refine hA _ _ _ _ _ _ h y1 (by simp [mkStmt, Stmt.semi, Pos.zero, Pos.valid]) ?_
    obtain ⟨tp, r, e1, e2⟩ := pk_head hs
    simp only [mkStmt, Stmt.pk, ↓reduceIte, Cmd.pk, hop]
    refine ⟨fun _ => ⟨tp, r ++ ((op.tok, q) :: y.ftoks), ?_, e2⟩, hs, hyk⟩
    simp [Cmd.ftoks, e1]

theorem k_andor (n : Nat) (hGet : KGet n) (hA : KAndOr n) : KAndOr (n + 1) := by
  intro inSub binCmd s ps s' ps' h hok hsv hs
  rw [andOrF_eq] at h
  have hstop : (.ok (s, ps) : Except ParseErr (Stmt × PS)) = .ok (s', ps') → s'.pk none := by
    intro e
    simp only [Except.ok.injEq, Prod.mk.injEq] at e
    obtain ⟨rfl, rfl⟩ := e
    exact hs
  obtain ⟨toks⟩ := ps
  cases toks with
  | nil => simp only [PS.tok] at h; exact hstop h
  | cons tp rest =>
    obtain ⟨t, q⟩ := tp
    have hrestok : AllOK2 ⟨rest⟩ := (hok.of_toks rfl).2
    cases t with
    | andAnd =>
      simp only [PS.tok_cons, PS.pos_cons, PS.next_cons] at h
      cases hbin : binCmd with
      | true => simp only [hbin, ↓reduceIte] at h; exact hstop h
      | false =>
        simp only [hbin, Bool.false_eq_true, ↓reduceIte] at h
        exact k_andor_core n hGet hA inSub false s .andStmt (by simp) q rest s' ps' h hrestok hs
    | orOr =>
      simp only [PS.tok_cons, PS.pos_cons, PS.next_cons] at h
      cases hbin : binCmd with
      | true => simp only [hbin, ↓reduceIte] at h; exact hstop h
      | false =>
        simp only [hbin, Bool.false_eq_true, ↓reduceIte] at h
        exact k_andor_core n hGet hA inSub false s .orStmt (by simp) q rest s' ps' h hrestok hs
    | eof => simp only [PS.tok_cons] at h; exact hstop h
    | newl => simp only [PS.tok_cons] at h; exact hstop h
    | semi => simp only [PS.tok_cons] at h; exact hstop h
    | amp => simp only [PS.tok_cons] at h; exact hstop h
    | pipe => simp only [PS.tok_cons] at h; exact hstop h
    | lparen => simp only [PS.tok_cons] at h; exact hstop h
    | rparen => simp only [PS.tok_cons] at h; exact hstop h
    | word w lit => simp only [PS.tok_cons] at h; exact hstop h
    | outside => simp only [PS.tok_cons] at h; exact hstop h
    | unclosedQuote => simp only [PS.tok_cons] at h; exact hstop h

theorem setEnd_pk (s : Stmt) (q : Pos) (bg : Bool) (h : s.pk none) : (s.setEnd q bg).pk none := by
  obtain ⟨pos, semi, neg, b, cmd⟩ := s
  simp only [Stmt.setEnd, Stmt.pk] at h ⊢
  exact h

theorem k_get (n : Nat) (hG : KGot n) (hA : KAndOr n) : KGet (n + 1) := by
  intro inSub readEnd binCmd ps s ps' h hok
  rw [getStmtF_eq] at h
  simp only at h
  have hok1 : AllOK2 (if ps.tok.isLit [33] = true then ps.next else ps) := by
    split
    · exact hok.next
    · exact hok
  obtain ⟨ps1, hps1⟩ : ∃ ps1, ps1 = (if ps.tok.isLit [33] = true then ps.next else ps) := ⟨_, rfl⟩
  rw [← hps1] at h hok1
  split at h
  · cases h
  · split at h
    · cases h
    · split at h
      · cases h
      · simp at h
      · rename_i s1 ps2 hg
        obtain ⟨g1, _, g3⟩ := (t_all n).2.1 _ _ _ _ _ _ _ hg hok1
        have hpos : ps.tok.isLit [33] = false → ps.pos = ps1.pos := by
          intro e
          rw [hps1, e]; rfl
        obtain ⟨j1, j2⟩ := hG _ _ _ _ _ _ _ hg hok1 hpos
        have hs1 : s1.pk none := by
          rw [g3]
          obtain ⟨tp, r, e1, e2⟩ := j1
          simp only [mkStmt, Stmt.pk]
          refine ⟨fun e => ⟨tp, r, e1, by rw [e2, ← hpos e]⟩, ?_⟩
          simpa [ctxOf] using j2
        have hs1v : s1.semi.valid = false := by
          rw [g3]; simp [mkStmt, Stmt.semi, Pos.zero, Pos.valid]
        unfold endWrap at h
        split at h
        · cases h
        · rename_i s2 ps3 ha
          have hs2 := hA _ _ _ _ _ _ ha g1 hs1v hs1
          have hkeep : (.ok (some s2, ps3) : Except ParseErr (Option Stmt × PS)) = .ok (some s, ps') → s.pk none := by
            intro e
            simp only [Except.ok.injEq, Prod.mk.injEq, Option.some.injEq] at e
            obtain ⟨rfl, rfl⟩ := e
            exact hs2
          have hend : ∀ (bg : Bool),
              (.ok (some (s2.setEnd ps3.pos bg), ps3.next) : Except ParseErr (Option Stmt × PS)) = .ok (some s, ps') →
              s.pk none := by
            intro bg e
            simp only [Except.ok.injEq, Prod.mk.injEq, Option.some.injEq] at e
            obtain ⟨rfl, rfl⟩ := e
            exact setEnd_pk s2 _ bg hs2
          cases hre : readEnd with
          | false =>
            simp only [hre, Bool.false_eq_true, ↓reduceIte] at h
            exact hkeep h
          | true =>
            simp only [hre, ↓reduceIte] at h
            split at h
            · exact hend false h
            · exact hend true h
            · exact hkeep h

theorem k_stmts (n : Nat) (hGet : KGet n) (hS : KStmts n) : KStmts (n + 1) := by
  intro inSub stopBrace gotEnd ps acc ss ps' h hok hacc
  rw [stmtsF_eq] at h
  have hstop : ∀ q : PS, (.ok (acc.reverse, q) : Except ParseErr (List Stmt × PS)) = .ok (ss, ps') →
      ∀ s ∈ ss, s.pk none := by
    intro q e
    simp only [Except.ok.injEq, Prod.mk.injEq] at e
    obtain ⟨rfl, rfl⟩ := e
    intro s hs
    exact hacc s (by simpa using hs)
  split at h
  · exact hstop ps h
  · obtain ⟨_, g2⟩ := dropNl_gotNewl ps
    cases hq : ps.gotNewl with
    | mk nl ps1 =>
      have e2 : ps.gotNewl.2 = ps1 := by rw [hq]
      rw [e2] at g2
      rw [hq] at h
      simp only at h
      have hok1 := g2 hok
      split at h
      · split at h
        · exact hstop ps1 h
        · cases h
      · split at h
        · exact hstop ps1 h
        · split at h
          · cases h
          · split at h
            · exact hstop ps1 h
            · split at h
              · cases h
              · split at h <;> cases h
              · rename_i s ps2 hg
                obtain ⟨r1, _, _⟩ := (t_all n).2.2.2.1 _ _ _ _ _ _ hg hok1
                have hs := hGet _ _ _ _ _ _ hg hok1
                exact hS _ _ _ _ _ _ _ h r1 (fun x hx => by
                  rcases List.mem_cons.mp hx with rfl | hx
                  · exact hs
                  · exact hacc x hx)

theorem k_all : ∀ n : Nat, KFirst n ∧ KGot n ∧ KPipe n ∧ KGet n ∧ KAndOr n ∧ KStmts n
  | 0 => by
    refine ⟨?_, ?_, ?_, ?_, ?_, ?_⟩
    · intro inSub pos neg ps s ps' h; simp [firstCmdF] at h
    · intro inSub pos neg binCmd ps s ps' h; simp [gotStmtPipeF] at h
    · intro inSub binCmd s ps s' ps' h; simp [pipeF] at h
    · intro inSub readEnd binCmd ps s ps' h; simp [getStmtF] at h
    · intro inSub binCmd s ps s' ps' h; simp [andOrF] at h
    · intro inSub stopBrace gotEnd ps acc ss ps' h; simp [stmtsF] at h
  | n + 1 => by
    obtain ⟨hF, hG, hP, hGet, hA, hS⟩ := k_all n
    exact ⟨k_first n hS, k_got n hF hP, k_pipe n hG hP, k_get n hG hA, k_andor n hGet hA, k_stmts n hGet hS⟩

/-- **Statement positions are first-token positions** in every tree the parser builds. -/
theorem parse_pk (l : Lang) (src : Bytes) (f : File) (h : parse l src = .ok f) : f.stmts.pkAll := by
  unfold parse parseToks parseToksF at h
  split at h
  · cases h
  · rename_i ss ps hst
    have := (k_all _).2.2.2.2.2 false false true ⟨lexAll src⟩ [] ss ps hst (lexAll_ok2 src) (by simp)
    split at h
    · simp only [Except.ok.injEq] at h
      subst h
      exact ofList_pkAll ss this
    · cases h
    · cases h

end ShVerif.L4
