import ShVerif.Proofs.C26c
/-
  C26 — simulation: the statement step (`SimC n → SimS (n+1)`).
-/
namespace ShVerif.C26
open ShVerif.L5 ShVerif.L5.Bash

theorem Post.mono_q {K : SCtx} {k : Ctx} {sub : Bool} {le q q' : Prop} {s s' : St} {fl : Flow}
    {e' : Env} (hq : q' → q) (h : Post K k sub le q s s' fl e') : Post K k sub le q' s s' fl e' := by
  cases fl with
  | norm =>
    obtain ⟨h1, h2, h3, h4, h5, h6, h7⟩ := h
    exact ⟨h1, h2, h3, h4, h5, h6, fun x => h7 (hq x)⟩
  | brk m => exact h
  | cont m => exact h
  | ret => exact h
  | exit => exact h

theorem Post.ctx_of_not_e {K : SCtx} {k1 k2 : Ctx} {sub : Bool} {le q : Prop} {s s' : St}
    {fl : Flow} {e' : Env} (he : K.e = false) (h : Post K k1 sub le q s s' fl e') :
    Post K k2 sub le q s s' fl e' := by
  cases fl with
  | norm =>
    obtain ⟨h1, h2, h3⟩ := h
    exact ⟨h1, h2.ctx_of_not_e he, h3⟩
  | brk m =>
    obtain ⟨h1, h2, h3⟩ := h
    exact ⟨h1, h2.ctx_of_not_e he, h3⟩
  | cont m =>
    obtain ⟨h1, h2, h3⟩ := h
    exact ⟨h1, h2.ctx_of_not_e he, h3⟩
  | ret =>
    obtain ⟨h1, h2, h3⟩ := h
    exact ⟨h1, h2.ctx_of_not_e he, h3⟩
  | exit => exact h

theorem run_stmt_neg (n : Nat) (c : Cmd) (s : St) (hs : stop s = false) :
    run (n+1) (.stmt (.mk true c)) s =
      match run n (.cmd c) { s with exit := {} } with
      | none => none
      | some s1 =>
        some (if s1.exit.ok then
          { s1 with exit := { s1.exit with code := 1 }, lastExit := { s1.exit with code := 1 } }
         else { s1 with exit := s1.exit.clear, lastExit := s1.exit.clear }) := by
  rw [run]
  simp only [hs, Bool.false_eq_true, ↓reduceIte]
  cases run n (.cmd c) { s with exit := {} } with
  | none => rfl
  | some s1 => by_cases h : s1.exit.ok = true <;> simp [h]

theorem sem_stmt_neg (n : Nat) (k : Ctx) (c : Cmd) (e : Env) :
    sem (n+1) k (.stmt (.mk true c)) e =
      match sem n { k with ign := true } (.cmd c) e with
      | none => none
      | some (.norm, e1) => some (.norm, { e1 with status := if e1.status = 0 then 1 else 0 })
      | some (.brk m, e1) => some (.brk m, { e1 with status := if e1.status = 0 then 1 else 0 })
      | some (.cont m, e1) => some (.cont m, { e1 with status := if e1.status = 0 then 1 else 0 })
      | some r => some r := by
  rw [sem]
  simp only [↓reduceIte]
  cases sem n { k with ign := true } (.cmd c) e with
  | none => rfl
  | some r =>
    obtain ⟨fl, e1⟩ := r
    cases fl <;> rfl

theorem simS_step (n : Nat) (hC : SimC n) : SimS (n+1) := by
  intro K k sub st s hst hsup hd hl hnf hnp
  obtain ⟨neg, c⟩ := st
  have hns : stop s = false := not_stop hnf
  have hd0 : Dyn K k sub { s with exit := {} } := hd.congr rfl rfl rfl rfl rfl rfl rfl rfl
  cases neg with
  | false =>
    rw [run_stmt_nonneg n c s hns, sem_stmt_nonneg]
    have hc : supCmd K c = true := by simpa [supStmt] using hsup
    have h0 := hC K k sub c { s with exit := {} } hst hc hd0 hl hnp rfl
    rw [absEnv_exit] at h0
    cases hr : run n (.cmd c) { s with exit := {} } with
    | none =>
      rw [hr] at h0
      rw [Rel_none h0]
      trivial
    | some s1 =>
      rw [hr] at h0
      obtain ⟨fl, e1, he, hp⟩ := Rel_some h0
      rw [he]
      rcases hp with hp | hp
      · have := wrap_nonneg (k := k) (e0 := absEnv s) (run_pos hr) (s := s) (s0 := { s with exit := {} }) ⟨rfl, rfl, rfl⟩ hp
        exact Rel_mono (fun _ _ _ h => h.mono_q (by simp [tailOkS])) this
      · exact wrap_pending (run_pos hr) hp
  | true =>
    rw [run_stmt_neg n c s hns, sem_stmt_neg]
    have hcases : pureCmd c = true ∨ (K.e = false ∧ supNegSub K c = true) := by
      simp only [supStmt, Bool.or_eq_true, Bool.and_eq_true, Bool.not_eq_eq_eq_not, Bool.not_true] at hsup
      exact hsup
    have key : Rel (Post K k sub False False { s with exit := {} })
        (run n (.cmd c) { s with exit := {} })
        (sem n { k with ign := true } (.cmd c) (absEnv s)) ∧
        (∀ fl e1, sem n { k with ign := true } (.cmd c) (absEnv s) = some (fl, e1) → fl = .norm) := by
      rcases hcases with hp | ⟨he, hsub⟩
      · constructor
        · cases n with
          | zero => simp [run, sem, Rel]
          | succ m =>
            rw [sem_pure_ctx { k with ign := true } k c hp]
            have := sim_pure (n := m) c hp hd0 hnp rfl False (fun h => h)
            rw [absEnv_exit] at this
            exact this
        · intro fl e1 h
          exact sem_pure_norm hp h
      · cases c <;> simp [supNegSub] at hsub
        case subsh p =>
          have hc' : supCmd K (.subsh p) = true := by
            simp [supCmd, he, hsub.1, hsub.2]
          have hst' : Stat K { k with ign := true } sub :=
            ⟨hst.kt, fun _ => rfl, fun h => by simp [he] at h, hst.kfn, hst.depth, hst.top⟩
          constructor
          · have := hC K { k with ign := true } sub (.subsh p) { s with exit := {} } hst' hc'
              (hd0.ctx_of_not_e he) hl hnp rfl
            rw [absEnv_exit] at this
            refine Rel_mono (fun _ _ _ h => ?_) this
            rcases h with h | h
            · exact (h.ctx_of_not_e he).mono_q (fun h => h.elim)
            · exact absurd h.2.1 (by simp [softCmd])
          · intro fl e1 h
            exact sem_subsh_norm h
    obtain ⟨h0, hnorm⟩ := key
    cases hr : run n (.cmd c) { s with exit := {} } with
    | none =>
      rw [hr] at h0
      rw [Rel_none h0]
      trivial
    | some s1 =>
      rw [hr] at h0
      obtain ⟨fl, e1, he, hp⟩ := Rel_some h0
      have hfl := hnorm fl e1 he
      subst hfl
      rw [he]
      have := neg_wrap (s := s) (s0 := { s with exit := {} }) ⟨rfl, rfl, rfl⟩ hp
      exact this.mono_q (by simp [tailOkS])

end ShVerif.C26
