import ShVerif.Proofs.C20Lex
/-
  C20: the evaluator model equals the bash specification on the property's domain, under the
  hypotheses EnvOK / LitsOK / LvalsOK (eval_eq_spec_partial).
-/
namespace ShVerif.C20

/-- The environment only changed by storing decimal texts. -/
def Stable (g g' : Bytes → Bytes) : Prop := ∀ n, g' n = g n ∨ ∃ v, g' n = fmtInt v

theorem Stable.refl (g : Bytes → Bytes) : Stable g g := fun _ => Or.inl rfl

theorem Stable.trans {g1 g2 g3 : Bytes → Bytes} (h12 : Stable g1 g2) (h23 : Stable g2 g3) :
    Stable g1 g3 := by
  intro n
  rcases h23 n with h | ⟨v, h⟩
  · rcases h12 n with h' | ⟨v, h'⟩
    · exact Or.inl (h.trans h')
    · exact Or.inr ⟨v, h.trans h'⟩
  · exact Or.inr ⟨v, h⟩

theorem setVar_stable {env env' : Env} {n : Bytes} {v : Int} {r : Res}
    (h : setVar env n v = (r, env')) : Stable env.get env'.get := by
  unfold setVar at h
  split at h
  · cases h; exact Stable.refl _
  · rename_i e2 hset
    cases h
    unfold Env.set at hset
    split at hset
    · cases hset
    · cases hset
      intro m
      by_cases hm : m = n
      · right; exact ⟨v, by simp [hm]⟩
      · left; simp [hm]

theorem setVar_ok {env env' : Env} {n : Bytes} {v : Int} {r : Res}
    (h : setVar env n v = (r, env')) : ∀ w, r = .ok w → w = v := by
  unfold setVar at h
  split at h
  · cases h; intro w hw; cases hw
  · cases h; intro w hw; cases hw; rfl

theorem valOK_fmtInt (v : Int) : ValOK (fmtInt v) := Or.inr (Or.inl ⟨_, _, fmtInt_intLit v⟩)

theorem EnvOK_stable {env env' : Env} (h : EnvOK env) (hs : Stable env.get env'.get) : EnvOK env' := by
  intro n
  rcases hs n with e | ⟨v, e⟩
  · rw [e]; exact h n
  · rw [e]; exact valOK_fmtInt v

/-! ### words -/

theorem specEval_word (fuel D : Nat) (env : Env) (w : Bytes) :
    specEval (fuel + 1) D env (.word w) =
      if validName w then
        if env.get w = [] then (.ok 0, env)
        else match parseText (env.get w) with
          | none => (.err .syntaxErr, env)
          | some none => (.ok 0, env)
          | some (some e') =>
            match D with
            | 0 => (.err .recursion, env)
            | D' + 1 => specEval fuel D' env e'
      else match specNumber w with
        | some n => (chk (Int.ofNat n), env)
        | none => (.err .badNumber, env) := by
  rw [specEval]
  rfl

theorem specEval_zero (D : Nat) (env : Env) (e : Expr) : specEval 0 D env e = (.err .fuel, env) := by
  rw [specEval]

theorem lit_not_name {lit : Bytes} {n : Nat} (h : specNumber lit = some n) : validName lit = false := by
  have := intLit_not_name (IntLit.pos [] lit [] n (by intro b hb; cases hb) (by intro b hb; cases hb) h)
  simpa using this

theorem chk_nat {n : Nat} {r : Res} (h : chk (Int.ofNat n) = r) (hd : r.inDomain) :
    n < 2 ^ 63 ∧ r = .ok (Int.ofNat n) := by
  obtain ⟨hv, hr⟩ := chk_ok h hd
  rw [inI64_iff, Int.ofNat_eq_natCast] at hv
  exact ⟨by omega, hr⟩

theorem specEval_lit {lit : Bytes} {n : Nat} (hl : specNumber lit = some n) {fuel D : Nat} {env env' : Env}
    {r : Res} (h : specEval fuel D env (.word lit) = (r, env')) (hd : r.inDomain) :
    n < 2 ^ 63 ∧ r = .ok (Int.ofNat n) ∧ env' = env := by
  cases fuel with
  | zero => rw [specEval_zero] at h; cases h; exact absurd hd (by simp [Res.inDomain])
  | succ f =>
    rw [specEval_word, lit_not_name hl, hl] at h
    simp only [Bool.false_eq_true, if_false] at h
    have h1 := congrArg Prod.fst h
    have h2 := congrArg Prod.snd h
    simp only at h1 h2
    obtain ⟨a, b⟩ := chk_nat h1 hd
    exact ⟨a, b, h2.symm⟩

theorem specEval_unary_plain (fuel D : Nat) (env : Env) (op : UnOp) (x : Expr) :
    ¬ (op = .inc ∨ op = .dec) →
    specEval (fuel + 1) D env (.unary op false x) =
      andThen (specEval fuel D env x) fun v env1 =>
        match op with
        | .not => (.ok (oneIf (v == 0)), env1)
        | .bitNeg => (.ok (-v - 1), env1)
        | .plus => (.ok v, env1)
        | _ => (chk (-v), env1) := by
  intro hop
  rw [specEval]
  simp only [hop, if_false, Bool.false_eq_true]
  rfl

theorem litExpr_spec {e' : Expr} {neg : Bool} {n : Nat} (hl : LitExpr e' neg n) {fuel D : Nat}
    {env env' : Env} {r : Res} (h : specEval fuel D env e' = (r, env')) (hd : r.inDomain) :
    n < 2 ^ 63 ∧ r = .ok (if neg then -(Int.ofNat n) else Int.ofNat n) ∧ env' = env := by
  cases hl with
  | pos lit n hs => simpa using specEval_lit hs h hd
  | plus lit n hs =>
    cases fuel with
    | zero => rw [specEval_zero] at h; cases h; exact absurd hd (by simp [Res.inDomain])
    | succ f =>
      rw [specEval_unary_plain _ _ _ _ _ (by decide)] at h
      cases hx : specEval f D env (.word lit) with
      | mk r1 e1 =>
        rw [hx] at h
        cases r1 with
        | ok v =>
          simp only [andThen_ok] at h
          cases h
          obtain ⟨a, b, c⟩ := specEval_lit hs hx trivial
          cases b
          exact ⟨a, rfl, c⟩
        | err er =>
          simp only [andThen_err] at h
          cases h
          obtain ⟨_, b, _⟩ := specEval_lit hs hx hd
          cases b
        | panic =>
          obtain ⟨_, b, _⟩ := specEval_lit hs hx trivial
          cases b
  | minus lit n hs =>
    cases fuel with
    | zero => rw [specEval_zero] at h; cases h; exact absurd hd (by simp [Res.inDomain])
    | succ f =>
      rw [specEval_unary_plain _ _ _ _ _ (by decide)] at h
      cases hx : specEval f D env (.word lit) with
      | mk r1 e1 =>
        rw [hx] at h
        cases r1 with
        | ok v =>
          simp only [andThen_ok] at h
          obtain ⟨a, b, c⟩ := specEval_lit hs hx trivial
          cases b
          have h1 := congrArg Prod.fst h
          have h2 := congrArg Prod.snd h
          simp only at h1 h2
          obtain ⟨_, hr⟩ := chk_ok h1 hd
          exact ⟨a, by simpa using hr, by rw [← h2, c]⟩
        | err er =>
          simp only [andThen_err] at h
          cases h
          obtain ⟨_, b, _⟩ := specEval_lit hs hx hd
          cases b
        | panic =>
          obtain ⟨_, b, _⟩ := specEval_lit hs hx trivial
          cases b

theorem parseText_nil : parseText [] = some none := by decide

/-! ### unfolding equations -/

theorem specEval_paren (fuel D : Nat) (env : Env) (x : Expr) :
    specEval (fuel + 1) D env (.paren x) = specEval fuel D env x := by
  rw [specEval]

theorem specEval_incdec (fuel D : Nat) (env : Env) (op : UnOp) (post : Bool) (n : Bytes) :
    (op = .inc ∨ op = .dec) → validName n = true →
    specEval (fuel + 1) D env (.unary op post (.word n)) =
      andThen (specEval fuel D env (.word n)) fun old env1 =>
        if inI64 (if op = .inc then old + 1 else old - 1) then
          andThen (setVar env1 n (if op = .inc then old + 1 else old - 1)) fun _ env2 =>
            (.ok (if post then old else (if op = .inc then old + 1 else old - 1)), env2)
        else (.err .outOfDomain, env1) := by
  intro hop hv
  rw [specEval]
  simp only [hop, if_true, wordOf_name hv, hv]

theorem specEval_assgn (fuel D : Nat) (env : Env) (n : Bytes) (y : Expr) :
    validName n = true →
    specEval (fuel + 1) D env (.binary .assgn (.word n) y) =
      andThen (specEval fuel D env y) fun v env1 => setVar env1 n v := by
  intro hv
  rw [specEval]
  simp [isAssign, wordOf_name hv, hv, assignOp]

theorem specEval_opassign (fuel D : Nat) (env : Env) (op aop : BinOp) (n : Bytes) (y : Expr) :
    assignOp op = some aop → validName n = true →
    specEval (fuel + 1) D env (.binary op (.word n) y) =
      andThen (specEval fuel D env (.word n)) fun cur env1 =>
        andThen (specEval fuel D env1 y) fun arg env2 =>
          match specBin aop cur arg with
          | .ok v => setVar env2 n v
          | r => (r, env2) := by
  intro hop hv
  rw [specEval]
  have : isAssign op = true := (assignOp_plain hop).1
  simp only [this, if_true, wordOf_name hv, hv, hop]
  rfl

theorem specEval_tern (fuel D : Nat) (env : Env) (x t f : Expr) :
    specEval (fuel + 1) D env (.binary .ternQuest x (.binary .ternColon t f)) =
      andThen (specEval fuel D env x) fun c env1 =>
        if c ≠ 0 then specEval fuel D env1 t else specEval fuel D env1 f := by
  rw [specEval]
  simp [isAssign, assignOp, colonParts]

theorem specEval_logic (fuel D : Nat) (env : Env) (op : BinOp) (x y : Expr) :
    (op = .andL ∨ op = .orL) →
    specEval (fuel + 1) D env (.binary op x y) =
      andThen (specEval fuel D env x) fun l env1 =>
        if op = .andL ∧ l = 0 then (.ok 0, env1)
        else if op = .orL ∧ l ≠ 0 then (.ok 1, env1)
        else andThen (specEval fuel D env1 y) fun r env2 => (.ok (oneIf (r != 0)), env2) := by
  intro hop
  rw [specEval]
  rcases hop with rfl | rfl <;> simp [isAssign, assignOp]

theorem plainBin_facts {op : BinOp} (h : plainBin op = true) :
    isAssign op = false ∧ op ≠ .ternQuest ∧ ¬ (op = .andL ∨ op = .orL) := by
  cases op <;> simp [plainBin] at h <;> decide

theorem specEval_plain (fuel D : Nat) (env : Env) (op : BinOp) (x y : Expr) :
    plainBin op = true →
    specEval (fuel + 1) D env (.binary op x y) =
      andThen (specEval fuel D env x) fun l env1 =>
        andThen (specEval fuel D env1 y) fun r env2 => (specBin op l r, env2) := by
  intro hop
  obtain ⟨h1, h2, h3⟩ := plainBin_facts hop
  rw [specEval]
  simp only [h1, Bool.false_eq_true, if_false, h2, h3]

/-! ### the main induction -/

/-- what the induction establishes for one evaluation -/
def Good (g : Bytes → Bytes) (pm : Res × Env) (r : Res) (env' : Env) : Prop :=
  pm = (r, env') ∧ Stable g env'.get ∧ (∀ w, r = .ok w → inI64 w = true)

theorem step {g : Bytes → Bytes} {ps pm : Res × Env} {fs fm : Int → Env → Res × Env} {r : Res}
    {env' : Env} (hs : andThen ps fs = (r, env')) (hd : r.good)
    (hsub : ∀ r1 e1, ps = (r1, e1) → r1.good → Good g pm r1 e1)
    (hcont : ∀ v e1, ps = (.ok v, e1) → inI64 v = true → Stable g e1.get → fs v e1 = (r, env') →
      Good g (fm v e1) r env') :
    Good g (andThen pm fm) r env' := by
  obtain ⟨r1, e1⟩ := ps
  cases r1 with
  | ok v =>
    obtain ⟨h1, h2, h3⟩ := hsub (.ok v) e1 rfl trivial
    rw [h1, andThen_ok]
    exact hcont v e1 rfl (h3 v rfl) h2 (by simpa using hs)
  | err er =>
    simp only [andThen_err] at hs
    have h1' := congrArg Prod.fst hs
    have h2' := congrArg Prod.snd hs
    simp only at h1' h2'
    subst h1' h2'
    obtain ⟨h1, h2, _⟩ := hsub (.err er) e1 rfl hd
    rw [h1, andThen_err]
    exact ⟨rfl, h2, fun w hw => by cases hw⟩
  | panic =>
    simp only [andThen_panic] at hs
    have h1' := congrArg Prod.fst hs
    have h2' := congrArg Prod.snd hs
    simp only at h1' h2'
    subst h1' h2'
    obtain ⟨h1, h2, _⟩ := hsub .panic e1 rfl hd
    rw [h1, andThen_panic]
    exact ⟨rfl, h2, fun w hw => by cases hw⟩

theorem good_setVar {g : Bytes → Bytes} {env1 env' : Env} {n : Bytes} {v : Int} {r : Res}
    (hst : Stable g env1.get) (hv : inI64 v = true) (h : setVar env1 n v = (r, env')) :
    Good g (setVar env1 n v) r env' :=
  ⟨h, hst.trans (setVar_stable h), fun w hw => by rw [setVar_ok h w hw]; exact hv⟩

theorem inI64_sval {neg : Bool} {k : Nat} (hk : k < 2 ^ 63) :
    inI64 (if neg then -(Int.ofNat k) else Int.ofNat k) = true := by
  rw [inI64_iff, Int.ofNat_eq_natCast]
  cases neg <;> simp <;> omega

theorem isNameWord_elim' {x : Expr} (h : isNameWord x = true) : ∃ n, x = .word n ∧ validName n = true := by
  cases x <;> simp [isNameWord] at h
  exact ⟨_, rfl, h⟩

/-- reading an `op=`/`++`/`--` target: specification and `atoi` agree -/
theorem specBin_plain_ne {op : BinOp} (hop : plainBin op = true) (x y : Int) :
    specBin op x y ≠ .err .syntaxErr ∧ specBin op x y ≠ .panic := by
  cases op <;> simp [plainBin] at hop <;> simp only [specBin, chk, specPow] <;>
    (constructor <;> repeat' split) <;> simp

theorem assignOp_plainBin {op aop : BinOp} (h : assignOp op = some aop) : plainBin aop = true := by
  cases op <;> simp [assignOp] at h <;> subst h <;> rfl

theorem good_binArit {g : Bytes → Bytes} {op : BinOp} {l rr : Int} {e2 env' : Env} {r : Res}
    (hop : plainBin op = true) (hl : inI64 l = true) (hrr : inI64 rr = true)
    (hst : Stable g e2.get) (hf : (specBin op l rr, e2) = (r, env')) (hd : r.inDomain) :
    Good g (binArit op l rr, e2) r env' := by
  have h1 := congrArg Prod.fst hf
  have h2 := congrArg Prod.snd hf
  simp only at h1 h2
  subst h2
  have hb := binArit_eq_spec hrr h1 hd (by rw [← h1]; exact (specBin_plain_ne hop l rr).1)
  refine ⟨by rw [hb], hst, fun w hw => ?_⟩
  rw [hw] at h1
  exact specBin_inI64 hl hrr h1

theorem pair_eq {r1 r : Res} {e1 env' : Env} (h : (r1, e1) = (r, env')) : r1 = r ∧ e1 = env' := by
  cases h; exact ⟨rfl, rfl⟩

/-! ### number-like strings, value texts -/

theorem numberLike_of_lit {v : Bytes} {c : UInt8} {rest : Bytes}
    (hstrip : stripSign (trimSpace v) = c :: rest)
    (h1 : 48 ≤ c) (h2 : c ≤ 57) (hall : ∀ b ∈ c :: rest, isWordB b = true) :
    numberLike v = true := by
  unfold numberLike
  split
  · rfl
  · rw [hstrip]
    simp only []
    have hc : (decide (48 ≤ c) && decide (c ≤ 57)) = true := by simp [h1, h2]
    rw [hc, Bool.true_and, List.all_eq_true]
    intro b hb
    have := hall b hb
    unfold isWordB at this
    exact this

theorem numberLike_name {n : Bytes} (h : validName n = true) : numberLike n = true := by
  unfold numberLike
  rw [if_pos h]

theorem numberLike_intLit {v : Bytes} {neg : Bool} {k : Nat} (h : IntLit v neg k) :
    numberLike v = true := by
  cases h with
  | pos pre lit post n hpre hpost hl =>
    obtain ⟨c, rest, rfl, h1, h2⟩ := specNumber_starts_digit hl
    obtain ⟨_, h43, h45⟩ := digit_not_start h1 h2
    have ht := trimSpace_mid (isBlanks_space hpre) (isBlanks_space hpost) (by simp)
      (lit_no_space hl)
    refine numberLike_of_lit (c := c) (rest := rest) ?_ h1 h2 (specNumber_wordChars hl)
    rw [ht]
    unfold stripSign
    split
    · rename_i heq; simp at heq; exact absurd heq.1 h43
    · rename_i heq; simp at heq; exact absurd heq.1 h45
    · rfl
  | plus pre lit post n hpre hpost hl =>
    obtain ⟨c, rest, rfl, h1, h2⟩ := specNumber_starts_digit hl
    have e : pre ++ 43 :: (c :: rest) ++ post = pre ++ (43 :: c :: rest) ++ post := by simp
    have hmid : ∀ b ∈ (43 : UInt8) :: c :: rest, isSpaceB b = false := by
      intro b hb
      rcases List.mem_cons.1 hb with rfl | hb
      · decide
      · exact lit_no_space hl b hb
    have ht := trimSpace_mid (isBlanks_space hpre) (isBlanks_space hpost) (by simp) hmid
    rw [← e] at ht
    refine numberLike_of_lit (c := c) (rest := rest) ?_ h1 h2 (specNumber_wordChars hl)
    rw [ht]; rfl
  | minus pre lit post n hpre hpost hl =>
    obtain ⟨c, rest, rfl, h1, h2⟩ := specNumber_starts_digit hl
    have e : pre ++ 45 :: (c :: rest) ++ post = pre ++ (45 :: c :: rest) ++ post := by simp
    have hmid : ∀ b ∈ (45 : UInt8) :: c :: rest, isSpaceB b = false := by
      intro b hb
      rcases List.mem_cons.1 hb with rfl | hb
      · decide
      · exact lit_no_space hl b hb
    have ht := trimSpace_mid (isBlanks_space hpre) (isBlanks_space hpost) (by simp) hmid
    rw [← e] at ht
    refine numberLike_of_lit (c := c) (rest := rest) ?_ h1 h2 (specNumber_wordChars hl)
    rw [ht]; rfl

theorem exprText_not_name {v : Bytes} (h : ExprText v) : validName v = false := by
  cases hv : validName v with
  | false => rfl
  | true => have h1 := h.1; rw [numberLike_name hv] at h1; cases h1

theorem exprText_ne_nil {v : Bytes} (h : ExprText v) : v ≠ [] := by
  intro he
  obtain ⟨_, e', hp, _⟩ := h
  rw [he, parseText_nil] at hp
  cases hp

theorem parseValue_of_parseText {v : Bytes} {e' : Expr} (h : parseText v = some (some e')) :
    parseValue v = .expr e' := by
  unfold parseText at h
  unfold parseValue
  cases hl : lexArith (v.length + 1) v with
  | none => rw [hl] at h; cases h
  | some toks =>
    rw [hl] at h
    cases toks with
    | nil => cases h
    | cons t ts =>
      simp only [] at h ⊢
      unfold parseArith at h
      cases hp : parseLevel (20 * (t :: ts).length + 20) lvComma (t :: ts) with
      | none => rw [hp] at h; cases h
      | some pr =>
        obtain ⟨oe, rest⟩ := pr
        rw [hp] at h
        cases oe with
        | none => cases h
        | some e2 =>
          cases rest with
          | nil => simp only [Option.map] at h; cases h; rfl
          | cons _ _ => cases h

/-- the `deeper` parameter of `evalAt d` -/
def deeperOf : Nat → Env → Bytes → Res × Env
  | 0 => fun env _ => (.err .recursion, env)
  | d + 1 => fun env str =>
    match parseValue str with
    | .syntaxErr => (.err .syntaxErr, env)
    | .empty => (.ok 0, env)
    | .expr e' => evalAt d env e'

theorem evalAt_eq (d : Nat) : evalAt d = evalWith (deeperOf d) := by
  cases d <;> rfl

/-- what the word rule does with the chased string -/
def finish (d : Nat) (env : Env) (str : Bytes) : Res × Env :=
  if numberLike str then (.ok (atoi str), env) else deeperOf d env str

theorem chase_end (get : Bytes → Bytes) : ∀ (hops : Nat) (n : Bytes), validName n = true →
    get n = [] → chase get hops n = n
  | 0, n, _, _ => rfl
  | h + 1, n, hv, he => by rw [chase_succ, if_pos hv, if_pos he]

theorem evalWord_name (d : Nat) (env : Env) (w : Bytes) (hv : validName w = true) :
    evalWord (deeperOf d) env w = finish d env (chase env.get 99 w) := by
  unfold evalWord finish
  simp only [hv, Bool.true_and, maxNameRefDepth]
  show (if ((env.get w != []) && !numberLike (chase env.get 99 w)) = true then _ else _) = _
  by_cases he : env.get w = []
  · rw [chase_end _ _ _ hv he, numberLike_name hv]
    simp [he]
  · have : (env.get w != []) = true := by simpa using he
    simp only [this, Bool.true_and]
    by_cases hn : numberLike (chase env.get 99 w) = true
    · simp [hn]
    · simp [hn]

theorem evalWord_lit (deeper : Env → Bytes → Res × Env) (env : Env) (w : Bytes)
    (hv : validName w = false) : evalWord deeper env w = (.ok (atoi w), env) := by
  unfold evalWord
  simp [hv, chase_not_name _ _ _ hv]

/-! ### unfolding equations of the model -/

theorem evalWith_word (dp : Env → Bytes → Res × Env) (env : Env) (w : Bytes) :
    evalWith dp env (.word w) = evalWord dp env w := by rw [evalWith]

theorem evalWith_incdec (dp : Env → Bytes → Res × Env) (env : Env) (op : UnOp) (post : Bool)
    (n : Bytes) : (op = .inc ∨ op = .dec) → validName n = true →
    evalWith dp env (.unary op post (.word n)) =
      andThen (evalWith dp env (.word n)) fun old env1 =>
        andThen (setVar env1 n (if op = .inc then wrap64 (old + 1) else wrap64 (old - 1)))
          fun _ env2 =>
            (.ok (if post then old else
              (if op = .inc then wrap64 (old + 1) else wrap64 (old - 1))), env2) := by
  intro hop hv
  rw [evalWith_word, evalWith]
  simp only [hop, if_true, wordOf_name hv]

theorem evalWith_unary_plain (dp : Env → Bytes → Res × Env) (env : Env) (op : UnOp) (post : Bool)
    (x : Expr) : ¬ (op = .inc ∨ op = .dec) →
    evalWith dp env (.unary op post x) =
      andThen (evalWith dp env x) fun v env' =>
        match op with
        | .not => (.ok (oneIf (v == 0)), env')
        | .bitNeg => (.ok (-v - 1), env')
        | .plus => (.ok v, env')
        | .minus => (.ok (wrap64 (-v)), env')
        | _ => (.err .unsupUnary, env') := by
  intro hop
  rw [evalWith]
  simp only [hop, if_false]
  rfl

theorem evalWith_assgn (dp : Env → Bytes → Res × Env) (env : Env) (n : Bytes) (y : Expr) :
    validName n = true →
    evalWith dp env (.binary .assgn (.word n) y) =
      andThen (evalWith dp env y) fun arg env' => setVar env' n arg := by
  intro hv
  rw [evalWith]
  simp [isAssign, wordOf_name hv, assignOp]

theorem evalWith_opassign (dp : Env → Bytes → Res × Env) (env : Env) (op aop : BinOp) (n : Bytes)
    (y : Expr) : assignOp op = some aop → validName n = true →
    evalWith dp env (.binary op (.word n) y) =
      andThen (evalWith dp env (.word n)) fun val env1 =>
        andThen (evalWith dp env1 y) fun arg env' =>
          match binArit aop val arg with
          | .ok v => setVar env' n v
          | e => (e, env') := by
  intro hop hv
  rw [evalWith_word, evalWith]
  have : isAssign op = true := (assignOp_plain hop).1
  simp only [this, if_true, wordOf_name hv, hop]
  rfl

theorem evalWith_tern (dp : Env → Bytes → Res × Env) (env : Env) (x t f : Expr) :
    evalWith dp env (.binary .ternQuest x (.binary .ternColon t f)) =
      andThen (evalWith dp env x) fun c env1 =>
        if c ≠ 0 then evalWith dp env1 t else evalWith dp env1 f := by
  rw [evalWith]
  simp [isAssign, assignOp, evalTernBranch]

theorem evalWith_logic (dp : Env → Bytes → Res × Env) (env : Env) (op : BinOp) (x y : Expr) :
    (op = .andL ∨ op = .orL) →
    evalWith dp env (.binary op x y) =
      andThen (evalWith dp env x) fun l env1 =>
        if op = .andL ∧ l = 0 then (.ok 0, env1)
        else if op = .orL ∧ l ≠ 0 then (.ok 1, env1)
        else andThen (evalWith dp env1 y) fun r env2 => (.ok (oneIf (r != 0)), env2) := by
  intro hop
  rw [evalWith]
  rcases hop with rfl | rfl <;> simp [isAssign, assignOp]

theorem evalWith_plain (dp : Env → Bytes → Res × Env) (env : Env) (op : BinOp) (x y : Expr) :
    plainBin op = true →
    evalWith dp env (.binary op x y) =
      andThen (evalWith dp env x) fun l env1 =>
        andThen (evalWith dp env1 y) fun r env2 => (binArit op l r, env2) := by
  intro hop
  obtain ⟨h1, h2, h3⟩ := plainBin_facts hop
  rw [evalWith]
  simp only [h1, Bool.false_eq_true, if_false, h2, h3]

theorem good_inDomain {r : Res} (h : r.good) : r.inDomain := by
  cases r with
  | ok v => trivial
  | panic => trivial
  | err e => cases e <;> first | trivial | exact h

theorem trimSpace_blanks {v : Bytes} (h : IsBlanks v) : trimSpace v = [] := by
  unfold trimSpace
  have := dropWhile_all_append (p := isSpaceB) v [] (isBlanks_space h)
  rw [List.append_nil] at this
  rw [this]
  rfl

theorem blanks_facts {v : Bytes} (h : IsBlanks v) (hne : v ≠ []) :
    validName v = false ∧ numberLike v = true ∧ atoi v = 0 ∧ parseText v = some none := by
  have hvn : validName v = false := by
    cases v with
    | nil => exact absurd rfl hne
    | cons b r =>
      have := (blank_space (h b (List.mem_cons_self ..))).2
      simp [validName, this]
  refine ⟨hvn, ?_, ?_, ?_⟩
  · unfold numberLike
    rw [hvn, trimSpace_blanks h]
    rfl
  · unfold atoi
    rw [trimSpace_blanks h]
    decide
  · unfold parseText
    have := lexArith_only_blanks v 0 h
    have e : v.length + 1 = 0 + 1 + v.length := by omega
    rw [e, this]

/-! ### the main induction -/

theorem good_ok (v : Int) : (Res.ok v).good := trivial

theorem eval_main : ∀ (fuel : Nat),
    (∀ (d D : Nat) (env : Env) (e : Expr) (r : Res) (env' : Env), D ≤ d → D ≤ 99 →
      WF e = true → EnvOK env → LitsOK e → specEval fuel D env e = (r, env') → r.good →
      Good env.get (evalAt d env e) r env') ∧
    (∀ (d D hops : Nat) (env : Env) (n : Bytes) (r : Res) (env' : Env), D ≤ d → D ≤ 99 →
      D ≤ hops → validName n = true → EnvOK env → specEval fuel D env (.word n) = (r, env') →
      r.good → Good env.get (finish d env (chase env.get hops n)) r env')
  | 0 => by
    constructor
    · intro d D env e r env' _ _ _ _ _ h hd
      rw [specEval_zero] at h; cases h; exact absurd hd (by simp [Res.good])
    · intro d D hops env n r env' _ _ _ _ _ h hd
      rw [specEval_zero] at h; cases h; exact absurd hd (by simp [Res.good])
  | fuel + 1 => by
    obtain ⟨IH1, IH2⟩ := eval_main fuel
    -- part 2: following names
    have P2 : ∀ (d D hops : Nat) (env : Env) (n : Bytes) (r : Res) (env' : Env), D ≤ d → D ≤ 99 →
        D ≤ hops → validName n = true → EnvOK env →
        specEval (fuel + 1) D env (.word n) = (r, env') → r.good →
        Good env.get (finish d env (chase env.get hops n)) r env' := by
      intro d D hops env n r env' hDd hD99 hDh hv henv h hd
      rw [specEval_word, if_pos hv] at h
      by_cases he : env.get n = []
      · rw [if_pos he] at h
        obtain ⟨a, b⟩ := pair_eq h
        subst a b
        rw [chase_end _ _ _ hv he]
        unfold finish
        rw [numberLike_name hv, if_pos rfl, atoi_name hv]
        exact ⟨rfl, Stable.refl _, fun w hw => by cases hw; decide⟩
      · rw [if_neg he] at h
        rcases henv n with hnil | ⟨neg, k, hl⟩ | hvn | hex | hbl
        · exact absurd hnil he
        · obtain ⟨e', hp, hle⟩ := parseText_intLit hl
          rw [hp] at h
          simp only [] at h
          cases D with
          | zero => obtain ⟨a, _⟩ := pair_eq h; subst a; exact absurd hd (by simp [Res.good])
          | succ D' =>
            simp only [] at h
            obtain ⟨a, b, c⟩ := litExpr_spec hle h (good_inDomain hd)
            obtain ⟨h', rfl⟩ : ∃ h', hops = h' + 1 := ⟨hops - 1, by omega⟩
            rw [chase_succ, if_pos hv, if_neg he, chase_not_name _ _ _ (intLit_not_name hl)]
            unfold finish
            rw [numberLike_intLit hl, if_pos rfl, atoi_intLit hl a]
            subst b c
            exact ⟨rfl, Stable.refl _, fun w hw => by cases hw; exact inI64_sval a⟩
        · rw [parseText_name hvn] at h
          simp only [] at h
          cases D with
          | zero => obtain ⟨a, _⟩ := pair_eq h; subst a; exact absurd hd (by simp [Res.good])
          | succ D' =>
            simp only [] at h
            obtain ⟨h', rfl⟩ : ∃ h', hops = h' + 1 := ⟨hops - 1, by omega⟩
            rw [chase_succ, if_pos hv, if_neg he]
            exact IH2 d D' h' env (env.get n) r env' (by omega) (by omega) (by omega) hvn henv h hd
        · obtain ⟨hnl, e', hp, hwf', hlit'⟩ := hex
          rw [hp] at h
          simp only [] at h
          cases D with
          | zero => obtain ⟨a, _⟩ := pair_eq h; subst a; exact absurd hd (by simp [Res.good])
          | succ D' =>
            simp only [] at h
            obtain ⟨h', rfl⟩ : ∃ h', hops = h' + 1 := ⟨hops - 1, by omega⟩
            obtain ⟨d', rfl⟩ : ∃ d', d = d' + 1 := ⟨d - 1, by omega⟩
            have hnn := exprText_not_name ⟨hnl, e', hp, hwf', hlit'⟩
            rw [chase_succ, if_pos hv, if_neg he, chase_not_name _ _ _ hnn]
            unfold finish
            rw [hnl]
            simp only [Bool.false_eq_true, if_false, deeperOf, parseValue_of_parseText hp]
            exact IH1 d' D' env e' r env' (by omega) (by omega) hwf' henv hlit' h hd
        · obtain ⟨b1, b2, b3, b4⟩ := blanks_facts hbl he
          rw [b4] at h
          simp only [] at h
          obtain ⟨a, b⟩ := pair_eq h
          subst a b
          cases hops with
          | zero =>
            rw [chase]
            unfold finish
            rw [numberLike_name hv, if_pos rfl, atoi_name hv]
            exact ⟨rfl, Stable.refl _, fun w hw => by cases hw; decide⟩
          | succ h' =>
            rw [chase_succ, if_pos hv, if_neg he, chase_not_name _ _ _ b1]
            unfold finish
            rw [b2, if_pos rfl, b3]
            exact ⟨rfl, Stable.refl _, fun w hw => by cases hw; decide⟩
    refine ⟨?_, P2⟩
    intro d D env e r env' hDd hD99 hwf henv hlit h hd
    rw [evalAt_eq]
    have IH : ∀ (e1 : Env) (x : Expr) (r1 : Res) (e2 : Env), Stable env.get e1.get →
        WF x = true → LitsOK x → specEval fuel D e1 x = (r1, e2) → r1.good →
        Good env.get (evalWith (deeperOf d) e1 x) r1 e2 := by
      intro e1 x r1 e2 hst hw hl hp hd1
      have := IH1 d D e1 x r1 e2 hDd hD99 hw (EnvOK_stable henv hst) hl hp hd1
      rw [evalAt_eq] at this
      exact ⟨this.1, hst.trans this.2.1, this.2.2⟩
    have hrefl := Stable.refl env.get
    cases e with
    | word w =>
      rw [evalWith_word]
      by_cases hv : validName w = true
      · rw [evalWord_name d env w hv]
        exact P2 d D 99 env w r env' hDd hD99 hD99 hv henv h hd
      · rcases hlit with hl | ⟨n, hn⟩
        · exact absurd hl hv
        · obtain ⟨a, b, c⟩ := specEval_lit hn h (good_inDomain hd)
          rw [evalWord_lit _ _ _ (by simpa using hv), atoi_lit hn a]
          subst b c
          refine ⟨rfl, Stable.refl _, fun w hw => ?_⟩
          cases hw
          exact inI64_sval (neg := false) a
    | paren x =>
      rw [specEval_paren] at h
      rw [evalWith]
      exact IH env x r env' hrefl (by simpa [WF] using hwf) hlit h hd
    | unary op post x =>
      by_cases hinc : op = .inc ∨ op = .dec
      · simp only [WF, hinc, if_true] at hwf
        obtain ⟨n, rfl, hvn⟩ := isNameWord_elim' hwf
        rw [specEval_incdec _ _ _ _ _ _ hinc hvn] at h
        rw [evalWith_incdec _ _ _ _ _ hinc hvn]
        refine step h hd (fun r1 e1 hp hd1 => IH env (.word n) r1 e1 hrefl rfl (Or.inl hvn) hp hd1) ?_
        intro old e1 hp hold hst hf
        have hw : (if op = UnOp.inc then wrap64 (old + 1) else wrap64 (old - 1)) =
            wrap64 (if op = UnOp.inc then old + 1 else old - 1) := by
          split <;> rfl
        rw [hw]
        generalize (if op = UnOp.inc then old + 1 else old - 1) = val at hf ⊢
        by_cases hval : inI64 val = true
        · rw [if_pos hval] at hf
          rw [wrap64_eq hval]
          obtain ⟨r2, e2, hsv⟩ : ∃ r2 e2, setVar e1 n val = (r2, e2) := ⟨_, _, rfl⟩
          have hst2 := hst.trans (setVar_stable hsv)
          rw [hsv] at hf ⊢
          cases r2 with
          | ok v2 =>
            simp only [andThen_ok] at hf ⊢
            obtain ⟨a, b⟩ := pair_eq hf
            subst a b
            refine ⟨rfl, hst2, fun w hw2 => ?_⟩
            cases hw2
            cases post
            · simpa using hval
            · simpa using hold
          | err er =>
            simp only [andThen_err] at hf ⊢
            obtain ⟨a, b⟩ := pair_eq hf
            subst a b
            exact ⟨rfl, hst2, fun w hw2 => by cases hw2⟩
          | panic =>
            simp only [andThen_panic] at hf ⊢
            obtain ⟨a, b⟩ := pair_eq hf
            subst a b
            exact ⟨rfl, hst2, fun w hw2 => by cases hw2⟩
        · rw [if_neg hval] at hf
          have := (pair_eq hf).1
          rw [← this] at hd
          exact absurd hd (by simp [Res.good])
      · simp only [WF, hinc, if_false, Bool.and_eq_true, Bool.not_eq_true'] at hwf
        obtain ⟨hpost, hwx⟩ := hwf
        subst hpost
        rw [specEval_unary_plain _ _ _ _ _ hinc] at h
        rw [evalWith_unary_plain _ _ _ _ _ hinc]
        refine step h hd (fun r1 e1 hp hd1 => IH env x r1 e1 hrefl hwx hlit hp hd1) ?_
        intro v e1 hp hv hst hf
        cases op with
        | inc => exact absurd (Or.inl rfl) hinc
        | dec => exact absurd (Or.inr rfl) hinc
        | not =>
          simp only [] at hf ⊢
          obtain ⟨a, b⟩ := pair_eq hf
          subst a b
          exact ⟨rfl, hst, fun w hw => by cases hw; exact oneIf_inI64 _⟩
        | bitNeg =>
          simp only [] at hf ⊢
          obtain ⟨a, b⟩ := pair_eq hf
          subst a b
          refine ⟨rfl, hst, fun w hw => ?_⟩
          cases hw
          rw [inI64_iff] at hv ⊢
          omega
        | plus =>
          simp only [] at hf ⊢
          obtain ⟨a, b⟩ := pair_eq hf
          subst a b
          exact ⟨rfl, hst, fun w hw => by cases hw; exact hv⟩
        | minus =>
          simp only [] at hf ⊢
          obtain ⟨a, b⟩ := pair_eq hf
          subst b
          obtain ⟨hi, hr⟩ := chk_ok a (good_inDomain hd)
          subst hr
          rw [wrap64_eq hi]
          exact ⟨rfl, hst, fun w hw => by cases hw; exact hi⟩
    | binary op x y =>
      have hlitx : LitsOK x := hlit.1
      have hlity : LitsOK y := hlit.2
      by_cases hass : op = .assgn ∨ (assignOp op).isSome = true
      · simp only [WF, hass, if_true, Bool.and_eq_true] at hwf
        obtain ⟨n, rfl, hvn⟩ := isNameWord_elim' hwf.1
        cases hop : assignOp op with
        | none =>
          have hopa : op = .assgn := by
            rcases hass with h1 | h1
            · exact h1
            · rw [hop] at h1; cases h1
          subst hopa
          rw [specEval_assgn _ _ _ _ _ hvn] at h
          rw [evalWith_assgn _ _ _ _ hvn]
          refine step h hd (fun r1 e1 hp hd1 => IH env y r1 e1 hrefl hwf.2 hlity hp hd1) ?_
          intro v e1 hp hv hst hf
          exact good_setVar hst hv hf
        | some aop =>
          have hpl := assignOp_plainBin hop
          rw [specEval_opassign _ _ _ _ _ _ _ hop hvn] at h
          rw [evalWith_opassign _ _ _ _ _ _ hop hvn]
          refine step h hd
            (fun r1 e1 hp hd1 => IH env (.word n) r1 e1 hrefl rfl (Or.inl hvn) hp hd1) ?_
          intro cur e1 hp hcur hst hf
          refine step hf hd (fun r1 e2 hp2 hd1 => IH e1 y r1 e2 hst hwf.2 hlity hp2 hd1) ?_
          intro arg e2 hp2 harg hst2 hf2
          obtain ⟨sb, hsb⟩ : ∃ sb, specBin aop cur arg = sb := ⟨_, rfl⟩
          rw [hsb] at hf2
          cases sb with
          | ok v =>
            simp only [] at hf2
            rw [binArit_eq_spec harg hsb trivial (by simp)]
            exact good_setVar hst2 (specBin_inI64 hcur harg hsb) hf2
          | err er =>
            simp only [] at hf2
            obtain ⟨a, b⟩ := pair_eq hf2
            subst a b
            rw [binArit_eq_spec harg hsb (good_inDomain hd)
              (by rw [← hsb]; exact (specBin_plain_ne hpl _ _).1)]
            exact ⟨rfl, hst2, fun w hw => by cases hw⟩
          | panic => exact absurd hsb (specBin_plain_ne hpl _ _).2
      · simp only [WF, hass, if_false] at hwf
        by_cases ht : op = .ternQuest
        · subst ht
          simp only [if_true, Bool.and_eq_true] at hwf
          obtain ⟨hwx, hwc⟩ := hwf
          cases y with
          | word _ => simp [WFColon] at hwc
          | paren _ => simp [WFColon] at hwc
          | unary _ _ _ => simp [WFColon] at hwc
          | binary op2 t f =>
            simp only [WFColon, Bool.and_eq_true, beq_iff_eq] at hwc
            obtain ⟨⟨hop2, hwt⟩, hwff⟩ := hwc
            subst hop2
            rw [specEval_tern] at h
            rw [evalWith_tern]
            refine step h hd (fun r1 e1 hp hd1 => IH env x r1 e1 hrefl hwx hlitx hp hd1) ?_
            intro c e1 hp hc hst hf
            by_cases hc0 : c ≠ 0
            · rw [if_pos hc0] at hf ⊢
              exact IH e1 t r env' hst hwt hlity.1 hf hd
            · rw [if_neg hc0] at hf ⊢
              exact IH e1 f r env' hst hwff hlity.2 hf hd
        · simp only [ht, if_false] at hwf
          by_cases hl : op = .andL ∨ op = .orL
          · simp only [hl, if_true, Bool.and_eq_true] at hwf
            rw [specEval_logic _ _ _ _ _ _ hl] at h
            rw [evalWith_logic _ _ _ _ _ hl]
            refine step h hd (fun r1 e1 hp hd1 => IH env x r1 e1 hrefl hwf.1 hlitx hp hd1) ?_
            intro l e1 hp hlv1 hst hf
            by_cases c1 : op = .andL ∧ l = 0
            · rw [if_pos c1] at hf ⊢
              obtain ⟨a, b⟩ := pair_eq hf
              subst a b
              exact ⟨rfl, hst, fun w hw => by cases hw; decide⟩
            · rw [if_neg c1] at hf ⊢
              by_cases c2 : op = .orL ∧ l ≠ 0
              · rw [if_pos c2] at hf ⊢
                obtain ⟨a, b⟩ := pair_eq hf
                subst a b
                exact ⟨rfl, hst, fun w hw => by cases hw; decide⟩
              · rw [if_neg c2] at hf ⊢
                refine step hf hd (fun r1 e2 hp2 hd1 => IH e1 y r1 e2 hst hwf.2 hlity hp2 hd1) ?_
                intro rr e2 hp2 hrr hst2 hf2
                obtain ⟨a, b⟩ := pair_eq hf2
                subst a b
                exact ⟨rfl, hst2, fun w hw => by cases hw; exact oneIf_inI64 _⟩
          · simp only [hl, if_false, Bool.and_eq_true] at hwf
            obtain ⟨⟨hpl, hwx⟩, hwy⟩ := hwf
            rw [specEval_plain _ _ _ _ _ _ hpl] at h
            rw [evalWith_plain _ _ _ _ _ hpl]
            refine step h hd (fun r1 e1 hp hd1 => IH env x r1 e1 hrefl hwx hlitx hp hd1) ?_
            intro l e1 hp hl1 hst hf
            refine step hf hd (fun r1 e2 hp2 hd1 => IH e1 y r1 e2 hst hwy hlity hp2 hd1) ?_
            intro rr e2 hp2 hrr hst2 hf2
            exact good_binArit hpl hl1 hrr hst2 hf2 (good_inDomain hd)

/-! ### a larger nesting budget does not change a result that did not hit the limit -/

theorem andThen_mono {p p' : Res × Env} {f f' : Int → Env → Res × Env} {r : Res} {env' : Env}
    (h : andThen p f = (r, env')) (hd : r.good)
    (hp : ∀ r1 e1, p = (r1, e1) → r1.good → p' = (r1, e1))
    (hf : ∀ v e1, p = (.ok v, e1) → f v e1 = (r, env') → f' v e1 = (r, env')) :
    andThen p' f' = (r, env') := by
  obtain ⟨r1, e1⟩ := p
  cases r1 with
  | ok v =>
    rw [hp (.ok v) e1 rfl trivial, andThen_ok]
    exact hf v e1 rfl (by simpa using h)
  | err er =>
    simp only [andThen_err] at h
    obtain ⟨a, b⟩ := pair_eq h
    subst a b
    rw [hp (.err er) e1 rfl hd, andThen_err]
  | panic =>
    simp only [andThen_panic] at h
    obtain ⟨a, b⟩ := pair_eq h
    subst a b
    rw [hp .panic e1 rfl hd, andThen_panic]

theorem specEval_depth_mono : ∀ (fuel D D' : Nat) (env : Env) (e : Expr) (r : Res) (env' : Env),
    D ≤ D' → specEval fuel D env e = (r, env') → r.good → specEval fuel D' env e = (r, env')
  | 0, D, D', env, e, r, env', _, h, hd => by
    rw [specEval_zero] at h; cases h; exact absurd hd (by simp [Res.good])
  | fuel + 1, D, D', env, e, r, env', hDD, h, hd => by
    have IH := fun env1 x r1 e2 => specEval_depth_mono fuel D D' env1 x r1 e2 hDD
    cases e with
    | word w =>
      rw [specEval_word] at h ⊢
      split at h
      · rename_i hv
        rw [if_pos hv]
        split at h
        · rename_i he; rw [if_pos he]; exact h
        · rename_i he
          rw [if_neg he]
          cases hp : parseText (env.get w) with
          | none => rw [hp] at h; exact h
          | some oe =>
            rw [hp] at h
            cases oe with
            | none => exact h
            | some e' =>
              simp only [] at h ⊢
              cases D with
              | zero =>
                obtain ⟨a, _⟩ := pair_eq h; subst a; exact absurd hd (by simp [Res.good])
              | succ D1 =>
                obtain ⟨D2, rfl⟩ : ∃ D2, D' = D2 + 1 := ⟨D' - 1, by omega⟩
                simp only [] at h ⊢
                exact specEval_depth_mono fuel D1 D2 env e' r env' (by omega) h hd
      · rename_i hv
        rw [if_neg hv]
        exact h
    | paren x =>
      rw [specEval_paren] at h ⊢
      exact IH env x r env' h hd
    | unary op post x =>
      rw [specEval] at h ⊢
      by_cases hinc : op = .inc ∨ op = .dec
      · simp only [hinc, if_true] at h ⊢
        cases hw : wordOf x with
        | none => rw [hw] at h; exact h
        | some n =>
          rw [hw] at h
          simp only [] at h ⊢
          split at h
          · rename_i hv
            rw [if_pos hv]
            exact andThen_mono h hd (fun r1 e1 hp hd1 => IH env (.word n) r1 e1 hp hd1)
              (fun v e1 _ hf => hf)
          · rename_i hv
            rw [if_neg hv]
            exact h
      · simp only [hinc, if_false] at h ⊢
        split at h
        · rename_i hp; rw [if_pos hp]; exact h
        · rename_i hp
          rw [if_neg hp]
          exact andThen_mono h hd (fun r1 e1 hp1 hd1 => IH env x r1 e1 hp1 hd1) (fun v e1 _ hf => hf)
    | binary op x y =>
      rw [specEval] at h ⊢
      by_cases hass : isAssign op = true
      · simp only [hass, if_true] at h ⊢
        cases hw : wordOf x with
        | none => rw [hw] at h; exact h
        | some n =>
          rw [hw] at h
          simp only [] at h ⊢
          by_cases hv : validName n = true
          · simp only [hv, if_true] at h ⊢
            cases hop : assignOp op with
            | none =>
              rw [hop] at h
              simp only [] at h ⊢
              by_cases ha : op = .assgn
              · simp only [ha, if_true] at h ⊢
                exact andThen_mono h hd (fun r1 e1 hp hd1 => IH env y r1 e1 hp hd1)
                  (fun v e1 _ hf => hf)
              · simp only [ha, if_false] at h ⊢
                exact h
            | some aop =>
              rw [hop] at h
              simp only [] at h ⊢
              refine andThen_mono h hd (fun r1 e1 hp hd1 => IH env (.word n) r1 e1 hp hd1) ?_
              intro cur e1 _ hf
              exact andThen_mono hf hd (fun r1 e2 hp hd1 => IH e1 y r1 e2 hp hd1)
                (fun v e2 _ hf2 => hf2)
          · simp only [hv, Bool.false_eq_true, if_false] at h ⊢
            exact h
      · simp only [hass, Bool.false_eq_true, if_false] at h ⊢
        by_cases ht : op = .ternQuest
        · simp only [ht, if_true] at h ⊢
          cases hc : colonParts y with
          | none => rw [hc] at h; exact h
          | some tf =>
            obtain ⟨t, f⟩ := tf
            rw [hc] at h
            simp only [] at h ⊢
            refine andThen_mono h hd (fun r1 e1 hp hd1 => IH env x r1 e1 hp hd1) ?_
            intro c e1 _ hf
            by_cases hc0 : c ≠ 0
            · rw [if_pos hc0] at hf ⊢; exact IH e1 t r env' hf hd
            · rw [if_neg hc0] at hf ⊢; exact IH e1 f r env' hf hd
        · simp only [ht, if_false] at h ⊢
          by_cases hl : op = .andL ∨ op = .orL
          · simp only [hl, if_true] at h ⊢
            refine andThen_mono h hd (fun r1 e1 hp hd1 => IH env x r1 e1 hp hd1) ?_
            intro l e1 _ hf
            by_cases c1 : op = .andL ∧ l = 0
            · rw [if_pos c1] at hf ⊢; exact hf
            · rw [if_neg c1] at hf ⊢
              by_cases c2 : op = .orL ∧ l ≠ 0
              · rw [if_pos c2] at hf ⊢; exact hf
              · rw [if_neg c2] at hf ⊢
                exact andThen_mono hf hd (fun r1 e2 hp hd1 => IH e1 y r1 e2 hp hd1)
                  (fun v e2 _ hf2 => hf2)
          · simp only [hl, if_false] at h ⊢
            refine andThen_mono h hd (fun r1 e1 hp hd1 => IH env x r1 e1 hp hd1) ?_
            intro l e1 _ hf
            exact andThen_mono hf hd (fun r1 e2 hp hd1 => IH e1 y r1 e2 hp hd1)
              (fun v e2 _ hf2 => hf2)

/-! ### corollaries -/

/-- nesting budget under which the code and bash cannot differ by their different limits -/
def codeDepth : Nat := 99

theorem eval_eq_spec_core (fuel : Nat) (env : Env) (e : Expr) (r : Res) (env' : Env)
    (hwf : WF e = true) (henv : EnvOK env) (hlit : LitsOK e)
    (h : specEval fuel codeDepth env e = (r, env')) (hd : r.good) :
    evalArith env e = (r, env') ∧ specEval fuel bashMaxDepth env e = (r, env') ∧ EnvOK env' ∧
      (∀ v, r = .ok v → inI64 v = true) := by
  obtain ⟨a, b, c⟩ := (eval_main fuel).1 maxNameRefDepth codeDepth env e r env' (by decide) (by decide)
    hwf henv hlit h hd
  exact ⟨a, specEval_depth_mono fuel codeDepth bashMaxDepth env e r env' (by decide) h hd,
    EnvOK_stable henv b, c⟩

theorem status_arithCmd_eq_spec_core (fuel : Nat) (env : Env) (e : Expr)
    (hwf : WF e = true) (henv : EnvOK env) (hlit : LitsOK e)
    (hd : (specEval fuel codeDepth env e).1.good) :
    arithCmdStatus env e = specArithCmdStatus fuel env e := by
  obtain ⟨r, env', hs⟩ : ∃ r env', specEval fuel codeDepth env e = (r, env') := ⟨_, _, rfl⟩
  rw [hs] at hd
  obtain ⟨hm, hb, _, _⟩ := eval_eq_spec_core fuel env e r env' hwf henv hlit hs hd
  unfold arithCmdStatus runnerArithm specArithCmdStatus
  rw [hm, hb]
  cases r <;> rfl

theorem status_expansion_eq_spec_core (fuel : Nat) (env : Env) (e : Expr)
    (hwf : WF e = true) (henv : EnvOK env) (hlit : LitsOK e)
    (hd : (specEval fuel codeDepth env e).1.good)
    (herr : (∃ v, (specEval fuel codeDepth env e).1 = .ok v) ∨
      (specEval fuel codeDepth env e).1 = .err .divZero ∨
      (specEval fuel codeDepth env e).1 = .err .negExp) :
    expansionStatus env e = specExpansionStatus fuel env e := by
  obtain ⟨r, env', hs⟩ : ∃ r env', specEval fuel codeDepth env e = (r, env') := ⟨_, _, rfl⟩
  rw [hs] at hd herr
  obtain ⟨hm, hb, _, _⟩ := eval_eq_spec_core fuel env e r env' hwf henv hlit hs hd
  unfold expansionStatus specExpansionStatus
  rw [hm, hb]
  rcases herr with ⟨v, hv⟩ | hv | hv <;> simp only at hv <;> subst hv <;> rfl

/-- the arguments of a `let`, each in the environment the previous ones leave, stay inside the domain -/
def LetDomain (fuel : Nat) : Env → List Expr → Prop
  | _, [] => True
  | env, e :: rest =>
    WF e = true ∧ LitsOK e ∧ (specEval fuel codeDepth env e).1.good ∧
      (∀ v, (specEval fuel codeDepth env e).1 = .ok v →
        LetDomain fuel (specEval fuel codeDepth env e).2 rest)

theorem letLoop_eq_spec (fuel : Nat) : ∀ (es : List Expr) (env : Env) (val : Int), EnvOK env →
    LetDomain fuel env es →
    letLoop env val es = (((specLetLoop fuel env val es).1).getD 0, (specLetLoop fuel env val es).2)
  | [], env, val, _, _ => rfl
  | e :: rest, env, val, henv, hdom => by
    obtain ⟨hwf, hlit, hd, hnext⟩ := hdom
    obtain ⟨r, env', hs⟩ : ∃ r env', specEval fuel codeDepth env e = (r, env') := ⟨_, _, rfl⟩
    rw [hs] at hd hnext
    obtain ⟨hm, hb, henv', _⟩ := eval_eq_spec_core fuel env e r env' hwf henv hlit hs hd
    rw [letLoop, specLetLoop]
    unfold runnerArithm
    rw [hm, hb]
    cases r with
    | ok v =>
      simp only []
      exact letLoop_eq_spec fuel rest env' v henv' (hnext v rfl)
    | err er => rfl
    | panic => rfl

theorem status_let_eq_spec_core (fuel : Nat) (env : Env) (es : List Expr) (henv : EnvOK env)
    (hdom : LetDomain fuel env es) : letStatus env es = specLetStatus fuel env es := by
  unfold letStatus specLetStatus
  rw [letLoop_eq_spec fuel es env 0 henv hdom]
  cases h : specLetLoop fuel env 0 es with
  | mk o env2 =>
    cases o <;> rfl

/-- `x=x`: the specification runs into bash's recursion limit whatever the fuel. -/
theorem cycle_recursion_gen (env : Env) (hx : env.get [120] = [120]) : ∀ (D fuel : Nat), D < fuel →
    specEval fuel D env (.word [120]) = (.err .recursion, env)
  | D, 0, h => by omega
  | 0, fuel + 1, _ => by
    rw [specEval_word, if_pos (by decide), hx, if_neg (by decide),
      show parseText [120] = some (some (.word [120])) from by decide]
  | D + 1, fuel + 1, h => by
    rw [specEval_word, if_pos (by decide), hx, if_neg (by decide),
      show parseText [120] = some (some (.word [120])) from by decide]
    exact cycle_recursion_gen env hx D fuel (by omega)

end ShVerif.C20

