import ShVerif.Proofs.C20Lex
/-
  C20: the evaluator model equals the bash specification on the property's domain, under the
  hypotheses EnvOK / LitsOK / LvalsOK (eval_eq_spec_partial).
-/
namespace ShVerif.C20

/-- The environment only changed by storing decimal texts. -/
def Stable (g g' : Bytes → Bytes) : Prop := ∀ n, g' n = g n ∨ ∃ v, g' n = fmtInt v

theorem Stable.refl (g : Bytes → Bytes) : Stable g g := fun _ => Or.inl rfl

theorem Stable.trans {g1 g2 g3 : Bytes → Bytes} (h12 : Stable g1 g2) (h23 : Stable g2 g3) :
    Stable g1 g3 := by
  intro n
  rcases h23 n with h | ⟨v, h⟩
  · rcases h12 n with h' | ⟨v, h'⟩
    · exact Or.inl (h.trans h')
    · exact Or.inr ⟨v, h.trans h'⟩
  · exact Or.inr ⟨v, h⟩

theorem setVar_stable {env env' : Env} {n : Bytes} {v : Int} {r : Res}
    (h : setVar env n v = (r, env')) : Stable env.get env'.get := by
  unfold setVar at h
  split at h
  · cases h; exact Stable.refl _
  · rename_i e2 hset
    cases h
    unfold Env.set at hset
    split at hset
    · cases hset
    · cases hset
      intro m
      by_cases hm : m = n
      · right; exact ⟨v, by simp [hm]⟩
      · left; simp [hm]

theorem setVar_ok {env env' : Env} {n : Bytes} {v : Int} {r : Res}
    (h : setVar env n v = (r, env')) : ∀ w, r = .ok w → w = v := by
  unfold setVar at h
  split at h
  · cases h; intro w hw; cases hw
  · cases h; intro w hw; cases hw; rfl

theorem intLit_of_stable {g g' : Bytes → Bytes} (hs : Stable g g') {n : Bytes}
    (h : g n = [] ∨ ∃ neg k, IntLit (g n) neg k) : g' n = [] ∨ ∃ neg k, IntLit (g' n) neg k := by
  rcases hs n with e | ⟨v, e⟩
  · rw [e]; exact h
  · right; rw [e]; exact ⟨_, _, fmtInt_intLit v⟩

theorem LvalsOK_stable {g g' : Bytes → Bytes} (hs : Stable g g') :
    ∀ e, LvalsOK g e → LvalsOK g' e := by
  intro e
  induction e with
  | word w => intro _; trivial
  | paren x ih => intro h; simp only [LvalsOK] at h ⊢; exact ih h
  | unary op post x ih =>
    intro h
    simp only [LvalsOK] at h ⊢
    split
    · rename_i hinc
      rw [if_pos hinc] at h
      cases hw : wordOf x with
      | none => trivial
      | some n => rw [hw] at h; exact intLit_of_stable hs h
    · rename_i hinc
      rw [if_neg hinc] at h
      exact ih h
  | binary op x y ihx ihy =>
    intro h
    simp only [LvalsOK] at h ⊢
    refine ⟨?_, ihy h.2⟩
    split
    · rename_i ha
      have h1 := h.1
      rw [if_pos ha] at h1
      cases hw : wordOf x with
      | none => trivial
      | some n => rw [hw] at h1; exact intLit_of_stable hs h1
    · rename_i ha
      have h1 := h.1
      rw [if_neg ha] at h1
      exact ihx h1

theorem reaches_stable {g g' : Bytes → Bytes} (hs : Stable g g') :
    ∀ {d n neg k}, Reaches g d n neg k → ∃ d' neg' k', d' ≤ d ∧ Reaches g' d' n neg' k' := by
  intro d n neg k h
  induction h with
  | unset n hn =>
    rcases hs n with e | ⟨v, e⟩
    · exact ⟨0, false, 0, Nat.le_refl _, Reaches.unset n (e.trans hn)⟩
    · exact ⟨0, _, _, Nat.le_refl _, Reaches.lit n _ _ (by rw [e]; exact fmtInt_intLit v)⟩
  | lit n neg k hl =>
    rcases hs n with e | ⟨v, e⟩
    · exact ⟨0, neg, k, Nat.le_refl _, Reaches.lit n neg k (by rw [e]; exact hl)⟩
    · exact ⟨0, _, _, Nat.le_refl _, Reaches.lit n _ _ (by rw [e]; exact fmtInt_intLit v)⟩
  | step d n neg k hv _ ih =>
    rcases hs n with e | ⟨v, e⟩
    · obtain ⟨d', neg', k', hle, hr⟩ := ih
      exact ⟨d' + 1, neg', k', by omega, Reaches.step d' n neg' k' (by rw [e]; exact hv)
        (by rw [e]; exact hr)⟩
    · exact ⟨0, _, _, Nat.zero_le _, Reaches.lit n _ _ (by rw [e]; exact fmtInt_intLit v)⟩

theorem EnvOK_stable {env env' : Env} (h : EnvOK env) (hs : Stable env.get env'.get) : EnvOK env' := by
  intro n hn
  obtain ⟨d, neg, k, hd, hr⟩ := h n hn
  obtain ⟨d', neg', k', hle, hr'⟩ := reaches_stable hs hr
  exact ⟨d', neg', k', by omega, hr'⟩

/-! ### words -/

theorem specEval_word (fuel D : Nat) (env : Env) (w : Bytes) :
    specEval (fuel + 1) D env (.word w) =
      if validName w then
        if env.get w = [] then (.ok 0, env)
        else match parseText (env.get w) with
          | none => (.err .syntaxErr, env)
          | some none => (.ok 0, env)
          | some (some e') =>
            match D with
            | 0 => (.err .recursion, env)
            | D' + 1 => specEval fuel D' env e'
      else match specNumber w with
        | some n => (chk (Int.ofNat n), env)
        | none => (.err .badNumber, env) := by
  rw [specEval]
  rfl

theorem specEval_zero (D : Nat) (env : Env) (e : Expr) : specEval 0 D env e = (.err .fuel, env) := by
  rw [specEval]

theorem lit_not_name {lit : Bytes} {n : Nat} (h : specNumber lit = some n) : validName lit = false := by
  have := intLit_not_name (IntLit.pos [] lit [] n (by intro b hb; cases hb) (by intro b hb; cases hb) h)
  simpa using this

theorem chk_nat {n : Nat} {r : Res} (h : chk (Int.ofNat n) = r) (hd : r.inDomain) :
    n < 2 ^ 63 ∧ r = .ok (Int.ofNat n) := by
  obtain ⟨hv, hr⟩ := chk_ok h hd
  rw [inI64_iff, Int.ofNat_eq_natCast] at hv
  exact ⟨by omega, hr⟩

theorem specEval_lit {lit : Bytes} {n : Nat} (hl : specNumber lit = some n) {fuel D : Nat} {env env' : Env}
    {r : Res} (h : specEval fuel D env (.word lit) = (r, env')) (hd : r.inDomain) :
    n < 2 ^ 63 ∧ r = .ok (Int.ofNat n) ∧ env' = env := by
  cases fuel with
  | zero => rw [specEval_zero] at h; cases h; exact absurd hd (by simp [Res.inDomain])
  | succ f =>
    rw [specEval_word, lit_not_name hl, hl] at h
    simp only [Bool.false_eq_true, if_false] at h
    have h1 := congrArg Prod.fst h
    have h2 := congrArg Prod.snd h
    simp only at h1 h2
    obtain ⟨a, b⟩ := chk_nat h1 hd
    exact ⟨a, b, h2.symm⟩

theorem specEval_unary_plain (fuel D : Nat) (env : Env) (op : UnOp) (x : Expr) :
    ¬ (op = .inc ∨ op = .dec) →
    specEval (fuel + 1) D env (.unary op false x) =
      andThen (specEval fuel D env x) fun v env1 =>
        match op with
        | .not => (.ok (oneIf (v == 0)), env1)
        | .bitNeg => (.ok (-v - 1), env1)
        | .plus => (.ok v, env1)
        | _ => (chk (-v), env1) := by
  intro hop
  rw [specEval]
  simp only [hop, if_false, Bool.false_eq_true]
  rfl

theorem litExpr_spec {e' : Expr} {neg : Bool} {n : Nat} (hl : LitExpr e' neg n) {fuel D : Nat}
    {env env' : Env} {r : Res} (h : specEval fuel D env e' = (r, env')) (hd : r.inDomain) :
    n < 2 ^ 63 ∧ r = .ok (if neg then -(Int.ofNat n) else Int.ofNat n) ∧ env' = env := by
  cases hl with
  | pos lit n hs => simpa using specEval_lit hs h hd
  | plus lit n hs =>
    cases fuel with
    | zero => rw [specEval_zero] at h; cases h; exact absurd hd (by simp [Res.inDomain])
    | succ f =>
      rw [specEval_unary_plain _ _ _ _ _ (by decide)] at h
      cases hx : specEval f D env (.word lit) with
      | mk r1 e1 =>
        rw [hx] at h
        cases r1 with
        | ok v =>
          simp only [andThen_ok] at h
          cases h
          obtain ⟨a, b, c⟩ := specEval_lit hs hx trivial
          cases b
          exact ⟨a, rfl, c⟩
        | err er =>
          simp only [andThen_err] at h
          cases h
          obtain ⟨_, b, _⟩ := specEval_lit hs hx hd
          cases b
        | panic =>
          obtain ⟨_, b, _⟩ := specEval_lit hs hx trivial
          cases b
  | minus lit n hs =>
    cases fuel with
    | zero => rw [specEval_zero] at h; cases h; exact absurd hd (by simp [Res.inDomain])
    | succ f =>
      rw [specEval_unary_plain _ _ _ _ _ (by decide)] at h
      cases hx : specEval f D env (.word lit) with
      | mk r1 e1 =>
        rw [hx] at h
        cases r1 with
        | ok v =>
          simp only [andThen_ok] at h
          obtain ⟨a, b, c⟩ := specEval_lit hs hx trivial
          cases b
          have h1 := congrArg Prod.fst h
          have h2 := congrArg Prod.snd h
          simp only at h1 h2
          obtain ⟨_, hr⟩ := chk_ok h1 hd
          exact ⟨a, by simpa using hr, by rw [← h2, c]⟩
        | err er =>
          simp only [andThen_err] at h
          cases h
          obtain ⟨_, b, _⟩ := specEval_lit hs hx hd
          cases b
        | panic =>
          obtain ⟨_, b, _⟩ := specEval_lit hs hx trivial
          cases b

theorem parseText_nil : parseText [] = some none := by decide

/-- Following a chain of names: the specification (recursive evaluation of the text) and the model
    (`chase` + `atoi`) agree. -/
theorem chain_lemma {env : Env} : ∀ {d : Nat} {n : Bytes} {neg : Bool} {k : Nat},
    Reaches env.get d n neg k → validName n = true →
    ∀ (fuel D hops : Nat) (r : Res) (env' : Env), d + 1 ≤ D → d + 1 ≤ hops →
      specEval fuel D env (.word n) = (r, env') → r.inDomain →
      k < 2 ^ 63 ∧ r = .ok (if neg then -(Int.ofNat k) else Int.ofNat k) ∧ env' = env ∧
        atoi (chase env.get hops n) = (if neg then -(Int.ofNat k) else Int.ofNat k) := by
  intro d n neg k hr
  induction hr with
  | unset n hn =>
    intro hv fuel D hops r env' hD hh h hd
    cases fuel with
    | zero => rw [specEval_zero] at h; cases h; exact absurd hd (by simp [Res.inDomain])
    | succ f =>
      rw [specEval_word, if_pos hv, if_pos hn] at h
      cases h
      obtain ⟨h', rfl⟩ : ∃ h', hops = h' + 1 := ⟨hops - 1, by omega⟩
      rw [chase_succ, if_pos hv, if_pos hn, atoi_name hv]
      exact ⟨by decide, rfl, rfl, rfl⟩
  | lit n neg k hl =>
    intro hv fuel D hops r env' hD hh h hd
    obtain ⟨e', hp, hle⟩ := parseText_intLit hl
    have hne : env.get n ≠ [] := by
      intro he; rw [he, parseText_nil] at hp; cases hp
    cases fuel with
    | zero => rw [specEval_zero] at h; cases h; exact absurd hd (by simp [Res.inDomain])
    | succ f =>
      obtain ⟨D', rfl⟩ : ∃ D', D = D' + 1 := ⟨D - 1, by omega⟩
      obtain ⟨h', rfl⟩ : ∃ h', hops = h' + 1 := ⟨hops - 1, by omega⟩
      rw [specEval_word, if_pos hv, if_neg hne, hp] at h
      simp only [] at h
      obtain ⟨a, b, c⟩ := litExpr_spec hle h hd
      rw [chase_succ, if_pos hv, if_neg hne, chase_not_name _ _ _ (intLit_not_name hl),
        atoi_intLit hl a]
      exact ⟨a, b, c, rfl⟩
  | step d n neg k hvn _ ih =>
    intro hv fuel D hops r env' hD hh h hd
    have hne : env.get n ≠ [] := by
      intro he; rw [he] at hvn; simp [validName] at hvn
    cases fuel with
    | zero => rw [specEval_zero] at h; cases h; exact absurd hd (by simp [Res.inDomain])
    | succ f =>
      obtain ⟨D', rfl⟩ : ∃ D', D = D' + 1 := ⟨D - 1, by omega⟩
      obtain ⟨h', rfl⟩ : ∃ h', hops = h' + 1 := ⟨hops - 1, by omega⟩
      rw [specEval_word, if_pos hv, if_neg hne, parseText_name hvn] at h
      simp only [] at h
      obtain ⟨a, b, c, e⟩ := ih hvn f D' h' r env' (by omega) (by omega) h hd
      rw [chase_succ, if_pos hv, if_neg hne]
      exact ⟨a, b, c, e⟩

/-! ### unfolding equations -/

theorem specEval_paren (fuel D : Nat) (env : Env) (x : Expr) :
    specEval (fuel + 1) D env (.paren x) = specEval fuel D env x := by
  rw [specEval]

theorem specEval_incdec (fuel D : Nat) (env : Env) (op : UnOp) (post : Bool) (n : Bytes) :
    (op = .inc ∨ op = .dec) → validName n = true →
    specEval (fuel + 1) D env (.unary op post (.word n)) =
      andThen (specEval fuel D env (.word n)) fun old env1 =>
        if inI64 (if op = .inc then old + 1 else old - 1) then
          andThen (setVar env1 n (if op = .inc then old + 1 else old - 1)) fun _ env2 =>
            (.ok (if post then old else (if op = .inc then old + 1 else old - 1)), env2)
        else (.err .outOfDomain, env1) := by
  intro hop hv
  rw [specEval]
  simp only [hop, if_true, wordOf_name hv, hv]

theorem specEval_assgn (fuel D : Nat) (env : Env) (n : Bytes) (y : Expr) :
    validName n = true →
    specEval (fuel + 1) D env (.binary .assgn (.word n) y) =
      andThen (specEval fuel D env y) fun v env1 => setVar env1 n v := by
  intro hv
  rw [specEval]
  simp [isAssign, wordOf_name hv, hv, assignOp]

theorem specEval_opassign (fuel D : Nat) (env : Env) (op aop : BinOp) (n : Bytes) (y : Expr) :
    assignOp op = some aop → validName n = true →
    specEval (fuel + 1) D env (.binary op (.word n) y) =
      andThen (specEval fuel D env (.word n)) fun cur env1 =>
        andThen (specEval fuel D env1 y) fun arg env2 =>
          match specBin aop cur arg with
          | .ok v => setVar env2 n v
          | r => (r, env2) := by
  intro hop hv
  rw [specEval]
  have : isAssign op = true := (assignOp_plain hop).1
  simp only [this, if_true, wordOf_name hv, hv, hop]
  rfl

theorem specEval_tern (fuel D : Nat) (env : Env) (x t f : Expr) :
    specEval (fuel + 1) D env (.binary .ternQuest x (.binary .ternColon t f)) =
      andThen (specEval fuel D env x) fun c env1 =>
        if c ≠ 0 then specEval fuel D env1 t else specEval fuel D env1 f := by
  rw [specEval]
  simp [isAssign, assignOp, colonParts]

theorem specEval_logic (fuel D : Nat) (env : Env) (op : BinOp) (x y : Expr) :
    (op = .andL ∨ op = .orL) →
    specEval (fuel + 1) D env (.binary op x y) =
      andThen (specEval fuel D env x) fun l env1 =>
        if op = .andL ∧ l = 0 then (.ok 0, env1)
        else if op = .orL ∧ l ≠ 0 then (.ok 1, env1)
        else andThen (specEval fuel D env1 y) fun r env2 => (.ok (oneIf (r != 0)), env2) := by
  intro hop
  rw [specEval]
  rcases hop with rfl | rfl <;> simp [isAssign, assignOp]

theorem plainBin_facts {op : BinOp} (h : plainBin op = true) :
    isAssign op = false ∧ op ≠ .ternQuest ∧ ¬ (op = .andL ∨ op = .orL) := by
  cases op <;> simp [plainBin] at h <;> decide

theorem specEval_plain (fuel D : Nat) (env : Env) (op : BinOp) (x y : Expr) :
    plainBin op = true →
    specEval (fuel + 1) D env (.binary op x y) =
      andThen (specEval fuel D env x) fun l env1 =>
        andThen (specEval fuel D env1 y) fun r env2 => (specBin op l r, env2) := by
  intro hop
  obtain ⟨h1, h2, h3⟩ := plainBin_facts hop
  rw [specEval]
  simp only [h1, Bool.false_eq_true, if_false, h2, h3]

theorem evalArith_incdec (env : Env) (op : UnOp) (post : Bool) (n : Bytes) :
    (op = .inc ∨ op = .dec) → validName n = true →
    evalArith env (.unary op post (.word n)) =
      andThen (setVar env n (if op = .inc then wrap64 (atoi (env.get n) + 1)
          else wrap64 (atoi (env.get n) - 1))) fun _ env' =>
        (.ok (if post then atoi (env.get n) else
          (if op = .inc then wrap64 (atoi (env.get n) + 1) else wrap64 (atoi (env.get n) - 1))), env') := by
  intro hop hv
  rw [evalArith]
  simp only [hop, if_true, wordOf_name hv]

theorem evalArith_unary_plain (env : Env) (op : UnOp) (post : Bool) (x : Expr) :
    ¬ (op = .inc ∨ op = .dec) →
    evalArith env (.unary op post x) =
      andThen (evalArith env x) fun v env' =>
        match op with
        | .not => (.ok (oneIf (v == 0)), env')
        | .bitNeg => (.ok (-v - 1), env')
        | .plus => (.ok v, env')
        | .minus => (.ok (wrap64 (-v)), env')
        | _ => (.err .unsupUnary, env') := by
  intro hop
  rw [evalArith]
  simp only [hop, if_false]
  rfl

theorem evalArith_assgn (env : Env) (n : Bytes) (y : Expr) : validName n = true →
    evalArith env (.binary .assgn (.word n) y) =
      andThen (evalArith env y) fun arg env' => setVar env' n arg := by
  intro hv
  rw [evalArith]
  simp [isAssign, wordOf_name hv, assignOp]

theorem evalArith_opassign (env : Env) (op aop : BinOp) (n : Bytes) (y : Expr) :
    assignOp op = some aop → validName n = true →
    evalArith env (.binary op (.word n) y) =
      andThen (evalArith env y) fun arg env' =>
        match binArit aop (atoi (env.get n)) arg with
        | .ok v => setVar env' n v
        | e => (e, env') := by
  intro hop hv
  rw [evalArith]
  have : isAssign op = true := (assignOp_plain hop).1
  simp only [this, if_true, wordOf_name hv, hop]
  rfl

theorem evalArith_tern (env : Env) (x t f : Expr) :
    evalArith env (.binary .ternQuest x (.binary .ternColon t f)) =
      andThen (evalArith env x) fun c env1 =>
        if c ≠ 0 then evalArith env1 t else evalArith env1 f := by
  rw [evalArith]
  simp [isAssign, assignOp, evalTernBranch]

theorem evalArith_logic (env : Env) (op : BinOp) (x y : Expr) :
    (op = .andL ∨ op = .orL) →
    evalArith env (.binary op x y) =
      andThen (evalArith env x) fun l env1 =>
        if op = .andL ∧ l = 0 then (.ok 0, env1)
        else if op = .orL ∧ l ≠ 0 then (.ok 1, env1)
        else andThen (evalArith env1 y) fun r env2 => (.ok (oneIf (r != 0)), env2) := by
  intro hop
  rw [evalArith]
  rcases hop with rfl | rfl <;> simp [isAssign, assignOp]

theorem evalArith_plain (env : Env) (op : BinOp) (x y : Expr) :
    plainBin op = true →
    evalArith env (.binary op x y) =
      andThen (evalArith env x) fun l env1 =>
        andThen (evalArith env1 y) fun r env2 => (binArit op l r, env2) := by
  intro hop
  obtain ⟨h1, h2, h3⟩ := plainBin_facts hop
  rw [evalArith]
  simp only [h1, Bool.false_eq_true, if_false, h2, h3]

/-! ### the main induction -/

/-- what the induction establishes for one evaluation -/
def Good (g : Bytes → Bytes) (pm : Res × Env) (r : Res) (env' : Env) : Prop :=
  pm = (r, env') ∧ Stable g env'.get ∧ (∀ w, r = .ok w → inI64 w = true)

theorem step {g : Bytes → Bytes} {ps pm : Res × Env} {fs fm : Int → Env → Res × Env} {r : Res}
    {env' : Env} (hs : andThen ps fs = (r, env')) (hd : r.inDomain)
    (hsub : ∀ r1 e1, ps = (r1, e1) → r1.inDomain → Good g pm r1 e1)
    (hcont : ∀ v e1, ps = (.ok v, e1) → inI64 v = true → Stable g e1.get → fs v e1 = (r, env') →
      Good g (fm v e1) r env') :
    Good g (andThen pm fm) r env' := by
  obtain ⟨r1, e1⟩ := ps
  cases r1 with
  | ok v =>
    obtain ⟨h1, h2, h3⟩ := hsub (.ok v) e1 rfl trivial
    rw [h1, andThen_ok]
    exact hcont v e1 rfl (h3 v rfl) h2 (by simpa using hs)
  | err er =>
    simp only [andThen_err] at hs
    have h1' := congrArg Prod.fst hs
    have h2' := congrArg Prod.snd hs
    simp only at h1' h2'
    subst h1' h2'
    obtain ⟨h1, h2, _⟩ := hsub (.err er) e1 rfl hd
    rw [h1, andThen_err]
    exact ⟨rfl, h2, fun w hw => by cases hw⟩
  | panic =>
    simp only [andThen_panic] at hs
    have h1' := congrArg Prod.fst hs
    have h2' := congrArg Prod.snd hs
    simp only at h1' h2'
    subst h1' h2'
    obtain ⟨h1, h2, _⟩ := hsub .panic e1 rfl hd
    rw [h1, andThen_panic]
    exact ⟨rfl, h2, fun w hw => by cases hw⟩

theorem good_setVar {g : Bytes → Bytes} {env1 env' : Env} {n : Bytes} {v : Int} {r : Res}
    (hst : Stable g env1.get) (hv : inI64 v = true) (h : setVar env1 n v = (r, env')) :
    Good g (setVar env1 n v) r env' :=
  ⟨h, hst.trans (setVar_stable h), fun w hw => by rw [setVar_ok h w hw]; exact hv⟩

theorem inI64_sval {neg : Bool} {k : Nat} (hk : k < 2 ^ 63) :
    inI64 (if neg then -(Int.ofNat k) else Int.ofNat k) = true := by
  rw [inI64_iff, Int.ofNat_eq_natCast]
  cases neg <;> simp <;> omega

theorem isNameWord_elim' {x : Expr} (h : isNameWord x = true) : ∃ n, x = .word n ∧ validName n = true := by
  cases x <;> simp [isNameWord] at h
  exact ⟨_, rfl, h⟩

/-- reading an `op=`/`++`/`--` target: specification and `atoi` agree -/
theorem lval_read {env : Env} {n : Bytes} (hv : validName n = true)
    (hl : env.get n = [] ∨ ∃ neg k, IntLit (env.get n) neg k)
    {fuel D : Nat} (hD : 1 ≤ D) {r1 : Res} {e1 : Env}
    (h : specEval fuel D env (.word n) = (r1, e1)) (hd : r1.inDomain) :
    r1 = .ok (atoi (env.get n)) ∧ e1 = env ∧ inI64 (atoi (env.get n)) = true := by
  rcases hl with he | ⟨neg, k, hl⟩
  · obtain ⟨a, b, c, _⟩ := chain_lemma (Reaches.unset n he) hv fuel D 1 r1 e1 (by omega) (by omega) h hd
    rw [he, atoi_nil]
    exact ⟨by simpa using b, c, by decide⟩
  · obtain ⟨a, b, c, _⟩ := chain_lemma (Reaches.lit n neg k hl) hv fuel D 1 r1 e1 (by omega) (by omega) h hd
    rw [atoi_intLit hl a]
    exact ⟨b, c, inI64_sval a⟩

theorem specBin_plain_ne {op : BinOp} (hop : plainBin op = true) (x y : Int) :
    specBin op x y ≠ .err .syntaxErr ∧ specBin op x y ≠ .panic := by
  cases op <;> simp [plainBin] at hop <;> simp only [specBin, chk, specPow] <;>
    (constructor <;> repeat' split) <;> simp

theorem assignOp_plainBin {op aop : BinOp} (h : assignOp op = some aop) : plainBin aop = true := by
  cases op <;> simp [assignOp] at h <;> subst h <;> rfl

theorem good_binArit {g : Bytes → Bytes} {op : BinOp} {l rr : Int} {e2 env' : Env} {r : Res}
    (hop : plainBin op = true) (hl : inI64 l = true) (hrr : inI64 rr = true)
    (hst : Stable g e2.get) (hf : (specBin op l rr, e2) = (r, env')) (hd : r.inDomain) :
    Good g (binArit op l rr, e2) r env' := by
  have h1 := congrArg Prod.fst hf
  have h2 := congrArg Prod.snd hf
  simp only at h1 h2
  subst h2
  have hb := binArit_eq_spec hrr h1 hd (by rw [← h1]; exact (specBin_plain_ne hop l rr).1)
  refine ⟨by rw [hb], hst, fun w hw => ?_⟩
  rw [hw] at h1
  exact specBin_inI64 hl hrr h1

theorem pair_eq {r1 r : Res} {e1 env' : Env} (h : (r1, e1) = (r, env')) : r1 = r ∧ e1 = env' := by
  cases h; exact ⟨rfl, rfl⟩

theorem eval_main (D : Nat) (hD : 98 ≤ D) : ∀ (fuel : Nat) (env : Env) (e : Expr) (r : Res) (env' : Env),
    WF e = true → EnvOK env → LitsOK e → LvalsOK env.get e →
    specEval fuel D env e = (r, env') → r.inDomain →
    Good env.get (evalArith env e) r env'
  | 0, env, e, r, env', _, _, _, _, h, hd => by
    rw [specEval_zero] at h; cases h; exact absurd hd (by simp [Res.inDomain])
  | fuel + 1, env, e, r, env', hwf, henv, hlit, hlv, h, hd => by
    have IH := eval_main D hD fuel
    have IH' : ∀ (e1 : Env) (x : Expr) (r1 : Res) (e2 : Env), Stable env.get e1.get →
        WF x = true → LitsOK x → LvalsOK env.get x → specEval fuel D e1 x = (r1, e2) →
        r1.inDomain → Good env.get (evalArith e1 x) r1 e2 := by
      intro e1 x r1 e2 hst hw hl hv hp hd1
      obtain ⟨a, b, c⟩ := IH e1 x r1 e2 hw (EnvOK_stable henv hst) hl (LvalsOK_stable hst x hv) hp hd1
      exact ⟨a, hst.trans b, c⟩
    cases e with
    | word w =>
      by_cases hv : validName w = true
      · obtain ⟨d, neg, k, hd97, hr⟩ := henv w hv
        obtain ⟨a, b, c, e⟩ := chain_lemma hr hv (fuel + 1) D 99 r env' (by omega) (by omega) h hd
        rw [evalArith_word, e]
        subst b c
        exact ⟨rfl, Stable.refl _, fun w hw => by cases hw; exact inI64_sval a⟩
      · rcases hlit with hl | ⟨n, hn⟩
        · exact absurd hl hv
        · obtain ⟨a, b, c⟩ := specEval_lit hn h hd
          rw [evalArith_word, chase_not_name _ _ _ (by simpa using hv), atoi_lit hn a]
          subst b c
          refine ⟨rfl, Stable.refl _, fun w hw => ?_⟩
          cases hw
          exact inI64_sval (neg := false) a
    | paren x =>
      rw [specEval_paren] at h
      rw [evalArith]
      exact IH env x r env' (by simpa [WF] using hwf) henv hlit hlv h hd
    | unary op post x =>
      by_cases hinc : op = .inc ∨ op = .dec
      · simp only [WF, hinc, if_true] at hwf
        obtain ⟨n, rfl, hvn⟩ := isNameWord_elim' hwf
        simp only [LvalsOK, hinc, if_true, wordOf_name hvn] at hlv
        rw [specEval_incdec _ _ _ _ _ _ hinc hvn] at h
        rw [evalArith_incdec _ _ _ _ hinc hvn]
        cases hps : specEval fuel D env (.word n) with
        | mk r1 e1 =>
          rw [hps] at h
          cases r1 with
          | ok old =>
            obtain ⟨b, c, i⟩ := lval_read hvn hlv (by omega) hps trivial
            cases b
            subst c
            simp only [andThen_ok] at h
            have hw : (if op = UnOp.inc then wrap64 (atoi (e1.get n) + 1)
                else wrap64 (atoi (e1.get n) - 1)) =
                wrap64 (if op = UnOp.inc then atoi (e1.get n) + 1 else atoi (e1.get n) - 1) := by
              split <;> rfl
            rw [hw]
            generalize (if op = UnOp.inc then atoi (e1.get n) + 1 else atoi (e1.get n) - 1) = val at h ⊢
            by_cases hval : inI64 val = true
            · rw [if_pos hval] at h
              rw [wrap64_eq hval]
              obtain ⟨r2, e2, hsv⟩ : ∃ r2 e2, setVar e1 n val = (r2, e2) := ⟨_, _, rfl⟩
              · have hst := setVar_stable hsv
                rw [hsv] at h ⊢
                cases r2 with
                | ok v2 =>
                  simp only [andThen_ok] at h ⊢
                  obtain ⟨a, b⟩ := pair_eq h
                  subst a b
                  refine ⟨rfl, hst, fun w hw2 => ?_⟩
                  cases hw2
                  cases post
                  · simpa using hval
                  · simpa using i
                | err er =>
                  simp only [andThen_err] at h ⊢
                  obtain ⟨a, b⟩ := pair_eq h
                  subst a b
                  exact ⟨rfl, hst, fun w hw2 => by cases hw2⟩
                | panic =>
                  simp only [andThen_panic] at h ⊢
                  obtain ⟨a, b⟩ := pair_eq h
                  subst a b
                  exact ⟨rfl, hst, fun w hw2 => by cases hw2⟩
            · rw [if_neg hval] at h
              have := (pair_eq h).1
              rw [← this] at hd
              exact absurd hd (by simp [Res.inDomain])
          | err er =>
            simp only [andThen_err] at h
            have := (pair_eq h).1
            rw [← this] at hd
            obtain ⟨b, _, _⟩ := lval_read hvn hlv (by omega) hps hd
            cases b
          | panic =>
            obtain ⟨b, _, _⟩ := lval_read hvn hlv (by omega) hps trivial
            cases b
      · simp only [WF, hinc, if_false, Bool.and_eq_true, Bool.not_eq_true'] at hwf
        obtain ⟨hpost, hwx⟩ := hwf
        subst hpost
        simp only [LvalsOK, hinc, if_false] at hlv
        rw [specEval_unary_plain _ _ _ _ _ hinc] at h
        rw [evalArith_unary_plain _ _ _ _ hinc]
        refine step h hd (fun r1 e1 hp hd1 => IH env x r1 e1 hwx henv hlit hlv hp hd1) ?_
        intro v e1 hp hv hst hf
        cases op with
        | inc => exact absurd (Or.inl rfl) hinc
        | dec => exact absurd (Or.inr rfl) hinc
        | not =>
          simp only [] at hf ⊢
          obtain ⟨a, b⟩ := pair_eq hf
          subst a b
          exact ⟨rfl, hst, fun w hw => by cases hw; exact oneIf_inI64 _⟩
        | bitNeg =>
          simp only [] at hf ⊢
          obtain ⟨a, b⟩ := pair_eq hf
          subst a b
          refine ⟨rfl, hst, fun w hw => ?_⟩
          cases hw
          rw [inI64_iff] at hv ⊢
          omega
        | plus =>
          simp only [] at hf ⊢
          obtain ⟨a, b⟩ := pair_eq hf
          subst a b
          exact ⟨rfl, hst, fun w hw => by cases hw; exact hv⟩
        | minus =>
          simp only [] at hf ⊢
          obtain ⟨a, b⟩ := pair_eq hf
          subst b
          obtain ⟨hi, hr⟩ := chk_ok a hd
          subst hr
          rw [wrap64_eq hi]
          exact ⟨rfl, hst, fun w hw => by cases hw; exact hi⟩
    | binary op x y =>
      have hlitx : LitsOK x := hlit.1
      have hlity : LitsOK y := hlit.2
      have hlvy : LvalsOK env.get y := hlv.2
      by_cases hass : op = .assgn ∨ (assignOp op).isSome = true
      · simp only [WF, hass, if_true, Bool.and_eq_true] at hwf
        obtain ⟨n, rfl, hvn⟩ := isNameWord_elim' hwf.1
        cases hop : assignOp op with
        | none =>
          have hopa : op = .assgn := by
            rcases hass with h1 | h1
            · exact h1
            · rw [hop] at h1; cases h1
          subst hopa
          rw [specEval_assgn _ _ _ _ _ hvn] at h
          rw [evalArith_assgn _ _ _ hvn]
          refine step h hd (fun r1 e1 hp hd1 => IH env y r1 e1 hwf.2 henv hlity hlvy hp hd1) ?_
          intro v e1 hp hv hst hf
          exact good_setVar hst hv hf
        | some aop =>
          have hlvn : env.get n = [] ∨ ∃ neg k, IntLit (env.get n) neg k := by
            have := hlv.1
            simp only [hop, Option.isSome_some, if_true, wordOf_name hvn] at this
            exact this
          have hpl := assignOp_plainBin hop
          rw [specEval_opassign _ _ _ _ _ _ _ hop hvn] at h
          rw [evalArith_opassign _ _ _ _ _ hop hvn]
          obtain ⟨r1, e1, hps⟩ : ∃ r1 e1, specEval fuel D env (.word n) = (r1, e1) := ⟨_, _, rfl⟩
          rw [hps] at h
          cases r1 with
          | ok cur =>
            obtain ⟨b, c, i⟩ := lval_read hvn hlvn (by omega) hps trivial
            cases b
            subst c
            simp only [andThen_ok] at h
            refine step h hd (fun r1 e2 hp hd1 => IH e1 y r1 e2 hwf.2 henv hlity hlvy hp hd1) ?_
            intro arg e2 hp harg hst hf
            obtain ⟨sb, hsb⟩ : ∃ sb, specBin aop (atoi (e1.get n)) arg = sb := ⟨_, rfl⟩
            rw [hsb] at hf
            cases sb with
            | ok v =>
              simp only [] at hf
              rw [binArit_eq_spec harg hsb trivial (by simp)]
              exact good_setVar hst (specBin_inI64 i harg hsb) hf
            | err er =>
              simp only [] at hf
              obtain ⟨a, b⟩ := pair_eq hf
              subst a b
              rw [binArit_eq_spec harg hsb hd (by rw [← hsb]; exact (specBin_plain_ne hpl _ _).1)]
              exact ⟨rfl, hst, fun w hw => by cases hw⟩
            | panic => exact absurd hsb (specBin_plain_ne hpl _ _).2
          | err er =>
            simp only [andThen_err] at h
            have := (pair_eq h).1
            rw [← this] at hd
            obtain ⟨b, _, _⟩ := lval_read hvn hlvn (by omega) hps hd
            cases b
          | panic =>
            obtain ⟨b, _, _⟩ := lval_read hvn hlvn (by omega) hps trivial
            cases b
      · have hlvx : LvalsOK env.get x := by
          have := hlv.1
          have hn : ¬ ((assignOp op).isSome = true) := fun h1 => hass (Or.inr h1)
          simp only [hn, if_false] at this
          exact this
        simp only [WF, hass, if_false] at hwf
        by_cases ht : op = .ternQuest
        · subst ht
          simp only [if_true, Bool.and_eq_true] at hwf
          obtain ⟨hwx, hwc⟩ := hwf
          cases y with
          | word _ => simp [WFColon] at hwc
          | paren _ => simp [WFColon] at hwc
          | unary _ _ _ => simp [WFColon] at hwc
          | binary op2 t f =>
            simp only [WFColon, Bool.and_eq_true, beq_iff_eq] at hwc
            obtain ⟨⟨hop2, hwt⟩, hwff⟩ := hwc
            subst hop2
            have hlvt : LvalsOK env.get t := hlvy.1
            have hlvf : LvalsOK env.get f := hlvy.2
            rw [specEval_tern] at h
            rw [evalArith_tern]
            refine step h hd (fun r1 e1 hp hd1 => IH env x r1 e1 hwx henv hlitx hlvx hp hd1) ?_
            intro c e1 hp hc hst hf
            by_cases hc0 : c ≠ 0
            · rw [if_pos hc0] at hf ⊢
              exact IH' e1 t r env' hst hwt hlity.1 hlvt hf hd
            · rw [if_neg hc0] at hf ⊢
              exact IH' e1 f r env' hst hwff hlity.2 hlvf hf hd
        · simp only [ht, if_false] at hwf
          by_cases hl : op = .andL ∨ op = .orL
          · simp only [hl, if_true, Bool.and_eq_true] at hwf
            rw [specEval_logic _ _ _ _ _ _ hl] at h
            rw [evalArith_logic _ _ _ _ hl]
            refine step h hd (fun r1 e1 hp hd1 => IH env x r1 e1 hwf.1 henv hlitx hlvx hp hd1) ?_
            intro l e1 hp hlv1 hst hf
            by_cases c1 : op = .andL ∧ l = 0
            · rw [if_pos c1] at hf ⊢
              obtain ⟨a, b⟩ := pair_eq hf
              subst a b
              exact ⟨rfl, hst, fun w hw => by cases hw; decide⟩
            · rw [if_neg c1] at hf ⊢
              by_cases c2 : op = .orL ∧ l ≠ 0
              · rw [if_pos c2] at hf ⊢
                obtain ⟨a, b⟩ := pair_eq hf
                subst a b
                exact ⟨rfl, hst, fun w hw => by cases hw; decide⟩
              · rw [if_neg c2] at hf ⊢
                refine step hf hd (fun r1 e2 hp2 hd1 => IH' e1 y r1 e2 hst hwf.2 hlity hlvy hp2 hd1) ?_
                intro rr e2 hp2 hrr hst2 hf2
                obtain ⟨a, b⟩ := pair_eq hf2
                subst a b
                exact ⟨rfl, hst2, fun w hw => by cases hw; exact oneIf_inI64 _⟩
          · simp only [hl, if_false, Bool.and_eq_true] at hwf
            obtain ⟨⟨hpl, hwx⟩, hwy⟩ := hwf
            rw [specEval_plain _ _ _ _ _ _ hpl] at h
            rw [evalArith_plain _ _ _ _ hpl]
            refine step h hd (fun r1 e1 hp hd1 => IH env x r1 e1 hwx henv hlitx hlvx hp hd1) ?_
            intro l e1 hp hl1 hst hf
            refine step hf hd (fun r1 e2 hp2 hd1 => IH' e1 y r1 e2 hst hwy hlity hlvy hp2 hd1) ?_
            intro rr e2 hp2 hrr hst2 hf2
            exact good_binArit hpl hl1 hrr hst2 hf2 hd

theorem eval_eq_spec_core (fuel : Nat) (env : Env) (e : Expr) (r : Res) (env' : Env)
    (hwf : WF e = true) (henv : EnvOK env) (hlit : LitsOK e) (hlv : LvalsOK env.get e)
    (h : specEval fuel bashMaxDepth env e = (r, env')) (hd : r.inDomain) :
    evalArith env e = (r, env') :=
  (eval_main bashMaxDepth (by decide) fuel env e r env' hwf henv hlit hlv h hd).1

/-- On the same domain every value fits int64 (no wrap-around is ever observed). -/
theorem eval_inI64_core (fuel : Nat) (env : Env) (e : Expr) (v : Int) (env' : Env)
    (hwf : WF e = true) (henv : EnvOK env) (hlit : LitsOK e) (hlv : LvalsOK env.get e)
    (h : specEval fuel bashMaxDepth env e = (.ok v, env')) : inI64 v = true :=
  (eval_main bashMaxDepth (by decide) fuel env e _ env' hwf henv hlit hlv h trivial).2.2 v rfl

theorem status_arithCmd_eq_spec_core (fuel : Nat) (env : Env) (e : Expr)
    (hwf : WF e = true) (henv : EnvOK env) (hlit : LitsOK e) (hlv : LvalsOK env.get e)
    (hd : (specEval fuel bashMaxDepth env e).1.inDomain) :
    arithCmdStatus env e = specArithCmdStatus fuel env e := by
  obtain ⟨r, env', hs⟩ : ∃ r env', specEval fuel bashMaxDepth env e = (r, env') := ⟨_, _, rfl⟩
  rw [hs] at hd
  have hm := eval_eq_spec_core fuel env e r env' hwf henv hlit hlv hs hd
  unfold arithCmdStatus runnerArithm specArithCmdStatus
  rw [hm, hs]
  cases r <;> rfl

/-- `x=x`: the specification runs into bash's recursion limit whatever the fuel. -/
theorem cycle_recursion_gen (env : Env) (hx : env.get [120] = [120]) : ∀ (D fuel : Nat), D < fuel →
    specEval fuel D env (.word [120]) = (.err .recursion, env)
  | D, 0, h => by omega
  | 0, fuel + 1, _ => by
    rw [specEval_word, if_pos (by decide), hx, if_neg (by decide),
      show parseText [120] = some (some (.word [120])) from by decide]
  | D + 1, fuel + 1, h => by
    rw [specEval_word, if_pos (by decide), hx, if_neg (by decide),
      show parseText [120] = some (some (.word [120])) from by decide]
    exact cycle_recursion_gen env hx D fuel (by omega)

end ShVerif.C20
