import ShVerif.Proofs.C20Lex
/-
  C20: the evaluator model equals the bash specification on the property's domain, under the
  hypotheses EnvOK / LitsOK / LvalsOK (eval_eq_spec_partial).
-/
namespace ShVerif.C20

/-- The environment only changed by storing decimal texts. -/
def Stable (g g' : Bytes → Bytes) : Prop := ∀ n, g' n = g n ∨ ∃ v, g' n = fmtInt v

theorem Stable.refl (g : Bytes → Bytes) : Stable g g := fun _ => Or.inl rfl

theorem Stable.trans {g1 g2 g3 : Bytes → Bytes} (h12 : Stable g1 g2) (h23 : Stable g2 g3) :
    Stable g1 g3 := by
  intro n
  rcases h23 n with h | ⟨v, h⟩
  · rcases h12 n with h' | ⟨v, h'⟩
    · exact Or.inl (h.trans h')
    · exact Or.inr ⟨v, h.trans h'⟩
  · exact Or.inr ⟨v, h⟩

theorem setVar_stable {env env' : Env} {n : Bytes} {v : Int} {r : Res}
    (h : setVar env n v = (r, env')) : Stable env.get env'.get := by
  unfold setVar at h
  split at h
  · cases h; exact Stable.refl _
  · rename_i e2 hset
    cases h
    unfold Env.set at hset
    split at hset
    · cases hset
    · cases hset
      intro m
      by_cases hm : m = n
      · right; exact ⟨v, by simp [hm]⟩
      · left; simp [hm]

theorem setVar_ok {env env' : Env} {n : Bytes} {v : Int} {r : Res}
    (h : setVar env n v = (r, env')) : ∀ w, r = .ok w → w = v := by
  unfold setVar at h
  split at h
  · cases h; intro w hw; cases hw
  · cases h; intro w hw; cases hw; rfl

theorem intLit_of_stable {g g' : Bytes → Bytes} (hs : Stable g g') {n : Bytes}
    (h : g n = [] ∨ ∃ neg k, IntLit (g n) neg k) : g' n = [] ∨ ∃ neg k, IntLit (g' n) neg k := by
  rcases hs n with e | ⟨v, e⟩
  · rw [e]; exact h
  · right; rw [e]; exact ⟨_, _, fmtInt_intLit v⟩

theorem LvalsOK_stable {g g' : Bytes → Bytes} (hs : Stable g g') :
    ∀ e, LvalsOK g e → LvalsOK g' e := by
  intro e
  induction e with
  | word w => intro _; trivial
  | paren x ih => intro h; simp only [LvalsOK] at h ⊢; exact ih h
  | unary op post x ih =>
    intro h
    simp only [LvalsOK] at h ⊢
    split
    · rename_i hinc
      rw [if_pos hinc] at h
      cases hw : wordOf x with
      | none => trivial
      | some n => rw [hw] at h; exact intLit_of_stable hs h
    · rename_i hinc
      rw [if_neg hinc] at h
      exact ih h
  | binary op x y ihx ihy =>
    intro h
    simp only [LvalsOK] at h ⊢
    refine ⟨?_, ihy h.2⟩
    split
    · rename_i ha
      have h1 := h.1
      rw [if_pos ha] at h1
      cases hw : wordOf x with
      | none => trivial
      | some n => rw [hw] at h1; exact intLit_of_stable hs h1
    · rename_i ha
      have h1 := h.1
      rw [if_neg ha] at h1
      exact ihx h1

theorem reaches_stable {g g' : Bytes → Bytes} (hs : Stable g g') :
    ∀ {d n neg k}, Reaches g d n neg k → ∃ d' neg' k', d' ≤ d ∧ Reaches g' d' n neg' k' := by
  intro d n neg k h
  induction h with
  | unset n hn =>
    rcases hs n with e | ⟨v, e⟩
    · exact ⟨0, false, 0, Nat.le_refl _, Reaches.unset n (e.trans hn)⟩
    · exact ⟨0, _, _, Nat.le_refl _, Reaches.lit n _ _ (by rw [e]; exact fmtInt_intLit v)⟩
  | lit n neg k hl =>
    rcases hs n with e | ⟨v, e⟩
    · exact ⟨0, neg, k, Nat.le_refl _, Reaches.lit n neg k (by rw [e]; exact hl)⟩
    · exact ⟨0, _, _, Nat.le_refl _, Reaches.lit n _ _ (by rw [e]; exact fmtInt_intLit v)⟩
  | step d n neg k hv _ ih =>
    rcases hs n with e | ⟨v, e⟩
    · obtain ⟨d', neg', k', hle, hr⟩ := ih
      exact ⟨d' + 1, neg', k', by omega, Reaches.step d' n neg' k' (by rw [e]; exact hv)
        (by rw [e]; exact hr)⟩
    · exact ⟨0, _, _, Nat.zero_le _, Reaches.lit n _ _ (by rw [e]; exact fmtInt_intLit v)⟩

theorem EnvOK_stable {env env' : Env} (h : EnvOK env) (hs : Stable env.get env'.get) : EnvOK env' := by
  intro n hn
  obtain ⟨d, neg, k, hd, hr⟩ := h n hn
  obtain ⟨d', neg', k', hle, hr'⟩ := reaches_stable hs hr
  exact ⟨d', neg', k', by omega, hr'⟩

/-! ### words -/

theorem specEval_word (fuel D : Nat) (env : Env) (w : Bytes) :
    specEval (fuel + 1) D env (.word w) =
      if validName w then
        if env.get w = [] then (.ok 0, env)
        else match parseText (env.get w) with
          | none => (.err .syntaxErr, env)
          | some none => (.ok 0, env)
          | some (some e') =>
            match D with
            | 0 => (.err .recursion, env)
            | D' + 1 => specEval fuel D' env e'
      else match specNumber w with
        | some n => (chk (Int.ofNat n), env)
        | none => (.err .badNumber, env) := by
  rw [specEval]

theorem specEval_zero (D : Nat) (env : Env) (e : Expr) : specEval 0 D env e = (.err .fuel, env) := by
  rw [specEval]

theorem lit_not_name {lit : Bytes} {n : Nat} (h : specNumber lit = some n) : validName lit = false := by
  have := intLit_not_name (IntLit.pos [] lit [] n (by intro b hb; cases hb) (by intro b hb; cases hb) h)
  simpa using this

theorem chk_nat {n : Nat} {r : Res} (h : chk (Int.ofNat n) = r) (hd : r.inDomain) :
    n < 2 ^ 63 ∧ r = .ok (Int.ofNat n) := by
  obtain ⟨hv, hr⟩ := chk_ok h hd
  rw [inI64_iff, Int.ofNat_eq_natCast] at hv
  exact ⟨by omega, hr⟩

theorem specEval_lit {lit : Bytes} {n : Nat} (hl : specNumber lit = some n) {fuel D : Nat} {env env' : Env}
    {r : Res} (h : specEval fuel D env (.word lit) = (r, env')) (hd : r.inDomain) :
    n < 2 ^ 63 ∧ r = .ok (Int.ofNat n) ∧ env' = env := by
  cases fuel with
  | zero => rw [specEval_zero] at h; cases h; exact absurd hd (by simp [Res.inDomain])
  | succ f =>
    rw [specEval_word, lit_not_name hl, hl] at h
    simp only [Bool.false_eq_true, if_false] at h
    have h1 := congrArg Prod.fst h
    have h2 := congrArg Prod.snd h
    simp only at h1 h2
    obtain ⟨a, b⟩ := chk_nat h1 hd
    exact ⟨a, b, h2.symm⟩

theorem specEval_unary_plain (fuel D : Nat) (env : Env) (op : UnOp) (x : Expr)
    (hop : ¬ (op = .inc ∨ op = .dec)) :
    specEval (fuel + 1) D env (.unary op false x) =
      andThen (specEval fuel D env x) fun v env1 =>
        match op with
        | .not => (.ok (oneIf (v == 0)), env1)
        | .bitNeg => (.ok (-v - 1), env1)
        | .plus => (.ok v, env1)
        | _ => (chk (-v), env1) := by
  rw [specEval]
  simp only [hop, if_false, Bool.false_eq_true]

theorem litExpr_spec {e' : Expr} {neg : Bool} {n : Nat} (hl : LitExpr e' neg n) {fuel D : Nat}
    {env env' : Env} {r : Res} (h : specEval fuel D env e' = (r, env')) (hd : r.inDomain) :
    n < 2 ^ 63 ∧ r = .ok (if neg then -(Int.ofNat n) else Int.ofNat n) ∧ env' = env := by
  cases hl with
  | pos lit n hs => simpa using specEval_lit hs h hd
  | plus lit n hs =>
    cases fuel with
    | zero => rw [specEval_zero] at h; cases h; exact absurd hd (by simp [Res.inDomain])
    | succ f =>
      rw [specEval_unary_plain _ _ _ _ _ (by decide)] at h
      cases hx : specEval f D env (.word lit) with
      | mk r1 e1 =>
        rw [hx] at h
        cases r1 with
        | ok v =>
          simp only [andThen_ok] at h
          cases h
          obtain ⟨a, b, c⟩ := specEval_lit hs hx trivial
          cases b
          exact ⟨a, rfl, c⟩
        | err er =>
          simp only [andThen_err] at h
          cases h
          obtain ⟨_, b, _⟩ := specEval_lit hs hx hd
          cases b
        | panic =>
          obtain ⟨_, b, _⟩ := specEval_lit hs hx trivial
          cases b
  | minus lit n hs =>
    cases fuel with
    | zero => rw [specEval_zero] at h; cases h; exact absurd hd (by simp [Res.inDomain])
    | succ f =>
      rw [specEval_unary_plain _ _ _ _ _ (by decide)] at h
      cases hx : specEval f D env (.word lit) with
      | mk r1 e1 =>
        rw [hx] at h
        cases r1 with
        | ok v =>
          simp only [andThen_ok] at h
          obtain ⟨a, b, c⟩ := specEval_lit hs hx trivial
          cases b
          have h1 := congrArg Prod.fst h
          have h2 := congrArg Prod.snd h
          simp only at h1 h2
          obtain ⟨_, hr⟩ := chk_ok h1 hd
          exact ⟨a, by simpa using hr, by rw [← h2, c]⟩
        | err er =>
          simp only [andThen_err] at h
          cases h
          obtain ⟨_, b, _⟩ := specEval_lit hs hx hd
          cases b
        | panic =>
          obtain ⟨_, b, _⟩ := specEval_lit hs hx trivial
          cases b

end ShVerif.C20
