import ShVerif.Model.C20
namespace ShVerif.C20
end ShVerif.C20
