import ShVerif.Proofs.C20Eval
/-
  C20 helper lemmas, assembled: C20Bin (wrap-around, intPow, binArit), C20Num (atoi_spec),
  C20Misc (status, panics, assignment operators), C20Lex (texts of variable values),
  C20Eval (model = BashArith on the domain).
-/
namespace ShVerif.C20

/-- level of the outermost construct in the parser's chain (15 = value) -/
def exprLevel : Expr → Nat
  | .word _ => 15
  | .paren _ => 15
  | .unary op _ _ => if op = .inc ∨ op = .dec then 15 else 14
  | .binary op _ _ =>
    match op with
    | .comma => 0
    | .ternQuest => 2
    | .orL | .xorBool => 3
    | .andL => 4
    | .or => 5
    | .xor => 6
    | .and => 7
    | .eql | .neq => 8
    | .lss | .gtr | .leq | .geq => 9
    | .shl | .shr => 10
    | .add | .sub => 11
    | .mul | .quo | .rem => 12
    | .pow => 13
    | _ => 1

mutual
/-- `PrecOK e`: every operand sits at a level of the chain that needs no parentheses. -/
def PrecOK : Expr → Bool
  | .word _ => true
  | .paren x => PrecOK x
  | .unary op post x =>
    if op = .inc ∨ op = .dec then isNameWord x
    else !post && PrecOK x && decide (14 ≤ exprLevel x)
  | .binary op x y =>
    if op = .assgn ∨ (assignOp op).isSome then
      isNameWord x && PrecOK y && decide (1 ≤ exprLevel y)
    else if op = .ternQuest then PrecOK x && decide (3 ≤ exprLevel x) && PrecOKColon y
    else if op = .pow then
      PrecOK x && PrecOK y && decide (14 ≤ exprLevel x) && decide (13 ≤ exprLevel y)
    else if op = .ternColon ∨ op.sym = none then false
    else
      PrecOK x && PrecOK y && decide (exprLevel (.binary op x y) ≤ exprLevel x)
        && decide (exprLevel (.binary op x y) + 1 ≤ exprLevel y)

def PrecOKColon : Expr → Bool
  | .binary op t f => op == .ternColon && PrecOK t && PrecOK f && decide (2 ≤ exprLevel f)
  | _ => false
end

theorem cycle_recursion :
    (specEval 3000 bashMaxDepth
      { get := fun n => match [(([120] : Bytes), ([120] : Bytes))].lookup n with
          | some v => v | none => []
        ro := fun _ => false } (.word [120])).1 = .err .recursion := by
  rw [cycle_recursion_gen _ (by decide) bashMaxDepth 3000 (by decide)]

theorem prod_eta {α β : Type} (p : α × β) : p = (p.1, p.2) := by cases p; rfl

end ShVerif.C20
