import ShVerif.Proofs.C05
/-
  C05, Minify: the only comments the model printer writes are shebangs at 1:1 (through
  `comments`); the inline backquote comment branch of `cmdSubst` is disabled by Minify.
-/
namespace ShVerif.C05

/-- `τ` is reached from `σ`: if nothing was pending, nothing is pending and every newly written
    comment is a 1:1 shebang. -/
def MStep (σ τ : St) : Prop :=
  σ.pending = [] → τ.pending = [] ∧ ∀ c ∈ τ.emitted, c ∈ σ.emitted ∨ shebangAt11 c = true

theorem MStep.refl (σ : St) : MStep σ σ := fun h => ⟨h, fun _ hc => Or.inl hc⟩

theorem MStep.andThen {a b c : St} (h1 : MStep a b) (h2 : MStep b c) : MStep a c := by
  intro hp
  obtain ⟨p1, e1⟩ := h1 hp
  obtain ⟨p2, e2⟩ := h2 p1
  refine ⟨p2, fun x hx => ?_⟩
  rcases e2 x hx with h | h
  · exact e1 x h
  · exact Or.inr h

local infixl:65 " ⟫ " => MStep.andThen

/-- a primitive that keeps `acc` and leaves an empty queue empty -/
theorem Keeps.mstep {σ τ : St} (h : Keeps σ τ) (hp : σ.pending = [] → τ.pending = []) : MStep σ τ := by
  refine fun hp0 => ⟨hp hp0, fun c hc => Or.inl ?_⟩
  have := h.acc
  simp only [St.acc, hp0, hp hp0, List.append_nil] at this
  rwa [this] at hc

theorem Same.mstep {σ τ : St} (h : Same σ τ) : MStep σ τ :=
  h.keeps.mstep (fun hp => by rw [h.pending, hp])

theorem MStep.iteId {σ a : St} (c : Prop) [Decidable c] (h : MStep σ a) : MStep σ (if c then a else σ) := by
  split
  · exact h
  · exact MStep.refl σ

theorem flushHeredocs_pnil (o σ) (hp : σ.pending = []) : (flushHeredocs o σ).pending = [] := by
  unfold flushHeredocs
  split
  · exact hp
  · simp only [hp]

theorem flushHeredocs_mstep (o σ) : MStep σ (flushHeredocs o σ) :=
  (flushHeredocs_keeps o σ).mstep (flushHeredocs_pnil o σ)
theorem flushComments_mstep (o σ) : MStep σ (flushComments o σ) :=
  (flushComments_keeps o σ).mstep (fun _ => flushComments_pending o σ)

theorem newline_pnil (o p σ) : (newline o p σ).pending = [] := by
  unfold newline; simp [advLine, flushComments_pending]

theorem newline_mstep (o p σ) : MStep σ (newline o p σ) :=
  (newline_keeps o p σ).mstep (fun _ => newline_pnil o p σ)

theorem newlines_mstep (o p σ) : MStep σ (newlines o p σ) := by
  refine (newlines_keeps o p σ).mstep (fun hp => ?_)
  unfold newlines
  split
  · exact hp
  · split
    · exact hp
    · simp [advLine, flushComments_pending]

theorem semiRsrv_mstep (o p σ) : MStep σ (semiRsrv o p σ) := by
  unfold semiRsrv; exact MStep.iteId _ (newlines_mstep o p σ)
theorem semiOrNewl_mstep (o p σ) : MStep σ (semiOrNewl o p σ) := by
  unfold semiOrNewl; split
  · exact newline_mstep o p σ
  · exact Same.mstep ⟨rfl, rfl, rfl, rfl⟩
theorem rightParen_mstep (o p σ) : MStep σ (rightParen o p σ) := by
  unfold rightParen; exact MStep.iteId _ (newlines_mstep o p σ)
theorem nestedPre_mstep (n e c σ) : MStep σ (nestedPre n e c σ) := by
  unfold nestedPre
  split
  · exact Same.mstep ⟨rfl, rfl, rfl, rfl⟩
  · split
    · exact Same.mstep ⟨rfl, rfl, rfl, rfl⟩
    · split
      · exact Same.mstep ⟨rfl, rfl, rfl, rfl⟩
      · exact MStep.refl σ
theorem nestedPost_mstep (o c σ) : MStep σ (nestedPost o c σ) := by
  unfold nestedPost; exact MStep.iteId _ (flushComments_mstep o σ)
theorem advLine_mstep (l σ) : MStep σ (advLine l σ) := Same.mstep ⟨rfl, rfl, rfl, rfl⟩
theorem bslashNewl_mstep (σ) : MStep σ (bslashNewl σ) := Same.mstep ⟨rfl, rfl, rfl, rfl⟩
theorem runL_mstep (o x σ) : MStep σ (runL o x σ) := (runL_same o x σ).mstep

theorem comments_mstep (o : Opts) (hm : o.minify = true) (cs σ) : MStep σ (comments o cs σ) := by
  unfold comments
  simp only [hm, ↓reduceIte]
  induction cs generalizing σ with
  | nil => exact MStep.refl σ
  | cons c cs ih =>
    simp only [List.foldl_cons]
    refine MStep.andThen ?_ (ih _)
    split
    · rename_i hs
      refine fun hp => ⟨hp, fun x hx => ?_⟩
      simp only [List.mem_append, List.mem_singleton] at hx
      rcases hx with h | h
      · exact Or.inl h
      · exact Or.inr (h ▸ hs)
    · exact MStep.refl σ

theorem listPost_mstep (o : Opts) (hm : o.minify = true) (n sep last σ) : MStep σ (listPost o n sep last σ) := by
  unfold listPost
  have h1 : MStep σ (if (decide (n = 1) && !sep) = true then { σ with wantNewline := false } else σ) :=
    MStep.iteId _ (Same.mstep ⟨rfl, rfl, rfl, rfl⟩)
  exact h1 ⟫ comments_mstep o hm last _

theorem inlineCand_minify (o : Opts) (hm : o.minify = true) (b : Bool) (l : List Com) (r : Pos) (σ : St) :
    inlineCand o b l r σ = none := by
  unfold inlineCand
  split
  · simp [hm]
  · rfl

theorem nested_mstep (o : Opts) (hm : o.minify = true) (req : Bool) (stmts : List Stmt) (last : List Com)
    (endLine : Nat) (closing : Pos) (σ : St) (h : ∀ τ, MStep τ (prStmtLoop o req stmts τ)) :
    MStep σ
      (nestedPost o closing
        (listPost o stmts.length (sepOf stmts (nestedPre stmts.length endLine closing σ)) last
          (prStmtLoop o req stmts (nestedPre stmts.length endLine closing σ)))) :=
  nestedPre_mstep _ _ _ σ ⟫ h _ ⟫ listPost_mstep o hm _ _ last _ ⟫ nestedPost_mstep o _ _

variable (o : Opts) (hm : o.minify = true)
include hm

mutual
  theorem mstep_item : ∀ (i : Item) (σ : St), MStep σ (prItem o i σ)
    | .li x, σ => by simp only [prItem]; exact runL_mstep o x σ
    | .bslw p, σ => by simp only [prItem]; exact MStep.iteId _ (bslashNewl_mstep σ)
    | .tnl p, σ => by simp only [prItem]; exact MStep.iteId _ (newlines_mstep o p σ)
    | .sub kind swl endLine left right stmts last, σ => by
      cases kind with
      | tempFile =>
        simp only [prItem]
        exact nested_mstep o hm true stmts last endLine right σ (fun τ => mstep_loop true stmts τ) ⟫ semiRsrv_mstep o right _
      | replyVar =>
        simp only [prItem]
        exact nested_mstep o hm false stmts last endLine right σ (fun τ => mstep_loop false stmts τ) ⟫ semiRsrv_mstep o right _
      | proc =>
        simp only [prItem]
        exact nested_mstep o hm false stmts last endLine right σ (fun τ => mstep_loop false stmts τ) ⟫ rightParen_mstep o right _
      | dollar =>
        simp only [prItem]
        exact nested_mstep o hm swl stmts last endLine right σ (fun τ => mstep_loop swl stmts τ) ⟫ rightParen_mstep o right _
      | backquote =>
        simp only [prItem, inlineCand_minify o hm]
        exact nested_mstep o hm swl stmts last endLine right σ (fun τ => mstep_loop swl stmts τ) ⟫ rightParen_mstep o right _
    | .arr rparen elems last, σ => by
      simp only [prItem]
      have h2 : ∀ τ : St, MStep τ (if last.isEmpty = true then τ else flushComments o (comments o last τ)) := by
        intro τ
        split
        · exact MStep.refl τ
        · exact comments_mstep o hm last τ ⟫ flushComments_mstep o _
      exact mstep_elems elems σ ⟫ h2 _ ⟫ rightParen_mstep o rparen _

  theorem mstep_items : ∀ (is : List Item) (σ : St), MStep σ (prItems o is σ)
    | [], σ => by simp only [prItems]; exact MStep.refl σ
    | i :: is, σ => by
      simp only [prItems]
      exact mstep_item i σ ⟫ mstep_items is _

  theorem mstep_elems : ∀ (es : List Elem) (σ : St), MStep σ (prElems o es σ)
    | [], σ => by simp only [prElems]; exact MStep.refl σ
    | .mk pos coms items :: es, σ => by
      simp only [prElems]
      exact comments_mstep o hm _ σ ⟫ MStep.iteId _ (newlines_mstep o pos _) ⟫ mstep_items items _
        ⟫ comments_mstep o hm _ _ ⟫ mstep_elems es _

  theorem mstep_stmt : ∀ (s : Stmt) (σ : St), MStep σ (prStmt o s σ)
    | .mk pos cmdPos cmdEnd semi coms cmd redirs, σ => by
      simp only [prStmt]
      have h1 : MStep σ (if cmd.isNone = true then σ else prCmd o cmd (advLine cmdPos.line σ)) := by
        split
        · exact MStep.refl σ
        · exact advLine_mstep _ σ ⟫ mstep_cmd cmd _
      exact h1 ⟫ mstep_redirs redirs _ ⟫ MStep.iteId _ (bslashNewl_mstep _)

  theorem mstep_redirs : ∀ (rs : List Redir) (σ : St), MStep σ (prRedirs o rs σ)
    | [], σ => by simp only [prRedirs]; exact MStep.refl σ
    | .mk opPos hd word :: rs, σ => by
      simp only [prRedirs]
      have h3 : ∀ τ : St, MStep τ (match hd with
          | some h => { τ with hdocs := τ.hdocs ++ [h] }
          | none => τ) := by
        intro τ
        cases hd with
        | none => exact MStep.refl τ
        | some h => exact Same.mstep ⟨rfl, rfl, rfl, rfl⟩
      exact MStep.iteId _ (bslashNewl_mstep σ) ⟫ mstep_items word _ ⟫ h3 _ ⟫ mstep_redirs rs _

  theorem mstep_loop : ∀ (req : Bool) (ss : List Stmt) (σ : St), MStep σ (prStmtLoop o req ss σ)
    | _, [], σ => by simp only [prStmtLoop]; exact MStep.refl σ
    | req, s :: ss, σ => by
      simp only [prStmtLoop]
      have hk : ∀ τ : St, MStep τ ({ τ with wantNewline := true } : St) := fun τ => Same.mstep ⟨rfl, rfl, rfl, rfl⟩
      exact comments_mstep o hm _ σ ⟫ MStep.iteId _ (newlines_mstep o s.pos _) ⟫ advLine_mstep _ _
        ⟫ comments_mstep o hm _ _ ⟫ mstep_stmt s _ ⟫ comments_mstep o hm _ _ ⟫ hk _
        ⟫ mstep_loop true ss _

  theorem mstep_cmd : ∀ (c : Cmd) (σ : St), MStep σ (prCmd o c σ)
    | .none, σ => by simp only [prCmd]; exact MStep.refl σ
    | .flat items, σ => by simp only [prCmd]; exact mstep_items items σ
    | .block rbrace endLine stmts last, σ => by
      simp only [prCmd]
      have h0 : MStep σ ({ σ with wantNewline := σ.wantNewline || o.funcNextLine } : St) :=
        Same.mstep ⟨rfl, rfl, rfl, rfl⟩
      exact h0 ⟫ nested_mstep o hm true stmts last endLine rbrace _ (fun τ => mstep_loop true stmts τ)
        ⟫ semiRsrv_mstep o rbrace _
    | .subshell swl firstLine lparen rparen endLine stmts last, σ => by
      simp only [prCmd]
      have h0 : MStep σ (if (swl && (lparen.line != firstLine || decide (1 < stmts.length)) && !o.singleLine && o.minify) = true
          then ({ σ with mustNewline := true } : St) else σ) :=
        MStep.iteId _ (Same.mstep ⟨rfl, rfl, rfl, rfl⟩)
      exact h0 ⟫ nested_mstep o hm false stmts last endLine rparen _ (fun τ => mstep_loop false stmts τ)
        ⟫ rightParen_mstep o rparen _
    | .ifc fi ic, σ => by simp only [prCmd]; exact mstep_if fi ic σ
    | .whilec doPos donePos condEnd cond condLast doEnd body doLast, σ => by
      simp only [prCmd]
      have h1 := nested_mstep o hm true cond condLast condEnd Pos.none σ (fun τ => mstep_loop true cond τ)
      simp only [nestedPost, Pos.none, Bool.false_eq_true, ↓reduceIte] at h1
      exact h1 ⟫ semiOrNewl_mstep o doPos _
        ⟫ nested_mstep o hm true body doLast doEnd donePos _ (fun τ => mstep_loop true body τ)
        ⟫ semiRsrv_mstep o donePos _
    | .forc doPos donePos loop doEnd body doLast, σ => by
      simp only [prCmd]
      exact mstep_items loop σ ⟫ semiOrNewl_mstep o doPos _
        ⟫ nested_mstep o hm true body doLast doEnd donePos _ (fun τ => mstep_loop true body τ)
        ⟫ semiRsrv_mstep o donePos _
    | .binary opPos x y, σ => by
      simp only [prCmd, hm, Bool.true_or, ↓reduceIte]
      have hb : ∀ τ : St, MStep τ (if (y.coms.isEmpty || (acStmt y).isEmpty) = true then τ else { τ with lossD := τ.lossD + 1 }) := by
        intro τ
        split
        · exact MStep.refl τ
        · exact fun hp => ⟨hp, fun _ hc => Or.inl hc⟩
      exact mstep_stmt x σ ⟫ hb _ ⟫ advLine_mstep _ _ ⟫ mstep_stmt y _ ⟫ comments_mstep o hm _ _
    | .func body, σ => by
      simp only [prCmd]
      exact MStep.iteId _ (newline_mstep o Pos.none σ) ⟫ advLine_mstep _ _ ⟫ comments_mstep o hm _ _
        ⟫ mstep_stmt body _
    | .casec inLine esac word items last, σ => by
      simp only [prCmd]
      have hk : ∀ τ : St, MStep τ (if items.isEmpty = true then ({ τ with mustNewline := true } : St) else τ) :=
        fun τ => MStep.iteId _ (Same.mstep ⟨rfl, rfl, rfl, rfl⟩)
      exact mstep_items word σ ⟫ advLine_mstep _ _ ⟫ hk _ ⟫ mstep_caseItems items _
        ⟫ comments_mstep o hm last _ ⟫ MStep.iteId _ (flushComments_mstep o _) ⟫ semiRsrv_mstep o esac _
    | .wrap pre none, σ => by
      simp only [prCmd]; exact mstep_items pre σ
    | .wrap pre (some s), σ => by
      simp only [prCmd]; exact mstep_items pre σ ⟫ mstep_stmt s _ ⟫ comments_mstep o hm _ _

  theorem mstep_if : ∀ (fi : Pos) (ic : IfC) (σ : St), MStep σ (prIf o fi ic σ)
    | fi, .mk position hasThen thenPos condEnd cond condLast thenEnd thn thenLast last none, σ => by
      simp only [prIf]
      have h1 := nested_mstep o hm true cond condLast condEnd Pos.none σ (fun τ => mstep_loop true cond τ)
      simp only [nestedPost, Pos.none, Bool.false_eq_true, ↓reduceIte] at h1
      exact h1 ⟫ semiOrNewl_mstep o thenPos _
        ⟫ nested_mstep o hm true thn thenLast thenEnd fi _ (fun τ => mstep_loop true thn τ)
        ⟫ comments_mstep o hm last _ ⟫ semiRsrv_mstep o fi _
    | fi, .mk position hasThen thenPos condEnd cond condLast thenEnd thn thenLast last (some e), σ => by
      simp only [prIf]
      have h1 := nested_mstep o hm true cond condLast condEnd Pos.none σ (fun τ => mstep_loop true cond τ)
      simp only [nestedPost, Pos.none, Bool.false_eq_true, ↓reduceIte] at h1
      have h2 := fun τ => nested_mstep o hm true thn thenLast thenEnd e.position τ (fun τ => mstep_loop true thn τ)
      split
      · exact h1 ⟫ semiOrNewl_mstep o thenPos _ ⟫ h2 _ ⟫ comments_mstep o hm last _
          ⟫ semiRsrv_mstep o e.position _ ⟫ mstep_if fi e _
      · exact h1 ⟫ semiOrNewl_mstep o thenPos _ ⟫ h2 _ ⟫ comments_mstep o hm _ _
          ⟫ semiRsrv_mstep o e.position _ ⟫ comments_mstep o hm _ _ ⟫ mstep_else fi e _
          ⟫ semiRsrv_mstep o fi _

  theorem mstep_else : ∀ (fi : Pos) (e : IfC) (σ : St), MStep σ (prElse o fi e σ)
    | fi, .mk position hasThen thenPos condEnd cond condLast thenEnd thn thenLast last els, σ => by
      simp only [prElse]
      exact nested_mstep o hm true thn thenLast thenEnd fi σ (fun τ => mstep_loop true thn τ)
        ⟫ comments_mstep o hm last _

  theorem mstep_caseItems : ∀ (cis : List CaseItem) (σ : St), MStep σ (prCaseItems o cis σ)
    | [], σ => by simp only [prCaseItems]; exact MStep.refl σ
    | .mk pos opPos opBreak endLine coms pats stmts last :: rest, σ => by
      simp only [prCaseItems]
      have hop : ∀ τ : St, MStep τ
          (if (!o.minify || !rest.isEmpty || !opBreak) = true then
            advLine opPos.line (if wantsNewline o τ opPos false = true then { newlines o opPos τ with wantNewline := true } else τ)
           else τ) := by
        intro τ
        refine MStep.iteId _ ?_
        have : MStep τ (if wantsNewline o τ opPos false = true then ({ newlines o opPos τ with wantNewline := true } : St) else τ) := by
          refine MStep.iteId _ ?_
          exact newlines_mstep o opPos τ ⟫ Same.mstep ⟨rfl, rfl, rfl, rfl⟩
        exact this ⟫ advLine_mstep _ _
      exact comments_mstep o hm _ σ ⟫ newlines_mstep o pos _ ⟫ mstep_items pats _
        ⟫ nested_mstep o hm false stmts last endLine opPos _ (fun τ => mstep_loop false stmts τ)
        ⟫ hop _ ⟫ comments_mstep o hm _ _ ⟫ flushComments_mstep o _ ⟫ mstep_caseItems rest _
end

end ShVerif.C05
