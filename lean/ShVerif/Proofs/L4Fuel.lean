/-
  L4: the fuel the model parser gives itself (`parseFuelFor toks = 6·|toks| + 8`) is never used up:
  `parse l src ≠ .error .outOfFuel` for every input.  Every level of the recursion consumes a
  token before the same function is entered again, and there are at most six levels between two
  such entries; the claims below bound the fuel each function needs by `6·|unread tokens| + c`.
-/
import ShVerif.Proofs.L4ParseWF
namespace ShVerif.L4

/-- the result is not `outOfFuel`, and the unread tokens do not grow beyond `L` -/
def OkLen {α : Type} (r : Except ParseErr (α × PS)) (L : Nat) : Prop :=
  r ≠ .error .outOfFuel ∧ ∀ a ps', r = .ok (a, ps') → ps'.toks.length ≤ L

/-- … and a statement, if one was read, consumed at least one token -/
def OkLenS (r : Except ParseErr (Option Stmt × PS)) (L : Nat) : Prop :=
  OkLen r L ∧ ∀ s ps', r = .ok (some s, ps') → ps'.toks.length < L

theorem OkLen.err {α : Type} {e : ParseErr} (h : e ≠ .outOfFuel) (L : Nat) :
    OkLen (.error e : Except ParseErr (α × PS)) L :=
  ⟨(fun c => h (by cases c; rfl)), (fun _ _ c => by cases c)⟩

theorem OkLen.ok {α : Type} {a : α} {ps : PS} {L : Nat} (h : ps.toks.length ≤ L) :
    OkLen (.ok (a, ps) : Except ParseErr (α × PS)) L :=
  ⟨(fun c => by cases c), (fun _ _ c => by cases c; exact h)⟩

theorem OkLen.mono {α : Type} {r : Except ParseErr (α × PS)} {L L' : Nat} (h : OkLen r L) (hl : L ≤ L') : OkLen r L' :=
  ⟨h.1, fun a ps' e => Nat.le_trans (h.2 a ps' e) hl⟩

theorem OkLenS.err {e : ParseErr} (h : e ≠ .outOfFuel) (L : Nat) : OkLenS (.error e) L :=
  ⟨OkLen.err h L, fun _ _ c => by cases c⟩

theorem OkLenS.none {ps : PS} {L : Nat} (h : ps.toks.length ≤ L) : OkLenS (.ok (none, ps)) L :=
  ⟨OkLen.ok h, fun _ _ c => by cases c⟩

theorem OkLenS.some {s : Stmt} {ps : PS} {L : Nat} (h : ps.toks.length < L) : OkLenS (.ok (some s, ps)) L :=
  ⟨OkLen.ok (Nat.le_of_lt h), fun _ _ c => by cases c; exact h⟩

theorem PS.next_len (ps : PS) : ps.next.toks.length ≤ ps.toks.length := by
  unfold PS.next
  simp

theorem PS.next_len_lt {ps : PS} (h : ps.toks ≠ []) : ps.next.toks.length < ps.toks.length := by
  unfold PS.next
  cases ht : ps.toks with
  | nil => exact absurd ht h
  | cons a r => simp

theorem PS.gotNewl_len (ps : PS) : ps.gotNewl.2.toks.length ≤ ps.toks.length := by
  unfold PS.gotNewl
  split
  · exact PS.next_len ps
  · exact Nat.le_refl _

theorem PS.toks_ne_of_tok {ps : PS} {t : Tok} (h : ps.tok = t) (hne : t ≠ .eof) : ps.toks ≠ [] := by
  intro e
  obtain ⟨toks⟩ := ps
  simp only at e
  subst e
  simp only [PS.tok] at h
  exact hne h.symm

theorem PS.toks_ne_of_isLit {ps : PS} {v : Bytes} (h : ps.tok.isLit v = true) : ps.toks ≠ [] := by
  obtain ⟨w, p, rest, e1, _, _⟩ := PS.isLit_toks h
  rw [e1]; simp

/-! ## `callArgs` -/

theorem callArgs_nf : ∀ (fuel : Nat) (inSub : Bool) (ps : PS) (acc : List Word), ps.toks.length + 1 ≤ fuel →
    OkLen (callArgs fuel inSub ps acc) ps.toks.length := by
  intro fuel
  induction fuel with
  | zero => intro inSub ps acc h; omega
  | succ n ih =>
    intro inSub ps acc h
    obtain ⟨toks⟩ := ps
    cases toks with
    | nil => simp only [callArgs, PS.tok]; exact OkLen.ok (Nat.le_refl _)
    | cons tp rest =>
      obtain ⟨t, p⟩ := tp
      have hrec : ∀ a, OkLen (callArgs n inSub ⟨rest⟩ a) (rest.length + 1) :=
        fun a => (ih inSub ⟨rest⟩ a (by simp at h ⊢; omega)).mono (Nat.le_succ _)
      cases t with
      | word w lit =>
        cases lit with
        | none => simp only [callArgs, PS.tok_cons, PS.next_cons]; exact hrec _
        | some v =>
          simp only [callArgs, PS.tok_cons, PS.next_cons]
          split
          · exact OkLen.err (by simp) _
          · exact hrec _
      | rparen =>
        simp only [callArgs, PS.tok_cons]
        split
        · exact OkLen.ok (Nat.le_refl _)
        · exact OkLen.err (by simp) _
      | eof => simp only [callArgs, PS.tok_cons]; exact OkLen.ok (Nat.le_refl _)
      | newl => simp only [callArgs, PS.tok_cons]; exact OkLen.ok (Nat.le_refl _)
      | semi => simp only [callArgs, PS.tok_cons]; exact OkLen.ok (Nat.le_refl _)
      | amp => simp only [callArgs, PS.tok_cons]; exact OkLen.ok (Nat.le_refl _)
      | andAnd => simp only [callArgs, PS.tok_cons]; exact OkLen.ok (Nat.le_refl _)
      | orOr => simp only [callArgs, PS.tok_cons]; exact OkLen.ok (Nat.le_refl _)
      | pipe => simp only [callArgs, PS.tok_cons]; exact OkLen.ok (Nat.le_refl _)
      | lparen => simp only [callArgs, PS.tok_cons]; exact OkLen.err (by simp) _
      | outside => simp only [callArgs, PS.tok_cons]; exact OkLen.err (by simp) _
      | unclosedQuote => simp only [callArgs, PS.tok_cons]; exact OkLen.err (by simp) _

/-! ## The claims, by fuel -/

def FuFirst (n : Nat) : Prop := ∀ (inSub : Bool) (pos : Pos) (neg : Bool) (ps : PS), 6 * ps.toks.length + 2 ≤ n →
  OkLenS (firstCmdF n inSub pos neg ps) ps.toks.length
def FuGot (n : Nat) : Prop := ∀ (inSub : Bool) (pos : Pos) (neg binCmd : Bool) (ps : PS), 6 * ps.toks.length + 3 ≤ n →
  OkLenS (gotStmtPipeF n inSub pos neg binCmd ps) ps.toks.length
def FuPipe (n : Nat) : Prop := ∀ (inSub binCmd : Bool) (s : Stmt) (ps : PS), 6 * ps.toks.length + 3 ≤ n →
  OkLen (pipeF n inSub binCmd s ps) ps.toks.length
def FuGet (n : Nat) : Prop := ∀ (inSub readEnd binCmd : Bool) (ps : PS), 6 * ps.toks.length + 4 ≤ n →
  OkLenS (getStmtF n inSub readEnd binCmd ps) ps.toks.length
def FuAndOr (n : Nat) : Prop := ∀ (inSub binCmd : Bool) (s : Stmt) (ps : PS), 6 * ps.toks.length + 4 ≤ n →
  OkLen (andOrF n inSub binCmd s ps) ps.toks.length
def FuStmts (n : Nat) : Prop := ∀ (inSub stopBrace gotEnd : Bool) (ps : PS) (acc : List Stmt), 6 * ps.toks.length + 5 ≤ n →
  OkLen (stmtsF n inSub stopBrace gotEnd ps acc) ps.toks.length

theorem fu_first (n : Nat) (hS : FuStmts n) : FuFirst (n + 1) := by
  intro inSub pos neg ps hf
  obtain ⟨toks⟩ := ps
  cases toks with
  | nil => simp only [firstCmdF, PS.tok]; exact OkLenS.none (Nat.le_refl _)
  | cons tp rest =>
    obtain ⟨t, p⟩ := tp
    simp only [List.length_cons] at hf ⊢
    have hcall : ∀ w : Word, OkLenS (match callArgs (n + 1) inSub ⟨rest⟩ [w] with
        | .error e => (.error e : Except ParseErr (Option Stmt × PS))
        | .ok (args, ps) => .ok (some (mkStmt pos neg (.call args)), ps)) (rest.length + 1) := by
      intro w
      have hI := callArgs_nf (n + 1) inSub ⟨rest⟩ [w] (by simp only; omega)
      cases hr : callArgs (n + 1) inSub ⟨rest⟩ [w] with
      | error e => exact OkLenS.err (fun c => hI.1 (by rw [hr, c])) _
      | ok v =>
        obtain ⟨a, q⟩ := v
        exact OkLenS.some (Nat.lt_succ_of_le (hI.2 a q hr))
    have hIS : ∀ a b c, OkLen (stmtsF n inSub a b ⟨rest⟩ c) rest.length ∧ OkLen (stmtsF n true a b ⟨rest⟩ c) rest.length :=
      fun a b c => ⟨hS inSub a b ⟨rest⟩ c (by simp only; omega), hS true a b ⟨rest⟩ c (by simp only; omega)⟩
    cases t with
    | word w lit =>
      cases lit with
      | none => simp only [firstCmdF, PS.tok_cons, PS.next_cons]; exact hcall w
      | some v =>
        simp only [firstCmdF, PS.tok_cons, PS.pos_cons, PS.next_cons]
        split
        · by_cases hsemi : ((PS.mk rest).tok == Tok.semi) = true
          · simp only [hsemi, ↓reduceIte]; exact OkLenS.err (by simp) _
          · have hsemi' : ((PS.mk rest).tok == Tok.semi) = false := by simpa using hsemi
            simp only [hsemi', Bool.false_eq_true, ↓reduceIte]
            have hI := (hIS true true []).1
            cases hr : stmtsF n inSub true true ⟨rest⟩ [] with
            | error e => exact OkLenS.err (fun c => hI.1 (by rw [hr, c])) _
            | ok v =>
              obtain ⟨ss, q⟩ := v
              have hq := hI.2 ss q hr
              simp only
              split
              · exact OkLenS.err (by simp) _
              · split
                · rename_i hcl
                  exact OkLenS.some (Nat.lt_succ_of_le (Nat.le_trans (PS.next_len q) hq))
                · split
                  · exact OkLenS.err (by simp) _
                  · exact OkLenS.err (by simp) _
        · split
          · exact OkLenS.err (by simp) _
          · split
            · split
              · exact OkLenS.err (by simp) _
              · exact OkLenS.err (by simp) _
            · split
              · exact OkLenS.err (by simp) _
              · exact hcall w
    | lparen =>
      simp only [firstCmdF, PS.tok_cons, PS.pos_cons, PS.next_cons]
      by_cases hsemi : ((PS.mk rest).tok == Tok.semi) = true
      · simp only [hsemi, ↓reduceIte]; exact OkLenS.err (by simp) _
      · have hsemi' : ((PS.mk rest).tok == Tok.semi) = false := by simpa using hsemi
        simp only [hsemi', Bool.false_eq_true, ↓reduceIte]
        have hI := (hIS false true []).2
        cases hr : stmtsF n true false true ⟨rest⟩ [] with
        | error e => exact OkLenS.err (fun c => hI.1 (by rw [hr, c])) _
        | ok v =>
          obtain ⟨ss, q⟩ := v
          have hq := hI.2 ss q hr
          simp only
          split
          · exact OkLenS.err (by simp) _
          · split
            · exact OkLenS.some (Nat.lt_succ_of_le (Nat.le_trans (PS.next_len q) hq))
            · exact OkLenS.err (by simp) _
            · exact OkLenS.err (by simp) _
    | eof => simp only [firstCmdF, PS.tok_cons]; exact OkLenS.none (by simp)
    | newl => simp only [firstCmdF, PS.tok_cons]; exact OkLenS.none (by simp)
    | semi => simp only [firstCmdF, PS.tok_cons]; exact OkLenS.none (by simp)
    | amp => simp only [firstCmdF, PS.tok_cons]; exact OkLenS.none (by simp)
    | andAnd => simp only [firstCmdF, PS.tok_cons]; exact OkLenS.none (by simp)
    | orOr => simp only [firstCmdF, PS.tok_cons]; exact OkLenS.none (by simp)
    | pipe => simp only [firstCmdF, PS.tok_cons]; exact OkLenS.none (by simp)
    | rparen => simp only [firstCmdF, PS.tok_cons]; exact OkLenS.none (by simp)
    | outside => simp only [firstCmdF, PS.tok_cons]; exact OkLenS.err (by simp) _
    | unclosedQuote => simp only [firstCmdF, PS.tok_cons]; exact OkLenS.err (by simp) _

theorem fu_got (n : Nat) (hF : FuFirst n) (hP : FuPipe n) : FuGot (n + 1) := by
  intro inSub pos neg binCmd ps hf
  rw [gotStmtPipeF_eq]
  have hI := hF inSub pos neg ps (by omega)
  cases hr : firstCmdF n inSub pos neg ps with
  | error e => exact OkLenS.err (fun c => hI.1.1 (by rw [hr, c])) _
  | ok v =>
    obtain ⟨o, q⟩ := v
    cases o with
    | none => exact OkLenS.none (hI.1.2 none q hr)
    | some s1 =>
      have hq := hI.2 s1 q hr
      have hJ := hP inSub binCmd s1 q (by omega)
      simp only [pipeWrap]
      cases hr2 : pipeF n inSub binCmd s1 q with
      | error e => exact OkLenS.err (fun c => hJ.1 (by rw [hr2, c])) _
      | ok v2 =>
        obtain ⟨s2, q2⟩ := v2
        exact OkLenS.some (Nat.lt_of_le_of_lt (hJ.2 s2 q2 hr2) hq)

theorem fu_pipe (n : Nat) (hG : FuGot n) (hP : FuPipe n) : FuPipe (n + 1) := by
  intro inSub binCmd s ps hf
  rw [pipeF_eq]
  split
  · rename_i hpipe
    split
    · exact OkLen.ok (Nat.le_refl _)
    · have hne := PS.toks_ne_of_tok (by simpa using hpipe : ps.tok = .pipe) (by simp)
      have h1 : ps.next.gotNewl.2.toks.length < ps.toks.length :=
        Nat.lt_of_le_of_lt (PS.gotNewl_len _) (PS.next_len_lt hne)
      simp only
      have hI := hG inSub ps.next.gotNewl.2.pos false true ps.next.gotNewl.2 (by omega)
      cases hr : gotStmtPipeF n inSub ps.next.gotNewl.2.pos false true ps.next.gotNewl.2 with
      | error e => exact OkLen.err (fun c => hI.1.1 (by rw [hr, c])) _
      | ok v =>
        obtain ⟨o, q⟩ := v
        cases o with
        | none =>
          simp only
          split <;> exact OkLen.err (by simp) _
        | some y =>
          have hq := hI.2 y q hr
          simp only
          exact (hP inSub binCmd _ q (by omega)).mono (by omega)
  · exact OkLen.ok (Nat.le_refl _)

theorem fu_get (n : Nat) (hG : FuGot n) (hA : FuAndOr n) : FuGet (n + 1) := by
  intro inSub readEnd binCmd ps hf
  rw [getStmtF_eq]
  simp only
  obtain ⟨ps1, hps1⟩ : ∃ ps1, ps1 = (if ps.tok.isLit [33] = true then ps.next else ps) := ⟨_, rfl⟩
  rw [← hps1]
  have hl1 : ps1.toks.length ≤ ps.toks.length := by
    rw [hps1]
    split
    · exact PS.next_len ps
    · exact Nat.le_refl _
  split
  · exact OkLenS.err (by simp) _
  · split
    · exact OkLenS.err (by simp) _
    · have hI := hG inSub ps.pos (ps.tok.isLit [33]) false ps1 (by omega)
      cases hr : gotStmtPipeF n inSub ps.pos (ps.tok.isLit [33]) false ps1 with
      | error e => exact OkLenS.err (fun c => hI.1.1 (by rw [hr, c])) _
      | ok v =>
        obtain ⟨o, q⟩ := v
        cases o with
        | none => exact OkLenS.none (Nat.le_trans (hI.1.2 none q hr) hl1)
        | some s1 =>
          have hq : q.toks.length < ps.toks.length := Nat.lt_of_lt_of_le (hI.2 s1 q hr) hl1
          have hJ := hA inSub binCmd s1 q (by omega)
          simp only [endWrap]
          cases hr2 : andOrF n inSub binCmd s1 q with
          | error e => exact OkLenS.err (fun c => hJ.1 (by rw [hr2, c])) _
          | ok v2 =>
            obtain ⟨s2, q2⟩ := v2
            have hq2 : q2.toks.length < ps.toks.length := Nat.lt_of_le_of_lt (hJ.2 s2 q2 hr2) hq
            simp only
            split
            · split
              · exact OkLenS.some (Nat.lt_of_le_of_lt (PS.next_len q2) hq2)
              · exact OkLenS.some (Nat.lt_of_le_of_lt (PS.next_len q2) hq2)
              · exact OkLenS.some hq2
            · exact OkLenS.some hq2

theorem fu_andor (n : Nat) (hGet : FuGet n) (hA : FuAndOr n) : FuAndOr (n + 1) := by
  intro inSub binCmd s ps hf
  rw [andOrF_eq]
  simp only
  split
  · exact OkLen.ok (Nat.le_refl _)
  · rename_i op hop
    have hne : ps.toks ≠ [] := by
      intro e
      obtain ⟨toks⟩ := ps
      simp only at e
      subst e
      simp [PS.tok] at hop
    split
    · exact OkLen.ok (Nat.le_refl _)
    · have h1 : ps.next.gotNewl.2.toks.length < ps.toks.length :=
        Nat.lt_of_le_of_lt (PS.gotNewl_len _) (PS.next_len_lt hne)
      have hI := hGet inSub false true ps.next.gotNewl.2 (by omega)
      cases hr : getStmtF n inSub false true ps.next.gotNewl.2 with
      | error e => exact OkLen.err (fun c => hI.1.1 (by rw [hr, c])) _
      | ok v =>
        obtain ⟨o, q⟩ := v
        cases o with
        | none =>
          simp only
          split <;> exact OkLen.err (by simp) _
        | some y =>
          have hq := hI.2 y q hr
          simp only
          exact (hA inSub binCmd _ q (by omega)).mono (by omega)

theorem fu_stmts (n : Nat) (hGet : FuGet n) (hS : FuStmts n) : FuStmts (n + 1) := by
  intro inSub stopBrace gotEnd ps acc hf
  rw [stmtsF_eq]
  split
  · exact OkLen.ok (Nat.le_refl _)
  · have hl := PS.gotNewl_len ps
    cases hq : ps.gotNewl with
    | mk nl ps1 =>
      have e2 : ps.gotNewl.2 = ps1 := by rw [hq]
      rw [e2] at hl
      simp only
      split
      · split
        · exact OkLen.ok hl
        · exact OkLen.err (by simp) _
      · split
        · exact OkLen.ok hl
        · split
          · exact OkLen.err (by simp) _
          · split
            · exact OkLen.ok hl
            · have hI := hGet inSub true false ps1 (by omega)
              cases hr : getStmtF n inSub true false ps1 with
              | error e => exact OkLen.err (fun c => hI.1.1 (by rw [hr, c])) _
              | ok v =>
                obtain ⟨o, q⟩ := v
                cases o with
                | none =>
                  simp only
                  split <;> exact OkLen.err (by simp) _
                | some s1 =>
                  have hq1 := hI.2 s1 q hr
                  simp only
                  exact (hS inSub stopBrace _ q _ (by omega)).mono (by omega)

theorem fu_all : ∀ n : Nat, FuFirst n ∧ FuGot n ∧ FuPipe n ∧ FuGet n ∧ FuAndOr n ∧ FuStmts n
  | 0 => by
    refine ⟨?_, ?_, ?_, ?_, ?_, ?_⟩ <;> intro <;> omega
  | n + 1 => by
    obtain ⟨hF, hG, hP, hGet, hA, hS⟩ := fu_all n
    exact ⟨fu_first n hS, fu_got n hF hP, fu_pipe n hG hP, fu_get n hG hA, fu_andor n hGet hA, fu_stmts n hGet hS⟩

/-- **`fuel_sufficient`**: the model parser never runs out of the fuel it gives itself. -/
theorem parseToks_fuel (toks : List TokPos) : parseToks toks ≠ .error .outOfFuel := by
  unfold parseToks parseToksF
  have hI := (fu_all (parseFuelFor toks)).2.2.2.2.2 false false true ⟨toks⟩ [] (by simp only [parseFuelFor]; omega)
  cases hr : stmtsF (parseFuelFor toks) false false true ⟨toks⟩ [] with
  | error e =>
    simp only
    exact fun c => hI.1 (by rw [hr]; cases c; rfl)
  | ok v =>
    obtain ⟨ss, q⟩ := v
    simp only
    split <;> simp

theorem parse_fuel (l : Lang) (src : Bytes) : parse l src ≠ .error .outOfFuel := parseToks_fuel _

end ShVerif.L4
