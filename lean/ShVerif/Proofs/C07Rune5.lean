/-
  C07 — `rune` refinement, end: the retry loop and `rune`.
-/
import ShVerif.Proofs.C07Rune4
namespace ShVerif.C07
open ShVerif ShVerif.L2
set_option linter.unusedSimpArgs false

/-! ### what a spec-side pass does to `rest` and `ok` -/

theorem peek_rest (a : LSt) : a.peek.2.rest = a.rest := by rw [peek_snd]; simp
theorem peek_ok_le (a : LSt) (h : a.peek.2.ok = true) : a.ok = true := by
  rw [peek_snd] at h; simp at h; exact h.1
theorem peekTwo_rest (a : LSt) : a.peekTwo.2.2.rest = a.rest := by
  rw [peekTwo_snd]; simp
theorem peekTwo_ok_le (a : LSt) (h : a.peekTwo.2.2.ok = true) : a.ok = true := by
  rw [peekTwo_snd] at h
  simp at h
  exact h.1

theorem consume_rest_length (a : LSt) : a.consume.rest.length ≤ a.rest.length := by
  unfold LSt.consume; split <;> simp_all

@[simp] theorem runeTail_rest (b : Byte) (bq : Nat) (a : LSt) : (LSt.runeTail b bq a).rest = a.rest := by
  unfold LSt.runeTail LSt.litPush
  by_cases h96 : b = 96 <;> cases hl : a.lit <;> simp [h96, hl]

theorem afterEsc_rest (b : Byte) (bq : Nat) (a : LSt) : (LSt.runeAfterEsc b bq a).st.rest = a.rest := by
  unfold LSt.runeAfterEsc
  cases hr : a.rest with
  | nil => simp [LSt.Step.st, hr]
  | cons c t =>
    simp only
    split <;> simp [LSt.Step.st, hr]

theorem afterEsc_ok_le (b : Byte) (bq : Nat) (a : LSt) (h : (LSt.runeAfterEsc b bq a).st.ok = true) :
    a.ok = true := by
  rw [runeAfterEsc_ok] at h; exact h

theorem backslash_rest_le (b : Byte) (bq : Nat) (a : LSt) :
    (LSt.runeBackslash b bq a).st.rest.length ≤ a.rest.length := by
  unfold LSt.runeBackslash
  have h1 := peek_rest a
  rcases hpk : a.peek with ⟨pk, a1⟩
  rw [hpk] at h1
  simp only at h1 ⊢
  split
  · rw [afterEsc_rest, h1]; exact Nat.le_refl _
  · split
    · simp only [LSt.Step.st]
      have := consume_rest_length a1
      rw [h1] at this
      exact this
    · have h2 := peekTwo_rest a1
      rcases hpk2 : a1.peekTwo with ⟨p1, p2, a2⟩
      rw [hpk2] at h2
      simp only at h2 ⊢
      split
      · simp only [LSt.Step.st, LSt.consumeN]
        have := consume_rest_length a2
        have := consume_rest_length a2.consume
        have e : a2.rest.length = a.rest.length := by rw [h2, h1]
        omega
      · rw [afterEsc_rest, h2, h1]; exact Nat.le_refl _

theorem backslash_ok_le (b : Byte) (bq : Nat) (a : LSt) (h : (LSt.runeBackslash b bq a).st.ok = true) :
    a.ok = true := by
  unfold LSt.runeBackslash at h
  have h1 := peek_ok_le a
  rcases hpk : a.peek with ⟨pk, a1⟩
  rw [hpk] at h1 h
  simp only at h1 h
  apply h1
  split at h
  · exact afterEsc_ok_le _ _ _ h
  · split at h
    · simpa [LSt.Step.st] using h
    · have h2 := peekTwo_ok_le a1
      rcases hpk2 : a1.peekTwo with ⟨p1, p2, a2⟩
      rw [hpk2] at h2 h
      simp only at h2 h
      apply h2
      split at h
      · simpa [LSt.Step.st, LSt.consumeN] using h
      · exact afterEsc_ok_le _ _ _ h

theorem consume_rest_cons {a : LSt} {c t} (h : a.rest = c :: t) : a.consume.rest = t := by
  unfold LSt.consume; simp [h]

theorem ascii_rest_le (b : Byte) (bq : Nat) (a : LSt) {c t} (hr : a.rest = c :: t) :
    (LSt.runeAscii b bq a).st.rest.length ≤ t.length := by
  have hc := consume_rest_cons hr
  unfold LSt.runeAscii
  simp only
  generalize a.consume = a' at hc ⊢
  split
  · simp [LSt.Step.st, hc]
  · split
    · have h1 := peek_rest a'
      rcases hpk : a'.peek with ⟨pk, a1⟩
      rw [hpk] at h1
      simp only at h1 ⊢
      split <;> simp [LSt.Step.st, h1, hc]
    · split
      · have := backslash_rest_le b bq a'
        rw [hc] at this; exact this
      · simp [LSt.Step.st, hc]

theorem ascii_ok_le (b : Byte) (bq : Nat) (a : LSt) (h : (LSt.runeAscii b bq a).st.ok = true) :
    a.ok = true := by
  unfold LSt.runeAscii at h
  simp only at h
  have hc := consume_ok a
  generalize a.consume = a' at hc h
  rw [← hc]
  split at h
  · simpa [LSt.Step.st] using h
  · split at h
    · have h1 := peek_ok_le a'
      rcases hpk : a'.peek with ⟨pk, a1⟩
      rw [hpk] at h1 h
      simp only at h1 h
      apply h1
      split at h <;> simpa [LSt.Step.st] using h
    · split at h
      · exact backslash_ok_le _ _ _ h
      · simpa [LSt.Step.st] using h

@[simp] theorem errPass_ok (a : LSt) (e : Err) : (a.errPass e).ok = a.ok := by
  unfold LSt.errPass; split <;> rfl
@[simp] theorem litPush_ok (a : LSt) (bs : List Byte) : (a.litPush bs).ok = a.ok := by
  unfold LSt.litPush; split <;> rfl
@[simp] theorem consumeN_ok (n : Nat) : ∀ (a : LSt), (LSt.consumeN n a).ok = a.ok := by
  induction n with
  | zero => intro a; rfl
  | succ n ih => intro a; simp [LSt.consumeN, ih]
@[simp] theorem decodeSpec_ok (a : LSt) : (decodeSpec a).ok = a.ok := rfl

theorem runeDecode_ok (a : LSt) : (LSt.runeDecode a).ok = a.ok := by
  rw [runeDecode_eq]
  unfold decodeTail
  simp only
  split <;> simp

theorem runeAtEOF_ok (a : LSt) : (LSt.runeAtEOF a).ok = a.ok := by
  unfold LSt.runeAtEOF
  split <;> rfl

theorem step_ok_forget (bq : Nat) (a : LSt) (h : (LSt.runeStep bq a).st.ok = true) :
    a.forget.ok = true := by
  unfold LSt.runeStep at h
  simp only at h
  split at h
  · simpa [LSt.Step.st, runeAtEOF_ok] using h
  · unfold LSt.runeBody at h
    simp only at h
    split at h
    · exact ascii_ok_le _ _ { a.forget with look := max a.forget.look 1 } h
    · simpa [LSt.Step.st, runeDecode_ok] using h

theorem step_ok_le (bq : Nat) (a : LSt) (h : (LSt.runeStep bq a).st.ok = true) : a.ok = true :=
  forget_ok_le (step_ok_forget bq a h)

theorem step_retry_lt {bq bq' : Nat} {a a' : LSt} (h : LSt.runeStep bq a = .retry bq' a') :
    a'.rest.length < a.rest.length := by
  unfold LSt.runeStep at h
  simp only at h
  split at h
  · cases h
  · rename_i b t hr
    unfold LSt.runeBody at h
    simp only at h
    split at h
    · have := ascii_rest_le b bq { a.forget with look := max a.forget.look 1 } (c := b) (t := t) hr
      rw [h] at this
      simp only [LSt.Step.st] at this
      have e : a.rest = b :: t := hr
      rw [e]; simp; omega
    · cases h

theorem loop_ok_le (f : Nat) : ∀ (bq : Nat) (a : LSt), (LSt.runeLoop f bq a).ok = true → a.ok = true := by
  induction f with
  | zero => intro bq a h; exact h
  | succ f ih =>
    intro bq a h
    unfold LSt.runeLoop at h
    cases hs : LSt.runeStep bq a with
    | done a' =>
      rw [hs] at h
      exact step_ok_le bq a (by rw [hs]; exact h)
    | retry bq' a' =>
      rw [hs] at h
      exact step_ok_le bq a (by rw [hs]; exact ih bq' a' h)

theorem runeLoop_refines (f1 : Nat) : ∀ (f2 bq : Nat) {s : St} {a : LSt}, R s a →
    a.rest.length + 1 ≤ f1 → a.rest.length + 1 ≤ f2 → (LSt.runeLoop f2 bq a).ok = true →
    ∃ s', St.runeLoop f1 bq s = .ok s' ∧ R s' (LSt.runeLoop f2 bq a) := by
  induction f1 with
  | zero => intro f2 bq s a _ h1; omega
  | succ n ih =>
    intro f2 bq s a h h1 h2 hok
    cases f2 with
    | zero => omega
    | succ m =>
      unfold LSt.runeLoop at hok ⊢
      unfold St.runeLoop
      have hoks : (LSt.runeStep bq a).st.ok = true := by
        cases hs : LSt.runeStep bq a with
        | done a' => rw [hs] at hok; exact hok
        | retry bq' a' => rw [hs] at hok; exact loop_ok_le m bq' a' hok
      obtain ⟨st, hst, hrel⟩ := runeStep_refines bq h (forget_ok_halted (step_ok_forget bq a hoks))
      simp only [hst, bind_ok]
      cases hs : LSt.runeStep bq a with
      | done a' =>
        rw [hs] at hrel hok
        cases st with
        | done s' => exact ⟨s', rfl, hrel⟩
        | retry _ _ => exact absurd hrel (by simp [StepR])
      | retry bq' a' =>
        rw [hs] at hrel hok
        have hlt := step_retry_lt hs
        cases st with
        | done s' => exact absurd hrel (by simp [StepR])
        | retry bq'' s' =>
          obtain ⟨hbq, hR'⟩ := hrel
          subst hbq
          exact ih m bq'' hR' (by omega) (by omega) hok

theorem R.rest_le {s a} (h : R s a) : a.rest.length ≤ s.total := by
  cases he : a.err with
  | some e => rw [(h.dead (by simp [he])).1]; simp
  | none =>
    rw [(h.alive he).1]
    have := h.tot
    simp; omega

theorem R.setLineCol {s a} (h : R s a) (l c : Nat) :
    R { s with line := l, col := c } { a with line := l, col := c } := by
  destruct_R h
  constructor <;> simp_all <;> assumption

theorem runePre_refines {s a} (h : R s a) : R s.runePre a.runePre := by
  unfold St.runePre LSt.runePre
  have hr := h.f_r
  have hw := h.f_w
  have hl := h.f_line
  have hc := h.f_col
  rw [hr]
  split
  · have := h.setLineCol (s.line + 1) (0 + s.w)
    simpa [hw, hl, hc, hr] using this
  · have := h.setLineCol s.line (s.col + s.w)
    simpa [hw, hl, hc, hr] using this

/-- **`rune` of the chunked byte source refines `rune` of the unchunked one.** -/
theorem rune_refines {s a} (h : R s a) (hok : a.rune.2.ok = true) :
    ∃ s', s.rune = .ok (a.rune.1, s') ∧ R s' a.rune.2 := by
  unfold LSt.rune at hok ⊢
  unfold St.rune
  simp only at hok ⊢
  have hR0 := runePre_refines h
  generalize s.runePre = s0 at hR0 ⊢
  generalize a.runePre = a0 at hR0 hok ⊢
  obtain ⟨s', h1, h2⟩ := runeLoop_refines (s0.total + 2) (a0.rest.length + 2) 0 hR0
    (by have := hR0.rest_le; omega) (by omega) hok
  refine ⟨s', ?_, h2⟩
  simp only [h1, bind_ok, pure_eq_ok]
  rw [h2.f_r]

end ShVerif.C07
