import ShVerif.Proofs.C26j
/-
  C26 — simulation: one iteration of a loop (`loopStmtsBroken` + the caller's test of its result
  against `afterBody` in `BashSem`).
-/
namespace ShVerif.C26
open ShVerif.L5 ShVerif.L5.Bash

/-- The static context of a loop body. -/
def bodyK (K : SCtx) : SCtx := { K with tl := true :: K.tl }

theorem Stat.body {K : SCtx} {k : Ctx} {sub : Bool} (h : Stat K k sub) :
    Stat (bodyK K) { k with depth := k.depth + 1 } sub :=
  ⟨h.kt, h.kign, h.knign, h.kfn, by have := h.depth; simp [bodyK]; omega, h.top⟩

theorem Dyn.body {K : SCtx} {k : Ctx} {sub : Bool} {s : St} (h : Dyn K k sub s) :
    Dyn (bodyK K) { k with depth := k.depth + 1 } sub { s with inLoop := true } :=
  ⟨h.cerr, h.csub, h.fok, h.ht, h.eign, h.noe, h.sfn, fun _ => rfl⟩

/-- Back from a loop body: `inLoop` is restored. -/
theorem Dyn.unbody {K : SCtx} {k : Ctx} {sub : Bool} {s s1 : St}
    (h0 : Dyn K k sub s) (h : Dyn (bodyK K) { k with depth := k.depth + 1 } sub s1) (x : Int)
    (y : Int) :
    Dyn K k sub { s1 with inLoop := s.inLoop, breakEnclosing := x, contnEnclosing := y } :=
  ⟨h.cerr, h.csub, h.fok, h.ht, h.eign, h.noe, h.sfn, h0.inl⟩

theorem Levels.pred {K : SCtx} {m : Nat} (h : Levels (bodyK K) (m + 2)) :
    Levels K (m + 1) := by
  obtain ⟨_, h2, h3⟩ := h
  simp only [bodyK, List.length_cons] at h2
  simp only [bodyK, List.take_succ_cons, List.all_cons, id_eq, Bool.true_and] at h3
  exact ⟨by omega, by omega, h3⟩

/-- Result of one iteration. -/
def IterRel (K : SCtx) (k : Ctx) (sub : Bool) (z w : Prop) (s3 : St) :
    Option (St × Bool) → Res → Prop
  | none, none => True
  | some (s4, br), some (fl, e2) =>
    ((afterBody fl).1 = false ∧ br = false ∧ Dyn K k sub s4 ∧ Frame s3 s4 ∧ LastOk s4 ∧ NoFlags s4 ∧
        NoPending s4 ∧ e2 = absEnv s4 ∧ e2.status = s4.exit.code ∧ s4.lastExit = s4.exit ∧
        (z → s4.exit.code = 0) ∧ (w → Quiet s4)) ∨
    ((afterBody fl).1 = true ∧ Post K k sub False True s3 s4 (afterBody fl).2 e2 ∧
        (br = true ∨ stop s4 = true))
  | _, _ => False

theorem loopStmtsBroken_eq (f : Stmt → St → Option St) (b : Prog) (s : St) :
    loopStmtsBroken f b s =
      match foldBody f b { s with inLoop := true } with
      | none => none
      | some r => some ({ r.1 with inLoop := s.inLoop }, r.2) := by
  unfold loopStmtsBroken
  cases foldBody f b { s with inLoop := true } with
  | none => rfl
  | some r => rfl

theorem sim_iter {n : Nat} (hS : SimS n) (z w : Prop) {K : SCtx} {k : Ctx} {sub : Bool}
    (b : Prog) (s3 : St) (hst : Stat K k sub) (hb0 : b.isNil = false)
    (hsup : supBody (bodyK K) b = true) (hzb : z → lastZero b = true)
    (hwb : w → tailOk b = true)
    (hd : Dyn K k sub s3) (hl : LastOk s3) (hnf : NoFlags s3) (hnp : NoPending s3) :
    IterRel K k sub z w s3 (loopStmtsBroken (fun st => run n (.stmt st)) b s3)
      (seqList (fun st => sem n { k with depth := k.depth + 1 } (.stmt st)) b (absEnv s3)) := by
  have h0 := sim_body n hS z w b (bodyK K) { k with depth := k.depth + 1 } sub
    { s3 with inLoop := true } hst.body hsup hd.body hl hnf hnp
    (fun h => by rw [hb0] at h; cases h) (fun _ h => by rw [hb0] at h; cases h) hzb
    (fun _ h => by rw [hb0] at h; cases h) hwb
  have hae : absEnv { s3 with inLoop := true } = absEnv s3 := rfl
  rw [hae] at h0
  rw [loopStmtsBroken_eq]
  cases hr : foldBody (fun st => run n (.stmt st)) b { s3 with inLoop := true } with
  | none =>
    rw [hr] at h0
    cases hs : seqList (fun st => sem n { k with depth := k.depth + 1 } (.stmt st)) b (absEnv s3) with
    | none => trivial
    | some r => rw [hs] at h0; exact absurd h0 (by simp [BodyRel])
  | some r =>
    rw [hr] at h0
    cases hs : seqList (fun st => sem n { k with depth := k.depth + 1 } (.stmt st)) b (absEnv s3) with
    | none => rw [hs] at h0; exact absurd h0 (by simp [BodyRel])
    | some pr =>
      rw [hs] at h0
      obtain ⟨fl, e2⟩ := pr
      obtain ⟨s1, hp, hfin, hz, hw⟩ := h0
      subst hfin
      simp only [IterRel]
      cases fl with
      | norm =>
        obtain ⟨h1, h2, h3, h4, h5, h6, _⟩ := hp
        subst h1
        have hle : s1.lastExit = s1.exit := h6 trivial
        left
        simp only [afterBody, finishBody]
        refine ⟨trivial, trivial, ?_, ⟨h3.ne, rfl, h3.inf⟩, LastOk_of_le hle h4, h4, h5, ?_, rfl, hle,
          fun hz' => hz hz' rfl, fun hw' => hw hw' rfl⟩
        · exact ⟨h2.cerr, h2.csub, h2.fok, h2.ht, h2.eign, h2.noe, h2.sfn, hd.inl⟩
        · simp [absEnv, absEnvC, hle]
      | cont m =>
        obtain ⟨h1, h2, h3, h4, hc, hbk, hlv, hz0, h6⟩ := hp
        subst h1
        have hle : s1.lastExit = s1.exit := h6 trivial
        have hm1 := hlv.1
        cases m with
        | zero => omega
        | succ m' =>
          cases m' with
          | zero =>
            -- `continue 1`: next iteration
            left
            simp only [afterBody, finishBody, hc]
            refine ⟨trivial, by decide, ?_, ⟨h3.ne, rfl, h3.inf⟩, LastOk_of_le hle h4, h4,
              ⟨hbk, by simp⟩, ?_, rfl, hle, fun _ => hz0, fun _ hne => absurd hz0 hne⟩
            · exact ⟨h2.cerr, h2.csub, h2.fok, h2.ht, h2.eign, h2.noe, h2.sfn, hd.inl⟩
            · simp [absEnv, absEnvC, hle]
          | succ m'' =>
            right
            simp only [afterBody, finishBody, hc]
            refine ⟨trivial, ⟨?_, ?_, ⟨h3.ne, rfl, h3.inf⟩, h4, ?_, hbk, hlv.pred, hz0,
              fun h => h.elim⟩, Or.inl ?_⟩
            · simp [absEnvC]
            · exact ⟨h2.cerr, h2.csub, h2.fok, h2.ht, h2.eign, h2.noe, h2.sfn, hd.inl⟩
            · show ((m'' + 1 + 1 : Nat) : Int) - 1 = ((m'' + 1 : Nat) : Int)
              omega
            · first | (simp; done) | (simp; omega)
      | brk m =>
        obtain ⟨h1, h2, h3, h4, hbk, hc, hlv, hz0, h6⟩ := hp
        subst h1
        have hm1 := hlv.1
        cases m with
        | zero => omega
        | succ m' =>
          right
          cases m' with
          | zero =>
            simp only [afterBody, finishBody, hbk]
            refine ⟨trivial, ⟨?_, ?_, ⟨h3.ne, rfl, h3.inf⟩, h4, ⟨by simp, hc⟩, fun h => h.elim,
              fun _ hne => absurd hz0 hne⟩, Or.inl (by triv)⟩
            · simp [absEnvC]
            · exact ⟨h2.cerr, h2.csub, h2.fok, h2.ht, h2.eign, h2.noe, h2.sfn, hd.inl⟩
          | succ m'' =>
            simp only [afterBody, finishBody, hbk]
            refine ⟨trivial, ⟨?_, ?_, ⟨h3.ne, rfl, h3.inf⟩, h4, ?_, hc, hlv.pred, hz0,
              fun h => h.elim⟩, Or.inl (by triv)⟩
            · simp [absEnvC]
            · exact ⟨h2.cerr, h2.csub, h2.fok, h2.ht, h2.eign, h2.noe, h2.sfn, hd.inl⟩
            · show ((m'' + 1 + 1 : Nat) : Int) - 1 = ((m'' + 1 : Nat) : Int)
              omega
      | ret =>
        have hs := hp.stopped (Or.inl rfl)
        obtain ⟨h1, h2, h3, h5, hr', hfn, _, hex⟩ := hp
        right
        simp only [afterBody, finishBody]
        exact ⟨trivial, ⟨h1, ⟨h2.cerr, h2.csub, h2.fok, h2.ht, h2.eign, h2.noe, h2.sfn, hd.inl⟩,
          ⟨h3.ne, rfl, h3.inf⟩, h5, hr', hfn, fun h => h.elim, hex⟩, Or.inr hs⟩
      | exit =>
        have hs := hp.stopped (Or.inr rfl)
        right
        simp only [afterBody, finishBody]
        exact ⟨trivial, hp, Or.inr hs⟩

end ShVerif.C26
