import ShVerif.Proofs.C26l
/-
  C26 — simulation: `for` loops.
-/
namespace ShVerif.C26
open ShVerif.L5 ShVerif.L5.Bash

/-- What the (stopped) `for` loop of the runner leaves alone while it spins through the
    remaining items. -/
structure SameX (s s' : St) : Prop where
  ex : s'.exit = s.exit
  out : s'.out = s.out
  cex : s'.callbackExit = s.callbackExit
  cer : s'.callbackErr = s.callbackErr
  ht : s'.handlingTrap = s.handlingTrap
  bk : s'.breakEnclosing = s.breakEnclosing
  ct : s'.contnEnclosing = s.contnEnclosing

theorem SameX.refl (s : St) : SameX s s := ⟨rfl, rfl, rfl, rfl, rfl, rfl, rfl⟩

theorem SameX.trans {a b c : St} (h1 : SameX a b) (h2 : SameX b c) : SameX a c :=
  ⟨h2.ex.trans h1.ex, h2.out.trans h1.out, h2.cex.trans h1.cex, h2.cer.trans h1.cer,
    h2.ht.trans h1.ht, h2.bk.trans h1.bk, h2.ct.trans h1.ct⟩

theorem SameX.stop {s s' : St} (h : SameX s s') : stop s' = stop s := by
  unfold L5.stop; rw [h.ex, h.ht]

theorem forLoop_stopped {n : Nat} (hn : 1 ≤ n) (x : Str) (b : Prog) :
    ∀ (items : List Str) (s : St), stop s = true → NoPending s →
      ∃ s', forLoop (fun st => run n (.stmt st)) x b items s = some s' ∧ SameX s s'
  | [], s, _, _ => ⟨s, rfl, SameX.refl s⟩
  | it :: rest, s, hs, hp => by
    have hs1 : stop { s with vars := (x, it) :: s.vars } = true := hs
    have hp1 : NoPending { s with vars := (x, it) :: s.vars } := hp
    rw [forLoop, loopStmtsBroken_stopped hn b _ hs1 hp1]
    simp only [Bool.false_eq_true, ↓reduceIte]
    obtain ⟨s', h1, h2⟩ := forLoop_stopped hn x b rest _ hs1 hp1
    have h0 : SameX s { s with vars := (x, it) :: s.vars } := ⟨rfl, rfl, rfl, rfl, rfl, rfl, rfl⟩
    exact ⟨s', h1, h0.trans h2⟩

theorem Post.exit_congr {K : SCtx} {k : Ctx} {sub : Bool} {le q : Prop} {s0 s s' : St} {e : Env}
    (h : Post K k sub le q s0 s .exit e) (hx : SameX s s') : Post K k sub le q s0 s' .exit e := by
  obtain ⟨h1, h2, h3, h4, h5, h6, h7, h8, h9⟩ := h
  refine ⟨by rw [hx.ex]; exact h1, by rw [hx.ex]; exact h2, by rw [hx.ex]; exact h3,
    by rw [hx.out]; exact h4, by rw [hx.cex]; exact h5, ⟨fun hs => by rw [hx.cex]; exact h6.1 hs, by rw [hx.cex]; exact h6.2⟩,
    by rw [hx.ht]; exact h7, by rw [hx.cer]; exact h8, ?_⟩
  exact ⟨by rw [hx.bk]; exact h9.1, by rw [hx.ct]; exact h9.2⟩

theorem sim_forLoop {n : Nat} (hS : SimS n) {K : SCtx} {k : Ctx} {sub : Bool} (x : Str) (b : Prog)
    (w : Prop) (hst : Stat K k sub) (hb0 : b.isNil = false)
    (hsb : supBody (bodyK K true) b = true) (hwb : w → tailOk b = true) :
    ∀ (items : List Str) (s : St), Dyn K k sub s → LastOk s → NoFlags s → NoPending s →
      (items = [] → s.lastExit = s.exit ∧ (w → Quiet s)) →
      Rel (Post K k sub False w s)
        (forLoop (fun st => run n (.stmt st)) x b items s)
        (forItems (fun st => sem n { k with depth := k.depth + 1 } (.stmt st)) x b items (absEnv s))
  | [], s, hd, _, hnf, hnp, hle => by
    obtain ⟨hle, hq⟩ := hle rfl
    simp only [forLoop, forItems, Rel, Post]
    refine ⟨?_, hd, ⟨rfl, rfl, rfl⟩, hnf, hnp, fun h => h.elim, hq⟩
    simp [absEnv, absEnvC, hle]
  | it :: rest, s, hd, hl, hnf, hnp, _ => by
    rw [forLoop, forItems]
    have hae : ({ absEnv s with vars := (x, it) :: (absEnv s).vars } : Env) =
        absEnv { s with vars := (x, it) :: s.vars } := rfl
    rw [hae]
    have hd1 : Dyn K k sub { s with vars := (x, it) :: s.vars } :=
      hd.congr rfl rfl rfl rfl rfl rfl rfl rfl
    have hit := sim_iter hS False w true b { s with vars := (x, it) :: s.vars } hst hb0 hsb
      (fun h => h.elim) hwb hd1 hl hnf hnp
    have hf1 : Frame s { s with vars := (x, it) :: s.vars } := ⟨rfl, rfl, rfl⟩
    cases hlb : loopStmtsBroken (fun st => run n (.stmt st)) b { s with vars := (x, it) :: s.vars } with
    | none =>
      rw [hlb] at hit
      cases hsb2 : seqList (fun st => sem n { k with depth := k.depth + 1 } (.stmt st)) b
          (absEnv { s with vars := (x, it) :: s.vars }) with
      | none => trivial
      | some r => rw [hsb2] at hit; exact absurd hit (by simp [IterRel])
    | some r =>
      obtain ⟨s4, br⟩ := r
      rw [hlb] at hit
      cases hsb2 : seqList (fun st => sem n { k with depth := k.depth + 1 } (.stmt st)) b
          (absEnv { s with vars := (x, it) :: s.vars }) with
      | none => rw [hsb2] at hit; exact absurd hit (by simp [IterRel])
      | some pr =>
        obtain ⟨fl2, e2⟩ := pr
        rw [hsb2] at hit
        simp only
        have hn1 : 1 ≤ n := by
          cases n with
          | zero =>
            cases b with
            | nil => simp [Prog.isNil] at hb0
            | cons st r => simp [seqList, sem] at hsb2
          | succ m => omega
        rcases hit with ⟨hab, hbr, hd4, hf4, hl4, hnf4, hnp4, he2, _, hle4, _, hw4⟩ | ⟨hab, hpo, hbs, hnr⟩
        · subst hbr
          have hab' : afterBody fl2 = (false, (afterBody fl2).2) := by rw [← hab]
          rw [hab']
          simp only [Bool.false_eq_true, ↓reduceIte]
          rw [he2]
          have ih := sim_forLoop hS x b w hst hb0 hsb hwb rest s4 hd4 hl4 hnf4 hnp4
            (fun _ => ⟨hle4, hw4⟩)
          exact Rel_mono (fun _ _ _ h => h.frame_trans (hf1.trans hf4)) ih
        · have hab' : afterBody fl2 = (true, (afterBody fl2).2) := by rw [← hab]
          rw [hab']
          simp only
          have hpo' := (hpo.frame_trans hf1).mono_q (q' := w) (fun _ => trivial)
          cases br with
          | true => simp only [↓reduceIte]; exact hpo'
          | false =>
            simp only [Bool.false_eq_true, ↓reduceIte]
            have hs4 : stop s4 = true := by
              rcases hbs with h | h
              · cases h
              · exact h
            -- only `exit` stops the runner here (`return` cannot come out of a `for` body)
            have hfl : (afterBody fl2).2 = .exit := by
              cases fl2 with
              | norm => simp [afterBody] at hab
              | ret => exact absurd rfl (hnr rfl)
              | exit => rfl
              | brk m =>
                exfalso
                have : NoFlags s4 := by
                  rcases m with _ | _ | m <;> simp only [afterBody] at hpo <;> first | exact hpo.2.2.2.1
                rw [not_stop this] at hs4; cases hs4
              | cont m =>
                exfalso
                rcases m with _ | _ | m
                · simp [afterBody] at hab
                · simp [afterBody] at hab
                · simp only [afterBody] at hpo
                  have : NoFlags s4 := hpo.2.2.2.1
                  rw [not_stop this] at hs4; cases hs4
            rw [hfl] at hpo'
            have hnp4 : NoPending s4 := hpo'.2.2.2.2.2.2.2.2
            obtain ⟨s', hrun, hsx⟩ := forLoop_stopped hn1 x b rest s4 hs4 hnp4
            rw [hrun, hfl]
            exact hpo'.exit_congr hsx

end ShVerif.C26
