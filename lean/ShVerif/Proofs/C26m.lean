import ShVerif.Proofs.C26l
/-
  C26 — simulation: `for` loops.
-/
namespace ShVerif.C26
open ShVerif.L5 ShVerif.L5.Bash

/-- A stopped runner leaves the `for` loop at its next `stop()` check. -/
theorem forLoop_stopped (f : Stmt → St → Option St) (x : Str) (b : Prog) (items : List Str) (s : St)
    (hs : stop s = true) : forLoop f x b items s = some s := by
  cases items with
  | nil => rfl
  | cons it rest => rw [forLoop]; simp only [hs, ↓reduceIte]

theorem sim_forLoop {n : Nat} (hS : SimS n) {K : SCtx} {k : Ctx} {sub : Bool} (x : Str) (b : Prog)
    (w : Prop) (hst : Stat K k sub) (hb0 : b.isNil = false)
    (hsb : supBody (bodyK K) b = true) (hwb : w → tailOk b = true) :
    ∀ (items : List Str) (s : St), Dyn K k sub s → LastOk s → NoFlags s → NoPending s →
      (items = [] → s.lastExit = s.exit ∧ (w → Quiet s)) →
      Rel (Post K k sub False w s)
        (forLoop (fun st => run n (.stmt st)) x b items s)
        (forItems (fun st => sem n { k with depth := k.depth + 1 } (.stmt st)) x b items (absEnv s))
  | [], s, hd, _, hnf, hnp, hle => by
    obtain ⟨hle, hq⟩ := hle rfl
    simp only [forLoop, forItems, Rel, Post]
    refine ⟨?_, hd, ⟨rfl, rfl, rfl⟩, hnf, hnp, fun h => h.elim, hq⟩
    simp [absEnv, absEnvC, hle]
  | it :: rest, s, hd, hl, hnf, hnp, _ => by
    rw [forLoop, forItems, if_neg (by rw [not_stop hnf]; simp)]
    have hae : ({ absEnv s with vars := (x, it) :: (absEnv s).vars } : Env) =
        absEnv { s with vars := (x, it) :: s.vars } := rfl
    rw [hae]
    have hd1 : Dyn K k sub { s with vars := (x, it) :: s.vars } :=
      hd.congr rfl rfl rfl rfl rfl rfl rfl rfl
    have hit := sim_iter hS False w b { s with vars := (x, it) :: s.vars } hst hb0 hsb
      (fun h => h.elim) hwb hd1 hl hnf hnp
    have hf1 : Frame s { s with vars := (x, it) :: s.vars } := ⟨rfl, rfl, rfl⟩
    cases hlb : loopStmtsBroken (fun st => run n (.stmt st)) b { s with vars := (x, it) :: s.vars } with
    | none =>
      rw [hlb] at hit
      cases hsb2 : seqList (fun st => sem n { k with depth := k.depth + 1 } (.stmt st)) b
          (absEnv { s with vars := (x, it) :: s.vars }) with
      | none => trivial
      | some r => rw [hsb2] at hit; exact absurd hit (by simp [IterRel])
    | some r =>
      obtain ⟨s4, br⟩ := r
      rw [hlb] at hit
      cases hsb2 : seqList (fun st => sem n { k with depth := k.depth + 1 } (.stmt st)) b
          (absEnv { s with vars := (x, it) :: s.vars }) with
      | none => rw [hsb2] at hit; exact absurd hit (by simp [IterRel])
      | some pr =>
        obtain ⟨fl2, e2⟩ := pr
        rw [hsb2] at hit
        simp only
        have hn1 : 1 ≤ n := by
          cases n with
          | zero =>
            cases b with
            | nil => simp [Prog.isNil] at hb0
            | cons st r => simp [seqList, sem] at hsb2
          | succ m => omega
        rcases hit with ⟨hab, hbr, hd4, hf4, hl4, hnf4, hnp4, he2, _, hle4, _, hw4⟩ | ⟨hab, hpo, hbs⟩
        · subst hbr
          have hab' : afterBody fl2 = (false, (afterBody fl2).2) := by rw [← hab]
          rw [hab']
          simp only [Bool.false_eq_true, ↓reduceIte]
          rw [he2]
          have ih := sim_forLoop hS x b w hst hb0 hsb hwb rest s4 hd4 hl4 hnf4 hnp4
            (fun _ => ⟨hle4, hw4⟩)
          exact Rel_mono (fun _ _ _ h => h.frame_trans (hf1.trans hf4)) ih
        · have hab' : afterBody fl2 = (true, (afterBody fl2).2) := by rw [← hab]
          rw [hab']
          simp only
          have hpo' := (hpo.frame_trans hf1).mono_q (q' := w) (fun _ => trivial)
          cases br with
          | true => simp only [↓reduceIte]; exact hpo'
          | false =>
            simp only [Bool.false_eq_true, ↓reduceIte]
            have hs4 : stop s4 = true := by
              rcases hbs with h | h
              · cases h
              · exact h
            rw [forLoop_stopped _ x b rest s4 hs4]
            exact hpo'

end ShVerif.C26
