import ShVerif.Proofs.C26m
/-
  C26 — simulation: `case`.
-/
namespace ShVerif.C26
open ShVerif.L5 ShVerif.L5.Bash

theorem caseLoop_stopped {n : Nat} (hn : 1 ≤ n) (str : Str) :
    ∀ (items : Items) (rn : Bool) (s : St), stop s = true →
      caseLoop (fun st => run n (.stmt st)) str rn items s = some s
  | .nil, _, _, _ => rfl
  | .cons pats body op rest, rn, s, hs => by
    rw [caseLoop]
    split
    · exact caseLoop_stopped hn str rest rn s hs
    · rw [foldStmts_stopped hn body s hs]
      cases op with
      | brk => rfl
      | fall => exact caseLoop_stopped hn str rest true s hs
      | resume => exact caseLoop_stopped hn str rest false s hs

theorem quiet_of_zero {s : St} (h : s.exit.code = 0) : Quiet s := fun hne => absurd h hne

theorem sim_caseLoop {n : Nat} (hS : SimS n) {K : SCtx} {k : Ctx} {sub : Bool} (str : Str)
    (hst : Stat K k sub) (s0 : St) :
    ∀ (items : Items) (chain rn ne : Bool) (s : St),
      supItems K chain items = true → Dyn K k sub s → LastOk s → NoFlags s → NoPending s →
      Frame s0 s → (ne = true → chain = true ∧ s.lastExit = s.exit) → (ne = false → s.exit = {}) →
      Quiet s →
      Rel (Post K k sub False True s0)
        (caseLoop (fun st => run n (.stmt st)) str rn items s)
        (caseItems (fun st => sem n k (.stmt st)) str rn ne items (absEnv s))
  | .nil, chain, rn, ne, s, _, hd, _, hnf, hnp, hfr, hne1, hne0, hq => by
    simp only [caseLoop, caseItems, Rel, Post]
    refine ⟨?_, hd, hfr, hnf, hnp, fun h => h.elim, fun _ => hq⟩
    cases ne with
    | true => simp [caseDone, absEnv, absEnvC, (hne1 rfl).2]
    | false => simp [caseDone, absEnv, absEnvC, hne0 rfl]
  | .cons pats body op rest, chain, rn, ne, s, hsup, hd, hl, hnf, hnp, hfr, hne1, hne0, hq => by
    rw [caseLoop, caseItems]
    simp only [supItems, Bool.and_eq_true, Bool.not_eq_eq_eq_not, Bool.not_true] at hsup
    obtain ⟨hnil, hsup⟩ := hsup
    by_cases hsel : (rn || pats.any (patMatches str)) = true
    · have hskip : ¬ ((!rn && !pats.any (patMatches str)) = true) := by
        simp only [Bool.or_eq_true] at hsel
        simp only [Bool.and_eq_true, Bool.not_eq_eq_eq_not, Bool.not_true]
        rintro ⟨h1, h2⟩
        rcases hsel with h | h
        · rw [h1] at h; cases h
        · rw [h2] at h; cases h
      rw [if_neg hskip, if_pos hsel]
      cases hb : body.isNil with
      | true =>
        -- an empty clause: nothing runs
        have hbn : body = .nil := by
          cases body with
          | nil => rfl
          | cons _ _ => simp [Prog.isNil] at hb
        subst hbn
        have hchain : chain = false := by
          cases chain with
          | false => rfl
          | true => simp [Prog.isNil] at hnil
        have hnef : ne = false := by
          cases ne with
          | false => rfl
          | true => have := (hne1 rfl).1; rw [hchain] at this; cases this
        subst hnef
        have hx0 := hne0 rfl
        simp only [foldStmts, seqList, Bool.not_true]
        cases op with
        | brk =>
          simp only [Rel, Post]
          refine ⟨?_, hd, hfr, hnf, hnp, fun h => h.elim, fun _ => hq⟩
          simp [caseDone, absEnv, absEnvC, hx0]
        | fall =>
          simp only [Bool.and_eq_true] at hsup
          exact sim_caseLoop hS str hst s0 rest true true false s hsup.2 hd hl hnf hnp hfr
            (fun h => by cases h) (fun _ => hx0) hq
        | resume =>
          simp only [Bool.and_eq_true] at hsup
          exact sim_caseLoop hS str hst s0 rest true false false s hsup.2 hd hl hnf hnp hfr
            (fun h => by cases h) (fun _ => hx0) hq
      | false =>
        simp only [Bool.not_false]
        cases op with
        | brk =>
          simp only [Bool.and_eq_true] at hsup
          have h0 := sim_list n hS body K true k sub s hb hst hsup.1 hd hl hnf hnp
          cases hr : foldStmts (fun st => run n (.stmt st)) body s with
          | none => rw [hr] at h0; rw [Rel_none h0]; trivial
          | some s1 =>
            rw [hr] at h0
            obtain ⟨fl, e1, he, hp⟩ := Rel_some h0
            rw [he]
            have hp' : Post K k sub False True s0 s1 fl e1 :=
              ((hp.frame_trans hfr).mono_q (fun _ => rfl)).weaken_le
            cases fl with
            | norm => simp only [caseDone, ↓reduceIte]; exact hp'
            | brk m => exact hp'
            | cont m => exact hp'
            | ret => exact hp'
            | exit => exact hp'
        | fall =>
          simp only [Bool.and_eq_true] at hsup
          have h0 := sim_list n hS body { K with tl := headFalse K.tl } true k sub s hb hst.toHF hsup.1
            hd.toHF hl hnf hnp
          cases hr : foldStmts (fun st => run n (.stmt st)) body s with
          | none => rw [hr] at h0; rw [Rel_none h0]; trivial
          | some s1 =>
            rw [hr] at h0
            obtain ⟨fl, e1, he, hp⟩ := Rel_some h0
            rw [he]
            have hn1 : 1 ≤ n := foldStmts_pos hb hr
            obtain ⟨hpK, hnb, hnc⟩ := hp.ofHF
            have hp' : Post K k sub False True s0 s1 fl e1 :=
              ((hpK.frame_trans hfr).mono_q (fun _ => rfl)).weaken_le
            cases fl with
            | norm =>
              obtain ⟨h1, h2, h3, h4, h5, h6, h7⟩ := hpK
              subst h1
              have hle : s1.lastExit = s1.exit := h6 trivial
              have hae : absEnvC s1 = absEnv s1 := by simp [absEnv, absEnvC, hle]
              simp only
              rw [hae]
              exact sim_caseLoop hS str hst s0 rest true true true s1 hsup.2 h2 (LastOk_of_le hle h4) h4 h5
                (hfr.trans h3) (fun _ => ⟨rfl, hle⟩) (fun h => by cases h) (h7 rfl)
            | brk m => exact absurd rfl (hnb m)
            | cont m => exact absurd rfl (hnc m)
            | ret =>
              simp only
              rw [caseLoop_stopped hn1 str rest true s1 (hpK.stopped (Or.inl rfl))]
              exact hp'
            | exit =>
              simp only
              rw [caseLoop_stopped hn1 str rest true s1 (hpK.stopped (Or.inr rfl))]
              exact hp'
        | resume =>
          simp only [Bool.and_eq_true] at hsup
          have h0 := sim_list n hS body { K with tl := headFalse K.tl } true k sub s hb hst.toHF hsup.1
            hd.toHF hl hnf hnp
          cases hr : foldStmts (fun st => run n (.stmt st)) body s with
          | none => rw [hr] at h0; rw [Rel_none h0]; trivial
          | some s1 =>
            rw [hr] at h0
            obtain ⟨fl, e1, he, hp⟩ := Rel_some h0
            rw [he]
            have hn1 : 1 ≤ n := foldStmts_pos hb hr
            obtain ⟨hpK, hnb, hnc⟩ := hp.ofHF
            have hp' : Post K k sub False True s0 s1 fl e1 :=
              ((hpK.frame_trans hfr).mono_q (fun _ => rfl)).weaken_le
            cases fl with
            | norm =>
              obtain ⟨h1, h2, h3, h4, h5, h6, h7⟩ := hpK
              subst h1
              have hle : s1.lastExit = s1.exit := h6 trivial
              have hae : absEnvC s1 = absEnv s1 := by simp [absEnv, absEnvC, hle]
              simp only
              rw [hae]
              exact sim_caseLoop hS str hst s0 rest true false true s1 hsup.2 h2 (LastOk_of_le hle h4) h4 h5
                (hfr.trans h3) (fun _ => ⟨rfl, hle⟩) (fun h => by cases h) (h7 rfl)
            | brk m => exact absurd rfl (hnb m)
            | cont m => exact absurd rfl (hnc m)
            | ret =>
              simp only
              rw [caseLoop_stopped hn1 str rest false s1 (hpK.stopped (Or.inl rfl))]
              exact hp'
            | exit =>
              simp only
              rw [caseLoop_stopped hn1 str rest false s1 (hpK.stopped (Or.inr rfl))]
              exact hp'
    · have hskip : (!rn && !pats.any (patMatches str)) = true := by
        simp only [Bool.or_eq_true, not_or, Bool.not_eq_true] at hsel
        simp [hsel.1, hsel.2]
      have hrn : rn = false := by
        simp only [Bool.or_eq_true, not_or, Bool.not_eq_true] at hsel
        exact hsel.1
      rw [if_pos hskip, if_neg hsel]
      subst hrn
      have hsup' : supItems K chain rest = true ∨ supItems K true rest = true := by
        cases op with
        | brk => simp only [Bool.and_eq_true] at hsup; exact Or.inl hsup.2
        | fall => simp only [Bool.and_eq_true] at hsup; exact Or.inr hsup.2
        | resume => simp only [Bool.and_eq_true] at hsup; exact Or.inr hsup.2
      rcases hsup' with h | h
      · exact sim_caseLoop hS str hst s0 rest chain false ne s h hd hl hnf hnp hfr hne1 hne0 hq
      · exact sim_caseLoop hS str hst s0 rest true false ne s h hd hl hnf hnp hfr
          (fun h' => ⟨rfl, (hne1 h').2⟩) hne0 hq

end ShVerif.C26
