import ShVerif.Proofs.C26i
/-
  C26 — simulation: loop bodies (`Runner.loopStmtsBroken` against `break n`/`continue n`
  completions).
-/
namespace ShVerif.C26
open ShVerif.L5 ShVerif.L5.Bash

/-- What `loopStmtsBroken` does when a statement of the body completed with `fl`. -/
def finishBody : Flow → St → St × Bool
  | .cont _, s1 =>
    ({ s1 with contnEnclosing := s1.contnEnclosing - 1 }, decide (s1.contnEnclosing - 1 > 0))
  | .brk _, s1 => ({ s1 with breakEnclosing := s1.breakEnclosing - 1 }, true)
  | _, s1 => (s1, false)

/-- Relation for loop bodies: the statement-level relation for the state *before*
    `loopStmtsBroken` decrements the counters. -/
def BodyRel (K : SCtx) (k : Ctx) (sub : Bool) (z w : Prop) (s : St) :
    Option (St × Bool) → Res → Prop
  | none, none => True
  | some r, some (fl, e') =>
    ∃ s1, Post K k sub True False s s1 fl e' ∧ r = finishBody fl s1 ∧
      (z → fl = .norm → s1.exit.code = 0) ∧ (w → fl = .norm → Quiet s1)
  | _, _ => False

theorem tailOk_cons_cons (st st2 : Stmt) (rest : Prog) :
    tailOk (.cons st (.cons st2 rest)) = tailOk (.cons st2 rest) := by
  simp [tailOk, lastStmt]

/-- Commands that always return 0 do so in `BashSem` (when they complete normally). -/
theorem sem_zero_stmt {n : Nat} {k : Ctx} {c : Cmd} (hc : zeroCmd c = true) {e e1 : Env}
    (h : sem n k (.stmt (.mk false c)) e = some (.norm, e1)) : e1.status = 0 := by
  cases n with
  | zero => simp [sem] at h
  | succ m =>
    rw [sem_stmt_nonneg] at h
    cases m with
    | zero => simp [sem] at h
    | succ m' =>
      cases c <;> simp [zeroCmd] at hc
      case tru => simp [sem, swrap] at h; rw [← h]
      case echo w => simp [sem, swrap] at h; rw [← h]
      case assign x w => simp [sem, swrap] at h; rw [← h]
      case setE on => simp [sem, swrap] at h; rw [← h]
      case setPF on => simp [sem, swrap] at h; rw [← h]
      case trapExit b => simp [sem, swrap] at h; rw [← h]
      case fn f b => simp [sem, swrap, isChecked] at h; rw [← h]
      case brk m =>
        by_cases h1 : k.depth = 0
        · simp [sem, h1, swrap] at h; rw [← h]
        · by_cases h2 : optInt m < 1
          · simp only [sem, h1, h2, ↓reduceIte, swrap] at h
            split at h
            · split at h
              · cases h
              · cases h
              · split at h <;> cases h
            · cases h
          · simp [sem, h1, h2, swrap] at h
      case cont m =>
        by_cases h1 : k.depth = 0
        · simp [sem, h1, swrap] at h; rw [← h]
        · by_cases h2 : optInt m < 1
          · simp only [sem, h1, h2, ↓reduceIte, swrap] at h
            split at h
            · split at h
              · cases h
              · cases h
              · split at h <;> cases h
            · cases h
          · simp [sem, h1, h2, swrap] at h

theorem lastZero_cons_cons (st st2 : Stmt) (rest : Prog) :
    lastZero (.cons st (.cons st2 rest)) = lastZero (.cons st2 rest) := by
  simp [lastZero, lastStmt]

theorem foldBody_fixed (f : Stmt → St → Option St) (s : St) (hf : ∀ st, f st s = some s)
    (hp : NoPending s) : ∀ p : Prog, foldBody f p s = some (s, false)
  | .nil => by simp [foldBody]
  | .cons st rest => by
    rw [foldBody, hf]
    simp only
    rw [if_neg (by rw [hp.2]; decide), if_neg (by rw [hp.1]; decide)]
    exact foldBody_fixed f s hf hp rest

theorem Post.noPending_of_stopped {K : SCtx} {k : Ctx} {sub : Bool} {le q : Prop} {s s' : St}
    {fl : Flow} {e' : Env} (h : Post K k sub le q s s' fl e') (h1 : fl = .ret ∨ fl = .exit) :
    NoPending s' := by
  rcases h1 with h1 | h1 <;> subst h1
  · exact h.2.2.2.1
  · exact h.2.2.2.2.2.2.2.2.1

theorem sim_body (n : Nat) (hS : SimS n) (z w : Prop) :
    ∀ (b : Prog) (K : SCtx) (k : Ctx) (sub : Bool) (s : St),
      Stat K k sub → supBody K b = true → Dyn K k sub s → LastOk s → NoFlags s → NoPending s →
      (b.isNil = true → s.lastExit = s.exit) → (z → b.isNil = true → s.exit.code = 0) →
      (z → lastZero b = true) → (w → b.isNil = true → Quiet s) → (w → tailOk b = true) →
      BodyRel K k sub z w s (foldBody (fun st => run n (.stmt st)) b s)
        (seqList (fun st => sem n k (.stmt st)) b (absEnv s))
  | .nil, K, k, sub, s, _, _, hd, _, hnf, hnp, hle, hz, _, hw, _ => by
    simp only [foldBody, seqList, BodyRel]
    refine ⟨s, ⟨?_, hd, ⟨rfl, rfl, rfl⟩, hnf, hnp, fun _ => hle rfl, fun h => h.elim⟩, rfl,
      fun hz' _ => hz hz' rfl, fun hw' _ => hw hw' rfl⟩
    simp [absEnv, absEnvC, hle rfl]
  | .cons st rest, K, k, sub, s, hst, hsup, hd, hl, hnf, hnp, _, _, hzb, _, hwb => by
    simp only [supBody, Bool.and_eq_true] at hsup
    have h0 := hS K k sub st s hst hsup.1 hd hl hnf hnp
    rw [foldBody, seqList]
    cases hr : run n (.stmt st) s with
    | none => rw [hr] at h0; rw [Rel_none h0]; trivial
    | some s1 =>
      rw [hr] at h0
      obtain ⟨fl, e1, he, hp⟩ := Rel_some h0
      rw [he]
      have hn1 : 1 ≤ n := run_pos hr
      cases fl with
      | norm =>
        obtain ⟨h1, h2, h3, h4, h5, h6, h7⟩ := hp
        subst h1
        have hle : s1.lastExit = s1.exit := h6 trivial
        have hae : absEnvC s1 = absEnv s1 := by simp [absEnv, absEnvC, hle]
        simp only
        rw [if_neg (by rw [h5.2]; decide), if_neg (by rw [h5.1]; decide), hae]
        have hw1 : w → rest.isNil = true → Quiet s1 := by
          intro hw' hrn
          have htl := hwb hw'
          cases rest with
          | cons _ _ => simp [Prog.isNil] at hrn
          | nil => exact h7 (by simpa [tailOk, lastStmt] using htl)
        -- if the rest is empty and `st` is a command that always returns 0, the status is 0
        have hz1 : z → rest.isNil = true → s1.exit.code = 0 := by
          intro hz' hrn
          have hlz := hzb hz'
          cases rest with
          | cons _ _ => simp [Prog.isNil] at hrn
          | nil =>
            obtain ⟨neg, c⟩ := st
            simp only [lastZero, lastStmt, Bool.and_eq_true, Bool.not_eq_eq_eq_not, Bool.not_true] at hlz
            have hneg : neg = false := hlz.1
            subst hneg
            have := sem_zero_stmt hlz.2 he
            simpa [absEnvC] using this
        have ih := sim_body n hS z w rest K k sub s1 hst hsup.2 h2 (LastOk_of_le hle h4) h4 h5
          (fun _ => hle) hz1
          (by
            intro hz'
            have hlz := hzb hz'
            cases rest with
            | cons st2 r2 => rw [lastZero_cons_cons] at hlz; exact hlz
            | nil => rfl)
          hw1
          (by
            intro hw'
            have htl := hwb hw'
            cases rest with
            | cons st2 r2 => rw [tailOk_cons_cons] at htl; exact htl
            | nil => rfl)
        -- transport the frame
        cases hr2 : foldBody (fun st => run n (.stmt st)) rest s1 with
        | none =>
          rw [hr2] at ih
          cases hs2 : seqList (fun st => sem n k (.stmt st)) rest (absEnv s1) with
          | none => trivial
          | some r => rw [hs2] at ih; exact absurd ih (by simp [BodyRel])
        | some r =>
          rw [hr2] at ih
          cases hs2 : seqList (fun st => sem n k (.stmt st)) rest (absEnv s1) with
          | none => rw [hs2] at ih; exact absurd ih (by simp [BodyRel])
          | some pr =>
            rw [hs2] at ih
            obtain ⟨fl2, e2⟩ := pr
            obtain ⟨s2, hp2, hfin, hzz, hww⟩ := ih
            exact ⟨s2, hp2.frame_trans h3, hfin, hzz, hww⟩
      | brk m =>
        have hp' := hp
        obtain ⟨_, _, _, _, hb, hc, hlv, _⟩ := hp
        simp only
        rw [if_neg (by rw [hc]; decide), if_pos (by rw [hb]; have := hlv.1; omega)]
        exact ⟨s1, hp'.change_q_abnormal (by simp), rfl, (fun _ h => by cases h), (fun _ h => by cases h)⟩
      | cont m =>
        have hp' := hp
        obtain ⟨_, _, _, _, hc, _, hlv, _⟩ := hp
        simp only
        rw [if_pos (by rw [hc]; have := hlv.1; omega)]
        exact ⟨s1, hp'.change_q_abnormal (by simp), rfl, (fun _ h => by cases h), (fun _ h => by cases h)⟩
      | ret =>
        have hs := hp.stopped (Or.inl rfl)
        have hnp1 := hp.noPending_of_stopped (Or.inl rfl)
        simp only
        rw [if_neg (by rw [hnp1.2]; decide), if_neg (by rw [hnp1.1]; decide),
          foldBody_fixed _ s1 (fun st => run_stmt_stopped hn1 st s1 hs) hnp1]
        exact ⟨s1, hp.change_q_abnormal (by simp), rfl, (fun _ h => by cases h), (fun _ h => by cases h)⟩
      | exit =>
        have hs := hp.stopped (Or.inr rfl)
        have hnp1 := hp.noPending_of_stopped (Or.inr rfl)
        simp only
        rw [if_neg (by rw [hnp1.2]; decide), if_neg (by rw [hnp1.1]; decide),
          foldBody_fixed _ s1 (fun st => run_stmt_stopped hn1 st s1 hs) hnp1]
        exact ⟨s1, hp.change_q_abnormal (by simp), rfl, (fun _ h => by cases h), (fun _ h => by cases h)⟩

end ShVerif.C26
