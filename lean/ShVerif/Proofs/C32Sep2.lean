import ShVerif.Proofs.C32Sep
/-
  C32 — Part B: every operation satisfies `StepOK`; ownership tags; the separation invariant of an
  interleaving.
-/
namespace ShVerif.C32
open ShVerif ShVerif.L1

theorem hext_self (h : Heap) : HExt (szOf h) h h := HExt.refl (Nat.le_refl _) (Nat.le_refl _) (Nat.le_refl _)

theorem step_ok (g : Grows) {h : Heap} {s : Side} (op : Op) {r : Heap × Side}
    (e : step g h s op = some r) : StepOK h s r.1 r.2 := by
  cases op with
  | setStr name val =>
    simp only [step] at e
    split at e
    · cases hr : setElemOp g h (s.get name) 0 val with
      | none => rw [hr] at e; cases e
      | some x =>
        rw [hr] at e
        simp only [Option.map_some, Option.some.injEq] at e
        subst e
        have y := setElemOp_ext g (s.get name) 0 val (ge_self h) hr
        exact stepOK_put y.1 y.2
    · split at e
      · cases e; exact stepOK_refl h s
      · cases e
        exact stepOK_put (hext_self h) ⟨Or.inl rfl, Or.inl rfl, Or.inl rfl⟩
  | appendStr name val =>
    simp only [step] at e
    cases hr : appendStrOp g h (s.get name) val with
    | none => rw [hr] at e; cases e
    | some x =>
      rw [hr] at e
      simp only [Option.map_some, Option.some.injEq] at e
      subst e
      have y := appendStrOp_ext g (s.get name) val (ge_self h) hr
      exact stepOK_put y.1 y.2
  | setElem name k val =>
    simp only [step] at e
    cases hr : setElemOp g h (s.get name) k val with
    | none => rw [hr] at e; cases e
    | some x =>
      rw [hr] at e
      simp only [Option.map_some, Option.some.injEq] at e
      subst e
      have y := setElemOp_ext g (s.get name) k val (ge_self h) hr
      exact stepOK_put y.1 y.2
  | setKey name key val =>
    simp only [step] at e
    split at e
    · cases e
      have y := setKeyOp_ext (s.get name) key val (ge_self h)
      exact stepOK_put y.1 y.2
    · cases e; exact stepOK_refl h s
  | unsetElem name k =>
    simp only [step] at e
    split at e
    · cases hr : unsetElemOp g h (s.get name) k with
      | none => rw [hr] at e; cases e
      | some x =>
        rw [hr] at e
        simp only [Option.map_some, Option.some.injEq] at e
        subst e
        have y := unsetElemOp_ext g (s.get name) k (ge_self h) hr
        exact stepOK_put y.1 y.2
    · cases e; exact stepOK_refl h s
  | unsetKey name key =>
    simp only [step] at e
    split at e
    · cases e
      have y := unsetKeyOp_ext (s.get name) key (ge_self h)
      exact stepOK_put y.1 y.2
    · cases e; exact stepOK_refl h s
  | arrayLit name app vals =>
    simp only [step] at e
    cases hr : arrayLitOp g h (s.get name) app vals with
    | none => rw [hr] at e; cases e
    | some x =>
      rw [hr] at e
      simp only [Option.map_some, Option.some.injEq] at e
      subst e
      have y := arrayLitOp_ext g (s.get name) app vals (ge_self h) hr
      exact stepOK_put y.1 y.2
  | mapLit name kvs =>
    simp only [step, Option.some.injEq] at e
    subst e
    refine stepOK_put (h' := { h with maps := h.maps ++ [_] }) ⟨Ext.refl (Nat.le_refl _), Ext.refl (Nat.le_refl _), ⟨listFr_append _ _ (Nat.le_refl _), by simp⟩⟩
      ⟨Or.inl rfl, Or.inl rfl, Or.inr ?_⟩
    intro id hid
    simp only [Option.some.injEq] at hid
    subst hid
    simp [szOf]
  | unset name =>
    simp only [step, Option.some.injEq] at e
    subst e
    exact stepOK_put (hext_self h) ⟨Or.inr (Fresh.nil _ _), Or.inr (Fresh.nil _ _), Or.inr (by intro id hid; cases hid)⟩
  | shift n =>
    simp only [step] at e
    split at e
    · cases e
      refine ⟨fun _ _ hne => absurd rfl hne, fun _ _ => rfl, fun _ _ => rfl, Nat.le_refl _, Nat.le_refl _, Nat.le_refl _,
        ?_, fun _ hid => Or.inl hid, fun _ hid => Or.inl hid, ?_⟩
      · intro id hid
        simp only [reach, List.mem_append] at hid ⊢
        rcases hid with (hv | hp) | hd
        · exact Or.inl (Or.inl (Or.inl hv))
        · simp [sliceArr, Slice.nil] at hp
        · exact Or.inl (Or.inr hd)
      · by_cases hc : s.dirStack.len = 0 ∧ s.dirStack.cap = 0
        · exact Or.inl hc
        · exact Or.inr (Or.inl ⟨hc, rfl⟩)
    · next hlen =>
      split at e
      · next p hp =>
        cases e
        refine ⟨fun _ _ hne => absurd rfl hne, fun _ _ => rfl, fun _ _ => rfl, Nat.le_refl _, Nat.le_refl _, Nat.le_refl _,
          ?_, fun _ hid => Or.inl hid, fun _ hid => Or.inl hid, ?_⟩
        · intro id hid
          simp only [reach, List.mem_append] at hid ⊢
          rcases hid with (hv | hpp) | hd
          · exact Or.inl (Or.inl (Or.inl hv))
          · left; left; right
            have m := mem_sliceArr hpp
            unfold sliceFrom at hp
            split at hp
            · cases hp
              simp only at m
              unfold sliceArr
              have : ¬ (s.params.len = 0 ∧ s.params.cap = 0) := by intro hh; omega
              simp only [this, if_false, List.mem_singleton]
              exact m.2
            · cases hp
          · exact Or.inl (Or.inr hd)
        · by_cases hc : s.dirStack.len = 0 ∧ s.dirStack.cap = 0
          · exact Or.inl hc
          · exact Or.inr (Or.inl ⟨hc, rfl⟩)
      · cases e
  | setParams vals =>
    simp only [step, Option.some.injEq] at e
    subst e
    have mk := sliceMake_ext (n := h.strs.length) h.strs vals vals.length (Nat.le_refl _)
    refine ⟨fun id hid hne => absurd (mk.1.1.getElem? hid) hne, fun _ _ => rfl, fun _ _ => rfl, mk.1.2, Nat.le_refl _, Nat.le_refl _,
      ?_, fun _ hid => Or.inl hid, fun _ hid => Or.inl hid, ?_⟩
    · intro id hid
      simp only [reach, List.mem_append] at hid ⊢
      rcases hid with (hv | hp) | hd
      · exact Or.inl (Or.inl (Or.inl hv))
      · have m := mem_sliceArr hp
        rcases mk.2 with f | f
        · exact absurd f m.1
        · right; rw [m.2]; exact f
      · exact Or.inl (Or.inr hd)
    · by_cases hc : s.dirStack.len = 0 ∧ s.dirStack.cap = 0
      · exact Or.inl hc
      · exact Or.inr (Or.inl ⟨hc, rfl⟩)
  | pushdN dir => exact stepOK_pushdN g e
  | popdN => exact stepOK_popdN g e

/-! ### ownership tags -/

inductive Tag | shared | parent | child
deriving DecidableEq, Repr

/-- who owns each array and map: `shared` objects existed at the fork and are written by nobody;
    the others belong to the side that allocated them (or, for the parent's `dirStack` array, to
    the parent from the start) -/
structure Tags where
  strs : List Tag
  ints : List Tag
  maps : List Tag

def Allowed (t : Tag) (x : Option Tag) : Prop := x = some .shared ∨ x = some t

/-- a side reaches only shared objects and its own; its `dirStack` array is its own -/
structure SideOK (tg : Tags) (t : Tag) (s : Side) : Prop where
  strs : ∀ id ∈ (reach s).strs, Allowed t tg.strs[id]?
  ints : ∀ id ∈ (reach s).ints, Allowed t tg.ints[id]?
  maps : ∀ id ∈ (reach s).maps, Allowed t tg.maps[id]?
  dir : (s.dirStack.len = 0 ∧ s.dirStack.cap = 0) ∨ tg.strs[s.dirStack.arr]? = some t

structure GInv (tg : Tags) (t : Two) : Prop where
  ls : tg.strs.length = t.h.strs.length
  li : tg.ints.length = t.h.ints.length
  lm : tg.maps.length = t.h.maps.length
  p : SideOK tg .parent t.parent
  c : SideOK tg .child t.child

/-- new objects get the tag of the side that made the step -/
def extendTags (tg : Tags) (t : Tag) (h' : Heap) : Tags :=
  { strs := tg.strs ++ List.replicate (h'.strs.length - tg.strs.length) t,
    ints := tg.ints ++ List.replicate (h'.ints.length - tg.ints.length) t,
    maps := tg.maps ++ List.replicate (h'.maps.length - tg.maps.length) t }

theorem getElem?_extend {l : List Tag} {n : Nat} {t : Tag} {id : Nat} :
    (id < l.length → (l ++ List.replicate n t)[id]? = l[id]?) ∧
    (l.length ≤ id → id < l.length + n → (l ++ List.replicate n t)[id]? = some t) := by
  refine ⟨fun h => List.getElem?_append_left h, fun h1 h2 => ?_⟩
  rw [List.getElem?_append_right h1]
  rw [List.getElem?_replicate]
  have : id - l.length < n := by omega
  simp [this]

theorem allowed_lt {t : Tag} {l : List Tag} {id : Nat} (a : Allowed t l[id]?) : id < l.length := by
  rcases a with a | a <;> exact (List.getElem?_eq_some_iff.mp a).1

/-- the mover's side after the step -/
theorem sideOK_mover {tg : Tags} {t : Tag} {h h' : Heap} {s s' : Side}
    (ls : tg.strs.length = h.strs.length) (li : tg.ints.length = h.ints.length) (lm : tg.maps.length = h.maps.length)
    (ok : SideOK tg t s) (st : StepOK h s h' s') : SideOK (extendTags tg t h') t s' := by
  have key : ∀ (l : List Tag) (n n' id : Nat) (R R' : List Nat), l.length = n → n ≤ n' →
      (∀ x ∈ R, Allowed t l[x]?) → (id ∈ R ∨ (n ≤ id ∧ id < n')) →
      Allowed t (l ++ List.replicate (n' - l.length) t)[id]? := by
    intro l n n' id R R' hl hn hR hid
    rcases hid with hid | ⟨h1, h2⟩
    · have a := hR id hid
      rw [(getElem?_extend (n := n' - l.length) (t := t)).1 (allowed_lt a)]
      exact a
    · right
      exact (getElem?_extend (n := n' - l.length) (t := t)).2 (by omega) (by omega)
  refine ⟨?_, ?_, ?_, ?_⟩
  · intro id hid
    exact key tg.strs _ _ id _ [] ls st.ls ok.strs (st.rstrs id hid)
  · intro id hid
    exact key tg.ints _ _ id _ [] li st.li ok.ints (st.rints id hid)
  · intro id hid
    exact key tg.maps _ _ id _ [] lm st.lm ok.maps (st.rmaps id hid)
  · rcases st.dir with d | ⟨hs, harr⟩ | ⟨h1, h2⟩
    · exact Or.inl d
    · right
      rcases ok.dir with d | d
      · exact absurd d hs
      · simp only [extendTags]
        rw [harr, (getElem?_extend (n := h'.strs.length - tg.strs.length) (t := t)).1 (List.getElem?_eq_some_iff.mp d).1]
        exact d
    · right
      simp only [extendTags]
      exact (getElem?_extend (n := h'.strs.length - tg.strs.length) (t := t)).2 (by omega) (by omega)

/-- the other side is not affected by new tags -/
theorem sideOK_other {tg : Tags} {t u : Tag} {h' : Heap} {s : Side} (ok : SideOK tg u s) :
    SideOK (extendTags tg t h') u s := by
  have key : ∀ (l : List Tag) (n id : Nat), Allowed u l[id]? → Allowed u (l ++ List.replicate n t)[id]? := by
    intro l n id a
    rw [(getElem?_extend (n := n) (t := t)).1 (allowed_lt a)]
    exact a
  refine ⟨fun id hid => key _ _ _ (ok.strs id hid), fun id hid => key _ _ _ (ok.ints id hid),
    fun id hid => key _ _ _ (ok.maps id hid), ?_⟩
  rcases ok.dir with d | d
  · exact Or.inl d
  · right
    simp only [extendTags]
    rw [(getElem?_extend (n := h'.strs.length - tg.strs.length) (t := t)).1 (List.getElem?_eq_some_iff.mp d).1]
    exact d

theorem unchanged_other {tg : Tags} {t u : Tag} (htu : t ≠ u) (hu : u ≠ .shared) (ht : t ≠ .shared) {h h' : Heap} {s s' so : Side}
    (ls : tg.strs.length = h.strs.length) (li : tg.ints.length = h.ints.length) (lm : tg.maps.length = h.maps.length)
    (ok : SideOK tg t s) (oko : SideOK tg u so) (st : StepOK h s h' s') : UnchangedFor h h' (reach so) := by
  refine ⟨?_, ?_, ?_⟩
  · intro id hid
    have a := oko.strs id hid
    have hlt : id < h.strs.length := by rw [← ls]; exact allowed_lt a
    apply Classical.byContradiction
    intro hne
    have d := st.strs id hlt hne
    rcases ok.dir with dd | dd
    · exact d.1 dd
    · rw [← d.2] at dd
      rcases a with a | a
      · rw [a] at dd; simp only [Option.some.injEq] at dd; exact ht dd.symm
      · rw [a] at dd; simp only [Option.some.injEq] at dd; exact htu dd.symm
  · intro id hid
    have a := oko.ints id hid
    exact st.ints id (by rw [← li]; exact allowed_lt a)
  · intro id hid
    have a := oko.maps id hid
    exact st.maps id (by rw [← lm]; exact allowed_lt a)

theorem length_extend (tg : Tags) (t : Tag) (h h' : Heap)
    (ls : tg.strs.length = h.strs.length) (li : tg.ints.length = h.ints.length) (lm : tg.maps.length = h.maps.length)
    (a : h.strs.length ≤ h'.strs.length) (b : h.ints.length ≤ h'.ints.length) (c : h.maps.length ≤ h'.maps.length) :
    (extendTags tg t h').strs.length = h'.strs.length ∧ (extendTags tg t h').ints.length = h'.ints.length ∧
    (extendTags tg t h').maps.length = h'.maps.length := by
  simp only [extendTags, List.length_append, List.length_replicate]
  omega

theorem separated_of_inv (g : Grows) : ∀ (sched : Sched) (t : Two) (pops cops : List Op) (tg : Tags),
    GInv tg t → Separated g t pops cops sched := by
  intro sched
  induction sched with
  | nil => intro t pops cops tg _; simp [Separated]
  | cons side rest ih =>
    intro t pops cops tg inv
    cases side with
    | false =>
      cases pops with
      | nil => simp only [Separated]; exact ih t [] cops tg inv
      | cons op pops' =>
        simp only [Separated]
        cases hs : step g t.h t.parent op with
        | none => trivial
        | some r =>
          simp only
          have st := step_ok g op hs
          have ln := length_extend tg .parent t.h r.1 inv.ls inv.li inv.lm st.ls st.li st.lm
          refine ⟨unchanged_other (t := .parent) (u := .child) (by decide) (by decide) (by decide) inv.ls inv.li inv.lm inv.p inv.c st, ?_⟩
          exact ih _ pops' cops (extendTags tg .parent r.1)
            ⟨ln.1, ln.2.1, ln.2.2, sideOK_mover inv.ls inv.li inv.lm inv.p st, sideOK_other inv.c⟩
    | true =>
      cases cops with
      | nil => simp only [Separated]; exact ih t pops [] tg inv
      | cons op cops' =>
        simp only [Separated]
        cases hs : step g t.h t.child op with
        | none => trivial
        | some r =>
          simp only
          have st := step_ok g op hs
          have ln := length_extend tg .child t.h r.1 inv.ls inv.li inv.lm st.ls st.li st.lm
          refine ⟨unchanged_other (t := .child) (u := .parent) (by decide) (by decide) (by decide) inv.ls inv.li inv.lm inv.c inv.p st, ?_⟩
          exact ih _ pops cops' (extendTags tg .child r.1)
            ⟨ln.1, ln.2.1, ln.2.2, sideOK_other inv.p, sideOK_mover inv.ls inv.li inv.lm inv.c st⟩

/-! ### the state right after `subshell(true)` -/

/-- tags at the fork: everything that exists is shared, except the parent's `dirStack` array;
    what `subshell` allocates (the child's `dirStack`) is the child's -/
def forkTags (h : Heap) (p : Side) (h' : Heap) : Tags :=
  { strs := (List.range h.strs.length).map (fun id => if id ∈ sliceArr p.dirStack then Tag.parent else Tag.shared) ++
      List.replicate (h'.strs.length - h.strs.length) Tag.child,
    ints := List.replicate h.ints.length Tag.shared,
    maps := List.replicate h.maps.length Tag.shared }

theorem fresh_len0 {α : Type} {n : Nat} {h : ArrHeap α} {s : Slice} (f : Fresh n h s) : Fresh n h { s with len := 0 } := by
  rcases f with ⟨_, hc⟩ | f
  · exact Or.inl ⟨rfl, hc⟩
  · exact Or.inr f

theorem fork_inv (g : Grows) (h : Heap) (p : Side) (wf : WFp h p) :
    GInv (forkTags h p (fork g h p).1) { h := (fork g h p).1, parent := p, child := (fork g h p).2 } := by
  have mk := sliceMake_ext (n := h.strs.length) h.strs ([] : List Bytes) 1 (Nat.le_refl _)
  have ap := sliceAppendMany_ext g.strs (sliceMake h.strs ([] : List Bytes) 1).1 { (sliceMake h.strs ([] : List Bytes) 1).2 with len := 0 }
    (cells h.strs p.dirStack) mk.1.1.1 (fresh_len0 mk.2)
  have ext : Ext h.strs.length h.strs (fork g h p).1.strs := mk.1.trans ap.1
  have hints : (fork g h p).1.ints = h.ints := rfl
  have hmaps : (fork g h p).1.maps = h.maps := rfl
  have oldTag : ∀ id, id < h.strs.length →
      (forkTags h p (fork g h p).1).strs[id]? = some (if id ∈ sliceArr p.dirStack then Tag.parent else Tag.shared) := by
    intro id hid
    simp only [forkTags]
    rw [List.getElem?_append_left (by simp; exact hid)]
    simp [List.getElem?_map, List.getElem?_range hid]
  have newTag : ∀ id, h.strs.length ≤ id → id < (fork g h p).1.strs.length →
      (forkTags h p (fork g h p).1).strs[id]? = some Tag.child := by
    intro id h1 h2
    simp only [forkTags]
    rw [List.getElem?_append_right (by simp; exact h1)]
    rw [List.getElem?_replicate]
    simp only [List.length_map, List.length_range]
    have : id - h.strs.length < (fork g h p).1.strs.length - h.strs.length := by omega
    simp [this]
  have intTag : ∀ id, id < h.ints.length → (forkTags h p (fork g h p).1).ints[id]? = some Tag.shared := by
    intro id hid; simp [forkTags, List.getElem?_replicate, hid]
  have mapTag : ∀ id, id < h.maps.length → (forkTags h p (fork g h p).1).maps[id]? = some Tag.shared := by
    intro id hid; simp [forkTags, List.getElem?_replicate, hid]
  refine ⟨?_, ?_, ?_, ⟨?_, ?_, ?_, ?_⟩, ⟨?_, ?_, ?_, ?_⟩⟩
  · simp only [forkTags, List.length_append, List.length_map, List.length_range, List.length_replicate]
    have := ext.2
    omega
  · simp [forkTags, hints]
  · simp [forkTags, hmaps]
  -- the parent
  · intro id hid
    rw [oldTag id (wf.strs id hid)]
    split
    · exact Or.inr rfl
    · exact Or.inl rfl
  · intro id hid
    rw [intTag id (wf.ints id hid)]; exact Or.inl rfl
  · intro id hid
    rw [mapTag id (wf.maps id hid)]; exact Or.inl rfl
  · by_cases hc : p.dirStack.len = 0 ∧ p.dirStack.cap = 0
    · exact Or.inl hc
    · right
      have hmem : p.dirStack.arr ∈ sliceArr p.dirStack := by simp [sliceArr, hc]
      have hlt : p.dirStack.arr < h.strs.length := by
        apply wf.strs
        simp only [reach, List.mem_append]
        exact Or.inr hmem
      rw [oldTag _ hlt]
      simp [hmem]
  -- the child
  · intro id hid
    simp only [reach, fork, List.mem_append] at hid
    rcases hid with (hv | hp) | hd
    · have hlt : id < h.strs.length := wf.strs id (by simp only [reach, List.mem_append]; exact Or.inl (Or.inl hv))
      rw [oldTag id hlt]
      have : id ∉ sliceArr p.dirStack := wf.dirPrivate id (by simp only [List.mem_append]; exact Or.inl hv)
      simp only [this, if_false]
      exact Or.inl rfl
    · have hlt : id < h.strs.length := wf.strs id (by simp only [reach, List.mem_append]; exact Or.inl (Or.inr hp))
      rw [oldTag id hlt]
      have : id ∉ sliceArr p.dirStack := wf.dirPrivate id (by simp only [List.mem_append]; exact Or.inr hp)
      simp only [this, if_false]
      exact Or.inl rfl
    · have m := mem_sliceArr hd
      rcases ap.2 with f | f
      · exact absurd f m.1
      · right
        rw [m.2]
        exact newTag _ f.1 f.2
  · intro id hid
    have : id ∈ (reach p).ints := hid
    rw [intTag id (wf.ints id this)]; exact Or.inl rfl
  · intro id hid
    have : id ∈ (reach p).maps := hid
    rw [mapTag id (wf.maps id this)]; exact Or.inl rfl
  · rcases ap.2 with f | f
    · exact Or.inl f
    · right
      exact newTag _ f.1 f.2

end ShVerif.C32
