import ShVerif.Model.C32
import ShVerif.Proofs.L1Heap
/-
  C32 — Part B helper lemmas: one operation of one side (`step`) leaves every array and map that
  existed before it unchanged, except the side's own `dirStack` array; what the side can reach
  afterwards is what it could reach before plus objects allocated by the operation.
-/
namespace ShVerif.C32
open ShVerif ShVerif.L1

variable {α : Type}

/-- a slice without storage, or whose array was allocated at or after `n` and exists in `h` -/
def Fresh (n : Nat) (h : ArrHeap α) (s : Slice) : Prop :=
  (s.len = 0 ∧ s.cap = 0) ∨ (n ≤ s.arr ∧ s.arr < h.length)

/-- the first `n` arrays are untouched and nothing disappears -/
def Ext (n : Nat) (h h' : List α) : Prop := ListFr n h h' ∧ h.length ≤ h'.length

theorem Ext.refl {n : Nat} {h : List α} (hn : n ≤ h.length) : Ext n h h := ⟨ListFr.refl hn, Nat.le_refl _⟩
theorem Ext.trans {n : Nat} {a b c : List α} (x : Ext n a b) (y : Ext n b c) : Ext n a c :=
  ⟨x.1.trans y.1, Nat.le_trans x.2 y.2⟩

theorem Fresh.owned {n : Nat} {h : ArrHeap α} {s : Slice} (f : Fresh n h s) : Owned n s := by
  rcases f with f | f
  · exact Or.inl f
  · exact Or.inr f.1

theorem Fresh.mono {n : Nat} {h h' : ArrHeap α} {s : Slice} (f : Fresh n h s) (hl : h.length ≤ h'.length) : Fresh n h' s := by
  rcases f with f | f
  · exact Or.inl f
  · exact Or.inr ⟨f.1, by omega⟩

theorem Fresh.nil (n : Nat) (h : ArrHeap α) : Fresh n h Slice.nil := Or.inl ⟨rfl, rfl⟩
theorem Fresh.empty (n : Nat) (h : ArrHeap α) : Fresh n h Slice.empty := Or.inl ⟨rfl, rfl⟩

theorem length_updArr (h : ArrHeap α) (id : Nat) (f) : (updArr h id f).length = h.length := by
  simp [updArr]

theorem sliceSet_ext {n : Nat} {h h' : ArrHeap α} {s : Slice} {i : Nat} {v : α}
    (hn : n ≤ h.length) (f : Fresh n h s) (e : sliceSet h s i v = some h') : Ext n h h' ∧ h'.length = h.length := by
  have fr := sliceSet_fr hn f.owned e
  unfold sliceSet at e
  split at e
  · cases e
    exact ⟨⟨fr, by rw [length_updArr]; exact Nat.le_refl _⟩, length_updArr _ _ _⟩
  · cases e

theorem sliceAppend_ext [Inhabited α] {n : Nat} (g : Grow) (h : ArrHeap α) (s : Slice) (v : α)
    (hn : n ≤ h.length) (f : Fresh n h s) :
    Ext n h (sliceAppend g h s v).1 ∧ Fresh n (sliceAppend g h s v).1 (sliceAppend g h s v).2 := by
  have fr := sliceAppend_fr g h s v hn f.owned
  unfold sliceAppend at fr ⊢
  split
  · next hl =>
    simp only [hl, if_true] at fr
    rcases f with ⟨_, h0⟩ | f
    · omega
    · exact ⟨⟨fr.1, by rw [length_updArr]; exact Nat.le_refl _⟩, Or.inr ⟨f.1, by rw [length_updArr]; exact f.2⟩⟩
  · next hl =>
    simp only [hl, if_false] at fr
    exact ⟨⟨fr.1, by simp⟩, Or.inr ⟨hn, by simp⟩⟩

theorem sliceAppendMany_ext [Inhabited α] {n : Nat} (g : Grow) (h : ArrHeap α) (s : Slice) (vs : List α)
    (hn : n ≤ h.length) (f : Fresh n h s) :
    Ext n h (sliceAppendMany g h s vs).1 ∧ Fresh n (sliceAppendMany g h s vs).1 (sliceAppendMany g h s vs).2 := by
  have fr := sliceAppendMany_fr g h s vs hn f.owned
  unfold sliceAppendMany at fr ⊢
  split
  · exact ⟨Ext.refl hn, f⟩
  · next hne =>
    simp only [hne, if_false] at fr
    split
    · next hl =>
      simp only [hl, if_true] at fr
      have : vs.length ≠ 0 := by
        intro h0; apply hne; simp [List.length_eq_zero_iff.mp h0]
      rcases f with ⟨_, h0⟩ | f
      · omega
      · exact ⟨⟨fr.1, by rw [length_updArr]; exact Nat.le_refl _⟩, Or.inr ⟨f.1, by rw [length_updArr]; exact f.2⟩⟩
    · next hl =>
      simp only [hl, if_false] at fr
      exact ⟨⟨fr.1, by simp⟩, Or.inr ⟨hn, by simp⟩⟩

theorem sliceMake_ext [Inhabited α] {n : Nat} (h : ArrHeap α) (cs : List α) (cap : Nat) (hn : n ≤ h.length) :
    Ext n h (sliceMake h cs cap).1 ∧ Fresh n (sliceMake h cs cap).1 (sliceMake h cs cap).2 := by
  have fr := sliceMake_fr (n := n) h cs cap hn
  unfold sliceMake at fr ⊢
  simp only at fr ⊢
  split
  · next hc =>
    simp only [hc, if_true] at fr
    exact ⟨⟨fr.1, Nat.le_refl _⟩, Fresh.empty _ _⟩
  · next hc =>
    simp only [hc, if_false] at fr
    exact ⟨⟨fr.1, by simp⟩, Or.inr ⟨hn, by simp⟩⟩

theorem sliceClone_ext [Inhabited α] {n : Nat} (g : Grow) (h : ArrHeap α) (s : Slice) (hn : n ≤ h.length) :
    Ext n h (sliceClone g h s).1 ∧ Fresh n (sliceClone g h s).1 (sliceClone g h s).2 := by
  have fr := sliceClone_fr (n := n) g h s hn
  unfold sliceClone at fr ⊢
  split
  · next hc =>
    simp only [hc, if_true] at fr
    exact ⟨⟨fr.1, Nat.le_refl _⟩, Fresh.nil _ _⟩
  · next hc =>
    simp only [hc] at fr
    split
    · next hl =>
      simp only [hl, if_true] at fr
      exact ⟨⟨fr.1, Nat.le_refl _⟩, Fresh.empty _ _⟩
    · next hl =>
      simp only [hl, if_false] at fr
      exact ⟨⟨fr.1, by simp⟩, Or.inr ⟨hn, by simp⟩⟩

theorem sliceInsert_ext [Inhabited α] {n : Nat} {g : Grow} {h h' : ArrHeap α} {s s' : Slice} {i : Nat} {v : α}
    (hn : n ≤ h.length) (f : Fresh n h s) (e : sliceInsert g h s i v = some (h', s')) :
    Ext n h h' ∧ Fresh n h' s' := by
  have fr := sliceInsert_fr hn f.owned e
  unfold sliceInsert at e
  split at e
  · cases e
  · split at e
    · have r := sliceAppend_ext g h s v hn f
      rw [Option.some.inj e] at r
      exact r
    · simp only at e
      split at e
      · cases e; exact ⟨⟨fr.1, by simp⟩, Or.inr ⟨hn, by simp⟩⟩
      · next hc =>
        cases e
        rcases f with ⟨_, h0⟩ | f
        · omega
        · exact ⟨⟨fr.1, by rw [length_updArr]; exact Nat.le_refl _⟩, Or.inr ⟨f.1, by rw [length_updArr]; exact f.2⟩⟩

theorem sliceDelete_ext [Inhabited α] {n : Nat} {h h' : ArrHeap α} {s s' : Slice} {i j : Nat}
    (hn : n ≤ h.length) (f : Fresh n h s) (e : sliceDelete h s i j = some (h', s')) :
    Ext n h h' ∧ Fresh n h' s' := by
  have fr := sliceDelete_fr hn f.owned e
  unfold sliceDelete at e
  split at e
  · cases e
  · split at e
    · cases e; exact ⟨Ext.refl hn, f⟩
    · simp only at e
      cases e
      rcases f with ⟨h0, hc⟩ | f
      · exact ⟨⟨fr.1, by rw [length_updArr]; exact Nat.le_refl _⟩, Or.inl ⟨by simp only; omega, hc⟩⟩
      · exact ⟨⟨fr.1, by rw [length_updArr]; exact Nat.le_refl _⟩, Or.inr ⟨f.1, by rw [length_updArr]; exact f.2⟩⟩

theorem sliceTo_fresh {n : Nat} {h : ArrHeap α} {s s' : Slice} {k : Nat} (f : Fresh n h s) (e : sliceTo s k = some s') :
    Fresh n h s' := by
  unfold sliceTo at e
  split at e
  · next hk =>
    cases e
    rcases f with ⟨_, h0⟩ | f
    · left; simp only; omega
    · exact Or.inr f
  · cases e

/-! ### the shared heap -/

structure Sz where
  s : Nat
  i : Nat
  m : Nat

def szOf (h : Heap) : Sz := ⟨h.strs.length, h.ints.length, h.maps.length⟩

structure HExt (n : Sz) (h h' : Heap) : Prop where
  strs : Ext n.s h.strs h'.strs
  ints : Ext n.i h.ints h'.ints
  maps : Ext n.m h.maps h'.maps

theorem HExt.refl {n : Sz} {h : Heap} (a : n.s ≤ h.strs.length) (b : n.i ≤ h.ints.length) (c : n.m ≤ h.maps.length) :
    HExt n h h := ⟨Ext.refl a, Ext.refl b, Ext.refl c⟩

theorem HExt.trans {n : Sz} {a b c : Heap} (x : HExt n a b) (y : HExt n b c) : HExt n a c :=
  ⟨x.strs.trans y.strs, x.ints.trans y.ints, x.maps.trans y.maps⟩

/-- sizes of `h` are at least `n` -/
structure Ge (n : Sz) (h : Heap) : Prop where
  s : n.s ≤ h.strs.length
  i : n.i ≤ h.ints.length
  m : n.m ≤ h.maps.length

theorem HExt.ge {n : Sz} {h h' : Heap} (x : HExt n h h') : Ge n h' := ⟨x.strs.1.1, x.ints.1.1, x.maps.1.1⟩

/-- a pair of list/indexes slices made of storage allocated since `n` -/
structure FreshLI (n : Sz) (h : Heap) (list indexes : Slice) : Prop where
  l : Fresh n.s h.strs list
  i : Fresh n.i h.ints indexes

theorem FreshLI.mono {n : Sz} {h h' : Heap} {l i : Slice} (f : FreshLI n h l i)
    (a : h.strs.length ≤ h'.strs.length) (b : h.ints.length ≤ h'.ints.length) : FreshLI n h' l i :=
  ⟨f.l.mono a, f.i.mono b⟩

theorem canonical_fresh {n : Sz} {h : Heap} {ix : Slice} (f : Fresh n.i h.ints ix) :
    Fresh n.i h.ints (canonicalIndexes h ix) := by
  unfold canonicalIndexes
  split
  · exact Fresh.nil _ _
  · exact f

theorem setIndexedSparse_ext {n : Sz} (g : Grows) {h : Heap} {list indexes : Slice} {k : Nat} {val : Bytes}
    (ge : Ge n h) (f : FreshLI n h list indexes) {r : Heap × Slice × Slice}
    (e : setIndexedSparse g h list indexes k val = some r) : HExt n h r.1 ∧ FreshLI n r.1 r.2.1 r.2.2 := by
  unfold setIndexedSparse at e
  simp only at e
  split at e
  · split at e
    · cases e
    · next s hs =>
      cases e
      have x := sliceSet_ext ge.s f.l hs
      exact ⟨⟨x.1, Ext.refl ge.i, Ext.refl ge.m⟩, ⟨f.l.mono (by rw [x.2]; exact Nat.le_refl _), f.i⟩⟩
  · split at e
    · cases e
    · next a ha =>
      split at e
      · cases e
      · next b hb =>
        cases e
        have x := sliceInsert_ext ge.s f.l ha
        have y := sliceInsert_ext ge.i f.i hb
        exact ⟨⟨x.1, y.1, Ext.refl ge.m⟩, ⟨x.2, canonical_fresh (h := { h with strs := a.1, ints := b.1 }) y.2⟩⟩

theorem setIndexedElem_ext {n : Sz} (g : Grows) {h : Heap} {list indexes : Slice} {k : Nat} {val : Bytes}
    (ge : Ge n h) (f : FreshLI n h list indexes) {r : Heap × Slice × Slice}
    (e : setIndexedElem g h list indexes k val = some r) : HExt n h r.1 ∧ FreshLI n r.1 r.2.1 r.2.2 := by
  unfold setIndexedElem at e
  split at e
  · split at e
    · split at e
      · cases e
      · next s hs =>
        cases e
        have x := sliceSet_ext ge.s f.l hs
        exact ⟨⟨x.1, Ext.refl ge.i, Ext.refl ge.m⟩, ⟨f.l.mono (by rw [x.2]; exact Nat.le_refl _), Fresh.nil _ _⟩⟩
    · split at e
      · cases e
        have x := sliceAppend_ext g.strs h.strs list val ge.s f.l
        exact ⟨⟨x.1, Ext.refl ge.i, Ext.refl ge.m⟩, ⟨x.2, Fresh.nil _ _⟩⟩
      · have mk := sliceMake_ext (n := n.i) h.ints (List.range list.len) (list.len + 1) ge.i
        have ge1 : Ge n { h with ints := (sliceMake h.ints (List.range list.len) (list.len + 1)).1 } :=
          ⟨ge.s, mk.1.1.1, ge.m⟩
        have r1 := setIndexedSparse_ext g ge1 ⟨f.l, mk.2⟩ e
        have h0 : HExt n h { h with ints := (sliceMake h.ints (List.range list.len) (list.len + 1)).1 } :=
          ⟨Ext.refl ge.s, mk.1, Ext.refl ge.m⟩
        exact ⟨h0.trans r1.1, r1.2⟩
  · exact setIndexedSparse_ext g ge f e

theorem deleteIndexedSparse_ext {n : Sz} {h : Heap} {list indexes : Slice} {k : Nat}
    (ge : Ge n h) (f : FreshLI n h list indexes) {r : Heap × Slice × Slice}
    (e : deleteIndexedSparse h list indexes k = some r) : HExt n h r.1 ∧ FreshLI n r.1 r.2.1 r.2.2 := by
  unfold deleteIndexedSparse at e
  simp only at e
  split at e
  · cases e
    exact ⟨HExt.refl ge.s ge.i ge.m, f⟩
  · split at e
    · cases e
    · next a ha =>
      split at e
      · cases e
      · next b hb =>
        cases e
        have x := sliceDelete_ext ge.s f.l ha
        have y := sliceDelete_ext ge.i f.i hb
        exact ⟨⟨x.1, y.1, Ext.refl ge.m⟩, ⟨x.2, canonical_fresh (h := { h with strs := a.1, ints := b.1 }) y.2⟩⟩

theorem deleteIndexedElem_ext {n : Sz} {h : Heap} {list indexes : Slice} {k : Nat}
    (ge : Ge n h) (f : FreshLI n h list indexes) {r : Heap × Slice × Slice}
    (e : deleteIndexedElem h list indexes k = some r) : HExt n h r.1 ∧ FreshLI n r.1 r.2.1 r.2.2 := by
  unfold deleteIndexedElem at e
  split at e
  · split at e
    · cases e
      exact ⟨HExt.refl ge.s ge.i ge.m, ⟨f.l, Fresh.nil _ _⟩⟩
    · split at e
      · split at e
        · cases e
        · next l hl =>
          cases e
          exact ⟨HExt.refl ge.s ge.i ge.m, ⟨sliceTo_fresh f.l hl, Fresh.nil _ _⟩⟩
      · have mk := sliceMake_ext (n := n.i) h.ints (List.range list.len) list.len ge.i
        have ge1 : Ge n { h with ints := (sliceMake h.ints (List.range list.len) list.len).1 } :=
          ⟨ge.s, mk.1.1.1, ge.m⟩
        have r1 := deleteIndexedSparse_ext ge1 ⟨f.l, mk.2⟩ e
        have h0 : HExt n h { h with ints := (sliceMake h.ints (List.range list.len) list.len).1 } :=
          ⟨Ext.refl ge.s, mk.1, Ext.refl ge.m⟩
        exact ⟨h0.trans r1.1, r1.2⟩
  · exact deleteIndexedSparse_ext ge f e

theorem cloneBoth_ext {n : Sz} (g : Grows) {h : Heap} (list indexes : Slice) (ge : Ge n h) :
    HExt n h (cloneBoth g h list indexes).1 ∧
    FreshLI n (cloneBoth g h list indexes).1 (cloneBoth g h list indexes).2.1 (cloneBoth g h list indexes).2.2 := by
  unfold cloneBoth
  have a := sliceClone_ext (n := n.s) g.strs h.strs list ge.s
  have b := sliceClone_ext (n := n.i) g.ints h.ints indexes ge.i
  exact ⟨⟨a.1, b.1, Ext.refl ge.m⟩, ⟨a.2, b.2⟩⟩

theorem assignElems_ext {n : Sz} (g : Grows) : ∀ (vals : List Bytes) (h : Heap) (list indexes : Slice) (index : Nat)
    (r : Heap × Slice × Slice), Ge n h → FreshLI n h list indexes →
    assignElems g h list indexes index vals = some r → HExt n h r.1 ∧ FreshLI n r.1 r.2.1 r.2.2 := by
  intro vals
  induction vals with
  | nil =>
    intro h list indexes index r ge f e
    simp only [assignElems, Option.some.injEq] at e
    subst e
    exact ⟨HExt.refl ge.s ge.i ge.m, f⟩
  | cons v vs ih =>
    intro h list indexes index r ge f e
    unfold assignElems at e
    split at e
    · cases e
    · next r1 h1 =>
      have x := setIndexedElem_ext g ge f h1
      have y := ih _ _ _ _ _ x.1.ge x.2 e
      exact ⟨x.1.trans y.1, y.2⟩

/-! ### variables -/

/-- a variable whose storage was allocated since `n` (and exists) -/
structure VarFresh (n : Sz) (h : Heap) (v : Var) : Prop where
  l : Fresh n.s h.strs v.list
  i : Fresh n.i h.ints v.indexes
  m : ∀ id, v.map = some id → n.m ≤ id ∧ id < h.maps.length

/-- a variable whose storage is the old one's or allocated since `n`: for every array it points
    to, either the old variable pointed to it too, or it is new -/
structure VarStep (n : Sz) (h : Heap) (old new : Var) : Prop where
  l : new.list = old.list ∨ Fresh n.s h.strs new.list
  i : new.indexes = old.indexes ∨ Fresh n.i h.ints new.indexes
  m : new.map = old.map ∨ ∀ id, new.map = some id → n.m ≤ id ∧ id < h.maps.length

theorem VarStep.refl (n : Sz) (h : Heap) (v : Var) : VarStep n h v v := ⟨Or.inl rfl, Or.inl rfl, Or.inl rfl⟩

theorem appendStrOp_ext {n : Sz} (g : Grows) {h : Heap} (prev : Var) (s : Bytes) (ge : Ge n h) {r : Heap × Var}
    (e : appendStrOp g h prev s = some r) : HExt n h r.1 ∧ VarStep n r.1 prev r.2 := by
  unfold appendStrOp at e
  split at e
  · cases e; exact ⟨HExt.refl ge.s ge.i ge.m, ⟨Or.inl rfl, Or.inl rfl, Or.inl rfl⟩⟩
  · cases e; exact ⟨HExt.refl ge.s ge.i ge.m, ⟨Or.inl rfl, Or.inl rfl, Or.inl rfl⟩⟩
  · cases e; exact ⟨HExt.refl ge.s ge.i ge.m, ⟨Or.inl rfl, Or.inl rfl, Or.inl rfl⟩⟩
  · simp only at e
    have c := cloneBoth_ext g prev.list prev.indexes ge
    split at e
    · split at e
      · cases e
      · split at e
        · cases e
        · next strs hs =>
          cases e
          have x := sliceSet_ext c.1.ge.s c.2.l hs
          refine ⟨c.1.trans ⟨x.1, Ext.refl c.1.ge.i, Ext.refl c.1.ge.m⟩, ⟨Or.inr ?_, Or.inr c.2.i, Or.inl rfl⟩⟩
          exact c.2.l.mono (by rw [x.2]; exact Nat.le_refl _)
    · split at e
      · cases e
      · next r1 h1 =>
        cases e
        have x := setIndexedElem_ext g c.1.ge c.2 h1
        exact ⟨c.1.trans x.1, ⟨Or.inr x.2.l, Or.inr x.2.i, Or.inl rfl⟩⟩

theorem setElemOp_ext {n : Sz} (g : Grows) {h : Heap} (prev : Var) (k : Nat) (val : Bytes) (ge : Ge n h) {r : Heap × Var}
    (e : setElemOp g h prev k val = some r) : HExt n h r.1 ∧ VarStep n r.1 prev r.2 := by
  unfold setElemOp at e
  split at e
  · cases e; exact ⟨HExt.refl ge.s ge.i ge.m, VarStep.refl _ _ _⟩
  · simp only at e
    have a := sliceAppend_ext (n := n.s) g.strs h.strs Slice.nil prev.str ge.s (Fresh.nil _ _)
    have ge1 : Ge n { h with strs := (sliceAppend g.strs h.strs Slice.nil prev.str).1 } := ⟨a.1.1.1, ge.i, ge.m⟩
    split at e
    · cases e
    · next r1 h1 =>
      cases e
      have x := setIndexedElem_ext g ge1 ⟨a.2, Fresh.nil _ _⟩ h1
      have h0 : HExt n h { h with strs := (sliceAppend g.strs h.strs Slice.nil prev.str).1 } :=
        ⟨a.1, Ext.refl ge.i, Ext.refl ge.m⟩
      exact ⟨h0.trans x.1, ⟨Or.inr x.2.l, Or.inr x.2.i, Or.inl rfl⟩⟩
  · simp only at e
    have c := cloneBoth_ext g prev.list prev.indexes ge
    split at e
    · cases e
    · next r1 h1 =>
      cases e
      have x := setIndexedElem_ext g c.1.ge c.2 h1
      exact ⟨c.1.trans x.1, ⟨Or.inr x.2.l, Or.inr x.2.i, Or.inl rfl⟩⟩
  · split at e
    · cases e
    · next r1 h1 =>
      cases e
      have x := setIndexedElem_ext g ge ⟨Fresh.nil _ _, Fresh.nil _ _⟩ h1
      exact ⟨x.1, ⟨Or.inr x.2.l, Or.inr x.2.i, Or.inl rfl⟩⟩

theorem length_updMap {κ ν : Type} (h : MapHeap κ ν) (id : Nat) (f) : (updMap h id f).length = h.length := by
  simp [updMap]

theorem updMap_ext {κ ν : Type} {n id : Nat} (h : MapHeap κ ν) (f) (hn : n ≤ h.length) (hid : n ≤ id) :
    Ext n h (updMap h id f) :=
  ⟨updMap_fr h f hn hid, by rw [length_updMap]; exact Nat.le_refl _⟩

theorem appendUpd_ext {κ ν : Type} {n : Nat} (h : MapHeap κ ν) (m : List (κ × ν)) (f) (hn : n ≤ h.length) :
    Ext n h (updMap (h ++ [m]) h.length f) :=
  Ext.trans (b := h ++ [m]) ⟨listFr_append _ _ hn, by simp⟩
    (updMap_ext (h ++ [m]) f (by rw [List.length_append]; omega) hn)

theorem setKeyOp_ext {n : Sz} {h : Heap} (prev : Var) (key val : Bytes) (ge : Ge n h) :
    HExt n h (setKeyOp h prev key val).1 ∧ VarStep n (setKeyOp h prev key val).1 prev (setKeyOp h prev key val).2 := by
  unfold setKeyOp
  simp only
  cases hm : prev.map with
  | none =>
    simp only [mapClone]
    refine ⟨⟨Ext.refl ge.s, Ext.refl ge.i, ?_⟩, ⟨Or.inl rfl, Or.inl rfl, Or.inr ?_⟩⟩
    · simp only
      exact appendUpd_ext _ _ _ ge.m
    · intro id e
      simp only [Option.some.injEq] at e
      subst e
      exact ⟨ge.m, by rw [length_updMap]; simp⟩
  | some id0 =>
    simp only [mapClone]
    refine ⟨⟨Ext.refl ge.s, Ext.refl ge.i, ?_⟩, ⟨Or.inl rfl, Or.inl rfl, Or.inr ?_⟩⟩
    · simp only
      exact appendUpd_ext _ _ _ ge.m
    · intro id e
      simp only [Option.some.injEq] at e
      subst e
      exact ⟨ge.m, by rw [length_updMap]; simp⟩

theorem unsetKeyOp_ext {n : Sz} {h : Heap} (vr : Var) (key : Bytes) (ge : Ge n h) :
    HExt n h (unsetKeyOp h vr key).1 ∧ VarStep n (unsetKeyOp h vr key).1 vr (unsetKeyOp h vr key).2 := by
  unfold unsetKeyOp
  simp only
  cases hm : vr.map with
  | none =>
    simp only [mapClone]
    exact ⟨HExt.refl ge.s ge.i ge.m, VarStep.refl _ _ _⟩
  | some id0 =>
    simp only [mapClone]
    refine ⟨⟨Ext.refl ge.s, Ext.refl ge.i, ?_⟩, ⟨Or.inl rfl, Or.inl rfl, Or.inr ?_⟩⟩
    · simp only
      exact appendUpd_ext _ _ _ ge.m
    · intro id e
      simp only [Option.some.injEq] at e
      subst e
      exact ⟨ge.m, by rw [length_updMap]; simp⟩

theorem unsetElemOp_ext {n : Sz} (g : Grows) {h : Heap} (vr : Var) (k : Nat) (ge : Ge n h) {r : Heap × Var}
    (e : unsetElemOp g h vr k = some r) : HExt n h r.1 ∧ VarStep n r.1 vr r.2 := by
  unfold unsetElemOp at e
  simp only at e
  have c := cloneBoth_ext g vr.list vr.indexes ge
  split at e
  · cases e
  · next r1 h1 =>
    cases e
    have x := deleteIndexedElem_ext c.1.ge c.2 h1
    exact ⟨c.1.trans x.1, ⟨Or.inr x.2.l, Or.inr x.2.i, Or.inl rfl⟩⟩

theorem arrayLitOp_ext {n : Sz} (g : Grows) {h : Heap} (prev : Var) (append : Bool) (vals : List Bytes) (ge : Ge n h)
    {r : Heap × Var} (e : arrayLitOp g h prev append vals = some r) : HExt n h r.1 ∧ VarStep n r.1 prev r.2 := by
  unfold arrayLitOp at e
  simp only at e
  -- the base array: nothing, a one-element list, or clones
  have hbase : ∀ b : Heap × Slice × Slice,
      (if (!append) = true then some (h, Slice.nil, Slice.nil)
        else match prev.kind with
          | .unknown => some (h, Slice.nil, Slice.nil)
          | .string => some ({ h with strs := (sliceMake h.strs [prev.str] 1).1 }, (sliceMake h.strs [prev.str] 1).2, Slice.nil)
          | .indexed => some (cloneBoth g h prev.list prev.indexes)
          | .associative => none) = some b → HExt n h b.1 ∧ FreshLI n b.1 b.2.1 b.2.2 := by
    intro b hb
    split at hb
    · cases hb; exact ⟨HExt.refl ge.s ge.i ge.m, ⟨Fresh.nil _ _, Fresh.nil _ _⟩⟩
    · split at hb
      · cases hb; exact ⟨HExt.refl ge.s ge.i ge.m, ⟨Fresh.nil _ _, Fresh.nil _ _⟩⟩
      · cases hb
        have mk := sliceMake_ext (n := n.s) h.strs [prev.str] 1 ge.s
        exact ⟨⟨mk.1, Ext.refl ge.i, Ext.refl ge.m⟩, ⟨mk.2, Fresh.nil _ _⟩⟩
      · cases hb; exact cloneBoth_ext g prev.list prev.indexes ge
      · cases hb
  split at e
  · cases e; exact ⟨HExt.refl ge.s ge.i ge.m, ⟨Or.inl rfl, Or.inl rfl, Or.inl rfl⟩⟩
  · next b hb =>
    have bb := hbase b hb
    split at e
    · cases e
    · next r1 h1 =>
      cases e
      have x := assignElems_ext g vals _ _ _ _ _ bb.1.ge bb.2 h1
      refine ⟨bb.1.trans x.1, ⟨Or.inr ?_, Or.inr x.2.i, Or.inl rfl⟩⟩
      simp only
      split
      · exact Fresh.empty _ _
      · exact x.2.l

/-! ### one step of one side -/

theorem mem_aset {κ ν : Type} [DecidableEq κ] {l : List (κ × ν)} {k : κ} {v : ν} {x : κ × ν}
    (hx : x ∈ aset l k v) : x = (k, v) ∨ x ∈ l := by
  induction l with
  | nil => simp only [aset, List.mem_singleton] at hx; exact Or.inl hx
  | cons a rest ih =>
    obtain ⟨k', w⟩ := a
    simp only [aset] at hx
    split at hx
    · next hk =>
      simp only [List.mem_cons] at hx
      rcases hx with hx | hx
      · left; rw [hx, hk]
      · right; exact List.mem_cons_of_mem _ hx
    · simp only [List.mem_cons] at hx
      rcases hx with hx | hx
      · right; rw [hx]; exact List.mem_cons_self
      · rcases ih hx with h1 | h1
        · exact Or.inl h1
        · right; exact List.mem_cons_of_mem _ h1

theorem alookup_mem {κ ν : Type} [DecidableEq κ] {l : List (κ × ν)} {k : κ} {v : ν}
    (h : alookup l k = some v) : (k, v) ∈ l := by
  induction l with
  | nil => simp [alookup] at h
  | cons a rest ih =>
    obtain ⟨k', w⟩ := a
    simp only [alookup] at h
    split at h
    · next hk => simp only [Option.some.injEq] at h; subst h; subst hk; exact List.mem_cons_self
    · exact List.mem_cons_of_mem _ (ih h)

/-- a variable slot of the side's table: either the default (no storage) or an entry of the table -/
theorem get_cases (s : Side) (name : Bytes) : s.get name = {} ∨ (name, s.get name) ∈ s.vars := by
  unfold Side.get
  cases h : alookup s.vars name with
  | none => left; rfl
  | some v => right; exact alookup_mem h

theorem mem_sliceArr {s : Slice} {id : Nat} (h : id ∈ sliceArr s) : ¬ (s.len = 0 ∧ s.cap = 0) ∧ id = s.arr := by
  unfold sliceArr at h
  split at h
  · cases h
  · next hc => simp only [List.mem_singleton] at h; exact ⟨hc, h⟩

/-- what a step may do, relative to the heap before it -/
structure StepOK (h : Heap) (s : Side) (h' : Heap) (s' : Side) : Prop where
  strs : ∀ id, id < h.strs.length → h'.strs[id]? ≠ h.strs[id]? → ¬ (s.dirStack.len = 0 ∧ s.dirStack.cap = 0) ∧ id = s.dirStack.arr
  ints : ∀ id, id < h.ints.length → h'.ints[id]? = h.ints[id]?
  maps : ∀ id, id < h.maps.length → h'.maps[id]? = h.maps[id]?
  ls : h.strs.length ≤ h'.strs.length
  li : h.ints.length ≤ h'.ints.length
  lm : h.maps.length ≤ h'.maps.length
  rstrs : ∀ id ∈ (reach s').strs, id ∈ (reach s).strs ∨ (h.strs.length ≤ id ∧ id < h'.strs.length)
  rints : ∀ id ∈ (reach s').ints, id ∈ (reach s).ints ∨ (h.ints.length ≤ id ∧ id < h'.ints.length)
  rmaps : ∀ id ∈ (reach s').maps, id ∈ (reach s).maps ∨ (h.maps.length ≤ id ∧ id < h'.maps.length)
  dir : (s'.dirStack.len = 0 ∧ s'.dirStack.cap = 0) ∨
        (¬ (s.dirStack.len = 0 ∧ s.dirStack.cap = 0) ∧ s'.dirStack.arr = s.dirStack.arr) ∨
        (h.strs.length ≤ s'.dirStack.arr ∧ s'.dirStack.arr < h'.strs.length)

theorem ge_self (h : Heap) : Ge (szOf h) h := ⟨Nat.le_refl _, Nat.le_refl _, Nat.le_refl _⟩

/-- a step that only replaces one variable by a `VarStep` of the old one and extends the heap -/
theorem stepOK_put {h h' : Heap} {s : Side} {name : Bytes} {v : Var}
    (x : HExt (szOf h) h h') (vs : VarStep (szOf h) h' (s.get name) v) : StepOK h s h' (s.put name v) := by
  have old_l : ∀ id ∈ sliceArr (s.get name).list, id ∈ (reach s).strs := by
    intro id hid
    rcases get_cases s name with e | m
    · rw [e] at hid; simp [sliceArr, Slice.nil] at hid
    · simp only [reach, List.mem_append, List.mem_flatMap]
      exact Or.inl (Or.inl ⟨_, m, hid⟩)
  have old_i : ∀ id ∈ sliceArr (s.get name).indexes, id ∈ (reach s).ints := by
    intro id hid
    rcases get_cases s name with e | m
    · rw [e] at hid; simp [sliceArr, Slice.nil] at hid
    · simp only [reach, List.mem_flatMap]
      exact ⟨_, m, hid⟩
  have old_m : ∀ id ∈ (s.get name).map.toList, id ∈ (reach s).maps := by
    intro id hid
    rcases get_cases s name with e | m
    · rw [e] at hid; simp at hid
    · simp only [reach, List.mem_flatMap]
      exact ⟨_, m, hid⟩
  refine ⟨?_, ?_, ?_, x.strs.2, x.ints.2, x.maps.2, ?_, ?_, ?_, ?_⟩
  · intro id hid hne
    exact absurd (x.strs.1.getElem? hid) hne
  · intro id hid; exact x.ints.1.getElem? hid
  · intro id hid; exact x.maps.1.getElem? hid
  · intro id hid
    simp only [reach, Side.put, List.mem_append, List.mem_flatMap] at hid
    rcases hid with (⟨nv, hnv, hin⟩ | hp) | hd
    · rcases mem_aset hnv with e | m
      · subst e
        rcases vs.l with e | f
        · simp only at hin
          rw [e] at hin
          exact Or.inl (old_l id hin)
        · have := mem_sliceArr hin
          rcases f with f | f
          · exact absurd f this.1
          · right
            simp only [szOf] at f
            rw [this.2]; exact f
      · left
        simp only [reach, List.mem_append, List.mem_flatMap]
        exact Or.inl (Or.inl ⟨nv, m, hin⟩)
    · left; simp only [reach, List.mem_append]; exact Or.inl (Or.inr hp)
    · left; simp only [reach, List.mem_append]; exact Or.inr hd
  · intro id hid
    simp only [reach, Side.put, List.mem_flatMap] at hid
    obtain ⟨nv, hnv, hin⟩ := hid
    rcases mem_aset hnv with e | m
    · subst e
      rcases vs.i with e | f
      · simp only at hin
        rw [e] at hin
        exact Or.inl (old_i id hin)
      · have := mem_sliceArr hin
        rcases f with f | f
        · exact absurd f this.1
        · right
          simp only [szOf] at f
          rw [this.2]; exact f
    · left
      simp only [reach, List.mem_flatMap]
      exact ⟨nv, m, hin⟩
  · intro id hid
    simp only [reach, Side.put, List.mem_flatMap] at hid
    obtain ⟨nv, hnv, hin⟩ := hid
    rcases mem_aset hnv with e | m
    · subst e
      rcases vs.m with e | f
      · simp only at hin
        rw [e] at hin
        exact Or.inl (old_m id hin)
      · right
        simp only [Option.mem_toList, Option.mem_def] at hin
        have := f id hin
        simp only [szOf] at this
        exact this
    · left
      simp only [reach, List.mem_flatMap]
      exact ⟨nv, m, hin⟩
  · by_cases hc : s.dirStack.len = 0 ∧ s.dirStack.cap = 0
    · exact Or.inl hc
    · exact Or.inr (Or.inl ⟨hc, rfl⟩)

/-- a step that changes nothing -/
theorem stepOK_refl (h : Heap) (s : Side) : StepOK h s h s := by
  refine ⟨fun _ _ hne => absurd rfl hne, fun _ _ => rfl, fun _ _ => rfl, Nat.le_refl _, Nat.le_refl _, Nat.le_refl _,
    fun _ hid => Or.inl hid, fun _ hid => Or.inl hid, fun _ hid => Or.inl hid, ?_⟩
  by_cases hc : s.dirStack.len = 0 ∧ s.dirStack.cap = 0
  · exact Or.inl hc
  · exact Or.inr (Or.inl ⟨hc, rfl⟩)

theorem updArr_other {α : Type} (h : ArrHeap α) (id0 id : Nat) (f) (hne : id ≠ id0) : (updArr h id0 f)[id]? = h[id]? := by
  unfold updArr
  rw [List.getElem?_set]
  have : ¬ id0 = id := fun e => hne e.symm
  simp [this]

/-- writes through a slice change its own array only -/
theorem sliceSet_only {α : Type} {h h' : ArrHeap α} {s : Slice} {i : Nat} {v : α} (e : sliceSet h s i v = some h') :
    h'.length = h.length ∧ ∀ id, id ≠ s.arr → h'[id]? = h[id]? := by
  unfold sliceSet at e
  split at e
  · cases e
    exact ⟨length_updArr _ _ _, fun id hne => updArr_other _ _ _ _ hne⟩
  · cases e

/-- `append` either writes its own array in place or allocates -/
theorem sliceAppend_cases {α : Type} [Inhabited α] (g : Grow) (h : ArrHeap α) (s : Slice) (v : α) :
    (s.cap ≠ 0 ∧ (sliceAppend g h s v).2.arr = s.arr ∧ (sliceAppend g h s v).2.cap = s.cap ∧
      (sliceAppend g h s v).1.length = h.length ∧ ∀ id, id ≠ s.arr → (sliceAppend g h s v).1[id]? = h[id]?) ∨
    ((sliceAppend g h s v).2.arr = h.length ∧ (sliceAppend g h s v).2.cap ≠ 0 ∧
      (sliceAppend g h s v).1.length = h.length + 1 ∧ ∀ id, id < h.length → (sliceAppend g h s v).1[id]? = h[id]?) := by
  unfold sliceAppend
  split
  · next hl =>
    left
    refine ⟨by omega, rfl, rfl, ?_, ?_⟩
    · simp only; exact length_updArr _ _ _
    · intro id hne
      simp only
      exact updArr_other _ _ _ _ hne
  · next hl =>
    right
    refine ⟨rfl, ?_, by simp, ?_⟩
    · simp only [newCap]; omega
    · intro id hid
      simp only
      exact List.getElem?_append_left hid

theorem stepOK_pushdN (g : Grows) {h : Heap} {s : Side} {dir : Bytes} {r : Heap × Side}
    (e : step g h s (.pushdN dir) = some r) : StepOK h s r.1 r.2 := by
  simp only [step] at e
  split at e
  · split at e
    · cases e
    · split at e
      · cases e
      · next s1 hs1 =>
        split at e
        · cases e
        · next s2 hs2 =>
          cases e
          have o1 := sliceSet_only hs1
          have o2 := sliceSet_only hs2
          have hl2 : s2.length = (sliceAppend g.strs h.strs s.dirStack dir).1.length := by rw [o2.1, o1.1]
          have hch : ∀ id, id ≠ (sliceAppend g.strs h.strs s.dirStack dir).2.arr →
              s2[id]? = (sliceAppend g.strs h.strs s.dirStack dir).1[id]? := by
            intro id hne; rw [o2.2 id hne, o1.2 id hne]
          rcases sliceAppend_cases g.strs h.strs s.dirStack dir with ⟨hc, harr, hcap, hlen, hoth⟩ | ⟨harr, hcap, hlen, hold⟩
          · -- in place on the side's own dirStack array
            refine ⟨?_, fun _ _ => rfl, fun _ _ => rfl, by simp only; rw [hl2, hlen]; exact Nat.le_refl _, Nat.le_refl _, Nat.le_refl _,
              ?_, fun _ hid => Or.inl hid, fun _ hid => Or.inl hid, Or.inr (Or.inl ⟨fun hh => hc hh.2, harr⟩)⟩
            · intro id _ hne
              simp only at hne
              by_cases hd : id = s.dirStack.arr
              · exact ⟨fun hh => hc hh.2, hd⟩
              · exfalso; apply hne
                rw [hch id (by rw [harr]; exact hd), hoth id hd]
            · intro id hid
              simp only [reach, List.mem_append] at hid ⊢
              rcases hid with (hv | hp) | hd
              · exact Or.inl (Or.inl (Or.inl hv))
              · exact Or.inl (Or.inl (Or.inr hp))
              · have m := mem_sliceArr hd
                left; right
                unfold sliceArr
                have : ¬ (s.dirStack.len = 0 ∧ s.dirStack.cap = 0) := fun hh => hc hh.2
                simp only [this, if_false, List.mem_singleton]
                rw [m.2, harr]
          · -- a new array
            refine ⟨?_, fun _ _ => rfl, fun _ _ => rfl, by simp only; rw [hl2, hlen]; omega, Nat.le_refl _, Nat.le_refl _,
              ?_, fun _ hid => Or.inl hid, fun _ hid => Or.inl hid, Or.inr (Or.inr ⟨by simp only; rw [harr]; exact Nat.le_refl _, by simp only; rw [hl2, hlen, harr]; omega⟩)⟩
            · intro id hid hne
              simp only at hne
              exfalso; apply hne
              rw [hch id (by rw [harr]; omega), hold id hid]
            · intro id hid
              simp only [reach, List.mem_append] at hid ⊢
              rcases hid with (hv | hp) | hd
              · exact Or.inl (Or.inl (Or.inl hv))
              · exact Or.inl (Or.inl (Or.inr hp))
              · have m := mem_sliceArr hd
                right
                rw [m.2, harr, hl2, hlen]
                omega
  · cases e

theorem stepOK_popdN (g : Grows) {h : Heap} {s : Side} {r : Heap × Side}
    (e : step g h s .popdN = some r) : StepOK h s r.1 r.2 := by
  simp only [step] at e
  split at e
  · cases e; exact stepOK_refl h s
  · next hlen =>
    split at e
    · next oldtop ds _ hto =>
      split at e
      · cases e
      · next s1 hs1 =>
        cases e
        have o1 := sliceSet_only hs1
        have harr : ds.arr = s.dirStack.arr := by
          unfold sliceTo at hto
          split at hto
          · cases hto; rfl
          · cases hto
        have hst : ¬ (s.dirStack.len = 0 ∧ s.dirStack.cap = 0) := by
          intro hh; omega
        refine ⟨?_, fun _ _ => rfl, fun _ _ => rfl, by simp only; rw [o1.1]; exact Nat.le_refl _, Nat.le_refl _, Nat.le_refl _,
          ?_, fun _ hid => Or.inl hid, fun _ hid => Or.inl hid, Or.inr (Or.inl ⟨hst, harr⟩)⟩
        · intro id _ hne
          simp only at hne
          by_cases hd : id = s.dirStack.arr
          · exact ⟨hst, hd⟩
          · exfalso; apply hne
            rw [o1.2 id (by rw [harr]; exact hd)]
        · intro id hid
          simp only [reach, List.mem_append] at hid ⊢
          rcases hid with (hv | hp) | hd
          · exact Or.inl (Or.inl (Or.inl hv))
          · exact Or.inl (Or.inl (Or.inr hp))
          · have m := mem_sliceArr hd
            left; right
            unfold sliceArr
            simp only [hst, if_false, List.mem_singleton]
            rw [m.2, harr]
    · cases e

end ShVerif.C32
