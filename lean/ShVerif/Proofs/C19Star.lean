import ShVerif.Proofs.C19
/-
  C19 — the `**` walk (explicit stack, fuel) against the reachability relation `StarReach`, and the
  component loop with `**` against `SelStar`.
-/
namespace ShVerif.C19
open ShVerif ShVerif.L3

/-- What the `**` walk may reach from the prefix `d`: `d` itself and, repeatedly, the entries
    (not starting with a dot unless dotglob; directories only when `wantDir`) of anything reached. -/
inductive StarReach (rd : Reader) (base : Str) (dotglob wantDir : Bool) : Str → Str → Prop
  | refl (d : Str) : StarReach rd base dotglob wantDir d d
  | step {d y x : Str} {l : List Str} : StarReach rd base dotglob wantDir d y →
      globDir rd base y (starName dotglob) wantDir = .ok l → x ∈ l → StarReach rd base dotglob wantDir d x

def StepStar (rd : Reader) (mk : Matcher) (cfg : Cfg) (base : Str) (wantDir : Bool) (p d x : Str) : Prop :=
  if isGlobStar cfg p = true then StarReach rd base cfg.dotglob wantDir (pathJoin2 d []) x
  else Step rd mk cfg base wantDir p d x

inductive SelStar (rd : Reader) (mk : Matcher) (cfg : Cfg) (base : Str) : List Str → Str → Str → Prop
  | done (d : Str) : SelStar rd mk cfg base [] d d
  | step {p : Str} {rest : List Str} {d x r : Str} :
      StepStar rd mk cfg base (!rest.isEmpty) p d x → SelStar rd mk cfg base rest x r →
      SelStar rd mk cfg base (p :: rest) d r

/-- The entries the walk pushes for `dir` (nothing when it cannot be read). -/
def starKids (rd : Reader) (base : Str) (dotglob wantDir : Bool) (dir : Str) : List Str :=
  match globDir rd base dir (starName dotglob) wantDir with
  | .ok l => l
  | .error _ => []

theorem starReach_trans_step {rd : Reader} {base : Str} {dg wd : Bool} {c x : Str} {dir : Str}
    (hc : c ∈ starKids rd base dg wd dir) (h : StarReach rd base dg wd c x) : StarReach rd base dg wd dir x := by
  induction h with
  | refl =>
    unfold starKids at hc
    cases hg : globDir rd base dir (starName dg) wd with
    | error e => simp [hg] at hc
    | ok l => simp only [hg] at hc; exact StarReach.step (StarReach.refl dir) hg hc
  | step _ hg hx ih => exact StarReach.step ih hg hx

/-- Left decomposition: reachable from `dir` = `dir` itself or reachable from one of its entries. -/
theorem starReach_iff {rd : Reader} {base : Str} {dg wd : Bool} (dir x : Str) :
    StarReach rd base dg wd dir x ↔ x = dir ∨ ∃ c ∈ starKids rd base dg wd dir, StarReach rd base dg wd c x := by
  constructor
  · intro h
    induction h with
    | refl => exact Or.inl rfl
    | step hy hg hx ih =>
      rename_i y x' l
      rcases ih with rfl | ⟨c, hc, hcy⟩
      · right
        refine ⟨x', ?_, StarReach.refl x'⟩
        unfold starKids; simp only [hg]; exact hx
      · exact Or.inr ⟨c, hc, StarReach.step hcy hg hx⟩
  · rintro (rfl | ⟨c, hc, h⟩)
    · exact StarReach.refl _
    · exact starReach_trans_step hc h

/-- The walk, when it finishes, has visited exactly what was already collected plus everything
    reachable from the stack. -/
theorem starWalk_mem {rd : Reader} {base : Str} {dg wd : Bool} :
    ∀ (fuel : Nat) (stack acc out : List Str), starWalk rd base dg wd fuel stack acc = some out →
      ∀ x, x ∈ out ↔ x ∈ acc ∨ ∃ d ∈ stack, StarReach rd base dg wd d x := by
  intro fuel
  induction fuel with
  | zero =>
    intro stack acc out h x
    cases stack with
    | nil => simp only [starWalk, Option.some.injEq] at h; subst h; simp
    | cons d rest => simp [starWalk] at h
  | succ fuel ih =>
    intro stack acc out h x
    cases stack with
    | nil => simp only [starWalk, Option.some.injEq] at h; subst h; simp
    | cons dir rest =>
      simp only [starWalk] at h
      have := ih (starKids rd base dg wd dir ++ rest) (dir :: acc) out (by unfold starKids; exact h) x
      rw [this]
      simp only [List.mem_cons, List.mem_append]
      constructor
      · rintro ((rfl | hx) | ⟨d, hd | hd, hr⟩)
        · exact Or.inr ⟨x, Or.inl rfl, StarReach.refl x⟩
        · exact Or.inl hx
        · exact Or.inr ⟨dir, Or.inl rfl, starReach_trans_step hd hr⟩
        · exact Or.inr ⟨d, Or.inr hd, hr⟩
      · rintro (hx | ⟨d, rfl | hd, hr⟩)
        · exact Or.inl (Or.inr hx)
        · rcases (starReach_iff d x).mp hr with rfl | ⟨c, hc, hcx⟩
          · exact Or.inl (Or.inl rfl)
          · exact Or.inr ⟨c, Or.inl hc, hcx⟩
        · exact Or.inr ⟨d, Or.inr hd, hr⟩

/-- One component, `**` included. -/
theorem globPart_memStar {rd : Reader} {mk : Matcher} {cfg : Cfg} {base : Str} {wantDir : Bool}
    {ms out : List Str} {p : Str}
    (h : globPart rd mk cfg base wantDir ms p = .ok out) (x : Str) :
    x ∈ out ↔ ∃ d ∈ ms, StepStar rd mk cfg base wantDir p d x := by
  by_cases hgs : isGlobStar cfg p = true
  · have hp : p = [cStar, cStar] ∧ cfg.globstar = true := by
      simpa [isGlobStar] using hgs
    obtain ⟨rfl, hgst⟩ := hp
    have hsp : isSpecialPart [cStar, cStar] = false := by decide
    have hm : hasMeta [cStar, cStar] = true := by decide
    unfold globPart at h
    simp only [hsp, Bool.false_eq_true, if_false, hm, Bool.not_true, hgst, and_self, if_true] at h
    cases hw : starWalk rd base cfg.dotglob wantDir walkFuel (ms.map fun d => pathJoin2 d []) [] with
    | none => simp [hw] at h
    | some l =>
      simp only [hw] at h
      cases h
      rw [starWalk_mem _ _ _ _ hw x]
      simp only [List.not_mem_nil, false_or, List.mem_map, StepStar, hgs, if_true]
      constructor
      · rintro ⟨_, ⟨d, hd, rfl⟩, hr⟩; exact ⟨d, hd, hr⟩
      · rintro ⟨d, hd, hr⟩; exact ⟨_, ⟨d, hd, rfl⟩, hr⟩
  · have hgs' : isGlobStar cfg p = false := by simpa using hgs
    rw [globPart_mem hgs' h x]
    simp [StepStar, hgs']

theorem globLoop_selStar {rd : Reader} {mk : Matcher} {cfg : Cfg} {base : Str} :
    ∀ (parts : List Str) (ms out : List Str),
      globLoop rd mk cfg base ms parts = .ok out →
      ∀ r, r ∈ out ↔ ∃ d ∈ ms, SelStar rd mk cfg base parts d r := by
  intro parts
  induction parts with
  | nil =>
    intro ms out h r
    simp only [globLoop] at h
    cases h
    constructor
    · intro hr; exact ⟨r, hr, SelStar.done r⟩
    · rintro ⟨d, hd, hs⟩
      cases hs
      exact hd
  | cons p rest ih =>
    intro ms out h r
    simp only [globLoop] at h
    cases hp : globPart rd mk cfg base (!rest.isEmpty) ms p with
    | error e => simp [hp] at h
    | ok m' =>
      simp only [hp] at h
      have hp1 := globPart_memStar hp
      rw [ih m' out h r]
      constructor
      · rintro ⟨x, hx, hs⟩
        obtain ⟨d, hd, hst⟩ := (hp1 x).mp hx
        exact ⟨d, hd, SelStar.step hst hs⟩
      · rintro ⟨d, hd, hs⟩
        cases hs with
        | step hst hs' => exact ⟨_, (hp1 _).mpr ⟨d, hd, hst⟩, hs'⟩

end ShVerif.C19
